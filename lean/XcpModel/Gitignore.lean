import XcpModel.Backup
/-! # A specification of git's ignore-pattern semantics for the fragment C17 quantifies over

Literals, `*`, `?`, `**/` (leading, inner, and trailing `/**`), trailing `/` (directory-only), leading `/`
or an inner `/` (anchored at the root), `!` negation, comments (`#`, with `\#` a literal) and blank lines;
the LAST matching line decides.  This is a specification written from gitignore(5), not a model of the
`ignore`/`globset` crates: the correspondence check compares it three ways (xcp, this spec, `git
check-ignore`). -/
namespace Xcp.Gi

open Xcp

inductive Tok | lit (b : UInt8) | star | qmark
deriving DecidableEq, Repr

inductive Seg | dstar | glob (g : List Tok)
deriving DecidableEq, Repr

structure Pattern where
  negated : Bool
  dirOnly : Bool
  anchored : Bool
  segs : List Seg
deriving DecidableEq, Repr

/-- `*` any run (possibly empty) of bytes, `?` exactly one; a component never contains `/`.
Structural on the pattern; `*` tries every split of the candidate. -/
def matchGlob : List Tok → List UInt8 → Bool
  | [], s => s.isEmpty
  | .lit b :: p, c :: s => b = c && matchGlob p s
  | .lit _ :: _, [] => false
  | .qmark :: p, _ :: s => matchGlob p s
  | .qmark :: _, [] => false
  | .star :: p, s => (List.range (s.length + 1)).any fun k => matchGlob p (s.drop k)

/-- match pattern segments against path components; `**` = zero or more whole components, except that a
trailing `/**` needs at least one component below. Fuel-free: structural on the pair by a measure folded
into an explicit fuel equal to segs + comps. -/
def matchSegsF : (fuel : Nat) → List Seg → List Name → Bool
  | 0, _, _ => false
  | _+1, [], cs => cs.isEmpty
  | _+1, [.dstar], cs => !cs.isEmpty
  | f+1, .dstar :: ps, cs =>
    matchSegsF f ps cs || (match cs with | [] => false | _ :: r => matchSegsF f (.dstar :: ps) r)
  | f+1, .glob g :: ps, c :: cs => matchGlob g c && matchSegsF f ps cs
  | _+1, .glob _ :: _, [] => false

def matchSegs (ps : List Seg) (cs : List Name) : Bool := matchSegsF (ps.length + cs.length + 1) ps cs

def lastName : List Name → Option Name
  | [] => none
  | [x] => some x
  | _ :: r => lastName r

/-- does one pattern match the path `comps` (relative to the directory holding the .gitignore)? -/
def Pattern.matches (p : Pattern) (comps : List Name) (isDir : Bool) : Bool :=
  if p.dirOnly && !isDir then false
  else if p.anchored then matchSegs p.segs comps
  else match lastName comps, p.segs with
    | some b, [.glob g] => matchGlob g b
    | _, _ => matchSegs (.dstar :: p.segs) comps

inductive Verdict | none | ignore | whitelist
deriving DecidableEq, Repr

/-- last matching line wins -/
def decide (ps : List Pattern) (comps : List Name) (isDir : Bool) : Verdict :=
  ps.foldl (fun v p => if p.matches comps isDir then (if p.negated then .whitelist else .ignore) else v) .none

/-- the walker's filter for one entry below the root -/
def keeps (ps : List Pattern) (comps : List Name) (isDir : Bool) : Bool := decide ps comps isDir != .ignore

/-! ## Parsing one line -/

def toks : List UInt8 → List Tok
  | [] => []
  | 42 :: r => .star :: toks r
  | 63 :: r => .qmark :: toks r
  | b :: r => .lit b :: toks r

def splitSlash : List UInt8 → List (List UInt8)
  | [] => [[]]
  | 47 :: r => [] :: splitSlash r
  | b :: r => match splitSlash r with
    | [] => [[b]]
    | h :: t => (b :: h) :: t

def trimEnd (l : List UInt8) : List UInt8 := (l.reverse.dropWhile (fun b => b = 32 || b = 9 || b = 13)).reverse

def mkSeg (s : List UInt8) : Seg := if s = [42, 42] then .dstar else .glob (toks s)

/-- `none` for blank lines and comments -/
def parseLine (raw : List UInt8) : Option Pattern :=
  let l := trimEnd raw
  match l with
  | [] => none
  | 35 :: _ => none                         -- '#'
  | _ =>
    let (neg, l1) := match l with | 33 :: r => (true, r) | _ => (false, l)          -- '!'
    let l2 := match l1 with | 92 :: 35 :: r => 35 :: r | 92 :: 33 :: r => 33 :: r | _ => l1   -- `\#`, `\!`
    let (dirOnly, l3) := match l2.reverse with | 47 :: r => (true, r.reverse) | _ => (false, l2)
    let (lead, l4) := match l3 with | 47 :: r => (true, r) | _ => (false, l3)
    if l4.isEmpty then none else
    let parts := (splitSlash l4).filter (· ≠ [])
    some { negated := neg, dirOnly := dirOnly, anchored := lead || l4.contains 47, segs := parts.map mkSeg }

def splitLines : List UInt8 → List (List UInt8)
  | [] => [[]]
  | 10 :: r => [] :: splitLines r
  | b :: r => match splitLines r with
    | [] => [[b]]
    | h :: t => (b :: h) :: t

def parse (text : List UInt8) : List Pattern := (splitLines text).filterMap parseLine

end Xcp.Gi
