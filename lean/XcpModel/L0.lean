import XcpModel.Walker
/-! # Concurrent execution of the walker's operations (L0) over the namespace model

The walker reaches the operations in walk order.  Directory creation (and a failure of the walk) happens
in the walker itself, synchronously; every other operation is handed to the workers (parfile: the work
channel; parblock: the file queue, then the dispatcher/pool) and completes at SOME later moment — any queued
operation may be the next to complete, and the walker may run ahead arbitrarily.  This over-approximates both
drivers (FIFO hand-out, any completion order, any number of workers), so a statement for every label sequence
covers every interleaving, worker count and driver.  The first failure marks the run failed. -/
namespace Xcp.L0

open Xcp

/-- executed by the walker itself, at its position in walk order -/
def isSync : Op → Bool
  | .mkdir _ => true
  | .fail => true
  | _ => false

structure St where
  fs : Fs
  todo : List Op        -- not yet reached by the walker, in walk order
  queue : List Op       -- handed to the workers, not yet completed
  failed : Bool

inductive Label
  | walk                -- the walker reaches its next operation
  | exec (i : Nat)      -- the i-th queued operation completes
deriving DecidableEq, Repr

def init (fs : Fs) (ops : List Op) : St := { fs := fs, todo := ops, queue := [], failed := false }

def step (c : Cfg) (s : St) : Label → Option St
  | .walk =>
    if s.failed then none else
    match s.todo with
    | [] => none
    | op :: r =>
      if isSync op then
        match execOp s.fs c op with
        | some fs' => some { s with fs := fs', todo := r }
        | none => some { s with todo := [], failed := true }
      else some { s with todo := r, queue := s.queue ++ [op] }
  | .exec i =>
    match s.queue[i]? with
    | some op =>
      match execOp s.fs c op with
      | some fs' => some { s with fs := fs', queue := s.queue.eraseIdx i }
      | none => some { s with queue := s.queue.eraseIdx i, failed := true }
    | none => none

def run (c : Cfg) (s : St) : List Label → Option St
  | [] => some s
  | l :: ls => match step c s l with
    | some s' => run c s' ls
    | none => none

def final (s : St) : Bool := s.todo.isEmpty && s.queue.isEmpty

/-- sequential execution as a partial function: `none` as soon as an operation fails -/
def seqExec (c : Cfg) : Option Fs → List Op → Option Fs
  | none, _ => none
  | some fs, [] => some fs
  | some fs, op :: r => seqExec c (execOp fs c op) r

end Xcp.L0
