/-! # Error plumbing of both drivers and of `main` (L0, component `Errs`)

For every kind of step xcp performs, in which thread it runs and what happens when it fails: an `Error`
status update is sent, the thread's function returns `Err` (propagated through the joins to `copy()` and to
`main`), both, or neither (the failure is only logged).  `main` exits non-zero on the first `Error` update it
reads, or when the joined driver thread returned `Err`.  Transcribed from src/main.rs,
libxcp/src/operations.rs, libxcp/src/drivers/{parfile,parblock}.rs after the `fix:` commits. -/
namespace Xcp.Errs

inductive Driver | parfile | parblock
deriving DecidableEq, Repr

inductive Site
  -- tree_walker
  | walkerStat | walkerReaddir | walkerCanonicalize | walkerReadlink | walkerMkdir | walkerNoClobber | walkerUnknownKind
  -- CopyHandle::new and copy_file, in the worker (parfile) or the dispatcher (parblock)
  | openSrc | fstatSrc | sameFileStat | backupReaddir | backupRename | createDst | truncateDst
  | cloneHard | sparseStat | fiemapHard | seek
  -- moving bytes: the worker's loop (parfile) or a pool job (parblock)
  | dataCopy
  -- Drop → finalise_copy
  | finXattr | finChown | finStat | finChmod | finUtimens | finFsync
  -- Link and Special operations
  | symlink | specialProbeDest | specialStat | specialUnlink | specialMknod
  -- the test "is the destination an existing directory?" that decides the MAPPING (DEST/name or DEST itself), in main
  -- and in the walker; after the `fix:` commit (F12) it is fallible (`is_dir_checked`): a failing lookup returns `Err`
  | destProbe
deriving DecidableEq, Repr

structure Report where
  update : Bool      -- an `Error` status update is sent
  ret : Bool         -- the thread returns `Err`, which reaches `copy()`'s caller through the joins
deriving DecidableEq, Repr

def report : Driver → Site → Report
  | _, .walkerNoClobber => ⟨true, true⟩
  | _, .walkerStat => ⟨false, true⟩
  | _, .walkerReaddir => ⟨false, true⟩
  | _, .walkerCanonicalize => ⟨false, true⟩
  | _, .walkerReadlink => ⟨false, true⟩
  | _, .walkerMkdir => ⟨false, true⟩
  | _, .walkerUnknownKind => ⟨false, true⟩
  | _, .openSrc => ⟨true, true⟩
  | _, .fstatSrc => ⟨true, true⟩
  | _, .sameFileStat => ⟨true, true⟩
  | _, .backupReaddir => ⟨true, true⟩
  | _, .backupRename => ⟨true, true⟩
  | _, .createDst => ⟨true, true⟩
  | _, .truncateDst => ⟨true, true⟩
  | _, .cloneHard => ⟨true, true⟩
  | _, .sparseStat => ⟨true, true⟩
  | _, .fiemapHard => ⟨true, true⟩
  | _, .seek => ⟨true, true⟩
  | .parfile, .dataCopy => ⟨true, true⟩
  | .parblock, .dataCopy => ⟨true, false⟩          -- a pool job can only report through the channel
  | _, .finXattr => ⟨false, false⟩
  | _, .finChown => ⟨false, false⟩
  | _, .finStat => ⟨false, false⟩
  | _, .finChmod => ⟨false, false⟩
  | _, .finUtimens => ⟨false, false⟩
  | _, .finFsync => ⟨false, false⟩
  | _, .symlink => ⟨true, true⟩
  | _, .specialProbeDest => ⟨false, false⟩
  | _, .specialStat => ⟨false, true⟩
  | _, .specialUnlink => ⟨false, true⟩
  | _, .specialMknod => ⟨false, true⟩
  | _, .destProbe => ⟨false, true⟩

/-- the steps the property lists as needed to produce the destination ("opening or reading a source, creating,
sizing or writing a file, creating a directory, link or node, renaming a backup, listing a directory, applying
requested permissions/timestamps or the requested fsync"); extended attributes and ownership are documented
warnings; existence probes are not steps -/
def required : Site → Bool
  | .finXattr => false
  | .finChown => false
  | .destProbe => false
  | .specialProbeDest => false
  | _ => true

def isFinalise : Site → Bool
  | .finXattr | .finChown | .finStat | .finChmod | .finUtimens | .finFsync => true
  | _ => false

/-- exit status of the CLI: `true` = non-zero.  `main` returns on the first `Error` update or propagates the
driver's `Err`. -/
def exitNonZero (d : Driver) (failed : List Site) : Bool :=
  failed.any fun s => (report d s).update || (report d s).ret

/-- what a library client that ignores updates (NoopUpdater) learns from `copy()`'s return value -/
def copyReturnsErr (d : Driver) (failed : List Site) : Bool :=
  failed.any fun s => (report d s).ret

end Xcp.Errs
