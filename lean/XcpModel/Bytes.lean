/-! # Byte-level model of file content

A regular file's content is a list of bytes.  xcp always pre-sizes the destination
(`File::create` + `ftruncate(len)`), so every data-moving call it makes is an in-place
overwrite of a range of an already sized file.  -/
namespace Xcp

abbrev Byte := UInt8
abbrev Bytes := List Byte

/-- `pwrite`-like overwrite inside an already sized file. -/
def writeAt (dst : Bytes) (off : Nat) (data : Bytes) : Bytes :=
  dst.take off ++ data ++ dst.drop (off + data.length)

/-- The copy of `n` bytes at offset `off` from `src` to the *same* offset of `dst`
(`copy_file_range(in, &off, out, &off, n)`, or `pread`+`pwrite` at `off`). -/
def copyRange (src dst : Bytes) (off n : Nat) : Bytes :=
  writeAt dst off ((src.drop off).take n)

/-- A *job* is `(offset, length)`; running a list of jobs in order. -/
def runJobs (src dst : Bytes) (l : List (Nat × Nat)) : Bytes :=
  l.foldl (fun d j => copyRange src d j.1 j.2) dst

/-- Position `i` is covered by some job of `l`. -/
def covered (l : List (Nat × Nat)) (i : Nat) : Prop := ∃ j ∈ l, j.1 ≤ i ∧ i < j.1 + j.2

instance (l : List (Nat × Nat)) (i : Nat) : Decidable (covered l i) := by
  unfold covered; infer_instance

/-- `File::create` (O_TRUNC) followed by `ftruncate(n)`: whatever was there, the file is `n` zeros. -/
def createAllocate (_old : Option Bytes) (n : Nat) : Bytes := List.replicate n 0

end Xcp
