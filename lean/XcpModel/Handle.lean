import XcpModel.Libfs
import XcpModel.Backup
/-! # Model of `CopyHandle` (libxcp/src/operations.rs): what is done to ONE destination file

`CopyHandle::new` = open source, fstat, same-file guard, backup decision (+rename), `File::create`,
`ftruncate(len)`; `copy_file` = reflink dispatch, else the data copy; `Drop` = `finalise_copy`
(ownership → xattrs+permissions → timestamps → fsync; errors only logged), then both descriptors close.
`Drop` also runs when the copy failed. -/
namespace Xcp

structure Cfg where
  parblock : Bool := false
  workers : Nat := 4
  bsize : Nat := 1048576
  noClobber : Bool := false
  noPerms : Bool := false
  noTimestamps : Bool := false
  ownership : Bool := false
  dereference : Bool := false
  noTargetDir : Bool := false
  fsync : Bool := false
  gitignore : Bool := false
  recursive : Bool := false
  reflink : Reflink := .auto
  backup : BackupMode := .none
  linux : Bool := true
deriving Repr

inductive FStep | chown | setxattrs | chmod | utimens | fsync
deriving DecidableEq, Repr

/-- `finalise_copy`, in program order (after the `fix:` commit: ownership first). -/
def finaliseSteps (c : Cfg) : List FStep :=
  (if c.ownership then [.chown] else []) ++
  (if c.noPerms then [] else [.setxattrs, .chmod]) ++
  (if c.noTimestamps then [] else [.utimens]) ++
  (if c.fsync then [.fsync] else [])

/-- metadata of a regular file as far as C10 speaks about it -/
structure FMeta where
  mode : Nat          -- 12 permission bits
  uid : Nat
  gid : Nat
  mtime : Nat         -- nanoseconds
  xattrs : List (Name × Bytes)   -- user.* attributes
deriving Repr, DecidableEq

def xaGet (l : List (Name × Bytes)) (k : Name) : Option Bytes :=
  match l with
  | [] => none
  | (a, v) :: r => if a = k then some v else xaGet r k

def xaSet (l : List (Name × Bytes)) (k : Name) (v : Bytes) : List (Name × Bytes) :=
  (k, v) :: l.filter (fun kv => kv.1 ≠ k)

/-- effect of one finalisation step on the destination's metadata. `chownFx` is what the kernel's
`chown` does to the mode bits (Linux clears set-user-ID, and set-group-ID when group-execute is set). -/
def applyFStep (src : FMeta) (chownFx : Nat → Nat) (d : FMeta) : FStep → FMeta
  | .chown => { d with uid := src.uid, gid := src.gid, mode := chownFx d.mode }
  | .setxattrs => { d with xattrs := src.xattrs.foldl (fun acc kv => xaSet acc kv.1 kv.2) d.xattrs }
  | .chmod => { d with mode := src.mode }
  | .utimens => { d with mtime := src.mtime }
  | .fsync => d

def finalise (c : Cfg) (src : FMeta) (chownFx : Nat → Nat) (d : FMeta) : FMeta :=
  (finaliseSteps c).foldl (applyFStep src chownFx) d

/-- Linux: `chown` clears S_ISUID (04000), and S_ISGID (02000) when S_IXGRP (010) is set -/
def linuxChownFx (m : Nat) : Nat :=
  let m1 := if m / 2048 % 2 = 1 then m - 2048 else m
  if m1 / 1024 % 2 = 1 ∧ m1 / 8 % 2 = 1 then m1 - 1024 else m1

/-- the metadata-relevant steps in the order of the code BEFORE the fix (permissions, timestamps, ownership):
kept to state the repaired defect as a theorem -/
def finaliseStepsOld (c : Cfg) : List FStep :=
  (if c.noPerms then [] else [.setxattrs, .chmod]) ++
  (if c.noTimestamps then [] else [.utimens]) ++
  (if c.ownership then [.chown] else []) ++
  (if c.fsync then [.fsync] else [])

/-! ## The calls made on one destination file, as seen in a system-call trace -/

inductive FCall
  | create                 -- openat(O_CREAT|O_TRUNC|O_WRONLY)
  | truncate (n : Nat)     -- ftruncate(len)
  | clone (ok : Bool)      -- ioctl(FICLONE)
  | data                   -- any data-moving call writing the destination
  | fin (s : FStep)        -- fchown / fsetxattr / fchmod / utimensat / fsync
deriving DecidableEq, Repr

/-- The program for one file given the clone answer and the number of data calls the copy loop makes.
Returns the calls and whether the copy succeeded. Finalisation runs in `Drop`, also after a failure. -/
def fileProgram (c : Cfg) (len : Nat) (ans : CloneAns) (ndata : Nat) (dataOk : Bool) : List FCall × Bool :=
  let r := tryReflink c.reflink c.linux ans
  let pre := [FCall.create, .truncate len] ++ (if r.1 then [.clone (r.2 = .cloned)] else [])
  let fin := (finaliseSteps c).map FCall.fin
  match r.2 with
  | .cloned => (pre ++ fin, true)
  | .failed => (pre ++ fin, false)
  | .copy => (pre ++ List.replicate ndata .data ++ fin, dataOk)

def isFin : FCall → Bool | .fin _ => true | _ => false
def isData : FCall → Bool | .data => true | _ => false
def isClone : FCall → Bool | .clone _ => true | _ => false

/-- Trace monitor: what the theorems of C10/C15/C18 need from the calls on one destination file.
  * starts with create, truncate(len)
  * at most one clone request, none under `never`, and it precedes every data call
  * no data call after a successful clone
  * every finalisation call comes after every data call and every clone
  * the finalisation calls are exactly `finaliseSteps c`, in that order (setxattrs may repeat or be absent:
    one call per attribute) -/
def dedupX : List FStep → List FStep
  | [] => []
  | .setxattrs :: r => dedupX r
  | s :: r => s :: dedupX r

def monitorFile (c : Cfg) (len : Nat) (calls : List FCall) : Bool :=
  match calls with
  | .create :: .truncate n :: rest =>
    let clones := rest.filter isClone
    let afterFirstFin := rest.dropWhile (fun x => !isFin x)
    let fins := rest.filterMap (fun x => match x with | .fin s => some s | _ => none)
    n = len
    && clones.length ≤ 1
    && (c.reflink != .never || clones.isEmpty)
    && (match rest with
        | .clone ok :: r2 => !(ok && r2.any isData) && !(r2.any isClone)
        | _ => clones.isEmpty)
    && afterFirstFin.all isFin
    && dedupX fins == dedupX (finaliseSteps c)
  | _ => false

end Xcp
