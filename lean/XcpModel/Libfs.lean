import XcpModel.Bytes
/-! # Model of `libfs` (linux backend and fallback backend) and of the copy loops built on it

Every function here mirrors one Rust function, named in its doc comment.  Loops take a `fuel`
argument and are structurally recursive on it; running out of fuel is reported as `Stop.spin`
("the real loop did not finish within `fuel` iterations"), never silently.  Whatever the code does
not decide itself (how many bytes the kernel moves, which errno it answers, where data and holes
are) is an explicit oracle argument.  -/
namespace Xcp

inductive Errno
  | ENOENT | EEXIST | ENOTDIR | EISDIR | ELOOP | EINVAL | EIO | ENOSPC | EACCES | EPERM | EMFILE
  | EROFS | EXDEV | ENOSYS | EOPNOTSUPP | ETXTBSY | ENXIO | EINTR | ENOTEMPTY | EBADF | EFBIG | OTHER
deriving DecidableEq, Repr

/-- Answer of the kernel to one data-moving call (`copy_file_range`, `pread`, `pwrite`, `read`, `write`). -/
inductive IoAns
  | moved (n : Nat)
  | err (e : Errno)
deriving DecidableEq, Repr

/-- Why a copy stopped with an error. -/
inductive CopyErr
  | os (e : Errno)
  | ended          -- "Source file ended prematurely."
  | shortWrite     -- "Failed write to file."
  | unsupported    -- fallback backend: `next_sparse_segments` is `UnsupportedOperation`
deriving DecidableEq, Repr

inductive Stop
  | ok (n : Nat)
  | fail (e : CopyErr)
  | spin
deriving DecidableEq, Repr

/-- The data-moving system calls xcp issues. -/
inductive Sys
  | cfr        -- copy_file_range
  | pread | pwrite
  | read
  | writeAll   -- `Write::write_all`: std's own loop over `write(2)`, modelled as one call
deriving DecidableEq, Repr

/-- What a copy loop did, in order: each kernel call with its file offset, requested length and the
kernel's answer, and each `StatusUpdate::Copied(n)` it sent. -/
inductive Ev
  | call (s : Sys) (off req : Nat) (ans : IoAns)
  | copied (n : Nat)
deriving DecidableEq, Repr

/-- Bytes moved `src[off, off+n) → dst[off, off+n)` by the calls of an event list.  `pread`/`read`
only fill the buffer; `pwrite`/`write_all` put it at the same offset it was read from. -/
def jobsOf : List Ev → List (Nat × Nat)
  | [] => []
  | .call .cfr o _ (.moved n) :: r => (o, n) :: jobsOf r
  | .call .pwrite o _ (.moved n) :: r => (o, n) :: jobsOf r
  | .call .writeAll o q (.moved _) :: r => (o, q) :: jobsOf r
  | _ :: r => jobsOf r

def copiedOf : List Ev → List Nat
  | [] => []
  | .copied n :: r => n :: copiedOf r
  | _ :: r => copiedOf r

/-- The kernel as far as the data-moving calls are concerned: the answer to the `a`-th call of a
sequential copy (a global counter, one tick per call), given the call's kind, file offset and
requested length. -/
abbrev Kern := Nat → Sys → Nat → Nat → IoAns

/-- Result of a loop: events, how it stopped, and the call counter after it. -/
structure Run where
  evs : List Ev
  stop : Stop
  next : Nat
deriving Repr

def Run.cons (e : Ev) (r : Run) : Run := { r with evs := e :: r.evs }
def Run.pre (es : List Ev) (r : Run) : Run := { r with evs := es ++ r.evs }

/-- `try_copy_file_range`'s three-way classification. -/
inductive CfrOut
  | done (n : Nat)
  | fallback
  | fatal (e : Errno)
deriving DecidableEq, Repr

/-- libfs/src/linux.rs `try_copy_file_range`: `ENOSYS | EPERM | EXDEV` mean "use user space". -/
def classifyCfr : IoAns → CfrOut
  | .moved n => .done n
  | .err .ENOSYS => .fallback
  | .err .EPERM => .fallback
  | .err .EXDEV => .fallback
  | .err e => .fatal e

/-- libfs/src/common.rs `copy_range_uspace(reader, writer, nbytes, off)`; `written` is the loop variable. -/
def rangeUspace (k : Kern) : (fuel a off nbytes written : Nat) → Run
  | 0, a, _, nbytes, written => ⟨[], if written < nbytes then .spin else .ok written, a⟩
  | f+1, a, off, nbytes, written =>
    if written < nbytes then
      let next := min (nbytes - written) nbytes
      let noff := off + written
      let ra := k a .pread noff next
      match ra with
      | .moved 0 => ⟨[.call .pread noff next ra], .fail .ended, a+1⟩
      | .moved rlen =>
        let wa := k (a+1) .pwrite noff rlen
        match wa with
        | .moved w =>
          if w < rlen then ⟨[.call .pread noff next ra, .call .pwrite noff rlen wa], .fail .shortWrite, a+2⟩
          else
            (rangeUspace k f (a+2) off nbytes (written + rlen)).pre
              [.call .pread noff next ra, .call .pwrite noff rlen (.moved rlen)]
        | .err e => ⟨[.call .pread noff next ra, .call .pwrite noff rlen wa], .fail (.os e), a+2⟩
      | .err e => ⟨[.call .pread noff next ra], .fail (.os e), a+1⟩
    else ⟨[], .ok written, a⟩

/-- libfs/src/common.rs `copy_bytes_uspace(reader, writer, nbytes)`, reading and writing through the
descriptors' cursors, both at `pos`. -/
def bytesUspace (k : Kern) : (fuel a pos nbytes written : Nat) → Run
  | 0, a, _, nbytes, written => ⟨[], if written < nbytes then .spin else .ok written, a⟩
  | f+1, a, pos, nbytes, written =>
    if written < nbytes then
      let next := min (nbytes - written) nbytes
      let ra := k a .read (pos + written) next
      match ra with
      | .moved 0 => ⟨[.call .read (pos + written) next ra], .fail .ended, a+1⟩
      | .moved len =>
        let wa := k (a+1) .writeAll (pos + written) len
        match wa with
        | .moved _ =>
          (bytesUspace k f (a+2) pos nbytes (written + len)).pre
            [.call .read (pos + written) next ra, .call .writeAll (pos + written) len wa]
        | .err e => ⟨[.call .read (pos + written) next ra, .call .writeAll (pos + written) len wa], .fail (.os e), a+2⟩
      | .err .EINTR => (bytesUspace k f (a+1) pos nbytes written).cons (.call .read (pos + written) next ra)
      | .err e => ⟨[.call .read (pos + written) next ra], .fail (.os e), a+1⟩
    else ⟨[], .ok written, a⟩

/-- libfs/src/linux.rs `copy_file_offset(infd, outfd, bytes, off)` (with the retry loop):
the kernel advances both offsets by what it copied; a zero-length copy means end of file. -/
def copyFileOffset (k : Kern) : (fuel a off bytes copied : Nat) → Run
  | 0, a, _, bytes, copied => ⟨[], if copied < bytes then .spin else .ok copied, a⟩
  | f+1, a, off, bytes, copied =>
    if copied < bytes then
      let ca := k a .cfr (off + copied) (bytes - copied)
      let ev := Ev.call .cfr (off + copied) (bytes - copied) ca
      match classifyCfr ca with
      | .done 0 => ⟨[ev], .ok copied, a+1⟩
      | .done n => (copyFileOffset k f (a+1) off bytes (copied + n)).cons ev
      | .fatal e => ⟨[ev], .fail (.os e), a+1⟩
      | .fallback =>
        let r := rangeUspace k (bytes - copied + 1) (a+1) (off + copied) (bytes - copied) 0
        match r.stop with
        | .ok rest => ⟨ev :: r.evs, .ok (copied + rest), r.next⟩
        | s => ⟨ev :: r.evs, s, r.next⟩
    else ⟨[], .ok copied, a⟩

/-- libfs/src/fallback.rs `copy_file_offset`: user space only. -/
def copyFileOffsetFallback (k : Kern) (fuel a off bytes : Nat) : Run :=
  rangeUspace k fuel a off bytes 0

/-- One parblock block job: `copy_file_offset(bytes, off)` then `Copied(ret)` (an error sends `Error`). -/
def blockJob (k : Kern) (linux : Bool) (off bytes : Nat) : Run :=
  let r := if linux then copyFileOffset k (bytes + 1) 0 off bytes 0
           else copyFileOffsetFallback k (bytes + 1) 0 off bytes
  match r.stop with
  | .ok n => { r with evs := r.evs ++ [.copied n] }
  | _ => r

/-- libfs/src/linux.rs `copy_file_bytes(infd, outfd, bytes)` at cursor `pos`: ONE `copy_file_range`
call (the caller loops), or the complete user-space loop. -/
def copyFileBytes (k : Kern) (a pos bytes : Nat) : Run :=
  let ca := k a .cfr pos bytes
  let ev := Ev.call .cfr pos bytes ca
  match classifyCfr ca with
  | .done n => ⟨[ev], .ok n, a+1⟩
  | .fatal e => ⟨[ev], .fail (.os e), a+1⟩
  | .fallback => (bytesUspace k (2 * bytes + 1) (a+1) pos bytes 0).cons ev

/-- libfs/src/fallback.rs `copy_file_bytes`. -/
def copyFileBytesFallback (k : Kern) (a pos bytes : Nat) : Run :=
  bytesUspace k (2 * bytes + 1) a pos bytes 0

/-- libxcp/src/operations.rs `CopyHandle::copy_bytes(len)` starting at cursor `pos`:
`while written < len { n = copy_file_bytes(min(len - written, block_size))?; written += n; send(Copied(n)) }`.
`linux = false` selects the fallback backend. -/
def copyBytes (k : Kern) (linux : Bool) (bsize : Nat) : (fuel a pos len written : Nat) → Run
  | 0, a, _, len, written => ⟨[], if written < len then .spin else .ok written, a⟩
  | f+1, a, pos, len, written =>
    if written < len then
      let req := min (len - written) bsize
      let r := if linux then copyFileBytes k a (pos + written) req
               else copyFileBytesFallback k a (pos + written) req
      match r.stop with
      | .ok n => (copyBytes k linux bsize f r.next pos len (written + n)).pre (r.evs ++ [.copied n])
      | _ => r
    else ⟨[], .ok written, a⟩

/-! ## Sparse files -/

/-- Answers of `lseek(SEEK_DATA/SEEK_HOLE)`: `none` is `ENXIO`. -/
structure SeekOracle where
  data : Nat → Option Nat
  hole : Nat → Option Nat

/-- libfs/src/linux.rs `next_sparse_segments(infd, outfd, pos)` for a file of length `len`:
`ENXIO` is mapped to the file length. -/
def nextSparseSegments (s : SeekOracle) (len pos : Nat) : Nat × Nat :=
  let nextData := match s.data pos with | some o => o | none => len
  let nextHole := match s.hole nextData with | some o => o | none => len
  (nextData, nextHole)

/-- libxcp/src/operations.rs `CopyHandle::copy_sparse`. -/
def copySparse (k : Kern) (s : SeekOracle) (bsize len : Nat) : (fuel a pos : Nat) → Run
  | 0, a, pos => ⟨[], if pos < len then .spin else .ok len, a⟩
  | f+1, a, pos =>
    if pos < len then
      let seg := nextSparseSegments s len pos
      let r := copyBytes k true bsize (seg.2 - seg.1 + 1) a seg.1 (seg.2 - seg.1) 0
      match r.stop with
      | .ok _ => (copySparse k s bsize len f r.next seg.2).pre r.evs
      | _ => r
    else ⟨[], .ok len, a⟩

/-- The `(next_data, next_hole)` pairs the `copy_sparse` loop visits (libfs `copy_sparse` and
`CopyHandle::copy_sparse` share this skeleton): the data ranges libfs reports by segment search. -/
def segmentsOf (s : SeekOracle) (len : Nat) : (fuel pos : Nat) → List (Nat × Nat)
  | 0, _ => []
  | f+1, pos =>
    if pos < len then
      let seg := nextSparseSegments s len pos
      seg :: segmentsOf s len f seg.2
    else []

/-- A concrete data/hole layout: sorted, disjoint, non-empty data segments `[start, stop)`. -/
structure Layout where
  len  : Nat
  segs : List (Nat × Nat)

/-- Linux `SEEK_DATA` on a layout. -/
def Layout.seekData (L : Layout) (pos : Nat) : Option Nat :=
  if L.len ≤ pos then none else
  match L.segs.find? (fun s => pos < s.2) with
  | some s => some (max pos s.1)
  | none => none

/-- Linux `SEEK_HOLE` on a layout (implicit hole at end of file). -/
def Layout.seekHole (L : Layout) (pos : Nat) : Option Nat :=
  if L.len ≤ pos then none else
  match L.segs.find? (fun s => s.1 ≤ pos ∧ pos < s.2) with
  | some s => some s.2
  | none => some pos

def Layout.oracle (L : Layout) : SeekOracle := ⟨L.seekData, L.seekHole⟩

/-- libfs/src/linux.rs `probably_sparse`: `st_blocks < st_size / 512`. -/
def probablySparse (stBlocks stSize : Nat) : Bool := stBlocks < stSize / 512

/-! ## Extents -/

structure Extent where
  start : Nat
  stop : Nat          -- exclusive, as produced by `map_extents` (`fe_logical + fe_length`)
  shared : Bool
deriving Repr, DecidableEq

/-- libfs/src/common.rs `merge_extents`: `prev` accumulator, merge when `e.start == p.end + 1`. -/
def mergeGo : Option Extent → List Extent → List Extent
  | none, [] => []
  | some p, [] => [p]
  | none, e :: es => mergeGo (some e) es
  | some p, e :: es =>
      if e.start = p.stop + 1 then
        mergeGo (some { start := p.start, stop := e.stop, shared := p.shared && e.shared }) es
      else p :: mergeGo (some e) es

def mergeExtents (l : List Extent) : List Extent := mergeGo none l

/-- `merge_extents` as compiled with overflow checks (the dev profile the suite runs): `p.end + 1`
panics when `p.end = u64::MAX`. `none` = panic. -/
def mergeGoChk : Option Extent → List Extent → Option (List Extent)
  | none, [] => some []
  | some p, [] => some [p]
  | none, e :: es => mergeGoChk (some e) es
  | some p, e :: es =>
      if p.stop + 1 ≥ 2^64 then none
      else if e.start = p.stop + 1 then
        mergeGoChk (some { start := p.start, stop := e.stop, shared := p.shared && e.shared }) es
      else (mergeGoChk (some e) es).map (p :: ·)

/-- One FIEMAP answer: `none` = `EOPNOTSUPP`; otherwise the mapped extents of this page with the
`FIEMAP_EXTENT_LAST` flag of each. -/
abbrev FiemapOracle := Nat → Option (List (Extent × Bool))

def lastOf {α} : List α → Option α
  | [] => none
  | [x] => some x
  | _ :: r => lastOf r

/-- libfs/src/linux.rs `map_extents`: page through FIEMAP, 32 slots per request, restarting after
the last extent seen, until a page is empty or its final extent carries LAST. -/
def mapExtentsLoop (fm : FiemapOracle) : (fuel fmStart : Nat) → List Extent → Option (Option (List Extent))
  | 0, _, _ => none                                   -- spin
  | f+1, fmStart, acc =>
    match fm fmStart with
    | none => some none                               -- unsupported
    | some page =>
      match lastOf page with
      | none => some (some acc)
      | some (le, isLast) =>
        let acc' := acc ++ page.map (·.1)
        if isLast then some (some acc') else mapExtentsLoop fm f le.stop acc'

def mapExtents (fm : FiemapOracle) (fuel : Nat) : Option (Option (List Extent)) :=
  mapExtentsLoop fm fuel 0 []

/-- The kernel's FIEMAP over a file whose true extent list is `all` (sorted): extents that end after
`fm_start`, at most `slots` of them, the file's final extent flagged LAST. -/
def fiemapOf (all : List Extent) (slots : Nat) : FiemapOracle := fun fmStart =>
  let rest := all.dropWhile (fun e => e.stop ≤ fmStart)
  let page := rest.take slots
  let n := page.length
  some ((List.range n).zip page |>.map fun (i, e) => (e, decide (i + 1 = rest.length)))

/-! ## Block partition (parblock) -/

/-- libxcp/src/drivers/parblock.rs `queue_file_range`: `blocks = len / bsize + (len % bsize > 0)`. -/
def nblocks (len b : Nat) : Nat := len / b + (if len % b > 0 then 1 else 0)

/-- job `k` = `(start + k*b, min (len - k*b) b)`. -/
def blocks (start len b : Nat) : List (Nat × Nat) :=
  (List.range (nblocks len b)).map fun k => (start + k * b, min (len - k * b) b)

/-- What parblock queues for one file: the whole file, or each merged extent. -/
def parblockRanges (len : Nat) (sparse : Bool) (exts : Option (List Extent)) : List (Nat × Nat) :=
  if sparse then
    match exts with
    | some es => (mergeExtents es).map fun e => (e.start, e.stop - e.start)
    | none => [(0, len)]
  else [(0, len)]

def parblockJobs (len b : Nat) (sparse : Bool) (exts : Option (List Extent)) : List (Nat × Nat) :=
  (parblockRanges len sparse exts).flatMap fun r => blocks r.1 r.2 b

/-! ## Reflink -/

inductive CloneAns
  | ok
  | err (e : Errno)
deriving DecidableEq, Repr

/-- libfs/src/linux.rs `reflink`: `Ok(true)`, `Ok(false)` ("unsupported") or a hard error. -/
def classifyClone : CloneAns → Except Errno Bool
  | .ok => .ok true
  | .err .EOPNOTSUPP => .ok false
  | .err .EINVAL => .ok false
  | .err .EXDEV => .ok false
  | .err .ETXTBSY => .ok false
  | .err e => .error e

inductive Reflink | auto | always | never
deriving DecidableEq, Repr

/-- libxcp/src/operations.rs `CopyHandle::try_reflink`: `none` = no clone request is issued. -/
inductive ReflinkOut
  | cloned            -- Ok(true): skip the data copy
  | copy              -- Ok(false): go on with a data copy
  | failed            -- Err(ReflinkFailed) or a hard error
deriving DecidableEq, Repr

/-- Returns whether the clone ioctl is issued, and the outcome. `linux = false`: the fallback backend's
`reflink` is `Ok(false)` without any call. -/
def tryReflink (mode : Reflink) (linux : Bool) (ans : CloneAns) : Bool × ReflinkOut :=
  match mode with
  | .never => (false, .copy)
  | .auto =>
    if linux then
      match classifyClone ans with
      | .ok true => (true, .cloned)
      | .ok false => (true, .copy)
      | .error _ => (true, .failed)
    else (false, .copy)
  | .always =>
    if linux then
      match classifyClone ans with
      | .ok true => (true, .cloned)
      | .ok false => (true, .failed)
      | .error _ => (true, .failed)
    else (false, .failed)

/-! ## Node kinds -/

inductive FileKind | file | dir | symlink | socket | fifo | chr | blk | other
deriving DecidableEq, Repr

inductive WalkAction | copy | link | mkdir | special | unsupported
deriving DecidableEq, Repr

/-- libxcp/src/operations.rs `tree_walker`'s dispatch on `FileType`. -/
def classifyKind : FileKind → WalkAction
  | .file => .copy
  | .symlink => .link
  | .dir => .mkdir
  | .socket => .special
  | .chr => .special
  | .fifo => .special
  | .blk => .unsupported
  | .other => .unsupported

end Xcp
