/-! # The dispatcher / bounded pool model of `Xcp.Pool`, extended with FAILURES

Same state and labels as `XcpModel/Pool.lean`, plus: a running block job may fail (`failJob i`: it sends an `Error` update instead
of `Copied` and returns, dropping its Arc clone), and the dispatcher may stop with an error at any moment (`abort`: a failing
`CopyHandle::new`, clone, FIEMAP, `symlink` or `mknod` — it returns `Err` WITHOUT joining the pool, dropping the handle it was
queuing, if any; jobs already queued still run).  The theorems of C07/C18/C20 are re-proved for this model in
`XcpProofs/PoolFInv.lean`.

(original header:) Concurrent model of the parblock driver's dispatcher and bounded thread pool (L0, component `Pool`)

libxcp/src/drivers/parblock.rs: the dispatcher takes `Copy` operations from the file queue, opens a
`CopyHandle` (two descriptors), wraps it in an `Arc`, pushes one job per block on a `blocking_threadpool`
with a BOUNDED queue (`queue_len(cap)`, cap = 128) served by `workers` threads, and drops its own `Arc`
clone when all blocks are queued.  Each job holds one clone; it performs its copy (`write`), sends its
`Copied` update, and then its closure returns, dropping the clone (`release`).  When the count reaches zero
the handle's `Drop` runs `finalise_copy` (metadata, then the requested `fsync`) and the descriptors close.

One label per thread action; `step` returns `none` when the label is not enabled.  The scheduler is the
choice of label: theorems quantify over every label sequence. -/
namespace Xcp.PoolF

abbrev Hid := Nat

/-- what is recorded in the log -/
inductive Event
  | opened (h : Hid)             -- CopyHandle::new: source and destination opened, destination created and sized
  | write (h : Hid) (blk : Nat)  -- one block job's data copy (all its copy_file_range calls)
  | copied (h : Hid) (blk : Nat) -- its `Copied` status update
  | finalise (h : Hid)           -- Drop: ownership, xattrs+permissions, timestamps
  | fsync (h : Hid)              -- … then the requested fsync
  | closed (h : Hid)             -- descriptors closed
  | failed (h : Hid) (blk : Nat) -- a block job failed: `Error` update
  | aborted                      -- the dispatcher returned `Err`
deriving DecidableEq, Repr

/-- progress of a running job -/
inductive Phase | copying | written | reported
deriving DecidableEq, Repr

structure Job where
  h : Hid
  blk : Nat
deriving DecidableEq, Repr

structure St where
  files   : List Nat                  -- block counts of the files still in the (unbounded) file queue
  cur     : Option (Hid × Nat × Nat)  -- handle the dispatcher is queuing: (handle, blocks already queued, blocks left)
  queue   : List Job                  -- bounded job queue (each job holds one Arc clone)
  running : List (Job × Phase)        -- jobs on pool threads
  refs    : Hid → Nat                 -- Arc strong count
  isOpen  : Hid → Bool
  next    : Hid
  cap     : Nat
  workers : Nat
  fsyncOn : Bool
  log     : List Event                -- most recent LAST
  aborted : Bool := false

inductive Label
  | openNext            -- dispatcher: take the next file, CopyHandle::new, Arc::new
  | push                -- dispatcher: pool.execute(job) — blocks while the queue is full
  | dropOwn             -- dispatcher: all blocks queued, drop own Arc clone
  | take                -- a free pool thread takes the head of the queue
  | stepJob (i : Nat)   -- the i-th running job makes its next move: copy → report → return (release)
  | failJob (i : Nat)   -- the i-th running job's copy fails: Error update, then it returns (release)
  | abort               -- the dispatcher stops with an error (no join); drops the handle it was queuing
deriving DecidableEq, Repr

def init (files : List Nat) (cap workers : Nat) (fsyncOn : Bool) : St :=
  { files := files, cur := none, queue := [], running := [], refs := fun _ => 0, isOpen := fun _ => false,
    next := 0, cap := cap, workers := workers, fsyncOn := fsyncOn, log := [], aborted := false }

/-- drop one Arc clone of `h`; at zero run `Drop` -/
def release (s : St) (h : Hid) : St :=
  let r := s.refs h - 1
  if r = 0 then
    { s with refs := fun x => if x = h then 0 else s.refs x,
             isOpen := fun x => if x = h then false else s.isOpen x,
             log := s.log ++ [.finalise h] ++ (if s.fsyncOn then [.fsync h] else []) ++ [.closed h] }
  else { s with refs := fun x => if x = h then r else s.refs x }

def step (s : St) : Label → Option St
  | .openNext =>
    match s.cur, s.files with
    | none, b :: fs =>
      some { s with files := fs, cur := some (s.next, 0, b), next := s.next + 1,
                    refs := fun x => if x = s.next then 1 else s.refs x,
                    isOpen := fun x => if x = s.next then true else s.isOpen x,
                    log := s.log ++ [.opened s.next] }
    | _, _ => none
  | .push =>
    match s.cur with
    | some (h, q, b+1) =>
      if s.queue.length < s.cap then
        some { s with cur := some (h, q+1, b), queue := s.queue ++ [⟨h, q⟩],
                      refs := fun x => if x = h then s.refs x + 1 else s.refs x }
      else none
    | _ => none
  | .dropOwn =>
    match s.cur with
    | some (h, _, 0) => some (release { s with cur := none } h)
    | _ => none
  | .take =>
    match s.queue with
    | j :: q => if s.running.length < s.workers then some { s with queue := q, running := s.running ++ [(j, .copying)] } else none
    | [] => none
  | .stepJob i =>
    match s.running[i]? with
    | some (j, .copying) => some { s with running := s.running.set i (j, .written), log := s.log ++ [.write j.h j.blk] }
    | some (j, .written) => some { s with running := s.running.set i (j, .reported), log := s.log ++ [.copied j.h j.blk] }
    | some (j, .reported) => some (release { s with running := s.running.eraseIdx i } j.h)
    | none => none
  | .failJob i =>
    match s.running[i]? with
    | some (j, .copying) => some { s with running := s.running.set i (j, .reported), log := s.log ++ [.failed j.h j.blk] }
    | _ => none
  | .abort =>
    if s.aborted then none else
    match s.cur with
    | some (h, _, _) => some (release { s with cur := none, files := [], aborted := true, log := s.log ++ [.aborted] } h)
    | none => some { s with files := [], aborted := true, log := s.log ++ [.aborted] }

/-- run a label sequence; `none` if some label was not enabled -/
def run (s : St) : List Label → Option St
  | [] => some s
  | l :: ls => match step s l with
    | some s' => run s' ls
    | none => none

def Reachable (files : List Nat) (cap workers : Nat) (fs : Bool) (s : St) : Prop :=
  ∃ ls, run (init files cap workers fs) ls = some s

/-- nothing left to do -/
def final (s : St) : Bool := s.files.isEmpty && s.cur.isNone && s.queue.isEmpty && s.running.isEmpty

/-- labels worth trying in a state (for the executable scheduler and the no-deadlock statement) -/
def candidates (s : St) : List Label :=
  [.openNext, .push, .dropOwn, .take, .abort] ++ (List.range s.running.length).map .stepJob ++ (List.range s.running.length).map .failJob

def enabled (s : St) : List Label := (candidates s).filter fun l => (step s l).isSome

/-- handles currently open -/
def openCount (s : St) : Nat := ((List.range s.next).filter fun h => s.isOpen h).length

/-- trace monitor for C18/C10/C06: in a log, no `write h` occurs after `finalise h`/`fsync h`, and with fsync
requested every closed handle was fsynced after finalise -/
def writesBeforeFinalise : List Event → Bool
  | [] => true
  | .finalise h :: r => !(r.any fun e => match e with | .write h' _ => h' = h | _ => false) && writesBeforeFinalise r
  | .fsync h :: r => !(r.any fun e => match e with | .write h' _ => h' = h | _ => false) && writesBeforeFinalise r
  | _ :: r => writesBeforeFinalise r

end Xcp.PoolF
