/-! # Model of `libxcp/src/feedback.rs` and of the per-file update accounting -/
namespace Xcp

inductive Update
  | copied (n : Nat)
  | size (n : Nat)
  | error
deriving DecidableEq, Repr

/-- `ChannelUpdater::send`: state is the running total `sent`; a `Copied(n)` is forwarded only when the total
crosses a multiple of the block size. Returns the new state and what is put on the channel.
(`bsize = 0` divides by zero: the real code panics; callers guard `0 < bsize`.) -/
def channelSend (bsize : Nat) (sent : Nat) (u : Update) : Nat × Option Update :=
  match u with
  | .copied n =>
    let prev := sent
    (sent + n, if (prev + n) / bsize > prev / bsize then some (.copied n) else none)
  | u => (sent, some u)

/-- run a whole stream through the updater: what the receiver sees -/
def channelRun (bsize : Nat) : (sent : Nat) → List Update → List Update
  | _, [] => []
  | sent, u :: r =>
    let (s', o) := channelSend bsize sent u
    match o with
    | some v => v :: channelRun bsize s' r
    | none => channelRun bsize s' r

def sumCopied : List Update → Nat
  | [] => 0
  | .copied n :: r => n + sumCopied r
  | _ :: r => sumCopied r

def sumSize : List Update → Nat
  | [] => 0
  | .size n :: r => n + sumSize r
  | _ :: r => sumSize r

def hasError : List Update → Bool
  | [] => false
  | .error :: _ => true
  | _ :: r => hasError r

end Xcp
