import XcpModel.Pool
/-! # Concurrent model of the parfile driver's workers (L0, component `ParfilePool`)

libxcp/src/drivers/parfile.rs: the walker thread sends whole `Operation`s on an UNBOUNDED channel; `nworkers`
threads run `copy_worker`, a `for op in work` loop.  For `Operation::Copy` the worker builds ONE `CopyHandle`
(`CopyHandle::new`: two descriptors), calls `copy_file` on it (all the data calls of that file, in order, on this
thread), and the handle is dropped at the end of that statement — `Drop` runs `finalise_copy` (metadata, then the
requested `fsync`) and the descriptors close — before the loop takes the next operation.  So a worker holds at most
one handle, and nobody else ever holds a reference to it.

State per worker: `none` (idle, at the top of the loop) or `some (h, k, left)` = handle `h` open, `k` data calls
made, `left` still to make.  The queue holds, for every file not yet taken, its number of data calls.  The walker
is not modelled as a thread: all files are in the queue from the start (a file that the walker has not sent yet
cannot be taken, which only removes schedules).  One label per worker action; `step` returns `none` when the label
is not enabled; the scheduler is the choice of label.  The log reuses `Xcp.Pool.Event`; `.write h k` is the `k`-th
data call on handle `h`. -/
namespace Xcp.Parfile

open Xcp.Pool (Hid Event)

structure St where
  queue   : List Nat                        -- data-call counts of the files still in the (unbounded) work queue
  workers : List (Option (Hid × Nat × Nat)) -- per worker: (handle it has open, data calls made, data calls left)
  next    : Hid
  fsyncOn : Bool
  log     : List Event                      -- most recent LAST

inductive Label
  | take (i : Nat)     -- idle worker i receives the next operation: CopyHandle::new
  | write (i : Nat)    -- worker i makes its next data call
  | finish (i : Nat)   -- worker i: copy_file returned, the handle is dropped: finalise [, fsync], close
deriving DecidableEq, Repr

def init (files : List Nat) (nworkers : Nat) (fsyncOn : Bool) : St :=
  { queue := files, workers := List.replicate nworkers none, next := 0, fsyncOn := fsyncOn, log := [] }

def step (s : St) : Label → Option St
  | .take i =>
    match s.workers[i]?, s.queue with
    | some none, b :: q =>
      some { s with queue := q, workers := s.workers.set i (some (s.next, 0, b)), next := s.next + 1,
                    log := s.log ++ [.opened s.next] }
    | _, _ => none
  | .write i =>
    match s.workers[i]? with
    | some (some (h, k, left+1)) =>
      some { s with workers := s.workers.set i (some (h, k+1, left)), log := s.log ++ [.write h k] }
    | _ => none
  | .finish i =>
    match s.workers[i]? with
    | some (some (h, _, 0)) =>
      some { s with workers := s.workers.set i none,
                    log := s.log ++ [.finalise h] ++ (if s.fsyncOn then [.fsync h] else []) ++ [.closed h] }
    | _ => none

/-- run a label sequence; `none` if some label was not enabled -/
def run (s : St) : List Label → Option St
  | [] => some s
  | l :: ls => match step s l with
    | some s' => run s' ls
    | none => none

def Reachable (files : List Nat) (nworkers : Nat) (fs : Bool) (s : St) : Prop :=
  ∃ ls, run (init files nworkers fs) ls = some s

/-- nothing left to do: the queue is empty and every worker is idle -/
def final (s : St) : Bool := s.queue.isEmpty && s.workers.all (·.isNone)

/-- labels worth trying in a state -/
def candidates (s : St) : List Label :=
  (List.range s.workers.length).flatMap fun i => [.take i, .write i, .finish i]

def enabled (s : St) : List Label := (candidates s).filter fun l => (step s l).isSome

/-- handles currently open = workers holding one -/
def openCount (s : St) : Nat := s.workers.countP (·.isSome)

end Xcp.Parfile
