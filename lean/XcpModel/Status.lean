import XcpModel.Feedback
/-! # Concurrent model of the status-update stream (L0, component `Status`)

The walker announces each regular file (`Size(len)`) BEFORE it queues the operation; a worker (parfile) or
the pool jobs of a file (parblock) send `Copied(k)` only after the operation was dequeued, for bytes actually
moved, and never more than the file's length in total (the loop guard `written < len`, resp. the disjoint
block partition clipped at end of file).  Any thread may fail, which sends an `Error` update (or makes the
copy call return an error) and abandons the rest of that file.  One label per thread action; theorems
quantify over every label sequence. -/
namespace Xcp.Status

open Xcp

structure St where
  todo    : List Nat              -- lengths of the regular files the walker has not reached yet
  queue   : List Nat              -- announced and queued, not yet taken: remaining = whole length
  active  : List Nat              -- taken by a worker / being copied by pool jobs: bytes still to move
  log     : List Update           -- the stream, oldest first
  moved   : Nat                   -- bytes actually transferred so far (ground truth, not part of the stream)
  failed  : Bool                  -- some thread has failed (Error sent or error returned)
  walkerDone : Bool
deriving Repr

inductive Label
  | announce                      -- walker: Size(len) then queue the operation
  | walkerFail                    -- walker stops with an error (Error update for no-clobber; else returned)
  | take                          -- a worker / the dispatcher takes the next queued file
  | copy (i k : Nat)              -- k bytes of the i-th active file are moved and reported
  | finish (i : Nat)              -- the i-th active file is complete
  | fail (i : Nat)                -- copying the i-th active file fails: Error update, file abandoned
deriving Repr

def init (files : List Nat) : St :=
  { todo := files, queue := [], active := [], log := [], moved := 0, failed := false, walkerDone := false }

def step (s : St) : Label → Option St
  | .announce =>
    match s.todo with
    | len :: r => if s.walkerDone then none else some { s with todo := r, queue := s.queue ++ [len], log := s.log ++ [.size len] }
    | [] => if s.walkerDone then none else some { s with walkerDone := true }
  | .walkerFail =>
    if s.walkerDone then none else some { s with walkerDone := true, todo := [], failed := true, log := s.log ++ [.error] }
  | .take =>
    match s.queue with
    | len :: q => some { s with queue := q, active := s.active ++ [len] }
    | [] => none
  | .copy i k =>
    match s.active[i]? with
    | some rem => if 0 < k ∧ k ≤ rem then
        some { s with active := s.active.set i (rem - k), log := s.log ++ [.copied k], moved := s.moved + k }
      else none
    | none => none
  | .finish i =>
    match s.active[i]? with
    | some 0 => some { s with active := s.active.eraseIdx i }
    | _ => none
  | .fail i =>
    match s.active[i]? with
    | some _ => some { s with active := s.active.eraseIdx i, failed := true, log := s.log ++ [.error] }
    | none => none

def run (s : St) : List Label → Option St
  | [] => some s
  | l :: ls => match step s l with
    | some s' => run s' ls
    | none => none

def Reachable (files : List Nat) (s : St) : Prop := ∃ ls, run (init files) ls = some s

def final (s : St) : Bool := s.walkerDone && s.queue.isEmpty && s.active.isEmpty

/-- every prefix of the stream reports no more copied than announced -/
def prefixOk : List Update → Bool := fun l =>
  (List.range (l.length + 1)).all fun n => sumCopied (l.take n) ≤ sumSize (l.take n)

end Xcp.Status
