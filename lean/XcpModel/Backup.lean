/-! # Model of `libxcp/src/backup.rs` (numbered backups)

File names are raw byte lists (`OsStr` on Unix), because the property quantifies over non-UTF-8 names. -/
namespace Xcp

abbrev Name := List UInt8

def isDigit (b : UInt8) : Bool := 48 ≤ b && b ≤ 57

/-- value of a string of ASCII digits, most significant first (`str::parse::<u64>` before the range check) -/
def digitsVal (ds : List UInt8) : Nat := ds.foldl (fun acc d => acc * 10 + (d.toNat - 48)) 0

/-- `strip_prefix` on byte slices -/
def stripPrefix : Name → Name → Option Name
  | [], c => some c
  | _ :: _, [] => none
  | b :: bs, c :: cs => if b = c then stripPrefix bs cs else none

/-- the regex `^~(\d+)~$` followed by `parse::<u64>()`: `~`, one or more ASCII digits, `~`, and the value
must fit in 64 bits.  (`\d` also matches non-ASCII Unicode digits, which `parse` then rejects: same answer.) -/
def parseTilde (ext : List UInt8) : Option Nat :=
  match ext with
  | 126 :: rest =>
    match rest.reverse with
    | 126 :: dsr =>
      let ds := dsr.reverse
      if ds ≠ [] && ds.all isDigit && digitsVal ds < 2^64 then some (digitsVal ds) else none
    | _ => none
  | _ => none

/-- `is_num_backup(base_file, candidate)`: the candidate's file name must be exactly `<base>.~N~`. -/
def isNumBackup (base cand : Name) : Option Nat :=
  match stripPrefix base cand with
  | some (46 :: ext) => parseTilde ext
  | _ => none

/-- decimal digits of `n`, least significant first; structural on fuel -/
def digitsRev : (fuel n : Nat) → List UInt8
  | 0, _ => []
  | f+1, n => if n < 10 then [UInt8.ofNat (48 + n)] else UInt8.ofNat (48 + n % 10) :: digitsRev f (n / 10)

/-- `format!("{}", n)` as bytes -/
def decimal (n : Nat) : List UInt8 := (digitsRev (n + 1) n).reverse

/-- `<name>.~N~` -/
def backupName (base : Name) (n : Nat) : Name := base ++ [46, 126] ++ decimal n ++ [126]

def maxList : List Nat → Nat
  | [] => 0
  | x :: r => max x (maxList r)

/-- numbers of the existing backups of `base` among the names of a directory listing -/
def backupNums (dir : List Name) (base : Name) : List Nat := dir.filterMap (isNumBackup base)

/-- `next_backup_num`: one more than the largest existing number; `none` = the `checked_add` overflow error -/
def nextBackupNum (dir : List Name) (base : Name) : Option Nat :=
  let cur := maxList (backupNums dir base)
  if cur + 1 < 2^64 then some (cur + 1) else none

def hasBackup (dir : List Name) (base : Name) : Bool := !(backupNums dir base).isEmpty

inductive BackupMode | none | auto | numbered
deriving DecidableEq, Repr

/-- `needs_backup(file, conf)`; `exists` is `file.exists()` -/
def needsBackup (mode : BackupMode) (exists_ : Bool) (dir : List Name) (base : Name) : Bool :=
  match mode with
  | .none => false
  | .auto => exists_ && hasBackup dir base
  | .numbered => exists_

/-! ## One directory as a finite map from names to contents, and the overwrite step of `CopyHandle::new` -/

abbrev Dir := List (Name × List UInt8)

def Dir.get (d : Dir) (n : Name) : Option (List UInt8) :=
  match d with
  | [] => none
  | (k, v) :: r => if k = n then some v else Dir.get r n

def Dir.erase (d : Dir) (n : Name) : Dir := d.filter (fun kv => kv.1 ≠ n)
def Dir.set (d : Dir) (n : Name) (v : List UInt8) : Dir := (n, v) :: d.erase n
def Dir.names (d : Dir) : List Name := d.map (·.1)

/-- `rename(2)`: atomically replaces the target -/
def Dir.rename (d : Dir) (a b : Name) : Dir :=
  match d.get a with
  | some v => (d.erase a).set b v
  | none => d

/-- The file-system steps of one overwrite, in program order. -/
inductive BStep
  | rename (a b : Name)
  | createTrunc (n : Name)         -- File::create: empty file
  | fill (n : Name) (c : List UInt8)  -- ftruncate + copy, as one step (content only matters at the end)
deriving Repr

def Dir.step (d : Dir) : BStep → Dir
  | .rename a b => d.rename a b
  | .createTrunc n => d.set n []
  | .fill n c => d.set n c

/-- Steps `CopyHandle::new` + copy perform on directory `d` to write `content` as `name` under `mode`;
`none` when the backup number overflows (the copy is refused). -/
def copySteps (d : Dir) (mode : BackupMode) (name : Name) (content : List UInt8) : Option (List BStep) :=
  if needsBackup mode (d.get name).isSome d.names name then
    match nextBackupNum d.names name with
    | some n => some [.rename name (backupName name n), .createTrunc name, .fill name content]
    | none => none
  else some [.createTrunc name, .fill name content]

def runSteps (d : Dir) (l : List BStep) : Dir := l.foldl Dir.step d

/-- one invocation `xcp --backup=<mode> <src with content> <name>`; a refused copy changes nothing -/
def copyOnce (d : Dir) (op : BackupMode × Name × List UInt8) : Dir :=
  match copySteps d op.1 op.2.1 op.2.2 with
  | some l => runSteps d l
  | none => d

/-- a history of invocations -/
def runHistory (d : Dir) (h : List (BackupMode × Name × List UInt8)) : Dir := h.foldl copyOnce d

end Xcp
