import XcpModel.Fs
import XcpModel.Gitignore
import XcpModel.Handle
/-! # Model of `main` (validation), `tree_walker`, and the sequential execution of operations (L1)

`validate` mirrors the up-front checks of src/main.rs (after the `fix:` commits); `walkSource` mirrors
libxcp/src/operations.rs `tree_walker` for one source over `walkdir`'s pre-order (readdir order, links
followed only with `--dereference`, the root link always traversed); `L1.run` executes every operation to
completion in walk order — one of the schedules of the real drivers (C06 relates the others to it). -/
namespace Xcp

inductive Reject
  | forceAndNoClobber | insufficient | badGlob | noSources | dirOntoFile | multiToNonDir
  | missingSource | dirWithoutRecursive | sourceIsDest | noSourceName | sameAsDest | sameFile
deriving DecidableEq, Repr

structure Opts where
  cfg : Cfg := {}
  force : Bool := false
  glob : Bool := false
  targetDir : Option RPath := none
  paths : List RPath := []
deriving Repr

/-! ## Glob expansion (`glob` crate, fragment: literals, `*`, `?`; results sorted per directory) -/

def hasMeta (n : Name) : Bool := n.any fun b => b = 42 || b = 63 || b = 91

def nameLe : Name → Name → Bool
  | [], _ => true
  | _ :: _, [] => false
  | a :: r, b :: s => a < b || (a = b && nameLe r s)

def insertName (x : Name) : List Name → List Name
  | [] => [x]
  | y :: r => if nameLe x y then x :: y :: r else y :: insertName x r
def sortNames (l : List Name) : List Name := l.foldr insertName []

/-- expand the remaining pattern components below each already expanded prefix -/
def globExpand (fs : Fs) : List Comp → List RPath → List RPath
  | [], acc => acc
  | .name n :: r, acc =>
    let step := acc.flatMap fun p =>
      if hasMeta n then
        match fs.readdir (if p.comps.isEmpty && !p.abs then ⟨false, [.cur], false⟩ else p) with
        | .ok names => (sortNames (names.filter fun c => Gi.matchGlob (Gi.toks n) c)).map fun c => p.push c
        | .error _ => []
      else if fs.lexists (p.push n) then [p.push n] else []
    globExpand fs r step
  | c :: r, acc => globExpand fs r (acc.map fun p => { p with comps := p.comps ++ [c] })

/-- `none` = malformed pattern (`[` without `]`) -/
def globOne (fs : Fs) (pat : RPath) : Option (List RPath) :=
  if pat.comps.any (fun c => match c with | .name n => n.contains 91 && !n.contains 93 | _ => false) then none
  -- a pattern spelled with a trailing `/` only matches directories (glob crate)
  else some ((globExpand fs pat.comps [⟨pat.abs, [], false⟩]).filter fun p => !pat.trail || fs.isDir p)

def expandSources (fs : Fs) (o : Opts) (pats : List RPath) : Except Reject (List RPath) :=
  if o.glob then
    match pats.mapM (globOne fs) with
    | none => .error .badGlob
    | some ls => if ls.any List.isEmpty then .error .noSources else .ok ls.flatten
  else .ok pats

def splitLastPath : List RPath → Option (RPath × List RPath)
  | [] => none
  | [x] => some (x, [])
  | x :: r => match splitLastPath r with
    | some (d, s) => some (d, x :: s)
    | none => none

/-- `target_base` of one source -/
def targetBase (fs : Fs) (c : Cfg) (dest src : RPath) : Option RPath :=
  match src.lastComp with
  | none => none
  | some sd => some (if fs.exists dest && fs.isDir dest && !c.noTargetDir then dest.join sd else dest)

def checkSource (fs : Fs) (o : Opts) (dest src : RPath) : Except Reject Unit :=
  if !fs.exists src then .error .missingSource
  else if fs.isDir src && !o.cfg.recursive then .error .dirWithoutRecursive
  else if src.same dest then .error .sourceIsDest
  else match targetBase fs o.cfg dest src with
    | none => .error .noSourceName
    | some tb =>
      if src.same tb then .error .sameAsDest
      else if fs.exists tb then
        if fs.sameFile src tb then .error .sameFile
        else if fs.isDir src && !fs.isDir tb then .error .dirOntoFile
        else .ok ()
      else .ok ()

def checkSources (fs : Fs) (o : Opts) (dest : RPath) : List RPath → Except Reject Unit
  | [] => .ok ()
  | s :: r => match checkSource fs o dest s with
    | .ok () => checkSources fs o dest r
    | .error e => .error e

/-- src/main.rs up to "Start copy": a function of a READ-ONLY view of the file system -/
def validate (fs : Fs) (o : Opts) : Except Reject (List RPath × RPath) :=
  if o.cfg.noClobber && o.force then .error .forceAndNoClobber else
  let split : Option (RPath × List RPath) := match o.targetDir with
    | some d => some (d, o.paths)
    | none => splitLastPath o.paths
  match split with
  | none => .error .insufficient
  | some (dest, pats) =>
    match expandSources fs o pats with
    | .error e => .error e
    | .ok sources =>
      if sources.isEmpty then .error .noSources
      else if !fs.isDir dest && (sources.length = 1 && (match sources with | [s] => fs.isDir s | _ => false) && fs.exists dest) then .error .dirOntoFile
      else if !fs.isDir dest && sources.length > 1 then .error .multiToNonDir
      else match checkSources fs o dest sources with
        | .error e => .error e
        | .ok () => .ok (sources, dest)

/-! ## The walk -/

inductive Op
  | mkdir (target : RPath)
  | copy (src : RPath) (target : RPath)
  | link (text : RPath) (target : RPath)
  | special (src : RPath) (target : RPath)
  | fail                                    -- the walker stops with an error here
deriving Repr

/-- per-source gitignore patterns: `none` = option off -/
abbrev Ignore := Option (List Gi.Pattern)

def relJoin (base : RPath) (rel : List Name) : RPath :=
  if rel.isEmpty then base else { base with comps := base.comps ++ rel.map .name, trail := false }

/-- the is-directory flag `ignore_filter` hands to the pattern matcher: the entry's OWN type as walkdir reports it
(`entry.file_type().is_dir()`): a symbolic link counts as a directory only when the walk follows links -/
def giIsDir (fs : Fs) (c : Cfg) (p : RPath) : Bool :=
  match fs.lstat p with
  | some (_, .dir _) => true
  | some (_, .link _) => c.dereference && (match fs.stat p with | some (_, .dir _) => true | _ => false)
  | _ => false

/-- One entry of the walk at path `src ++ rel`; returns the operations for it and its subtree.
`anc` = canonical paths of the directories being traversed (walkdir's loop check when following links).
Structural on fuel (tree depth × fan-out is finite; fuel is a generous bound). -/
def walkEntry (fs : Fs) (c : Cfg) (gi : Ignore) (src tb : RPath) : (fuel : Nat) → (rel : List Name) → (anc : List (List Name)) → List Op
  | 0, _, _ => [.fail]
  | f+1, rel, anc =>
    let epath := relJoin src rel
    let target := relJoin tb rel
    let depth := rel.length
    -- walkdir: the entry itself
    match fs.lstat epath with
    | none => [.fail]
    | some (_, lnode) =>
      let followed : Option (List Name × Node) :=
        if lnode.isLink && (c.dereference || depth = 0) then fs.stat epath else none
      -- with follow_links a dangling link is an error of the walk
      if lnode.isLink && c.dereference && followed.isNone then [.fail] else
      -- gitignore filter (never on the root)
      let isDirForGi := giIsDir fs c epath
      if depth > 0 && (match gi with | some ps => !Gi.keeps ps rel isDirForGi | none => false) then [] else
      -- xcp: dereference → canonicalize, then lstat
      let fromE : Except Errno RPath := if c.dereference then fs.canonicalize epath else .ok epath
      match fromE with
      | .error _ => [.fail]
      | .ok fromP =>
        match fs.lstat fromP with
        | none => [.fail]
        | some (canon, node) =>
          if c.noClobber && fs.lexists target then [.fail] else
          let here : List Op := match classifyKind node.kind with
            | .copy => [.copy fromP target]
            | .link => (match node with | .link t => [.link t target] | _ => [.fail])
            | .mkdir => [.mkdir target]
            | .special => [.special fromP target]
            | .unsupported => [.fail]
          -- does walkdir descend?
          let descend : Option (List Name) :=
            match lnode with
            | .dir _ => some canon
            | .link _ => (match followed with
                | some (cp, .dir _) => some cp
                | _ => none)
            | _ => none
          match descend with
          | none => here
          | some dcanon =>
            -- loop detection when following links: the directory is one of its own ancestors
            if lnode.isLink && c.dereference && anc.contains dcanon then [.fail] else
            match fs.root.getAt dcanon with
            | some (.dir es) =>
              here ++ (es.map (·.1)).flatMap fun n => walkEntry fs c gi src tb f (rel ++ [n]) (dcanon :: anc)
            | _ => here

def walkFuel : Nat := 64

/-! ## Sequential execution (L1) -/

inductive ExitClass | ok | err
deriving DecidableEq, Repr

structure Outcome where
  exit : ExitClass
  fs : Fs
deriving Repr

/-- content id of the regular file a path resolves to -/
def Fs.contentOf (fs : Fs) (p : RPath) : Option Nat :=
  match fs.stat p with
  | some (_, .file c) => some c
  | _ => none

/-- one operation run to completion; `none` = it failed (the run exits non-zero) -/
def execOp (fs : Fs) (c : Cfg) : Op → Option Fs
  | .fail => none
  | .mkdir t => (fs.mkdirAll t).toOption
  | .copy s t =>
    match fs.contentOf s with
    | none => none
    | some content =>
      if fs.exists t && fs.sameFile s t then none           -- the same-file guard
      else (fs.createFile t content).toOption
  | .link text t => (fs.symlink text t).toOption
  | .special s t =>
    match fs.stat s with
    | some (_, .special k rdev) =>
      if fs.exists t then
        if c.noClobber then none
        else if fs.sameFile s t then none            -- the same-file guard (special files)
        else match fs.unlink t with
          | .ok fs1 => (fs1.mknod t k rdev).toOption
          | .error _ => none
      else (fs.mknod t k rdev).toOption
    | _ => none

/-- execute operations in order until one fails -/
def execOps (fs : Fs) (c : Cfg) : List Op → Outcome
  | [] => ⟨.ok, fs⟩
  | op :: r => match execOp fs c op with
    | some fs' => execOps fs' c r
    | none => ⟨.err, fs⟩

/-- `.gitignore` texts of the scenario, by content id of the file -/
abbrev GiTexts := List (Nat × List UInt8)

def giLookup : GiTexts → Nat → List UInt8
  | [], _ => []
  | (k, v) :: r, n => if k = n then v else giLookup r n

/-- `parse_ignore(source)`: the `.gitignore` at the source's root, if the option is on; a missing or
unreadable file gives an empty pattern list -/
def parseIgnore (fs : Fs) (c : Cfg) (texts : GiTexts) (src : RPath) : Ignore :=
  if c.gitignore then
    some (match fs.contentOf (src.push [46, 103, 105, 116, 105, 103, 110, 111, 114, 101]) with
      | some id => Gi.parse (giLookup texts id)
      | none => [])
  else none

/-- all sources in argv order; each source's `target_base` is evaluated against the file system as left by
the previous sources (as the real walker does).  Within one source the operations are computed against the
state at the start of its walk: for distinct targets outside the sources this is what the interleaved walker
sees too. -/
def runSources (fs : Fs) (c : Cfg) (texts : GiTexts) (dest : RPath) : List RPath → Outcome
  | [] => ⟨.ok, fs⟩
  | s :: r =>
    match targetBase fs c dest s with
    | none => ⟨.err, fs⟩
    | some tb =>
      let ops := walkEntry fs c (parseIgnore fs c texts s) s tb walkFuel [] []
      let o := execOps fs c ops
      match o.exit with
      | .ok => runSources o.fs c texts dest r
      | .err => o

def L1run (fs : Fs) (o : Opts) (texts : GiTexts) : Outcome :=
  match validate fs o with
  | .error _ => ⟨.err, fs⟩
  | .ok (sources, dest) => runSources fs o.cfg texts dest sources

end Xcp
