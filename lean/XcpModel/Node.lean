import XcpModel.Handle
/-! # Special files: `Operation::Special` in both drivers and `libfs::copy_node` -/
namespace Xcp

structure NodeSpec where
  kind : FileKind
  mode : Nat      -- 12 permission bits
  rdev : Nat      -- device number (st_rdev); 0 for fifos and sockets
deriving DecidableEq, Repr

/-- `mknodat(CWD, dest, type-of(src), mode-of(src), src.rdev())` under a file-creation mask -/
def mknodResult (src : NodeSpec) (umask : Nat) : NodeSpec :=
  { kind := src.kind, mode := src.mode &&& (0o7777 ^^^ (umask &&& 0o7777)), rdev := src.rdev }

inductive NodeCall | probeDest | unlink | mknod (n : NodeSpec)
deriving DecidableEq, Repr

/-- What the walker + driver do for one source entry of the given kind: `none` in second position = the run
fails. `destExists` is `to.exists()`; `destRemovable` says `remove_file(to)` would succeed (not a directory). -/
def specialProgram (src : NodeSpec) (umask : Nat) (noClobber destExists destRemovable : Bool) :
    List NodeCall × Option NodeSpec :=
  match classifyKind src.kind with
  | .special =>
    if destExists then
      if noClobber then ([.probeDest], none)
      else if destRemovable then ([.probeDest, .unlink, .mknod (mknodResult src umask)], some (mknodResult src umask))
      else ([.probeDest, .unlink], none)
    else ([.probeDest, .mknod (mknodResult src umask)], some (mknodResult src umask))
  | _ => ([], none)

end Xcp
