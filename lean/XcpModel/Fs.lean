import XcpModel.Backup
import XcpModel.Libfs
/-! # A small total model of the file-system namespace

Only what xcp's tree handling needs: a tree of directories, regular files (content identified by an
opaque id), symbolic links (raw target text) and special nodes; POSIX path resolution with `.`/`..`,
symbolic links (fuel-bounded: ELOOP) and "last component missing"; and the mutating calls xcp issues.
Hard links and permissions are not modelled here (C10 has its own model; aliasing by hard link is covered
by the identity-based same-file guard, modelled through `sameFile`).  Every function is structurally
recursive (on the tree, the component list or explicit fuel) so that concrete witnesses evaluate by
`decide`. -/
namespace Xcp

/-- One path component as Rust's `Path::components()` yields them. -/
inductive Comp
  | cur                 -- a leading `.`
  | parent              -- `..`
  | name (n : Name)
deriving DecidableEq, Repr

/-- A path as spelled, after Rust's normalisation (repeated `/`, interior and trailing `.`, trailing `/`
dropped; leading `.` and every `..` kept). -/
structure RPath where
  abs : Bool
  comps : List Comp
  /-- spelled with a trailing `/` (or `/.`): the kernel then insists on a directory. Rust's component view,
  `==`, `join` of further components and `strip_prefix` ignore it. -/
  trail : Bool := false
deriving DecidableEq, Repr

/-- `Path == Path`: component-wise -/
def RPath.same (a b : RPath) : Bool := a.abs == b.abs && a.comps == b.comps

/-- `Path::join` -/
def RPath.join (p q : RPath) : RPath :=
  if q.abs then q else
  -- joining a relative path that starts with `.` keeps the dot as a component only if p is empty
  { abs := p.abs, comps := p.comps ++ (if p.comps.isEmpty && !p.abs then q.comps else q.comps.filter (· ≠ .cur)),
    trail := if q.comps.isEmpty then p.trail else q.trail }

def RPath.push (p : RPath) (n : Name) : RPath := { p with comps := p.comps ++ [.name n], trail := false }

/-- `components().next_back()` as a path of its own (`dest.join(sourcedir)`); `none` for an empty path.
A root-only path yields the root. -/
def RPath.lastComp (p : RPath) : Option RPath :=
  match lastOf p.comps with
  | some c => some ⟨false, [c], false⟩
  | none => if p.abs then some ⟨true, [], false⟩ else none

/-- `Path::parent` on the spelled path -/
def RPath.parentPath (p : RPath) : Option RPath :=
  match p.comps.reverse with
  | [] => none
  | _ :: r => some { p with comps := r.reverse, trail := false }

/-- `Path::file_name`: the last component if it is a normal name -/
def RPath.fileName (p : RPath) : Option Name :=
  match lastOf p.comps with
  | some (.name n) => some n
  | _ => none

inductive Node
  | file (content : Nat)
  | dir (entries : List (Name × Node))
  | link (target : RPath)
  | special (kind : FileKind) (rdev : Nat)
deriving Repr

abbrev Entries := List (Name × Node)

def entGet : Entries → Name → Option Node
  | [], _ => none
  | (k, v) :: r, n => if k = n then some v else entGet r n

/-- replace in place (keeps readdir order) or append -/
def entSet : Entries → Name → Node → Entries
  | [], n, v => [(n, v)]
  | (k, w) :: r, n, v => if k = n then (k, v) :: r else (k, w) :: entSet r n v

def entDel : Entries → Name → Entries
  | [], _ => []
  | (k, w) :: r, n => if k = n then r else (k, w) :: entDel r n

/-- node at a canonical absolute path (no `.`/`..`/links) -/
def Node.getAt : Node → List Name → Option Node
  | nd, [] => some nd
  | .dir es, n :: r => match entGet es n with
    | some c => c.getAt r
    | none => none
  | _, _ :: _ => none

/-- replace/insert the node at a canonical path whose parent exists -/
def Node.setAt : Node → List Name → Node → Node
  | _, [], v => v
  | .dir es, [n], v => .dir (entSet es n v)
  | .dir es, n :: r, v => match entGet es n with
    | some c => .dir (entSet es n (c.setAt r v))
    | none => .dir es
  | nd, _ :: _, _ => nd

def Node.delAt : Node → List Name → Node
  | nd, [] => nd
  | .dir es, [n] => .dir (entDel es n)
  | .dir es, n :: r => match entGet es n with
    | some c => .dir (entSet es n (c.delAt r))
    | none => .dir es
  | nd, _ :: _ => nd

def Node.isDir : Node → Bool | .dir _ => true | _ => false
def Node.isLink : Node → Bool | .link _ => true | _ => false

def Node.kind : Node → FileKind
  | .file _ => .file | .dir _ => .dir | .link _ => .symlink | .special k _ => k

/-- outcome of resolving a path -/
inductive Res
  | found (p : List Name)                       -- canonical path of an existing object
  | missing (parent : List Name) (n : Name)     -- parent directory exists, last component does not
  | err (e : Errno)
deriving DecidableEq, Repr

/-- POSIX path walk from canonical directory `cur`. One unit of fuel per component or link expansion. -/
def walkPath (root : Node) (followLast : Bool) : (fuel : Nat) → (cur : List Name) → List Comp → Res
  | 0, _, _ => .err .ELOOP
  | _+1, cur, [] => .found cur
  | f+1, cur, .cur :: r => walkPath root followLast f cur r
  | f+1, cur, .parent :: r => walkPath root followLast f cur.dropLast r
  | f+1, cur, .name n :: r =>
    match root.getAt (cur ++ [n]) with
    | none => if r.isEmpty then .missing cur n else .err .ENOENT
    | some (.link t) =>
      if r.isEmpty && !followLast then .found (cur ++ [n])
      else walkPath root followLast f (if t.abs then [] else cur) (t.comps ++ r)
    | some (.dir _) => walkPath root followLast f (cur ++ [n]) r
    | some _ => if r.isEmpty then .found (cur ++ [n]) else .err .ENOTDIR

structure Fs where
  root : Node
  cwd : List Name        -- canonical
deriving Repr

def resolveFuel : Nat := 256

def Fs.resolve (fs : Fs) (p : RPath) (followLast : Bool) : Res :=
  if p.comps.isEmpty && !p.abs then .err .ENOENT      -- the empty path
  else
    match walkPath fs.root (followLast || p.trail) resolveFuel (if p.abs then [] else fs.cwd) p.comps with
    | .found q =>
      if p.trail then
        match fs.root.getAt q with
        | some (.dir _) => .found q
        | _ => .err .ENOTDIR
      else .found q
    | r => r

/-- `stat` -/
def Fs.stat (fs : Fs) (p : RPath) : Option (List Name × Node) :=
  match fs.resolve p true with
  | .found c => (fs.root.getAt c).map (c, ·)
  | _ => none

/-- `lstat` -/
def Fs.lstat (fs : Fs) (p : RPath) : Option (List Name × Node) :=
  match fs.resolve p false with
  | .found c => (fs.root.getAt c).map (c, ·)
  | _ => none

/-- `Path::exists()` / `is_dir()` (follow links; any error is "false") -/
def Fs.exists (fs : Fs) (p : RPath) : Bool := (fs.stat p).isSome
def Fs.isDir (fs : Fs) (p : RPath) : Bool := match fs.stat p with | some (_, n) => n.isDir | none => false
def Fs.lexists (fs : Fs) (p : RPath) : Bool := (fs.lstat p).isSome

/-- `libfs::is_same_file` (device+inode of the resolved objects): same canonical object -/
def Fs.sameFile (fs : Fs) (a b : RPath) : Bool :=
  match fs.stat a, fs.stat b with
  | some (x, _), some (y, _) => x = y
  | _, _ => false

/-- `canonicalize` -/
def Fs.canonicalize (fs : Fs) (p : RPath) : Except Errno RPath :=
  match fs.resolve p true with
  | .found c => .ok ⟨true, c.map .name, false⟩
  | .missing _ _ => .error .ENOENT
  | .err e => .error e

/-! ## Mutating calls -/

/-- `File::create` (O_CREAT|O_TRUNC|O_WRONLY, follows links) then the whole copy: the file's content becomes `c` -/
def Fs.createFile (fs : Fs) (p : RPath) (c : Nat) : Except Errno Fs :=
  match fs.resolve p true with
  | .found q => match fs.root.getAt q with
    | some (.file _) => .ok { fs with root := fs.root.setAt q (.file c) }
    | some (.dir _) => .error .EISDIR
    | some (.special _ _) => .ok fs          -- opening a device/fifo for writing does not replace it
    | _ => .error .ENOENT
  | .missing par n => if p.trail then .error .EISDIR else .ok { fs with root := fs.root.setAt (par ++ [n]) (.file c) }
  | .err e => .error e

/-- `mkdir(2)`: does not follow a final link -/
def Fs.mkdir (fs : Fs) (p : RPath) : Except Errno Fs :=
  match fs.resolve p false with
  | .found _ => .error .EEXIST
  | .missing par n => .ok { fs with root := fs.root.setAt (par ++ [n]) (.dir []) }
  | .err e => .error e

/-- `std::fs::create_dir_all`, structurally recursive on the component list (deepest first) -/
def Fs.mkdirAllAux (fs : Fs) (abs : Bool) : (rev : List Comp) → Except Errno Fs
  | [] => .ok fs
  | c :: rest =>
    let p : RPath := ⟨abs, (c :: rest).reverse, false⟩
    match fs.mkdir p with
    | .ok fs' => .ok fs'
    | .error .ENOENT =>
      match Fs.mkdirAllAux fs abs rest with
      | .ok fs1 =>
        match fs1.mkdir p with
        | .ok fs2 => .ok fs2
        | .error e => if fs1.isDir p then .ok fs1 else .error e
      | .error e => .error e
    | .error e => if fs.isDir p then .ok fs else .error e

def Fs.mkdirAll (fs : Fs) (p : RPath) : Except Errno Fs :=
  if p.comps.isEmpty then .ok fs else Fs.mkdirAllAux fs p.abs p.comps.reverse

/-- `symlink(target, linkpath)` -/
def Fs.symlink (fs : Fs) (target : RPath) (p : RPath) : Except Errno Fs :=
  match fs.resolve p false with
  | .found _ => .error .EEXIST
  | .missing par n => .ok { fs with root := fs.root.setAt (par ++ [n]) (.link target) }
  | .err e => .error e

/-- `unlink` (`remove_file`) -/
def Fs.unlink (fs : Fs) (p : RPath) : Except Errno Fs :=
  match fs.resolve p false with
  | .found q => match fs.root.getAt q with
    | some (.dir _) => .error .EISDIR
    | some _ => if q.isEmpty then .error .EISDIR else .ok { fs with root := fs.root.delAt q }
    | none => .error .ENOENT
  | .missing _ _ => .error .ENOENT
  | .err e => .error e

/-- `mknod` -/
def Fs.mknod (fs : Fs) (p : RPath) (k : FileKind) (rdev : Nat) : Except Errno Fs :=
  match fs.resolve p false with
  | .found _ => .error .EEXIST
  | .missing par n => .ok { fs with root := fs.root.setAt (par ++ [n]) (.special k rdev) }
  | .err e => .error e

/-- `rename(a, b)` for regular files in one directory (the backup rename) -/
def Fs.rename (fs : Fs) (a b : RPath) : Except Errno Fs :=
  match fs.resolve a false, fs.resolve b false with
  | .found qa, .found qb =>
    match fs.root.getAt qa with
    | some n => .ok { fs with root := (fs.root.delAt qa).setAt qb n }
    | none => .error .ENOENT
  | .found qa, .missing par nb =>
    match fs.root.getAt qa with
    | some n => .ok { fs with root := (fs.root.delAt qa).setAt (par ++ [nb]) n }
    | none => .error .ENOENT
  | .missing _ _, _ => .error .ENOENT
  | .err e, _ => .error e
  | _, .err e => .error e

/-- names of a directory, in readdir order -/
def Fs.readdir (fs : Fs) (p : RPath) : Except Errno (List Name) :=
  match fs.stat p with
  | some (_, .dir es) => .ok (es.map (·.1))
  | some _ => .error .ENOTDIR
  | none => .error .ENOENT

end Xcp
