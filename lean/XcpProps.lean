import XcpProps.C01
import XcpProps.C05
import XcpProps.C09
import XcpProps.C10
import XcpProps.C14
import XcpProps.C15
import XcpProps.C19
