import XcpProps.C01
import XcpProps.C05
import XcpProps.C09
import XcpProps.C19
