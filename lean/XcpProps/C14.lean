import XcpModel.Node
/-! # C14 — FIFOs, sockets and character devices are recreated as identical nodes

Model slice: `classifyKind` (the walker's dispatch), `specialProgram` (`Operation::Special` in both
drivers: exists? → no-clobber error | remove_file → `copy_node`) and `mknodResult` (`mknodat` with the
source's type, permission bits and `st_rdev`, limited by the umask).  The call vocabulary of a special
operation contains no `open`/`read` of the source: it is never opened.  -/
namespace Xcp.C14

open Xcp

/-- Exactly sockets, character devices and FIFOs are recreated; block devices and unknown kinds are errors. -/
theorem classify_spec (k : FileKind) :
    (classifyKind k = .special ↔ k = .socket ∨ k = .chr ∨ k = .fifo) ∧
    (classifyKind k = .unsupported ↔ k = .blk ∨ k = .other) := by
  cases k <;> simp [classifyKind]

/-- The node created has the source's type and device number, and the source's permission bits as limited by
the process's file-creation mask. -/
theorem node_identical (src : NodeSpec) (umask : Nat) (nc ex rm : Bool) (n : NodeSpec)
    (h : (specialProgram src umask nc ex rm).2 = some n) :
    n.kind = src.kind ∧ n.rdev = src.rdev ∧ n.mode = src.mode &&& (0o7777 ^^^ (umask &&& 0o7777)) ∧
    (src.kind = .socket ∨ src.kind = .chr ∨ src.kind = .fifo) := by
  unfold specialProgram at h
  cases hk : src.kind <;> simp [hk, classifyKind] at h <;>
    (cases ex <;> cases nc <;> cases rm <;> simp at h <;> subst h <;> simp [mknodResult, hk])

/-- An existing destination entry is replaced (unlink, then mknod) unless no-clobber is set, in which case
nothing is modified and the run fails. -/
theorem replace_unless_noclobber (src : NodeSpec) (umask : Nat) (rm : Bool)
    (hk : classifyKind src.kind = .special) :
    (specialProgram src umask true true rm = ([.probeDest], none)) ∧
    (specialProgram src umask false true true =
      ([.probeDest, .unlink, .mknod (mknodResult src umask)], some (mknodResult src umask))) := by
  simp [specialProgram, hk]

/-- Block devices and unknown kinds make the run fail and issue no call at all. -/
theorem block_and_unknown_fail (src : NodeSpec) (umask : Nat) (nc ex rm : Bool)
    (hk : src.kind = .blk ∨ src.kind = .other) : specialProgram src umask nc ex rm = ([], none) := by
  rcases hk with hk | hk <;> simp [specialProgram, hk, classifyKind]

/-- Full characterisation of success for one special-file entry. -/
theorem succeeds_iff (src : NodeSpec) (umask : Nat) (nc ex rm : Bool) :
    (specialProgram src umask nc ex rm).2.isSome = true ↔
      classifyKind src.kind = .special ∧ (ex = false ∨ (nc = false ∧ rm = true)) := by
  unfold specialProgram
  cases hk : classifyKind src.kind <;> cases ex <;> cases nc <;> cases rm <;> simp

/-- A fresh destination: one probe, one `mknod`, no `unlink`. -/
theorem fresh_destination_created (src : NodeSpec) (umask : Nat) (nc rm : Bool)
    (hk : classifyKind src.kind = .special) :
    specialProgram src umask nc false rm =
      ([.probeDest, .mknod (mknodResult src umask)], some (mknodResult src umask)) := by
  simp [specialProgram, hk]

/-- An existing destination that cannot be unlinked (a directory): the run fails and no node is created. -/
theorem unremovable_destination_fails (src : NodeSpec) (umask : Nat)
    (hk : classifyKind src.kind = .special) :
    specialProgram src umask false true false = ([.probeDest, .unlink], none) := by
  simp [specialProgram, hk]

/-- A `mknod` is issued exactly on the successful paths, with exactly the node reported, and `unlink` is
never issued under no-clobber or for a fresh destination. -/
theorem mknod_iff_success (src : NodeSpec) (umask : Nat) (nc ex rm : Bool) (n : NodeSpec) :
    (NodeCall.mknod n ∈ (specialProgram src umask nc ex rm).1 ↔ (specialProgram src umask nc ex rm).2 = some n) ∧
    ((nc = true ∨ ex = false) → NodeCall.unlink ∉ (specialProgram src umask nc ex rm).1) := by
  unfold specialProgram
  cases hk : classifyKind src.kind <;> cases ex <;> cases nc <;> cases rm <;> simp [eq_comm]

/-- Every bit of the file-creation mask is cleared in the created node's mode … -/
theorem umask_bits_cleared (src : NodeSpec) (umask : Nat) :
    (mknodResult src umask).mode &&& (umask &&& 0o7777) = 0 := by
  apply Nat.eq_of_testBit_eq
  intro i
  simp only [mknodResult, Nat.testBit_and, Nat.testBit_xor, Nat.zero_testBit]
  cases src.mode.testBit i <;> cases umask.testBit i <;> cases (0o7777 : Nat).testBit i <;> rfl

/-- … and no bit is set that the source does not have. -/
theorem mode_bits_from_source (src : NodeSpec) (umask : Nat) :
    (mknodResult src umask).mode &&& src.mode = (mknodResult src umask).mode := by
  apply Nat.eq_of_testBit_eq
  intro i
  simp only [mknodResult, Nat.testBit_and]
  cases src.mode.testBit i <;> simp

/-- With an empty mask a 12-bit mode is copied exactly. -/
theorem umask_zero_exact (src : NodeSpec) (h : src.mode < 4096) : (mknodResult src 0).mode = src.mode := by
  simp only [mknodResult, Nat.zero_and, Nat.xor_zero]
  have : (0o7777 : Nat) = 2^12 - 1 := by decide
  rw [this, Nat.and_two_pow_sub_one_eq_mod]
  exact Nat.mod_eq_of_lt h

/-- With umask 0 the permission bits are copied exactly; with 022 group/other write are dropped. -/
example : (mknodResult ⟨.chr, 0o666, 259⟩ 0).mode = 0o666 ∧ (mknodResult ⟨.chr, 0o666, 259⟩ 0o022).mode = 0o644 ∧
    (mknodResult ⟨.chr, 0o666, 259⟩ 0o022).rdev = 259 := by decide

end Xcp.C14
