import XcpModel.Node
/-! # C14 — FIFOs, sockets and character devices are recreated as identical nodes

Model slice: `classifyKind` (the walker's dispatch), `specialProgram` (`Operation::Special` in both
drivers: exists? → no-clobber error | remove_file → `copy_node`) and `mknodResult` (`mknodat` with the
source's type, permission bits and `st_rdev`, limited by the umask).  The call vocabulary of a special
operation contains no `open`/`read` of the source: it is never opened.  -/
namespace Xcp.C14

open Xcp

/-- Exactly sockets, character devices and FIFOs are recreated; block devices and unknown kinds are errors. -/
theorem classify_spec (k : FileKind) :
    (classifyKind k = .special ↔ k = .socket ∨ k = .chr ∨ k = .fifo) ∧
    (classifyKind k = .unsupported ↔ k = .blk ∨ k = .other) := by
  cases k <;> simp [classifyKind]

/-- The node created has the source's type and device number, and the source's permission bits as limited by
the process's file-creation mask. -/
theorem node_identical (src : NodeSpec) (umask : Nat) (nc ex rm : Bool) (n : NodeSpec)
    (h : (specialProgram src umask nc ex rm).2 = some n) :
    n.kind = src.kind ∧ n.rdev = src.rdev ∧ n.mode = src.mode &&& (0o7777 ^^^ (umask &&& 0o7777)) ∧
    (src.kind = .socket ∨ src.kind = .chr ∨ src.kind = .fifo) := by
  unfold specialProgram at h
  cases hk : src.kind <;> simp [hk, classifyKind] at h <;>
    (cases ex <;> cases nc <;> cases rm <;> simp at h <;> subst h <;> simp [mknodResult, hk])

/-- An existing destination entry is replaced (unlink, then mknod) unless no-clobber is set, in which case
nothing is modified and the run fails. -/
theorem replace_unless_noclobber (src : NodeSpec) (umask : Nat) (rm : Bool)
    (hk : classifyKind src.kind = .special) :
    (specialProgram src umask true true rm = ([.probeDest], none)) ∧
    (specialProgram src umask false true true =
      ([.probeDest, .unlink, .mknod (mknodResult src umask)], some (mknodResult src umask))) := by
  simp [specialProgram, hk]

/-- Block devices and unknown kinds make the run fail and issue no call at all. -/
theorem block_and_unknown_fail (src : NodeSpec) (umask : Nat) (nc ex rm : Bool)
    (hk : src.kind = .blk ∨ src.kind = .other) : specialProgram src umask nc ex rm = ([], none) := by
  rcases hk with hk | hk <;> simp [specialProgram, hk, classifyKind]

/-- With umask 0 the permission bits are copied exactly; with 022 group/other write are dropped. -/
example : (mknodResult ⟨.chr, 0o666, 259⟩ 0).mode = 0o666 ∧ (mknodResult ⟨.chr, 0o666, 259⟩ 0o022).mode = 0o644 ∧
    (mknodResult ⟨.chr, 0o666, 259⟩ 0o022).rdev = 259 := by decide

end Xcp.C14
