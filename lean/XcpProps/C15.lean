import XcpModel.Handle
import XcpProofs.HandleLemmas
/-! # C15 — reflink modes keep their contract: never clones, always insists, auto falls back

Model slice: `classifyClone` (libfs `reflink`), `tryReflink` (`CopyHandle::try_reflink`) and `fileProgram`
(what is done to one destination file); the clone ioctl's answer is an arbitrary oracle value.
Byte-exactness of the fallback copy is C01/C05's theorem.  -/
namespace Xcp.C15

open Xcp

/-- `never`: no clone request is issued, whatever the kernel would answer. -/
theorem never_issues_no_clone (linux : Bool) (ans : CloneAns) : (tryReflink .never linux ans).1 = false := by
  rfl

theorem never_program_has_no_clone (c : Cfg) (h : c.reflink = .never) (len : Nat) (ans : CloneAns) (nd : Nat) (ok : Bool) :
    ∀ x ∈ (fileProgram c len ans nd ok).1, isClone x = false := by
  intro x hx
  simp only [fileProgram, h, tryReflink] at hx
  simp only [Bool.false_eq_true, if_false, List.append_nil, List.mem_append, List.mem_cons,
    List.mem_replicate, List.mem_map, List.not_mem_nil, or_false] at hx
  rcases hx with ((rfl | rfl) | ⟨_, rfl⟩) | ⟨s, _, rfl⟩ <;> rfl

/-- `always`: the file succeeds only through a successful clone, and then no data call is made. -/
theorem always_succeeds_only_by_clone (c : Cfg) (h : c.reflink = .always) (len : Nat) (ans : CloneAns) (nd : Nat) (ok : Bool)
    (hs : (fileProgram c len ans nd ok).2 = true) :
    ans = .ok ∧ c.linux = true ∧ FCall.clone true ∈ (fileProgram c len ans nd ok).1 ∧
    ∀ x ∈ (fileProgram c len ans nd ok).1, isData x = false := by
  cases hl : c.linux
  · simp [fileProgram, h, hl, tryReflink] at hs
  · cases hc : classifyClone ans with
    | error e => simp [fileProgram, h, hl, tryReflink, hc] at hs
    | ok b =>
      cases b
      · simp [fileProgram, h, hl, tryReflink, hc] at hs
      · have ha : ans = .ok := by
          cases ans with
          | ok => rfl
          | err e => cases e <;> simp [classifyClone] at hc
        refine ⟨ha, rfl, ?_, ?_⟩
        · simp [fileProgram, h, hl, tryReflink, hc]
        · intro x hx
          simp only [fileProgram, h, hl, tryReflink, hc] at hx
          simp only [if_true, List.mem_append, List.mem_cons, List.mem_map, List.not_mem_nil,
            or_false] at hx
          rcases hx with ((rfl | rfl) | rfl) | ⟨s, _, rfl⟩ <;> rfl

/-- `always` with cloning unsupported (any 'unsupported' errno, a hard error, or the build without the Linux
backend): the file fails. -/
theorem always_unsupported_fails (c : Cfg) (h : c.reflink = .always) (len : Nat) (ans : CloneAns) (nd : Nat) (ok : Bool)
    (hu : ans ≠ .ok ∨ c.linux = false) : (fileProgram c len ans nd ok).2 = false := by
  cases hl : c.linux
  · simp [fileProgram, h, hl, tryReflink]
  · cases hc : classifyClone ans with
    | error e => simp [fileProgram, h, hl, tryReflink, hc]
    | ok b =>
      cases b
      · simp [fileProgram, h, hl, tryReflink, hc]
      · exfalso
        rcases hu with hu | hu
        · apply hu
          cases ans with
          | ok => rfl
          | err e => cases e <;> simp [classifyClone] at hc
        · rw [hl] at hu; cases hu

/-- `auto`: the clone request comes first (before any data call) … -/
theorem auto_tries_clone_first (c : Cfg) (h : c.reflink = .auto) (hl : c.linux = true) (len : Nat) (ans : CloneAns) (nd : Nat) (ok : Bool) :
    ∃ b rest, (fileProgram c len ans nd ok).1 = .create :: .truncate len :: .clone b :: rest ∧
      ∀ x ∈ rest, isClone x = false := by
  have hfin : ∀ x ∈ (finaliseSteps c).map FCall.fin, isClone x = false := by
    intro x hx
    rw [List.mem_map] at hx
    obtain ⟨s, _, rfl⟩ := hx
    rfl
  cases hc : classifyClone ans with
  | error e =>
    refine ⟨false, (finaliseSteps c).map FCall.fin, ?_, hfin⟩
    simp [fileProgram, h, hl, tryReflink, hc]
  | ok b =>
    cases b
    · refine ⟨false, List.replicate nd FCall.data ++ (finaliseSteps c).map FCall.fin, ?_, ?_⟩
      · simp [fileProgram, h, hl, tryReflink, hc]
      · intro x hx
        rw [List.mem_append] at hx
        rcases hx with hx | hx
        · rw [List.mem_replicate] at hx; rw [hx.2]; rfl
        · exact hfin x hx
    · refine ⟨true, (finaliseSteps c).map FCall.fin, ?_, hfin⟩
      simp [fileProgram, h, hl, tryReflink, hc]

/-- … and when cloning is unavailable (exactly EOPNOTSUPP, EINVAL, EXDEV, ETXTBSY) it falls back to the data
copy, whose success decides the file's success. -/
theorem auto_falls_back (c : Cfg) (h : c.reflink = .auto) (len : Nat) (e : Errno) (nd : Nat) (ok : Bool)
    (hu : e = .EOPNOTSUPP ∨ e = .EINVAL ∨ e = .EXDEV ∨ e = .ETXTBSY) :
    (fileProgram c len (.err e) nd ok).2 = ok ∧
    ((fileProgram c len (.err e) nd ok).1.filter isData).length = nd := by
  cases hl : c.linux
  · refine ⟨by simp [fileProgram, h, hl, tryReflink], ?_⟩
    have : (fileProgram c len (.err e) nd ok).1 =
        .create :: .truncate len :: (List.replicate nd FCall.data ++ (finaliseSteps c).map FCall.fin) := by
      simp [fileProgram, h, hl, tryReflink]
    rw [this]
    exact filter_isData_tail nd _
  · have hc : classifyClone (.err e) = .ok false := by
      rcases hu with rfl | rfl | rfl | rfl <;> rfl
    refine ⟨by simp [fileProgram, h, hl, tryReflink, hc], ?_⟩
    have : (fileProgram c len (.err e) nd ok).1 =
        .create :: .truncate len :: .clone false ::
          (List.replicate nd FCall.data ++ (finaliseSteps c).map FCall.fin) := by
      simp [fileProgram, h, hl, tryReflink, hc]
    rw [this]
    exact filter_isData_tail nd _

/-- any other clone error is a failure in both `auto` and `always` -/
theorem hard_clone_error_fails (c : Cfg) (hm : c.reflink ≠ .never) (hl : c.linux = true) (len : Nat) (e : Errno) (nd : Nat) (ok : Bool)
    (hu : ¬ (e = .EOPNOTSUPP ∨ e = .EINVAL ∨ e = .EXDEV ∨ e = .ETXTBSY)) :
    (fileProgram c len (.err e) nd ok).2 = false := by
  have hc : ∃ e', classifyClone (.err e) = .error e' := by
    cases e <;> first | exact ⟨_, rfl⟩ | (exfalso; apply hu; simp)
  obtain ⟨e', hc⟩ := hc
  cases hr : c.reflink with
  | never => exact absurd hr hm
  | auto => simp [fileProgram, hr, hl, tryReflink, hc]
  | always => simp [fileProgram, hr, hl, tryReflink, hc]

/-- the trace monitor run on real traces accepts every program the model can produce -/
theorem monitor_sound (c : Cfg) (len : Nat) (ans : CloneAns) (nd : Nat) (ok : Bool) :
    monitorFile c len (fileProgram c len ans nd ok).1 = true := by
  have hr : c.reflink = .never → (tryReflink c.reflink c.linux ans).1 = false := by
    intro h; rw [h]; rfl
  unfold fileProgram
  generalize tryReflink c.reflink c.linux ans = r at hr
  obtain ⟨b, out⟩ := r
  cases b
  · cases out
    · exact monitor_shape c len none 0 (fun _ => rfl) (fun h => by cases h)
    · simpa using monitor_shape c len none nd (fun _ => rfl) (fun h => by cases h)
    · exact monitor_shape c len none 0 (fun _ => rfl) (fun h => by cases h)
  · have hne : c.reflink = .never → (some true : Option Bool) = none := by
      intro h; cases hr h
    have hne' : c.reflink = .never → (some false : Option Bool) = none := by
      intro h; cases hr h
    cases out
    · exact monitor_shape c len (some true) 0 hne (fun _ => rfl)
    · simpa using monitor_shape c len (some false) nd hne' (fun h => by cases h)
    · exact monitor_shape c len (some false) 0 hne' (fun h => by cases h)

/-- the monitor is not vacuous: it rejects a data copy after a successful clone, a clone under `never`,
and finalisation before data -/
example : monitorFile {} 5 [.create, .truncate 5, .clone true, .data, .fin .setxattrs, .fin .chmod, .fin .utimens] = false := by decide
example : monitorFile { reflink := .never } 5 [.create, .truncate 5, .clone false, .data, .fin .chmod, .fin .utimens] = false := by decide
example : monitorFile {} 5 [.create, .truncate 5, .clone false, .fin .chmod, .data, .fin .utimens] = false := by decide
example : monitorFile {} 5 [.create, .truncate 5, .clone false, .data, .data, .fin .setxattrs, .fin .chmod, .fin .utimens] = true := by decide

/-- The complete decision table of `try_reflink`, stated outright: the outcome is `cloned` exactly when a clone
request was issued and the kernel accepted it (never under `never`, never without the Linux backend); `always`
never ends in a data copy; `never` always does. -/
theorem decision_table (m : Reflink) (linux : Bool) (ans : CloneAns) :
    ((tryReflink m linux ans).2 = .cloned ↔ m ≠ .never ∧ linux = true ∧ ans = .ok) ∧
    ((tryReflink m linux ans).1 = true ↔ m ≠ .never ∧ linux = true) ∧
    (m = .always → (tryReflink m linux ans).2 ≠ .copy) ∧
    (m = .never → (tryReflink m linux ans).2 = .copy) ∧
    (m = .auto → linux = false → (tryReflink m linux ans).2 = .copy) := by
  cases m <;> cases linux <;> cases ans with
  | ok => simp [tryReflink, classifyClone]
  | err e => cases e <;> simp [tryReflink, classifyClone]

end Xcp.C15
