import XcpModel.Walker
import XcpProofs.WalkerLemmas
/-! # C16 — invalid invocations are rejected with no side effects

Model slice: `validate` (src/main.rs before "Start copy", after the `fix:` commits) — a function of a
READ-ONLY view of the file system that returns no new `Fs` — and `L1run`, which returns the untouched file
system with a non-zero exit whenever `validate` rejects.  "No side effects" is therefore by construction
(`rejected_means_untouched`); the content of the property is that each class IS rejected, at every position of
the offending argument among valid ones (the theorems quantify over arbitrary source lists).  Unknown option
values (driver, reflink, backup, block size, workers) are rejected by the argument parser before any of this
runs (usage error, exit 2): checked by the correspondence run, not modelled.  -/
namespace Xcp.C16

open Xcp

/-- a rejected invocation leaves the whole file system exactly as it was and exits non-zero -/
theorem rejected_means_untouched (fs : Fs) (o : Opts) (texts : GiTexts) (r : Reject) (h : validate fs o = .error r) :
    L1run fs o texts = ⟨.err, fs⟩ := by
  unfold L1run
  rw [h]

/-- contradictory options -/
theorem force_and_noclobber_rejected (fs : Fs) (o : Opts) (h1 : o.cfg.noClobber = true) (h2 : o.force = true) :
    validate fs o = .error .forceAndNoClobber := by
  unfold validate
  simp [h1, h2]

/-- no source: no paths at all, or only a destination -/
theorem no_source_rejected (fs : Fs) (o : Opts) (hf : ¬ (o.cfg.noClobber = true ∧ o.force = true))
    (h : o.targetDir = none ∧ o.paths.length ≤ 1 ∨ o.targetDir ≠ none ∧ o.paths = []) :
    ∃ r, validate fs o = .error r := by
  have hsplit : argSplit o = none ∨ ∃ d, argSplit o = some (d, []) := by
    unfold argSplit
    rcases h with ⟨ht, hl⟩ | ⟨ht, hp⟩
    · rw [ht]
      match hp : o.paths, hl with
      | [], _ => exact .inl rfl
      | [x], _ => exact .inr ⟨x, rfl⟩
      | _ :: _ :: _, hl => simp at hl
    · cases hd : o.targetDir with
      | none => exact absurd hd ht
      | some d => exact .inr ⟨d, by simp [hp]⟩
  have _ := hf
  rcases hsplit with hn | ⟨d, hd⟩
  · exact validate_error_of_nosplit fs o hn
  · exact validate_error_of_nosource fs o d hd

/-- the sources and destination of a literal (non-glob) invocation -/
def literalSplit (o : Opts) : Option (RPath × List RPath) :=
  match o.targetDir with
  | some d => some (d, o.paths)
  | none => splitLastPath o.paths

/-- a missing source, at any position among valid ones -/
theorem missing_source_rejected (fs : Fs) (o : Opts) (hg : o.glob = false) (dest : RPath) (srcs : List RPath)
    (hs : literalSplit o = some (dest, srcs)) (s : RPath) (hm : s ∈ srcs) (hx : fs.exists s = false) :
    ∃ r, validate fs o = .error r := by
  exact validate_error_of_check fs o dest srcs srcs hs (expandSources_noglob fs o srcs hg)
    (checkSources_error_of_mem fs o dest s srcs hm (checkSource_error_missing fs o dest s hx))

/-- a directory without `--recursive`, at any position -/
theorem dir_without_recursive_rejected (fs : Fs) (o : Opts) (hg : o.glob = false) (dest : RPath) (srcs : List RPath)
    (hs : literalSplit o = some (dest, srcs)) (s : RPath) (hm : s ∈ srcs) (hd : fs.isDir s = true)
    (hr : o.cfg.recursive = false) : ∃ r, validate fs o = .error r := by
  exact validate_error_of_check fs o dest srcs srcs hs (expandSources_noglob fs o srcs hg)
    (checkSources_error_of_mem fs o dest s srcs hm (checkSource_error_dir fs o dest s hd hr))

/-- several sources with a destination that is not a directory -/
theorem multi_to_nondir_rejected (fs : Fs) (o : Opts) (hg : o.glob = false) (dest : RPath) (srcs : List RPath)
    (hs : literalSplit o = some (dest, srcs)) (hn : 1 < srcs.length) (hd : fs.isDir dest = false) :
    ∃ r, validate fs o = .error r := by
  exact validate_error_of_multi fs o dest srcs srcs hs (expandSources_noglob fs o srcs hg) hn hd

/-- a directory onto an existing non-directory: the source's own target (dest, or dest/basename) exists and is
not a directory — at any position -/
theorem dir_onto_file_rejected (fs : Fs) (o : Opts) (hg : o.glob = false) (dest : RPath) (srcs : List RPath)
    (hs : literalSplit o = some (dest, srcs)) (s tb : RPath) (hm : s ∈ srcs) (hd : fs.isDir s = true)
    (ht : targetBase fs o.cfg dest s = some tb) (he : fs.exists tb = true) (hnd : fs.isDir tb = false) :
    ∃ r, validate fs o = .error r := by
  exact validate_error_of_check fs o dest srcs srcs hs (expandSources_noglob fs o srcs hg)
    (checkSources_error_of_mem fs o dest s srcs hm (checkSource_error_dirOnto fs o dest s tb hd ht he hnd))

/-- source identical to destination — textually, or the same object through another spelling, a symbolic link
(the model has no hard links) — at any position -/
theorem same_as_dest_rejected (fs : Fs) (o : Opts) (hg : o.glob = false) (dest : RPath) (srcs : List RPath)
    (hs : literalSplit o = some (dest, srcs)) (s tb : RPath) (hm : s ∈ srcs)
    (ht : targetBase fs o.cfg dest s = some tb)
    (hsame : s.same dest = true ∨ s.same tb = true ∨ (fs.exists tb = true ∧ fs.sameFile s tb = true)) :
    ∃ r, validate fs o = .error r := by
  exact validate_error_of_check fs o dest srcs srcs hs (expandSources_noglob fs o srcs hg)
    (checkSources_error_of_mem fs o dest s srcs hm (checkSource_error_same fs o dest s tb ht hsame))

/-- a malformed glob, or a pattern that matches nothing, among valid ones -/
theorem bad_or_empty_glob_rejected (fs : Fs) (o : Opts) (hg : o.glob = true) (dest : RPath) (pats : List RPath)
    (hs : literalSplit o = some (dest, pats)) (p : RPath) (hm : p ∈ pats)
    (hb : globOne fs p = none ∨ globOne fs p = some []) :
    ∃ r, validate fs o = .error r := by
  exact validate_error_of_expand fs o dest pats hs (expandSources_error_of_mem fs o hg pats p hm hb)

end Xcp.C16
