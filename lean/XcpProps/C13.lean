import XcpModel.Walker
import XcpProofs.DerefTree
import XcpProofs.DerefConc
import XcpProofs.MultiDeref
import XcpProofs.DerefClash
import XcpProofs.MultiDerefRun
import XcpProofs.EndToEndMore
import XcpProofs.WalkerLemmas
/-! # C13 — `--dereference` copies what links point to, or fails; never leaves links or gaps

Model slice: `walkEntry` with `dereference = true` (walkdir follows links after the `fix:` commit, the walker
canonicalizes each entry and `lstat`s the canonical path) and `execOps`.  -/
namespace Xcp.C13

open Xcp

/-- a fully resolved path never designates a symbolic link.

The two hypotheses on `fs` exclude degenerate values of the `Fs` structure that no real file system has and
for which the statement is false: `Fs.root` may be any `Node` and `Fs.cwd` any list of names.
* root a link: `fs = ⟨.link t, []⟩`, `p = ⟨true, [], false⟩` gives `canonicalize p = .ok p` and
  `lstat p = some ([], .link t)`.
* working directory designating a link: `fs = ⟨.dir [(l, .link t)], [l]⟩`, `p = ⟨false, [.cur], false⟩` gives
  `canonicalize p = .ok ⟨true, [.name l], false⟩`, whose `lstat` is the link `l`.  (Likewise a working directory
  *below* a link, `[l, x]`, with `p = ..`.)
With the root not a link and the working directory the root or an existing directory the statement holds for
every tree. -/
theorem canonical_is_not_a_link (fs : Fs) (hroot : fs.root.isLink = false)
    (hcwd : fs.cwd = [] ∨ ∃ es, fs.root.getAt fs.cwd = some (.dir es))
    (p q : RPath) (h : fs.canonicalize p = .ok q) (c : List Name) (n : Node)
    (hl : fs.lstat q = some (c, n)) : n.isLink = false :=
  lstat_canonical_nonlink fs hroot hcwd p q h c n hl

def isLinkOp : Op → Bool | .link _ _ => true | _ => false

/-- with dereference the walk emits no link operation, for any tree, any links, chains of any length
(same hypotheses on `fs` as `canonical_is_not_a_link`, on which it rests) -/
theorem deref_emits_no_link_op (fs : Fs) (hroot : fs.root.isLink = false)
    (hcwd : fs.cwd = [] ∨ ∃ es, fs.root.getAt fs.cwd = some (.dir es))
    (c : Cfg) (hd : c.dereference = true) (gi : Ignore) (src tb : RPath) :
    ∀ (fuel : Nat) (rel : List Name) (anc : List (List Name)), ∀ op ∈ walkEntry fs c gi src tb fuel rel anc, isLinkOp op = false := by
  intro fuel rel anc op h
  have := walkEntry_deref_no_link fs hroot hcwd c hd gi src tb fuel rel anc op h
  cases op with
  | link t tg => exact absurd rfl (this t tg)
  | _ => rfl

/-- number of symbolic links in a tree -/
def countLinks : Node → Nat
  | .link _ => 1
  | .dir es => countLinksL es
  | _ => 0
where countLinksL : List (Name × Node) → Nat
  | [] => 0
  | (_, n) :: r => countLinks n + countLinksL r

mutual
/-- `countLinks` is the `linkCount` the lemmas of `XcpProofs.WalkerLemmas` speak about -/
theorem countLinks_eq : (n : Node) → countLinks n = linkCount n
  | .link _ => by simp [countLinks, linkCount]
  | .dir es => by simp [countLinks, linkCount, countLinksL_eq es]
  | .file _ => by simp [countLinks, linkCount]
  | .special _ _ => by simp [countLinks, linkCount]
theorem countLinksL_eq : (es : List (Name × Node)) → countLinks.countLinksL es = linkCountL es
  | [] => by simp [countLinks.countLinksL, linkCountL]
  | (_, n) :: r => by simp [countLinks.countLinksL, linkCountL, countLinks_eq n, countLinksL_eq r]
end

/-- executing operations none of which is a link operation creates no symbolic link anywhere -/
theorem no_link_ops_create_no_links (fs : Fs) (c : Cfg) (ops : List Op) (h : ∀ op ∈ ops, isLinkOp op = false) :
    countLinks (execOps fs c ops).fs.root ≤ countLinks fs.root := by
  rw [countLinks_eq, countLinks_eq]
  refine execOps_links c ops fs ?_
  intro op hop t tg he
  have := h op hop
  rw [he] at this
  cases this

/-- a dangling link makes the walk fail (and a failed walk makes the run exit non-zero) -/
theorem dangling_link_fails (fs : Fs) (c : Cfg) (hd : c.dereference = true) (gi : Ignore) (src tb : RPath)
    (fuel : Nat) (rel : List Name) (anc : List (List Name)) (cp : List Name) (t : RPath)
    (hl : fs.lstat (relJoin src rel) = some (cp, .link t)) (hs : fs.stat (relJoin src rel) = none) :
    walkEntry fs c gi src tb (fuel + 1) rel anc = [.fail] := by
  simp [walkEntry, hl, hs, hd, Node.isLink]

theorem fail_op_exits_nonzero (fs : Fs) (c : Cfg) (pre post : List Op) (h : ∀ op ∈ pre, (execOp fs c op).isSome → True) :
    (execOps fs c (.fail :: post)).exit = .err := by
  have _ := h
  simp [execOps, execOp]

set_option maxRecDepth 8192 in  -- the walk burns all `resolveFuel = 256` units of fuel before giving ELOOP
/-- a cyclic link (`l -> l`, `a -> b -> a`) never resolves: it is reported like a dangling one -/
theorem cyclic_link_does_not_resolve :
    let root : Node := .dir [([83], .dir [([108], .link ⟨false, [.name [108]], false⟩)])]
    (Fs.stat ⟨root, []⟩ ⟨true, [.name [83], .name [108]], false⟩) = none := by
  decide


/-- TREE LEVEL: with `--dereference`, copying whatever the source designates — through any symbolic links at, above or
below it: links to files and to directories, nested, chains, relative or absolute, inside or outside the source — to a fresh
target runs every operation successfully and leaves at the target exactly the tree SEEN THROUGH the links
(`derefS`: every link replaced by what it resolves to, directories reached through links descended into), provided that
tree exists (`derefS … = some s`: no dangling link, no loop, supported kinds) -/
theorem destination_is_the_tree_seen_through_the_links (fs : Fs) (c : Cfg) (hd : c.dereference = true) (hn : c.noClobber = false)
    (src tb : RPath) (s : SNode) (fuel : Nat)
    (hwf : FsEq fs fs)
    (hsrc : AbsNames src)
    (hder : derefS fs (fuel + 1) src.names [] = some s)
    (htb : PlainTarget fs tb) (hne : tb.names ≠ []) (habs : fs.root.getAt tb.names = none)
    (hpar : ∃ es, fs.root.getAt tb.names.dropLast = some (.dir es))
    (hlen : tb.names.length + fuel < 255) :
    ∃ fs', execOps fs c (walkEntry fs c none src tb (fuel + 1) [] []) = ⟨.ok, fs'⟩ ∧
      FsEq fs' { fs with root := fs.root.setAt tb.names s.erase } ∧
      ∀ q x, fs'.root.getAt (tb.names ++ q) = some x → x.isLink = false := by
  obtain ⟨fs', hex, heq⟩ := mirror_fresh_deref fs c hd hn src tb s fuel hwf hsrc hder htb hne habs hpar hlen
  obtain ⟨fs'', hex', hnl⟩ := no_link_in_destination fs c hd hn src tb s fuel hwf hsrc hder htb hne habs hpar hlen
  rw [hex] at hex'
  injection hex' with _ hfs
  subst hfs
  exact ⟨fs', hex, heq, hnl⟩

/-- … each link REPLACED by what it points to: the tree left at the target is related to the source node by `Derefs`
(files and special nodes unchanged, directories entry by entry, a link by the dereferenced node its `stat` finds) -/
theorem every_link_is_replaced_by_its_target (fs : Fs) (c : Cfg) (hd : c.dereference = true) (hn : c.noClobber = false)
    (src tb : RPath) (s : SNode) (fuel : Nat) (loc : List Name) (srcNode : Node)
    (hwf : FsEq fs fs)
    (hsrc : AbsNames src) (hsl : fs.lstat src = some (loc, srcNode))
    (hder : derefS fs (fuel + 1) src.names [] = some s)
    (htb : PlainTarget fs tb) (hne : tb.names ≠ []) (habs : fs.root.getAt tb.names = none)
    (hpar : ∃ es, fs.root.getAt tb.names.dropLast = some (.dir es))
    (hlen : tb.names.length + fuel < 255) :
    ∃ fs' m, execOps fs c (walkEntry fs c none src tb (fuel + 1) [] []) = ⟨.ok, fs'⟩ ∧
      Derefs fs loc srcNode m ∧
      FsEq fs' { fs with root := fs.root.setAt tb.names m } ∧
      ∀ q x, fs'.root.getAt (tb.names ++ q) = some x → x.isLink = false :=
  mirror_fresh_deref_replaced fs c hd hn src tb s fuel loc srcNode hwf hsrc hsl hder htb hne habs hpar hlen

/-- … or the run FAILS: when the tree seen through the links does not exist (a dangling link, a loop, a chain beyond the
resolution limit, an unsupported kind), the run exits non-zero — never a gap, never a link left -/
theorem no_tree_through_the_links_means_failure (fs : Fs) (c : Cfg) (hd : c.dereference = true) (hn : c.noClobber = false)
    (hroot : fs.root.isLink = false) (hsk : SpecialKindsOk fs.root) (src tb : RPath)
    (hsrc : AbsNames src) (htb : AbsNames tb) (fuel : Nat)
    (h : derefS fs fuel src.names [] = none) :
    (execOps fs c (walkEntry fs c none src tb fuel [] [])).exit = .err :=
  run_fails_of_no_tree fs c hd hn hroot hsk src tb hsrc htb fuel h

/-- … under EVERY interleaving of the walker with the workers (any worker count, either driver): in terms of the source
node, with every link leading to something copyable (`derefNode … = some m`), no operation can be made to fail and every
complete run of the concurrent model leaves `m` — the source with each link replaced by what it leads to — at the target -/
theorem every_interleaving_leaves_the_dereferenced_tree (fs : Fs) (c : Cfg) (hd : c.dereference = true) (hn : c.noClobber = false)
    (src tb : RPath) (srcNode m : Node) (fuel : Nat)
    (hwf : FsEq fs fs)
    (hsrc : AbsNames src) (hsn : fs.root.getAt src.names = some srcNode)
    (hcop : srcNode.Copyable fuel)
    (hder : derefNode fs srcNode src.names = some m)
    (htb : PlainTarget fs tb) (hne : tb.names ≠ []) (habs : fs.root.getAt tb.names = none)
    (hpar : ∃ es, fs.root.getAt tb.names.dropLast = some (.dir es))
    (hlen : src.names.length + fuel < 255 ∧ tb.names.length + fuel < 255)
    (ls : List L0.Label) (st : L0.St)
    (hrun : L0.run c (L0.init fs (walkEntry fs c none src tb (fuel + 1) [] [])) ls = some st) :
    st.failed = false ∧
    (L0.final st = true → FsEq st.fs { fs with root := fs.root.setAt tb.names m }) :=
  deref_fresh_concurrent_node fs c hd hn src tb srcNode m fuel hwf hsrc hsn hcop hder htb hne habs hpar hlen ls st hrun

/-- SEVERAL sources with `-L` into an existing directory (`xcp -rL s1 … sn DEST/`): each source's tree seen through the
links (`e.s`) compatible with what its target holds, no source reading from any target region (`ReadsAway`), distinct base
names: every operation of the concatenated walk succeeds and every target is overlaid with the dereferenced tree, in argv
order (the operation lists are computed in the initial state; the form that re-walks later sources in the changed state is
not proved — compared per run) -/
theorem several_sources_each_dereferenced (fs : Fs) (c : Cfg) (dest : RPath) (items : List DerefSrc)
    (hd : c.dereference = true) (hn : c.noClobber = false)
    (hwf : FsEq fs fs)
    (hdd : ∃ es, fs.root.getAt dest.names = some (.dir es))
    (hsrc : ∀ e ∈ items, AbsNames e.path ∧ e.path.fileName = some e.base ∧
      derefS fs walkFuel e.path.names [] = some e.s)
    (hnd : (items.map (·.base)).Nodup)
    (haway : ∀ e ∈ items, ∀ e' ∈ items, ReadsAway e.s (dest.names ++ [e'.base]))
    (hcomp : ∀ e ∈ items, Compatible (fs.root.getAt (dest.names ++ [e.base])) e.s.erase)
    (hlen : dest.names.length + 1 + walkFuel < 256) :
    ∃ fs', execOps fs c (multiOpsD fs c dest items) = ⟨.ok, fs'⟩ ∧
      FsEq fs' { fs with root := overlayAllD fs.root dest.names items fs.root } :=
  multi_deref_sequential fs c dest items hd hn hwf hdd hsrc hnd haway hcomp hlen

/-- … and under EVERY interleaving of the walker with the workers -/
theorem several_sources_each_dereferenced_on_every_interleaving (fs : Fs) (c : Cfg) (dest : RPath) (items : List DerefSrc)
    (hd : c.dereference = true) (hn : c.noClobber = false)
    (hwf : FsEq fs fs)
    (hdd : ∃ es, fs.root.getAt dest.names = some (.dir es))
    (hsrc : ∀ e ∈ items, AbsNames e.path ∧ e.path.fileName = some e.base ∧
      derefS fs walkFuel e.path.names [] = some e.s)
    (hnd : (items.map (·.base)).Nodup)
    (haway : ∀ e ∈ items, ∀ e' ∈ items, ReadsAway e.s (dest.names ++ [e'.base]))
    (hcomp : ∀ e ∈ items, Compatible (fs.root.getAt (dest.names ++ [e.base])) e.s.erase)
    (hlen : dest.names.length + 1 + walkFuel < 256)
    (ls : List L0.Label) (st : L0.St)
    (hrun : L0.run c (L0.init fs (multiOpsD fs c dest items)) ls = some st) :
    st.failed = false ∧ (L0.final st = true →
      FsEq st.fs { fs with root := overlayAllD fs.root dest.names items fs.root }) :=
  multi_deref_concurrent_ok fs c dest items hd hn hwf hdd hsrc hnd haway hcomp hlen ls st hrun

/-- "exit 0 ⇒ the destination is overlaid with the tree seen through the links", no compatibility assumed, for every absent or
plain destination that no operation reads from (`ReadsAway`): a clash makes the run fail, sequentially and on every interleaving
(`Xcp.deref_clash_fails`, `Xcp.deref_clash_fails_every_interleaving`) — never a link left, never a gap, never a silent merge -/
theorem exit_zero_implies_overlaid_with_the_dereferenced_tree (fs : Fs) (c : Cfg) (hd : c.dereference = true) (hn : c.noClobber = false)
    (src tb : RPath) (s : SNode) (fuel : Nat)
    (hwf : FsEq fs fs)
    (hsrc : AbsNames src)
    (hder : derefS fs (fuel + 1) src.names [] = some s)
    (htb : PlainTarget fs tb) (hne : tb.names ≠ [])
    (hplain : ∀ d, fs.root.getAt tb.names = some d → d.plainTree = true)
    (hpar : ∃ es, fs.root.getAt tb.names.dropLast = some (.dir es))
    (hout : ReadsAway s tb.names)
    (hlen : tb.names.length + fuel < 255)
    (fs' : Fs) (hok : execOps fs c (walkEntry fs c none src tb (fuel + 1) [] []) = ⟨.ok, fs'⟩) :
    FsEq fs' { fs with root := fs.root.setAt tb.names (Node.overlay (fs.root.getAt tb.names) s.erase) } :=
  deref_ok_implies_overlaid fs c hd hn src tb s fuel hwf hsrc hder htb hne hplain hpar hout hlen fs' hok

/-- SEVERAL sources with `-L`, as the program really runs them: each later source is RE-WALKED in the state the earlier ones
left (`runSources`).  `derefAway` (a computable condition on the INITIAL file system: no place the dereferencing walk of a source
looks at — path components, every component of every link text it expands — is at or below a target, and the places it arrives
at are unrelated to every target) makes the re-walk see the same tree (`Xcp.derefS_congr`), and every target is overlaid with
its source's dereferenced tree.  The condition is needed: with `/B/k → /T` the run `xcp -rL /S /B /T` copies the already-copied
`/T/S` again below `/T/B/k` (evaluated in `XcpProofs/MultiDerefRun.lean`; the real program does the same, as cp does) -/
theorem several_sources_each_dereferenced_as_the_program_runs_them (fs : Fs) (c : Cfg) (texts : GiTexts) (dest : RPath) (items : List DerefSrc)
    (hd : c.dereference = true) (hn : c.noClobber = false) (hg : c.gitignore = false)
    (hnt : c.noTargetDir = false)
    (hwf : FsEq fs fs)
    (hdest : PlainTarget fs dest) (hdd : ∃ es, fs.root.getAt dest.names = some (.dir es))
    (hsrc : ∀ e ∈ items, AbsNames e.path ∧ e.path.fileName = some e.base ∧
      derefS fs walkFuel e.path.names [] = some e.s)
    (haw : ∀ e ∈ items, derefAway fs (targetsOf dest.names items) walkFuel e.path.names [] = true)
    (hnd : (items.map (·.base)).Nodup)
    (haway : ∀ e ∈ items, ∀ e' ∈ items, ReadsAway e.s (dest.names ++ [e'.base]))
    (hcomp : ∀ e ∈ items, Compatible (fs.root.getAt (dest.names ++ [e.base])) e.s.erase)
    (hlen : dest.names.length + 1 + walkFuel < 256) :
    ∃ fs', runSources fs c texts dest (items.map (·.path)) = ⟨.ok, fs'⟩ ∧
      FsEq fs' { fs with root := overlayAllD fs.root dest.names items fs.root } :=
  multi_deref_run_of_away fs c texts dest items hd hn hg hnt hwf hdest hdd hsrc haw hnd haway hcomp hlen

/-- … and for the whole program model: validation ACCEPTS such an invocation (the checks on what the spelled paths resolve to
follow from the hypotheses; only `hspell` — no source is spelled like the destination or its target — is about the spelling)
and `L1run` leaves every target overlaid with its source's dereferenced tree -/
theorem whole_invocation_with_dereference (fs : Fs) (o : Opts) (texts : GiTexts) (dest : RPath) (items : List DerefSrc)
    (hd : o.cfg.dereference = true) (hn : o.cfg.noClobber = false) (hg : o.cfg.gitignore = false)
    (hnt : o.cfg.noTargetDir = false) (hrec : o.cfg.recursive = true) (hglob : o.glob = false)
    (hpaths : (o.targetDir = none ∧ o.paths = items.map (·.path) ++ [dest]) ∨
      (o.targetDir = some dest ∧ o.paths = items.map (·.path)))
    (hne : items ≠ [])
    (hwf : FsEq fs fs)
    (hdest : PlainTarget fs dest) (hdd : ∃ es, fs.root.getAt dest.names = some (.dir es))
    (hsrc : ∀ e ∈ items, AbsNames e.path ∧ e.path.fileName = some e.base ∧
      derefS fs walkFuel e.path.names [] = some e.s)
    (hspell : ∀ e ∈ items, e.path.names ≠ dest.names ∧ e.path.names ≠ dest.names ++ [e.base])
    (haw : ∀ e ∈ items, derefAway fs (targetsOf dest.names items) walkFuel e.path.names [] = true)
    (hnd : (items.map (·.base)).Nodup)
    (haway : ∀ e ∈ items, ∀ e' ∈ items, ReadsAway e.s (dest.names ++ [e'.base]))
    (hcomp : ∀ e ∈ items, Compatible (fs.root.getAt (dest.names ++ [e.base])) e.s.erase)
    (hlen : dest.names.length + 1 + walkFuel < 256) :
    validate fs o = .ok (items.map (·.path), dest) ∧
    ∃ fs', L1run fs o texts = ⟨.ok, fs'⟩ ∧
      FsEq fs' { fs with root := overlayAllD fs.root dest.names items fs.root } :=
  whole_invocation_dereferenced fs o texts dest items hd hn hg hnt hrec hglob hpaths hne hwf hdest hdd hsrc hspell haw hnd haway
    hcomp hlen

end Xcp.C13
