import XcpModel.Walker
/-! # C13 — `--dereference` copies what links point to, or fails; never leaves links or gaps

Model slice: `walkEntry` with `dereference = true` (walkdir follows links after the `fix:` commit, the walker
canonicalizes each entry and `lstat`s the canonical path) and `execOps`.  -/
namespace Xcp.C13

open Xcp

/-- a fully resolved path never designates a symbolic link -/
theorem canonical_is_not_a_link (fs : Fs) (p q : RPath) (h : fs.canonicalize p = .ok q) (c : List Name) (n : Node)
    (hl : fs.lstat q = some (c, n)) : n.isLink = false := by
  sorry

def isLinkOp : Op → Bool | .link _ _ => true | _ => false

/-- with dereference the walk emits no link operation, for any tree, any links, chains of any length -/
theorem deref_emits_no_link_op (fs : Fs) (c : Cfg) (hd : c.dereference = true) (gi : Ignore) (src tb : RPath) :
    ∀ (fuel : Nat) (rel : List Name) (anc : List (List Name)), ∀ op ∈ walkEntry fs c gi src tb fuel rel anc, isLinkOp op = false := by
  sorry

/-- number of symbolic links in a tree -/
def countLinks : Node → Nat
  | .link _ => 1
  | .dir es => countLinksL es
  | _ => 0
where countLinksL : List (Name × Node) → Nat
  | [] => 0
  | (_, n) :: r => countLinks n + countLinksL r

/-- executing operations none of which is a link operation creates no symbolic link anywhere -/
theorem no_link_ops_create_no_links (fs : Fs) (c : Cfg) (ops : List Op) (h : ∀ op ∈ ops, isLinkOp op = false) :
    countLinks (execOps fs c ops).fs.root ≤ countLinks fs.root := by
  sorry

/-- a dangling link makes the walk fail (and a failed walk makes the run exit non-zero) -/
theorem dangling_link_fails (fs : Fs) (c : Cfg) (hd : c.dereference = true) (gi : Ignore) (src tb : RPath)
    (fuel : Nat) (rel : List Name) (anc : List (List Name)) (cp : List Name) (t : RPath)
    (hl : fs.lstat (relJoin src rel) = some (cp, .link t)) (hs : fs.stat (relJoin src rel) = none) :
    walkEntry fs c gi src tb (fuel + 1) rel anc = [.fail] := by
  sorry

theorem fail_op_exits_nonzero (fs : Fs) (c : Cfg) (pre post : List Op) (h : ∀ op ∈ pre, (execOp fs c op).isSome → True) :
    (execOps fs c (.fail :: post)).exit = .err := by
  sorry

/-- a cyclic link (`l -> l`, `a -> b -> a`) never resolves: it is reported like a dangling one -/
theorem cyclic_link_does_not_resolve :
    let root : Node := .dir [([83], .dir [([108], .link ⟨false, [.name [108]], false⟩)])]
    (Fs.stat ⟨root, []⟩ ⟨true, [.name [83], .name [108]], false⟩) = none := by
  sorry

end Xcp.C13
