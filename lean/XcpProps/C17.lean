import XcpModel.Walker
import XcpProofs.GiTree
import XcpProofs.GiConc
import XcpProofs.GiOverlay
import XcpProofs.GiClash
import XcpProofs.MultiGi
/-! # C17 — `--gitignore` copies exactly the entries the root .gitignore does not exclude

PARTIAL by nature: the pattern engine xcp uses is the third-party `ignore`/`globset` crate; no theorem is
about it.  What is proved is about (a) the Lean SPECIFICATION of git's pattern semantics for the fragment
the property quantifies over (`Xcp.Gi`), and (b) the walker's pruning discipline (`walkEntry`): an excluded
entry emits nothing and is not descended into, so an excluded directory excludes everything beneath it and a
negation cannot re-include below it; the root itself is never filtered (the `fix:` commit); without the option
nothing is filtered.  At tree level (`destination_is_the_pruned_source_tree`, from `XcpProofs/GiTree.lean`): for ANY pattern list and any
copyable source tree copied to a fresh target, the destination is EXACTLY the source tree minus the excluded entries
(`Node.prune`: an entry is dropped iff `keeps` rejects its relative path with the entry's own is-directory flag, and
with it everything beneath), at every depth.  The flag is the entry's OWN type (`giIsDir`): a symbolic link to a
directory is not a directory for a pattern unless the walk follows links (finding F19, repaired by a `fix:` commit).
That xcp ≡ this spec ≡ `git check-ignore` is established by the three-way correspondence run only.  -/
namespace Xcp.C17

open Xcp Xcp.Gi

/-- the LAST matching line decides -/
theorem last_match_wins (ps : List Pattern) (p : Pattern) (comps : List Name) (d : Bool) :
    Gi.decide (ps ++ [p]) comps d =
      if p.matches comps d then (if p.negated then .whitelist else .ignore) else Gi.decide ps comps d := by
  simp [Gi.decide, List.foldl_append]

/-- with no pattern lines nothing is excluded (the .gitignore file itself and hidden files are ordinary
entries: they are copied unless a pattern names them) -/
theorem empty_ignore_keeps_everything (comps : List Name) (d : Bool) : keeps [] comps d = true := by
  simp [keeps, Gi.decide]

theorem dropWhile_append_singleton {α} (p : α → Bool) (x : α) (hx : p x = false) :
    ∀ l : List α, (l ++ [x]).dropWhile p = l.dropWhile p ++ [x]
  | [] => by simp [List.dropWhile, hx]
  | a :: l => by
    simp only [List.cons_append, List.dropWhile]
    cases p a
    · rfl
    · exact dropWhile_append_singleton p x hx l

/-- trimming trailing white space never removes a leading `#` -/
theorem trimEnd_hash (r : List UInt8) : ∃ r', trimEnd (35 :: r) = 35 :: r' := by
  refine ⟨(r.reverse.dropWhile (fun b => b = 32 || b = 9 || b = 13)).reverse, ?_⟩
  unfold trimEnd
  rw [List.reverse_cons, dropWhile_append_singleton _ _ (by decide)]
  simp

/-- blank lines and comments are skipped -/
theorem blank_and_comment_lines_skipped (r : List UInt8) : parseLine [] = none ∧ parseLine (35 :: r) = none := by
  refine ⟨by decide, ?_⟩
  obtain ⟨r', hr⟩ := trimEnd_hash r
  simp only [parseLine, hr]

/-- a directory-only pattern (trailing `/`) never matches a non-directory -/
theorem dir_only_pattern_needs_directory (p : Pattern) (h : p.dirOnly = true) (comps : List Name) :
    p.matches comps false = false := by
  simp [Pattern.matches, h]

/-- without the option there is no filter at all -/
theorem no_option_no_filter (fs : Fs) (c : Cfg) (texts : GiTexts) (src : RPath) (h : c.gitignore = false) :
    parseIgnore fs c texts src = none := by
  simp [parseIgnore, h]

/-- an excluded entry below the root emits no operation and is not descended into: an excluded directory
excludes everything beneath it, and no negation further down can re-include anything -/
theorem excluded_entry_is_pruned (fs : Fs) (c : Cfg) (ps : List Pattern) (src tb : RPath) (fuel : Nat)
    (rel : List Name) (anc : List (List Name)) (hr : rel ≠ [])
    (hx : keeps ps rel (giIsDir fs c (relJoin src rel)) = false) :
    walkEntry fs c (some ps) src tb (fuel + 1) rel anc = [] ∨
    walkEntry fs c (some ps) src tb (fuel + 1) rel anc = [.fail] := by
  have hd : decide (rel.length > 0) = true := by
    cases rel with
    | nil => exact absurd rfl hr
    | cons a l => simp
  suffices hP : ∀ P : List Op → Prop, P [.fail] → P [] → P (walkEntry fs c (some ps) src tb (fuel + 1) rel anc) from
    hP (fun l => l = [] ∨ l = [.fail]) (.inr rfl) (.inl rfl)
  intro P h1 h2
  simp only [walkEntry, hx, hd, Bool.not_false, Bool.and_self, if_true]
  repeat' split
  all_goals first | exact h1 | exact h2

/-- the root of the walk is never filtered, whatever the patterns say about its name: the only branch of
`walkEntry` that yields no operation at all is the gitignore filter, and it is disabled at depth 0 — so the
root entry always yields at least one operation (or the failure marker), with or without patterns -/
theorem root_entry_is_never_empty (fs : Fs) (c : Cfg) (gi : Ignore) (src tb : RPath) (fuel : Nat)
    (anc : List (List Name)) : walkEntry fs c gi src tb (fuel + 1) [] anc ≠ [] := by
  simp only [walkEntry, List.length_nil, gt_iff_lt, Nat.lt_irrefl, decide_false, Bool.false_and,
    Bool.false_eq_true, if_false]
  repeat' split
  all_goals simp

/-- … and the operation emitted for the root itself is the same with and without patterns -/
theorem root_first_operation_ignores_patterns (fs : Fs) (c : Cfg) (ps : List Pattern) (src tb : RPath)
    (fuel : Nat) (anc : List (List Name)) :
    (walkEntry fs c (some ps) src tb (fuel + 1) [] anc).head? =
      (walkEntry fs c none src tb (fuel + 1) [] anc).head? := by
  simp only [walkEntry, List.length_nil, gt_iff_lt, Nat.lt_irrefl, decide_false, Bool.false_and,
    Bool.false_eq_true, if_false]
  repeat' split
  all_goals simp

/-- the original formulation (a corollary: its hypothesis is never satisfied) -/
theorem root_is_never_filtered (fs : Fs) (c : Cfg) (ps : List Pattern) (src tb : RPath) (fuel : Nat) (anc : List (List Name)) :
    walkEntry fs c (some ps) src tb (fuel + 1) [] anc = [] →
    walkEntry fs c none src tb (fuel + 1) [] anc = [] :=
  fun h => absurd h (root_entry_is_never_empty fs c (some ps) src tb fuel anc)

/-- the specification on the fragment's typical lines (evaluated by the kernel; byte lists spelled out):
`build/`, `*.o`, `/top`, `a/**/z`, `a/**`, and `*.o` followed by `!keep.o` -/
example : (parseLine [98, 117, 105, 108, 100, 47]).map (·.matches [[98, 117, 105, 108, 100]] true) = some true := by decide
example : (parseLine [98, 117, 105, 108, 100, 47]).map (·.matches [[98, 117, 105, 108, 100]] false) = some false := by decide
example : (parseLine [42, 46, 111]).map (·.matches [[115, 114, 99], [97, 46, 111]] false) = some true := by decide
example : (parseLine [47, 116, 111, 112]).map (·.matches [[115], [116, 111, 112]] false) = some false := by decide
example : (parseLine [97, 47, 42, 42, 47, 122]).map (·.matches [[97], [120], [121], [122]] false) = some true := by decide
example : (parseLine [97, 47, 42, 42]).map (·.matches [[97]] true) = some false := by decide
example : Gi.decide (Gi.parse [42, 46, 111, 10, 33, 107, 101, 101, 112, 46, 111, 10]) [[107, 101, 101, 112, 46, 111]] false = .whitelist := by decide

/-- a symbolic link is not a directory for the pattern match unless the walk follows links (the repaired defect F19:
`Path::is_dir()` followed the link, so `lnk/` excluded a link to a directory that git keeps) -/
theorem link_is_not_a_directory_for_patterns (fs : Fs) (c : Cfg) (p : RPath) (cp : List Name) (t : RPath)
    (hd : c.dereference = false) (h : fs.lstat p = some (cp, .link t)) : giIsDir fs c p = false := by
  simp [giIsDir, h, hd]

/-- TREE LEVEL: with patterns `ps` in force, copying any copyable source tree to a fresh target runs every emitted
operation successfully and leaves exactly the PRUNED source tree at the target: `Node.prune ps [] srcNode` drops an entry
iff `keeps ps <relative path> <entry is a directory>` is false, together with everything beneath it, at every depth; the
root itself is never tested -/
theorem destination_is_the_pruned_source_tree (fs : Fs) (c : Cfg) (hd : c.dereference = false) (hn : c.noClobber = false)
    (ps : List Gi.Pattern)
    (src tb : RPath) (srcNode : Node) (fuel : Nat)
    (hwf : FsEq fs fs) (hroot : fs.root.isDir = true)
    (hsrc : PlainTarget fs src) (hsn : fs.root.getAt src.names = some srcNode)
    (hcop : srcNode.Copyable fuel)
    (htb : PlainTarget fs tb) (hne : tb.names ≠ []) (habs : fs.root.getAt tb.names = none)
    (hpar : ∃ es, fs.root.getAt tb.names.dropLast = some (.dir es))
    (hun1 : ¬ src.names <+: tb.names) (hun2 : ¬ tb.names <+: src.names)
    (hlen : src.names.length + fuel < 200 ∧ tb.names.length + fuel < 200) :
    ∃ fs', execOps fs c (walkEntry fs c (some ps) src tb (fuel + 1) [] []) = ⟨.ok, fs'⟩ ∧
      FsEq fs' { fs with root := fs.root.setAt tb.names (Node.prune ps [] srcNode) } :=
  mirror_fresh_gitignore fs c hd hn ps src tb srcNode fuel hwf hroot hsrc hsn hcop htb hne habs hpar hun1 hun2 hlen

/-- … so an excluded entry, at any depth, and everything below it, is absent from the destination (no negation further
down re-includes anything) … -/
theorem excluded_entry_and_everything_below_is_absent (fs : Fs) (c : Cfg) (hd : c.dereference = false) (hn : c.noClobber = false)
    (ps : List Gi.Pattern)
    (src tb : RPath) (srcNode : Node) (fuel : Nat)
    (hwf : FsEq fs fs) (hroot : fs.root.isDir = true)
    (hsrc : PlainTarget fs src) (hsn : fs.root.getAt src.names = some srcNode)
    (hcop : srcNode.Copyable fuel)
    (htb : PlainTarget fs tb) (hne : tb.names ≠ []) (habs : fs.root.getAt tb.names = none)
    (hpar : ∃ es, fs.root.getAt tb.names.dropLast = some (.dir es))
    (hun1 : ¬ src.names <+: tb.names) (hun2 : ¬ tb.names <+: src.names)
    (hlen : src.names.length + fuel < 200 ∧ tb.names.length + fuel < 200)
    (rel : List Name) (m : Name) (ch : Node) (below : List Name)
    (hch : srcNode.getAt (rel ++ [m]) = some ch)
    (hx : Gi.keeps ps (rel ++ [m]) ch.isDir = false) :
    ∃ fs', execOps fs c (walkEntry fs c (some ps) src tb (fuel + 1) [] []) = ⟨.ok, fs'⟩ ∧
      fs'.root.getAt (tb.names ++ (rel ++ [m]) ++ below) = none :=
  excluded_entry_absent fs c hd hn ps src tb srcNode fuel hwf hroot hsrc hsn hcop htb hne habs hpar hun1 hun2 hlen rel m ch below hch hx

/-- … a kept entry of the source root is present, observed as in the source … -/
theorem kept_entry_is_copied (fs : Fs) (c : Cfg) (hd : c.dereference = false) (hn : c.noClobber = false)
    (ps : List Gi.Pattern)
    (src tb : RPath) (srcNode : Node) (fuel : Nat)
    (hwf : FsEq fs fs) (hroot : fs.root.isDir = true)
    (hsrc : PlainTarget fs src) (hsn : fs.root.getAt src.names = some srcNode)
    (hcop : srcNode.Copyable fuel)
    (htb : PlainTarget fs tb) (hne : tb.names ≠ []) (habs : fs.root.getAt tb.names = none)
    (hpar : ∃ es, fs.root.getAt tb.names.dropLast = some (.dir es))
    (hun1 : ¬ src.names <+: tb.names) (hun2 : ¬ tb.names <+: src.names)
    (hlen : src.names.length + fuel < 200 ∧ tb.names.length + fuel < 200)
    (m : Name) (ch : Node) (hch : srcNode.getAt [m] = some ch)
    (hk : Gi.keeps ps [m] ch.isDir = true) :
    ∃ fs', execOps fs c (walkEntry fs c (some ps) src tb (fuel + 1) [] []) = ⟨.ok, fs'⟩ ∧
      obsAt fs'.root (tb.names ++ [m]) = some (Node.prune ps [m] ch).obs ∧
      (Node.prune ps [m] ch).obs = ch.obs :=
  kept_child_present fs c hd hn ps src tb srcNode fuel hwf hroot hsrc hsn hcop htb hne habs hpar hun1 hun2 hlen m ch hch hk

/-- … and with no pattern lines nothing is pruned -/
theorem no_patterns_prune_nothing (rel : List Name) (n : Node) : Node.prune [] rel n = n := prune_nil' rel n

/-- … under EVERY interleaving of the walker with the workers (any worker count, either driver): with patterns in force no
operation can be made to fail and every complete run of the concurrent model leaves exactly the pruned source tree at the
target — the operations of the pruned tree read from the places of the unpruned one, which nothing writes -/
theorem every_interleaving_leaves_the_pruned_tree (fs : Fs) (c : Cfg) (hd : c.dereference = false) (hn : c.noClobber = false)
    (ps : List Gi.Pattern)
    (src tb : RPath) (srcNode : Node) (fuel : Nat)
    (hwf : FsEq fs fs) (hroot : fs.root.isDir = true)
    (hsrc : PlainTarget fs src) (hsn : fs.root.getAt src.names = some srcNode)
    (hcop : srcNode.Copyable fuel)
    (htb : PlainTarget fs tb) (hne : tb.names ≠ []) (habs : fs.root.getAt tb.names = none)
    (hpar : ∃ es, fs.root.getAt tb.names.dropLast = some (.dir es))
    (hun1 : ¬ src.names <+: tb.names) (hun2 : ¬ tb.names <+: src.names)
    (hlen : src.names.length + fuel < 200 ∧ tb.names.length + fuel < 200)
    (ls : List L0.Label) (st : L0.St)
    (hrun : L0.run c (L0.init fs (walkEntry fs c (some ps) src tb (fuel + 1) [] [])) ls = some st) :
    st.failed = false ∧
    (L0.final st = true → FsEq st.fs { fs with root := fs.root.setAt tb.names (Node.prune ps [] srcNode) }) :=
  gitignore_fresh_concurrent_ok fs c hd hn ps src tb srcNode fuel hwf hroot hsrc hsn hcop htb hne habs hpar hun1 hun2 hlen ls st hrun

/-- onto an EXISTING destination that is `Compatible` with the PRUNED source tree (a re-run of the same copy, a destination
with other entries): every operation succeeds and the destination is overlaid with the pruned tree -/
theorem existing_destination_is_overlaid_with_the_pruned_tree (fs : Fs) (c : Cfg) (hd : c.dereference = false) (hn : c.noClobber = false)
    (ps : List Gi.Pattern)
    (src tb : RPath) (srcNode : Node) (fuel : Nat)
    (hwf : FsEq fs fs) (hroot : fs.root.isDir = true)
    (hsrc : PlainTarget fs src) (hsn : fs.root.getAt src.names = some srcNode)
    (hcop : srcNode.Copyable fuel)
    (htb : PlainTarget fs tb) (hne : tb.names ≠ [])
    (hcompat : Compatible (fs.root.getAt tb.names) (Node.prune ps [] srcNode))
    (hpar : ∃ es, fs.root.getAt tb.names.dropLast = some (.dir es))
    (hun1 : ¬ src.names <+: tb.names) (hun2 : ¬ tb.names <+: src.names)
    (hlen : src.names.length + fuel < 200 ∧ tb.names.length + fuel < 200) :
    ∃ fs', execOps fs c (walkEntry fs c (some ps) src tb (fuel + 1) [] []) = ⟨.ok, fs'⟩ ∧
      FsEq fs' { fs with
        root := fs.root.setAt tb.names (Node.overlay (fs.root.getAt tb.names) (Node.prune ps [] srcNode)) } :=
  gitignore_overlay fs c hd hn ps src tb srcNode fuel hwf hroot hsrc hsn hcop htb hne hcompat hpar hun1 hun2 hlen

/-- … under every interleaving of the walker with the workers -/
theorem existing_destination_overlaid_on_every_interleaving (fs : Fs) (c : Cfg) (hd : c.dereference = false) (hn : c.noClobber = false)
    (ps : List Gi.Pattern)
    (src tb : RPath) (srcNode : Node) (fuel : Nat)
    (hwf : FsEq fs fs) (hroot : fs.root.isDir = true)
    (hsrc : PlainTarget fs src) (hsn : fs.root.getAt src.names = some srcNode)
    (hcop : srcNode.Copyable fuel)
    (htb : PlainTarget fs tb) (hne : tb.names ≠ [])
    (hcompat : Compatible (fs.root.getAt tb.names) (Node.prune ps [] srcNode))
    (hpar : ∃ es, fs.root.getAt tb.names.dropLast = some (.dir es))
    (hun1 : ¬ src.names <+: tb.names) (hun2 : ¬ tb.names <+: src.names)
    (hlen : src.names.length + fuel < 200 ∧ tb.names.length + fuel < 200)
    (ls : List L0.Label) (st : L0.St)
    (hrun : L0.run c (L0.init fs (walkEntry fs c (some ps) src tb (fuel + 1) [] [])) ls = some st) :
    st.failed = false ∧
    (L0.final st = true → FsEq st.fs { fs with
      root := fs.root.setAt tb.names (Node.overlay (fs.root.getAt tb.names) (Node.prune ps [] srcNode)) }) :=
  gitignore_overlay_concurrent_ok fs c hd hn ps src tb srcNode fuel hwf hroot hsrc hsn hcop htb hne hcompat hpar hun1 hun2 hlen ls st hrun

/-- … and what the destination holds under a name the source HAS but the patterns EXCLUDE (left by an earlier copy made
without the option, say) is observed unchanged at every depth: excluded means not copied, not removed -/
theorem excluded_names_already_in_the_destination_are_left_alone (fs : Fs) (c : Cfg) (hd : c.dereference = false)
    (hn : c.noClobber = false) (ps : List Gi.Pattern)
    (src tb : RPath) (des ses : Entries) (fuel : Nat)
    (hwf : FsEq fs fs) (hroot : fs.root.isDir = true)
    (hsrc : PlainTarget fs src) (hsn : fs.root.getAt src.names = some (.dir ses))
    (hcop : (Node.dir ses).Copyable fuel)
    (htb : PlainTarget fs tb) (hne : tb.names ≠ [])
    (hdst : fs.root.getAt tb.names = some (.dir des))
    (hcompat : Compatible (some (.dir des)) (Node.prune ps [] (.dir ses)))
    (hpar : ∃ es, fs.root.getAt tb.names.dropLast = some (.dir es))
    (hun1 : ¬ src.names <+: tb.names) (hun2 : ¬ tb.names <+: src.names)
    (hlen : src.names.length + fuel < 200 ∧ tb.names.length + fuel < 200) :
    ∃ fs', execOps fs c (walkEntry fs c (some ps) src tb (fuel + 1) [] []) = ⟨.ok, fs'⟩ ∧
      (∀ m q, m ∉ (pruneL ps [] ses).map (·.1) →
        obsAt fs'.root (tb.names ++ m :: q) = obsAt fs.root (tb.names ++ m :: q)) ∧
      (∀ m ch q, (m, ch) ∈ ses → Gi.keeps ps [m] ch.isDir = false →
        obsAt fs'.root (tb.names ++ m :: q) = obsAt fs.root (tb.names ++ m :: q)) :=
  gitignore_overlay_keeps_excluded_names fs c hd hn ps src tb des ses fuel hwf hroot hsrc hsn hcop htb hne hdst hcompat hpar
    hun1 hun2 hlen

/-- "exit 0 ⇒ the destination is the overlay of the PRUNED tree", no compatibility assumed, for every absent or plain
destination: a destination entry that clashes with an entry the patterns keep makes the run fail (on every interleaving:
`Xcp.gitignore_clash_fails_every_interleaving`); one that clashes only with an EXCLUDED entry does not count -/
theorem exit_zero_implies_overlaid_with_the_pruned_tree (fs : Fs) (c : Cfg) (hd : c.dereference = false) (hn : c.noClobber = false)
    (ps : List Gi.Pattern)
    (src tb : RPath) (srcNode : Node) (fuel : Nat)
    (hwf : FsEq fs fs) (hroot : fs.root.isDir = true)
    (hsrc : PlainTarget fs src) (hsn : fs.root.getAt src.names = some srcNode)
    (hcop : srcNode.Copyable fuel)
    (htb : PlainTarget fs tb) (hne : tb.names ≠ [])
    (hplain : ∀ d, fs.root.getAt tb.names = some d → d.plainTree = true)
    (hpar : ∃ es, fs.root.getAt tb.names.dropLast = some (.dir es))
    (hun1 : ¬ src.names <+: tb.names) (hun2 : ¬ tb.names <+: src.names)
    (hlen : src.names.length + fuel < 200 ∧ tb.names.length + fuel < 200)
    (fs' : Fs) (hok : execOps fs c (walkEntry fs c (some ps) src tb (fuel + 1) [] []) = ⟨.ok, fs'⟩) :
    FsEq fs' { fs with
      root := fs.root.setAt tb.names (Node.overlay (fs.root.getAt tb.names) (Node.prune ps [] srcNode)) } :=
  gitignore_ok_implies_overlaid fs c hd hn ps src tb srcNode fuel hwf hroot hsrc hsn hcop htb hne hplain hpar hun1 hun2 hlen fs' hok

/-- SEVERAL sources, EACH filtered by the `.gitignore` at ITS OWN root (`parseIgnore` per source, as `runSources` and the
program do): every target is overlaid with its source pruned by that source's patterns.  The `.gitignore` must not be a
symbolic link (`hgl`): the proof attempt found that a link leading into the destination can be re-pointed, in effect, by the
copy of an earlier source, so that the later source is filtered by other patterns than those in force at the start -/
theorem several_sources_each_filtered_by_its_own_gitignore (fs : Fs) (c : Cfg) (texts : GiTexts) (dest : RPath) (items : List GiSrc) (fuel : Nat)
    (hd : c.dereference = false) (hn : c.noClobber = false) (hg : c.gitignore = true)
    (hnt : c.noTargetDir = false)
    (hwf : FsEq fs fs)
    (hdest : PlainTarget fs dest) (hdd : ∃ es, fs.root.getAt dest.names = some (.dir es))
    (hfuel : fuel < walkFuel)
    (hsrc : ∀ e ∈ items, PlainTarget fs e.path ∧ e.path.fileName = some e.base ∧
      fs.root.getAt e.path.names = some e.node ∧ e.node.Copyable fuel ∧ e.path.names.length + walkFuel < 256)
    (hps : ∀ e ∈ items, parseIgnore fs c texts e.path = some e.ps)
    (hgl : ∀ e ∈ items, ∀ tg, fs.root.getAt (e.path.names ++ [giName]) ≠ some (.link tg))
    (hnd : (items.map (·.base)).Nodup)
    (hun : ∀ e ∈ items, ∀ e' ∈ items,
      ¬ e.path.names <+: dest.names ++ [e'.base] ∧ ¬ dest.names ++ [e'.base] <+: e.path.names)
    (hcomp : ∀ e ∈ items, Compatible (fs.root.getAt (dest.names ++ [e.base])) (Node.prune e.ps [] e.node))
    (hlen : dest.names.length + 1 + walkFuel < 256) :
    ∃ fs', runSources fs c texts dest (items.map (·.path)) = ⟨.ok, fs'⟩ ∧
      FsEq fs' { fs with root := overlayAll fs.root dest.names (items.map GiSrc.pruned) fs.root } :=
  multi_gitignore_overlay fs c texts dest items fuel hd hn hg hnt hwf hdest hdd hfuel hsrc hps hgl hnd hun hcomp hlen

/-- the per-source reading on an instance: `/A/.gitignore` = "x", `/B/.gitignore` = "y", both hold `x` and `y`: `x` is absent
under `/D/A` and present under `/D/B`, `y` the other way round -/
example : ∃ fs', runSources MultiGiExample.fs0 MultiGiExample.c0 MultiGiExample.texts0 (plainPath [MultiGiExample.nD])
      [plainPath [MultiGiExample.nA], plainPath [MultiGiExample.nB]] = ⟨.ok, fs'⟩ ∧
    obsAt fs'.root [MultiGiExample.nD, MultiGiExample.nA, MultiGiExample.nx] = none ∧
    obsAt fs'.root [MultiGiExample.nD, MultiGiExample.nB, MultiGiExample.nx] = some (.file 3) ∧
    obsAt fs'.root [MultiGiExample.nD, MultiGiExample.nA, MultiGiExample.ny] = some (.file 2) ∧
    obsAt fs'.root [MultiGiExample.nD, MultiGiExample.nB, MultiGiExample.ny] = none :=
  MultiGiExample.example_run

end Xcp.C17