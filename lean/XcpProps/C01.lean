import XcpProofs.Loops
import XcpProofs.Blocks
import XcpProofs.Merge
import XcpProofs.Compose
/-! # C01 — exit 0 implies every copied regular file is byte-identical to its source

Model slice: the destination is created/truncated and sized to the source's length
(`createAllocate`), then filled by the driver's copy loop — parfile: `copyBytes` (dense) or `copySparse`;
parblock: one `blockJob` per block of `parblockJobs`, run by pool threads in an order the scheduler
chooses.  A run exits 0 only if every loop reported success (C04).  The theorems quantify over every
file content and size, every block size ≥ 1 (including `usize::MAX`), every kernel that is `KernSafe`
(never moves more than asked, never past end of file) and `KernLive` (returns 0 only at end of file) —
that is every legal pattern of short counts — every data/hole layout the kernel may legally report,
and every order and multiplicity in which block jobs run.  -/
namespace Xcp.C01

open Xcp

/-- Nothing of a previous destination's content survives: create+truncate then `ftruncate(n)` gives `n`
zero bytes whatever was there (absent, shorter, longer). -/
theorem create_allocate_forgets (old : Option Bytes) (n : Nat) :
    createAllocate old n = List.replicate n 0 := rfl

/-- parfile, dense file: if `copy_bytes` reports success the destination equals the source. -/
theorem parfile_dense_exact (src : Bytes) (k : Kern) (hs : KernSafe k src.length) (linux : Bool) (b fuel a r : Nat)
    (h : (copyBytes k linux b fuel a 0 src.length 0).stop = .ok r) :
    runJobs src (createAllocate none src.length) (jobsOf (copyBytes k linux b fuel a 0 src.length 0).evs) = src := by
  obtain ⟨_, h1, h2⟩ := copyBytes_ok k src.length hs linux b fuel a 0 src.length 0 r (Nat.zero_le _) h
  exact runJobs_exact src _ h1 (fun i hi hc => absurd ((h2 i).mpr (by omega)) hc)

/-- parfile, sparse file: if `copy_sparse` reports success the destination equals the source, for every
legal data/hole answer sequence. -/
theorem parfile_sparse_exact (src : Bytes) (k : Kern) (s : SeekOracle) (hs : KernSafe k src.length)
    (hl : SeekLegal s src) (b fuel a n : Nat) (h : (copySparse k s b src.length fuel a 0).stop = .ok n) :
    runJobs src (createAllocate none src.length) (jobsOf (copySparse k s b src.length fuel a 0).evs) = src :=
  copySparse_exact k s src hs hl b fuel a n h

/-- What parblock may rely on when it copies only the mapped extents of a sparse file. -/
def ExtSound (src : Bytes) (es : List Extent) : Prop :=
  WF es ∧ (∀ e ∈ es, e.start ≤ src.length) ∧ ∀ i, i < src.length → src[i]? ≠ some 0 → covers es i

/-- parblock: every block job gets its own kernel behaviour (`k j`), every job reports success, and the
moved ranges are applied in ANY order with ANY multiplicity (`all` merely has the same members as the union
of the jobs' moves): the destination equals the source. -/
theorem parblock_exact (src : Bytes) (b : Nat) (hb : 0 < b) (sparse : Bool) (exts : Option (List Extent))
    (hext : sparse = true → ∀ es, exts = some es → ExtSound src es)
    (k : Nat × Nat → Kern) (hk : ∀ j, KernSafe (k j) src.length ∧ KernLive (k j) src.length)
    (hok : ∀ j ∈ parblockJobs src.length b sparse exts, ∃ n, (blockJob (k j) true j.1 j.2).stop = .ok n)
    (all : List (Nat × Nat))
    (hall : ∀ x, x ∈ all ↔ ∃ j ∈ parblockJobs src.length b sparse exts, x ∈ jobsOf (blockJob (k j) true j.1 j.2).evs) :
    runJobs src (createAllocate none src.length) all = src :=
  parblock_exact_core src b hb sparse exts
    (fun hsp es hes => ⟨(hext hsp es hes).1, (hext hsp es hes).2.2⟩) k hk hok all hall

/-- a successful block job reports exactly the bytes of its block that lie inside the file -/
theorem blockJob_reports_block (src : Bytes) (k : Kern) (hs : KernSafe k src.length) (hl : KernLive k src.length)
    (off bytes n : Nat) (ho : off ≤ src.length) (h : (blockJob k true off bytes).stop = .ok n) :
    off + n = min (off + bytes) src.length :=
  (blockJob_linux_ok k src.length hs hl off bytes n ho h).1

/-- with a legal kernel a block job never spins -/
theorem blockJob_terminates (src : Bytes) (k : Kern) (hs : KernSafe k src.length) (hl : KernLive k src.length)
    (off bytes : Nat) : (blockJob k true off bytes).stop ≠ .spin :=
  blockJob_linux_no_spin k src.length hs hl off bytes

/-- `--no-progress` selects `usize::MAX`: any block size ≥ the range gives a single block (or none for an
empty file) -/
theorem blocks_single (start len b : Nat) (h : len ≤ b) (hl : 0 < len) : blocks start len b = [(start, len)] :=
  blocks_single' start len b h hl

theorem blocks_empty (start b : Nat) (hb : 0 < b) : blocks start 0 b = [] := by
  have _ := hb
  simp [blocks, nblocks]

/-- The partition is exact: the blocks of a range cover it and nothing else, and stay inside it. -/
theorem blocks_partition (start len b : Nat) (hb : 0 < b) :
    (∀ i, covered (blocks start len b) i ↔ start ≤ i ∧ i < start + len) ∧
    (∀ j ∈ blocks start len b, j.1 + j.2 ≤ start + len) :=
  ⟨blocks_cover start len b hb, blocks_in_bounds start len b hb⟩

/-- Why the retry loop is needed (the defect repaired by the `fix:` commit on `copy_file_offset`): with ONE
`copy_file_range` call per block, a legal short count leaves the tail of the block as zeros. -/
theorem one_call_per_block_loses_data :
    ∃ (src : Bytes) (got : Nat), 1 ≤ got ∧ got ≤ 2 ∧
      runJobs src (createAllocate none src.length) [(0, got)] ≠ src :=
  ⟨[7, 9], 1, by decide, by decide, by decide⟩

/-- Non-vacuity: a concrete kernel that is safe and live and moves one byte per call; the block job on a
5-byte file succeeds after five calls. -/
example : (blockJob (fun _ _ off req => .moved (min 1 (min req (5 - off)))) true 0 5).stop = .ok 5 := by decide

end Xcp.C01
