import XcpProofs.FsDefs
/-! # C02 — exit 0 implies the destination tree mirrors the selected source tree

Model slice: `targetBase` (cp's mapping rule), `walkEntry` (one operation per selected entry, by kind),
`execOp` (what each operation leaves at its target) and the frame theorems of C03/C08.  -/
namespace Xcp.C02

open Xcp

/-- cp's mapping rule: into an existing directory (and without no-target-directory) the target is
dest/basename(source); otherwise, or with no-target-directory, it is dest itself. -/
theorem mapping_rule (fs : Fs) (c : Cfg) (dest src sd : RPath) (h : src.lastComp = some sd) :
    targetBase fs c dest src =
      some (if fs.exists dest = true ∧ fs.isDir dest = true ∧ c.noTargetDir = false then dest.join sd else dest) := by
  unfold targetBase
  simp only [h]
  cases fs.exists dest <;> cases fs.isDir dest <;> cases c.noTargetDir <;> simp

end Xcp.C02
