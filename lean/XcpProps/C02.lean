import XcpProofs.FsDefs
import XcpProofs.WalkMore
import XcpProofs.MirrorExample
import XcpProofs.Overlay
import XcpProofs.MultiSource
import XcpProofs.MultiSourceExample
import XcpProofs.EndToEnd
import XcpProofs.OptionIrrelevance
import XcpProofs.Clash
import XcpProofs.ClashExample
import XcpProofs.MultiClash
import XcpProofs.DerefOverlay
import XcpProofs.EndToEndClash
import XcpProofs.ClashLinks
/-! # C02 — exit 0 implies the destination tree mirrors the selected source tree

Model slice: `targetBase` (cp's mapping rule), `walkEntry` (one operation per selected entry, by kind),
`execOp` (what each operation leaves at its target) and the frame theorems of C03/C08.

What is proved here, per operation and for *plain* targets (`PlainTarget`: absolute, names only, no trailing
slash, no symbolic link at the target or at any of its ancestors; the tree's root is a directory; the target
is shorter than the kernel's resolution fuel): the walker emits, first, exactly one operation for an entry,
chosen by the entry's kind; and each operation, when it succeeds, leaves at its target a directory / a regular
file with the source's content / a symbolic link with identical target text / the identical special node.
A run exits 0 exactly when every operation succeeded in sequence.

NOT proved: the induction over the whole tree that composes these per-operation facts with the frame theorems
(`C03.plain_op_frame`, `C08.fresh_run_preserves`) into "final tree = dest₀ overlaid with the image of the
selected source tree".  The whole-sandbox end-state correspondence run compares exactly that, on every run. -/
namespace Xcp.C02

open Xcp

/-- cp's mapping rule: into an existing directory (and without no-target-directory) the target is
dest/basename(source); otherwise, or with no-target-directory, it is dest itself. -/
theorem mapping_rule (fs : Fs) (c : Cfg) (dest src sd : RPath) (h : src.lastComp = some sd) :
    targetBase fs c dest src =
      some (if fs.exists dest = true ∧ fs.isDir dest = true ∧ c.noTargetDir = false then dest.join sd else dest) := by
  unfold targetBase
  simp only [h]
  cases fs.exists dest <;> cases fs.isDir dest <;> cases c.noTargetDir <;> simp

/-- "regular files as regular files": a successful copy leaves at the target a regular file holding exactly the
content of the regular file the source designates.

The hypothesis `hsp` (the target is not an EXISTING socket/device/fifo) is needed: in the model, as in the
kernel, `File::create` on an existing fifo or device opens it for writing without replacing it, and reports
success — counter-example: `t` a fifo, `s` a regular file; `execOp` succeeds with `fs' = fs` and
`fs'.contentOf t = none`.  `hroot` (the tree's root is a directory) is well-formedness of the model state:
with a non-directory root, `/a` resolves to "missing below /" and `setAt` inserts nothing. -/
theorem copy_leaves_source_content (fs fs' : Fs) (c : Cfg) (s t : RPath) (hp : PlainTarget fs t)
    (hroot : fs.root.isDir = true) (hlen : t.names.length < 256)
    (hsp : ∀ k d, fs.root.getAt t.names ≠ some (.special k d))
    (h : execOp fs c (.copy s t) = some fs') :
    fs'.contentOf t = fs.contentOf s ∧ fs.contentOf s ≠ none :=
  execOp_copy_plain fs fs' c s t t.names (plainTarget_eq fs t hp) hroot hlen hp.2.2.2 hsp h

/-- "symbolic links as links with identical target text": a successful link operation leaves at the target
(not followed) a symbolic link whose text is the one given, byte for byte -/
theorem link_leaves_identical_text (fs fs' : Fs) (c : Cfg) (text t : RPath) (hp : PlainTarget fs t)
    (hroot : fs.root.isDir = true) (hlen : t.names.length < 256)
    (h : execOp fs c (.link text t) = some fs') :
    fs'.lstat t = some (t.names, .link text) :=
  execOp_link_plain fs fs' c text t t.names (plainTarget_eq fs t hp) hroot hlen
    (NoLinkUpto.above hp.2.2.2) h

/-- "directories as directories": after a successful mkdir operation (`create_dir_all`, no extra hypothesis on
the parent) the target is a directory -/
theorem mkdir_leaves_directory (fs fs' : Fs) (c : Cfg) (t : RPath) (hp : PlainTarget fs t)
    (hroot : fs.root.isDir = true) (hlen : t.names.length < 256)
    (h : execOp fs c (.mkdir t) = some fs') :
    fs'.isDir t = true :=
  execOp_mkdir_plain fs fs' c t t.names (plainTarget_eq fs t hp) hroot hlen hp.2.2.2 h

/-- special files (socket, character device, fifo) as the identical special node: same kind, same device
number; whether the target was absent or was replaced (unlink + mknod) -/
theorem special_leaves_identical_node (fs fs' : Fs) (c : Cfg) (s t : RPath) (cs : List Name) (k : FileKind)
    (rdev : Nat) (hp : PlainTarget fs t) (hroot : fs.root.isDir = true) (hlen : t.names.length < 256)
    (hs : fs.stat s = some (cs, .special k rdev))
    (h : execOp fs c (.special s t) = some fs') :
    fs'.lstat t = some (t.names, .special k rdev) :=
  execOp_special_plain fs fs' c s t t.names cs k rdev (plainTarget_eq fs t hp) hroot hlen
    (NoLinkUpto.above hp.2.2.2) hs h

/-- one operation per entry, chosen by the entry's kind (no dereference, no gitignore, no no-clobber): the
FIRST operation the walker emits for an entry that `lstat` finds is a copy for a regular file, a link with the
link's own text for a symbolic link, a mkdir for a directory, a special-file operation for a socket, character
device or fifo, and the failure marker for a block device or an unknown kind; the target is `tb` joined with
the entry's path relative to the source -/
theorem walk_emits_one_operation_per_kind (fs : Fs) (c : Cfg) (hd : c.dereference = false)
    (hn : c.noClobber = false) (src tb : RPath) (fuel : Nat) (rel : List Name) (anc : List (List Name))
    (cp : List Name) (n : Node) (hl : fs.lstat (relJoin src rel) = some (cp, n)) :
    let first := (walkEntry fs c none src tb (fuel + 1) rel anc).head?
    (∀ k, n = .file k → first = some (.copy (relJoin src rel) (relJoin tb rel))) ∧
    (∀ text, n = .link text → first = some (.link text (relJoin tb rel))) ∧
    (∀ es, n = .dir es → first = some (.mkdir (relJoin tb rel))) ∧
    (∀ k d, n = .special k d → (k = .socket ∨ k = .chr ∨ k = .fifo) →
      first = some (.special (relJoin src rel) (relJoin tb rel))) ∧
    (∀ k d, n = .special k d → (k = .blk ∨ k = .other) → first = some .fail) := by
  intro first
  have hh : first = (hereOps n (relJoin src rel) (relJoin tb rel)).head? :=
    walkEntry_head fs c hd hn src tb fuel rel anc cp n hl
  refine ⟨?_, ?_, ?_, ?_, ?_⟩
  · intro k hk; subst hk; rw [hh]; rfl
  · intro text hk; subst hk; rw [hh]; rfl
  · intro es hk; subst hk; rw [hh]; rfl
  · intro k d hk hkind; subst hk; rw [hh]
    rcases hkind with hk | hk | hk <;> subst hk <;> rfl
  · intro k d hk hkind; subst hk; rw [hh]
    rcases hkind with hk | hk <;> subst hk <;> rfl

/-- exit status: a run that exits 0 contained no failure marker, and it exits 0 exactly when every operation,
run in sequence each on the state left by its predecessors, succeeded (`AllSucceed`); so any failed or refused
operation — and any stop of the walk — makes the run exit non-zero -/
theorem failed_run_exits_nonzero_successful_run_ran_everything (fs : Fs) (c : Cfg) (ops : List Op) :
    ((execOps fs c ops).exit = .ok → ∀ op ∈ ops, op ≠ .fail) ∧
    ((execOps fs c ops).exit = .ok ↔ AllSucceed c fs ops) :=
  ⟨execOps_ok_no_fail c ops fs, execOps_ok_iff c ops fs⟩

/-- THE TREE INDUCTION, fresh target: copying a source tree `srcNode` (regular files, links, sockets/char devices/FIFOs,
directories to any depth) found at the plain path `src` to a plain ABSENT target `tb` whose parent directory exists runs
every emitted operation successfully and leaves EXACTLY the source tree at `tb` — every directory, file (content), link
(text) and special node at the corresponding relative path — and changes nothing else anywhere (`Node.setAt`).
Hypotheses shown satisfiable on a concrete tree: next theorem. -/
theorem fresh_destination_mirrors_the_source (fs : Fs) (c : Cfg) (hd : c.dereference = false) (hn : c.noClobber = false)
    (src tb : RPath) (srcNode : Node) (fuel : Nat)
    (hwf : FsEq fs fs) (hroot : fs.root.isDir = true)
    (hsrc : PlainTarget fs src) (hsn : fs.root.getAt src.names = some srcNode)
    (hcop : srcNode.Copyable fuel)
    (htb : PlainTarget fs tb) (hne : tb.names ≠ []) (habs : fs.root.getAt tb.names = none)
    (hpar : ∃ es, fs.root.getAt tb.names.dropLast = some (.dir es))
    (hun1 : ¬ src.names <+: tb.names) (hun2 : ¬ tb.names <+: src.names)
    (hlen : src.names.length + fuel < 200 ∧ tb.names.length + fuel < 200) :
    ∃ fs', execOps fs c (walkEntry fs c none src tb (fuel + 1) [] []) = ⟨.ok, fs'⟩ ∧
      FsEq fs' { fs with root := fs.root.setAt tb.names srcNode } :=
  mirror_fresh fs c hd hn src tb srcNode fuel hwf hroot hsrc hsn hcop htb hne habs hpar hun1 hun2 hlen

/-- the hypotheses of `fresh_destination_mirrors_the_source` are met by a concrete tree with a file, a link, a
sub-directory holding a file and a FIFO, copied into an existing empty directory -/
theorem fresh_destination_hypotheses_are_satisfiable :
    ∃ (fs : Fs) (c : Cfg) (src tb : RPath) (srcNode : Node) (fuel : Nat), c.dereference = false ∧ c.noClobber = false ∧
      FsEq fs fs ∧ fs.root.isDir = true ∧ PlainTarget fs src ∧ fs.root.getAt src.names = some srcNode ∧
      srcNode.Copyable fuel ∧ PlainTarget fs tb ∧ tb.names ≠ [] ∧ fs.root.getAt tb.names = none ∧
      (∃ es, fs.root.getAt tb.names.dropLast = some (.dir es)) ∧ ¬ src.names <+: tb.names ∧ ¬ tb.names <+: src.names ∧
      (src.names.length + fuel < 200 ∧ tb.names.length + fuel < 200) ∧ (∃ es, srcNode = .dir es ∧ 3 ≤ es.length) :=
  MirrorExample.mirror_hypotheses_satisfiable

/-- THE TREE INDUCTION, existing destination ("destination overlaid with the image"): as the previous theorem, but the
target may already exist and is merged into — a second run of the same copy, or a destination directory holding other
entries.  `Compatible dst src` (decidable) says that, position by position, the destination holds nothing, a regular file
where the source has a regular or special file, a special file where the source has one, or a directory where the source
has a directory (recursively); it EXCLUDES a symbolic link in the destination where the source has a file — that is the
recorded finding F13 (written through) — and kind conflicts, which fail.  Then every operation succeeds and the final
file system is the initial one with `Node.overlay dst src` at the target: source entries replace or are added to the
existing ones, recursively -/
theorem existing_destination_is_overlaid (fs : Fs) (c : Cfg) (hd : c.dereference = false) (hn : c.noClobber = false)
    (src tb : RPath) (srcNode : Node) (fuel : Nat)
    (hwf : FsEq fs fs) (hroot : fs.root.isDir = true)
    (hsrc : PlainTarget fs src) (hsn : fs.root.getAt src.names = some srcNode)
    (hcop : srcNode.Copyable fuel)
    (htb : PlainTarget fs tb) (hne : tb.names ≠ [])
    (hcompat : Compatible (fs.root.getAt tb.names) srcNode)
    (hpar : ∃ es, fs.root.getAt tb.names.dropLast = some (.dir es))
    (hun1 : ¬ src.names <+: tb.names) (hun2 : ¬ tb.names <+: src.names)
    (hlen : src.names.length + fuel < 200 ∧ tb.names.length + fuel < 200) :
    ∃ fs', execOps fs c (walkEntry fs c none src tb (fuel + 1) [] []) = ⟨.ok, fs'⟩ ∧
      FsEq fs' { fs with root := fs.root.setAt tb.names (Node.overlay (fs.root.getAt tb.names) srcNode) } :=
  mirror_overlay fs c hd hn src tb srcNode fuel hwf hroot hsrc hsn hcop htb hne hcompat hpar hun1 hun2 hlen

/-- … and what the destination directory held under names the source directory does not list is observed unchanged,
at every depth -/
theorem existing_destination_keeps_other_entries (fs : Fs) (c : Cfg) (hd : c.dereference = false) (hn : c.noClobber = false)
    (src tb : RPath) (des ses : Entries) (fuel : Nat)
    (hwf : FsEq fs fs) (hroot : fs.root.isDir = true)
    (hsrc : PlainTarget fs src) (hsn : fs.root.getAt src.names = some (.dir ses))
    (hcop : (Node.dir ses).Copyable fuel)
    (htb : PlainTarget fs tb) (hne : tb.names ≠ [])
    (hdst : fs.root.getAt tb.names = some (.dir des))
    (hcompat : Compatible (some (.dir des)) (.dir ses))
    (hpar : ∃ es, fs.root.getAt tb.names.dropLast = some (.dir es))
    (hun1 : ¬ src.names <+: tb.names) (hun2 : ¬ tb.names <+: src.names)
    (hlen : src.names.length + fuel < 200 ∧ tb.names.length + fuel < 200) :
    ∃ fs', execOps fs c (walkEntry fs c none src tb (fuel + 1) [] []) = ⟨.ok, fs'⟩ ∧
      ∀ m q, m ∉ ses.map (·.1) → obsAt fs'.root (tb.names ++ m :: q) = obsAt fs.root (tb.names ++ m :: q) :=
  mirror_overlay_keeps fs c hd hn src tb des ses fuel hwf hroot hsrc hsn hcop htb hne hdst hcompat hpar hun1 hun2 hlen

/-- the overlay on a concrete pair: an existing file is replaced, an existing file the source lacks stays, a new one is added -/
example : Node.overlay (some (.dir [([1], .file 0), ([2], .file 5), ([3], .dir [])]))
    (.dir [([1], .file 7), ([4], .file 8), ([3], .dir [([9], .file 1)])]) =
    .dir [([1], .file 7), ([2], .file 5), ([3], .dir [([9], .file 1)]), ([4], .file 8)] := by rfl

/-- SEVERAL SOURCES in one run, `xcp -r s1 … sn DEST/` with `DEST` an existing plain directory: `runSources` (each
source's target evaluated against the state the previous sources left, as the real walker does) succeeds, and the final
file system is the initial one with, for each source in argv order, `DEST/basename(si)` overlaid with the tree `si`
designates — provided the base names are distinct (two sources onto one name is finding F10), no source lies inside a
target or vice versa, and each target is compatible with its source in the initial state -/
theorem several_sources_each_mirrored (fs : Fs) (c : Cfg) (texts : GiTexts) (dest : RPath) (items : List CopySrc) (fuel : Nat)
    (hd : c.dereference = false) (hn : c.noClobber = false) (hg : c.gitignore = false)
    (hnt : c.noTargetDir = false)
    (hwf : FsEq fs fs)
    (hdest : PlainTarget fs dest) (hdd : ∃ es, fs.root.getAt dest.names = some (.dir es))
    (hfuel : fuel < walkFuel)
    (hsrc : ∀ e ∈ items, PlainTarget fs e.path ∧ e.path.fileName = some e.base ∧
      fs.root.getAt e.path.names = some e.node ∧ e.node.Copyable fuel ∧ e.path.names.length + walkFuel < 256)
    (hnd : (items.map (·.base)).Nodup)
    (hun : ∀ e ∈ items, ∀ e' ∈ items,
      ¬ e.path.names <+: dest.names ++ [e'.base] ∧ ¬ dest.names ++ [e'.base] <+: e.path.names)
    (hcomp : ∀ e ∈ items, Compatible (fs.root.getAt (dest.names ++ [e.base])) e.node)
    (hlen : dest.names.length + 1 + walkFuel < 256) :
    (∃ fs', runSources fs c texts dest (items.map (·.path)) = ⟨.ok, fs'⟩ ∧
      FsEq fs' { fs with root := overlayAll fs.root dest.names items fs.root }) ∧
    (∃ fs', runSources fs c texts dest (items.map (·.path)) = ⟨.ok, fs'⟩ ∧ ∀ e ∈ items,
      obsAt fs'.root (dest.names ++ [e.base]) =
        some (Node.overlay (fs.root.getAt (dest.names ++ [e.base])) e.node).obs ∧
      obsAt fs'.root e.path.names = some e.node.obs) :=
  ⟨multi_overlay fs c texts dest items fuel hd hn hg hnt hwf hdest hdd hfuel hsrc hnd hun hcomp hlen,
   multi_overlay_reads fs c texts dest items fuel hd hn hg hnt hwf hdest hdd hfuel hsrc hnd hun hcomp hlen⟩

/-- the hypotheses of `several_sources_each_mirrored` are met by a concrete run of two sources, one merged into an existing
`D/A` (a file overwritten, a file kept, a link added), one copied to a fresh `D/B` (with a sub-directory and a FIFO) -/
theorem several_sources_hypotheses_are_satisfiable (texts : GiTexts) :
    ∃ fs', runSources MultiSourceExample.fs0 MultiSourceExample.c0 texts MultiSourceExample.dest0
        (MultiSourceExample.items0.map (·.path)) = ⟨.ok, fs'⟩ ∧
      FsEq fs' { MultiSourceExample.fs0 with root := MultiSourceExample.expectedRoot } :=
  MultiSourceExample.multi_instance texts


/-- END TO END, in terms of the function the correspondence check runs against the real program: the invocation
`xcp -r s1 … sn DEST` (or `-t DEST s1 … sn`) passes main's validation and `L1run` ends with every source overlaid at
`DEST/basename`, under the hypotheses of `several_sources_each_mirrored` -/
theorem whole_invocation_mirrors_its_sources (fs : Fs) (o : Opts) (texts : GiTexts) (dest : RPath) (items : List CopySrc) (fuel : Nat)
    (hd : o.cfg.dereference = false) (hn : o.cfg.noClobber = false) (hg : o.cfg.gitignore = false)
    (hnt : o.cfg.noTargetDir = false) (hrec : o.cfg.recursive = true) (hglob : o.glob = false)
    (hpaths : (o.targetDir = none ∧ o.paths = items.map (·.path) ++ [dest]) ∨
      (o.targetDir = some dest ∧ o.paths = items.map (·.path)))
    (hne : items ≠ [])
    (hwf : FsEq fs fs)
    (hdest : PlainTarget fs dest) (hdd : ∃ es, fs.root.getAt dest.names = some (.dir es))
    (hfuel : fuel < walkFuel)
    (hsrc : ∀ e ∈ items, PlainTarget fs e.path ∧ e.path.fileName = some e.base ∧
      fs.root.getAt e.path.names = some e.node ∧ e.node.Copyable fuel ∧ e.path.names.length + walkFuel < 256)
    (hnd : (items.map (·.base)).Nodup)
    (hun : ∀ e ∈ items, ∀ e' ∈ items,
      ¬ e.path.names <+: dest.names ++ [e'.base] ∧ ¬ dest.names ++ [e'.base] <+: e.path.names)
    (hcomp : ∀ e ∈ items, Compatible (fs.root.getAt (dest.names ++ [e.base])) e.node)
    (hlen : dest.names.length + 1 + walkFuel < 256) :
    validate fs o = .ok (items.map (·.path), dest) ∧
    ∃ fs', L1run fs o texts = ⟨.ok, fs'⟩ ∧
      FsEq fs' { fs with root := overlayAll fs.root dest.names items fs.root } :=
  ⟨validate_multi fs o dest items fuel hn hnt hrec hglob hpaths hne hdest hdd hsrc hun hcomp hlen,
   l1run_overlay fs o texts dest items fuel hd hn hg hnt hrec hglob hpaths hne hwf hdest hdd hfuel hsrc hnd hun hcomp hlen⟩

/-- `xcp -r S NEW`: the destination does not exist, its parent does: the whole invocation ends with the source tree at NEW -/
theorem whole_invocation_to_a_new_name (fs : Fs) (o : Opts) (texts : GiTexts) (src dest : RPath) (srcNode : Node) (fuel : Nat)
    (hd : o.cfg.dereference = false) (hn : o.cfg.noClobber = false) (hg : o.cfg.gitignore = false)
    (hrec : o.cfg.recursive = true) (hglob : o.glob = false)
    (htd : o.targetDir = none) (hpaths : o.paths = [src, dest])
    (hwf : FsEq fs fs) (hroot : fs.root.isDir = true)
    (hsrc : PlainTarget fs src) (hsn : fs.root.getAt src.names = some srcNode)
    (hcop : srcNode.Copyable fuel) (hfuel : fuel < walkFuel)
    (htb : PlainTarget fs dest) (hne : dest.names ≠ []) (habs : fs.root.getAt dest.names = none)
    (hpar : ∃ es, fs.root.getAt dest.names.dropLast = some (.dir es))
    (hun1 : ¬ src.names <+: dest.names) (hun2 : ¬ dest.names <+: src.names)
    (hlen : src.names.length + walkFuel < 200 ∧ dest.names.length + walkFuel < 200) :
    ∃ fs', L1run fs o texts = ⟨.ok, fs'⟩ ∧ FsEq fs' { fs with root := fs.root.setAt dest.names srcNode } :=
  l1run_fresh_single fs o texts src dest srcNode fuel hd hn hg hrec hglob htd hpaths hwf hroot hsrc hsn hcop hfuel htb hne habs hpar hun1 hun2 hlen

/-- the end-to-end statement on the concrete two-source instance -/
theorem whole_invocation_instance (texts : GiTexts) :
    ∃ fs', L1run MultiSourceExample.fs0 MultiSourceExample.o0 texts = ⟨.ok, fs'⟩ ∧
      FsEq fs' { MultiSourceExample.fs0 with root := MultiSourceExample.expectedRoot } :=
  MultiSourceExample.l1run_instance texts

/-- the result of a whole invocation depends only on the options that are ABOUT the namespace (no-clobber, dereference,
no-target-directory, gitignore, recursive, force, glob, target directory, the paths): driver, worker count, block size
(`--no-progress`), `--fsync`, `--no-perms`, `--no-timestamps`, `--ownership`, `--reflink`, `--backup` and the backend cannot
change it — the checks draw these at random per scenario and compare with the same model answer -/
theorem driver_and_metadata_options_do_not_change_the_tree (fs : Fs) (o o' : Opts) (texts : GiTexts)
    (hc : o.cfg.sameShape o'.cfg) (hf : o.force = o'.force) (hg : o.glob = o'.glob)
    (ht : o.targetDir = o'.targetDir) (hp : o.paths = o'.paths) :
    L1run fs o texts = L1run fs o' texts :=
  l1run_depends_only_on_shape_options fs o o' texts hc hf hg ht hp

/-- `Cfg.sameShape` is agreement on exactly five fields; every other field is free -/
example (c : Cfg) (w b : Nat) (x : Bool) : c.sameShape { c with workers := w, bsize := b, parblock := x, fsync := x, noPerms := x, ownership := x } :=
  ⟨rfl, rfl, rfl, rfl, rfl⟩

/-- a destination that CLASHES with the source: for a destination made of directories and regular files (at every depth)
that is not `Compatible` with the source — somewhere a source directory meets a regular file, a regular or special file
meets a directory, or a symbolic link of the source meets anything that exists — the run exits non-zero (the model runs
the operations in walk order and stops at the first that fails; those before it have run) -/
theorem clashing_destination_exits_nonzero (fs : Fs) (c : Cfg) (hd : c.dereference = false) (hn : c.noClobber = false)
    (src tb : RPath) (srcNode dstNode : Node) (fuel : Nat)
    (hwf : FsEq fs fs) (hroot : fs.root.isDir = true)
    (hsrc : PlainTarget fs src) (hsn : fs.root.getAt src.names = some srcNode)
    (hcop : srcNode.Copyable fuel)
    (htb : PlainTarget fs tb) (hne : tb.names ≠ [])
    (hdst : fs.root.getAt tb.names = some dstNode) (hplain : dstNode.plainTree = true)
    (hclash : ¬ Compatible (some dstNode) srcNode)
    (hpar : ∃ es, fs.root.getAt tb.names.dropLast = some (.dir es))
    (hun1 : ¬ src.names <+: tb.names) (hun2 : ¬ tb.names <+: src.names)
    (hlen : src.names.length + fuel < 200 ∧ tb.names.length + fuel < 200) :
    (execOps fs c (walkEntry fs c none src tb (fuel + 1) [] [])).exit = .err :=
  clash_fails fs c hd hn src tb srcNode dstNode fuel hwf hroot hsrc hsn hcop htb hne hdst hplain hclash hpar hun1 hun2 hlen

/-- C02 as stated — "on exit 0 the destination holds …" — with NO assumption about compatibility: for every destination
that is absent or made of directories and regular files, exit status ok IMPLIES that the final file system is the
initial one with the overlay at the target (a destination holding symbolic links or special files is outside this
theorem: a link at a mapped position is the recorded finding F13) -/
theorem exit_zero_implies_the_destination_is_overlaid (fs : Fs) (c : Cfg) (hd : c.dereference = false) (hn : c.noClobber = false)
    (src tb : RPath) (srcNode : Node) (fuel : Nat)
    (hwf : FsEq fs fs) (hroot : fs.root.isDir = true)
    (hsrc : PlainTarget fs src) (hsn : fs.root.getAt src.names = some srcNode)
    (hcop : srcNode.Copyable fuel)
    (htb : PlainTarget fs tb) (hne : tb.names ≠ [])
    (hplain : ∀ d, fs.root.getAt tb.names = some d → d.plainTree = true)
    (hpar : ∃ es, fs.root.getAt tb.names.dropLast = some (.dir es))
    (hun1 : ¬ src.names <+: tb.names) (hun2 : ¬ tb.names <+: src.names)
    (hlen : src.names.length + fuel < 200 ∧ tb.names.length + fuel < 200)
    (fs' : Fs) (hok : execOps fs c (walkEntry fs c none src tb (fuel + 1) [] []) = ⟨.ok, fs'⟩) :
    FsEq fs' { fs with root := fs.root.setAt tb.names (Node.overlay (fs.root.getAt tb.names) srcNode) } :=
  ok_implies_overlaid fs c hd hn src tb srcNode fuel hwf hroot hsrc hsn hcop htb hne hplain hpar hun1 hun2 hlen fs' hok

/-- the hypotheses of `clashing_destination_exits_nonzero` are satisfiable together, and the model evaluated on that
instance agrees with the theorem: the sibling before the clash is copied, the run fails, the clashing entry and the
destination's other entry are kept -/
example : (execOps ClashExample.exFs {} (walkEntry ClashExample.exFs {} none ClashExample.src ClashExample.tb
      (ClashExample.fuel + 1) [] [])).exit = .err ∧
    (execOps ClashExample.exFs {} (walkEntry ClashExample.exFs {} none ClashExample.src ClashExample.tb
      (ClashExample.fuel + 1) [] [])).fs.root.getAt [MirrorExample.nD, MirrorExample.nS, ClashExample.nkeep] = some (.file 7) :=
  ⟨ClashExample.instance_fails, ClashExample.instance_keeps_other_entry.1⟩

/-- SEVERAL sources into an existing directory, one of whose targets clashes with its source: the run (`runSources`, each
target base evaluated in the state the earlier sources left) exits non-zero -/
theorem several_sources_one_clash_exits_nonzero (fs : Fs) (c : Cfg) (texts : GiTexts) (dest : RPath) (items : List CopySrc)
    (fuel : Nat)
    (hd : c.dereference = false) (hn : c.noClobber = false) (hg : c.gitignore = false)
    (hnt : c.noTargetDir = false)
    (hwf : FsEq fs fs)
    (hdest : PlainTarget fs dest) (hdd : ∃ es, fs.root.getAt dest.names = some (.dir es))
    (hfuel : fuel < walkFuel)
    (hsrc : ∀ e ∈ items, PlainTarget fs e.path ∧ e.path.fileName = some e.base ∧
      fs.root.getAt e.path.names = some e.node ∧ e.node.Copyable fuel ∧ e.path.names.length + walkFuel < 256)
    (hnd : (items.map (·.base)).Nodup)
    (hun : ∀ e ∈ items, ∀ e' ∈ items,
      ¬ e.path.names <+: dest.names ++ [e'.base] ∧ ¬ dest.names ++ [e'.base] <+: e.path.names)
    (hplain : ∀ e ∈ items, ∀ d, fs.root.getAt (dest.names ++ [e.base]) = some d → d.plainTree = true)
    (hlen : dest.names.length + 1 + walkFuel < 256)
    (hclash : ∃ e ∈ items, ¬ Compatible (fs.root.getAt (dest.names ++ [e.base])) e.node) :
    (runSources fs c texts dest (items.map (·.path))).exit = .err :=
  multi_run_clash_fails fs c texts dest items fuel hd hn hg hnt hwf hdest hdd hfuel hsrc hnd hun hplain hlen hclash

/-- … and C02 for several sources with no compatibility assumed: when every existing target is made of directories and
regular files, exit status ok IMPLIES that every target is overlaid with its source tree and nothing else has changed -/
theorem several_sources_exit_zero_implies_overlaid (fs : Fs) (c : Cfg) (texts : GiTexts) (dest : RPath) (items : List CopySrc)
    (fuel : Nat)
    (hd : c.dereference = false) (hn : c.noClobber = false) (hg : c.gitignore = false)
    (hnt : c.noTargetDir = false)
    (hwf : FsEq fs fs)
    (hdest : PlainTarget fs dest) (hdd : ∃ es, fs.root.getAt dest.names = some (.dir es))
    (hfuel : fuel < walkFuel)
    (hsrc : ∀ e ∈ items, PlainTarget fs e.path ∧ e.path.fileName = some e.base ∧
      fs.root.getAt e.path.names = some e.node ∧ e.node.Copyable fuel ∧ e.path.names.length + walkFuel < 256)
    (hnd : (items.map (·.base)).Nodup)
    (hun : ∀ e ∈ items, ∀ e' ∈ items,
      ¬ e.path.names <+: dest.names ++ [e'.base] ∧ ¬ dest.names ++ [e'.base] <+: e.path.names)
    (hplain : ∀ e ∈ items, ∀ d, fs.root.getAt (dest.names ++ [e.base]) = some d → d.plainTree = true)
    (hlen : dest.names.length + 1 + walkFuel < 256)
    (fs' : Fs) (hok : runSources fs c texts dest (items.map (·.path)) = ⟨.ok, fs'⟩) :
    FsEq fs' { fs with root := overlayAll fs.root dest.names items fs.root } :=
  multi_run_ok_implies_overlaid fs c texts dest items fuel hd hn hg hnt hwf hdest hdd hfuel hsrc hnd hun hplain hlen fs' hok

/-- `-L` onto an EXISTING destination compatible with the tree seen through the links (`s.erase`), when no place the
operations read from lies at, below or above the target (`ReadsAway`, decidable; it follows from absence for a fresh
target, `hout_of_absent`): every operation succeeds and the destination is overlaid with that tree -/
theorem dereferenced_tree_overlays_an_existing_destination (fs : Fs) (c : Cfg) (hd : c.dereference = true) (hn : c.noClobber = false)
    (src tb : RPath) (s : SNode) (fuel : Nat)
    (hwf : FsEq fs fs)
    (hsrc : AbsNames src)
    (hder : derefS fs (fuel + 1) src.names [] = some s)
    (htb : PlainTarget fs tb) (hne : tb.names ≠ [])
    (hcompat : Compatible (fs.root.getAt tb.names) s.erase)
    (hpar : ∃ es, fs.root.getAt tb.names.dropLast = some (.dir es))
    (hout : ReadsAway s tb.names)
    (hlen : tb.names.length + fuel < 255) :
    ∃ fs', execOps fs c (walkEntry fs c none src tb (fuel + 1) [] []) = ⟨.ok, fs'⟩ ∧
      FsEq fs' { fs with root := fs.root.setAt tb.names (Node.overlay (fs.root.getAt tb.names) s.erase) } :=
  overlay_deref fs c hd hn src tb s fuel hwf hsrc hder htb hne hcompat hpar hout hlen

/-- its hypotheses are satisfiable: `/S` = {a, l → a, m → /O/f} copied with `-L` onto an existing `/T/S` = {a (other
content), z} gives {a, z, l, m} with `l`, `m` regular files -/
example : ∃ fs', execOps DerefOverlayExample.exFs DerefOverlayExample.exCfg
      (walkEntry DerefOverlayExample.exFs DerefOverlayExample.exCfg none (plainPath [DerefExample.nS])
        (plainPath [DerefExample.nT, DerefExample.nS]) 2 [] []) = ⟨.ok, fs'⟩ ∧
    FsEq fs' { DerefOverlayExample.exFs with root :=
      (DerefOverlayExample.exFs.root.setAt [DerefExample.nT, DerefExample.nS] DerefOverlayExample.exDest) } :=
  DerefOverlayExample.example_run

/-- THE WHOLE PROGRAM MODEL, C02 AS STATED: for `L1run` — main's validation followed by the walk of every source, the very
function the correspondence runs compare with the real program — and an invocation `xcp -r s1 … sn DEST` / `-t DEST s1 … sn`
whose existing targets are made of directories and regular files: exit status ok IMPLIES that every target is overlaid with its
source tree and nothing else has changed.  No compatibility is assumed: validation may reject, a source may clash half-way —
then the exit is not ok (`a_clash_anywhere_makes_the_whole_invocation_fail`) -/
theorem whole_invocation_exit_zero_implies_the_overlay (fs : Fs) (o : Opts) (texts : GiTexts) (dest : RPath) (items : List CopySrc) (fuel : Nat)
    (hd : o.cfg.dereference = false) (hn : o.cfg.noClobber = false) (hg : o.cfg.gitignore = false)
    (hnt : o.cfg.noTargetDir = false) (hrec : o.cfg.recursive = true) (hglob : o.glob = false)
    (hpaths : (o.targetDir = none ∧ o.paths = items.map (·.path) ++ [dest]) ∨
      (o.targetDir = some dest ∧ o.paths = items.map (·.path)))
    (hne : items ≠ [])
    (hwf : FsEq fs fs)
    (hdest : PlainTarget fs dest) (hdd : ∃ es, fs.root.getAt dest.names = some (.dir es))
    (hfuel : fuel < walkFuel)
    (hsrc : ∀ e ∈ items, PlainTarget fs e.path ∧ e.path.fileName = some e.base ∧
      fs.root.getAt e.path.names = some e.node ∧ e.node.Copyable fuel ∧ e.path.names.length + walkFuel < 256)
    (hnd : (items.map (·.base)).Nodup)
    (hun : ∀ e ∈ items, ∀ e' ∈ items,
      ¬ e.path.names <+: dest.names ++ [e'.base] ∧ ¬ dest.names ++ [e'.base] <+: e.path.names)
    (hplain : ∀ e ∈ items, ∀ d, fs.root.getAt (dest.names ++ [e.base]) = some d → d.plainTree = true)
    (hlen : dest.names.length + 1 + walkFuel < 256)
    (fs' : Fs) (hrun : L1run fs o texts = ⟨.ok, fs'⟩) :
    FsEq fs' { fs with root := overlayAll fs.root dest.names items fs.root } :=
  whole_invocation_exit_zero_implies_overlaid fs o texts dest items fuel hd hn hg hnt hrec hglob hpaths hne hwf hdest hdd hfuel hsrc hnd hun hplain hlen fs' hrun

theorem a_clash_anywhere_makes_the_whole_invocation_fail (fs : Fs) (o : Opts) (texts : GiTexts) (dest : RPath) (items : List CopySrc) (fuel : Nat)
    (hd : o.cfg.dereference = false) (hn : o.cfg.noClobber = false) (hg : o.cfg.gitignore = false)
    (hnt : o.cfg.noTargetDir = false) (hrec : o.cfg.recursive = true) (hglob : o.glob = false)
    (hpaths : (o.targetDir = none ∧ o.paths = items.map (·.path) ++ [dest]) ∨
      (o.targetDir = some dest ∧ o.paths = items.map (·.path)))
    (hne : items ≠ [])
    (hwf : FsEq fs fs)
    (hdest : PlainTarget fs dest) (hdd : ∃ es, fs.root.getAt dest.names = some (.dir es))
    (hfuel : fuel < walkFuel)
    (hsrc : ∀ e ∈ items, PlainTarget fs e.path ∧ e.path.fileName = some e.base ∧
      fs.root.getAt e.path.names = some e.node ∧ e.node.Copyable fuel ∧ e.path.names.length + walkFuel < 256)
    (hnd : (items.map (·.base)).Nodup)
    (hun : ∀ e ∈ items, ∀ e' ∈ items,
      ¬ e.path.names <+: dest.names ++ [e'.base] ∧ ¬ dest.names ++ [e'.base] <+: e.path.names)
    (hplain : ∀ e ∈ items, ∀ d, fs.root.getAt (dest.names ++ [e.base]) = some d → d.plainTree = true)
    (hlen : dest.names.length + 1 + walkFuel < 256)
    (hclash : ∃ e ∈ items, ¬ Compatible (fs.root.getAt (dest.names ++ [e.base])) e.node) :
    (L1run fs o texts).exit = .err :=
  whole_invocation_with_a_clash_exits_nonzero fs o texts dest items fuel hd hn hg hnt hrec hglob hpaths hne hwf hdest hdd hfuel hsrc hnd hun hplain hlen hclash

/-- … and the destination need be plain only WHERE THE SOURCE MAPS ONTO IT (`Node.plainWhereMapped`, decidable, same
recursion as `Compatible`): under names the source does not list it may hold anything — symbolic links, special files, whole
subtrees with links, as a destination populated by an earlier copy does.  Exit ok still implies the overlay; a clash still
fails.  This is as far as it goes: a link AT a mapped position is written through (F13), and the run exits 0 -/
theorem exit_zero_implies_the_overlay_links_elsewhere_allowed (fs : Fs) (c : Cfg) (hd : c.dereference = false) (hn : c.noClobber = false)
    (src tb : RPath) (srcNode : Node) (fuel : Nat)
    (hwf : FsEq fs fs) (hroot : fs.root.isDir = true)
    (hsrc : PlainTarget fs src) (hsn : fs.root.getAt src.names = some srcNode)
    (hcop : srcNode.Copyable fuel)
    (htb : PlainTarget fs tb) (hne : tb.names ≠ [])
    (hplain : ∀ d, fs.root.getAt tb.names = some d → d.plainWhereMapped srcNode = true)
    (hpar : ∃ es, fs.root.getAt tb.names.dropLast = some (.dir es))
    (hun1 : ¬ src.names <+: tb.names) (hun2 : ¬ tb.names <+: src.names)
    (hlen : src.names.length + fuel < 200 ∧ tb.names.length + fuel < 200)
    (fs' : Fs) (hok : execOps fs c (walkEntry fs c none src tb (fuel + 1) [] []) = ⟨.ok, fs'⟩) :
    FsEq fs' { fs with root := fs.root.setAt tb.names (Node.overlay (fs.root.getAt tb.names) srcNode) } :=
  ok_implies_overlaid_mapped fs c hd hn src tb srcNode fuel hwf hroot hsrc hsn hcop htb hne hplain hpar hun1 hun2 hlen fs' hok

/-- `plainWhereMapped` holds of a destination with a link and a FIFO under names the source does not list, which is not a
`plainTree`; a link at a mapped position is rejected -/
example : (Node.dir [([97], .file 1), ([108], .link ⟨false, [.name [120]], false⟩), ([100], .dir [([112], .special .fifo 0)])]).plainWhereMapped
      (.dir [([97], .file 2), ([100], .dir [([98], .file 3)])]) = true ∧
    (Node.dir [([97], .file 1), ([108], .link ⟨false, [.name [120]], false⟩)]).plainTree = false ∧
    (Node.dir [([97], .link ⟨false, [.name [120]], false⟩)]).plainWhereMapped (.dir [([97], .file 2)]) = false :=
  ⟨rfl, rfl, rfl⟩

end Xcp.C02