import XcpProofs.Loops
import XcpProofs.Blocks
import XcpProofs.Merge
import XcpProofs.Compose
/-! # C05 — correct under short I/O counts and absent kernel copy/clone/extent support

"It never exits 0 with missing, duplicated or misplaced bytes": every theorem below has the form
*if the loop reports success then the destination is the source*, for EVERY kernel oracle that is merely
`KernSafe` (answers never exceed the request or the end of file).  Such an oracle may return any short count
at any call, answer `copy_file_range` with ENOSYS/EXDEV/EPERM at any call (⇒ user-space loops, also in the
middle of a block), answer `read` with EINTR, or fail outright (then the loop fails: exit non-zero, which
the statement allows).  `linux = false` is the build without the Linux backend (`fallback.rs`).  -/
namespace Xcp.C05

open Xcp

/-- exactly three errnos of `copy_file_range` mean "fall back to user space"; every other error is fatal -/
theorem cfr_classification (e : Errno) :
    classifyCfr (.err e) = (if e = .ENOSYS ∨ e = .EPERM ∨ e = .EXDEV then .fallback else .fatal e) := by
  cases e <;> simp [classifyCfr]

/-- exactly four errnos of FICLONE mean "unsupported" (auto falls back to a data copy); others are errors -/
theorem clone_classification (e : Errno) :
    classifyClone (.err e) =
      (if e = .EOPNOTSUPP ∨ e = .EINVAL ∨ e = .EXDEV ∨ e = .ETXTBSY then .ok false else .error e) := by
  cases e <;> simp [classifyClone]

/-- FIEMAP unsupported (`map_extents` = `None`): parblock queues the whole file -/
theorem fiemap_unsupported_whole_file (len b : Nat) (sparse : Bool) :
    parblockJobs len b sparse none = blocks 0 len b := by
  cases sparse <;> simp [parblockJobs, parblockRanges]

/-- A file that is not sparse is queued as one range whatever the extent query answers (or fails to answer):
the facility's presence or absence cannot change which bytes are copied. -/
theorem nonsparse_ignores_extent_answer (len b : Nat) (exts : Option (List Extent)) :
    parblockJobs len b false exts = blocks 0 len b := by
  simp [parblockJobs, parblockRanges]

/-- one block, Linux backend, any legal mixture of short counts and a mid-block switch to user space -/
theorem block_short_counts_exact (src : Bytes) (k : Kern) (hs : KernSafe k src.length) (hl : KernLive k src.length)
    (off bytes n : Nat) (ho : off ≤ src.length) (h : (blockJob k true off bytes).stop = .ok n) :
    ∀ i, covered (jobsOf (blockJob k true off bytes).evs) i ↔ off ≤ i ∧ i < min (off + bytes) src.length :=
  (blockJob_linux_ok k src.length hs hl off bytes n ho h).2

/-- one block, build without the Linux backend (`pread`/`pwrite` loop): success means the whole block was
moved — a block reaching past end of file fails instead ("Source file ended prematurely") -/
theorem block_fallback_exact (src : Bytes) (k : Kern) (hs : KernSafe k src.length)
    (off bytes n : Nat) (h : (blockJob k false off bytes).stop = .ok n) :
    n = bytes ∧ off + bytes ≤ src.length ∨ bytes = 0 ∧ n = 0 := by
  obtain ⟨h1, h2, _⟩ := blockJob_fallback_ok k src.length hs off bytes n h
  by_cases hb : 0 < bytes
  · exact Or.inl ⟨h1, h2 hb⟩
  · exact Or.inr ⟨by omega, by omega⟩

theorem block_fallback_cover (src : Bytes) (k : Kern) (hs : KernSafe k src.length)
    (off bytes n : Nat) (h : (blockJob k false off bytes).stop = .ok n) :
    ∀ i, covered (jobsOf (blockJob k false off bytes).evs) i ↔ off ≤ i ∧ i < off + bytes :=
  (blockJob_fallback_ok k src.length hs off bytes n h).2.2

/-- whole file through parfile's loop on either backend, any block size (even 0 would merely spin, never
corrupt): success ⇒ destination = source -/
theorem file_short_counts_exact (src : Bytes) (k : Kern) (hs : KernSafe k src.length) (linux : Bool) (b fuel a r : Nat)
    (h : (copyBytes k linux b fuel a 0 src.length 0).stop = .ok r) :
    r = src.length ∧
    runJobs src (List.replicate src.length 0) (jobsOf (copyBytes k linux b fuel a 0 src.length 0).evs) = src := by
  obtain ⟨h0, h1, h2⟩ := copyBytes_ok k src.length hs linux b fuel a 0 src.length 0 r (Nat.zero_le _) h
  exact ⟨h0, runJobs_exact src _ h1 (fun i hi hc => absurd ((h2 i).mpr (by omega)) hc)⟩

/-- a short `pwrite` in the user-space range copy is reported as a failure, never as success -/
theorem short_pwrite_fails (k : Kern) (a off nbytes rlen w : Nat) (hr : 0 < rlen) (hw : w < rlen)
    (h1 : k a .pread off (min nbytes nbytes) = .moved rlen) (h2 : k (a+1) .pwrite off rlen = .moved w) (hn : 0 < nbytes) :
    (rangeUspace k (nbytes + 1) a off nbytes 0).stop = .fail .shortWrite := by
  obtain ⟨r, rfl⟩ : ∃ r, rlen = r + 1 := ⟨rlen - 1, by omega⟩
  simp only [Nat.min_self] at h1
  unfold rangeUspace
  simp [hn, h1, h2, hw]

/-- an `EINTR` on `read` is retried and does not lose or duplicate bytes: covered by `file_short_counts_exact`
(the oracle is arbitrary); this instance shows the retry concretely -/
example : (bytesUspace (fun a _ _ req => if a = 0 then .err .EINTR else .moved req) 5 0 0 3 0).stop = .ok 3 := by decide

end Xcp.C05
