import XcpProofs.FsDefs
import XcpProofs.FsFrame
import XcpProofs.TreeFrame
import XcpProofs.AnyRunFrame
import XcpProofs.AnyRunFrameMore
import XcpProofs.EndToEndClash
import XcpProofs.ClashLinks
import XcpProofs.ClashExample
/-! # C03 — sources and bystander files are never modified, even by self-copies or kills

Model slice: `validate` (identity-based same-file test per source), `execOp` (the same-file guard before
`File::create`) and the namespace model.  The frame theorem is stated for *plain* targets (absolute, no
symbolic link at or above the target): there the kernel resolves the target to the place it spells, and an
operation changes nothing that is neither at/below its target nor one of the target's ancestor directories.
It holds for every operation list, hence for every prefix of a run: a SIGKILL leaves exactly the effects of
the calls completed so far.  Hard links are not in the model (the real guard compares device and inode, which
covers them; exercised by the correspondence run).  Outside `PlainTarget` — a symbolic link at the target left
by an earlier copy — the model and the code write THROUGH the link (finding F13, reported by C02). -/
namespace Xcp.C03

open Xcp

/-- a copy whose destination designates the source itself — through any spelling or symbolic link — is refused
before anything is created or truncated -/
theorem self_copy_refused (fs : Fs) (c : Cfg) (s t : RPath) (he : fs.exists t = true) (hs : fs.sameFile s t = true) :
    execOp fs c (.copy s t) = none := by
  simp only [execOp, he, hs, Bool.and_self, if_true]
  cases fs.contentOf s <;> rfl

/-- and the invocation as a whole is rejected up front when a source is its own target -/
theorem self_copy_rejected_up_front (fs : Fs) (o : Opts) (dest s tb : RPath)
    (ht : targetBase fs o.cfg dest s = some tb) (he : fs.exists tb = true) (hs : fs.sameFile s tb = true) :
    ∃ r, checkSource fs o dest s = .error r := by
  simp only [checkSource, ht, he, hs, if_true]
  repeat' split
  all_goals exact ⟨_, rfl⟩

/-- a refused or failed operation is a no-op -/
theorem failed_op_changes_nothing (fs : Fs) (c : Cfg) (op : Op) (post : List Op) (h : execOp fs c op = none) :
    (execOps fs c (op :: post)).fs = fs := by
  simp [execOps, h]

/-- frame: an operation on a plain target changes only what is at or below the target, and the entry lists of
the target's ancestor directories -/
theorem plain_op_frame (fs fs' : Fs) (c : Cfg) (op : Op) (t : RPath) (ht : opTarget op = some t)
    (hp : PlainTarget fs t) (h : execOp fs c op = some fs') :
    ∀ q, ¬ (t.names <+: q) → ¬ (q <+: t.names) → fs'.root.getAt q = fs.root.getAt q := by
  rw [plainTarget_eq fs t hp] at ht
  exact (execOp_plain fs fs' c op t.names ht hp.2.2.2 h).1

/-- … and does not change the kind of an ancestor: it is still a directory, with its other entries intact -/
theorem plain_op_keeps_ancestors (fs fs' : Fs) (c : Cfg) (op : Op) (t : RPath) (ht : opTarget op = some t)
    (hp : PlainTarget fs t) (h : execOp fs c op = some fs') :
    ∀ q es, q <+: t.names → q ≠ t.names → fs.root.getAt q = some (.dir es) → ∃ es', fs'.root.getAt q = some (.dir es') := by
  rw [plainTarget_eq fs t hp] at ht
  exact (execOp_plain fs fs' c op t.names ht hp.2.2.2 h).2

/-- the working directory never changes -/
theorem cwd_unchanged (fs : Fs) (c : Cfg) (ops : List Op) : (execOps fs c ops).fs.cwd = fs.cwd := by
  induction ops generalizing fs with
  | nil => rfl
  | cons op r ih =>
    simp only [execOps]
    cases he : execOp fs c op with
    | none => rfl
    | some fs' => exact (ih fs').trans (execOp_cwd fs fs' c op he)

/-! ## Tree level: a whole invocation `xcp -r s1 … sn DEST` (hypotheses of `C02.whole_invocation_mirrors_its_sources`) -/

/-- BYSTANDERS: after the whole run, every place that is not at or below a target `DEST/basename(si)` is observed exactly
as before — `DEST` itself and its ancestors (still directories), every other entry of `DEST` at every depth, and
everything outside `DEST` -/
theorem whole_run_leaves_bystanders_untouched (fs : Fs) (o : Opts) (texts : GiTexts) (dest : RPath) (items : List CopySrc) (fuel : Nat)
    (hd : o.cfg.dereference = false) (hn : o.cfg.noClobber = false) (hg : o.cfg.gitignore = false)
    (hnt : o.cfg.noTargetDir = false)
    (hrec : o.cfg.recursive = true) (hglob : o.glob = false)
    (hpaths : (o.targetDir = none ∧ o.paths = items.map (·.path) ++ [dest]) ∨
      (o.targetDir = some dest ∧ o.paths = items.map (·.path)))
    (hne : items ≠ [])
    (hwf : FsEq fs fs)
    (hdest : PlainTarget fs dest) (hdd : ∃ es, fs.root.getAt dest.names = some (.dir es))
    (hfuel : fuel < walkFuel)
    (hsrc : ∀ e ∈ items, PlainTarget fs e.path ∧ e.path.fileName = some e.base ∧
      fs.root.getAt e.path.names = some e.node ∧ e.node.Copyable fuel ∧ e.path.names.length + walkFuel < 256)
    (hnd : (items.map (·.base)).Nodup)
    (hun : ∀ e ∈ items, ∀ e' ∈ items,
      ¬ e.path.names <+: dest.names ++ [e'.base] ∧ ¬ dest.names ++ [e'.base] <+: e.path.names)
    (hcomp : ∀ e ∈ items, Compatible (fs.root.getAt (dest.names ++ [e.base])) e.node)
    (hlen : dest.names.length + 1 + walkFuel < 256)
    (fs' : Fs) (hrun : L1run fs o texts = ⟨.ok, fs'⟩)
    (q : List Name) (hq : ∀ e ∈ items, ¬ dest.names ++ [e.base] <+: q) :
    obsAt fs'.root q = obsAt fs.root q :=
  bystanders_untouched fs o texts dest items fuel hd hn hg hnt hrec hglob hpaths hne hwf hdest hdd hfuel hsrc hnd hun hcomp hlen fs' hrun q hq

/-- SOURCES: every source subtree is observed exactly as before, at every depth -/
theorem whole_run_leaves_sources_untouched (fs : Fs) (o : Opts) (texts : GiTexts) (dest : RPath) (items : List CopySrc) (fuel : Nat)
    (hd : o.cfg.dereference = false) (hn : o.cfg.noClobber = false) (hg : o.cfg.gitignore = false)
    (hnt : o.cfg.noTargetDir = false)
    (hrec : o.cfg.recursive = true) (hglob : o.glob = false)
    (hpaths : (o.targetDir = none ∧ o.paths = items.map (·.path) ++ [dest]) ∨
      (o.targetDir = some dest ∧ o.paths = items.map (·.path)))
    (hne : items ≠ [])
    (hwf : FsEq fs fs)
    (hdest : PlainTarget fs dest) (hdd : ∃ es, fs.root.getAt dest.names = some (.dir es))
    (hfuel : fuel < walkFuel)
    (hsrc : ∀ e ∈ items, PlainTarget fs e.path ∧ e.path.fileName = some e.base ∧
      fs.root.getAt e.path.names = some e.node ∧ e.node.Copyable fuel ∧ e.path.names.length + walkFuel < 256)
    (hnd : (items.map (·.base)).Nodup)
    (hun : ∀ e ∈ items, ∀ e' ∈ items,
      ¬ e.path.names <+: dest.names ++ [e'.base] ∧ ¬ dest.names ++ [e'.base] <+: e.path.names)
    (hcomp : ∀ e ∈ items, Compatible (fs.root.getAt (dest.names ++ [e.base])) e.node)
    (hlen : dest.names.length + 1 + walkFuel < 256)
    (fs' : Fs) (hrun : L1run fs o texts = ⟨.ok, fs'⟩)
    (e : CopySrc) (he : e ∈ items) (q : List Name) :
    obsAt fs'.root (e.path.names ++ q) = obsAt fs.root (e.path.names ++ q) :=
  sources_untouched fs o texts dest items fuel hd hn hg hnt hrec hglob hpaths hne hwf hdest hdd hfuel hsrc hnd hun hcomp hlen fs' hrun e he q

/-- … and conversely a place that IS observed differently lies at or below one of the targets -/
theorem whole_run_changes_only_the_targets (fs : Fs) (o : Opts) (texts : GiTexts) (dest : RPath) (items : List CopySrc) (fuel : Nat)
    (hd : o.cfg.dereference = false) (hn : o.cfg.noClobber = false) (hg : o.cfg.gitignore = false)
    (hnt : o.cfg.noTargetDir = false)
    (hrec : o.cfg.recursive = true) (hglob : o.glob = false)
    (hpaths : (o.targetDir = none ∧ o.paths = items.map (·.path) ++ [dest]) ∨
      (o.targetDir = some dest ∧ o.paths = items.map (·.path)))
    (hne : items ≠ [])
    (hwf : FsEq fs fs)
    (hdest : PlainTarget fs dest) (hdd : ∃ es, fs.root.getAt dest.names = some (.dir es))
    (hfuel : fuel < walkFuel)
    (hsrc : ∀ e ∈ items, PlainTarget fs e.path ∧ e.path.fileName = some e.base ∧
      fs.root.getAt e.path.names = some e.node ∧ e.node.Copyable fuel ∧ e.path.names.length + walkFuel < 256)
    (hnd : (items.map (·.base)).Nodup)
    (hun : ∀ e ∈ items, ∀ e' ∈ items,
      ¬ e.path.names <+: dest.names ++ [e'.base] ∧ ¬ dest.names ++ [e'.base] <+: e.path.names)
    (hcomp : ∀ e ∈ items, Compatible (fs.root.getAt (dest.names ++ [e.base])) e.node)
    (hlen : dest.names.length + 1 + walkFuel < 256)
    (fs' : Fs) (hrun : L1run fs o texts = ⟨.ok, fs'⟩)
    (q : List Name) (hq : obsAt fs'.root q ≠ obsAt fs.root q) :
    ∃ e ∈ items, dest.names ++ [e.base] <+: q :=
  only_the_targets_change fs o texts dest items fuel hd hn hg hnt hrec hglob hpaths hne hwf hdest hdd hfuel hsrc hnd hun hcomp hlen fs' hrun q hq

/-- WHATEVER THE RUN DOES — success, failure, a clash half-way, any interleaving, any worker count, either driver: for a
target that is absent or made of directories and regular files (no compatibility with the source assumed), in EVERY reachable
state of the concurrent model, failed or not, finished or not, every place that is not at or below the target is observed
exactly as in the initial state: the destination's parent and ancestors, its other entries, everything outside -/
theorem every_reachable_state_changes_only_the_target (fs : Fs) (c : Cfg) (hd : c.dereference = false) (hn : c.noClobber = false)
    (src tb : RPath) (srcNode : Node) (fuel : Nat)
    (hwf : FsEq fs fs) (hroot : fs.root.isDir = true)
    (hsrc : PlainTarget fs src) (hsn : fs.root.getAt src.names = some srcNode)
    (hcop : srcNode.Copyable fuel)
    (htb : PlainTarget fs tb) (hne : tb.names ≠ [])
    (hplain : ∀ d, fs.root.getAt tb.names = some d → d.plainTree = true)
    (hpar : ∃ es, fs.root.getAt tb.names.dropLast = some (.dir es))
    (hun1 : ¬ src.names <+: tb.names) (hun2 : ¬ tb.names <+: src.names)
    (hlen : src.names.length + fuel < 200 ∧ tb.names.length + fuel < 200)
    (ls : List L0.Label) (s : L0.St)
    (hrun : L0.run c (L0.init fs (walkEntry fs c none src tb (fuel + 1) [] [])) ls = some s)
    (q : List Name) (hq : ¬ tb.names <+: q) :
    obsAt s.fs.root q = obsAt fs.root q :=
  any_run_changes_only_the_target fs c hd hn src tb srcNode fuel hwf hroot hsrc hsn hcop htb hne hplain hpar hun1 hun2 hlen ls s hrun q hq

/-- … in particular the SOURCE, at every depth, in every reachable state -/
theorem every_reachable_state_keeps_the_source (fs : Fs) (c : Cfg) (hd : c.dereference = false) (hn : c.noClobber = false)
    (src tb : RPath) (srcNode : Node) (fuel : Nat)
    (hwf : FsEq fs fs) (hroot : fs.root.isDir = true)
    (hsrc : PlainTarget fs src) (hsn : fs.root.getAt src.names = some srcNode)
    (hcop : srcNode.Copyable fuel)
    (htb : PlainTarget fs tb) (hne : tb.names ≠ [])
    (hplain : ∀ d, fs.root.getAt tb.names = some d → d.plainTree = true)
    (hpar : ∃ es, fs.root.getAt tb.names.dropLast = some (.dir es))
    (hun1 : ¬ src.names <+: tb.names) (hun2 : ¬ tb.names <+: src.names)
    (hlen : src.names.length + fuel < 200 ∧ tb.names.length + fuel < 200)
    (ls : List L0.Label) (s : L0.St)
    (hrun : L0.run c (L0.init fs (walkEntry fs c none src tb (fuel + 1) [] [])) ls = some s)
    (rel : List Name) :
    obsAt s.fs.root (src.names ++ rel) = obsAt fs.root (src.names ++ rel) :=
  any_run_keeps_the_source fs c hd hn src tb srcNode fuel hwf hroot hsrc hsn hcop htb hne hplain hpar hun1 hun2 hlen ls s hrun rel

/-- … and the sequential run, whatever its exit status -/
theorem sequential_run_of_any_exit_changes_only_the_target (fs : Fs) (c : Cfg) (hd : c.dereference = false) (hn : c.noClobber = false)
    (src tb : RPath) (srcNode : Node) (fuel : Nat)
    (hwf : FsEq fs fs) (hroot : fs.root.isDir = true)
    (hsrc : PlainTarget fs src) (hsn : fs.root.getAt src.names = some srcNode)
    (hcop : srcNode.Copyable fuel)
    (htb : PlainTarget fs tb) (hne : tb.names ≠ [])
    (hplain : ∀ d, fs.root.getAt tb.names = some d → d.plainTree = true)
    (hpar : ∃ es, fs.root.getAt tb.names.dropLast = some (.dir es))
    (hun1 : ¬ src.names <+: tb.names) (hun2 : ¬ tb.names <+: src.names)
    (hlen : src.names.length + fuel < 200 ∧ tb.names.length + fuel < 200)
    (q : List Name) (hq : ¬ tb.names <+: q) :
    obsAt (execOps fs c (walkEntry fs c none src tb (fuel + 1) [] [])).fs.root q = obsAt fs.root q :=
  any_sequential_run_changes_only_the_target fs c hd hn src tb srcNode fuel hwf hroot hsrc hsn hcop htb hne hplain hpar hun1 hun2 hlen q hq

/-- SEVERAL sources whose operations interleave: in every reachable state, every place not at or below one of the targets
`DEST/basename(si)` is observed as before -/
theorem every_reachable_state_of_several_sources_changes_only_the_targets (fs : Fs) (c : Cfg) (dest : RPath) (items : List CopySrc) (fuel : Nat)
    (hd : c.dereference = false) (hn : c.noClobber = false)
    (hwf : FsEq fs fs)
    (hdd : ∃ es, fs.root.getAt dest.names = some (.dir es))
    (hfuel : fuel < walkFuel)
    (hsrc : ∀ e ∈ items, PlainTarget fs e.path ∧ e.path.fileName = some e.base ∧
      fs.root.getAt e.path.names = some e.node ∧ e.node.Copyable fuel ∧ e.path.names.length + walkFuel < 256)
    (hnd : (items.map (·.base)).Nodup)
    (hun : ∀ e ∈ items, ∀ e' ∈ items,
      ¬ e.path.names <+: dest.names ++ [e'.base] ∧ ¬ dest.names ++ [e'.base] <+: e.path.names)
    (hplain : ∀ e ∈ items, ∀ d, fs.root.getAt (dest.names ++ [e.base]) = some d → d.plainTree = true)
    (hlen : dest.names.length + 1 + walkFuel < 256)
    (ls : List L0.Label) (s : L0.St)
    (hrun : L0.run c (L0.init fs (multiOps fs c dest items)) ls = some s)
    (q : List Name) (hq : ∀ e ∈ items, ¬ dest.names ++ [e.base] <+: q) :
    obsAt s.fs.root q = obsAt fs.root q :=
  any_multi_run_changes_only_the_targets fs c dest items fuel hd hn hwf hdd hfuel hsrc hnd hun hplain hlen ls s hrun q hq

/-- the hypotheses are satisfiable by a FAILING run: on the clashing instance of `XcpProofs/ClashExample.lean` the theorem
applies (its target is a plain tree) and the run fails -/
example (q : List Name) (hq : ¬ ClashExample.tb.names <+: q) :
    obsAt (execOps ClashExample.exFs {} (walkEntry ClashExample.exFs {} none ClashExample.src ClashExample.tb
      (ClashExample.fuel + 1) [] [])).fs.root q = obsAt ClashExample.exFs.root q ∧
    (execOps ClashExample.exFs {} (walkEntry ClashExample.exFs {} none ClashExample.src ClashExample.tb
      (ClashExample.fuel + 1) [] [])).exit = .err := by
  obtain ⟨hd, hn, hwf, hroot, hsrc, hsn, hcop, htb, hne, hdst, hpl, _, hpar, hun1, hun2, hlen⟩ :=
    ClashExample.instance_meets_hypotheses
  exact ⟨any_sequential_run_changes_only_the_target _ _ hd hn _ _ _ _ hwf hroot hsrc hsn hcop htb hne
    (fun d h => by rw [hdst] at h; cases h; exact hpl) hpar hun1 hun2 hlen q hq, ClashExample.instance_fails⟩

/-- … with `--dereference` as well: the operations read from wherever the links lead, but in every reachable state — failed
or not — every place not at or below the target is observed as initially; in particular every place a link of the source
leads to, anywhere in the namespace (no `ReadsAway` needed: the frame is about what is WRITTEN) -/
theorem every_reachable_state_with_dereference_changes_only_the_target (fs : Fs) (c : Cfg) (hd : c.dereference = true)
    (hn : c.noClobber = false)
    (src tb : RPath) (s : SNode) (fuel : Nat)
    (hwf : FsEq fs fs)
    (hsrc : AbsNames src)
    (hder : derefS fs (fuel + 1) src.names [] = some s)
    (htb : PlainTarget fs tb) (hne : tb.names ≠ [])
    (hplain : ∀ d, fs.root.getAt tb.names = some d → d.plainTree = true)
    (hpar : ∃ es, fs.root.getAt tb.names.dropLast = some (.dir es))
    (hlen : tb.names.length + fuel < 255)
    (ls : List L0.Label) (st : L0.St)
    (hrun : L0.run c (L0.init fs (walkEntry fs c none src tb (fuel + 1) [] [])) ls = some st) :
    ∀ q, ¬ tb.names <+: q → obsAt st.fs.root q = obsAt fs.root q :=
  any_deref_run_changes_only_the_target fs c hd hn src tb s fuel hwf hsrc hder htb hne hplain hpar hlen ls st hrun

/-- … and with `--gitignore` patterns in force -/
theorem every_reachable_state_with_gitignore_changes_only_the_target (fs : Fs) (c : Cfg) (hd : c.dereference = false)
    (hn : c.noClobber = false) (ps : List Gi.Pattern)
    (src tb : RPath) (srcNode : Node) (fuel : Nat)
    (hwf : FsEq fs fs) (hroot : fs.root.isDir = true)
    (hsrc : PlainTarget fs src) (hsn : fs.root.getAt src.names = some srcNode)
    (hcop : srcNode.Copyable fuel)
    (htb : PlainTarget fs tb) (hne : tb.names ≠ [])
    (hplain : ∀ d, fs.root.getAt tb.names = some d → d.plainTree = true)
    (hpar : ∃ es, fs.root.getAt tb.names.dropLast = some (.dir es))
    (hun1 : ¬ src.names <+: tb.names) (hun2 : ¬ tb.names <+: src.names)
    (hlen : src.names.length + fuel < 200 ∧ tb.names.length + fuel < 200)
    (ls : List L0.Label) (s : L0.St)
    (hrun : L0.run c (L0.init fs (walkEntry fs c (some ps) src tb (fuel + 1) [] [])) ls = some s)
    (q : List Name) (hq : ¬ tb.names <+: q) :
    obsAt s.fs.root q = obsAt fs.root q :=
  any_gitignore_run_changes_only_the_target fs c hd hn ps src tb srcNode fuel hwf hroot hsrc hsn hcop htb hne hplain hpar
    hun1 hun2 hlen ls s hrun q hq

/-- THE WHOLE PROGRAM MODEL, whatever its exit (accepted or rejected by validation, successful, clashing half-way): every place
not at or below a target `DEST/basename(si)` is observed exactly as before; a rejected invocation leaves the file system
untouched altogether (`Xcp.whole_invocation_rejected_or_started`) -/
theorem whole_invocation_of_any_exit_changes_only_the_targets (fs : Fs) (o : Opts) (texts : GiTexts) (dest : RPath) (items : List CopySrc) (fuel : Nat)
    (hd : o.cfg.dereference = false) (hn : o.cfg.noClobber = false) (hg : o.cfg.gitignore = false)
    (hnt : o.cfg.noTargetDir = false) (hrec : o.cfg.recursive = true) (hglob : o.glob = false)
    (hpaths : (o.targetDir = none ∧ o.paths = items.map (·.path) ++ [dest]) ∨
      (o.targetDir = some dest ∧ o.paths = items.map (·.path)))
    (hne : items ≠ [])
    (hwf : FsEq fs fs)
    (hdest : PlainTarget fs dest) (hdd : ∃ es, fs.root.getAt dest.names = some (.dir es))
    (hfuel : fuel < walkFuel)
    (hsrc : ∀ e ∈ items, PlainTarget fs e.path ∧ e.path.fileName = some e.base ∧
      fs.root.getAt e.path.names = some e.node ∧ e.node.Copyable fuel ∧ e.path.names.length + walkFuel < 256)
    (hnd : (items.map (·.base)).Nodup)
    (hun : ∀ e ∈ items, ∀ e' ∈ items,
      ¬ e.path.names <+: dest.names ++ [e'.base] ∧ ¬ dest.names ++ [e'.base] <+: e.path.names)
    (hplain : ∀ e ∈ items, ∀ d, fs.root.getAt (dest.names ++ [e.base]) = some d → d.plainTree = true)
    (hlen : dest.names.length + 1 + walkFuel < 256) :
    ∀ q, (∀ e ∈ items, ¬ dest.names ++ [e.base] <+: q) →
      obsAt (L1run fs o texts).fs.root q = obsAt fs.root q :=
  whole_invocation_changes_only_the_targets fs o texts dest items fuel hd hn hg hnt hrec hglob hpaths hne hwf hdest hdd hfuel hsrc hnd hun hplain hlen

/-- … and with a destination that is plain only where the source maps onto it (links and special files under other names, as
an earlier copy leaves them): still, in every reachable state, only places at or below the target change -/
theorem every_reachable_state_changes_only_the_target_links_elsewhere_allowed (fs : Fs) (c : Cfg) (hd : c.dereference = false) (hn : c.noClobber = false)
    (src tb : RPath) (srcNode : Node) (fuel : Nat)
    (hwf : FsEq fs fs) (hroot : fs.root.isDir = true)
    (hsrc : PlainTarget fs src) (hsn : fs.root.getAt src.names = some srcNode)
    (hcop : srcNode.Copyable fuel)
    (htb : PlainTarget fs tb) (hne : tb.names ≠ [])
    (hplain : ∀ d, fs.root.getAt tb.names = some d → d.plainWhereMapped srcNode = true)
    (hpar : ∃ es, fs.root.getAt tb.names.dropLast = some (.dir es))
    (hun1 : ¬ src.names <+: tb.names) (hun2 : ¬ tb.names <+: src.names)
    (hlen : src.names.length + fuel < 200 ∧ tb.names.length + fuel < 200)
    (ls : List L0.Label) (s : L0.St)
    (hrun : L0.run c (L0.init fs (walkEntry fs c none src tb (fuel + 1) [] [])) ls = some s)
    (q : List Name) (hq : ¬ tb.names <+: q) :
    obsAt s.fs.root q = obsAt fs.root q :=
  any_run_changes_only_the_target_mapped fs c hd hn src tb srcNode fuel hwf hroot hsrc hsn hcop htb hne hplain hpar hun1 hun2 hlen ls s hrun q hq

end Xcp.C03