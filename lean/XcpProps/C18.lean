import XcpModel.Handle
/-! placeholder until the pool invariants are proved -/
