import XcpModel.Pool
import XcpModel.ParfilePool
import XcpModel.Handle
import XcpProofs.PoolInv
import XcpProofs.PoolFInv
import XcpProofs.ParfileInv
/-! # C18 — `--fsync` flushes every destination file after its last write

"With fsync requested, for every copied regular file an fsync of the destination is issued after the last
operation that writes its data and before xcp exits, under every interleaving of the block workers."

Model slice, three layers:
* `Xcp.Pool` (parblock driver): dispatcher + bounded job queue + pool threads, one `Arc` clone of the `CopyHandle`
  per block job; the last clone dropped runs `Drop` = finalise, fsync, close.  A schedule is a label sequence;
  the theorems hold for every label sequence, every queue capacity, every worker count, every file list.
  The log records `opened / write / copied / finalise / fsync / closed` per handle (handle `h` = `h`-th file).
* `Xcp.Parfile` (parfile driver): each worker owns the one handle it has open; `Drop` runs on the same thread
  after the last data call.
* `fileProgram` (`CopyHandle`, sequential): the calls made on one destination file.

"Before xcp exits" = in a final state (nothing queued, nothing running): the drivers join every worker before
`copy` returns, and the fsync event is already in the log of the final state.  That every schedule reaches a final
state is `parblock_every_schedule_terminates` / `parfile_every_schedule_terminates`.
Lemmas: `XcpProofs/PoolInv.lean`, `XcpProofs/ParfileInv.lean`. -/
namespace Xcp.C18

open Xcp Xcp.Pool

/-! ## parblock -/

/-- In every reachable state — any schedule, any capacity, any number of workers, any files — the log satisfies
the monitor: no write of a handle occurs after its finalisation or after its fsync. -/
theorem parblock_no_write_after_fsync (files : List Nat) (cap workers : Nat) (fs : Bool) (s : St)
    (h : Reachable files cap workers fs s) : writesBeforeFinalise s.log = true :=
  writes_before_finalise files cap workers fs s h

/-- With fsync requested, when everything is done: for every file given, the log splits at an fsync of that
file's handle, every block's write is before it and no write of the file is after it. -/
theorem parblock_fsync_after_last_write (files : List Nat) (cap workers : Nat) (s : St)
    (h : Reachable files cap workers true s) (hf : final s = true) (hd : Hid) (hb : hd < files.length) :
    ∃ pre post, s.log = pre ++ .fsync hd :: post ∧
      (∀ blk, blk < files[hd] → .write hd blk ∈ pre) ∧ (∀ blk, .write hd blk ∉ post) := by
  obtain ⟨hn, hcl, hcnt⟩ := final_all_closed files cap workers true s h hf
  have hok : ClosedOk s.log := fun x pre post hl => fsync_before_close files cap workers s h x pre post hl
  obtain ⟨pre, post, heq, hpre, hpost⟩ :=
    fsync_after_writes_of_closed s.log hd (writes_before_finalise files cap workers true s h) hok
      (hcl hd (by rw [hn]; exact hb))
  refine ⟨pre, post, heq, ?_, hpost⟩
  intro blk hblk
  apply hpre
  have := hcnt hd hb blk hblk
  exact List.count_pos_iff.mp (by omega)

/-- Every schedule terminates — a run from the initial state has at most `measure init` steps — and cannot get
stuck before the end: with at least one worker and one queue slot, a reachable state that is not final has an
enabled label.  So every maximal schedule ends in a final state, where `parblock_fsync_after_last_write` applies. -/
theorem parblock_every_schedule_terminates (files : List Nat) (cap workers : Nat) (fs : Bool) :
    (∀ ls s, run (init files cap workers fs) ls = some s → ls.length ≤ measure (init files cap workers fs)) ∧
    (∀ s, Reachable files cap workers fs s → 0 < workers → 0 < cap → final s = false → enabled s ≠ []) := by
  constructor
  · intro ls s hr
    have := run_measure _ _ _ hr
    omega
  · intro s hr hw hc hf
    obtain ⟨h1, h2, _⟩ := params_reachable hr
    exact no_deadlock s (by omega) (by omega) hf

/-- Without the option no fsync is ever issued. -/
theorem without_option_no_fsync (files : List Nat) (cap workers : Nat) (s : St)
    (h : Reachable files cap workers false s) (hd : Hid) : .fsync hd ∉ s.log :=
  no_fsync_event files cap workers s h hd

/-! ## parfile -/

/-- The parfile workers, every schedule: no write of a handle after its finalisation or its fsync, and with fsync
requested every `closed h` is immediately preceded by `finalise h, fsync h`. -/
theorem parfile_fsync_after_last_write (files : List Nat) (n : Nat) (s : Parfile.St)
    (h : Parfile.Reachable files n true s) :
    writesBeforeFinalise s.log = true ∧
    ∀ hd pre post, s.log = pre ++ .closed hd :: post → ∃ pre', pre = pre' ++ [.finalise hd, .fsync hd] :=
  ⟨Parfile.writes_before_finalise files n true s h, fun hd pre post hl => Parfile.fsync_before_close files n s h hd pre post hl⟩

/-- … and when everything is done, for every file given the log splits at an fsync of its handle with every
write of that file before it and none after. -/
theorem parfile_every_file_fsynced (files : List Nat) (n : Nat) (s : Parfile.St)
    (h : Parfile.Reachable files n true s) (hf : Parfile.final s = true) (hd : Hid) (hb : hd < files.length) :
    ∃ pre post, s.log = pre ++ .fsync hd :: post ∧
      (∀ blk, .write hd blk ∈ s.log → .write hd blk ∈ pre) ∧ (∀ blk, .write hd blk ∉ post) :=
  fsync_after_writes_of_closed s.log hd (Parfile.writes_before_finalise files n true s h)
    (fun x pre post hl => Parfile.fsync_before_close files n s h x pre post hl)
    ((Parfile.final_all_closed files n true s h hf).2 hd hb)

/-- Every parfile schedule terminates and, with at least one worker, cannot get stuck before the end. -/
theorem parfile_every_schedule_terminates (files : List Nat) (n : Nat) (fs : Bool) :
    (∀ ls s, Parfile.run (Parfile.init files n fs) ls = some s →
      ls.length ≤ Parfile.measure (Parfile.init files n fs)) ∧
    (∀ s, Parfile.Reachable files n fs s → 0 < n → Parfile.final s = false → Parfile.enabled s ≠ []) := by
  constructor
  · intro ls s hr
    have := Parfile.run_measure _ _ _ hr
    omega
  · intro s hr hn hf
    have := (Parfile.params_reachable hr).1
    exact Parfile.no_deadlock s (by omega) hf

/-! ## one file, sequentially -/

/-- The calls made on one destination file with fsync requested: the last one is the fsync, and no data call
follows a finalisation call (whatever the clone answer, also when the copy failed). -/
theorem one_file_program_fsync_last (c : Cfg) (hf : c.fsync = true) (len : Nat) (ans : CloneAns) (nd : Nat) (ok : Bool) :
    (fileProgram c len ans nd ok).1.getLast? = some (.fin .fsync) ∧
    ∀ pre post st, (fileProgram c len ans nd ok).1 = pre ++ .fin st :: post → FCall.data ∉ post := by
  obtain ⟨p, nd', heq, hp⟩ := fileProgram_shape c len ans nd ok
  constructor
  · obtain ⟨l, hl⟩ := finaliseSteps_fsync_last c hf
    rw [heq, hl]; simp
  · intro pre post st hsplit hm
    rw [heq] at hsplit
    have hF : ∀ x ∈ (finaliseSteps c).map FCall.fin, isData x = false := by
      intro x hx
      have := any_isData_fins (finaliseSteps c)
      rw [List.any_eq_false] at this
      simpa using this x hx
    have := no_data_after_fin _ _ hp hF pre post st hsplit _ hm
    simp [isData] at this

/-! ## not vacuous -/

/-- one file of two blocks, queue capacity 1, one worker, fsync requested: a complete schedule and its log -/
example :
    (run (init [2] 1 1 true) [.openNext, .push, .take, .stepJob 0, .stepJob 0, .stepJob 0,
        .push, .dropOwn, .take, .stepJob 0, .stepJob 0, .stepJob 0]).map (fun s => (s.log, final s))
      = some ([.opened 0, .write 0 0, .copied 0 0, .write 0 1, .copied 0 1, .finalise 0, .fsync 0, .closed 0], true) := by
  decide

/-- the monitor rejects a write after the fsync, and a write after the finalisation -/
example : writesBeforeFinalise [.opened 0, .write 0 0, .finalise 0, .fsync 0, .write 0 1, .closed 0] = false := by decide
example : writesBeforeFinalise [.opened 0, .finalise 0, .write 0 0, .fsync 0, .closed 0] = false := by decide

/-- parfile: two files on two workers, interleaved -/
example :
    (Parfile.run (Parfile.init [2, 1] 2 true) [.take 0, .take 1, .write 0, .write 1, .finish 1, .write 0, .finish 0]).map
        (fun s => (s.log, Parfile.final s))
      = some ([.opened 0, .opened 1, .write 0 0, .write 1 0, .finalise 1, .fsync 1, .closed 1, .write 0 1,
               .finalise 0, .fsync 0, .closed 0], true) := by
  decide

/-- also with failing block jobs and a dispatcher that stops with an error: no write of a handle follows its finalisation
or its fsync, on any schedule (`Xcp.PoolF`) -/
theorem parblock_writes_before_finalise_with_failures (files : List Nat) (cap workers : Nat) (fs : Bool) (s : PoolF.St)
    (h : PoolF.Reachable files cap workers fs s) : PoolF.writesBeforeFinalise s.log = true :=
  PoolF.writes_before_finalise files cap workers fs s h

end Xcp.C18