import XcpModel.Pool
import XcpModel.ParfilePool
import XcpProofs.PoolInv
import XcpProofs.PoolFInv
import XcpProofs.ParfileInv
/-! # C20 — open descriptors stay bounded regardless of how many files are copied

"The number of files xcp holds open at once is bounded by a function of the worker count only."

Model slice: the two concurrent driver models.  `Xcp.Pool` (parblock): a `CopyHandle` (two descriptors: source
and destination) stays open while some holder has an `Arc` clone of it — a job in the bounded queue (at most
`cap` = 128, a constant of the code), a job on a pool thread (at most `workers`), or the dispatcher (1).
`Xcp.Parfile` (parfile): a handle is open only while the worker that opened it copies that file.  `openCount` is
the number of handles open in a state; the file list (the tree) is universally quantified.  The theorems hold in
every reachable state, i.e. under every schedule.  What else the process has open (stdio, the walker's directory
handles, the status pipe) does not depend on the copy drivers; it is covered by a fixed margin here and measured
by the correspondence check.  Lemmas: `XcpProofs/PoolInv.lean`, `XcpProofs/ParfileInv.lean`. -/
namespace Xcp.C20

open Xcp Xcp.Pool

/-- parblock: at most `cap + workers + 1` handles are open, whatever files are given. -/
theorem parblock_open_handles_bounded (files : List Nat) (cap workers : Nat) (fs : Bool) (s : St)
    (h : Reachable files cap workers fs s) : openCount s ≤ cap + workers + 1 :=
  open_bound files cap workers fs s h

/-- parblock with the queue length of the code (128) and up to 64 workers: two descriptors per handle plus a
margin of 16 for everything else stay below the usual descriptor limit of 1024. -/
theorem parblock_descriptors_below_limit (files : List Nat) (workers : Nat) (fs : Bool) (s : St)
    (hw : workers ≤ 64) (h : Reachable files 128 workers fs s) : 2 * openCount s + 16 < 1024 := by
  have := open_bound files 128 workers fs s h
  omega

/-- parfile: at most one handle per worker is open, whatever files are given; with up to 64 workers the
descriptors stay below 1024 with the same margin. -/
theorem parfile_open_handles_bounded (files : List Nat) (n : Nat) (fs : Bool) (s : Parfile.St)
    (h : Parfile.Reachable files n fs s) :
    Parfile.openCount s ≤ n ∧ (n ≤ 64 → 2 * Parfile.openCount s + 16 < 1024) := by
  have := Parfile.open_bound files n fs s h
  exact ⟨this, fun hn => by omega⟩

/-- The quantifier made visible: two different trees, the same parameters, the same bound. -/
theorem bound_is_independent_of_tree_size (files₁ files₂ : List Nat) (cap workers : Nat) (fs : Bool) (s₁ s₂ : St)
    (h₁ : Reachable files₁ cap workers fs s₁) (h₂ : Reachable files₂ cap workers fs s₂) :
    openCount s₁ ≤ cap + workers + 1 ∧ openCount s₂ ≤ cap + workers + 1 :=
  ⟨open_bound files₁ cap workers fs s₁ h₁, open_bound files₂ cap workers fs s₂ h₂⟩

/-- The parblock bound is tight in the model: six one-block files, capacity 2, one worker — a schedule reaches a
state with `cap + workers + 1 = 4` handles open (one being copied, two queued, one at the dispatcher). -/
theorem bound_is_attained :
    ∃ s, Reachable (List.replicate 6 1) 2 1 false s ∧ openCount s = 2 + 1 + 1 := by
  have h : (run (init (List.replicate 6 1) 2 1 false)
      [.openNext, .push, .dropOwn, .take, .openNext, .push, .dropOwn, .openNext, .push, .dropOwn, .openNext]).map openCount
        = some 4 := by decide
  cases hr : run (init (List.replicate 6 1) 2 1 false)
      [.openNext, .push, .dropOwn, .take, .openNext, .push, .dropOwn, .openNext, .push, .dropOwn, .openNext] with
  | none => rw [hr] at h; simp at h
  | some s => rw [hr] at h; exact ⟨s, ⟨_, hr⟩, by simpa using h⟩

/-- The parfile bound is tight too: three files, two workers, both busy. -/
theorem parfile_bound_is_attained :
    ∃ s, Parfile.Reachable [1, 1, 1] 2 false s ∧ Parfile.openCount s = 2 := by
  have h : (Parfile.run (Parfile.init [1, 1, 1] 2 false) [.take 0, .take 1]).map Parfile.openCount = some 2 := by decide
  cases hr : Parfile.run (Parfile.init [1, 1, 1] 2 false) [.take 0, .take 1] with
  | none => rw [hr] at h; simp at h
  | some s => rw [hr] at h; exact ⟨s, ⟨_, hr⟩, by simpa using h⟩

/-- the bound also holds when block jobs FAIL and when the dispatcher stops with an error at any moment (`Xcp.PoolF`) -/
theorem parblock_open_handles_bounded_with_failures (files : List Nat) (cap workers : Nat) (fs : Bool) (s : PoolF.St)
    (h : PoolF.Reachable files cap workers fs s) : PoolF.openCount s ≤ cap + workers + 1 :=
  PoolF.open_bound files cap workers fs s h

end Xcp.C20