import XcpModel.Handle
import XcpProofs.HandleLemmas
/-! # C10 — permissions, timestamps, xattrs and ownership are preserved as requested

Model slice: `finaliseSteps` (the order of `finalise_copy`) and `applyFStep` (what each call does to the
destination's metadata).  `chownFx` — what the kernel's `chown` does to the mode bits — is an arbitrary
function: the theorems hold whatever set-id bits the kernel clears.  That finalisation happens after the
last data write on every schedule is `Xcp.Pool.writes_before_finalise` (C18).  -/
namespace Xcp.C10

open Xcp

/-- All 12 permission bits, whatever `chown` cleared on the way (ownership is applied first). -/
theorem mode_preserved (c : Cfg) (src d : FMeta) (fx : Nat → Nat) (h : c.noPerms = false) :
    (finalise c src fx d).mode = src.mode := by
  unfold finalise finaliseSteps
  cases c.ownership <;> cases c.noTimestamps <;> cases c.fsync <;> simp [h, applyFStep]

/-- Modification time to the nanosecond. -/
theorem mtime_preserved (c : Cfg) (src d : FMeta) (fx : Nat → Nat) (h : c.noTimestamps = false) :
    (finalise c src fx d).mtime = src.mtime := by
  unfold finalise finaliseSteps
  cases c.ownership <;> cases c.noPerms <;> cases c.fsync <;> simp [h, applyFStep]

/-- Owner and group when requested. -/
theorem owner_preserved (c : Cfg) (src d : FMeta) (fx : Nat → Nat) (h : c.ownership = true) :
    (finalise c src fx d).uid = src.uid ∧ (finalise c src fx d).gid = src.gid := by
  unfold finalise finaliseSteps
  cases c.noPerms <;> cases c.noTimestamps <;> cases c.fsync <;> simp [h, applyFStep]

/-- `--no-perms`: the mode is not transferred — the destination keeps its default or previous mode
(as touched by `chown` if ownership is also requested). -/
theorem no_perms_keeps_mode (c : Cfg) (src d : FMeta) (fx : Nat → Nat) (h : c.noPerms = true) :
    (finalise c src fx d).mode = (if c.ownership then fx d.mode else d.mode) := by
  unfold finalise finaliseSteps
  cases c.ownership <;> cases c.noTimestamps <;> cases c.fsync <;> simp [h, applyFStep]

/-- `--no-timestamps`: the mtime is not transferred — it stays what the writes left (a current time). -/
theorem no_timestamps_keeps_mtime (c : Cfg) (src d : FMeta) (fx : Nat → Nat) (h : c.noTimestamps = true) :
    (finalise c src fx d).mtime = d.mtime := by
  unfold finalise finaliseSteps
  cases c.ownership <;> cases c.noPerms <;> cases c.fsync <;> simp [h, applyFStep]

/-- User extended attributes: every attribute of the source is present with the source's value
(the last one wins if the source lists a key twice). -/
theorem xattrs_preserved (c : Cfg) (src d : FMeta) (fx : Nat → Nat) (h : c.noPerms = false)
    (k : Name) (v : Bytes) (hk : xaGet src.xattrs.reverse k = some v) :
    xaGet (finalise c src fx d).xattrs k = some v := by
  have key : (finalise c src fx d).xattrs = src.xattrs.foldl (fun acc kv => xaSet acc kv.1 kv.2) d.xattrs := by
    unfold finalise finaliseSteps
    cases c.ownership <;> cases c.noTimestamps <;> cases c.fsync <;> simp [h, applyFStep]
  rw [key, xaGet_foldl, hk]

/-- `--no-perms` also leaves the destination's extended attributes alone (they travel with the permissions). -/
theorem no_perms_keeps_xattrs (c : Cfg) (src d : FMeta) (fx : Nat → Nat) (h : c.noPerms = true) :
    (finalise c src fx d).xattrs = d.xattrs := by
  unfold finalise finaliseSteps
  cases c.ownership <;> cases c.noTimestamps <;> cases c.fsync <;> simp [h, applyFStep]

/-- Without `--ownership` owner and group are not transferred, and the mode never passes through `chown`. -/
theorem no_ownership_keeps_owner (c : Cfg) (src d : FMeta) (fx : Nat → Nat) (h : c.ownership = false) :
    (finalise c src fx d).uid = d.uid ∧ (finalise c src fx d).gid = d.gid ∧
    (finalise c src fx d).mode = (if c.noPerms then d.mode else src.mode) := by
  unfold finalise finaliseSteps
  cases c.noPerms <;> cases c.noTimestamps <;> cases c.fsync <;> simp [h, applyFStep]

/-- The exact attribute map of the destination: the source's value where the source has the key (last
listing wins), otherwise whatever the destination had — nothing is removed, nothing else is added. -/
theorem xattrs_exact (c : Cfg) (src d : FMeta) (fx : Nat → Nat) (h : c.noPerms = false) (k : Name) :
    xaGet (finalise c src fx d).xattrs k =
      (xaGet src.xattrs.reverse k).or (xaGet d.xattrs k) := by
  have key : (finalise c src fx d).xattrs = src.xattrs.foldl (fun acc kv => xaSet acc kv.1 kv.2) d.xattrs := by
    unfold finalise finaliseSteps
    cases c.ownership <;> cases c.noTimestamps <;> cases c.fsync <;> simp [h, applyFStep]
  rw [key, xaGet_foldl]
  cases xaGet src.xattrs.reverse k <;> rfl

/-- `--fsync` changes no metadata. -/
theorem fsync_changes_nothing (c : Cfg) (src d : FMeta) (fx : Nat → Nat) :
    finalise { c with fsync := true } src fx d = finalise { c with fsync := false } src fx d := by
  unfold finalise finaliseSteps
  cases c.ownership <;> cases c.noPerms <;> cases c.noTimestamps <;> simp [applyFStep]

/-- The order that makes `mode_preserved` true: whenever both are issued, `chown` comes before `chmod`
(and before the attribute writes), and `fsync`, when issued, is last. -/
theorem chown_first_fsync_last (c : Cfg) :
    (c.ownership = true → (finaliseSteps c).head? = some .chown) ∧
    (c.ownership = false → FStep.chown ∉ finaliseSteps c) ∧
    (c.fsync = true → (finaliseSteps c).getLast? = some .fsync) ∧
    (finaliseSteps c).Nodup := by
  unfold finaliseSteps
  cases c.ownership <;> cases c.noPerms <;> cases c.noTimestamps <;> cases c.fsync <;> simp

/-- The defect repaired by the `fix:` commit "apply ownership before permissions": with the old order
(permissions, timestamps, ownership) Linux' chown drops the set-id bits of mode 06755. -/
theorem old_order_loses_setid :
    ∃ (c : Cfg) (src d : FMeta), c.ownership = true ∧ c.noPerms = false ∧
      ((finaliseStepsOld c).foldl (applyFStep src linuxChownFx) d).mode ≠ src.mode :=
  ⟨{ ownership := true }, ⟨0o6755, 0, 0, 0, []⟩, ⟨0o644, 0, 0, 0, []⟩, rfl, rfl, by decide⟩

/-- Non-vacuity: the repaired order keeps 06755 under the same kernel behaviour. -/
example : (finalise { ownership := true } ⟨0o6755, 5, 6, 123456789, []⟩ linuxChownFx ⟨0o644, 0, 0, 0, []⟩).mode = 0o6755 := by decide

end Xcp.C10
