import XcpModel.Errs
/-! # C04 — no silent failure: a failed step always yields a non-zero exit

Model slice: `Xcp.Errs` — per kind of step, in which thread it runs and how its failure travels (Error
update, returned `Err` through the joins, or only a log line), and `main`'s exit rule.  The statement is
proved for every required step EXCEPT the finalisation steps that run inside `Drop` (finding F11: their
errors are logged and swallowed) — `no_silent_failure_partial`; the full statement is kept as
`no_silent_failure_full` and refuted by the witness `finalise_failure_is_silent`, which the check replays
on the implementation.  Existence probes of the destination are not steps; that a failed probe was read as
"absent" and silently changed the mapping was finding F12, repaired by a `fix:` commit: the probe that decides the mapping
is fallible now (`mapping_probe_failure_is_reported`).  -/
namespace Xcp.C04

open Xcp.Errs

/-- The full statement (NOT a theorem of the unchanged code — see `finalise_failure_is_silent`). -/
def no_silent_failure_full : Prop :=
  ∀ (d : Driver) (failed : List Site), (∃ s ∈ failed, required s = true) → exitNonZero d failed = true

/-- Every required step outside `Drop`'s finalisation: its failure alone, or together with ANY other failures
(pairs, sequences), makes the exit status non-zero, for both drivers. -/
theorem no_silent_failure_partial (d : Driver) (failed : List Site) (s : Site) (hm : s ∈ failed)
    (hr : required s = true) (hf : isFinalise s = false) : exitNonZero d failed = true := by
  unfold exitNonZero
  rw [List.any_eq_true]
  refine ⟨s, hm, ?_⟩
  cases d <;> cases s <;> simp_all [report, required, isFinalise]

/-- equivalently: exit status 0 implies that no required step (outside finalisation) failed -/
theorem exit_zero_means_all_steps_succeeded (d : Driver) (failed : List Site) (h : exitNonZero d failed = false) :
    ∀ s ∈ failed, required s = false ∨ isFinalise s = true := by
  intro s hm
  by_cases hr : required s = true
  · by_cases hf : isFinalise s = true
    · exact Or.inr hf
    · have := no_silent_failure_partial d failed s hm hr (by simpa using hf)
      simp [this] at h
  · exact Or.inl (by simpa using hr)

/-- only failures to copy extended attributes or ownership are tolerated among the steps -/
theorem tolerated_steps (s : Site) : required s = false ↔ s = .finXattr ∨ s = .finChown ∨ s = .destProbe ∨ s = .specialProbeDest := by
  cases s <;> simp [required]

/-- Finding F11 as a theorem: a failing fchmod / utimensat / fsync inside `Drop` is reported nowhere. -/
theorem finalise_failure_is_silent (d : Driver) :
    exitNonZero d [.finChmod] = false ∧ exitNonZero d [.finUtimens] = false ∧ exitNonZero d [.finFsync] = false := by
  cases d <;> decide

theorem full_statement_fails : ¬ no_silent_failure_full := by
  intro h
  have := h .parfile [.finChmod] ⟨.finChmod, by simp, rfl⟩
  simp [exitNonZero, report] at this

/-- The repaired defect F12: the lookup that decides WHERE files go (is the destination an existing directory?) used to
read a failing stat as "no" and silently changed the mapping; after the `fix:` commit its failure returns an error
through main / the walker, alone or with any other failures beside it -/
theorem mapping_probe_failure_is_reported (d : Driver) (others : List Site) : exitNonZero d (.destProbe :: others) = true := by
  cases d <;> simp [exitNonZero, report]

/-- library clients: apart from a failing block job of parblock (reported through the update stream only),
every reported failure also makes `copy()` return an error -/
theorem copy_returns_err_except_pool_jobs (d : Driver) (s : Site) (h : (report d s).update = true)
    (hs : ¬ (d = .parblock ∧ s = .dataCopy)) : (report d s).ret = true := by
  cases d <;> cases s <;> simp_all [report]

/-- non-vacuity: a failing `ftruncate` in either driver, alone or with a tolerated failure beside it -/
example : exitNonZero .parblock [.finXattr, .truncateDst] = true ∧ exitNonZero .parfile [.truncateDst] = true := by decide

end Xcp.C04
