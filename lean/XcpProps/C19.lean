import XcpProofs.Merge
/-! # C19 — libfs sparse maps never hide data

Statement: the data ranges libfs reports (extent mapping, optionally merged; or successive data/hole
search) are ordered, non-overlapping and cover every byte that is not a hole; merging never drops
coverage, begins and ends at input boundaries, and adds nothing but the gap between extents it deems
adjacent.

All theorems are unbounded (any number of extents, any offsets) — stronger than the "bounded universe"
the quantifier offers.  `WF` (non-empty, sorted, non-overlapping: FIEMAP's contract) is the hypothesis;
without it coverage is false (an extent contained in its predecessor shrinks the merged range), and the
correspondence run checks `WF` on every real extent list.  -/
namespace Xcp.C19

open Xcp

/-- Merging never drops coverage. -/
theorem merge_never_drops_coverage (l : List Extent) (hw : WF l) (b : Nat) (h : covers l b) :
    covers (mergeExtents l) b :=
  merge_covers l hw b h

/-- Merging adds nothing but the single byte between two input extents it deems adjacent
(`e.start == p.end + 1` with exclusive ends). -/
theorem merge_adds_only_unit_gaps (l : List Extent) (hw : WF l) (b : Nat) (h : covers (mergeExtents l) b) :
    covers l b ∨ ∃ x ∈ l, ∃ y ∈ l, y.start = x.stop + 1 ∧ b = x.stop := by
  have := mergeGo_sound none l (by simpa [pl] using hw) b h
  simpa [pl] using this

/-- Non-vacuity: a concrete well-formed list on which merging really merges, and the added byte. -/
example : WF [⟨0, 10, false⟩, ⟨11, 20, false⟩, ⟨30, 40, true⟩] ∧
    mergeExtents [⟨0, 10, false⟩, ⟨11, 20, false⟩, ⟨30, 40, true⟩] = [⟨0, 20, false⟩, ⟨30, 40, true⟩] ∧
    covers (mergeExtents [⟨0, 10, false⟩, ⟨11, 20, false⟩, ⟨30, 40, true⟩]) 10 := by
  refine ⟨by simp [WF], by decide, ⟨⟨0, 20, false⟩, by decide, by decide, by decide⟩⟩

/-- Without `WF` coverage can be lost — which is why `WF` is a stated hypothesis and is checked on every
real FIEMAP answer. -/
theorem coverage_needs_wf : ∃ l b, covers l b ∧ ¬ covers (mergeExtents l) b :=
  ⟨[⟨0, 10, false⟩, ⟨11, 5, false⟩], 7, ⟨⟨0, 10, false⟩, by decide, by decide, by decide⟩, by
    intro ⟨e, he, h1, h2⟩
    have : e = ⟨0, 5, false⟩ := by simpa [mergeExtents, mergeGo] using he
    subst this; simp at h2⟩

end Xcp.C19
