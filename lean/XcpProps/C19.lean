import XcpProofs.Merge
import XcpProofs.Extents
/-! # C19 — libfs sparse maps never hide data

Statement: the data ranges libfs reports (extent mapping, optionally merged; or successive data/hole
search) are ordered, non-overlapping and cover every byte that is not a hole; merging never drops
coverage, begins and ends at input boundaries, and adds nothing but the gap between extents it deems
adjacent.

All theorems are unbounded (any number of extents, any offsets) — stronger than the "bounded universe"
the quantifier offers.  `WF` (non-empty, sorted, non-overlapping: FIEMAP's contract) is the hypothesis;
without it coverage is false (an extent contained in its predecessor shrinks the merged range), and the
correspondence run checks `WF` on every real extent list.  -/
namespace Xcp.C19

open Xcp

/-- Merging never drops coverage. -/
theorem merge_never_drops_coverage (l : List Extent) (hw : WF l) (b : Nat) (h : covers l b) :
    covers (mergeExtents l) b :=
  merge_covers l hw b h

/-- Merging adds nothing but the single byte between two input extents it deems adjacent
(`e.start == p.end + 1` with exclusive ends). -/
theorem merge_adds_only_unit_gaps (l : List Extent) (hw : WF l) (b : Nat) (h : covers (mergeExtents l) b) :
    covers l b ∨ ∃ x ∈ l, ∃ y ∈ l, y.start = x.stop + 1 ∧ b = x.stop := by
  have := mergeGo_sound none l (by simpa [pl] using hw) b h
  simpa [pl] using this

/-- Merged ranges begin and end at input boundaries. -/
theorem merge_begins_and_ends_at_input_boundaries (l : List Extent) :
    ∀ m ∈ mergeExtents l, (∃ e ∈ l, e.start = m.start) ∧ (∃ e ∈ l, e.stop = m.stop) :=
  merge_boundaries l

/-- Merged ranges are again ordered, non-empty and non-overlapping. -/
theorem merge_ordered_nonoverlapping (l : List Extent) (hw : WF l) : WF (mergeExtents l) :=
  merge_wf l hw

/-- The overflow-checked merge the executable model runs (and the dev-profile Rust code is) agrees with
`mergeExtents` whenever it does not panic, and panics only if an extent ends at `u64::MAX`. -/
theorem merge_checked_agrees (l r : List Extent) (h : mergeGoChk none l = some r) : r = mergeExtents l :=
  mergeGoChk_eq none l r h

/-- Extent mapping: for ANY number of extents and any page size ≥ 1 (the code uses 32) the paging loop
terminates and returns exactly the file's extent list — no extent is dropped or duplicated at a page seam. -/
theorem map_extents_returns_all_pages (all : List Extent) (hw : WF all) (slots : Nat) (hs : 0 < slots) :
    mapExtents (fiemapOf all slots) (all.length + 2) = some (some all) :=
  mapExtents_all_pages all hw slots hs

/-- Segment search: the data ranges found by successive SEEK_DATA/SEEK_HOLE are ordered, non-overlapping
and inside the file … -/
theorem segments_ordered_nonoverlapping (s : SeekOracle) (src : Bytes) (hl : SeekLegal s src) :
    List.Pairwise (fun a b => a.2 ≤ b.1) (segmentsOf s src.length (src.length + 1) 0) ∧
    ∀ seg ∈ segmentsOf s src.length (src.length + 1) 0, seg.1 ≤ seg.2 ∧ seg.2 ≤ src.length :=
  segments_ordered s src hl

/-- … and every byte outside them reads as zero. -/
theorem segments_never_hide_data (s : SeekOracle) (src : Bytes) (hl : SeekLegal s src) (i : Nat)
    (hi : i < src.length) (hout : ¬ ∃ seg ∈ segmentsOf s src.length (src.length + 1) 0, seg.1 ≤ i ∧ i < seg.2) :
    src[i]? = some 0 := by
  apply Classical.byContradiction
  intro hnz
  exact hout (segments_cover s src hl i hi hnz)

/-- The SEEK contract is satisfiable by what the executable model runs: any sound layout. -/
theorem layout_oracle_is_legal (L : Layout) (src : Bytes) (h : LayoutSound L src) : SeekLegal L.oracle src :=
  layout_oracle_legal L src h

/-- Non-vacuity: a concrete well-formed list on which merging really merges, and the added byte. -/
example : WF [⟨0, 10, false⟩, ⟨11, 20, false⟩, ⟨30, 40, true⟩] ∧
    mergeExtents [⟨0, 10, false⟩, ⟨11, 20, false⟩, ⟨30, 40, true⟩] = [⟨0, 20, false⟩, ⟨30, 40, true⟩] ∧
    covers (mergeExtents [⟨0, 10, false⟩, ⟨11, 20, false⟩, ⟨30, 40, true⟩]) 10 := by
  refine ⟨by simp [WF], by decide, ⟨⟨0, 20, false⟩, by decide, by decide, by decide⟩⟩

/-- Without `WF` coverage can be lost — which is why `WF` is a stated hypothesis and is checked on every
real FIEMAP answer. -/
theorem coverage_needs_wf : ∃ l b, covers l b ∧ ¬ covers (mergeExtents l) b :=
  ⟨[⟨0, 10, false⟩, ⟨11, 5, false⟩], 7, ⟨⟨0, 10, false⟩, by decide, by decide, by decide⟩, by
    intro ⟨e, he, h1, h2⟩
    have : e = ⟨0, 5, false⟩ := by simpa [mergeExtents, mergeGo] using he
    subst this; simp at h2⟩

end Xcp.C19
