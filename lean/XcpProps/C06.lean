import XcpProofs.Perm
import XcpProofs.L0Fs
import XcpProofs.MirrorConc
import XcpProofs.OverlayConc
import XcpProofs.MultiConc
import XcpProofs.DerefConc
import XcpProofs.ClashConc
import XcpProofs.ClashExample
import XcpProofs.MultiClash
import XcpProofs.DerefOverlay
import XcpProofs.GiClash
import XcpProofs.DerefClash
import XcpProofs.GiOverlay
import XcpProofs.PoolInv
import XcpProofs.ParfileInv
import XcpProps.C01
import XcpProps.C02
import XcpProps.C03
import XcpProps.C10
import XcpProps.C12
/-! # C06 — outcome is independent of thread interleaving, worker count and driver

PARTIAL.  What is proved, each for EVERY schedule (label sequence) of the concurrent models and every worker
count / queue capacity:

* bytes: the final content of a file depends only on which positions the block jobs covered, not on their
  order, duplication or granularity (`bytes_depend_only_on_coverage`, `block_jobs_in_any_order`); both drivers
  end with destination = source (`drivers_agree_on_bytes`, from C01);
* the multiset of effects is schedule-independent: in every final state of the pool model every block of every
  file has been written exactly once and every handle finalised and closed (`every_schedule_same_effects`);
* "a file's metadata is applied only after its last byte has been written": no write of a handle follows its
  finalisation, in every reachable state (`metadata_after_last_write`), and finalisation determines the
  metadata whatever came before (C10);
* "a directory always exists before anything is created inside it": the walker emits — and itself executes,
  before queuing anything below — the `mkdir` of a directory as the FIRST operation of that directory's
  subtree (`mkdir_first_in_its_subtree`);
* effects on unrelated plain targets do not interfere (`unrelated_targets_do_not_interfere`, from C03's frame
  theorem): the state at one target after the run does not depend on when operations on other targets ran;
* the update totals and the exit status of failure-free runs are the same for every schedule (C12, C07).

* REFINEMENT L0 ⇒ L1 (`any_interleaving_ends_like_the_sequential_run`): in the concurrent model `Xcp.L0` over the
  namespace model — the walker executes directory creations itself in walk order and hands every other operation
  to the workers, ANY queued operation may complete next, the walker may run ahead arbitrarily (this covers
  every interleaving, worker count and both drivers) — every complete failure-free run ends in the state of the
  sequential execution `L1`, up to the order of directory entries (`FsEq`: same observation at every path), for
  operation lists that are pairwise independent (`PairIndep`: targets names-only and unrelated or an ancestor
  `mkdir`, nobody writes into another's source) — provided each queued operation is `GoodAll` when handed over
  (plain target with existing parent directory, plain existing source, no symbolic link above any target).

  The hand-over hypothesis is DISCHARGED for a fresh target (`fresh_destination_any_interleaving`): there no interleaving
  can make an operation fail and every complete run ends with exactly the source tree at the target.

  Likewise for an EXISTING compatible destination (`existing_destination_any_interleaving`).

  And across SEVERAL sources of one run whose operations interleave (`several_sources_any_interleaving`), for distinct
  base names (one base name twice is finding F10).

What is NOT proved: the hand-over condition for incompatible destinations (kind conflicts fail; a destination symlink under
a source file is F13), with `--dereference`, and the bridge from the real thread structure to `Xcp.L0` (transcribed from the source); both
are checked on every real run instead (per-target call order by the monitor, mkdir-before-children and
equality of end states across schedules, worker counts and drivers, and against `L1run`).  Two recorded findings show where the
statement itself fails on the unchanged code: two sources mapping onto one target (F10) and the partial state
of FAILING runs (F14); they are reproduced by the check and printed as KNOWN-FINDING.  -/
namespace Xcp.C06

open Xcp

/-- two job lists covering the same positions give the same file: any order, any duplication (retries), any
split of a block into short copies -/
theorem bytes_depend_only_on_coverage (src dst : Bytes) (l1 l2 : List (Nat × Nat)) (hl : dst.length = src.length)
    (h1 : ∀ j ∈ l1, j.1 + j.2 ≤ src.length) (h2 : ∀ j ∈ l2, j.1 + j.2 ≤ src.length)
    (hc : ∀ i, covered l1 i ↔ covered l2 i) : runJobs src dst l1 = runJobs src dst l2 :=
  runJobs_ext src dst l1 l2 hl h1 h2 hc

/-- disjoint block jobs commute: every permutation of the jobs of a file gives the same content -/
theorem block_jobs_in_any_order (src dst : List Byte) (l1 l2 : List (Nat × Nat))
    (hp : l1.Perm l2) (hn : l1.Nodup) (hl : dst.length = src.length)
    (hin : ∀ j ∈ l1, j.1 + j.2 ≤ src.length)
    (hd : ∀ a ∈ l1, ∀ b ∈ l1, a ≠ b → Disjoint2 a b) :
    run (job src) dst l1 = run (job src) dst l2 :=
  jobs_any_order src dst l1 l2 hp hn hl hin hd

/-- both drivers, when they report success, leave the same bytes: the source's -/
theorem drivers_agree_on_bytes (src : Bytes) (k1 : Kern) (hs1 : KernSafe k1 src.length) (linux : Bool) (b fuel a r : Nat)
    (hpf : (copyBytes k1 linux b fuel a 0 src.length 0).stop = .ok r)
    (b2 : Nat) (hb2 : 0 < b2) (k2 : Nat × Nat → Kern) (hk2 : ∀ j, KernSafe (k2 j) src.length ∧ KernLive (k2 j) src.length)
    (hok : ∀ j ∈ parblockJobs src.length b2 false none, ∃ n, (blockJob (k2 j) true j.1 j.2).stop = .ok n)
    (all : List (Nat × Nat))
    (hall : ∀ x, x ∈ all ↔ ∃ j ∈ parblockJobs src.length b2 false none, x ∈ jobsOf (blockJob (k2 j) true j.1 j.2).evs) :
    runJobs src (createAllocate none src.length) (jobsOf (copyBytes k1 linux b fuel a 0 src.length 0).evs) =
    runJobs src (createAllocate none src.length) all := by
  rw [C01.parfile_dense_exact src k1 hs1 linux b fuel a r hpf,
      C01.parblock_exact src b2 hb2 false none (by simp) k2 hk2 hok all hall]

/-- every schedule of the dispatcher/pool performs the same effects: in ANY final state, whatever the label
sequence, the worker count and the queue capacity, every block of every file has been written exactly once and
every file has been finalised and closed -/
theorem every_schedule_same_effects (files : List Nat) (cap workers : Nat) (fs : Bool) (s : Pool.St)
    (h : Pool.Reachable files cap workers fs s) (hf : Pool.final s = true) :
    s.next = files.length ∧ (∀ hd, hd < s.next → .closed hd ∈ s.log) ∧
    ∀ hd (hb : hd < files.length), ∀ blk, blk < files[hd] → (s.log.count (.write hd blk) = 1) :=
  Pool.final_all_closed files cap workers fs s h hf

/-- a file's metadata is applied only after its last byte has been written, on every schedule -/
theorem metadata_after_last_write (files : List Nat) (cap workers : Nat) (fs : Bool) (s : Pool.St)
    (h : Pool.Reachable files cap workers fs s) : Pool.writesBeforeFinalise s.log = true :=
  Pool.writes_before_finalise files cap workers fs s h

/-- a directory always exists before anything is created inside it: the first operation the walker emits for a
directory entry is the creation of that directory — and the walker performs it itself, synchronously, before it
queues any operation of the subtree -/
theorem mkdir_first_in_its_subtree (fs : Fs) (c : Cfg) (hd : c.dereference = false) (hn : c.noClobber = false)
    (src tb : RPath) (fuel : Nat) (rel : List Name) (anc : List (List Name)) (cp : List Name) (es : List (Name × Node))
    (hl : fs.lstat (relJoin src rel) = some (cp, .dir es)) :
    (walkEntry fs c none src tb (fuel + 1) rel anc).head? = some (.mkdir (relJoin tb rel)) :=
  (C02.walk_emits_one_operation_per_kind fs c hd hn src tb fuel rel anc cp (.dir es) hl).2.2.1 es rfl

/-- operations on unrelated plain targets do not interfere: what an operation leaves outside its own target's
subtree and ancestors is untouched, so the state at one target does not depend on when the others ran -/
theorem unrelated_targets_do_not_interfere (fs fs' : Fs) (c : Cfg) (op : Op) (t : RPath) (ht : opTarget op = some t)
    (hp : PlainTarget fs t) (h : execOp fs c op = some fs') :
    ∀ q, ¬ (t.names <+: q) → ¬ (q <+: t.names) → fs'.root.getAt q = fs.root.getAt q :=
  C03.plain_op_frame fs fs' c op t ht hp h

/-- REFINEMENT: every complete, failure-free concurrent execution — any interleaving of the walker with the
completions of queued operations, hence any worker count and either driver — ends in the file system of the
sequential execution (same observation at every path; only the order of directory entries may differ) -/
theorem any_interleaving_ends_like_the_sequential_run (c : Cfg) (fs0 : Fs) (ops : List Op)
    (h0 : FsEq fs0 fs0) (hnd : ops.Nodup) (hI : L0.PairIndep ops)
    (hand : ∀ (ls : List L0.Label) (s : L0.St) (op : Op) (r : List Op), L0.run c (L0.init fs0 ops) ls = some s →
              s.failed = false → s.todo = op :: r → L0.isSync op = false → L0.GoodAll ops s.fs op)
    (ls : List L0.Label) (s : L0.St) (hrun : L0.run c (L0.init fs0 ops) ls = some s)
    (hfin : L0.final s = true) (hok : s.failed = false) :
    ∃ f, L0.seqExec c (some fs0) ops = some f ∧ FsEq f s.fs :=
  L0.fs_run_refines_sequential c fs0 ops h0 hnd hI hand ls s hrun hfin hok

/-- … in particular two schedules of the same operations end in the same file system (up to entry order) -/
theorem two_interleavings_agree (c : Cfg) (fs0 : Fs) (ops : List Op)
    (h0 : FsEq fs0 fs0) (hnd : ops.Nodup) (hI : L0.PairIndep ops)
    (hand : ∀ (ls : List L0.Label) (s : L0.St) (op : Op) (r : List Op), L0.run c (L0.init fs0 ops) ls = some s →
              s.failed = false → s.todo = op :: r → L0.isSync op = false → L0.GoodAll ops s.fs op)
    (l1 l2 : List L0.Label) (s1 s2 : L0.St)
    (r1 : L0.run c (L0.init fs0 ops) l1 = some s1) (r2 : L0.run c (L0.init fs0 ops) l2 = some s2)
    (f1 : L0.final s1 = true) (f2 : L0.final s2 = true) (k1 : s1.failed = false) (k2 : s2.failed = false) :
    FsEq s1.fs s2.fs := by
  obtain ⟨a, ha, ea⟩ := L0.fs_run_refines_sequential c fs0 ops h0 hnd hI hand l1 s1 r1 f1 k1
  obtain ⟨b, hb, eb⟩ := L0.fs_run_refines_sequential c fs0 ops h0 hnd hI hand l2 s2 r2 f2 k2
  rw [ha] at hb
  cases hb
  exact (L0.fs_commutes c ops).trans _ _ _ ((L0.fs_commutes c ops).symm _ _ ea) eb

/-- the hand-over hypothesis DISCHARGED for a fresh target: for the operations the walker emits for any copyable source
tree and an absent target whose parent exists, NO interleaving can make an operation fail, and every complete run of
the concurrent model — any worker count, either driver — ends with exactly the source tree at the target -/
theorem fresh_destination_any_interleaving (fs : Fs) (c : Cfg) (hd : c.dereference = false) (hn : c.noClobber = false)
    (src tb : RPath) (srcNode : Node) (fuel : Nat)
    (hwf : FsEq fs fs) (hroot : fs.root.isDir = true)
    (hsrc : PlainTarget fs src) (hsn : fs.root.getAt src.names = some srcNode)
    (hcop : srcNode.Copyable fuel)
    (htb : PlainTarget fs tb) (hne : tb.names ≠ []) (habs : fs.root.getAt tb.names = none)
    (hpar : ∃ es, fs.root.getAt tb.names.dropLast = some (.dir es))
    (hun1 : ¬ src.names <+: tb.names) (hun2 : ¬ tb.names <+: src.names)
    (hlen : src.names.length + fuel < 200 ∧ tb.names.length + fuel < 200)
    (ls : List L0.Label) (s : L0.St) (hrun : L0.run c (L0.init fs (freshOps fs c src tb fuel)) ls = some s) :
    s.failed = false ∧
    (L0.final s = true → FsEq s.fs { fs with root := fs.root.setAt tb.names srcNode }) := by
  have hok := mirror_fresh_never_fails fs c hd hn src tb srcNode fuel hwf hroot hsrc hsn hcop htb hne habs hpar hun1 hun2 hlen ls s hrun
  exact ⟨hok, fun hfin => mirror_fresh_concurrent fs c hd hn src tb srcNode fuel hwf hroot hsrc hsn hcop htb hne habs hpar hun1 hun2 hlen ls s hrun hfin hok⟩

/-- … and for an EXISTING destination that is position-wise `Compatible` with the source (a re-run of the same copy, a
destination directory with other entries; symbolic links may sit under names the source does not list): no interleaving
can make an operation fail, and every complete run ends with the destination OVERLAID with the source tree -/
theorem existing_destination_any_interleaving (fs : Fs) (c : Cfg) (hd : c.dereference = false) (hn : c.noClobber = false)
    (src tb : RPath) (srcNode : Node) (fuel : Nat)
    (hwf : FsEq fs fs) (hroot : fs.root.isDir = true)
    (hsrc : PlainTarget fs src) (hsn : fs.root.getAt src.names = some srcNode)
    (hcop : srcNode.Copyable fuel)
    (htb : PlainTarget fs tb) (hne : tb.names ≠ [])
    (hcompat : Compatible (fs.root.getAt tb.names) srcNode)
    (hpar : ∃ es, fs.root.getAt tb.names.dropLast = some (.dir es))
    (hun1 : ¬ src.names <+: tb.names) (hun2 : ¬ tb.names <+: src.names)
    (hlen : src.names.length + fuel < 200 ∧ tb.names.length + fuel < 200)
    (ls : List L0.Label) (s : L0.St)
    (hrun : L0.run c (L0.init fs (walkEntry fs c none src tb (fuel + 1) [] [])) ls = some s) :
    s.failed = false ∧
    (L0.final s = true →
      FsEq s.fs { fs with root := fs.root.setAt tb.names (Node.overlay (fs.root.getAt tb.names) srcNode) }) :=
  overlay_concurrent_ok fs c hd hn src tb srcNode fuel hwf hroot hsrc hsn hcop htb hne hcompat hpar hun1 hun2 hlen ls s hrun

/-- … and for SEVERAL sources whose operations interleave (`xcp -r s1 … sn DEST/`: the walker goes through the sources one
after the other while workers still complete operations of earlier ones): with distinct base names, sources and targets
mutually unrelated and each target compatible in the initial state, no interleaving can make an operation fail and every
complete run ends with every source overlaid at `DEST/basename` -/
theorem several_sources_any_interleaving (fs : Fs) (c : Cfg) (dest : RPath) (items : List CopySrc) (fuel : Nat)
    (hd : c.dereference = false) (hn : c.noClobber = false)
    (hwf : FsEq fs fs)
    (hdest : PlainTarget fs dest) (hdd : ∃ es, fs.root.getAt dest.names = some (.dir es))
    (hfuel : fuel < walkFuel)
    (hsrc : ∀ e ∈ items, PlainTarget fs e.path ∧ e.path.fileName = some e.base ∧
      fs.root.getAt e.path.names = some e.node ∧ e.node.Copyable fuel ∧ e.path.names.length + walkFuel < 256)
    (hnd : (items.map (·.base)).Nodup)
    (hun : ∀ e ∈ items, ∀ e' ∈ items,
      ¬ e.path.names <+: dest.names ++ [e'.base] ∧ ¬ dest.names ++ [e'.base] <+: e.path.names)
    (hcomp : ∀ e ∈ items, Compatible (fs.root.getAt (dest.names ++ [e.base])) e.node)
    (hlen : dest.names.length + 1 + walkFuel < 256)
    (ls : List L0.Label) (s : L0.St)
    (hrun : L0.run c (L0.init fs (multiOps fs c dest items)) ls = some s) :
    s.failed = false ∧ (L0.final s = true →
      FsEq s.fs { fs with root := overlayAll fs.root dest.names items fs.root }) :=
  multi_concurrent_ok fs c dest items fuel hd hn hwf hdest hdd hfuel hsrc hnd hun hcomp hlen ls s hrun

/-- … and with `--dereference` (`-L`) onto a fresh target: the operations read from the canonical places the links lead
to — anywhere in the namespace — and write below the target; no interleaving can make one fail, and every complete run of
the concurrent model ends with the tree seen through the links (`s.erase`) at the target -/
theorem dereference_fresh_destination_any_interleaving (fs : Fs) (c : Cfg) (hd : c.dereference = true) (hn : c.noClobber = false)
    (src tb : RPath) (s : SNode) (fuel : Nat)
    (hwf : FsEq fs fs)
    (hsrc : AbsNames src)
    (hder : derefS fs (fuel + 1) src.names [] = some s)
    (htb : PlainTarget fs tb) (hne : tb.names ≠ []) (habs : fs.root.getAt tb.names = none)
    (hpar : ∃ es, fs.root.getAt tb.names.dropLast = some (.dir es))
    (hlen : tb.names.length + fuel < 255)
    (ls : List L0.Label) (st : L0.St)
    (hrun : L0.run c (L0.init fs (walkEntry fs c none src tb (fuel + 1) [] [])) ls = some st) :
    st.failed = false ∧
    (L0.final st = true → FsEq st.fs { fs with root := fs.root.setAt tb.names s.erase }) :=
  deref_fresh_concurrent_ok fs c hd hn src tb s fuel hwf hsrc hder htb hne habs hpar hlen ls st hrun

/-- the exit STATUS of a clashing copy is the same on every interleaving: for a destination of directories and regular
files that is not `Compatible` with the source (C02 `clashing_destination_exits_nonzero`: the sequential run exits
non-zero), NO run of the concurrent model — any interleaving, worker count, driver — completes without having failed;
and since a run that has neither failed nor finished can always take a step (`a_run_never_sticks`), every maximal run
ends failed.  (WHAT such a failing run leaves behind does depend on the schedule: recorded finding F14.) -/
theorem clashing_destination_fails_on_every_interleaving (fs : Fs) (c : Cfg) (hd : c.dereference = false) (hn : c.noClobber = false)
    (src tb : RPath) (srcNode dstNode : Node) (fuel : Nat)
    (hwf : FsEq fs fs) (hroot : fs.root.isDir = true)
    (hsrc : PlainTarget fs src) (hsn : fs.root.getAt src.names = some srcNode)
    (hcop : srcNode.Copyable fuel)
    (htb : PlainTarget fs tb) (hne : tb.names ≠ [])
    (hdst : fs.root.getAt tb.names = some dstNode) (hplain : dstNode.plainTree = true)
    (hclash : ¬ Compatible (some dstNode) srcNode)
    (hpar : ∃ es, fs.root.getAt tb.names.dropLast = some (.dir es))
    (hun1 : ¬ src.names <+: tb.names) (hun2 : ¬ tb.names <+: src.names)
    (hlen : src.names.length + fuel < 200 ∧ tb.names.length + fuel < 200)
    (ls : List L0.Label) (s : L0.St)
    (hrun : L0.run c (L0.init fs (walkEntry fs c none src tb (fuel + 1) [] [])) ls = some s)
    (hfin : L0.final s = true) : s.failed = true :=
  clash_fails_every_interleaving fs c hd hn src tb srcNode dstNode fuel hwf hroot hsrc hsn hcop htb hne hdst hplain hclash
    hpar hun1 hun2 hlen ls s hrun hfin

/-- a run of the concurrent model that has not failed and is not finished can always take a step -/
theorem a_run_never_sticks (c : Cfg) (s : L0.St) (hf : s.failed = false) (hn : L0.final s = false) :
    ∃ l s', L0.step c s l = some s' :=
  unfailed_unfinished_can_step c s hf hn

/-- the hypotheses are satisfiable: the instance of `XcpProofs/ClashExample.lean` (a source directory `sub` meets a
regular file one level down, after a sibling that is copied) meets all of them, fails on a concrete interleaving by
evaluation, and on every interleaving by the theorem -/
example : ∃ s, L0.run {} (L0.init ClashExample.exFs (walkEntry ClashExample.exFs {} none ClashExample.src ClashExample.tb
    (ClashExample.fuel + 1) [] [])) ClashExample.ls1 = some s ∧ L0.final s = true ∧ s.failed = true :=
  ClashExample.instance_fails_on_an_interleaving

/-- … the same for SEVERAL sources whose operations interleave: when one target clashes, no run of the concurrent model
over the concatenated lists completes without having failed -/
theorem several_sources_one_clash_fails_on_every_interleaving (fs : Fs) (c : Cfg) (dest : RPath) (items : List CopySrc)
    (fuel : Nat)
    (hd : c.dereference = false) (hn : c.noClobber = false)
    (hwf : FsEq fs fs)
    (hdd : ∃ es, fs.root.getAt dest.names = some (.dir es))
    (hfuel : fuel < walkFuel)
    (hsrc : ∀ e ∈ items, PlainTarget fs e.path ∧ e.path.fileName = some e.base ∧
      fs.root.getAt e.path.names = some e.node ∧ e.node.Copyable fuel ∧ e.path.names.length + walkFuel < 256)
    (hnd : (items.map (·.base)).Nodup)
    (hun : ∀ e ∈ items, ∀ e' ∈ items,
      ¬ e.path.names <+: dest.names ++ [e'.base] ∧ ¬ dest.names ++ [e'.base] <+: e.path.names)
    (hplain : ∀ e ∈ items, ∀ d, fs.root.getAt (dest.names ++ [e.base]) = some d → d.plainTree = true)
    (hlen : dest.names.length + 1 + walkFuel < 256)
    (hclash : ∃ e ∈ items, ¬ Compatible (fs.root.getAt (dest.names ++ [e.base])) e.node)
    (ls : List L0.Label) (s : L0.St)
    (hrun : L0.run c (L0.init fs (multiOps fs c dest items)) ls = some s)
    (hfin : L0.final s = true) : s.failed = true :=
  multi_clash_fails_every_interleaving fs c dest items fuel hd hn hwf hdd hfuel hsrc hnd hun hplain hlen hclash ls s hrun hfin

/-- … and `-L` onto an EXISTING compatible destination (C02 `dereferenced_tree_overlays_an_existing_destination`): no
interleaving can make an operation fail, and every complete run ends with the overlay -/
theorem dereference_existing_destination_any_interleaving (fs : Fs) (c : Cfg) (hd : c.dereference = true) (hn : c.noClobber = false)
    (src tb : RPath) (s : SNode) (fuel : Nat)
    (hwf : FsEq fs fs)
    (hsrc : AbsNames src)
    (hder : derefS fs (fuel + 1) src.names [] = some s)
    (htb : PlainTarget fs tb) (hne : tb.names ≠ [])
    (hcompat : Compatible (fs.root.getAt tb.names) s.erase)
    (hpar : ∃ es, fs.root.getAt tb.names.dropLast = some (.dir es))
    (hout : ReadsAway s tb.names)
    (hlen : tb.names.length + fuel < 255)
    (ls : List L0.Label) (st : L0.St)
    (hrun : L0.run c (L0.init fs (walkEntry fs c none src tb (fuel + 1) [] [])) ls = some st) :
    st.failed = false ∧
    (L0.final st = true →
      FsEq st.fs { fs with root := fs.root.setAt tb.names (Node.overlay (fs.root.getAt tb.names) s.erase) }) :=
  overlay_deref_concurrent_ok fs c hd hn src tb s fuel hwf hsrc hder htb hne hcompat hpar hout hlen ls st hrun

/-- … and the same with `--gitignore` patterns in force (clash judged against the PRUNED tree) and with `--dereference`
(against the tree seen through the links): where the sequential run exits non-zero, no run of the concurrent model completes
without having failed; where it succeeds, every complete run ends in the same overlay (C17
`existing_destination_overlaid_on_every_interleaving`, `dereference_existing_destination_any_interleaving` above) -/
theorem clash_with_gitignore_or_dereference_fails_on_every_interleaving :
    (∀ (fs : Fs) (c : Cfg), c.dereference = false → c.noClobber = false → ∀ (ps : List Gi.Pattern)
      (src tb : RPath) (srcNode dstNode : Node) (fuel : Nat),
      FsEq fs fs → fs.root.isDir = true → PlainTarget fs src → fs.root.getAt src.names = some srcNode → srcNode.Copyable fuel →
      PlainTarget fs tb → tb.names ≠ [] → fs.root.getAt tb.names = some dstNode → dstNode.plainTree = true →
      ¬ Compatible (some dstNode) (Node.prune ps [] srcNode) →
      (∃ es, fs.root.getAt tb.names.dropLast = some (.dir es)) →
      ¬ src.names <+: tb.names → ¬ tb.names <+: src.names →
      (src.names.length + fuel < 200 ∧ tb.names.length + fuel < 200) →
      ∀ (ls : List L0.Label) (s : L0.St),
        L0.run c (L0.init fs (walkEntry fs c (some ps) src tb (fuel + 1) [] [])) ls = some s → L0.final s = true → s.failed = true) ∧
    (∀ (fs : Fs) (c : Cfg), c.dereference = true → c.noClobber = false → ∀ (src tb : RPath) (s : SNode) (dstNode : Node) (fuel : Nat),
      FsEq fs fs → AbsNames src → derefS fs (fuel + 1) src.names [] = some s →
      PlainTarget fs tb → tb.names ≠ [] → fs.root.getAt tb.names = some dstNode → dstNode.plainTree = true →
      ¬ Compatible (some dstNode) s.erase →
      (∃ es, fs.root.getAt tb.names.dropLast = some (.dir es)) → ReadsAway s tb.names → tb.names.length + fuel < 255 →
      ∀ (ls : List L0.Label) (st : L0.St),
        L0.run c (L0.init fs (walkEntry fs c none src tb (fuel + 1) [] [])) ls = some st → L0.final st = true → st.failed = true) :=
  ⟨fun fs c hd hn ps src tb srcNode dstNode fuel hwf hroot hsrc hsn hcop htb hne hdst hplain hclash hpar hun1 hun2 hlen ls s hrun hfin =>
     gitignore_clash_fails_every_interleaving fs c hd hn ps src tb srcNode dstNode fuel hwf hroot hsrc hsn hcop htb hne hdst hplain
       hclash hpar hun1 hun2 hlen ls s hrun hfin,
   fun fs c hd hn src tb s dstNode fuel hwf hsrc hder htb hne hdst hplain hclash hpar hout hlen ls st hrun hfin =>
     deref_clash_fails_every_interleaving fs c hd hn src tb s dstNode fuel hwf hsrc hder htb hne hdst hplain hclash hpar hout hlen
       ls st hrun hfin⟩

/-- the totals of the update stream of a failure-free run are the same on every schedule -/
theorem update_totals_schedule_independent (files : List Nat) (s1 s2 : Status.St)
    (h1 : Status.Reachable files s1) (h2 : Status.Reachable files s2)
    (f1 : Status.final s1 = true) (f2 : Status.final s2 = true) (ok1 : s1.failed = false) (ok2 : s2.failed = false) :
    sumSize s1.log = sumSize s2.log ∧ sumCopied s1.log = sumCopied s2.log := by
  have a := C12.complete_run_totals files s1 h1 f1 ok1
  have b := C12.complete_run_totals files s2 h2 f2 ok2
  omega

end Xcp.C06
