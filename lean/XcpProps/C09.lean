import XcpProofs.BackupLemmas
/-! # C09 — numbered backups never lose a version, for any name, history or kill point

Model slice: `isNumBackup` / `nextBackupNum` / `backupName` / `needsBackup` (libxcp/src/backup.rs after the
`fix:` commit: byte-wise exact `<name>.~N~`, `checked_add`), and the `rename; create; fill` prefix of
`CopyHandle::new`, on a directory modelled as a finite map from raw byte names to contents.
Names are arbitrary byte lists (non-UTF-8 included); histories and number sets are unbounded.  -/
namespace Xcp.C09

open Xcp

/-- The recogniser accepts exactly `<base>.~N~` with N a non-empty string of ASCII digits that fits in 64
bits — for every byte string, UTF-8 or not; in particular `ab.~7~` is not a backup of `a`. -/
theorem recogniser_exact (base cand : Name) (n : Nat) :
    isNumBackup base cand = some n ↔
      ∃ ds : List UInt8, ds ≠ [] ∧ ds.all isDigit = true ∧ cand = base ++ [46, 126] ++ ds ++ [126] ∧
        digitsVal ds = n ∧ n < 2^64 :=
  isNumBackup_iff base cand n

/-- The name xcp generates is recognised with its own number (so the next overwrite sees it). -/
theorem generated_name_recognised (base : Name) (n : Nat) (h : n < 2^64) :
    isNumBackup base (backupName base n) = some n :=
  isNumBackup_backupName base n h

/-- N is greater than every backup number already present for that name, and the name is fresh. -/
theorem number_exceeds_all_and_is_fresh (dir : List Name) (base : Name) (N : Nat) (h : nextBackupNum dir base = some N) :
    (∀ c ∈ dir, ∀ m, isNumBackup base c = some m → m < N) ∧ backupName base N ∉ dir :=
  ⟨nextBackupNum_greater dir base N h, nextBackupNum_fresh dir base N h⟩

/-- One overwrite under `numbered`: the old content is preserved intact as `<name>.~N~`, that name was
absent before, N exceeds every recognised number, and every other entry is untouched. -/
theorem overwrite_preserves_old (d : Dir) (name old new : List UInt8) (N : Nat)
    (hold : d.get name = some old) (hN : nextBackupNum d.names name = some N) :
    (copyOnce d (.numbered, name, new)).get name = some new ∧
    (copyOnce d (.numbered, name, new)).get (backupName name N) = some old ∧
    d.get (backupName name N) = none ∧
    (∀ c ∈ d.names, ∀ m, isNumBackup name c = some m → m < N) ∧
    (∀ k, k ≠ name → k ≠ backupName name N → (copyOnce d (.numbered, name, new)).get k = d.get k) :=
  copyOnce_numbered_keeps_old d name old new N hold hN

/-- No existing backup is ever modified or replaced by a copy, in any mode. -/
theorem existing_backups_untouched (d : Dir) (mode : BackupMode) (name new : List UInt8) (m : Nat) (v : List UInt8)
    (hk : d.get (backupName name m) = some v) :
    (copyOnce d (mode, name, new)).get (backupName name m) = some v :=
  copyOnce_backups_untouched d mode name new m v hk

/-- `auto` takes a backup exactly when one already exists for that name. -/
theorem auto_iff_backup_exists (d : Dir) (name old new : List UInt8) (N : Nat)
    (hold : d.get name = some old) (hN : nextBackupNum d.names name = some N) :
    ((copyOnce d (.auto, name, new)).get (backupName name N) = some old ↔ hasBackup d.names name = true) ∧
    (copyOnce d (.auto, name, new)).get name = some new ∧
    (hasBackup d.names name = false → ∀ k, k ≠ name → (copyOnce d (.auto, name, new)).get k = d.get k) :=
  copyOnce_auto_iff d name old new N hold hN

/-- Any history of copies with any modes: entries never targeted survive; and each version overwritten under
`numbered` is still present, intact, under the backup name chosen at that moment, after the whole history
(as long as no later invocation names that backup file itself as its destination). -/
theorem history_never_loses_a_version (d : Dir) (h : List (BackupMode × Name × List UInt8)) :
    (∀ k v, d.get k = some v → (∀ op ∈ h, op.2.1 ≠ k) → (runHistory d h).get k = some v) ∧
    (∀ pre rest name new c N, h = pre ++ (BackupMode.numbered, name, new) :: rest →
      (runHistory d pre).get name = some c →
      nextBackupNum (runHistory d pre).names name = some N →
      (∀ op ∈ rest, op.2.1 ≠ backupName name N) →
      (runHistory d pre).get (backupName name N) = none ∧
      (runHistory d h).get (backupName name N) = some c ∧
      (∀ k ∈ (runHistory d pre).names, ∀ m, isNumBackup name k = some m → m < N)) :=
  history_never_loses d h

/-- Kill safety: at EVERY prefix of the steps of an overwrite (a SIGKILL between any two calls), when a
backup is due the old content exists under the original name or under the backup name; other entries are
never touched. -/
theorem kill_point_safe (d : Dir) (mode : BackupMode) (name old new : List UInt8) (l : List BStep)
    (hold : d.get name = some old) (hl : copySteps d mode name new = some l) (i : Nat) :
    (needsBackup mode true d.names name = true →
      ∃ N, nextBackupNum d.names name = some N ∧ d.get (backupName name N) = none ∧
        ((runSteps d (l.take i)).get name = some old ∨
         (runSteps d (l.take i)).get (backupName name N) = some old)) ∧
    (∀ k v, k ≠ name → d.get k = some v → (runSteps d (l.take i)).get k = some v) :=
  ⟨(kill_safe d mode name old new l hold hl i).1, (kill_safe d mode name old new l hold hl i).2.1⟩

/-- Exact delta of the set of backups under `numbered`: after the overwrite a backup `<name>.~m~` exists iff
`m = N` or it existed before — exactly one backup appears, none disappears, and every one that existed keeps
its content. -/
theorem overwrite_adds_exactly_one_backup (d : Dir) (name old new : List UInt8) (N : Nat)
    (hold : d.get name = some old) (hN : nextBackupNum d.names name = some N) (m : Nat) (v : List UInt8) :
    (copyOnce d (.numbered, name, new)).get (backupName name m) = some v ↔
      (m = N ∧ v = old) ∨ (m ≠ N ∧ d.get (backupName name m) = some v) := by
  obtain ⟨_, h2, _, _, h5⟩ := copyOnce_numbered_keeps_old d name old new N hold hN
  by_cases hm : m = N
  · subst hm; rw [h2]; constructor
    · intro h; exact Or.inl ⟨rfl, (Option.some.inj h).symm⟩
    · rintro (⟨_, rfl⟩ | ⟨h, _⟩)
      · rfl
      · exact absurd rfl h
  · rw [h5 _ (backupName_ne name m) (fun h => hm (backupName_inj name m N h))]
    constructor
    · intro h; exact Or.inr ⟨hm, h⟩
    · rintro (⟨h, _⟩ | ⟨_, h⟩)
      · exact absurd h hm
      · exact h

/-- Consecutive numbering: after a numbered overwrite took backup N, the next overwrite of that name will take
N+1 (so a history of k numbered overwrites of one name leaves exactly k new backups, numbered consecutively
after the largest one present at the start). -/
theorem next_number_is_consecutive (d : Dir) (name old new : List UInt8) (N : Nat)
    (hold : d.get name = some old) (hN : nextBackupNum d.names name = some N) (hlt : N + 1 < 2^64) :
    nextBackupNum (copyOnce d (.numbered, name, new)).names name = some (N + 1) :=
  nextBackupNum_after_overwrite d name old new N hold hN hlt

/-- Mode `none` never takes a backup: only the target changes, whatever backups exist. -/
theorem none_mode_touches_only_target (d : Dir) (name new : List UInt8) (k : Name) :
    (copyOnce d (.none, name, new)).get k = if k = name then some new else d.get k :=
  copyOnce_nobackup_get new (by simp [needsBackup]) k

/-- When the next number would not fit in 64 bits (`checked_add` fails) and a backup is due, the copy is
refused and the directory is left exactly as it was — the old content is not overwritten without a backup. -/
theorem overflow_refuses_and_changes_nothing (d : Dir) (mode : BackupMode) (name new : List UInt8)
    (hb : needsBackup mode (d.get name).isSome d.names name = true) (hN : nextBackupNum d.names name = none) :
    copyOnce d (mode, name, new) = d :=
  copyOnce_refused new hb hN

/-- Non-vacuity of the overflow case: a backup numbered 2^64-1 exists. -/
example : nextBackupNum [[97], backupName [97] (2^64 - 1)] [97] = none := by decide

/-- Non-vacuity and a non-UTF-8 name (0xFF 0xFE): three numbered overwrites keep v0, v1, v2. -/
example :
    let nm : Name := [0xFF, 0xFE]
    let d := runHistory [(nm, [0])] [(.numbered, nm, [1]), (.numbered, nm, [2]), (.numbered, nm, [3])]
    d.get nm = some [3] ∧ d.get (backupName nm 1) = some [0] ∧ d.get (backupName nm 2) = some [1] ∧
      d.get (backupName nm 3) = some [2] := by decide

/-- The defects repaired by the `fix:` commit on backup.rs, as facts about the *old* recogniser's three
ingredients: a prefix test is not an exact match. -/
example : isNumBackup [97] ([97, 98] ++ [46, 126, 55, 126]) = none := by decide   -- `ab.~7~` is not a backup of `a`

end Xcp.C09
