import XcpProofs.FsDefs
import XcpProofs.FsFrame
import XcpProofs.NoClobberTree
import XcpProofs.MultiNoClobber
import XcpProofs.GiConc
import XcpProofs.MultiCollision
import XcpProofs.DerefNoClobber
import XcpProofs.EndToEndMore
/-! # C08 — `--no-clobber` never alters anything that already exists in the destination

Model slice: the walker's existence probe (`lstat` after the `fix:` commit) and `execOps`.
`fresh_run_preserves` is an invariant over every prefix of the run (hence every kill point, and — as each
operation's effect is confined to its own fresh target — every interleaving of distinct-target operations).
Gap, stated openly: that the walker's probe (made when the entry is visited) still holds when the operation
later executes is assumed (`FreshRun`); it can only fail when two sources map onto one target (finding F10)
or something else creates the target meanwhile; the correspondence run checks it on every real trace.
For ONE source tree the hypothesis is DISCHARGED (`XcpProofs/NoClobberTree.lean`): if the source's target exists nothing
is emitted (`collision_emits_no_operation`), and if it is absent every operation of the walk executes on a target that
does not exist at that moment — sequentially (`one_source_walk_is_a_fresh_run`) and in every interleaving of the
concurrent model (`one_source_any_interleaving_preserves`) — so nothing that existed before is altered; likewise for
SEVERAL sources with distinct base names whose operations interleave (`several_sources_any_interleaving_preserve`). -/
namespace Xcp.C08

open Xcp

/-- one operation executed on a target that does not exist alters no existing entry -/
theorem fresh_op_preserves (fs fs' : Fs) (c : Cfg) (op : Op)
    (hf : ∀ t, opTarget op = some t → fs.lexists t = false) (h : execOp fs c op = some fs') :
    Preserved fs.root fs'.root :=
  execOp_fresh_preserved fs fs' c op hf h

theorem preserved_trans (a b c : Node) (h1 : Preserved a b) (h2 : Preserved b c) : Preserved a c :=
  Preserved.trans h1 h2

/-- a whole run (and every prefix of it: the statement is for all op lists) of fresh operations alters no
entry that existed before: not modified, replaced, truncated, renamed or removed -/
theorem fresh_run_preserves (fs : Fs) (c : Cfg) (ops : List Op) (h : FreshRun fs c ops) :
    Preserved fs.root (execOps fs c ops).fs.root := by
  induction ops generalizing fs with
  | nil => exact Preserved.refl _
  | cons op r ih =>
    obtain ⟨hf, hr⟩ := h
    simp only [execOps]
    cases he : execOp fs c op with
    | none => exact Preserved.refl _
    | some fs' =>
      rw [he] at hr
      exact preserved_trans _ _ _ (fresh_op_preserves fs fs' c op hf he) (ih fs' hr)

/-- the walker, with no-clobber set, emits NO operation for an entry whose target exists — be it a file, a
directory, a special file, or a live or dangling symbolic link — but stops the walk (or the entry was
excluded by .gitignore) -/
theorem collision_emits_no_operation (fs : Fs) (c : Cfg) (hn : c.noClobber = true) (gi : Ignore) (src tb : RPath)
    (fuel : Nat) (rel : List Name) (anc : List (List Name)) (hx : fs.lexists (relJoin tb rel) = true) :
    walkEntry fs c gi src tb (fuel + 1) rel anc = [.fail] ∨ walkEntry fs c gi src tb (fuel + 1) rel anc = [] := by
  suffices hP : ∀ P : List Op → Prop, P [.fail] → P [] → P (walkEntry fs c gi src tb (fuel + 1) rel anc) from
    hP (fun l => l = [.fail] ∨ l = []) (.inl rfl) (.inr rfl)
  intro P h1 h2
  simp only [walkEntry, hn, hx, Bool.and_self, if_true]
  repeat' split
  all_goals first | exact h1 | exact h2

/-- a stopped walk makes the run end with a non-zero status -/
theorem fail_in_ops_exits_nonzero (fs : Fs) (c : Cfg) (ops : List Op) (h : Op.fail ∈ ops) :
    (execOps fs c ops).exit = .err := by
  induction ops generalizing fs with
  | nil => cases h
  | cons op r ih =>
    simp only [execOps]
    cases he : execOp fs c op with
    | none => rfl
    | some fs' =>
      cases h with
      | head => simp [execOp] at he
      | tail _ hm => exact ih fs' hm

/-- a failed operation changes nothing: `execOps` stops at the state before it -/
theorem failed_run_is_prefix (fs : Fs) (c : Cfg) (ops : List Op) :
    ∃ done, done <+: ops ∧ (execOps fs c ops).fs = (execOps fs c done).fs ∧ (execOps fs c done).exit = .ok := by
  induction ops generalizing fs with
  | nil => exact ⟨[], List.prefix_refl _, rfl, rfl⟩
  | cons op r ih =>
    cases he : execOp fs c op with
    | none => exact ⟨[], List.nil_prefix, by simp [execOps, he], rfl⟩
    | some fs' =>
      obtain ⟨done, hd, h1, h2⟩ := ih fs'
      exact ⟨op :: done, List.cons_prefix_cons.2 ⟨rfl, hd⟩, by simp [execOps, he, h1], by simp [execOps, he, h2]⟩

/-- Non-vacuity: a dangling link at the target is an existing entry (the defect repaired by the `fix:` commit
on the no-clobber probe: `exists()` followed the link and reported "absent"). -/
example :
    let root : Node := .dir [([68], .dir [([102], .link ⟨true, [.name [110], .name [111]], false⟩)])]
    let fs : Fs := ⟨root, []⟩
    fs.lexists ⟨true, [.name [68], .name [102]], false⟩ = true ∧ fs.exists ⟨true, [.name [68], .name [102]], false⟩ = false := by
  decide

/-- `FreshRun` DISCHARGED for one source tree: the operations the walker emits under no-clobber for any copyable tree
and an absent plain target are each executed when their target does not exist; hence the whole run (and every prefix)
alters no entry that existed before, anywhere -/
theorem one_source_walk_is_a_fresh_run (fs : Fs) (c : Cfg) (hd : c.dereference = false) (hn : c.noClobber = true)
    (src tb : RPath) (srcNode : Node) (fuel : Nat)
    (hwf : FsEq fs fs) (hroot : fs.root.isDir = true)
    (hsrc : PlainTarget fs src) (hsn : fs.root.getAt src.names = some srcNode)
    (hcop : srcNode.Copyable fuel)
    (htb : PlainTarget fs tb) (hne : tb.names ≠ []) (habs : fs.root.getAt tb.names = none)
    (hpar : ∃ es, fs.root.getAt tb.names.dropLast = some (.dir es))
    (hun1 : ¬ src.names <+: tb.names) (hun2 : ¬ tb.names <+: src.names)
    (hlen : src.names.length + fuel < 200 ∧ tb.names.length + fuel < 200) :
    FreshRun fs c (walkEntry fs c none src tb (fuel + 1) [] []) ∧
    Preserved fs.root (execOps fs c (walkEntry fs c none src tb (fuel + 1) [] [])).fs.root :=
  ⟨noclobber_walk_is_fresh_run fs c hd hn src tb srcNode fuel hwf hroot hsrc hsn hcop htb hne habs hpar hun1 hun2 hlen,
   noclobber_tree_preserves fs c hd hn src tb srcNode fuel hwf hroot hsrc hsn hcop htb hne habs hpar hun1 hun2 hlen⟩

/-- … and in EVERY reachable state of the concurrent model (any interleaving of the walker with the completions of queued
operations, any worker count, either driver): every entry that existed initially is kept, and whichever operation
completes next, or whichever directory the walker creates next, has a target that does not exist at that moment -/
theorem one_source_any_interleaving_preserves (fs : Fs) (c : Cfg) (hd : c.dereference = false) (hn : c.noClobber = true)
    (src tb : RPath) (srcNode : Node) (fuel : Nat)
    (hwf : FsEq fs fs) (hroot : fs.root.isDir = true)
    (hsrc : PlainTarget fs src) (hsn : fs.root.getAt src.names = some srcNode)
    (hcop : srcNode.Copyable fuel)
    (htb : PlainTarget fs tb) (hne : tb.names ≠ []) (habs : fs.root.getAt tb.names = none)
    (hpar : ∃ es, fs.root.getAt tb.names.dropLast = some (.dir es))
    (hun1 : ¬ src.names <+: tb.names) (hun2 : ¬ tb.names <+: src.names)
    (hlen : src.names.length + fuel < 200 ∧ tb.names.length + fuel < 200)
    (ls : List L0.Label) (s : L0.St)
    (hrun : L0.run c (L0.init fs (walkEntry fs c none src tb (fuel + 1) [] [])) ls = some s) :
    Preserved fs.root s.fs.root ∧
    (∀ op ∈ s.queue, ∀ t, opTarget op = some t → s.fs.lexists t = false) ∧
    (∀ op r, s.todo = op :: r → ∀ t, opTarget op = some t → s.fs.lexists t = false) :=
  noclobber_tree_any_interleaving fs c hd hn src tb srcNode fuel hwf hroot hsrc hsn hcop htb hne habs hpar hun1 hun2 hlen ls s hrun

/-- SEVERAL sources in one run, their operations interleaved (`xcp -n -r s1 … sn DEST/`, distinct base names, all targets
absent — an existing target makes the walker stop, `collision_emits_no_operation`): in EVERY reachable state of the
concurrent model every initial entry is kept, the operation that completes next and the directory the walker creates next
have targets that do not exist at that moment, and nothing has failed -/
theorem several_sources_any_interleaving_preserve (fs : Fs) (c : Cfg) (dest : RPath) (items : List CopySrc) (fuel : Nat)
    (hd : c.dereference = false) (hn : c.noClobber = true)
    (hwf : FsEq fs fs)
    (hdest : PlainTarget fs dest) (hdd : ∃ es, fs.root.getAt dest.names = some (.dir es))
    (hfuel : fuel < walkFuel)
    (hsrc : ∀ e ∈ items, PlainTarget fs e.path ∧ e.path.fileName = some e.base ∧
      fs.root.getAt e.path.names = some e.node ∧ e.node.Copyable fuel ∧ e.path.names.length + walkFuel < 256)
    (hnd : (items.map (·.base)).Nodup)
    (hun : ∀ e ∈ items, ∀ e' ∈ items,
      ¬ e.path.names <+: dest.names ++ [e'.base] ∧ ¬ dest.names ++ [e'.base] <+: e.path.names)
    (habs : ∀ e ∈ items, fs.root.getAt (dest.names ++ [e.base]) = none)
    (hlen : dest.names.length + 1 + walkFuel < 256)
    (ls : List L0.Label) (s : L0.St)
    (hrun : L0.run c (L0.init fs (multiOps fs c dest items)) ls = some s) :
    Preserved fs.root s.fs.root ∧
    (∀ op ∈ s.queue, ∀ t, opTarget op = some t → s.fs.lexists t = false) ∧
    (∀ op r, s.todo = op :: r → ∀ t, opTarget op = some t → s.fs.lexists t = false) ∧
    s.failed = false :=
  multi_noclobber_any_interleaving fs c dest items fuel hd hn hwf hdest hdd hfuel hsrc hnd hun habs hlen ls s hrun

/-- … and with `--gitignore` patterns in force as well: in every reachable state every initial entry is kept, and the
operation that completes next / the directory the walker creates next has a target that does not exist at that moment -/
theorem one_source_with_gitignore_any_interleaving_preserves (fs : Fs) (c : Cfg) (hd : c.dereference = false) (hn : c.noClobber = true)
    (ps : List Gi.Pattern)
    (src tb : RPath) (srcNode : Node) (fuel : Nat)
    (hwf : FsEq fs fs) (hroot : fs.root.isDir = true)
    (hsrc : PlainTarget fs src) (hsn : fs.root.getAt src.names = some srcNode)
    (hcop : srcNode.Copyable fuel)
    (htb : PlainTarget fs tb) (hne : tb.names ≠ []) (habs : fs.root.getAt tb.names = none)
    (hpar : ∃ es, fs.root.getAt tb.names.dropLast = some (.dir es))
    (hun1 : ¬ src.names <+: tb.names) (hun2 : ¬ tb.names <+: src.names)
    (hlen : src.names.length + fuel < 200 ∧ tb.names.length + fuel < 200)
    (ls : List L0.Label) (st : L0.St)
    (hrun : L0.run c (L0.init fs (walkEntry fs c (some ps) src tb (fuel + 1) [] [])) ls = some st) :
    Preserved fs.root st.fs.root ∧
    (∀ op ∈ st.queue, ∀ t, opTarget op = some t → st.fs.lexists t = false) ∧
    (∀ op r, st.todo = op :: r → ∀ t, opTarget op = some t → st.fs.lexists t = false) :=
  gitignore_noclobber_any_interleaving fs c hd hn ps src tb srcNode fuel hwf hroot hsrc hsn hcop htb hne habs hpar hun1 hun2 hlen ls st hrun

/-- SEVERAL sources, some of whose targets `DEST/basename` ALREADY EXIST (any kind: file, directory, special, live or
dangling link) — the case the property's second clause is about.  In EVERY reachable state of the concurrent model (the
walker stopping at the first collision while workers still complete operations of earlier sources) every initial entry is
kept and whatever completes or is created next has a target that does not exist at that moment … -/
theorem several_sources_with_collisions_preserve (fs : Fs) (c : Cfg) (dest : RPath) (items : List CopySrc) (fuel : Nat)
    (hd : c.dereference = false) (hn : c.noClobber = true)
    (hwf : FsEq fs fs)
    (hdest : PlainTarget fs dest) (hdd : ∃ es, fs.root.getAt dest.names = some (.dir es))
    (hfuel : fuel < walkFuel)
    (hsrc : ∀ e ∈ items, PlainTarget fs e.path ∧ e.path.fileName = some e.base ∧
      fs.root.getAt e.path.names = some e.node ∧ e.node.Copyable fuel ∧ e.path.names.length + walkFuel < 256)
    (hnd : (items.map (·.base)).Nodup)
    (hun : ∀ e ∈ items, ∀ e' ∈ items,
      ¬ e.path.names <+: dest.names ++ [e'.base] ∧ ¬ dest.names ++ [e'.base] <+: e.path.names)
    (hlen : dest.names.length + 1 + walkFuel < 256)
    (ls : List L0.Label) (s : L0.St)
    (hrun : L0.run c (L0.init fs (multiOps fs c dest items)) ls = some s) :
    Preserved fs.root s.fs.root ∧
    (∀ op ∈ s.queue, ∀ t, opTarget op = some t → s.fs.lexists t = false) ∧
    (∀ op r, s.todo = op :: r → ∀ t, opTarget op = some t → s.fs.lexists t = false) :=
  multi_collision_preserves fs c dest items fuel hd hn hwf hdest hdd hfuel hsrc hnd hun hlen ls s hrun

/-- … and THE RUN ENDS NON-ZERO: with at least one existing target, no run of the concurrent model completes without having
failed, and the sequential run exits non-zero (the model evaluates each source's probe in the initial state; earlier sources
write only below their own distinct targets, so this is the state the walker finds) -/
theorem a_collision_among_several_sources_exits_nonzero (fs : Fs) (c : Cfg) (dest : RPath) (items : List CopySrc) (fuel : Nat)
    (hd : c.dereference = false) (hn : c.noClobber = true)
    (hwf : FsEq fs fs)
    (hdest : PlainTarget fs dest) (hdd : ∃ es, fs.root.getAt dest.names = some (.dir es))
    (hfuel : fuel < walkFuel)
    (hsrc : ∀ e ∈ items, PlainTarget fs e.path ∧ e.path.fileName = some e.base ∧
      fs.root.getAt e.path.names = some e.node ∧ e.node.Copyable fuel ∧ e.path.names.length + walkFuel < 256)
    (hnd : (items.map (·.base)).Nodup)
    (hun : ∀ e ∈ items, ∀ e' ∈ items,
      ¬ e.path.names <+: dest.names ++ [e'.base] ∧ ¬ dest.names ++ [e'.base] <+: e.path.names)
    (hcol : ∃ e ∈ items, fs.root.getAt (dest.names ++ [e.base]) ≠ none)
    (hlen : dest.names.length + 1 + walkFuel < 256) :
    (∀ (ls : List L0.Label) (s : L0.St), L0.run c (L0.init fs (multiOps fs c dest items)) ls = some s →
      L0.final s = true → s.failed = true) ∧
    (execOps fs c (multiOps fs c dest items)).exit = .err :=
  multi_collision_fails fs c dest items fuel hd hn hwf hdest hdd hfuel hsrc hnd hun hcol hlen

/-- … and together with `--dereference`: the copies of what the links lead to are created like any other entry — on targets
that do not exist at that moment, keeping every initial entry, in every reachable state, and nothing fails -/
theorem one_source_with_dereference_any_interleaving_preserves (fs : Fs) (c : Cfg) (hd : c.dereference = true) (hn : c.noClobber = true)
    (src tb : RPath) (s : SNode) (fuel : Nat)
    (hwf : FsEq fs fs)
    (hsrc : AbsNames src)
    (hder : derefS fs (fuel + 1) src.names [] = some s)
    (htb : PlainTarget fs tb) (hne : tb.names ≠ []) (habs : fs.root.getAt tb.names = none)
    (hpar : ∃ es, fs.root.getAt tb.names.dropLast = some (.dir es))
    (hlen : tb.names.length + fuel < 255)
    (ls : List L0.Label) (st : L0.St)
    (hrun : L0.run c (L0.init fs (walkEntry fs c none src tb (fuel + 1) [] [])) ls = some st) :
    Preserved fs.root st.fs.root ∧
    (∀ op ∈ st.queue, ∀ t, opTarget op = some t → st.fs.lexists t = false) ∧
    (∀ op r, st.todo = op :: r → ∀ t, opTarget op = some t → st.fs.lexists t = false) ∧
    st.failed = false :=
  deref_noclobber_any_interleaving fs c hd hn src tb s fuel hwf hsrc hder htb hne habs hpar hlen ls st hrun

/-- THE WHOLE PROGRAM MODEL under `--no-clobber` (`L1run`: validation, then every source probed and walked in the state the
earlier ones left — the function the correspondence runs compare with the real program): whatever the exit (rejected by
validation, a collision, success) every entry that existed is kept, and if any target exists the exit is non-zero -/
theorem whole_invocation_keeps_what_exists_and_reports_a_collision (fs : Fs) (o : Opts) (texts : GiTexts) (dest : RPath)
    (items : List CopySrc) (fuel : Nat)
    (hd : o.cfg.dereference = false) (hn : o.cfg.noClobber = true) (hg : o.cfg.gitignore = false)
    (hnt : o.cfg.noTargetDir = false) (hglob : o.glob = false)
    (hpaths : (o.targetDir = none ∧ o.paths = items.map (·.path) ++ [dest]) ∨
      (o.targetDir = some dest ∧ o.paths = items.map (·.path)))
    (hwf : FsEq fs fs)
    (hdest : PlainTarget fs dest) (hdd : ∃ es, fs.root.getAt dest.names = some (.dir es))
    (hfuel : fuel < walkFuel)
    (hsrc : ∀ e ∈ items, PlainTarget fs e.path ∧ e.path.fileName = some e.base ∧
      fs.root.getAt e.path.names = some e.node ∧ e.node.Copyable fuel ∧ e.path.names.length + walkFuel < 256)
    (hnd : (items.map (·.base)).Nodup)
    (hun : ∀ e ∈ items, ∀ e' ∈ items,
      ¬ e.path.names <+: dest.names ++ [e'.base] ∧ ¬ dest.names ++ [e'.base] <+: e.path.names)
    (hlen : dest.names.length + 1 + walkFuel < 256) :
    Preserved fs.root (L1run fs o texts).fs.root ∧
    ((∃ e ∈ items, fs.root.getAt (dest.names ++ [e.base]) ≠ none) → (L1run fs o texts).exit = .err) :=
  whole_invocation_noclobber_preserves fs o texts dest items fuel hd hn hg hnt hglob hpaths hwf hdest hdd hfuel hsrc hnd hun hlen

end Xcp.C08