import XcpProps.C18
import XcpProps.C12
import XcpProps.C01
import XcpProps.C14
import XcpProofs.PoolFInv
/-! # C07 — xcp always terminates: no deadlock, no spin, with or without errors

Termination is proved component by component, each over EVERY label sequence (no fairness assumption is needed:
every schedule of enabled steps is finite because each step strictly decreases a natural-number measure):

* the dispatcher / bounded pool of parblock and the workers of parfile (`Xcp.Pool`, `Xcp.Parfile`): exact
  step count, and some label is enabled in every non-final state (no deadlock) — the bounded queue makes the
  dispatcher wait only while a pool thread is enabled;
* the walker / queue / copy / status stream with FAILURES of any thread at any point (`Xcp.Status`): measure
  decreases on every label including `walkerFail` and `fail i`; some label is enabled until the state is final;
  in a final state no thread is left that holds an updater clone, so the update channel closes;
* the copy loops under any legal kernel: no spin (`copy_file_offset`'s retry loop, `copy_bytes`, the user-space
  loops); a failing call ends the loop with an error instead;
* special files are recreated by a program that contains no `open`/`read` of the source (C14), so a FIFO or
  socket among the sources cannot block the run.

Named assumptions: `KernLive` (a copy request inside the file moves at least one byte) and no endless stream of
EINTR; block size ≥ 1.  Where the real code would spin if the kernel broke `KernLive` (a source truncated during
the copy) is outside the quantifier.  Wall-clock boundedness of real runs is MEASURED by the supervised runs
(time limit, every single fault, FIFOs/sockets, workers 1..64), not proved. -/
namespace Xcp.C07

open Xcp

/-- parblock: every schedule of the dispatcher and the pool is finite and cannot get stuck before the end -/
theorem parblock_terminates (files : List Nat) (cap workers : Nat) (fs : Bool) :
    (∀ ls s, Pool.run (Pool.init files cap workers fs) ls = some s → ls.length ≤ Pool.measure (Pool.init files cap workers fs)) ∧
    (∀ s, Pool.Reachable files cap workers fs s → 0 < workers → 0 < cap → Pool.final s = false → Pool.enabled s ≠ []) :=
  C18.parblock_every_schedule_terminates files cap workers fs

/-- parfile: likewise for the worker threads -/
theorem parfile_terminates (files : List Nat) (n : Nat) (fs : Bool) :
    (∀ ls s, Parfile.run (Parfile.init files n fs) ls = some s → ls.length ≤ Parfile.measure (Parfile.init files n fs)) ∧
    (∀ s, Parfile.Reachable files n fs s → 0 < n → Parfile.final s = false → Parfile.enabled s ≠ []) :=
  C18.parfile_every_schedule_terminates files n fs

/-- with failures of the walker or of any copy at any point: every step strictly decreases the measure … -/
theorem with_failures_every_step_decreases (s s' : Status.St) (l : Status.Label) (h : Status.step s l = some s') :
    C12.measure s' < C12.measure s :=
  C12.step_decreases s s' l h

/-- … so a run of `n` steps needs `n ≤ measure` … -/
theorem with_failures_runs_are_bounded (s s' : Status.St) (ls : List Status.Label) (h : Status.run s ls = some s') :
    C12.measure s' + ls.length ≤ C12.measure s := by
  induction ls generalizing s with
  | nil => simp [Status.run] at h; subst h; simp
  | cons l r ih =>
    simp only [Status.run] at h
    cases hs : Status.step s l with
    | none => simp [hs] at h
    | some s1 =>
      simp only [hs] at h
      have h1 := ih s1 h
      have h2 := C12.step_decreases s s1 l hs
      simp only [List.length_cons]
      omega

/-- … and until the state is final some thread can move: no deadlock, also after errors -/
theorem with_failures_no_deadlock (s : Status.St) (h : Status.final s = false) : ∃ l s', Status.step s l = some s' :=
  C12.some_step_enabled s h

/-- the channel closes: a final state has no walker, no queued operation and no active copy left — nobody
holds an updater clone any more -/
theorem final_state_has_no_senders (s : Status.St) (h : Status.final s = true) :
    s.walkerDone = true ∧ s.queue = [] ∧ s.active = [] := by
  simp [Status.final] at h
  exact ⟨h.1.1, h.1.2, h.2⟩

/-- the retry loop of one block never spins under a legal kernel -/
theorem block_job_never_spins (src : Bytes) (k : Kern) (hs : KernSafe k src.length) (hl : KernLive k src.length)
    (off bytes : Nat) : (blockJob k true off bytes).stop ≠ .spin :=
  C01.blockJob_terminates src k hs hl off bytes

/-- parfile's `copy_bytes` never spins under a legal kernel, for any block size ≥ 1 and either backend -/
theorem copy_bytes_never_spins (k : Kern) (len : Nat) (hs : KernSafe k len) (hl : KernLive k len) (linux : Bool)
    (b : Nat) (hb : 0 < b) (hne : ∀ a off req, k a .read off req ≠ .err .EINTR) (n : Nat) (hn : n ≤ len) :
    (copyBytes k linux b (n + 1) 0 0 n 0).stop ≠ .spin :=
  copyBytes_no_spin k len hs hl linux b hb hne (n + 1) 0 0 n 0 (Nat.zero_le _) (by omega) (by omega)

/-- where the code WOULD spin, stated openly: block size 0 (outside the quantifier; the CLI rejects it by a
division-by-zero panic, exit 1) makes `copy_bytes` request 0 bytes for ever -/
theorem block_size_zero_spins : (copyBytes (fun _ _ _ req => .moved req) true 0 5 0 0 3 0).stop = .spin := by decide

/-- special files: the operation that recreates a FIFO/socket/device consists of an existence probe, possibly an
unlink, and mknod — the source is never opened or read, so it cannot block -/
theorem special_never_opened (src : NodeSpec) (umask : Nat) (nc ex rm : Bool) :
    ∀ c ∈ (specialProgram src umask nc ex rm).1, c = .probeDest ∨ c = .unlink ∨ ∃ n, c = .mknod n := by
  intro c hc
  unfold specialProgram at hc
  cases hk : classifyKind src.kind <;> simp [hk] at hc
  cases ex <;> cases nc <;> cases rm <;> simp at hc <;> (first | (rcases hc with h | h | h <;> simp [h]) | (rcases hc with h | h <;> simp [h]) | simp [hc])

/-- parblock WITH failures (`Xcp.PoolF`: a block job may fail at any moment; the dispatcher may stop with an error at
any moment without joining the pool): every schedule is still finite, and until everything is done some thread can move -/
theorem parblock_with_failures_terminates (files : List Nat) (cap workers : Nat) (fs : Bool) :
    (∀ ls s, PoolF.run (PoolF.init files cap workers fs) ls = some s →
        ls.length ≤ PoolF.measure (PoolF.init files cap workers fs)) ∧
    (∀ s, PoolF.Reachable files cap workers fs s → 0 < workers → 0 < cap → PoolF.final s = false → PoolF.enabled s ≠ []) := by
  refine ⟨fun ls s h => ?_, fun s hr hw hc hf => ?_⟩
  · have := PoolF.run_measure _ _ ls h; omega
  · have inv := PoolF.cinv_reachable hr
    exact PoolF.no_deadlock s (by rw [inv.workers_eq]; exact hw) (by rw [inv.cap_eq]; exact hc) hf

/-- … and failures leak nothing: when all threads are done every handle that was opened has been closed -/
theorem parblock_with_failures_closes_everything (files : List Nat) (cap workers : Nat) (fs : Bool) (s : PoolF.St)
    (h : PoolF.Reachable files cap workers fs s) (hf : PoolF.final s = true) :
    ∀ hd, hd < s.next → PoolF.Event.closed hd ∈ s.log :=
  PoolF.final_all_closed files cap workers fs s h hf

/-- non-vacuity: a schedule in which the second block of a two-block file fails and the dispatcher aborts with a second
file still unopened; the run is complete, the handle closed, the failure logged -/
example : (PoolF.run (PoolF.init [2, 1] 1 1 true)
    [.openNext, .push, .take, .push, .abort, .stepJob 0, .stepJob 0, .stepJob 0, .take, .failJob 0, .stepJob 0]).map
      (fun s => (PoolF.final s, s.log.contains (.closed 0), s.log.contains (.failed 0 1), s.next)) = some (true, true, true, 1) := by decide

end Xcp.C07