import XcpModel.Status
import XcpProofs.StatusInv
/-! # C12 — progress updates are truthful, never exceed 100 %, and the stream ends

Model slice: `Xcp.Status` (who appends what to the update stream, in every interleaving, with failures) and
`channelSend`/`channelRun` (the batching of `ChannelUpdater`).  Appends are atomic (crossbeam's channel is
linearizable: trusted).  That the stream ENDS is termination (C07: every schedule is finite and reaches a
final state in which no thread holds an updater clone).  -/
namespace Xcp.C12

open Xcp Xcp.Status

/-- conservation: announced = reported + still queued + still to move, as long as nothing failed;
with failures it is an inequality (abandoned bytes are never reported) -/
theorem accounting (files : List Nat) (s : St) (h : Reachable files s) :
    sumCopied s.log + s.queue.sum + s.active.sum ≤ sumSize s.log ∧
    (s.failed = false → sumCopied s.log + s.queue.sum + s.active.sum = sumSize s.log) ∧
    sumSize s.log + s.todo.sum ≤ files.sum ∧ (s.failed = false → sumSize s.log + s.todo.sum = files.sum) := by
  have inv := inv_reachable h
  exact ⟨inv.acc_le, inv.acc_eq, inv.tot_le, inv.tot_eq⟩

/-- at no point has more been reported copied than has been announced — for every reachable state, hence for
every prefix of every stream, under every interleaving of walker and workers, with or without failures -/
theorem never_more_than_announced (files : List Nat) (s : St) (h : Reachable files s) :
    sumCopied s.log ≤ sumSize s.log := by
  have inv := inv_reachable h
  have := inv.acc_le
  omega

/-- nor more than was actually transferred -/
theorem never_more_than_transferred (files : List Nat) (s : St) (h : Reachable files s) :
    sumCopied s.log = s.moved := by
  exact (inv_reachable h).moved_eq

/-- every prefix of a reachable stream is itself fine (the executable monitor used on real streams) -/
theorem monitor_sound (files : List Nat) (s : St) (h : Reachable files s) : prefixOk s.log = true := by
  exact (prefixOk_iff _).mpr (inv_reachable h).fine

/-- a run that ends without failure announced exactly the total length of the regular files and reported
all of it -/
theorem complete_run_totals (files : List Nat) (s : St) (h : Reachable files s) (hf : final s = true)
    (hok : s.failed = false) : sumSize s.log = files.sum ∧ sumCopied s.log = files.sum := by
  have inv := inv_reachable h
  simp only [final, Bool.and_eq_true, List.isEmpty_iff] at hf
  obtain ⟨⟨hw, hq⟩, ha⟩ := hf
  have h1 := inv.acc_eq hok
  have h2 := inv.tot_eq hok
  have h3 := inv.done hw
  simp only [hq, ha, h3, List.sum_nil] at h1 h2
  omega

/-- whenever the stream ends with less reported than the files' total, an error update is in it -/
theorem incomplete_implies_error (files : List Nat) (s : St) (h : Reachable files s) (hf : final s = true)
    (hi : sumCopied s.log < files.sum) : hasError s.log = true := by
  cases hfl : s.failed with
  | true => exact (inv_reachable h).err hfl
  | false =>
    have := (complete_run_totals files s h hf hfl).2
    omega

/-- `ChannelUpdater` batching under-reports, never over-reports; sizes and errors pass through unchanged -/
theorem batching_under_reports (b : Nat) (sent : Nat) (us : List Update) :
    sumCopied (channelRun b sent us) ≤ sumCopied us ∧ sumSize (channelRun b sent us) = sumSize us ∧
    hasError (channelRun b sent us) = hasError us := by
  exact channelRun_sums b us sent

/-- … hence what the client of the provided updater sees still never exceeds what was announced, prefix by
prefix: dropping `Copied` updates from a fine stream keeps it fine -/
theorem batched_stream_fine (b : Nat) (us : List Update) (h : prefixOk us = true) :
    prefixOk (channelRun b 0 us) = true := by
  exact (prefixOk_iff _).mpr (channelRun_prefixFine b 0 ((prefixOk_iff _).mp h))

/-- every execution is finite: a step consumes one unit of `todo + 2·queue + active bytes + …` -/
def measure (s : St) : Nat :=
  (if s.walkerDone then 0 else 1) + (s.todo.map fun l => l + 3).sum + (s.queue.map fun l => l + 2).sum + (s.active.map fun r => r + 1).sum

theorem step_decreases (s s' : St) (l : Label) (h : step s l = some s') : measure s' < measure s := by
  cases l with
  | announce =>
    obtain ⟨hw, ⟨len, r, ht, rfl⟩ | ⟨ht, rfl⟩⟩ := step_announce h
    · simp [measure, ht, List.sum_append]; omega
    · simp [measure, hw]
  | walkerFail =>
    obtain ⟨hw, rfl⟩ := step_walkerFail h
    simp [measure, hw]; omega
  | take =>
    obtain ⟨len, q, hq, rfl⟩ := step_take h
    simp [measure, hq, List.sum_append]; omega
  | copy i k =>
    obtain ⟨rem, hr, hk0, hk, rfl⟩ := step_copy h
    have := sum_map_set (fun r : Nat => r + 1) (rem - k) rem s.active i hr
    simp only [measure]; omega
  | finish i =>
    obtain ⟨hr, rfl⟩ := step_finish h
    have := sum_map_eraseIdx (fun r : Nat => r + 1) 0 s.active i hr
    simp only [measure]; omega
  | fail i =>
    obtain ⟨rem, hr, rfl⟩ := step_fail h
    have := sum_map_eraseIdx (fun r : Nat => r + 1) rem s.active i hr
    simp only [measure]; omega

/-- no deadlock: in every non-final state some label is enabled -/
theorem some_step_enabled (s : St) (h : final s = false) : ∃ l s', step s l = some s' := by
  cases hw : s.walkerDone with
  | false =>
    refine ⟨.announce, ?_⟩
    cases ht : s.todo <;> simp [step, ht, hw]
  | true =>
    cases hq : s.queue with
    | cons len q => exact ⟨.take, by simp [step, hq]⟩
    | nil =>
      cases ha : s.active with
      | nil => simp [final, hw, hq, ha] at h
      | cons r a =>
        cases r with
        | zero => exact ⟨.finish 0, by simp [step, ha]⟩
        | succ r => exact ⟨.copy 0 1, by simp [step, ha]⟩

/-- non-vacuity: two files, interleaved workers, everything reported -/
example : (run (init [3, 2]) [.announce, .take, .copy 0 2, .announce, .take, .copy 1 2, .copy 0 1, .finish 0, .finish 0, .announce]).map
    (fun s => (s.log, final s)) =
    some ([.size 3, .copied 2, .size 2, .copied 2, .copied 1], true) := by decide

end Xcp.C12
