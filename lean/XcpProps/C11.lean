import XcpProofs.Loops
import XcpProofs.Extents
import XcpProofs.Compose
import XcpProofs.Sparse
/-! # C11 — holes stay holes: sparse files are copied without materialising them

What a theorem can say: the model tracks which byte ranges of the destination are WRITTEN.  Both drivers
write only inside the data ranges reported for the source — SEEK_DATA/SEEK_HOLE segments (parfile) or
merged FIEMAP extents (parblock; merging adds at most the one-byte gaps of C19) — whatever the block size,
and `create`+`ftruncate` forgets a previous, fully allocated destination.  Hence the number of written
bytes is bounded by the reported data, independently of the size of the holes.  That unwritten ranges of a
truncated file occupy no storage is the file system's contract (ext4), measured on every run.
Labelled partial for that reason.  -/
namespace Xcp.C11

open Xcp

/-- parfile: every byte written by `copy_sparse` lies inside a data segment found by the segment search. -/
theorem parfile_writes_within_segments (k : Kern) (s : SeekOracle) (src : Bytes) (hs : KernSafe k src.length)
    (hl : SeekLegal s src) (b fuel a n : Nat) (h : (copySparse k s b src.length fuel a 0).stop = .ok n) :
    ∀ i, covered (jobsOf (copySparse k s b src.length fuel a 0).evs) i →
      ∃ seg ∈ segmentsOf s src.length (src.length + 1) 0, seg.1 ≤ i ∧ i < seg.2 := by
  exact copySparse_within_segments k s src hs hl b fuel a 0 n (src.length + 1) (by omega) h

/-- parblock: every block queued for a sparse file lies inside a merged extent … -/
theorem parblock_blocks_within_merged_extents (len b : Nat) (hb : 0 < b) (es : List Extent) :
    ∀ j ∈ parblockJobs len b true (some es), ∀ i, j.1 ≤ i → i < j.1 + j.2 → covers (mergeExtents es) i := by
  exact parblockJobs_within_merged len b hb es

/-- … hence inside an original extent, or on the single byte between two extents merged as adjacent. -/
theorem parblock_writes_within_extents (len b : Nat) (hb : 0 < b) (es : List Extent) (hw : WF es) :
    ∀ j ∈ parblockJobs len b true (some es), ∀ i, j.1 ≤ i → i < j.1 + j.2 →
      covers es i ∨ ∃ x ∈ es, ∃ y ∈ es, y.start = x.stop + 1 ∧ i = x.stop := by
  intro j hj i h1 h2
  have hc := parblockJobs_within_merged len b hb es j hj i h1 h2
  have := mergeGo_sound none es (by simpa [pl] using hw) i hc
  simpa [pl] using this

/-- what a block job actually writes stays inside its block (short counts and retries included) -/
theorem blockJob_writes_within_block (k : Kern) (len : Nat) (hs : KernSafe k len) (hl : KernLive k len)
    (off bytes n : Nat) (ho : off ≤ len) (h : (blockJob k true off bytes).stop = .ok n) :
    ∀ i, covered (jobsOf (blockJob k true off bytes).evs) i → off ≤ i ∧ i < off + bytes := by
  intro i hc
  have := ((blockJob_linux_ok k len hs hl off bytes n ho h).2 i).mp hc
  omega

/-- Overwriting an existing, fully allocated destination: after create+ftruncate nothing is written. -/
theorem overwrite_starts_unwritten (old : Option Bytes) (n : Nat) :
    createAllocate old n = createAllocate none n := rfl

/-- an entirely empty (all-hole) file: the segment search finds no data, nothing is written, the copy succeeds -/
theorem all_hole_writes_nothing (k : Kern) (len b : Nat) (a : Nat) :
    (copySparse k ⟨fun _ => none, fun _ => none⟩ b len (len + 1) a 0).evs = [] ∧
    (copySparse k ⟨fun _ => none, fun _ => none⟩ b len (len + 1) a 0).stop = .ok len := by
  rw [copySparse_allHole]
  exact ⟨rfl, rfl⟩

/-- parblock, an entirely empty (all-hole) file — FIEMAP reports no extent: no block is queued, whatever the
length and block size, so nothing is ever written to the destination. -/
theorem parblock_all_hole_queues_nothing (len b : Nat) : parblockJobs len b true (some []) = [] := by
  simp [parblockJobs, parblockRanges, mergeExtents, mergeGo]

end Xcp.C11
