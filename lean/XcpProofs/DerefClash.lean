import XcpProofs.Clash
import XcpProofs.ClashConc
import XcpProofs.DerefOverlay
import XcpProofs.DerefClashLemmas
/-! # `--dereference`, a destination that CLASHES with the tree seen through the links: the run exits non-zero

`overlay_deref` decides the destinations that are `Compatible` with the tree seen through the links (`s.erase`).  This
file decides the rest, for destinations made of directories and regular files (`Node.plainTree`), as `Clash`/`ClashConc`
do without `-L`: when such a destination is not compatible with `s.erase` the sequential run does not end with exit
status ok (`deref_clash_fails`), and no run of the concurrent model can be complete without having failed
(`deref_clash_fails_every_interleaving`).  Together with `overlay_deref`: exit 0 implies that the destination is the
overlay with `s.erase`, no compatibility assumed (`deref_ok_implies_overlaid`).  The side condition `ReadsAway s tb.names`
of `overlay_deref` (no operation reads from a place at/below the target or above it) is kept.  (`s.erase` holds no
symbolic link, so the clash is always a directory meeting a regular file, or a regular or special file meeting a
directory.) -/
namespace Xcp

open L0

theorem deref_clash_fails (fs : Fs) (c : Cfg) (hd : c.dereference = true) (hn : c.noClobber = false)
    (src tb : RPath) (s : SNode) (dstNode : Node) (fuel : Nat)
    (hwf : FsEq fs fs)
    (hsrc : AbsNames src)
    (hder : derefS fs (fuel + 1) src.names [] = some s)
    (htb : PlainTarget fs tb) (hne : tb.names ≠ [])
    (hdst : fs.root.getAt tb.names = some dstNode) (hplain : dstNode.plainTree = true)
    (hclash : ¬ Compatible (some dstNode) s.erase)
    (hpar : ∃ es, fs.root.getAt tb.names.dropLast = some (.dir es))
    (hout : ReadsAway s tb.names)
    (hlen : tb.names.length + fuel < 255) :
    (execOps fs c (walkEntry fs c none src tb (fuel + 1) [] [])).exit = .err := by
  have htbE := plainTarget_eq fs tb htb
  obtain ⟨pes, hpes⟩ := hpar
  have hroot : fs.root.isLink = false := root_not_link_of_dir hpes
  have hshape := walk_shape_deref fs c hd hn hroot src.names tb.names (fuel + 1) [] [] s (by simpa using hder)
  rw [← htbE, ← absNames_eq hsrc] at hshape
  simp only [List.append_nil] at hshape
  obtain ⟨hcop, hsrcin⟩ := derefS_good fs hroot hwf.2.1 (fuel + 1) src.names [] s hder
  have hexec := exec_clashS c hn (fuel + 1) s hcop fs tb.names dstNode [] hsrcin hout hdst hne
    (by
      intro q es hq
      apply hwf.2.1 (tb.names ++ q) es
      rw [Node.getAt_append, hdst]
      exact hq)
    (fun q y hq => plainTree_getAt q dstNode y hplain hq)
    hclash (by omega)
  rw [List.append_nil] at hexec
  rw [hshape]
  exact hexec

/-- with `-L`, for every destination of directories and regular files, no compatibility assumed: exit status ok
IMPLIES that the final file system is the initial one with the overlay of the tree seen through the links at the
target -/
theorem deref_ok_implies_overlaid (fs : Fs) (c : Cfg) (hd : c.dereference = true) (hn : c.noClobber = false)
    (src tb : RPath) (s : SNode) (fuel : Nat)
    (hwf : FsEq fs fs)
    (hsrc : AbsNames src)
    (hder : derefS fs (fuel + 1) src.names [] = some s)
    (htb : PlainTarget fs tb) (hne : tb.names ≠ [])
    (hplain : ∀ d, fs.root.getAt tb.names = some d → d.plainTree = true)
    (hpar : ∃ es, fs.root.getAt tb.names.dropLast = some (.dir es))
    (hout : ReadsAway s tb.names)
    (hlen : tb.names.length + fuel < 255)
    (fs' : Fs) (hok : execOps fs c (walkEntry fs c none src tb (fuel + 1) [] []) = ⟨.ok, fs'⟩) :
    FsEq fs' { fs with root := fs.root.setAt tb.names (Node.overlay (fs.root.getAt tb.names) s.erase) } := by
  rcases Decidable.em (Compatible (fs.root.getAt tb.names) s.erase) with hcompat | hclash
  · obtain ⟨fs'', hrun, heq⟩ := overlay_deref fs c hd hn src tb s fuel hwf hsrc hder htb hne hcompat hpar hout hlen
    rw [hok] at hrun
    injection hrun with _ hfs
    rw [hfs]
    exact heq
  · cases hdst : fs.root.getAt tb.names with
    | none => rw [hdst] at hclash; exact absurd (compatible_none _) hclash
    | some dstNode =>
      rw [hdst] at hclash
      have hf := deref_clash_fails fs c hd hn src tb s dstNode fuel hwf hsrc hder htb hne hdst
        (hplain dstNode hdst) hclash hpar hout hlen
      rw [hok] at hf
      cases hf

/-- … and under every interleaving: no run of the concurrent model over the walk's operations can be complete
without having failed -/
theorem deref_clash_fails_every_interleaving (fs : Fs) (c : Cfg) (hd : c.dereference = true)
    (hn : c.noClobber = false)
    (src tb : RPath) (s : SNode) (dstNode : Node) (fuel : Nat)
    (hwf : FsEq fs fs)
    (hsrc : AbsNames src)
    (hder : derefS fs (fuel + 1) src.names [] = some s)
    (htb : PlainTarget fs tb) (hne : tb.names ≠ [])
    (hdst : fs.root.getAt tb.names = some dstNode) (hplain : dstNode.plainTree = true)
    (hclash : ¬ Compatible (some dstNode) s.erase)
    (hpar : ∃ es, fs.root.getAt tb.names.dropLast = some (.dir es))
    (hout : ReadsAway s tb.names)
    (hlen : tb.names.length + fuel < 255)
    (ls : List Label) (st : St)
    (hrun : run c (init fs (walkEntry fs c none src tb (fuel + 1) [] [])) ls = some st)
    (hfin : final st = true) : st.failed = true := by
  have htbE := plainTarget_eq fs tb htb
  obtain ⟨pes, hpes⟩ := hpar
  have hroot : fs.root.isLink = false := root_not_link_of_dir hpes
  have hshape := walk_shape_deref fs c hd hn hroot src.names tb.names (fuel + 1) [] [] s (by simpa using hder)
  rw [← htbE, ← absNames_eq hsrc] at hshape
  simp only [List.append_nil] at hshape
  rw [hshape] at hrun
  obtain ⟨hcop, hsrcin⟩ := derefS_good fs hroot hwf.2.1 (fuel + 1) src.names [] s hder
  have hspec : DSpec fs s.erase tb.names (fuel + 1) (opsOfS s tb.names) := by
    refine ⟨?_, opsOfS_tgt_nodup _ s hcop _, hne, by omega⟩
    intro x hx
    obtain ⟨rel, m, cp, hg, hl, ex, hlf⟩ := mem_opsOfS (fuel + 1) s hcop tb.names x hx
    refine ⟨rel, m, cp, hg, hl, ex, ?_⟩
    intro hm
    have hmem := hlf hm
    obtain ⟨h1, _, h3⟩ := hsrcin _ hmem
    obtain ⟨u1, u2⟩ := hout _ hmem
    exact ⟨h1, h3, u2, u1⟩
  have hwd : dstNode.WF := by
    intro q es hq
    apply hwf.2.1 (tb.names ++ q) es
    rw [Node.getAt_append, hdst]
    exact hq
  have hpl : PlainBelow dstNode := fun q y hq => plainTree_getAt q dstNode y hplain hq
  obtain ⟨rel0, m0, y, hl0, hg0, hy, hdc⟩ := clash_position (fuel + 1) s.erase hcop dstNode hwd hpl hclash
  obtain ⟨cp0, hbad⟩ := opsOfS_has_op hspec hg0
  have hinit : CInv (opsOfS s tb.names) (headOp m0 cp0 (tb.names ++ rel0)) (tb.names ++ rel0) y.obs
      (init fs (opsOfS s tb.names)) := by
    refine ⟨hwf, plains_initD hspec dstNode hdst htb.2.2.2 hpl, ?_, ?_, .inr ?_⟩
    · show obsAt fs.root (tb.names ++ rel0) = some y.obs
      simp [obsAt, Node.getAt_append, hdst, hy]
    · intro x hx
      simpa [init] using hx
    · show headOp m0 cp0 (tb.names ++ rel0) ∈ [] ++ opsOfS s tb.names
      rw [List.nil_append]
      exact hbad
  exact (CInv.run_of c (fun g g' x hx hwf' hpl' hk he =>
    clash_execD hspec c hg0 hl0 hbad hdc g g' x hx hwf' hpl' hk he) ls _ st hinit hrun).failed_of_final hfin

end Xcp
