import XcpProofs.GiTree
import XcpProofs.Overlay
import XcpProofs.OverlayConc
import XcpProofs.GiOverlayLemmas
/-! # `--gitignore` onto an EXISTING, compatible destination: sequentially and under every interleaving

The `--gitignore` counterparts of `mirror_overlay` (Overlay) and `overlay_concurrent_ok` (OverlayConc): the hypotheses
of `mirror_fresh_gitignore`, but the target may EXIST, provided what is there is `Compatible` with the PRUNED source
tree `Node.prune ps [] srcNode`.  The run leaves the destination OVERLAID with the pruned tree.  (With
`noClobber = false` the shape of the walk does not depend on the destination at all: `walk_shape_gi` with its first
alternative.)  In particular what the destination held under a name the pruned source does not list — a name the
source does not have, or has but the patterns exclude — is observed unchanged
(`gitignore_overlay_keeps_excluded_names`): `--gitignore` does not remove from the destination what it refuses to
copy. -/
namespace Xcp

open L0

/-- OVERLAY with `--gitignore`, sequential -/
theorem gitignore_overlay (fs : Fs) (c : Cfg) (hd : c.dereference = false) (hn : c.noClobber = false)
    (ps : List Gi.Pattern)
    (src tb : RPath) (srcNode : Node) (fuel : Nat)
    (hwf : FsEq fs fs) (hroot : fs.root.isDir = true)
    (hsrc : PlainTarget fs src) (hsn : fs.root.getAt src.names = some srcNode)
    (hcop : srcNode.Copyable fuel)
    (htb : PlainTarget fs tb) (hne : tb.names ≠ [])
    (hcompat : Compatible (fs.root.getAt tb.names) (Node.prune ps [] srcNode))
    (hpar : ∃ es, fs.root.getAt tb.names.dropLast = some (.dir es))
    (hun1 : ¬ src.names <+: tb.names) (hun2 : ¬ tb.names <+: src.names)
    (hlen : src.names.length + fuel < 200 ∧ tb.names.length + fuel < 200) :
    ∃ fs', execOps fs c (walkEntry fs c (some ps) src tb (fuel + 1) [] []) = ⟨.ok, fs'⟩ ∧
      FsEq fs' { fs with
        root := fs.root.setAt tb.names (Node.overlay (fs.root.getAt tb.names) (Node.prune ps [] srcNode)) } := by
  have _ := hroot
  have hsrcE := plainTarget_eq fs src hsrc
  have htbE := plainTarget_eq fs tb htb
  have hnl : srcNode.isLink = false := by
    cases srcNode with
    | link t => exact absurd hsn (hsrc.2.2.2 src.names (List.prefix_refl _) t)
    | _ => rfl
  have hparD : ParentDir fs.root tb.names := hpar
  obtain ⟨pes, hpes⟩ := hpar
  rcases List.eq_nil_or_concat tb.names with h0 | ⟨par, nm, h0⟩
  · exact absurd h0 hne
  simp only [List.concat_eq_append] at h0
  rw [h0, List.dropLast_concat] at hpes
  have hlt : par.length + 1 + fuel < 256 := by
    have := hlen.2
    rw [h0] at this
    simp only [List.length_append, List.length_cons, List.length_nil] at this
    omega
  -- the shape of the walk
  have hshape := walk_shape_gi fs c ps hd src.names tb.names (.inl hn) fuel srcNode hcop [] []
    (by simpa using hsn) (fun h => by rw [hnl] at h; cases h) (by simp only [List.length_nil]; omega) (.inl rfl)
  rw [← hsrcE, ← htbE] at hshape
  simp only [List.append_nil] at hshape
  -- its execution: the copy operations of the pruned tree find their sources in the unpruned one
  have hexec := exec_overlay_sub c hn fuel _ (copyable_prune ps fuel srcNode hcop [])
    fs src.names par nm pes []
    (by
      intro rel x hx hxd
      rw [Node.getAt_append, hsn]
      exact getAt_prune_leaf ps rel fuel srcNode [] x hcop hx hxd)
    hpes (hwf.2.1 par pes hpes)
    (by
      intro x hx q es hq
      apply hwf.2.1 (par ++ [nm] ++ q) es
      rw [Node.getAt_append, hx]
      exact hq)
    (by rw [← h0]; exact hcompat) (by rw [← h0]; exact hun1) (by rw [← h0]; exact hun2) (by omega) hlt
  rw [List.append_nil, ← h0] at hexec
  have hrun : execOps fs c (walkEntry fs c (some ps) src tb (fuel + 1) [] []) =
      ⟨.ok, { fs with root := placeAt fs.root tb.names (fs.root.getAt tb.names) (Node.prune ps [] srcNode) }⟩ := by
    rw [hshape, hexec]
    rfl
  have hwf' := execOps_wf c _ fs _ hwf hrun
  refine ⟨_, hrun, ?_⟩
  have hsw : srcNode.WF := by
    intro q es hq
    apply hwf.2.1 (src.names ++ q) es
    rw [Node.getAt_append, hsn]
    exact hq
  cases hsp : (Node.prune ps [] srcNode).isSpecial with
  | false =>
    have e : placeAt fs.root tb.names (fs.root.getAt tb.names) (Node.prune ps [] srcNode) =
        fs.root.setAt tb.names (Node.overlay (fs.root.getAt tb.names) (Node.prune ps [] srcNode)) := by
      simp [placeAt, hsp]
    rw [e] at hwf' ⊢
    exact hwf'
  | true =>
    have hv : (Node.prune ps [] srcNode).isDir = false := by
      cases hse : Node.prune ps [] srcNode <;> rw [hse] at hsp <;> simp [Node.isSpecial] at hsp
      rfl
    have e : placeAt fs.root tb.names (fs.root.getAt tb.names) (Node.prune ps [] srcNode) =
        (fs.root.delAt tb.names).setAt tb.names (Node.prune ps [] srcNode) := by
      simp [placeAt, hsp]
    rw [e] at hwf' ⊢
    rw [overlay_of_special _ _ hsp]
    exact ⟨rfl, hwf'.2.1, setAt_WF _ (WF_nondir _ hv) _ _ hwf.2.1,
      sameObs_reset_set fs.root tb.names _ hne hparD hv⟩

/-- OVERLAY with `--gitignore`, EVERY interleaving: no reachable state of the concurrent model is failed, and every
complete run ends with the destination overlaid with the pruned source tree -/
theorem gitignore_overlay_concurrent_ok (fs : Fs) (c : Cfg) (hd : c.dereference = false) (hn : c.noClobber = false)
    (ps : List Gi.Pattern)
    (src tb : RPath) (srcNode : Node) (fuel : Nat)
    (hwf : FsEq fs fs) (hroot : fs.root.isDir = true)
    (hsrc : PlainTarget fs src) (hsn : fs.root.getAt src.names = some srcNode)
    (hcop : srcNode.Copyable fuel)
    (htb : PlainTarget fs tb) (hne : tb.names ≠ [])
    (hcompat : Compatible (fs.root.getAt tb.names) (Node.prune ps [] srcNode))
    (hpar : ∃ es, fs.root.getAt tb.names.dropLast = some (.dir es))
    (hun1 : ¬ src.names <+: tb.names) (hun2 : ¬ tb.names <+: src.names)
    (hlen : src.names.length + fuel < 200 ∧ tb.names.length + fuel < 200)
    (ls : List Label) (st : St)
    (hrun : run c (init fs (walkEntry fs c (some ps) src tb (fuel + 1) [] [])) ls = some st) :
    st.failed = false ∧
    (final st = true → FsEq st.fs { fs with
      root := fs.root.setAt tb.names (Node.overlay (fs.root.getAt tb.names) (Node.prune ps [] srcNode)) }) := by
  obtain ⟨fs', hex, heq⟩ := gitignore_overlay fs c hd hn ps src tb srcNode fuel hwf hroot hsrc hsn hcop htb hne
    hcompat hpar hun1 hun2 hlen
  obtain ⟨hshape, hspec, hnd, H0, hinit⟩ := gi_overlay_setup fs c hd hn ps src tb srcNode fuel hwf hsrc hsn hcop htb
    hne hcompat hpar hun1 hun2 hlen
  rw [hshape] at hrun hex
  have hok : st.failed = false := (OInvD.run hspec H0 c hn ls _ st hinit hrun).ok
  refine ⟨hok, fun hfin => ?_⟩
  have hand : ∀ (ls : List Label) (s' : St) (op : Op) (r : List Op),
      run c (init fs (opsOf (Node.prune ps [] srcNode) src.names tb.names)) ls = some s' →
      s'.failed = false → s'.todo = op :: r → isSync op = false →
      GoodAllD (opsOf (Node.prune ps [] srcNode) src.names tb.names) s'.fs op := by
    intro ls s' op r hr _ htd _
    exact (OInvD.run hspec H0 c hn ls _ s' hinit hr).goodAll hspec H0 op r htd
  obtain ⟨f, hf, hfe⟩ := fs_run_refines_sequentialD c fs _ hwf hnd hspec.pairIndep hand ls st hrun hfin hok
  rw [execOps_seqExec c _ fs fs' hex] at hf
  injection hf with hf
  subst hf
  exact hfe.symm.trans heq

/-- `mirror_fresh_gitignore` is the case of an absent target -/
theorem mirror_fresh_gitignore_of_overlay (fs : Fs) (c : Cfg) (hd : c.dereference = false)
    (hn : c.noClobber = false) (ps : List Gi.Pattern)
    (src tb : RPath) (srcNode : Node) (fuel : Nat)
    (hwf : FsEq fs fs) (hroot : fs.root.isDir = true)
    (hsrc : PlainTarget fs src) (hsn : fs.root.getAt src.names = some srcNode)
    (hcop : srcNode.Copyable fuel)
    (htb : PlainTarget fs tb) (hne : tb.names ≠ []) (habs : fs.root.getAt tb.names = none)
    (hpar : ∃ es, fs.root.getAt tb.names.dropLast = some (.dir es))
    (hun1 : ¬ src.names <+: tb.names) (hun2 : ¬ tb.names <+: src.names)
    (hlen : src.names.length + fuel < 200 ∧ tb.names.length + fuel < 200) :
    ∃ fs', execOps fs c (walkEntry fs c (some ps) src tb (fuel + 1) [] []) = ⟨.ok, fs'⟩ ∧
      FsEq fs' { fs with root := fs.root.setAt tb.names (Node.prune ps [] srcNode) } := by
  have h := gitignore_overlay fs c hd hn ps src tb srcNode fuel hwf hroot hsrc hsn hcop htb hne
    (by rw [habs]; exact compatible_none _) hpar hun1 hun2 hlen
  rw [habs, overlay_none] at h
  exact h

/-- a directory copied with `--gitignore` onto an existing directory: whatever the destination held below a name `m`
that the PRUNED source directory does not list is observed unchanged — in particular below a name the source HAS but
the patterns exclude (second clause): `--gitignore` neither copies such an entry nor touches what the destination has
under its name -/
theorem gitignore_overlay_keeps_excluded_names (fs : Fs) (c : Cfg) (hd : c.dereference = false)
    (hn : c.noClobber = false) (ps : List Gi.Pattern)
    (src tb : RPath) (des ses : Entries) (fuel : Nat)
    (hwf : FsEq fs fs) (hroot : fs.root.isDir = true)
    (hsrc : PlainTarget fs src) (hsn : fs.root.getAt src.names = some (.dir ses))
    (hcop : (Node.dir ses).Copyable fuel)
    (htb : PlainTarget fs tb) (hne : tb.names ≠ [])
    (hdst : fs.root.getAt tb.names = some (.dir des))
    (hcompat : Compatible (some (.dir des)) (Node.prune ps [] (.dir ses)))
    (hpar : ∃ es, fs.root.getAt tb.names.dropLast = some (.dir es))
    (hun1 : ¬ src.names <+: tb.names) (hun2 : ¬ tb.names <+: src.names)
    (hlen : src.names.length + fuel < 200 ∧ tb.names.length + fuel < 200) :
    ∃ fs', execOps fs c (walkEntry fs c (some ps) src tb (fuel + 1) [] []) = ⟨.ok, fs'⟩ ∧
      (∀ m q, m ∉ (pruneL ps [] ses).map (·.1) →
        obsAt fs'.root (tb.names ++ m :: q) = obsAt fs.root (tb.names ++ m :: q)) ∧
      (∀ m ch q, (m, ch) ∈ ses → Gi.keeps ps [m] ch.isDir = false →
        obsAt fs'.root (tb.names ++ m :: q) = obsAt fs.root (tb.names ++ m :: q)) := by
  obtain ⟨fs', hrun, heq⟩ := gitignore_overlay fs c hd hn ps src tb (.dir ses) fuel hwf hroot hsrc hsn hcop htb hne
    (by rw [hdst]; exact hcompat) hpar hun1 hun2 hlen
  have key : ∀ m q, m ∉ (pruneL ps [] ses).map (·.1) →
      obsAt fs'.root (tb.names ++ m :: q) = obsAt fs.root (tb.names ++ m :: q) := by
    intro m q hm
    rw [heq.2.2.2 (tb.names ++ m :: q), hdst]
    simp only [obsAt, Node.prune]
    rw [overlay_keeps_entry fs.root tb.names des (pruneL ps [] ses) m q hdst hm]
  refine ⟨fs', hrun, key, ?_⟩
  intro m ch q hmem hx
  obtain ⟨_, _, hnd, _⟩ := copyable_dir hcop
  exact key m q (excluded_not_in_pruneL ps [] ses hnd m ch hmem (by simpa using hx))

end Xcp
