import XcpProofs.ClashLemmas
import XcpProofs.ClashConcLemmas
import XcpProofs.GiOverlayLemmas
/-! # Lemmas for `GiClash`: a destination that clashes with the PRUNED source tree

`exec_clash_sub`: `exec_clash` (ClashLemmas) for the operations `opsOf n sn tn` of a tree `n` that need not be the tree
at `sn` — it is enough that every non-directory node of `n` is found in the state at the same relative path below
`sn` (so for `n` the pruned version of the tree at `sn`), as `exec_overlay_sub` generalises `exec_overlay`.  (The
failing operation itself never looks at its source; the sources matter for the compatible siblings that run before
it.)  `plains_init_sub`: the initial `Plains` facts for such a list. -/
namespace Xcp

open L0

theorem exec_clash_sub (c : Cfg) (hn : c.noClobber = false) :
    ∀ (d : Nat) (n : Node), n.Copyable d →
      ∀ (g : Fs) (sn tn : List Name) (x : Node) (rest : List Op),
      (∀ rel y, n.getAt rel = some y → y.isDir = false → g.root.getAt (sn ++ rel) = some y) →
      g.root.getAt tn = some x → tn ≠ [] → x.WF → PlainBelow x →
      ¬ Compatible (some x) n →
      ¬ sn <+: tn → ¬ tn <+: sn → sn.length + d < 256 → tn.length + d < 256 →
      (execOps g c (opsOf n sn tn ++ rest)).exit = .err := by
  intro d
  induction d with
  | zero =>
    intro n hcop g sn tn x rest _ ht _ _ hpl hc _ _ _ hl2
    have hnd : n.isDir = false := by
      cases n <;> simp [Node.Copyable] at hcop <;> rfl
    exact exec_clash_leaf c n hnd g sn tn x rest ht hpl hc (by omega)
  | succ d ih =>
    intro n hcop g sn tn x rest hsrc ht htne hw hpl hc h1 h2 hl1 hl2
    cases hnd : n.isDir with
    | false => exact exec_clash_leaf c n hnd g sn tn x rest ht hpl hc (by omega)
    | true =>
      cases n <;> simp [Node.isDir] at hnd
      rename_i es
      obtain ⟨d', hd', hndp, hch⟩ := copyable_dir hcop
      have hd'' : d' = d := by omega
      subst hd''
      rcases hpl.cases with ⟨k', rfl⟩ | ⟨des, rfl⟩
      · simp only [opsOf, List.cons_append]
        exact execOps_cons_none _ _ _ _ (execOp_mkdir_onto_file g c tn k' ht htne (by omega))
      · have hcl : compatibleL des es = false := by
          cases hh : compatibleL des es with
          | false => rfl
          | true => exact absurd (by simpa [Compatible, Node.compatible] using hh) hc
        have hwx := hw
        rw [WF_dir] at hwx
        simp only [opsOf, List.cons_append]
        rw [execOps_cons_some _ _ _ _ _ (execOp_mkdir_over g c tn des ht (by omega))]
        have hassoc : ∀ a b : List Op, (a ++ b) ++ rest = a ++ (b ++ rest) :=
          fun a b => List.append_assoc a b rest
        have key : ∀ (post acc : Entries), (acc.map (·.1)).Nodup → (post.map (·.1)).Nodup →
            (∀ e ∈ post, e ∈ es) → (∀ e ∈ post, entGet acc e.1 = entGet des e.1) →
            compatibleL des post = false →
            (execOps { g with root := g.root.setAt tn (.dir acc) } c (opsOfL post sn tn ++ rest)).exit = .err := by
          intro post
          induction post with
          | nil => intro acc _ _ _ _ hf; simp [compatibleL] at hf
          | cons e post' ihp =>
            intro acc hna hnp hsub hag hf
            obtain ⟨m, ch⟩ := e
            have hmem : (m, ch) ∈ es := hsub _ List.mem_cons_self
            obtain ⟨_, _, u3, u4⟩ := unrel_child h1 h2 m
            simp only [List.map_cons, List.nodup_cons] at hnp
            have hs' : ∀ rel y, ch.getAt rel = some y → y.isDir = false →
                (g.root.setAt tn (.dir acc)).getAt (sn ++ [m] ++ rel) = some y := by
              intro rel y hy hyd
              obtain ⟨v1, v2⟩ := unrel_ext h1 h2 ([m] ++ rel)
              rw [List.append_assoc, getAt_setAt_unrelated _ _ _ _ v1 v2]
              apply hsrc (m :: rel) y _ hyd
              rw [getAt_dir_cons, entGet_of_mem es hndp (m, ch) hmem]
              exact hy
            have hp' : (g.root.setAt tn (.dir acc)).getAt tn = some (.dir acc) :=
              getAt_setAt_exists _ _ _ _ ht
            have hda : (g.root.setAt tn (.dir acc)).getAt (tn ++ [m]) = entGet acc m :=
              getAt_child _ _ m _ hp'
            have hag0 : entGet acc m = entGet des m := hag (m, ch) List.mem_cons_self
            have hls : (sn ++ [m]).length + d' < 256 := by
              simp only [List.length_append, List.length_cons, List.length_nil]; omega
            have hlt : (tn ++ [m]).length + d' < 256 := by
              simp only [List.length_append, List.length_cons, List.length_nil]; omega
            rw [opsOfL, hassoc]
            by_cases hcm : Compatible (entGet des m) ch
            · have step := exec_overlay_sub c hn d' ch (hch _ hmem) { g with root := g.root.setAt tn (.dir acc) }
                (sn ++ [m]) tn m acc (opsOfL post' sn tn ++ rest) hs' hp' hna
                (by intro y hy; rw [hda, hag0] at hy; exact hwx.2 m y hy)
                (by rw [hda, hag0]; exact hcm)
                u3 u4 hls (by omega)
              rw [step]
              show (execOps { g with root := (placeAt (g.root.setAt tn (.dir acc)) (tn ++ [m])
                ((g.root.setAt tn (.dir acc)).getAt (tn ++ [m])) ch) } c (opsOfL post' sn tn ++ rest)).exit = _
              rw [placeAt_child _ tn m acc _ ch hp', setAt_setAt_same]
              apply ihp
              · exact nodup_keys_entPut _ _ _ hna
              · exact hnp.2
              · exact fun e he => hsub e (List.mem_cons_of_mem _ he)
              · intro e he
                have hne : m ≠ e.1 := by
                  intro h
                  apply hnp.1
                  rw [h]
                  exact List.mem_map.2 ⟨e, he, rfl⟩
                rw [entGet_entPut_ne _ _ _ _ hne]
                exact hag e (List.mem_cons_of_mem _ he)
              · rw [compatibleL_cons] at hf
                have hcm' : Node.compatible (entGet des m) ch = true := hcm
                rw [hcm'] at hf
                simpa using hf
            · cases hy : entGet des m with
              | none => rw [hy] at hcm; exact absurd (compatible_none ch) hcm
              | some y =>
                rw [hy] at hcm
                exact ih ch (hch _ hmem) { g with root := g.root.setAt tn (.dir acc) }
                  (sn ++ [m]) (tn ++ [m]) y (opsOfL post' sn tn ++ rest) hs'
                  (by rw [hda, hag0, hy]) (by simp) (hwx.2 m y hy) (hpl.child hy) hcm u3 u4 hls hlt
        have h0 : execOps g c (opsOfL es sn tn ++ rest) =
            execOps { g with root := g.root.setAt tn (.dir des) } c (opsOfL es sn tn ++ rest) := by
          rw [setAt_same _ _ _ ht]
        rw [h0]
        exact key es des hwx.1 hndp (fun _ h => h) (fun _ _ => rfl) hcl

/-- `plains_init` for the operations of a tree whose non-directory nodes are found below `S` -/
theorem plains_init_sub {P : Node} {S T : List Name} {d : Nat} {ops : List Op} (h : OpsSpec P S T d ops)
    (g : Fs) (x0 : Node)
    (hS : ∀ rel m, P.getAt rel = some m → m.isDir = false → g.root.getAt (S ++ rel) = some m)
    (hT : g.root.getAt T = some x0) (hlT : NoLinkUpto g.root T) (hpl : PlainBelow x0) :
    ∀ x ∈ ops, Plains g x := by
  intro x hx
  obtain ⟨rel, m, hg, hl, ex⟩ := h.char x hx
  have hup : NoLinkUpto g.root (T ++ rel) := by
    intro p hp tg hgl
    by_cases hT' : T <+: p
    · obtain ⟨q, hq⟩ := hT'
      subst hq
      rw [Node.getAt_append, hT] at hgl
      have := (hpl q _ hgl).1
      cases this
    · have hpT : p <+: T := by
        rcases List.prefix_or_prefix_of_prefix hp (List.prefix_append T rel) with h1 | h1
        · exact h1
        · exact absurd h1 hT'
      exact hlT p hpT tg hgl
  refine ⟨?_, ?_⟩
  · intro t ht
    rw [ex, headOp_target] at ht
    have := Option.some.inj ht
    subst this
    rw [plainPath_names]
    exact ⟨hup.above, fun _ => hup⟩
  · intro sp hs
    rw [ex] at hs
    obtain ⟨e, hmd, hml⟩ := headOp_srcOf _ _ _ _ hs
    subst e
    rw [plainPath_names]
    exact noLinkUpto_of_getAt (hS rel m hg hmd) hml

end Xcp
