import XcpProofs.Overlay
import XcpProofs.ClashLemmas
/-! # A destination that CLASHES with the source: the run exits non-zero

`mirror_overlay` decides the destinations that are `Compatible` with the source.  This file decides the rest, for
destinations made of directories and regular files only (`Node.plainTree`): when such a destination is not compatible with
the source — somewhere a directory of the source meets a regular file, a regular or special file meets a directory, or a
symbolic link of the source meets anything at all — the sequential run does not end with exit status ok.  Together: for
EVERY destination made of directories and regular files, exit 0 implies that the destination is the overlay (C02's
statement with no hypothesis about compatibility). -/
namespace Xcp

mutual
/-- only directories and regular files, at every depth -/
def Node.plainTree : Node → Bool
  | .file _ => true
  | .dir es => plainTreeL es
  | _ => false
def plainTreeL : List (Name × Node) → Bool
  | [] => true
  | (_, ch) :: r => Node.plainTree ch && plainTreeL r
end

theorem plainTreeL_entGet : ∀ (es : List (Name × Node)) (m : Name) (y : Node),
    plainTreeL es = true → entGet es m = some y → y.plainTree = true := by
  intro es
  induction es with
  | nil => intro m y _ h; simp [entGet] at h
  | cons kv r ih =>
    intro m y hp h
    obtain ⟨k, w⟩ := kv
    simp only [plainTreeL, Bool.and_eq_true] at hp
    by_cases hk : k = m
    · simp only [entGet, hk, if_true, Option.some.injEq] at h
      rw [← h]; exact hp.1
    · simp only [entGet, hk, if_false] at h
      exact ih m y hp.2 h

/-- `plainTree`, path-wise: no symbolic link and no special file at or below the node -/
theorem plainTree_getAt : ∀ (q : List Name) (x y : Node), x.plainTree = true → x.getAt q = some y →
    y.isLink = false ∧ y.isSpecial = false := by
  intro q
  induction q with
  | nil =>
    intro x y hp h
    simp only [getAt_nil, Option.some.injEq] at h
    subst h
    cases x <;> simp [Node.plainTree] at hp <;> simp [Node.isLink, Node.isSpecial]
  | cons m q' ih =>
    intro x y hp h
    obtain ⟨es, ch, hx, hc, hy⟩ := Node.getAt_cons_some h
    subst hx
    simp only [Node.plainTree] at hp
    exact ih ch y (plainTreeL_entGet es m ch hp hc) hy

/-- a destination of directories and regular files that is not compatible with the source makes the run fail -/
theorem clash_fails (fs : Fs) (c : Cfg) (hd : c.dereference = false) (hn : c.noClobber = false)
    (src tb : RPath) (srcNode dstNode : Node) (fuel : Nat)
    (hwf : FsEq fs fs) (hroot : fs.root.isDir = true)
    (hsrc : PlainTarget fs src) (hsn : fs.root.getAt src.names = some srcNode)
    (hcop : srcNode.Copyable fuel)
    (htb : PlainTarget fs tb) (hne : tb.names ≠ [])
    (hdst : fs.root.getAt tb.names = some dstNode) (hplain : dstNode.plainTree = true)
    (hclash : ¬ Compatible (some dstNode) srcNode)
    (hpar : ∃ es, fs.root.getAt tb.names.dropLast = some (.dir es))
    (hun1 : ¬ src.names <+: tb.names) (hun2 : ¬ tb.names <+: src.names)
    (hlen : src.names.length + fuel < 200 ∧ tb.names.length + fuel < 200) :
    (execOps fs c (walkEntry fs c none src tb (fuel + 1) [] [])).exit = .err := by
  have _ := hroot   -- implied by `hpar`/`hsn`; kept in the statement for the callers
  have _ := hpar    -- implied by `hdst` and `hne`
  have hsrcE := plainTarget_eq fs src hsrc
  have htbE := plainTarget_eq fs tb htb
  have hnl : srcNode.isLink = false := by
    cases srcNode with
    | link t => exact absurd hsn (hsrc.2.2.2 src.names (List.prefix_refl _) t)
    | _ => rfl
  -- the shape of the walk
  have hshape : walkEntry fs c none (plainPath src.names) (plainPath tb.names) (fuel + 1) [] [] =
      opsOf srcNode (src.names ++ []) (tb.names ++ []) := by
    have h1 : fs.root.getAt (src.names ++ []) = some srcNode := by simpa using hsn
    have h2 : srcNode.isLink = true → ([] : List Name) ≠ [] := fun h => by rw [hnl] at h; cases h
    have h3 : src.names.length + ([] : List Name).length + fuel < 256 := by
      simp only [List.length_nil]; omega
    exact walk_shape fs c hd src.names tb.names (.inl hn) fuel srcNode hcop [] [] h1 h2 h3
  rw [← hsrcE, ← htbE] at hshape
  simp only [List.append_nil] at hshape
  -- some operation of it fails
  have hexec := exec_clash c hn fuel srcNode hcop fs src.names tb.names dstNode [] hsn hdst hne
    (by
      intro q es hq
      apply hwf.2.1 (tb.names ++ q) es
      rw [Node.getAt_append, hdst]
      exact hq)
    (fun q y hq => plainTree_getAt q dstNode y hplain hq)
    hclash hun1 hun2 (by omega) (by omega)
  rw [List.append_nil] at hexec
  rw [hshape]
  exact hexec

/-- C02 for every destination of directories and regular files, no compatibility assumed: exit status ok IMPLIES that
the final file system is the initial one with the overlay at the target -/
theorem ok_implies_overlaid (fs : Fs) (c : Cfg) (hd : c.dereference = false) (hn : c.noClobber = false)
    (src tb : RPath) (srcNode : Node) (fuel : Nat)
    (hwf : FsEq fs fs) (hroot : fs.root.isDir = true)
    (hsrc : PlainTarget fs src) (hsn : fs.root.getAt src.names = some srcNode)
    (hcop : srcNode.Copyable fuel)
    (htb : PlainTarget fs tb) (hne : tb.names ≠ [])
    (hplain : ∀ d, fs.root.getAt tb.names = some d → d.plainTree = true)
    (hpar : ∃ es, fs.root.getAt tb.names.dropLast = some (.dir es))
    (hun1 : ¬ src.names <+: tb.names) (hun2 : ¬ tb.names <+: src.names)
    (hlen : src.names.length + fuel < 200 ∧ tb.names.length + fuel < 200)
    (fs' : Fs) (hok : execOps fs c (walkEntry fs c none src tb (fuel + 1) [] []) = ⟨.ok, fs'⟩) :
    FsEq fs' { fs with root := fs.root.setAt tb.names (Node.overlay (fs.root.getAt tb.names) srcNode) } := by
  rcases Decidable.em (Compatible (fs.root.getAt tb.names) srcNode) with hcompat | hclash
  · obtain ⟨fs'', hrun, heq⟩ := mirror_overlay fs c hd hn src tb srcNode fuel hwf hroot hsrc hsn hcop htb hne
      hcompat hpar hun1 hun2 hlen
    rw [hok] at hrun
    injection hrun with _ hfs
    rw [hfs]
    exact heq
  · cases hdst : fs.root.getAt tb.names with
    | none => rw [hdst] at hclash; exact absurd (compatible_none srcNode) hclash
    | some dstNode =>
      rw [hdst] at hclash
      have hf := clash_fails fs c hd hn src tb srcNode dstNode fuel hwf hroot hsrc hsn hcop htb hne hdst
        (hplain dstNode hdst) hclash hpar hun1 hun2 hlen
      rw [hok] at hf
      cases hf

end Xcp
