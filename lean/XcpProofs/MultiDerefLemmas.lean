import XcpProofs.DerefOverlayLemmas
import XcpProofs.MultiConcLemmas
/-! # Several sources with `--dereference` into one existing directory: lemmas

The `-L` counterpart of `MultiConcLemmas`, with per item the tree seen through the links (`SNode`) in place of the
source node.  The operation list is the concatenation `allOpsD` of the per-item lists `opsOfS`; the places the
operations read from are the canonical places of the leaves of the items' trees, assumed out of the way of EVERY
item's target (`ReadsAway e.s (dn ++ [e'.base])` for all `e`, `e'`).

Sequential part: `execAllD_overlay_inv`, the fold of `exec_overlayS` over the items.  Concurrent part: the static
facts `MSpecD`, the family invariant `MOInvD` (the family version of `OInvD`: whatever is unrelated to every target
is as in the initial state, so every leaf is still at its canonical place), `GoodAllD` at every hand-over. -/
namespace Xcp

open L0

/-- one source of a `-L` run: the path as spelled, its base name, and the tree seen from it through all links -/
structure DerefSrc where
  path : RPath
  base : Name
  s : SNode

/-- the item of the plain (no `-L`) development that has the same result: the tree seen through the links -/
def DerefSrc.toCopy (e : DerefSrc) : CopySrc := ⟨e.path, e.base, e.s.erase⟩

/-- the operations of all sources, in argv order -/
def allOpsD (dn : List Name) (items : List DerefSrc) : List Op :=
  items.flatMap fun e => opsOfS e.s (dn ++ [e.base])

theorem allOpsD_nil (dn : List Name) : allOpsD dn [] = [] := rfl

theorem allOpsD_cons (dn : List Name) (e : DerefSrc) (r : List DerefSrc) :
    allOpsD dn (e :: r) = opsOfS e.s (dn ++ [e.base]) ++ allOpsD dn r := by
  simp [allOpsD]

theorem mem_allOpsD {dn : List Name} {items : List DerefSrc} {x : Op} :
    x ∈ allOpsD dn items ↔ ∃ e ∈ items, x ∈ opsOfS e.s (dn ++ [e.base]) :=
  List.mem_flatMap

theorem base_injD : ∀ {items : List DerefSrc}, (items.map (·.base)).Nodup → ∀ {e e' : DerefSrc}, e ∈ items →
    e' ∈ items → e.base = e'.base → e = e' := by
  intro items
  induction items with
  | nil => intro _ e e' he; cases he
  | cons a r ih =>
    intro hnd e e' he he' hb
    simp only [List.map_cons, List.nodup_cons] at hnd
    cases he with
    | head =>
      cases he' with
      | head => rfl
      | tail _ hm' =>
        exfalso; apply hnd.1
        rw [hb]; exact List.mem_map.2 ⟨e', hm', rfl⟩
    | tail _ hm =>
      cases he' with
      | head =>
        exfalso; apply hnd.1
        rw [← hb]; exact List.mem_map.2 ⟨e, hm, rfl⟩
      | tail _ hm' => exact ih hnd.2 hm hm' hb

/-! ## The sequential execution of the concatenation -/

/-- the operations of all remaining items, run in order from a state `g` in which every leaf of every remaining tree
is at its canonical place, `dn` is a directory, and the remaining targets are as in the initial tree `root0` -/
theorem execAllD_overlay_inv (c : Cfg) (hn : c.noClobber = false)
    (root0 : Node) (hw0 : root0.WF) (dn : List Name) (d : Nat) (hdl : dn.length + 1 + d < 256) :
    ∀ (items : List DerefSrc) (g : Fs), FsEq g g →
      (∃ es, g.root.getAt dn = some (.dir es)) →
      (items.map (·.base)).Nodup →
      (∀ e ∈ items, SrcIn g.root e.s ∧ e.s.erase.Copyable d) →
      (∀ e ∈ items, ∀ e' ∈ items, ReadsAway e.s (dn ++ [e'.base])) →
      (∀ e ∈ items, g.root.getAt (dn ++ [e.base]) = root0.getAt (dn ++ [e.base])) →
      (∀ e ∈ items, Compatible (root0.getAt (dn ++ [e.base])) e.s.erase) →
      ∃ fs', execOps g c (allOpsD dn items) = ⟨.ok, fs'⟩ ∧
        FsEq fs' { g with root := overlayAll root0 dn (items.map DerefSrc.toCopy) g.root } := by
  intro items
  induction items with
  | nil =>
    intro g hwf _ _ _ _ _ _
    exact ⟨g, rfl, hwf⟩
  | cons e rest ih =>
    intro g hwf hdd hnd hsrc haway hag hcomp
    obtain ⟨es, hes⟩ := hdd
    obtain ⟨hsn, hcop⟩ := hsrc e List.mem_cons_self
    have hage := hag e List.mem_cons_self
    simp only [List.map_cons, List.nodup_cons] at hnd
    -- the first item
    have hexec : ∀ rest' : List Op,
        execOps g c (opsOfS e.s (dn ++ [e.base]) ++ rest') =
          execOps { g with root := placeAt g.root (dn ++ [e.base]) (g.root.getAt (dn ++ [e.base])) e.s.erase } c
            rest' :=
      fun rest' => exec_overlayS c hn d e.s hcop g dn e.base es rest' hsn
        (haway e List.mem_cons_self e List.mem_cons_self) hes (hwf.2.1 dn es hes)
        (fun x hx => subtree_WF hwf.2.1 hx) (by rw [hage]; exact hcomp e List.mem_cons_self) hdl
    have hrun : execOps g c (opsOfS e.s (dn ++ [e.base])) =
        ⟨.ok, { g with root := placeAt g.root (dn ++ [e.base]) (g.root.getAt (dn ++ [e.base])) e.s.erase }⟩ := by
      have := hexec []
      rw [List.append_nil] at this
      rw [this]
      rfl
    have hwf1 := execOps_wf c _ g _ hwf hrun
    obtain ⟨es1, hes1⟩ := placeAt_parent g.root dn e.base es (g.root.getAt (dn ++ [e.base])) e.s.erase hes
    -- the remaining items, from the state it leaves
    obtain ⟨fs', hr', heq'⟩ := ih _ hwf1 ⟨es1, hes1⟩ hnd.2
      (by
        intro e' he'
        obtain ⟨a1, a2⟩ := hsrc e' (List.mem_cons_of_mem _ he')
        refine ⟨?_, a2⟩
        intro l hl
        obtain ⟨b1, b2, b3⟩ := a1 l hl
        obtain ⟨u1, u2⟩ := haway e' (List.mem_cons_of_mem _ he') e List.mem_cons_self l hl
        refine ⟨?_, b2, b3⟩
        show (placeAt g.root (dn ++ [e.base]) (g.root.getAt (dn ++ [e.base])) e.s.erase).getAt l.1 = _
        rw [placeAt_getAt_unrelated _ _ _ _ _ u1 u2]
        exact b1)
      (fun a ha b hb => haway a (List.mem_cons_of_mem _ ha) b (List.mem_cons_of_mem _ hb))
      (by
        intro e' he'
        have hne : e.base ≠ e'.base := by
          intro h
          apply hnd.1
          rw [h]
          exact List.mem_map.2 ⟨e', he', rfl⟩
        show (placeAt g.root (dn ++ [e.base]) (g.root.getAt (dn ++ [e.base])) e.s.erase).getAt (dn ++ [e'.base]) = _
        rw [placeAt_getAt_unrelated _ _ _ _ _ (sibling_unrel dn hne) (sibling_unrel dn (Ne.symm hne))]
        exact hag e' (List.mem_cons_of_mem _ he'))
      (fun a ha => hcomp a (List.mem_cons_of_mem _ ha))
    refine ⟨fs', by rw [allOpsD_cons, hexec]; exact hr', ?_⟩
    -- the state it leaves is the overlay up to the order of entries
    have hsame : SameObs (placeAt g.root (dn ++ [e.base]) (g.root.getAt (dn ++ [e.base])) e.s.erase)
        (g.root.setAt (dn ++ [e.base]) (Node.overlay (root0.getAt (dn ++ [e.base])) e.s.erase)) := by
      rw [← hage]
      exact sameObs_placeAt g.root dn e.base es hes _ e.s.erase
    refine FsEq.trans heq' ⟨rfl, heq'.2.2.1, ?_, overlayAll_sameObs root0 dn (rest.map DerefSrc.toCopy) _ _ hsame⟩
    apply overlayAll_WF root0 dn ((e :: rest).map DerefSrc.toCopy) g.root hwf.2.1
    intro e' he'
    obtain ⟨a, ha, rfl⟩ := List.mem_map.1 he'
    obtain ⟨_, a5⟩ := hsrc a ha
    exact overlay_WF d a.s.erase a5 (copyable_WF d _ a5) _ (fun x hx => subtree_WF hw0 hx)

/-! ## Static facts -/

/-- `fs0` is the initial state, `d` the depth bound.  An operation that reads, reads from a place that in `fs0` holds
the very node, is at most 256 names deep, and is neither at/below nor above ANY item's target -/
structure MSpecD (fs0 : Fs) (items : List DerefSrc) (dn : List Name) (d : Nat) : Prop where
  char : ∀ x ∈ allOpsD dn items, ∃ e ∈ items, ∃ rel m cp, e.s.erase.getAt rel = some m ∧ rel.length ≤ d ∧
    x = headOp m cp (dn ++ [e.base] ++ rel) ∧
    (m.isDir = false → fs0.root.getAt cp = some m ∧ cp.length ≤ 256 ∧
      ∀ e' ∈ items, ¬ cp <+: dn ++ [e'.base] ∧ ¬ dn ++ [e'.base] <+: cp)
  spec : ∀ e ∈ items, DSpec fs0 e.s.erase (dn ++ [e.base]) d (opsOfS e.s (dn ++ [e.base]))
  cop : ∀ e ∈ items, e.s.erase.Copyable d
  nd : (items.map (·.base)).Nodup

theorem MSpecD.tail {fs0 : Fs} {e : DerefSrc} {r : List DerefSrc} {dn : List Name} {d : Nat}
    (h : MSpecD fs0 (e :: r) dn d) : MSpecD fs0 r dn d where
  char := by
    intro x hx
    obtain ⟨e', he', hxe⟩ := mem_allOpsD.1 hx
    obtain ⟨a, ha, rel, m, cp, h1, h2, h3, h4⟩ := h.char x (mem_allOpsD.2 ⟨e', List.mem_cons_of_mem _ he', hxe⟩)
    -- the item is determined by the target
    obtain ⟨rel', m', cp', _, _, ex', _⟩ := (h.spec e' (List.mem_cons_of_mem _ he')).char x hxe
    have ht : opTarget x = some (plainPath (dn ++ [a.base] ++ rel)) := by rw [h3, headOp_target]
    rw [ex', headOp_target] at ht
    have heq := plainPath_inj (Option.some.inj ht)
    rw [List.append_assoc, List.append_assoc] at heq
    have hb := List.append_cancel_left heq
    simp only [List.cons_append, List.nil_append, List.cons.injEq] at hb
    have hae : a = e' := (base_injD h.nd (List.mem_cons_of_mem _ he') ha hb.1).symm
    subst hae
    exact ⟨a, he', rel, m, cp, h1, h2, h3, fun hm =>
      ⟨(h4 hm).1, (h4 hm).2.1, fun b hb' => (h4 hm).2.2 b (List.mem_cons_of_mem _ hb')⟩⟩
  spec := fun a ha => h.spec a (List.mem_cons_of_mem _ ha)
  cop := fun a ha => h.cop a (List.mem_cons_of_mem _ ha)
  nd := by
    have := h.nd
    simp only [List.map_cons, List.nodup_cons] at this
    exact this.2

/-- a target determines its item and its position in the item's tree -/
theorem MSpecD.tgt_eq_inv {fs0 : Fs} {items : List DerefSrc} {dn : List Name} {d : Nat} (h : MSpecD fs0 items dn d)
    {e e' : DerefSrc} (he : e ∈ items) (he' : e' ∈ items) {rel rel' : List Name}
    (heq : dn ++ [e'.base] ++ rel' = dn ++ [e.base] ++ rel) : e' = e ∧ rel' = rel := by
  rw [List.append_assoc, List.append_assoc] at heq
  have := List.append_cancel_left heq
  simp only [List.cons_append, List.nil_append, List.cons.injEq] at this
  exact ⟨base_injD h.nd he' he this.1, this.2⟩

/-- the targets of the concatenation are pairwise distinct -/
theorem MSpecD.tnd : ∀ {items : List DerefSrc} {fs0 : Fs} {dn : List Name} {d : Nat}, MSpecD fs0 items dn d →
    ((allOpsD dn items).map opTarget).Nodup := by
  intro items
  induction items with
  | nil => intro fs0 dn d _; simp [allOpsD_nil]
  | cons e r ih =>
    intro fs0 dn d h
    rw [allOpsD_cons, List.map_append, List.nodup_append]
    refine ⟨(h.spec e List.mem_cons_self).tnd, ih h.tail, ?_⟩
    intro a ha b hb hab
    subst hab
    obtain ⟨x, hx, hxa⟩ := List.mem_map.1 ha
    obtain ⟨y, hy, hya⟩ := List.mem_map.1 hb
    obtain ⟨rel, m, cp, _, _, ex, _⟩ := (h.spec e List.mem_cons_self).char x hx
    obtain ⟨e', he', hye⟩ := mem_allOpsD.1 hy
    obtain ⟨rel', m', cp', _, _, ey, _⟩ := (h.spec e' (List.mem_cons_of_mem _ he')).char y hye
    rw [ex, headOp_target] at hxa
    rw [ey, headOp_target, ← hxa] at hya
    have heq := plainPath_inj (Option.some.inj hya)
    obtain ⟨h1, _⟩ := h.tgt_eq_inv List.mem_cons_self (List.mem_cons_of_mem _ he') heq
    subst h1
    have := h.nd
    simp only [List.map_cons, List.nodup_cons] at this
    exact this.1 (List.mem_map.2 ⟨e', he', rfl⟩)

theorem MSpecD.nodup {fs0 : Fs} {items : List DerefSrc} {dn : List Name} {d : Nat} (h : MSpecD fs0 items dn d) :
    (allOpsD dn items).Nodup :=
  nodup_of_nodup_map opTarget h.tnd

/-- distinct operations have distinct targets -/
theorem MSpecD.tgt_ne {fs0 : Fs} {items : List DerefSrc} {dn : List Name} {d : Nat} (h : MSpecD fs0 items dn d)
    {x y : Op} (hx : x ∈ allOpsD dn items) (hy : y ∈ allOpsD dn items) (hxy : x ≠ y)
    {t0 : List Name} (htx : opTarget x = some (plainPath t0)) {t : RPath} (ht : opTarget y = some t) :
    t.names ≠ t0 := by
  obtain ⟨e', _, ry, my, cy, _, _, ey, _⟩ := h.char y hy
  have ht' := ht
  rw [ey, headOp_target] at ht'
  have := Option.some.inj ht'
  subst this
  rw [plainPath_names]
  intro heq
  apply hxy
  apply eq_of_tgt_nodup h.tnd hx hy
  rw [ht, htx, heq]

theorem MSpecD.pairIndep {fs0 : Fs} {items : List DerefSrc} {dn : List Name} {d : Nat} (h : MSpecD fs0 items dn d) :
    PairIndep (allOpsD dn items) := by
  intro x hx y hy hxy hsx
  obtain ⟨e, he, rx, mx, cx, _, _, ex, hlx⟩ := h.char x hx
  obtain ⟨e', he', ry, my, cy, _, _, ey, hly⟩ := h.char y hy
  by_cases hb : e.base = e'.base
  · have := base_injD h.nd he he' hb
    subst this
    -- both belong to the same item
    have hxe : x ∈ opsOfS e.s (dn ++ [e.base]) := by
      obtain ⟨a, ha, hxa⟩ := mem_allOpsD.1 hx
      obtain ⟨r', m', c', _, _, ex', _⟩ := (h.spec a ha).char x hxa
      have ht : opTarget x = some (plainPath (dn ++ [e.base] ++ rx)) := by rw [ex, headOp_target]
      rw [ex', headOp_target] at ht
      obtain ⟨h1, _⟩ := h.tgt_eq_inv he ha (plainPath_inj (Option.some.inj ht))
      subst h1
      exact hxa
    have hye : y ∈ opsOfS e.s (dn ++ [e.base]) := by
      obtain ⟨a, ha, hya⟩ := mem_allOpsD.1 hy
      obtain ⟨r', m', c', _, _, ey', _⟩ := (h.spec a ha).char y hya
      have ht : opTarget y = some (plainPath (dn ++ [e.base] ++ ry)) := by rw [ey, headOp_target]
      rw [ey', headOp_target] at ht
      obtain ⟨h1, _⟩ := h.tgt_eq_inv he ha (plainPath_inj (Option.some.inj ht))
      subst h1
      exact hya
    exact (h.spec e he).pairIndep x hxe y hye hxy hsx
  · right
    refine ⟨plainPath (dn ++ [e.base] ++ rx), plainPath (dn ++ [e'.base] ++ ry), by rw [ex, headOp_target],
      by rw [ey, headOp_target], plainPath_namesOnly _, plainPath_namesOnly _, ?_, ?_, ?_⟩
    · left
      simp only [plainPath_names]
      exact unrel_append (sibling_unrel dn hb) (sibling_unrel dn (Ne.symm hb)) rx ry
    · intro s hs
      rw [ex] at hs
      obtain ⟨e1, hmd, _⟩ := headOp_srcOf _ _ _ _ hs
      subst e1
      simp only [plainPath_names]
      obtain ⟨u1, u2⟩ := (hlx hmd).2.2 e' he'
      have := unrel_append u1 u2 [] ry
      rw [List.append_nil] at this
      exact ⟨plainPath_namesOnly _, this⟩
    · intro s hs
      rw [ey] at hs
      obtain ⟨e1, hmd, _⟩ := headOp_srcOf _ _ _ _ hs
      subst e1
      simp only [plainPath_names]
      obtain ⟨u1, u2⟩ := (hly hmd).2.2 e he
      have := unrel_append u1 u2 [] rx
      rw [List.append_nil] at this
      exact ⟨plainPath_namesOnly _, this⟩

/-- the concatenation can be walked in order as soon as `dn` is a directory -/
theorem todoOK_allOpsD (dn : List Name) (d : Nat) : ∀ (items : List DerefSrc), (∀ e ∈ items, e.s.erase.Copyable d) →
    ∀ D : List Name → Prop, D dn → TodoOK D (allOpsD dn items) := by
  intro items
  induction items with
  | nil => intro _ D _; rw [allOpsD_nil]; trivial
  | cons e r ih =>
    intro hc D hD
    rw [allOpsD_cons, ← todoOK_dropSrc, List.map_append, opsOfS_dropSrc e.s [] (dn ++ [e.base]), ← List.map_append,
      todoOK_dropSrc]
    apply todoOK_opsOf d e.s.erase (hc e List.mem_cons_self) [] (dn ++ [e.base]) D (allOpsD dn r)
    · rw [List.dropLast_concat]; exact hD
    · intro D' hsub
      exact ih (fun a ha => hc a (List.mem_cons_of_mem _ ha)) D' (hsub _ hD)

/-! ## The invariant of the concurrent runs -/

/-- unrelated to every target -/
def AwayAll (items : List DerefSrc) (dn q : List Name) : Prop :=
  ∀ e ∈ items, ¬ q <+: dn ++ [e.base] ∧ ¬ dn ++ [e.base] <+: q

structure MOInvD (fs0 : Fs) (items : List DerefSrc) (dn : List Name) (s : St) : Prop where
  ok : s.failed = false
  wf : FsEq s.fs s.fs
  out : ∀ q, AwayAll items dn q → s.fs.root.getAt q = fs0.root.getAt q
  base : DirsOf s.fs dn
  todo : TodoOK (DirsOf s.fs) s.todo
  qpar : ∀ x ∈ s.queue, ∀ t, opTarget x = some t → DirsOf s.fs t.names.dropLast
  pend : ∀ x ∈ s.queue ++ s.todo, ∀ t, opTarget x = some t → obsAt s.fs.root t.names = obsAt fs0.root t.names
  kinds : ∀ e ∈ items, ∀ rel n, e.s.erase.getAt rel = some n →
    obsAt s.fs.root (dn ++ [e.base] ++ rel) = obsAt fs0.root (dn ++ [e.base] ++ rel) ∨
    obsAt s.fs.root (dn ++ [e.base] ++ rel) = some n.obs
  mem : ∀ x ∈ s.queue ++ s.todo, x ∈ allOpsD dn items
  nodup : (s.queue ++ s.todo).Nodup

/-- every initial target is head-compatible with its item's tree, position by position -/
def MHead0D (fs0 : Fs) (items : List DerefSrc) (dn : List Name) : Prop :=
  ∀ e ∈ items, Head0 fs0 e.s.erase (dn ++ [e.base])

theorem MOInvD.init {fs0 : Fs} {items : List DerefSrc} {dn : List Name} {d : Nat} (h : MSpecD fs0 items dn d)
    (hwf : FsEq fs0 fs0) (hdd : DirsOf fs0 dn) : MOInvD fs0 items dn (L0.init fs0 (allOpsD dn items)) := by
  refine ⟨rfl, hwf, fun _ _ => rfl, hdd, todoOK_allOpsD dn d items h.cop _ hdd, ?_, ?_, ?_, ?_, ?_⟩
  · intro x hx; cases hx
  · intro x _ t _; rfl
  · intro e _ rel n _; exact .inl rfl
  · intro x hx; simpa [L0.init] using hx
  · simpa [L0.init] using h.nodup

theorem MOInvD.not_link {fs0 : Fs} {items : List DerefSrc} {dn : List Name} {s : St}
    (H0 : MHead0D fs0 items dn) (hinv : MOInvD fs0 items dn s) {e : DerefSrc} (he : e ∈ items)
    {rel : List Name} {n : Node} (hg : e.s.erase.getAt rel = some n) (hnl : n.isLink = false) (tg : RPath) :
    s.fs.root.getAt (dn ++ [e.base] ++ rel) ≠ some (.link tg) := by
  intro hgl
  rw [getAt_link_iff] at hgl
  rcases hinv.kinds e he rel n hg with hk | hk
  · rw [hk] at hgl
    have := H0 e he rel n hg
    rw [hgl] at this
    exact headOK_link_false this
  · rw [hk] at hgl
    cases n <;> simp [Node.obs, Node.isLink] at hgl hnl

theorem MOInvD.noLinkAbove {fs0 : Fs} {items : List DerefSrc} {dn : List Name} {s : St}
    (H0 : MHead0D fs0 items dn) (hinv : MOInvD fs0 items dn s) {e : DerefSrc} (he : e ∈ items)
    {rel : List Name} {n : Node} (hg : e.s.erase.getAt rel = some n) :
    NoLinkAbove s.fs.root (dn ++ [e.base] ++ rel) := by
  intro p hp hne tg hgl
  by_cases hT : dn ++ [e.base] <+: p
  · obtain ⟨s', hs'⟩ := hT
    subst hs'
    obtain ⟨u, hu⟩ := (List.prefix_append_right_inj (dn ++ [e.base])).1 hp
    subst hu
    have hu0 : u ≠ [] := by
      intro h0; apply hne; rw [h0, List.append_nil]
    obtain ⟨es, hes⟩ := getAt_proper_prefix_dir hg hu0
    exact hinv.not_link H0 he hes rfl tg hgl
  · have hpT : p <+: dn ++ [e.base] := by
      rcases List.prefix_or_prefix_of_prefix hp (List.prefix_append (dn ++ [e.base]) rel) with h1 | h1
      · exact h1
      · exact absurd h1 hT
    have hpne : p ≠ dn ++ [e.base] := fun e => hT (e ▸ List.prefix_refl _)
    have hpd := prefix_dropLast_of_ne hpT hpne
    rw [List.dropLast_concat] at hpd
    obtain ⟨es, hes⟩ := hinv.base
    obtain ⟨es', hes'⟩ := L0.getAt_prefix_dir hes hpd
    rw [hes'] at hgl
    cases hgl

/-- a leaf is still at its canonical place -/
theorem MOInvD.srcAt {fs0 : Fs} {items : List DerefSrc} {dn : List Name} {s : St}
    (hinv : MOInvD fs0 items dn s) {m : Node} {cp : List Name}
    (hlf : m.isDir = false → fs0.root.getAt cp = some m ∧ cp.length ≤ 256 ∧
      ∀ e' ∈ items, ¬ cp <+: dn ++ [e'.base] ∧ ¬ dn ++ [e'.base] <+: cp) :
    m.isDir = false → s.fs.root.getAt cp = some m ∧ cp.length ≤ 256 := by
  intro hm
  obtain ⟨h1, h2, u⟩ := hlf hm
  exact ⟨by rw [hinv.out cp u]; exact h1, h2⟩

/-- one pending operation, executed: it succeeds; whatever is unrelated to every target stays; directories stay
directories; only the observation at its own target changes -/
theorem MOInvD.exec_one {fs0 : Fs} {items : List DerefSrc} {dn : List Name} {d : Nat} {s : St}
    (h : MSpecD fs0 items dn d) (H0 : MHead0D fs0 items dn) (c : Cfg) (hn : c.noClobber = false)
    (hinv : MOInvD fs0 items dn s) {x : Op} (hxm : x ∈ allOpsD dn items)
    (hpar : ∀ t, opTarget x = some t → DirsOf s.fs t.names.dropLast)
    (hpend : ∀ t, opTarget x = some t → obsAt s.fs.root t.names = obsAt fs0.root t.names) :
    ∃ g', execOp s.fs c x = some g' ∧ FsEq g' g' ∧
      (∀ q, AwayAll items dn q → g'.root.getAt q = fs0.root.getAt q) ∧
      (∀ p, DirsOf s.fs p → DirsOf g' p) ∧
      (∀ t, x = .mkdir t → DirsOf g' t.names) ∧
      (∀ y ∈ allOpsD dn items, x ≠ y → ∀ t, opTarget y = some t →
        obsAt g'.root t.names = obsAt s.fs.root t.names) ∧
      (∀ e ∈ items, ∀ rel n, e.s.erase.getAt rel = some n →
        obsAt g'.root (dn ++ [e.base] ++ rel) = obsAt fs0.root (dn ++ [e.base] ++ rel) ∨
        obsAt g'.root (dn ++ [e.base] ++ rel) = some n.obs) := by
  obtain ⟨e, he, rel, m, cp, hg, hl, ex, hlf⟩ := h.char x hxm
  have htgt : opTarget x = some (plainPath (dn ++ [e.base] ++ rel)) := by rw [ex, headOp_target]
  have hpar' : DirsOf s.fs (dn ++ [e.base] ++ rel).dropLast := by
    have := hpar _ htgt
    rwa [plainPath_names] at this
  have hobs : obsAt s.fs.root (dn ++ [e.base] ++ rel) = obsAt fs0.root (dn ++ [e.base] ++ rel) := by
    have := hpend _ htgt
    rwa [plainPath_names] at this
  have hhok : HeadOK (obsAt s.fs.root (dn ++ [e.base] ++ rel)) m := by
    rw [hobs]; exact H0 e he rel m hg
  obtain ⟨g', hx, P⟩ := exec_due_overD (h.spec e he) c hn s.fs hinv.wf x rel m cp hl ex (hinv.srcAt hlf)
    (fun hm => (hlf hm).2.2 e he) hpar' hhok
  refine ⟨g', hx, P.wf, ?_, P.dirs hhok, ?_, ?_, ?_⟩
  · intro q hq
    rw [P.out q (hq e he).1 (hq e he).2]
    exact hinv.out q hq
  · intro t ht
    exact P.made t (ex ▸ ht)
  · intro y hy hxy t ht
    exact P.frame _ (h.tgt_ne hxm hy hxy htgt ht)
  · intro e' he' rel' n' hg'
    by_cases heq : dn ++ [e'.base] ++ rel' = dn ++ [e.base] ++ rel
    · obtain ⟨h1, h2⟩ := h.tgt_eq_inv he he' heq
      subst h1; subst h2
      rw [hg] at hg'
      injection hg' with hg'
      subst hg'
      exact .inr P.here
    · rw [P.frame _ heq]
      exact hinv.kinds e' he' rel' n' hg'

theorem MOInvD.step {fs0 : Fs} {items : List DerefSrc} {dn : List Name} {d : Nat}
    (h : MSpecD fs0 items dn d) (H0 : MHead0D fs0 items dn) (c : Cfg) (hn : c.noClobber = false)
    (s s1 : St) (l : Label) (hinv : MOInvD fs0 items dn s) (hstep : L0.step c s l = some s1) :
    MOInvD fs0 items dn s1 := by
  have hok := hinv.ok
  have htodo := hinv.todo
  have hqpar := hinv.qpar
  have hpend := hinv.pend
  have hmem := hinv.mem
  have hnd := hinv.nodup
  cases l with
  | walk =>
    simp only [L0.step, hok, Bool.false_eq_true, if_false] at hstep
    split at hstep
    · cases hstep
    · next op r htd =>
      rw [htd] at htodo hpend hmem hnd
      have hopmem : op ∈ allOpsD dn items := hmem op (by simp)
      have hnd' := List.nodup_append.1 hnd
      have hnd'' := List.nodup_cons.1 hnd'.2.1
      split at hstep
      · -- executed by the walker
        obtain ⟨g', hx, hwf', hout', hdirs, hmade, hfr, hk'⟩ := hinv.exec_one h H0 c hn hopmem
          (fun t ht => htodo.1 t ht) (fun t ht => hpend op (by simp) t ht)
        rw [hx] at hstep
        cases hstep
        have hne : ∀ y ∈ s.queue ++ r, op ≠ y := by
          intro y hy hoy
          subst hoy
          rcases List.mem_append.1 hy with hy | hy
          · exact hnd'.2.2 op hy op List.mem_cons_self rfl
          · exact hnd''.1 hy
        refine ⟨rfl, hwf', hout', hdirs _ hinv.base, ?_, ?_, ?_, hk', ?_, ?_⟩
        · refine TodoOK.mono _ _ _ ?_ htodo.2
          rintro p (hp | ⟨t, ht, hpt⟩)
          · exact hdirs p hp
          · rw [hpt]; exact hmade t ht
        · intro y hy t ht
          exact hdirs _ (hqpar y hy t ht)
        · intro y hy t ht
          have hy' : y ∈ s.queue ++ op :: r := by
            rcases List.mem_append.1 hy with hy | hy
            · exact List.mem_append_left _ hy
            · exact List.mem_append_right _ (List.mem_cons_of_mem _ hy)
          show obsAt g'.root t.names = _
          rw [hfr y (hmem y hy') (hne y hy) t ht]
          exact hpend y hy' t ht
        · intro y hy
          apply hmem y
          rcases List.mem_append.1 hy with hy | hy
          · exact List.mem_append_left _ hy
          · exact List.mem_append_right _ (List.mem_cons_of_mem _ hy)
        · show (s.queue ++ r).Nodup
          rw [List.nodup_append]
          exact ⟨hnd'.1, hnd''.2, fun a ha b hb => hnd'.2.2 a ha b (List.mem_cons_of_mem _ hb)⟩
      · next hsync =>
        cases hstep
        have hsync' : isSync op = false := by simpa using hsync
        refine ⟨rfl, hinv.wf, hinv.out, hinv.base, ?_, ?_, ?_, hinv.kinds, ?_, ?_⟩
        · refine TodoOK.mono _ _ _ ?_ htodo.2
          rintro p (hp | ⟨t, ht, _⟩)
          · exact hp
          · rw [ht] at hsync'; cases hsync'
        · intro y hy t ht
          rcases List.mem_append.1 hy with hy | hy
          · exact hqpar y hy t ht
          · have : y = op := by simpa using hy
            subst this
            exact htodo.1 t ht
        · show ∀ y ∈ (s.queue ++ [op]) ++ r, _
          simpa using hpend
        · show ∀ y ∈ (s.queue ++ [op]) ++ r, y ∈ allOpsD dn items
          simpa using hmem
        · show ((s.queue ++ [op]) ++ r).Nodup
          simpa using hnd
  | exec i =>
    simp only [L0.step] at hstep
    split at hstep
    · next a hq =>
      obtain ⟨qpre, qpost, hq1, hq2⟩ := eraseIdx_split s.queue i a hq
      rw [hq2] at hstep
      rw [hq1] at hqpar hpend hmem hnd
      have hamem : a ∈ allOpsD dn items := hmem a (by simp)
      obtain ⟨g', hx, hwf', hout', hdirs, _, hfr, hk'⟩ := hinv.exec_one h H0 c hn hamem
        (fun t ht => hqpar a (by simp) t ht) (fun t ht => hpend a (by simp) t ht)
      rw [hx] at hstep
      cases hstep
      have hsub : ((qpre ++ qpost) ++ s.todo).Sublist ((qpre ++ a :: qpost) ++ s.todo) := by
        apply List.Sublist.append_right
        apply List.Sublist.append_left
        exact List.sublist_cons_self ..
      have hnd1 := (List.nodup_append.1 hnd).1
      have hnd2 := List.nodup_append.1 hnd1
      have hnd3 := List.nodup_cons.1 hnd2.2.1
      have hne : ∀ y ∈ (qpre ++ qpost) ++ s.todo, a ≠ y := by
        intro y hy hay
        subst hay
        rcases List.mem_append.1 hy with hy | hy
        · rcases List.mem_append.1 hy with hy | hy
          · exact hnd2.2.2 a hy a List.mem_cons_self rfl
          · exact hnd3.1 hy
        · exact (List.nodup_append.1 hnd).2.2 a (by simp) a hy rfl
      refine ⟨hok, hwf', hout', hdirs _ hinv.base, TodoOK.mono _ _ _ hdirs htodo, ?_, ?_, hk', ?_, ?_⟩
      · intro y hy t ht
        have hy' : y ∈ qpre ++ a :: qpost := by
          rcases List.mem_append.1 hy with hy | hy
          · exact List.mem_append_left _ hy
          · exact List.mem_append_right _ (List.mem_cons_of_mem _ hy)
        exact hdirs _ (hqpar y hy' t ht)
      · intro y hy t ht
        have hy' := hsub.subset hy
        show obsAt g'.root t.names = _
        rw [hfr y (hmem y hy') (hne y hy) t ht]
        exact hpend y hy' t ht
      · exact fun y hy => hmem y (hsub.subset hy)
      · exact hnd.sublist hsub
    · cases hstep

theorem MOInvD.run {fs0 : Fs} {items : List DerefSrc} {dn : List Name} {d : Nat}
    (h : MSpecD fs0 items dn d) (H0 : MHead0D fs0 items dn) (c : Cfg) (hn : c.noClobber = false) :
    ∀ (ls : List Label) (s s' : St), MOInvD fs0 items dn s → L0.run c s ls = some s' →
      MOInvD fs0 items dn s' := by
  intro ls
  induction ls with
  | nil => intro s s' hinv hr; cases hr; exact hinv
  | cons l ls ih =>
    intro s s' hinv hr
    simp only [L0.run] at hr
    split at hr
    · next s1 hs1 => exact ih s1 s' (MOInvD.step h H0 c hn s s1 l hinv hs1) hr
    · cases hr

/-! ## What the invariant gives at the moment an operation is handed over -/

theorem MOInvD.plains {fs0 : Fs} {items : List DerefSrc} {dn : List Name} {d : Nat} {s : St}
    (h : MSpecD fs0 items dn d) (H0 : MHead0D fs0 items dn) (hinv : MOInvD fs0 items dn s) :
    ∀ x ∈ allOpsD dn items, Plains s.fs x := by
  intro x hx
  obtain ⟨e, he, rel, m, cp, hg, hl, ex, hlf⟩ := h.char x hx
  refine ⟨?_, ?_⟩
  · intro t ht
    rw [ex, headOp_target] at ht
    have := Option.some.inj ht
    subst this
    rw [plainPath_names]
    refine ⟨hinv.noLinkAbove H0 he hg, ?_⟩
    intro hnl p hp tg hgl
    by_cases hpe : p = dn ++ [e.base] ++ rel
    · subst hpe
      rw [ex, headOp_isLinkOp] at hnl
      exact hinv.not_link H0 he hg hnl tg hgl
    · exact hinv.noLinkAbove H0 he hg p hp hpe tg hgl
  · intro sp hs
    rw [ex] at hs
    obtain ⟨e1, hmd, hml⟩ := headOp_srcOf _ _ _ _ hs
    subst e1
    rw [plainPath_names]
    exact noLinkUpto_of_getAt (hinv.srcAt hlf hmd).1 hml

theorem MOInvD.goodAll {fs0 : Fs} {items : List DerefSrc} {dn : List Name} {d : Nat} {s : St}
    (h : MSpecD fs0 items dn d) (H0 : MHead0D fs0 items dn) (hinv : MOInvD fs0 items dn s)
    (op : Op) (r : List Op) (htd : s.todo = op :: r) : GoodAllD (allOpsD dn items) s.fs op := by
  refine ⟨?_, hinv.plains h H0⟩
  have hopmem : op ∈ allOpsD dn items := hinv.mem op (by rw [htd]; simp)
  obtain ⟨e, he, rel, m, cp, hg, hl, ex, hlf⟩ := h.char op hopmem
  have hsp := h.spec e he
  have htgt : opTarget op = some (plainPath (dn ++ [e.base] ++ rel)) := by rw [ex, headOp_target]
  have htodo := hinv.todo
  rw [htd] at htodo
  refine ⟨?_, ⟨plainPath (dn ++ [e.base] ++ rel), htgt, ?_, ?_, ?_, ?_⟩, ?_⟩
  · obtain ⟨es, hes⟩ := hinv.base
    obtain ⟨es', hes'⟩ := L0.getAt_prefix_dir hes List.nil_prefix
    simp only [getAt_nil, Option.some.injEq] at hes'
    rw [hes']; rfl
  · refine ⟨rfl, rfl, (plainPath_namesOnly _).2.2, ?_⟩
    rw [plainPath_names]
    intro p hp tg hgl
    by_cases hpe : p = dn ++ [e.base] ++ rel
    · subst hpe
      have := hinv.pend op (by rw [htd]; simp) _ htgt
      rw [plainPath_names] at this
      rw [getAt_link_iff, this] at hgl
      have h0 := H0 e he rel m hg
      rw [hgl] at h0
      exact headOK_link_false h0
    · exact hinv.noLinkAbove H0 he hg p hp hpe tg hgl
  · rw [plainPath_names]
    intro h0
    exact hsp.tne (List.append_eq_nil_iff.1 h0).1
  · rw [plainPath_names]
    simp only [List.length_append]
    have := hsp.lenT
    simp only [List.length_append] at this
    omega
  · exact htodo.1 _ htgt
  · intro sp hs
    rw [ex] at hs
    obtain ⟨e1, hmd, hml⟩ := headOp_srcOf _ _ _ _ hs
    subst e1
    have hsm : s.fs.root.getAt cp = some m := (hinv.srcAt hlf hmd).1
    refine ⟨⟨rfl, rfl, (plainPath_namesOnly _).2.2, ?_⟩, ?_⟩
    · rw [plainPath_names]; exact noLinkUpto_of_getAt hsm hml
    · rw [plainPath_names]; exact ⟨m, hsm⟩

end Xcp
