import XcpProofs.GiTree
import XcpProofs.Overlay
import XcpProofs.DerefOverlayLemmas
import XcpProofs.GiConcLemmas
/-! # Lemmas for `GiOverlay`: `--gitignore` onto an EXISTING, compatible destination

Sequential: `exec_overlay_sub`, the overlay analogue of `exec_opsOf_sub` (GiTreeLemmas): the operations `opsOf m sn tn`
of a tree `m` that need not be the tree at `sn` — it is enough that every non-directory node of `m` is found in the
state at the same relative path below `sn` (so for `m` the pruned version of the tree at `sn`) — run towards a place
compatible with `m`.  Concurrent: the static facts `DSpec` for the operations of the pruned tree (read places
`sn ++ rel` in the unpruned tree) and the set-up of the invariant `OInvD` (DerefOverlayLemmas). -/
namespace Xcp

open L0

/-! ## Sequential execution -/

/-- running the operations of a copyable tree `m`, whose non-directory nodes are found in the state below `sn`, towards
a place `par ++ [nm]` compatible with `m`, below an existing directory and unrelated to `sn`, leaves exactly
`placeAt` there -/
theorem exec_overlay_sub (c : Cfg) (hn : c.noClobber = false) :
    ∀ (d : Nat) (n : Node), n.Copyable d →
      ∀ (g : Fs) (sn par : List Name) (nm : Name) (pes : Entries) (rest : List Op),
      (∀ rel x, n.getAt rel = some x → x.isDir = false → g.root.getAt (sn ++ rel) = some x) →
      g.root.getAt par = some (.dir pes) → (pes.map (·.1)).Nodup →
      (∀ x, g.root.getAt (par ++ [nm]) = some x → x.WF) →
      Compatible (g.root.getAt (par ++ [nm])) n →
      ¬ sn <+: par ++ [nm] → ¬ par ++ [nm] <+: sn → sn.length + d < 256 → par.length + 1 + d < 256 →
      execOps g c (opsOf n sn (par ++ [nm]) ++ rest) =
        execOps { g with root := placeAt g.root (par ++ [nm]) (g.root.getAt (par ++ [nm])) n } c rest := by
  have leaf : ∀ (n : Node), n.isDir = false → ∀ (g : Fs) (sn par : List Name) (nm : Name) (pes : Entries)
      (rest : List Op),
      (∀ rel x, n.getAt rel = some x → x.isDir = false → g.root.getAt (sn ++ rel) = some x) →
      g.root.getAt par = some (.dir pes) → (pes.map (·.1)).Nodup →
      Compatible (g.root.getAt (par ++ [nm])) n →
      ¬ sn <+: par ++ [nm] → sn.length < 256 → par.length + 1 < 256 →
      execOps g c (opsOf n sn (par ++ [nm]) ++ rest) =
        execOps { g with root := placeAt g.root (par ++ [nm]) (g.root.getAt (par ++ [nm])) n } c rest := by
    intro n hnd g sn par nm pes rest hsrc hp hpn hc h1 hl1 hl2
    have hs : g.root.getAt sn = some n := by simpa using hsrc [] n (by simp) hnd
    exact exec_overlay_leaf c hn n hnd g sn par nm pes rest hs hp hpn hc h1 hl1 hl2
  intro d
  induction d with
  | zero =>
    intro n hcop g sn par nm pes rest hsrc hp hpn _ hc h1 _ hl1 hl2
    have hnd : n.isDir = false := by
      cases n <;> simp [Node.Copyable] at hcop <;> rfl
    exact leaf n hnd g sn par nm pes rest hsrc hp hpn hc h1 (by omega) (by omega)
  | succ d ih =>
    intro n hcop g sn par nm pes rest hsrc hp hpn hw hc h1 h2 hl1 hl2
    cases hnd : n.isDir with
    | false => exact leaf n hnd g sn par nm pes rest hsrc hp hpn hc h1 (by omega) (by omega)
    | true =>
      cases n <;> simp [Node.isDir] at hnd
      rename_i es
      obtain ⟨d', hd', hndp, hch⟩ := copyable_dir hcop
      have hd'' : d' = d := by omega
      subst hd''
      cases hdst : g.root.getAt (par ++ [nm]) with
      | none =>
        rw [exec_opsOf_sub c (d' + 1) (.dir es) hcop g sn par nm pes rest hsrc hp hdst h1 h2 hl1 hl2]
        simp [placeAt, Node.isSpecial]
      | some x =>
        rw [hdst] at hc
        cases x <;> simp [Compatible, Node.compatible] at hc
        rename_i des
        have hwx := hw _ hdst
        rw [WF_dir] at hwx
        have htl : (par ++ [nm]).length = par.length + 1 := by simp
        generalize par ++ [nm] = tn at *
        simp only [opsOf, List.cons_append]
        rw [execOps_cons_some _ _ _ _ _ (execOp_mkdir_over g c tn des hdst (by omega))]
        have hassoc : ∀ a b : List Op, (a ++ b) ++ rest = a ++ (b ++ rest) :=
          fun a b => List.append_assoc a b rest
        -- the children, one after the other
        have key : ∀ (post acc : Entries), (acc.map (·.1)).Nodup → (post.map (·.1)).Nodup →
            (∀ e ∈ post, e ∈ es) → (∀ e ∈ post, entGet acc e.1 = entGet des e.1) →
            execOps { g with root := g.root.setAt tn (.dir acc) } c (opsOfL post sn tn ++ rest) =
              execOps { g with root := g.root.setAt tn (.dir (overlayL acc post)) } c rest := by
          intro post
          induction post with
          | nil => intro acc _ _ _ _; simp [opsOfL, overlayL]
          | cons e post' ihp =>
            intro acc hna hnp hsub hag
            obtain ⟨m, ch⟩ := e
            have hmem : (m, ch) ∈ es := hsub _ List.mem_cons_self
            obtain ⟨_, _, u3, u4⟩ := unrel_child h1 h2 m
            simp only [List.map_cons, List.nodup_cons] at hnp
            have hs' : ∀ rel x, ch.getAt rel = some x → x.isDir = false →
                (g.root.setAt tn (.dir acc)).getAt (sn ++ [m] ++ rel) = some x := by
              intro rel x hx hxd
              obtain ⟨v1, v2⟩ := unrel_ext h1 h2 ([m] ++ rel)
              rw [List.append_assoc, getAt_setAt_unrelated _ _ _ _ v1 v2]
              apply hsrc (m :: rel) x _ hxd
              rw [getAt_dir_cons, entGet_of_mem es hndp (m, ch) hmem]
              exact hx
            have hp' : (g.root.setAt tn (.dir acc)).getAt tn = some (.dir acc) :=
              getAt_setAt_exists _ _ _ _ hdst
            have hda : (g.root.setAt tn (.dir acc)).getAt (tn ++ [m]) = entGet acc m :=
              getAt_child _ _ m _ hp'
            have hag0 : entGet acc m = entGet des m := hag (m, ch) List.mem_cons_self
            have step := ih ch (hch _ hmem) { g with root := g.root.setAt tn (.dir acc) }
              (sn ++ [m]) tn m acc (opsOfL post' sn tn ++ rest) hs' hp' hna
              (by intro x hx; rw [hda, hag0] at hx; exact hwx.2 m x hx)
              (by rw [hda, hag0]; exact compatibleL_mem hc (m, ch) hmem)
              u3 u4
              (by simp only [List.length_append, List.length_cons, List.length_nil]; omega)
              (by omega)
            rw [opsOfL, hassoc, step]
            show execOps { g with root := (placeAt (g.root.setAt tn (.dir acc)) (tn ++ [m])
              ((g.root.setAt tn (.dir acc)).getAt (tn ++ [m])) ch) } c (opsOfL post' sn tn ++ rest) = _
            rw [placeAt_child _ tn m acc _ ch hp', setAt_setAt_same, hda]
            simp only [overlayL]
            apply ihp
            · exact nodup_keys_entPut _ _ _ hna
            · exact hnp.2
            · exact fun e he => hsub e (List.mem_cons_of_mem _ he)
            · intro e he
              have hne : m ≠ e.1 := by
                intro h
                apply hnp.1
                rw [h]
                exact List.mem_map.2 ⟨e, he, rfl⟩
              rw [entGet_entPut_ne _ _ _ _ hne]
              exact hag e (List.mem_cons_of_mem _ he)
        have h0 : execOps g c (opsOfL es sn tn ++ rest) =
            execOps { g with root := g.root.setAt tn (.dir des) } c (opsOfL es sn tn ++ rest) := by
          rw [setAt_same _ _ _ hdst]
        rw [h0, key es des hwx.1 hndp (fun _ h => h) (fun _ _ => rfl)]
        simp [placeAt, Node.isSpecial, Node.overlay]

/-! ## The static facts, and the set-up of the concurrent runs -/

/-- the operations of the pruned tree, reading from the places of the unpruned source tree, satisfy `DSpec` -/
theorem gi_dspec (fs : Fs) (ps : List Gi.Pattern) (S T : List Name) (srcNode : Node) (fuel : Nat)
    (hsn : fs.root.getAt S = some srcNode) (hcop : srcNode.Copyable fuel) (hne : T ≠ [])
    (hun1 : ¬ S <+: T) (hun2 : ¬ T <+: S) (hlS : S.length + fuel ≤ 256) (hlT : T.length + fuel < 256) :
    DSpec fs (Node.prune ps [] srcNode) T fuel (opsOf (Node.prune ps [] srcNode) S T) := by
  have hcopP := copyable_prune ps fuel srcNode hcop []
  refine ⟨?_, opsOf_tgt_nodup fuel _ hcopP _ _, hne, hlT⟩
  intro x hx
  obtain ⟨rel, m, hg, hl, ex⟩ := mem_opsOf fuel _ hcopP _ _ x hx
  refine ⟨rel, m, S ++ rel, hg, hl, ex, ?_⟩
  intro hm
  have hU := unrel_append hun1 hun2 rel []
  rw [List.append_nil] at hU
  refine ⟨?_, ?_, hU.1, hU.2⟩
  · rw [Node.getAt_append, hsn]
    exact getAt_prune_leaf ps rel fuel srcNode [] m hcop hg hm
  · simp only [List.length_append]; omega

theorem gi_overlay_setup (fs : Fs) (c : Cfg) (hd : c.dereference = false) (hn : c.noClobber = false)
    (ps : List Gi.Pattern)
    (src tb : RPath) (srcNode : Node) (fuel : Nat)
    (hwf : FsEq fs fs)
    (hsrc : PlainTarget fs src) (hsn : fs.root.getAt src.names = some srcNode)
    (hcop : srcNode.Copyable fuel)
    (htb : PlainTarget fs tb) (hne : tb.names ≠ [])
    (hcompat : Compatible (fs.root.getAt tb.names) (Node.prune ps [] srcNode))
    (hpar : ∃ es, fs.root.getAt tb.names.dropLast = some (.dir es))
    (hun1 : ¬ src.names <+: tb.names) (hun2 : ¬ tb.names <+: src.names)
    (hlen : src.names.length + fuel < 200 ∧ tb.names.length + fuel < 200) :
    walkEntry fs c (some ps) src tb (fuel + 1) [] [] = opsOf (Node.prune ps [] srcNode) src.names tb.names ∧
    DSpec fs (Node.prune ps [] srcNode) tb.names fuel (opsOf (Node.prune ps [] srcNode) src.names tb.names) ∧
    (opsOf (Node.prune ps [] srcNode) src.names tb.names).Nodup ∧
    Head0 fs (Node.prune ps [] srcNode) tb.names ∧
    OInvD fs (Node.prune ps [] srcNode) tb.names (opsOf (Node.prune ps [] srcNode) src.names tb.names)
      (L0.init fs (opsOf (Node.prune ps [] srcNode) src.names tb.names)) := by
  have hsrcE := plainTarget_eq fs src hsrc
  have htbE := plainTarget_eq fs tb htb
  have hnl : srcNode.isLink = false := by
    cases srcNode with
    | link t => exact absurd hsn (hsrc.2.2.2 src.names (List.prefix_refl _) t)
    | _ => rfl
  have hshape := walk_shape_gi fs c ps hd src.names tb.names (.inl hn) fuel srcNode hcop [] []
    (by simpa using hsn) (fun h => by rw [hnl] at h; cases h) (by simp only [List.length_nil]; omega) (.inl rfl)
  rw [← hsrcE, ← htbE] at hshape
  simp only [List.append_nil] at hshape
  have hcopP := copyable_prune ps fuel srcNode hcop []
  have hspec := gi_dspec fs ps src.names tb.names srcNode fuel hsn hcop hne hun1 hun2 (by omega) (by omega)
  have hnd := opsOf_nodup fuel _ hcopP src.names tb.names
  have htodo : TodoOK (DirsOf fs) (opsOf (Node.prune ps [] srcNode) src.names tb.names) := by
    have := todoOK_opsOf fuel _ hcopP src.names tb.names (DirsOf fs) [] hpar (fun _ _ => trivial)
    rwa [List.append_nil] at this
  have H0 : Head0 fs (Node.prune ps [] srcNode) tb.names := by
    intro rel m hg
    have := headOK_of_compatible rel (fs.root.getAt tb.names) _ m hcompat hg
    unfold obsAt
    rw [Node.getAt_append]
    exact this
  exact ⟨hshape, hspec, hnd, H0, OInvD.init fs hwf hpar htodo hnd⟩

/-! ## Names the pruned directory does not list -/

/-- an entry of the source directory that the patterns exclude is not listed by the pruned directory -/
theorem excluded_not_in_pruneL (ps : List Gi.Pattern) (rel : List Name) (es : List (Name × Node))
    (hnd : (es.map (·.1)).Nodup) (m : Name) (ch : Node) (hmem : (m, ch) ∈ es)
    (hx : Gi.keeps ps (rel ++ [m]) ch.isDir = false) : m ∉ (pruneL ps rel es).map (·.1) := by
  intro hin
  obtain ⟨e, he, hem⟩ := List.mem_map.1 hin
  obtain ⟨ch', h1, _, h3⟩ := pruneL_mem ps rel es e he
  rw [hem] at h1 h3
  have a := entGet_of_mem es hnd (m, ch) hmem
  have b := entGet_of_mem es hnd (m, ch') h1
  simp only at a b
  rw [a] at b
  injection b with b
  subst b
  rw [hx] at h3
  cases h3

end Xcp
