import XcpProofs.Mirror
/-! # Lemmas for the mirror theorem over an EXISTING destination (overlay)

More exact tree algebra (`setAt` of what is there already, `delAt` below a place just set, updates of a child
expressed as an update of the parent directory), the exact effect of each operation on a plain target that
exists already (`create` over a regular file, `create_dir_all` of an existing directory, unlink + mknod over an
existing non-directory), uniqueness of a leaf replacement up to observation, and preservation of
well-formedness by `execOps`. -/
namespace Xcp

/-! ## Entry lists -/

theorem entSet_entGet_same (es : Entries) (n : Name) (x : Node) (h : entGet es n = some x) :
    entSet es n x = es := by
  induction es with
  | nil => simp [entGet] at h
  | cons kv r ih =>
    obtain ⟨k, w⟩ := kv
    by_cases hk : k = n
    · simp only [entGet, hk, if_true, Option.some.injEq] at h
      simp [entSet, hk, h]
    · simp only [entGet, hk, if_false] at h
      simp [entSet, hk, ih h]

theorem entDel_absent (es : Entries) (n : Name) (h : entGet es n = none) : entDel es n = es := by
  induction es with
  | nil => rfl
  | cons kv r ih =>
    obtain ⟨k, w⟩ := kv
    by_cases hk : k = n
    · simp [entGet, hk] at h
    · simp only [entGet, hk, if_false] at h
      simp [entDel, hk, ih h]

theorem nodup_keys_entDel (es : Entries) (n : Name) (h : (es.map (·.1)).Nodup) :
    ((entDel es n).map (·.1)).Nodup :=
  (keys_entDel_sublist es n).nodup h

/-! ## Exact tree algebra -/

/-- writing what is there already changes nothing -/
theorem setAt_same : ∀ (t : List Name) (r x : Node), r.getAt t = some x → r.setAt t x = r := by
  intro t
  induction t with
  | nil =>
    intro r x h
    simp only [getAt_nil, Option.some.injEq] at h
    simp [h]
  | cons n t' ih =>
    intro r x h
    obtain ⟨es, c, hr, hc, hx⟩ := Node.getAt_cons_some h
    subst hr
    cases t' with
    | nil =>
      simp only [getAt_nil, Option.some.injEq] at hx
      subst hx
      rw [setAt_dir_single, entSet_entGet_same _ _ _ hc]
    | cons m t'' =>
      rw [setAt_dir_cons, hc]
      simp only
      rw [ih c x hx, entSet_entGet_same _ _ _ hc]

/-- a second write at the same place wins -/
theorem setAt_setAt_same (r : Node) (t : List Name) (v w : Node) : (r.setAt t v).setAt t w = r.setAt t w := by
  have := setAt_setAt_below v w [] t r
  simpa using this

/-- deleting below a place that was just set is deleting inside the value written -/
theorem delAt_setAt_below (v : Node) (s : List Name) (hs : s ≠ []) : ∀ (t : List Name) (r : Node),
    (r.setAt t v).delAt (t ++ s) = r.setAt t (v.delAt s) := by
  intro t
  induction t with
  | nil => intro r; simp
  | cons n t' ih =>
    intro r
    cases hd : r.isDir with
    | false =>
      rw [setAt_nondir _ _ _ _ hd, List.cons_append, delAt_nondir _ _ _ hd, setAt_nondir _ _ _ _ hd]
    | true =>
      cases r <;> simp [Node.isDir] at hd
      rename_i es
      cases t' with
      | nil =>
        rw [setAt_dir_single, setAt_dir_single]
        cases s with
        | nil => exact absurd rfl hs
        | cons m s' =>
          simp only [List.cons_append, List.nil_append]
          rw [delAt_dir_cons, entGet_entSet_self]
          simp [entSet_entSet_same]
      | cons m' t'' =>
        rw [setAt_dir_cons, setAt_dir_cons]
        cases hc : entGet es n with
        | none =>
          simp only [List.cons_append]
          rw [delAt_dir_cons, hc]
        | some c =>
          simp only [List.cons_append]
          rw [delAt_dir_cons, entGet_entSet_self]
          simp only [entSet_entSet_same]
          have := ih c
          simp only [List.cons_append] at this
          rw [this]

/-- setting a child of an existing directory = rewriting the directory's entry list -/
theorem setAt_child (root : Node) (par : List Name) (nm : Name) (pes : Entries) (v : Node)
    (hp : root.getAt par = some (.dir pes)) :
    root.setAt (par ++ [nm]) v = root.setAt par (.dir (entSet pes nm v)) := by
  have h := setAt_setAt_below (.dir pes) v [nm] par root
  rw [setAt_same par root _ hp, setAt_dir_single] at h
  exact h

/-- removing a child of an existing directory = rewriting the directory's entry list -/
theorem delAt_child (root : Node) (par : List Name) (nm : Name) (pes : Entries)
    (hp : root.getAt par = some (.dir pes)) :
    root.delAt (par ++ [nm]) = root.setAt par (.dir (entDel pes nm)) := by
  have h := delAt_setAt_below (.dir pes) [nm] (by simp) par root
  rw [setAt_same par root _ hp, delAt_dir_single] at h
  exact h

/-- removing what is not there changes nothing -/
theorem delAt_absent (root : Node) (par : List Name) (nm : Name) (pes : Entries)
    (hp : root.getAt par = some (.dir pes)) (hn : root.getAt (par ++ [nm]) = none) :
    root.delAt (par ++ [nm]) = root := by
  have he : entGet pes nm = none := by
    rw [Node.getAt_append, hp] at hn
    simp only [Option.bind_some, getAt_dir_cons] at hn
    cases hg : entGet pes nm with
    | none => rfl
    | some c => simp [hg] at hn
  rw [delAt_child root par nm pes hp, entDel_absent _ _ he, setAt_same par root _ hp]

theorem getAt_child (root : Node) (par : List Name) (nm : Name) (pes : Entries)
    (hp : root.getAt par = some (.dir pes)) : root.getAt (par ++ [nm]) = entGet pes nm := by
  rw [Node.getAt_append, hp]
  simp only [Option.bind_some, getAt_dir_cons]
  cases entGet pes nm <;> simp

/-! ## The exact effect of each operation on an existing plain target -/

/-- `File::create` + copy over an existing regular file: the same place, the new content -/
theorem execOp_copy_over (g : Fs) (c : Cfg) (sn tn : List Name) (k k' : Nat)
    (hs : g.root.getAt sn = some (.file k)) (ht : g.root.getAt tn = some (.file k'))
    (hne : sn ≠ tn) (hls : sn.length < 256) (hlt : tn.length < 256) :
    execOp g c (.copy (plainPath sn) (plainPath tn)) =
      some { g with root := g.root.setAt tn (.file k) } := by
  have hst := stat_plain g sn _ hls hs (noLinkUpto_of_getAt hs rfl)
  have htt := stat_plain g tn _ hlt ht (noLinkUpto_of_getAt ht rfl)
  have hr := resolve_plain_found g tn true _ hlt ht
    (fun p hp _ tg => noLinkUpto_of_getAt ht rfl p hp tg)
  simp [execOp, Fs.contentOf, hst, Fs.exists, htt, Fs.sameFile, hne, Fs.createFile, hr, ht, Except.toOption]

/-- `create_dir_all` of an existing directory -/
theorem execOp_mkdir_over (g : Fs) (c : Cfg) (tn : List Name) (es : Entries)
    (ht : g.root.getAt tn = some (.dir es)) (hlt : tn.length < 256) :
    execOp g c (.mkdir (plainPath tn)) = some g := by
  simp only [execOp]
  rw [mkdirAll_existing_dir g tn es hlt ht (noLinkUpto_of_getAt ht rfl)]
  rfl

/-- a special file over an existing non-directory (not a link): unlink, then mknod — the entry is re-created -/
theorem execOp_special_over (g : Fs) (c : Cfg) (hn : c.noClobber = false) (sn par : List Name) (nm : Name)
    (k : FileKind) (d : Nat) (pes : Entries) (x : Node)
    (hs : g.root.getAt sn = some (.special k d)) (hp : g.root.getAt par = some (.dir pes))
    (hnd : (pes.map (·.1)).Nodup)
    (ht : g.root.getAt (par ++ [nm]) = some x) (hxd : x.isDir = false) (hxl : x.isLink = false)
    (hne : sn ≠ par ++ [nm]) (hls : sn.length < 256) (hlt : par.length + 1 < 256) :
    execOp g c (.special (plainPath sn) (plainPath (par ++ [nm]))) =
      some { g with root := (g.root.delAt (par ++ [nm])).setAt (par ++ [nm]) (.special k d) } := by
  have hlt' : (par ++ [nm]).length < 256 := by simpa using hlt
  have hst := stat_plain g sn _ hls hs (noLinkUpto_of_getAt hs rfl)
  have htt := stat_plain g (par ++ [nm]) _ hlt' ht (noLinkUpto_of_getAt ht hxl)
  have hr := resolve_plain_found g (par ++ [nm]) false _ hlt' ht
    (fun p hp _ tg => noLinkUpto_of_getAt ht hxl p hp tg)
  -- unlink
  have hu : g.unlink (plainPath (par ++ [nm])) = .ok { g with root := g.root.delAt (par ++ [nm]) } := by
    cases x <;> simp [Node.isDir] at hxd <;> simp [Fs.unlink, hr, ht]
  -- the state after unlink
  have hdel := delAt_child g.root par nm pes hp
  have hp1 : (g.root.delAt (par ++ [nm])).getAt par = some (.dir (entDel pes nm)) := by
    rw [hdel]; exact getAt_setAt_exists g.root par _ _ hp
  have hn1 : (g.root.delAt (par ++ [nm])).getAt (par ++ [nm]) = none := by
    rw [getAt_child _ par nm _ hp1]
    exact entGet_entDel_self pes nm hnd
  have hr1 := resolve_plain_missing { g with root := g.root.delAt (par ++ [nm]) } par nm false _
    (by omega) hp1 hn1
  simp [execOp, hst, Fs.exists, htt, hn, Fs.sameFile, hne, hu, Fs.mknod, hr1, Except.toOption]

/-! ## Replacing a leaf: unique up to observation -/

theorem sameObs_of_replacedAt {r r1 r2 : Node} {ns : List Name} {w : ONode}
    (h1 : ReplacedAt r r1 ns w) (h2 : ReplacedAt r r2 ns w) : SameObs r1 r2 := by
  intro q
  by_cases hq : ns <+: q
  · obtain ⟨s, rfl⟩ := hq
    by_cases hs : s = []
    · subst hs
      simp only [List.append_nil]
      rw [h1.here, h2.here]
    · rw [h1.below s hs, h2.below s hs]
  · rw [h1.out q hq, h2.out q hq]

/-- unlink + re-create and overwrite in place differ in the order of directory entries only -/
theorem sameObs_reset_set (r : Node) (ns : List Name) (v : Node) (hns : ns ≠ []) (hp : ParentDir r ns)
    (hv : v.isDir = false) : SameObs ((r.delAt ns).setAt ns v) (r.setAt ns v) :=
  sameObs_of_replacedAt (replacedAt_reset r ns v hns hp (leafLike_nondir v hv))
    (replacedAt_setAt r ns v hns hp (leafLike_nondir v hv))

/-! ## `execOps` keeps the tree well-formed -/

theorem execOps_wf (c : Cfg) : ∀ (ops : List Op) (f f' : Fs), FsEq f f → execOps f c ops = ⟨.ok, f'⟩ →
    FsEq f' f' := by
  intro ops
  induction ops with
  | nil =>
    intro f f' hf h
    simp only [execOps, Outcome.mk.injEq, true_and] at h
    subst h
    exact hf
  | cons op r ih =>
    intro f f' hf h
    have hc := execOp_cong hf c op
    cases ho : execOp f c op with
    | none => simp [execOps, ho] at h
    | some f1 =>
      rw [ho] at hc
      simp only [execOps, ho] at h
      exact ih f1 f' hc h

end Xcp
