import XcpModel.Walker
/-! # The namespace result of an invocation depends only on the options that are about the namespace

`validate`, `targetBase`, `parseIgnore`, `walkEntry`, `execOp`, `execOps`, `runSources` and `L1run` consult exactly
five fields of `Cfg`: `noClobber`, `dereference`, `noTargetDir`, `gitignore`, `recursive`.  The driver
(`parblock`), `workers`, `bsize` (`--no-progress` sets it to the maximum), `fsync`, `noPerms`, `noTimestamps`,
`ownership`, `reflink`, `backup` and `linux` do not occur in them, so two invocations that agree on the five
fields (and on `force`, `glob`, `targetDir`, `paths`) have the same `L1run` outcome. -/
namespace Xcp

/-- agreement on exactly the `Cfg` fields that the namespace model (`Walker.lean`) consults -/
def Cfg.sameShape (c c' : Cfg) : Prop :=
  c.noClobber = c'.noClobber ∧ c.dereference = c'.dereference ∧ c.noTargetDir = c'.noTargetDir ∧
  c.gitignore = c'.gitignore ∧ c.recursive = c'.recursive

theorem Cfg.sameShape_refl (c : Cfg) : c.sameShape c := ⟨rfl, rfl, rfl, rfl, rfl⟩

theorem Cfg.sameShape_symm {c c' : Cfg} (h : c.sameShape c') : c'.sameShape c :=
  ⟨h.1.symm, h.2.1.symm, h.2.2.1.symm, h.2.2.2.1.symm, h.2.2.2.2.symm⟩

theorem Cfg.sameShape_trans {c c' c'' : Cfg} (h : c.sameShape c') (h' : c'.sameShape c'') : c.sameShape c'' :=
  ⟨h.1.trans h'.1, h.2.1.trans h'.2.1, h.2.2.1.trans h'.2.2.1, h.2.2.2.1.trans h'.2.2.2.1,
   h.2.2.2.2.trans h'.2.2.2.2⟩

theorem targetBase_congr {c c' : Cfg} (h : c.sameShape c') (fs : Fs) (dest src : RPath) :
    targetBase fs c dest src = targetBase fs c' dest src := by
  simp only [targetBase, h.2.2.1]

theorem parseIgnore_congr {c c' : Cfg} (h : c.sameShape c') (fs : Fs) (texts : GiTexts) (src : RPath) :
    parseIgnore fs c texts src = parseIgnore fs c' texts src := by
  simp only [parseIgnore, h.2.2.2.1]

theorem giIsDir_congr {c c' : Cfg} (h : c.sameShape c') (fs : Fs) (p : RPath) :
    giIsDir fs c p = giIsDir fs c' p := by
  simp only [giIsDir, h.2.1]

theorem walkEntry_congr {c c' : Cfg} (h : c.sameShape c') (fs : Fs) (gi : Ignore) (src tb : RPath)
    (fuel : Nat) (rel : List Name) (anc : List (List Name)) :
    walkEntry fs c gi src tb fuel rel anc = walkEntry fs c' gi src tb fuel rel anc := by
  induction fuel generalizing rel anc with
  | zero => simp only [walkEntry]
  | succ f ih =>
    simp only [walkEntry, giIsDir_congr h, h.1, h.2.1, ih]

theorem execOp_congr {c c' : Cfg} (h : c.sameShape c') (fs : Fs) (op : Op) :
    execOp fs c op = execOp fs c' op := by
  cases op <;> simp only [execOp, h.1]

theorem execOps_congr {c c' : Cfg} (h : c.sameShape c') (fs : Fs) (ops : List Op) :
    execOps fs c ops = execOps fs c' ops := by
  induction ops generalizing fs with
  | nil => simp only [execOps]
  | cons op r ih => simp only [execOps, execOp_congr h, ih]

theorem runSources_congr {c c' : Cfg} (h : c.sameShape c') (fs : Fs) (texts : GiTexts) (dest : RPath)
    (srcs : List RPath) :
    runSources fs c texts dest srcs = runSources fs c' texts dest srcs := by
  induction srcs generalizing fs with
  | nil => simp only [runSources]
  | cons s r ih =>
    simp only [runSources, targetBase_congr h, parseIgnore_congr h, walkEntry_congr h, execOps_congr h, ih]

theorem expandSources_congr {o o' : Opts} (hg : o.glob = o'.glob) (fs : Fs) (pats : List RPath) :
    expandSources fs o pats = expandSources fs o' pats := by
  simp only [expandSources, hg]

theorem checkSource_congr {o o' : Opts} (hc : o.cfg.sameShape o'.cfg) (fs : Fs) (dest src : RPath) :
    checkSource fs o dest src = checkSource fs o' dest src := by
  simp only [checkSource, targetBase_congr hc, hc.2.2.2.2]

theorem checkSources_congr {o o' : Opts} (hc : o.cfg.sameShape o'.cfg) (fs : Fs) (dest : RPath)
    (srcs : List RPath) :
    checkSources fs o dest srcs = checkSources fs o' dest srcs := by
  induction srcs with
  | nil => simp only [checkSources]
  | cons s r ih => simp only [checkSources, checkSource_congr hc, ih]

theorem validate_congr {o o' : Opts} (hc : o.cfg.sameShape o'.cfg) (hf : o.force = o'.force)
    (hg : o.glob = o'.glob) (ht : o.targetDir = o'.targetDir) (hp : o.paths = o'.paths) (fs : Fs) :
    validate fs o = validate fs o' := by
  simp only [validate, hc.1, hf, ht, hp, expandSources_congr hg, checkSources_congr hc]

/-- The outcome of a whole invocation (exit class and resulting namespace) is a function of the file system,
the `.gitignore` texts, `force`, `glob`, `targetDir`, `paths` and of the five `Cfg` fields in `sameShape` only. -/
theorem l1run_depends_only_on_shape_options (fs : Fs) (o o' : Opts) (texts : GiTexts)
    (hc : o.cfg.sameShape o'.cfg) (hf : o.force = o'.force) (hg : o.glob = o'.glob)
    (ht : o.targetDir = o'.targetDir) (hp : o.paths = o'.paths) :
    L1run fs o texts = L1run fs o' texts := by
  simp only [L1run, validate_congr hc hf hg ht hp, runSources_congr hc]

/-- Documentation corollary: the parallel-block driver, 64 workers, the maximal block size (`--no-progress`),
`--fsync`, `--no-perms`, `--no-timestamps`, `--ownership`, `--reflink=never` change nothing in the namespace
result. -/
theorem l1run_driver_and_metadata_options_irrelevant (fs : Fs) (o : Opts) (texts : GiTexts) :
    L1run fs { o with cfg := { o.cfg with parblock := true, workers := 64, bsize := 18446744073709551615,
                                           fsync := true, noPerms := true, noTimestamps := true,
                                           ownership := true, reflink := .never } } texts
      = L1run fs o texts :=
  l1run_depends_only_on_shape_options fs _ o texts ⟨rfl, rfl, rfl, rfl, rfl⟩ rfl rfl rfl rfl

/-- The same for every value of every field outside `sameShape` (including `backup` and `linux`). -/
theorem l1run_irrelevant_fields (fs : Fs) (o : Opts) (texts : GiTexts) (parblock : Bool) (workers bsize : Nat)
    (noPerms noTimestamps ownership fsync linux : Bool) (reflink : Reflink) (backup : BackupMode) :
    L1run fs { o with cfg := { o.cfg with parblock := parblock, workers := workers, bsize := bsize,
                                           fsync := fsync, noPerms := noPerms, noTimestamps := noTimestamps,
                                           ownership := ownership, reflink := reflink, backup := backup,
                                           linux := linux } } texts
      = L1run fs o texts :=
  l1run_depends_only_on_shape_options fs _ o texts ⟨rfl, rfl, rfl, rfl, rfl⟩ rfl rfl rfl rfl

end Xcp

#print axioms Xcp.walkEntry_congr
#print axioms Xcp.execOp_congr
#print axioms Xcp.execOps_congr
#print axioms Xcp.targetBase_congr
#print axioms Xcp.parseIgnore_congr
#print axioms Xcp.runSources_congr
#print axioms Xcp.validate_congr
#print axioms Xcp.l1run_depends_only_on_shape_options
#print axioms Xcp.l1run_driver_and_metadata_options_irrelevant
#print axioms Xcp.l1run_irrelevant_fields
