import XcpModel.Bytes
/-! Lemmas on the byte-level write model: pointwise semantics, commutation, coverage. -/
namespace Xcp
theorem writeAt_length (dst : List Byte) (off : Nat) (data : List Byte)
    (h : off + data.length ≤ dst.length) : (writeAt dst off data).length = dst.length := by
  simp [writeAt]; omega

/-- pointwise characterisation -/
theorem writeAt_getElem? (dst : List Byte) (off : Nat) (data : List Byte) (i : Nat)
    (h : off + data.length ≤ dst.length) :
    (writeAt dst off data)[i]? =
      if off ≤ i ∧ i < off + data.length then data[i - off]? else dst[i]? := by
  unfold writeAt
  by_cases h1 : i < off
  · rw [List.append_assoc, List.getElem?_append_left (by simp; omega)]
    simp [h1]; omega
  · by_cases h2 : i < off + data.length
    · rw [List.append_assoc, List.getElem?_append_right (by simp; omega)]
      rw [List.getElem?_append_left (by simp; omega)]
      simp [Nat.min_eq_left (by omega : off ≤ dst.length)]
      have : off ≤ i := by omega
      simp [this]; omega
    · rw [List.getElem?_append_right (by simp; omega)]
      simp [Nat.min_eq_left (by omega : off ≤ dst.length)]
      have : ¬ (off ≤ i ∧ i < off + data.length) := by omega
      simp [this]
      congr 1; omega

theorem copyRange_comm (src dst : List Byte) (o1 n1 o2 n2 : Nat)
    (hl : dst.length = src.length) (h1 : o1 + n1 ≤ src.length) (h2 : o2 + n2 ≤ src.length)
    (hd : o1 + n1 ≤ o2 ∨ o2 + n2 ≤ o1) :
    copyRange src (copyRange src dst o1 n1) o2 n2 = copyRange src (copyRange src dst o2 n2) o1 n1 := by
  apply List.ext_getElem?
  intro i
  unfold copyRange
  have l1 : ((src.drop o1).take n1).length = n1 := by simp; omega
  have l2 : ((src.drop o2).take n2).length = n2 := by simp; omega
  rw [writeAt_getElem? _ _ _ _ (by rw [writeAt_length _ _ _ (by omega)]; omega)]
  rw [writeAt_getElem? _ _ _ _ (by omega)]
  rw [writeAt_getElem? _ _ _ _ (by rw [writeAt_length _ _ _ (by omega)]; omega)]
  rw [writeAt_getElem? _ _ _ _ (by omega)]
  simp only [l1, l2]
  split <;> split <;> first | rfl | omega
theorem copyRange_get (src dst : List Byte) (off n i : Nat) (hl : dst.length = src.length) (h : off + n ≤ src.length) :
    (copyRange src dst off n)[i]? = if off ≤ i ∧ i < off + n then src[i]? else dst[i]? := by
  have l1 : ((src.drop off).take n).length = n := by simp; omega
  unfold copyRange
  rw [writeAt_getElem? _ _ _ _ (by omega)]
  simp only [l1]
  split
  · rename_i hc
    simp [List.getElem?_take, List.getElem?_drop]
    have h1 : i - off < n := by omega
    have h2 : off + (i - off) = i := by omega
    simp [h1, h2]
  · rfl

theorem copyRange_length (src dst : List Byte) (off n : Nat) (hl : dst.length = src.length) (h : off + n ≤ src.length) :
    (copyRange src dst off n).length = src.length := by
  unfold copyRange; rw [writeAt_length]; exact hl
  simp; omega

theorem runJobs_get (src : List Byte) : ∀ (l : List (Nat × Nat)) (dst : List Byte),
    dst.length = src.length → (∀ j ∈ l, j.1 + j.2 ≤ src.length) → ∀ i,
    (runJobs src dst l)[i]? = if covered l i then src[i]? else dst[i]? := by
  intro l
  induction l with
  | nil => intro dst _ _ i; simp [runJobs, covered]
  | cons j t ih =>
    intro dst hl hin i
    have hj := hin j (by simp)
    have := ih (copyRange src dst j.1 j.2) (copyRange_length src dst j.1 j.2 hl hj) (fun k hk => hin k (by simp [hk])) i
    simp only [runJobs, List.foldl_cons] at this ⊢
    rw [this, copyRange_get src dst j.1 j.2 i hl hj]
    by_cases c1 : covered t i
    · have : covered (j :: t) i := by obtain ⟨k, hk, hc⟩ := c1; exact ⟨k, by simp [hk], hc⟩
      simp [c1, this]
    · by_cases c2 : j.1 ≤ i ∧ i < j.1 + j.2
      · have : covered (j :: t) i := ⟨j, by simp, c2⟩
        simp [c1, c2, this]
      · have : ¬ covered (j :: t) i := by
          rintro ⟨k, hk, hc⟩
          rcases List.mem_cons.mp hk with rfl | hk
          · exact c2 hc
          · exact c1 ⟨k, hk, hc⟩
        simp [c1, c2, this]

/-- any two job lists covering the same positions give the same file; in particular any order, any
    duplication (retries), any split of a block into short copies -/
theorem runJobs_ext (src dst : List Byte) (l1 l2 : List (Nat × Nat)) (hl : dst.length = src.length)
    (h1 : ∀ j ∈ l1, j.1 + j.2 ≤ src.length) (h2 : ∀ j ∈ l2, j.1 + j.2 ≤ src.length)
    (hc : ∀ i, covered l1 i ↔ covered l2 i) : runJobs src dst l1 = runJobs src dst l2 := by
  apply List.ext_getElem?; intro i
  rw [runJobs_get src l1 dst hl h1, runJobs_get src l2 dst hl h2]
  by_cases c : covered l1 i
  · simp [c, (hc i).mp c]
  · have : ¬ covered l2 i := fun h => c ((hc i).mpr h)
    simp [c, this]

/-- if the jobs cover every position where src is non-zero and dst starts as zeros, the result is src -/
theorem runJobs_exact (src : List Byte) (l : List (Nat × Nat))
    (hin : ∀ j ∈ l, j.1 + j.2 ≤ src.length)
    (hcov : ∀ i, i < src.length → ¬ covered l i → src[i]? = some 0) :
    runJobs src (List.replicate src.length 0) l = src := by
  apply List.ext_getElem?; intro i
  rw [runJobs_get src l _ (by simp) hin]
  by_cases c : covered l i
  · simp [c]
  · simp only [c, if_false]
    by_cases hi : i < src.length
    · rw [hcov i hi c]; simp [hi]
    · have h1 : src.length ≤ i := by omega
      rw [List.getElem?_eq_none (by simpa using h1), List.getElem?_eq_none h1]

end Xcp
