import XcpModel.Walker
/-! Vocabulary for the frame / preservation theorems over the namespace model. -/
namespace Xcp

def opTarget : Op → Option RPath
  | .mkdir t => some t
  | .copy _ t => some t
  | .link _ t => some t
  | .special _ t => some t
  | .fail => none

/-- the names of a path all of whose components are plain names -/
def RPath.names (p : RPath) : List Name := p.comps.filterMap fun c => match c with | .name n => some n | _ => none

/-- A *plain* target: absolute, spelled with names only (no `.`/`..`, no trailing slash), and no symbolic link
at it or at any of its ancestors — so the kernel resolves it to exactly the place it spells. -/
def PlainTarget (fs : Fs) (t : RPath) : Prop :=
  t.abs = true ∧ t.trail = false ∧ (∀ c ∈ t.comps, ∃ n, c = .name n) ∧
  ∀ p, p <+: t.names → ∀ tg, fs.root.getAt p ≠ some (.link tg)

/-- what "not modified, replaced, truncated, renamed or removed" means for one entry: a directory is still a
directory (it may have gained entries), anything else is identical -/
def Kept (old new : Option Node) : Prop :=
  match old with
  | none => True
  | some (.dir _) => ∃ es, new = some (.dir es)
  | some n => new = some n

def Preserved (r0 r : Node) : Prop := ∀ q, Kept (r0.getAt q) (r.getAt q)

/-- every operation is executed at a moment when its target does not exist (`lstat` fails) -/
def FreshRun (fs : Fs) (c : Cfg) : List Op → Prop
  | [] => True
  | op :: r => (∀ t, opTarget op = some t → fs.lexists t = false) ∧
      match execOp fs c op with
      | some fs' => FreshRun fs' c r
      | none => True

end Xcp
