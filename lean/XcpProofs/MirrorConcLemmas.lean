import XcpProofs.Mirror
import XcpProofs.L0Fs
/-! # The operations of a fresh-destination copy under every interleaving

Static facts about `opsOf` (each operation is the entry operation `headOp` of some node of the source tree; no
duplicates; pairwise independent; parents are created first) and the invariant of the concurrent runs over them:
every operation that is executed finds its source untouched, its parent directory present and its target absent,
so it succeeds and writes exactly the node's stub at the target. -/
namespace Xcp

open L0

/-! ## Small facts -/

theorem plainPath_names (ns : List Name) : (plainPath ns).names = ns := by
  induction ns with
  | nil => rfl
  | cons a r ih =>
    simp only [RPath.names, plainPath, List.map_cons, List.filterMap_cons] at ih ⊢
    rw [ih]

theorem plainPath_inj {a b : List Name} (h : plainPath a = plainPath b) : a = b := by
  rw [← plainPath_names a, h, plainPath_names]

theorem plainPath_namesOnly (ns : List Name) : NamesOnly (plainPath ns) :=
  ⟨rfl, rfl, by intro c hc; simp only [plainPath, List.mem_map] at hc; obtain ⟨n, _, hn⟩ := hc; exact ⟨n, hn.symm⟩⟩

theorem obsAt_eq_none {r : Node} {q : List Name} : obsAt r q = none ↔ r.getAt q = none := by
  simp [obsAt]

theorem execOps_seqExec (c : Cfg) : ∀ (ops : List Op) (fs f : Fs), execOps fs c ops = ⟨.ok, f⟩ →
    seqExec c (some fs) ops = some f := by
  intro ops
  induction ops with
  | nil => intro fs f h; simp only [execOps, Outcome.mk.injEq, true_and] at h; simp [seqExec, h]
  | cons op r ih =>
    intro fs f h
    simp only [execOps] at h
    rw [seqExec_cons]
    cases hx : execOp fs c op with
    | none => rw [hx] at h; simp at h
    | some g => rw [hx] at h; exact ih g f h

/-- unrelated bases stay unrelated whatever is appended -/
theorem unrel_append {S T : List Name} (h1 : ¬ S <+: T) (h2 : ¬ T <+: S) (a b : List Name) :
    Unrel (S ++ a) (T ++ b) := by
  constructor
  · intro h
    rcases List.prefix_or_prefix_of_prefix ((List.prefix_append S a).trans h) (List.prefix_append T b) with h | h
    · exact h1 h
    · exact h2 h
  · intro h
    rcases List.prefix_or_prefix_of_prefix ((List.prefix_append T b).trans h) (List.prefix_append S a) with h | h
    · exact h2 h
    · exact h1 h

/-! ## The entry operation of a node -/

/-- the operation the walk emits for the entry itself -/
def headOp : Node → List Name → List Name → Op
  | .file _, sn, tn => .copy (plainPath sn) (plainPath tn)
  | .link t, _, tn => .link t (plainPath tn)
  | .special _ _, sn, tn => .special (plainPath sn) (plainPath tn)
  | .dir _, _, tn => .mkdir (plainPath tn)

/-- what that operation writes at the target -/
def stub : Node → Node
  | .dir _ => .dir []
  | n => n

theorem headOp_target (m : Node) (sn tn : List Name) : opTarget (headOp m sn tn) = some (plainPath tn) := by
  cases m <;> rfl

theorem stub_obs (m : Node) : (stub m).obs = m.obs := by cases m <;> rfl

theorem stub_leafLike (m : Node) : LeafLike (stub m) := by
  cases m with
  | dir es => exact leafLike_emptyDir
  | file k => exact leafLike_nondir _ rfl
  | link t => exact leafLike_nondir _ rfl
  | special k d => exact leafLike_nondir _ rfl

theorem headOp_srcOf (m : Node) (sn tn : List Name) (s : RPath) (h : srcOf (headOp m sn tn) = some s) :
    s = plainPath sn ∧ m.isDir = false ∧ m.isLink = false := by
  cases m <;> simp [headOp, srcOf] at h <;> exact ⟨h.symm, rfl, rfl⟩

theorem headOp_isLinkOp (m : Node) (sn tn : List Name) : isLinkOp (headOp m sn tn) = m.isLink := by
  cases m <;> rfl

theorem headOp_isSync (m : Node) (sn tn : List Name) : isSync (headOp m sn tn) = m.isDir := by
  cases m <;> rfl

theorem headOp_mkdir (m : Node) (sn tn : List Name) (t : RPath) (h : headOp m sn tn = .mkdir t) :
    t = plainPath tn ∧ stub m = .dir [] := by
  cases m <;> simp [headOp] at h
  exact ⟨h.symm, rfl⟩

theorem exec_headOp (g : Fs) (c : Cfg) (m : Node) (sn par : List Name) (nm : Name) (pes : Entries)
    (hs : g.root.getAt sn = some m) (hls : sn.length < 256) (hlt : par.length < 256)
    (hp : g.root.getAt par = some (.dir pes)) (hn : g.root.getAt (par ++ [nm]) = none) :
    execOp g c (headOp m sn (par ++ [nm])) = some { g with root := g.root.setAt (par ++ [nm]) (stub m) } := by
  cases m with
  | file k => exact execOp_copy_fresh g c sn par nm k pes hs hls hlt hp hn
  | link t => exact execOp_link_fresh g c t par nm pes hlt hp hn
  | special k d => exact execOp_special_fresh g c sn par nm k d pes hs hls hlt hp hn
  | dir es => exact execOp_mkdir_fresh g c par nm pes hlt hp hn

/-! ## Membership in `opsOf` -/

theorem mem_opsOfL {es : List (Name × Node)} {sn tn : List Name} {x : Op} (h : x ∈ opsOfL es sn tn) :
    ∃ e ∈ es, x ∈ opsOf e.2 (sn ++ [e.1]) (tn ++ [e.1]) := by
  induction es with
  | nil => simp [opsOfL] at h
  | cons e r ih =>
    obtain ⟨m, ch⟩ := e
    simp only [opsOfL, List.mem_append] at h
    rcases h with h | h
    · exact ⟨(m, ch), List.mem_cons_self, h⟩
    · obtain ⟨e, he, hx⟩ := ih h
      exact ⟨e, List.mem_cons_of_mem _ he, hx⟩

/-- every operation of `opsOf` is the entry operation of some node of the tree -/
theorem mem_opsOf : ∀ (d : Nat) (n : Node), n.Copyable d → ∀ (sn tn : List Name) (x : Op), x ∈ opsOf n sn tn →
    ∃ rel m, n.getAt rel = some m ∧ rel.length ≤ d ∧ x = headOp m (sn ++ rel) (tn ++ rel) := by
  intro d
  induction d with
  | zero =>
    intro n hc sn tn x hx
    cases n with
    | dir es => simp [Node.Copyable] at hc
    | file k => simp only [opsOf, List.mem_singleton] at hx; exact ⟨[], _, rfl, Nat.le_refl _, by simp [hx, headOp]⟩
    | link t => simp only [opsOf, List.mem_singleton] at hx; exact ⟨[], _, rfl, Nat.le_refl _, by simp [hx, headOp]⟩
    | special k dv =>
      simp only [opsOf, List.mem_singleton] at hx; exact ⟨[], _, rfl, Nat.le_refl _, by simp [hx, headOp]⟩
  | succ d ih =>
    intro n hc sn tn x hx
    cases n with
    | file k => simp only [opsOf, List.mem_singleton] at hx; exact ⟨[], _, rfl, Nat.zero_le _, by simp [hx, headOp]⟩
    | link t => simp only [opsOf, List.mem_singleton] at hx; exact ⟨[], _, rfl, Nat.zero_le _, by simp [hx, headOp]⟩
    | special k dv =>
      simp only [opsOf, List.mem_singleton] at hx; exact ⟨[], _, rfl, Nat.zero_le _, by simp [hx, headOp]⟩
    | dir es =>
      obtain ⟨d', hd', hnd, hch⟩ := copyable_dir hc
      have hd'' : d' = d := by omega
      subst hd''
      simp only [opsOf, List.mem_cons] at hx
      rcases hx with hx | hx
      · exact ⟨[], _, rfl, Nat.zero_le _, by simp [hx, headOp]⟩
      · obtain ⟨e, he, hxe⟩ := mem_opsOfL hx
        obtain ⟨rel, m, hg, hl, hxm⟩ := ih e.2 (hch e he) _ _ x hxe
        refine ⟨e.1 :: rel, m, ?_, by simp only [List.length_cons]; omega, ?_⟩
        · rw [getAt_dir_cons, entGet_of_mem es hnd e he]; exact hg
        · simpa [List.append_assoc] using hxm

/-- targets of `opsOf n sn tn` are at or below `tn` -/
theorem opsOf_target_under {d : Nat} {n : Node} (hc : n.Copyable d) {sn tn : List Name} {x : Op}
    (hx : x ∈ opsOf n sn tn) : ∃ t, opTarget x = some (plainPath t) ∧ tn <+: t := by
  obtain ⟨rel, m, _, _, hxm⟩ := mem_opsOf d n hc sn tn x hx
  exact ⟨tn ++ rel, by rw [hxm, headOp_target], List.prefix_append _ _⟩

/-! ## No duplicates -/

theorem opsOf_nodup : ∀ (d : Nat) (n : Node), n.Copyable d → ∀ (sn tn : List Name), (opsOf n sn tn).Nodup := by
  intro d
  induction d with
  | zero =>
    intro n hc sn tn
    cases n with
    | dir es => simp [Node.Copyable] at hc
    | file k => simp [opsOf]
    | link t => simp [opsOf]
    | special k dv => simp [opsOf]
  | succ d ih =>
    intro n hc sn tn
    cases n with
    | file k => simp [opsOf]
    | link t => simp [opsOf]
    | special k dv => simp [opsOf]
    | dir es =>
      obtain ⟨d', hd', hnd, hch⟩ := copyable_dir hc
      have hd'' : d' = d := by omega
      subst hd''
      simp only [opsOf, List.nodup_cons]
      constructor
      · intro hmem
        obtain ⟨e, he, hxe⟩ := mem_opsOfL hmem
        obtain ⟨t, ht, hpre⟩ := opsOf_target_under (hch e he) hxe
        simp only [opTarget, Option.some.injEq] at ht
        have := plainPath_inj ht
        subst this
        have := hpre.length_le
        simp only [List.length_append, List.length_cons, List.length_nil] at this
        omega
      · -- the children, with distinct names
        have key : ∀ (l : List (Name × Node)), (l.map (·.1)).Nodup → (∀ e ∈ l, e.2.Copyable d') →
            (opsOfL l sn tn).Nodup := by
          intro l
          induction l with
          | nil => intro _ _; simp [opsOfL]
          | cons e r ihl =>
            intro hndl hcl
            obtain ⟨m, ch⟩ := e
            simp only [List.map_cons, List.nodup_cons] at hndl
            simp only [opsOfL]
            rw [List.nodup_append]
            refine ⟨ih ch (hcl _ List.mem_cons_self) _ _,
              ihl hndl.2 (fun e he => hcl e (List.mem_cons_of_mem _ he)), ?_⟩
            intro a ha b hb hab
            subst hab
            obtain ⟨t1, ht1, hp1⟩ := opsOf_target_under (hcl _ List.mem_cons_self) ha
            obtain ⟨e', he', hxe'⟩ := mem_opsOfL hb
            obtain ⟨t2, ht2, hp2⟩ := opsOf_target_under (hcl e' (List.mem_cons_of_mem _ he')) hxe'
            rw [ht1] at ht2
            have := plainPath_inj (Option.some.inj ht2)
            subst this
            have hlen : (tn ++ [m]).length = (tn ++ [e'.1]).length := by simp
            have heq : tn ++ [m] = tn ++ [e'.1] := by
              rcases List.prefix_or_prefix_of_prefix hp1 hp2 with h | h
              · exact h.eq_of_length hlen
              · exact (h.eq_of_length hlen.symm).symm
            have hm : m = e'.1 := by simpa using heq
            apply hndl.1
            rw [hm]
            exact List.mem_map.2 ⟨e', he', rfl⟩
        exact key es hnd hch

/-! ## Pairwise independence -/

theorem getAt_proper_prefix_dir {n m : Node} {a b : List Name} (h : n.getAt (a ++ b) = some m) (hb : b ≠ []) :
    ∃ es, n.getAt a = some (.dir es) := by
  rw [Node.getAt_append] at h
  cases hy : n.getAt a with
  | none => simp [hy] at h
  | some y =>
    simp only [hy, Option.bind_some] at h
    cases b with
    | nil => exact absurd rfl hb
    | cons x b' =>
      obtain ⟨es, _, hyd, _, _⟩ := Node.getAt_cons_some h
      exact ⟨es, by rw [hyd]⟩

/-- the static facts about the operations of a fresh-destination copy -/
structure OpsSpec (srcNode : Node) (S T : List Name) (d : Nat) (ops : List Op) : Prop where
  char : ∀ x ∈ ops, ∃ rel m, srcNode.getAt rel = some m ∧ rel.length ≤ d ∧ x = headOp m (S ++ rel) (T ++ rel)
  un1 : ¬ S <+: T
  un2 : ¬ T <+: S
  tne : T ≠ []
  lenS : S.length + d < 256
  lenT : T.length + d < 256

theorem OpsSpec.pairIndep {srcNode : Node} {S T : List Name} {d : Nat} {ops : List Op}
    (h : OpsSpec srcNode S T d ops) : PairIndep ops := by
  intro x hx y hy hxy hsx
  obtain ⟨rx, mx, hgx, _, ex⟩ := h.char x hx
  obtain ⟨ry, my, hgy, _, ey⟩ := h.char y hy
  right
  refine ⟨plainPath (T ++ rx), plainPath (T ++ ry), by rw [ex, headOp_target], by rw [ey, headOp_target],
    plainPath_namesOnly _, plainPath_namesOnly _, ?_, ?_, ?_⟩
  · simp only [plainPath_names]
    have hmx : mx.isDir = false := by rw [ex, headOp_isSync] at hsx; exact hsx
    rcases prefix_cases rx ry with ⟨s, hs⟩ | ⟨h1, h2⟩ | ⟨h1, h2⟩
    · -- `ry` at or below `rx`: `mx` is a leaf, so `ry = rx`, so `x = y`
      subst hs
      by_cases hs0 : s = []
      · subst hs0
        rw [List.append_nil] at hgy ey
        rw [hgx] at hgy
        injection hgy with hgy
        subst hgy
        exact absurd (ex.trans ey.symm) hxy
      · obtain ⟨es, hes⟩ := getAt_proper_prefix_dir hgy hs0
        rw [hgx] at hes
        injection hes with hes
        subst hes
        cases hmx
    · -- `ry` strictly above `rx`: `y` creates an ancestor directory
      right
      obtain ⟨s, hs⟩ := h1
      subst hs
      have hs0 : s ≠ [] := fun h0 => h2 (by rw [h0, List.append_nil])
      obtain ⟨es, hes⟩ := getAt_proper_prefix_dir hgx hs0
      rw [hgy] at hes
      injection hes with hes
      subst hes
      refine ⟨⟨_, ey⟩, ?_, ?_⟩
      · rw [← List.append_assoc]; exact List.prefix_append _ _
      · intro heq
        have := List.append_cancel_left heq
        exact h2 this
    · left
      exact ⟨fun hh => h1 ((List.prefix_append_right_inj T).1 hh), fun hh => h2 ((List.prefix_append_right_inj T).1 hh)⟩
  · intro s hs
    rw [ex] at hs
    obtain ⟨e, _, _⟩ := headOp_srcOf _ _ _ _ hs
    subst e
    simp only [plainPath_names]
    exact ⟨plainPath_namesOnly _, unrel_append h.un1 h.un2 _ _⟩
  · intro s hs
    rw [ey] at hs
    obtain ⟨e, _, _⟩ := headOp_srcOf _ _ _ _ hs
    subst e
    simp only [plainPath_names]
    exact ⟨plainPath_namesOnly _, unrel_append h.un1 h.un2 _ _⟩

/-- distinct operations have distinct targets -/
theorem OpsSpec.tgt_ne {srcNode : Node} {S T : List Name} {d : Nat} {ops : List Op}
    (h : OpsSpec srcNode S T d ops) {x y : Op} (hy : y ∈ ops) (hxy : x ≠ y)
    {rx : List Name} {mx : Node} (ex : x = headOp mx (S ++ rx) (T ++ rx)) (hgx : srcNode.getAt rx = some mx)
    {t : RPath} (ht : opTarget y = some t) : t.names ≠ T ++ rx := by
  obtain ⟨ry, my, hgy, _, ey⟩ := h.char y hy
  rw [ey, headOp_target] at ht
  have := Option.some.inj ht
  subst this
  rw [plainPath_names]
  intro heq
  have := List.append_cancel_left heq
  subst this
  rw [hgx] at hgy
  injection hgy with hgy
  subst hgy
  exact hxy (ex.trans ey.symm)

/-! ## Parents are created first -/

/-- the operations can be walked in this order: the parent directory of each target is in `D`, where `D` grows by
the target of each `mkdir` walked -/
def TodoOK : (List Name → Prop) → List Op → Prop
  | _, [] => True
  | D, x :: r => (∀ t, opTarget x = some t → D t.names.dropLast) ∧
      TodoOK (fun p => D p ∨ ∃ t, x = .mkdir t ∧ p = t.names) r

theorem TodoOK.mono : ∀ (l : List Op) (D D' : List Name → Prop), (∀ p, D p → D' p) → TodoOK D l → TodoOK D' l := by
  intro l
  induction l with
  | nil => intro _ _ _ _; trivial
  | cons x r ih =>
    intro D D' hsub h
    refine ⟨fun t ht => hsub _ (h.1 t ht), ih _ _ ?_ h.2⟩
    intro p hp
    rcases hp with hp | hp
    · exact .inl (hsub p hp)
    · exact .inr hp

theorem todoOK_opsOf : ∀ (d : Nat) (n : Node), n.Copyable d → ∀ (sn tn : List Name) (D : List Name → Prop)
    (rest : List Op), D tn.dropLast → (∀ D' : List Name → Prop, (∀ p, D p → D' p) → TodoOK D' rest) →
    TodoOK D (opsOf n sn tn ++ rest) := by
  intro d
  induction d with
  | zero =>
    intro n hc sn tn D rest hD hrest
    have leaf : ∀ x : Op, opTarget x = some (plainPath tn) → TodoOK D (x :: rest) := by
      intro x hx
      refine ⟨?_, hrest _ (fun p hp => .inl hp)⟩
      intro t ht
      rw [hx] at ht
      have := Option.some.inj ht
      subst this
      rw [plainPath_names]; exact hD
    cases n with
    | dir es => simp [Node.Copyable] at hc
    | file k => exact leaf _ rfl
    | link t => exact leaf _ rfl
    | special k dv => exact leaf _ rfl
  | succ d ih =>
    intro n hc sn tn D rest hD hrest
    have leaf : ∀ x : Op, opTarget x = some (plainPath tn) → TodoOK D (x :: rest) := by
      intro x hx
      refine ⟨?_, hrest _ (fun p hp => .inl hp)⟩
      intro t ht
      rw [hx] at ht
      have := Option.some.inj ht
      subst this
      rw [plainPath_names]; exact hD
    cases n with
    | file k => exact leaf _ rfl
    | link t => exact leaf _ rfl
    | special k dv => exact leaf _ rfl
    | dir es =>
      obtain ⟨d', hd', hnd, hch⟩ := copyable_dir hc
      have hd'' : d' = d := by omega
      subst hd''
      simp only [opsOf, List.cons_append]
      refine ⟨?_, ?_⟩
      · intro t ht
        simp only [opTarget, Option.some.injEq] at ht
        subst ht
        rw [plainPath_names]; exact hD
      · have key : ∀ (l : List (Name × Node)), (∀ e ∈ l, e.2.Copyable d') → ∀ (D1 : List Name → Prop),
            (∀ p, D p → D1 p) → D1 tn → TodoOK D1 (opsOfL l sn tn ++ rest) := by
          intro l
          induction l with
          | nil => intro _ D1 h1 _; simpa [opsOfL] using hrest D1 h1
          | cons e r ihl =>
            intro hcl D1 h1 htn
            obtain ⟨m, ch⟩ := e
            simp only [opsOfL, List.append_assoc]
            apply ih ch (hcl _ List.mem_cons_self)
            · rw [List.dropLast_concat]; exact htn
            · intro D2 h2
              exact ihl (fun e he => hcl e (List.mem_cons_of_mem _ he)) D2 (fun p hp => h2 p (h1 p hp)) (h2 _ htn)
        apply key es hch
        · intro p hp; exact .inl hp
        · exact .inr ⟨_, rfl, (plainPath_names tn).symm⟩

/-! ## One operation executed in a state where it is due -/

def DirsOf (g : Fs) : List Name → Prop := fun p => ∃ es, g.root.getAt p = some (.dir es)

/-- what the execution of the entry operation of the node at `rel` leaves -/
structure Post (srcNode : Node) (S T : List Name) (g g' : Fs) (x : Op) (rel : List Name) : Prop where
  src : g'.root.getAt S = some srcNode
  dirs : ∀ p, DirsOf g p → DirsOf g' p
  made : ∀ t, x = .mkdir t → DirsOf g' t.names
  fresh : ∀ t', t' ≠ T ++ rel → g.root.getAt t' = none → g'.root.getAt t' = none
  kinds : (∀ rel n, srcNode.getAt rel = some n → obsAt g.root (T ++ rel) = none ∨ obsAt g.root (T ++ rel) = some n.obs) →
    ∀ rel n, srcNode.getAt rel = some n → obsAt g'.root (T ++ rel) = none ∨ obsAt g'.root (T ++ rel) = some n.obs

theorem exec_due {srcNode : Node} {S T : List Name} {d : Nat} {ops : List Op} (h : OpsSpec srcNode S T d ops)
    (c : Cfg) (g : Fs) (x : Op) (rel : List Name) (m : Node) (hg : srcNode.getAt rel = some m) (hl : rel.length ≤ d)
    (ex : x = headOp m (S ++ rel) (T ++ rel))
    (hsrc : g.root.getAt S = some srcNode) (hpar : DirsOf g (T ++ rel).dropLast)
    (hfresh : g.root.getAt (T ++ rel) = none) :
    ∃ g', execOp g c x = some g' ∧ Post srcNode S T g g' x rel := by
  have hne : T ++ rel ≠ [] := by
    intro h0
    exact h.tne (List.append_eq_nil_iff.1 h0).1
  have hpd : ParentDir g.root (T ++ rel) := hpar
  rcases List.eq_nil_or_concat (T ++ rel) with h0 | ⟨par, nm, h0⟩
  · exact absurd h0 hne
  simp only [List.concat_eq_append] at h0
  obtain ⟨pes, hpes⟩ := hpar
  rw [h0, List.dropLast_concat] at hpes
  have hlen : par.length < 256 := by
    have := congrArg List.length h0
    simp only [List.length_append, List.length_cons, List.length_nil] at this
    have := h.lenT
    omega
  have hs : g.root.getAt (S ++ rel) = some m := by rw [Node.getAt_append, hsrc]; exact hg
  have hx := exec_headOp g c m (S ++ rel) par nm pes hs
    (by simp only [List.length_append]; have := h.lenS; omega) hlen hpes (by rw [← h0]; exact hfresh)
  rw [← h0, ← ex] at hx
  refine ⟨_, hx, ?_⟩
  have R := replacedAt_setAt g.root (T ++ rel) (stub m) hne hpd (stub_leafLike m)
  have hU := unrel_append h.un1 h.un2 [] rel
  rw [List.append_nil] at hU
  refine ⟨?_, ?_, ?_, ?_, ?_⟩
  · show (g.root.setAt (T ++ rel) (stub m)).getAt S = some srcNode
    rw [getAt_setAt_unrelated _ _ _ _ hU.2 hU.1]; exact hsrc
  · rintro p ⟨es, hes⟩
    show ∃ es', (g.root.setAt (T ++ rel) (stub m)).getAt p = some (.dir es')
    by_cases hp : T ++ rel <+: p
    · obtain ⟨s, hs⟩ := hp
      rw [← hs, getAt_append_none _ _ _ hfresh] at hes
      cases hes
    · apply getAt_dir_of_obs
      rw [R.out p hp]
      exact obsAt_dir hes
  · intro t ht
    rw [ex] at ht
    obtain ⟨e1, e2⟩ := headOp_mkdir _ _ _ _ ht
    subst e1
    rw [plainPath_names]
    exact ⟨[], by rw [← e2]; exact getAt_setAt_eff _ _ _ hne hpd⟩
  · intro t' hne' hn'
    show (g.root.setAt (T ++ rel) (stub m)).getAt t' = none
    rw [← obsAt_eq_none]
    by_cases hp : T ++ rel <+: t'
    · obtain ⟨s, hs⟩ := hp
      subst hs
      apply R.below
      intro h0
      apply hne'
      rw [h0, List.append_nil]
    · rw [R.out t' hp, obsAt_eq_none]; exact hn'
  · intro hk rel' n' hg'
    show obsAt (g.root.setAt (T ++ rel) (stub m)) (T ++ rel') = none ∨ _ = some n'.obs
    by_cases hp : T ++ rel <+: T ++ rel'
    · obtain ⟨s, hs⟩ := hp
      by_cases hs0 : s = []
      · subst hs0
        rw [List.append_nil] at hs
        have := List.append_cancel_left hs
        subst this
        rw [hg] at hg'
        injection hg' with hg'
        subst hg'
        right
        rw [R.here, stub_obs]
      · left
        rw [← hs]
        exact R.below s hs0
    · rw [R.out _ hp]
      exact hk rel' n' hg'

/-! ## The invariant of the concurrent runs -/

structure MInv (srcNode : Node) (S T : List Name) (ops : List Op) (s : St) : Prop where
  ok : s.failed = false
  src : s.fs.root.getAt S = some srcNode
  base : DirsOf s.fs T.dropLast
  todo : TodoOK (DirsOf s.fs) s.todo
  qpar : ∀ x ∈ s.queue, ∀ t, opTarget x = some t → DirsOf s.fs t.names.dropLast
  fresh : ∀ x ∈ s.queue ++ s.todo, ∀ t, opTarget x = some t → s.fs.root.getAt t.names = none
  kinds : ∀ rel n, srcNode.getAt rel = some n →
    obsAt s.fs.root (T ++ rel) = none ∨ obsAt s.fs.root (T ++ rel) = some n.obs
  mem : ∀ x ∈ s.queue ++ s.todo, x ∈ ops
  nodup : (s.queue ++ s.todo).Nodup

theorem MInv.init {srcNode : Node} {S T : List Name} {d : Nat} {ops : List Op} (h : OpsSpec srcNode S T d ops)
    (fs : Fs) (hsn : fs.root.getAt S = some srcNode) (hpar : DirsOf fs T.dropLast)
    (habs : fs.root.getAt T = none) (htodo : TodoOK (DirsOf fs) ops) (hnd : ops.Nodup) :
    MInv srcNode S T ops (L0.init fs ops) := by
  refine ⟨rfl, hsn, hpar, htodo, ?_, ?_, ?_, ?_, ?_⟩
  · intro x hx; cases hx
  · intro x hx t ht
    simp only [L0.init, List.nil_append] at hx
    obtain ⟨rel, m, _, _, ex⟩ := h.char x hx
    rw [ex, headOp_target] at ht
    have := Option.some.inj ht
    subst this
    rw [plainPath_names]
    exact getAt_append_none _ _ _ habs
  · intro rel n _
    left
    rw [obsAt_eq_none]
    exact getAt_append_none _ _ _ habs
  · intro x hx; simpa [L0.init] using hx
  · simpa [L0.init] using hnd

theorem MInv.step {srcNode : Node} {S T : List Name} {d : Nat} {ops : List Op} (h : OpsSpec srcNode S T d ops)
    (c : Cfg) (s s1 : St) (l : Label) (hinv : MInv srcNode S T ops s) (hstep : L0.step c s l = some s1) :
    MInv srcNode S T ops s1 := by
  obtain ⟨hok, hsrc, hbase, htodo, hqpar, hfresh, hkinds, hmem, hnd⟩ := hinv
  cases l with
  | walk =>
    simp only [L0.step, hok, Bool.false_eq_true, if_false] at hstep
    split at hstep
    · cases hstep
    · next op r htd =>
      rw [htd] at htodo hfresh hmem hnd
      have hopmem : op ∈ ops := hmem op (by simp)
      obtain ⟨rel, m, hg, hl, ex⟩ := h.char op hopmem
      have hnd' := List.nodup_append.1 hnd
      have hnd'' := List.nodup_cons.1 hnd'.2.1
      split at hstep
      · -- executed by the walker
        have hpar : DirsOf s.fs (T ++ rel).dropLast := by
          have := htodo.1 (plainPath (T ++ rel)) (by rw [ex, headOp_target])
          rwa [plainPath_names] at this
        have hfr : s.fs.root.getAt (T ++ rel) = none := by
          have := hfresh op (by simp) (plainPath (T ++ rel)) (by rw [ex, headOp_target])
          rwa [plainPath_names] at this
        obtain ⟨g', hx, P⟩ := exec_due h c s.fs op rel m hg hl ex hsrc hpar hfr
        rw [hx] at hstep
        cases hstep
        have hne : ∀ y ∈ s.queue ++ r, op ≠ y := by
          intro y hy hoy
          subst hoy
          rcases List.mem_append.1 hy with hy | hy
          · exact hnd'.2.2 op hy op List.mem_cons_self rfl
          · exact hnd''.1 hy
        refine ⟨rfl, P.src, P.dirs _ hbase, ?_, ?_, ?_, P.kinds hkinds, ?_, ?_⟩
        · refine TodoOK.mono _ _ _ ?_ htodo.2
          rintro p (hp | ⟨t, ht, hpt⟩)
          · exact P.dirs p hp
          · rw [hpt]; exact P.made t ht
        · intro y hy t ht
          exact P.dirs _ (hqpar y hy t ht)
        · intro y hy t ht
          have hy' : y ∈ s.queue ++ op :: r := by
            rcases List.mem_append.1 hy with hy | hy
            · exact List.mem_append_left _ hy
            · exact List.mem_append_right _ (List.mem_cons_of_mem _ hy)
          exact P.fresh _ (h.tgt_ne (hmem y hy') (hne y hy) ex hg ht) (hfresh y hy' t ht)
        · intro y hy
          apply hmem y
          rcases List.mem_append.1 hy with hy | hy
          · exact List.mem_append_left _ hy
          · exact List.mem_append_right _ (List.mem_cons_of_mem _ hy)
        · show (s.queue ++ r).Nodup
          rw [List.nodup_append]
          exact ⟨hnd'.1, hnd''.2, fun a ha b hb => hnd'.2.2 a ha b (List.mem_cons_of_mem _ hb)⟩
      · next hsync =>
        cases hstep
        have hsync' : isSync op = false := by simpa using hsync
        refine ⟨rfl, hsrc, hbase, ?_, ?_, ?_, hkinds, ?_, ?_⟩
        · refine TodoOK.mono _ _ _ ?_ htodo.2
          rintro p (hp | ⟨t, ht, _⟩)
          · exact hp
          · rw [ht] at hsync'; cases hsync'
        · intro y hy t ht
          rcases List.mem_append.1 hy with hy | hy
          · exact hqpar y hy t ht
          · have : y = op := by simpa using hy
            subst this
            exact htodo.1 t ht
        · show ∀ y ∈ (s.queue ++ [op]) ++ r, _
          simpa using hfresh
        · show ∀ y ∈ (s.queue ++ [op]) ++ r, y ∈ ops
          simpa using hmem
        · show ((s.queue ++ [op]) ++ r).Nodup
          simpa using hnd
  | exec i =>
    simp only [L0.step] at hstep
    split at hstep
    · next a hq =>
      obtain ⟨qpre, qpost, hq1, hq2⟩ := eraseIdx_split s.queue i a hq
      rw [hq2] at hstep
      rw [hq1] at hqpar hfresh hmem hnd
      have hamem : a ∈ ops := hmem a (by simp)
      obtain ⟨rel, m, hg, hl, ex⟩ := h.char a hamem
      have hpar : DirsOf s.fs (T ++ rel).dropLast := by
        have := hqpar a (by simp) (plainPath (T ++ rel)) (by rw [ex, headOp_target])
        rwa [plainPath_names] at this
      have hfr : s.fs.root.getAt (T ++ rel) = none := by
        have := hfresh a (by simp) (plainPath (T ++ rel)) (by rw [ex, headOp_target])
        rwa [plainPath_names] at this
      obtain ⟨g', hx, P⟩ := exec_due h c s.fs a rel m hg hl ex hsrc hpar hfr
      rw [hx] at hstep
      cases hstep
      have hsub : ((qpre ++ qpost) ++ s.todo).Sublist ((qpre ++ a :: qpost) ++ s.todo) := by
        apply List.Sublist.append_right
        apply List.Sublist.append_left
        exact List.sublist_cons_self ..
      have hnd1 := (List.nodup_append.1 hnd).1
      have hnd2 := List.nodup_append.1 hnd1
      have hnd3 := List.nodup_cons.1 hnd2.2.1
      have hne : ∀ y ∈ (qpre ++ qpost) ++ s.todo, a ≠ y := by
        intro y hy hay
        subst hay
        rcases List.mem_append.1 hy with hy | hy
        · rcases List.mem_append.1 hy with hy | hy
          · exact hnd2.2.2 a hy a List.mem_cons_self rfl
          · exact hnd3.1 hy
        · exact (List.nodup_append.1 hnd).2.2 a (by simp) a hy rfl
      refine ⟨hok, P.src, P.dirs _ hbase, TodoOK.mono _ _ _ P.dirs htodo, ?_, ?_, P.kinds hkinds, ?_, ?_⟩
      · intro y hy t ht
        have hy' : y ∈ qpre ++ a :: qpost := by
          rcases List.mem_append.1 hy with hy | hy
          · exact List.mem_append_left _ hy
          · exact List.mem_append_right _ (List.mem_cons_of_mem _ hy)
        exact P.dirs _ (hqpar y hy' t ht)
      · intro y hy t ht
        have hy' := hsub.subset hy
        exact P.fresh _ (h.tgt_ne (hmem y hy') (hne y hy) ex hg ht) (hfresh y hy' t ht)
      · exact fun y hy => hmem y (hsub.subset hy)
      · exact hnd.sublist hsub
    · cases hstep

theorem MInv.run {srcNode : Node} {S T : List Name} {d : Nat} {ops : List Op} (h : OpsSpec srcNode S T d ops)
    (c : Cfg) : ∀ (ls : List Label) (s s' : St), MInv srcNode S T ops s → L0.run c s ls = some s' →
      MInv srcNode S T ops s' := by
  intro ls
  induction ls with
  | nil => intro s s' hinv hr; cases hr; exact hinv
  | cons l ls ih =>
    intro s s' hinv hr
    simp only [L0.run] at hr
    split at hr
    · next s1 hs1 => exact ih s1 s' (MInv.step h c s s1 l hinv hs1) hr
    · cases hr

/-! ## What the invariant gives at the moment an operation is handed over -/

theorem MInv.noLinkAbove {srcNode : Node} {S T : List Name} {ops : List Op} {s : St}
    (hinv : MInv srcNode S T ops s) {rel : List Name} {n : Node} (hg : srcNode.getAt rel = some n) :
    NoLinkAbove s.fs.root (T ++ rel) := by
  intro p hp hne tg hgl
  by_cases hT : T <+: p
  · obtain ⟨s', hs'⟩ := hT
    subst hs'
    obtain ⟨u, hu⟩ := (List.prefix_append_right_inj T).1 hp
    subst hu
    have hu0 : u ≠ [] := by
      intro h0; apply hne; rw [h0, List.append_nil]
    obtain ⟨es, hes⟩ := getAt_proper_prefix_dir hg hu0
    rw [getAt_link_iff] at hgl
    rcases hinv.kinds s' _ hes with hk | hk
    · rw [hk] at hgl; cases hgl
    · rw [hk] at hgl; cases hgl
  · have hpT : p <+: T := by
      rcases List.prefix_or_prefix_of_prefix hp (List.prefix_append T rel) with h1 | h1
      · exact h1
      · exact absurd h1 hT
    have hpne : p ≠ T := fun e => hT (e ▸ List.prefix_refl _)
    obtain ⟨es, hes⟩ := hinv.base
    obtain ⟨es', hes'⟩ := getAt_prefix_dir hes (prefix_dropLast_of_ne hpT hpne)
    rw [hes'] at hgl
    cases hgl

theorem MInv.plains {srcNode : Node} {S T : List Name} {d : Nat} {ops : List Op} {s : St}
    (h : OpsSpec srcNode S T d ops) (hinv : MInv srcNode S T ops s) : ∀ x ∈ ops, Plains s.fs x := by
  intro x hx
  obtain ⟨rel, m, hg, hl, ex⟩ := h.char x hx
  refine ⟨?_, ?_⟩
  · intro t ht
    rw [ex, headOp_target] at ht
    have := Option.some.inj ht
    subst this
    rw [plainPath_names]
    refine ⟨hinv.noLinkAbove hg, ?_⟩
    intro hnl p hp tg hgl
    by_cases hpe : p = T ++ rel
    · subst hpe
      rw [getAt_link_iff] at hgl
      rcases hinv.kinds rel m hg with hk | hk
      · rw [hk] at hgl; cases hgl
      · rw [hk] at hgl
        rw [ex, headOp_isLinkOp] at hnl
        cases m <;> simp [Node.obs] at hgl
        cases hnl
    · exact hinv.noLinkAbove hg p hp hpe tg hgl
  · intro sp hs
    rw [ex] at hs
    obtain ⟨e, _, hml⟩ := headOp_srcOf _ _ _ _ hs
    subst e
    rw [plainPath_names]
    apply noLinkUpto_of_getAt (x := m) _ hml
    rw [Node.getAt_append, hinv.src]; exact hg

theorem MInv.goodAll {srcNode : Node} {S T : List Name} {d : Nat} {ops : List Op} {s : St}
    (h : OpsSpec srcNode S T d ops) (hinv : MInv srcNode S T ops s) (op : Op) (r : List Op)
    (htd : s.todo = op :: r) : GoodAll ops s.fs op := by
  refine ⟨?_, hinv.plains h⟩
  have hopmem : op ∈ ops := hinv.mem op (by rw [htd]; simp)
  obtain ⟨rel, m, hg, hl, ex⟩ := h.char op hopmem
  have htgt : opTarget op = some (plainPath (T ++ rel)) := by rw [ex, headOp_target]
  have htodo := hinv.todo
  rw [htd] at htodo
  refine ⟨?_, ⟨plainPath (T ++ rel), htgt, ?_, ?_, ?_, ?_⟩, ?_⟩
  · obtain ⟨es, hes⟩ := hinv.base
    obtain ⟨es', hes'⟩ := getAt_prefix_dir hes List.nil_prefix
    simp only [getAt_nil, Option.some.injEq] at hes'
    rw [hes']; rfl
  · refine ⟨rfl, rfl, (plainPath_namesOnly _).2.2, ?_⟩
    rw [plainPath_names]
    intro p hp tg hgl
    by_cases hpe : p = T ++ rel
    · subst hpe
      have := hinv.fresh op (by rw [htd]; simp) _ htgt
      rw [plainPath_names] at this
      rw [this] at hgl
      cases hgl
    · exact hinv.noLinkAbove hg p hp hpe tg hgl
  · rw [plainPath_names]
    intro h0
    exact h.tne (List.append_eq_nil_iff.1 h0).1
  · rw [plainPath_names]
    simp only [List.length_append]
    have := h.lenT
    omega
  · exact htodo.1 _ htgt
  · intro sp hs
    rw [ex] at hs
    obtain ⟨e, _, hml⟩ := headOp_srcOf _ _ _ _ hs
    subst e
    have hsm : s.fs.root.getAt (S ++ rel) = some m := by
      rw [Node.getAt_append, hinv.src]; exact hg
    refine ⟨⟨rfl, rfl, (plainPath_namesOnly _).2.2, ?_⟩, ?_, ?_⟩
    · rw [plainPath_names]; exact noLinkUpto_of_getAt hsm hml
    · rw [plainPath_names]
      simp only [List.length_append]
      have := h.lenS
      omega
    · rw [plainPath_names]; exact ⟨m, hsm⟩

/-! ## The set-up of the fresh-destination copy -/

/-- whatever `noClobber` is: every target of the walk is absent, so the no-clobber probe never fires -/
theorem fresh_setup' (fs : Fs) (c : Cfg) (hd : c.dereference = false)
    (src tb : RPath) (srcNode : Node) (fuel : Nat)
    (hsrc : PlainTarget fs src) (hsn : fs.root.getAt src.names = some srcNode)
    (hcop : srcNode.Copyable fuel)
    (htb : PlainTarget fs tb) (hne : tb.names ≠ []) (habs : fs.root.getAt tb.names = none)
    (hpar : ∃ es, fs.root.getAt tb.names.dropLast = some (.dir es))
    (hun1 : ¬ src.names <+: tb.names) (hun2 : ¬ tb.names <+: src.names)
    (hlen : src.names.length + fuel < 200 ∧ tb.names.length + fuel < 200) :
    walkEntry fs c none src tb (fuel + 1) [] [] = opsOf srcNode src.names tb.names ∧
    OpsSpec srcNode src.names tb.names fuel (opsOf srcNode src.names tb.names) ∧
    (opsOf srcNode src.names tb.names).Nodup ∧
    MInv srcNode src.names tb.names (opsOf srcNode src.names tb.names)
      (L0.init fs (opsOf srcNode src.names tb.names)) := by
  have hsrcE := plainTarget_eq fs src hsrc
  have htbE := plainTarget_eq fs tb htb
  have hnl : srcNode.isLink = false := by
    cases srcNode with
    | link t => exact absurd hsn (hsrc.2.2.2 src.names (List.prefix_refl _) t)
    | _ => rfl
  have habsent : ∀ rel, fs.lexists (relJoin (plainPath tb.names) rel) = false := by
    intro rel
    rw [relJoin_plain]
    apply lexists_false_of_absent _ _ _ (getAt_append_none _ _ _ habs)
    intro p hp hpne tg hgl
    by_cases hT : tb.names <+: p
    · obtain ⟨s', hs'⟩ := hT
      rw [← hs', getAt_append_none _ _ _ habs] at hgl
      cases hgl
    · have hpT : p <+: tb.names := by
        rcases List.prefix_or_prefix_of_prefix hp (List.prefix_append tb.names rel) with h1 | h1
        · exact h1
        · exact absurd h1 hT
      have hpne' : p ≠ tb.names := fun e => hT (e ▸ List.prefix_refl _)
      obtain ⟨es, hes⟩ := hpar
      obtain ⟨es', hes'⟩ := getAt_prefix_dir hes (prefix_dropLast_of_ne hpT hpne')
      rw [hes'] at hgl
      cases hgl
  have hshape := walk_shape fs c hd src.names tb.names (.inr habsent) fuel srcNode hcop [] []
    (by simpa using hsn) (fun h => by rw [hnl] at h; cases h) (by simp only [List.length_nil]; omega)
  rw [← hsrcE, ← htbE] at hshape
  simp only [List.append_nil] at hshape
  have hspec : OpsSpec srcNode src.names tb.names fuel (opsOf srcNode src.names tb.names) :=
    ⟨mem_opsOf fuel srcNode hcop _ _, hun1, hun2, hne, by omega, by omega⟩
  have hnd := opsOf_nodup fuel srcNode hcop src.names tb.names
  have htodo : TodoOK (DirsOf fs) (opsOf srcNode src.names tb.names) := by
    have := todoOK_opsOf fuel srcNode hcop src.names tb.names (DirsOf fs) [] hpar (fun _ _ => trivial)
    rwa [List.append_nil] at this
  exact ⟨hshape, hspec, hnd, MInv.init hspec fs hsn hpar habs htodo hnd⟩

theorem fresh_setup (fs : Fs) (c : Cfg) (hd : c.dereference = false) (_ : c.noClobber = false)
    (src tb : RPath) (srcNode : Node) (fuel : Nat)
    (hsrc : PlainTarget fs src) (hsn : fs.root.getAt src.names = some srcNode)
    (hcop : srcNode.Copyable fuel)
    (htb : PlainTarget fs tb) (hne : tb.names ≠ []) (habs : fs.root.getAt tb.names = none)
    (hpar : ∃ es, fs.root.getAt tb.names.dropLast = some (.dir es))
    (hun1 : ¬ src.names <+: tb.names) (hun2 : ¬ tb.names <+: src.names)
    (hlen : src.names.length + fuel < 200 ∧ tb.names.length + fuel < 200) :
    walkEntry fs c none src tb (fuel + 1) [] [] = opsOf srcNode src.names tb.names ∧
    OpsSpec srcNode src.names tb.names fuel (opsOf srcNode src.names tb.names) ∧
    (opsOf srcNode src.names tb.names).Nodup ∧
    MInv srcNode src.names tb.names (opsOf srcNode src.names tb.names)
      (L0.init fs (opsOf srcNode src.names tb.names)) :=
  fresh_setup' fs c hd src tb srcNode fuel hsrc hsn hcop htb hne habs hpar hun1 hun2 hlen

end Xcp
