import XcpProofs.DerefConc
import XcpProofs.OverlayConc
import XcpProofs.DerefOverlayLemmas
/-! # `--dereference` onto an EXISTING, compatible destination: sequentially and under every interleaving

The `-L` counterparts of `mirror_overlay` (Overlay) and `overlay_concurrent_ok` (OverlayConc), with the tree seen through
the links (`s.erase`, `derefS`) in place of the source node: the destination may exist, provided what is there is
`Compatible` with `s.erase`; the run then leaves the destination OVERLAID with `s.erase`.

With an existing destination the places the operations read from are no longer out of the way for free (for a fresh
target they are: `hout_of_absent`): `ReadsAway s tb.names` — no canonical place of a leaf of `s` is at/below the
target or above it — is a genuine hypothesis.  It excludes `xcp -rL S D` where a link of `S` leads to a file inside
`D/S` (the copy would read what the run itself overwrites, or hit the same-file guard).  It is decidable, and checked
by `decide` on the instance below.  As in `DerefTree`, the whole walk is computed against the initial state; this is
adequate for the real, interleaved walker when in addition no directory the walk lists (`s.dirs`) is at/below the
target or above it. -/
namespace Xcp

open L0

/-- OVERLAY with `--dereference`, sequential: the walk's operations all succeed and the destination is overlaid with the
tree seen through the links, nothing else changes (up to the order of directory entries) -/
theorem overlay_deref (fs : Fs) (c : Cfg) (hd : c.dereference = true) (hn : c.noClobber = false)
    (src tb : RPath) (s : SNode) (fuel : Nat)
    (hwf : FsEq fs fs)
    (hsrc : AbsNames src)
    (hder : derefS fs (fuel + 1) src.names [] = some s)
    (htb : PlainTarget fs tb) (hne : tb.names ≠ [])
    (hcompat : Compatible (fs.root.getAt tb.names) s.erase)
    (hpar : ∃ es, fs.root.getAt tb.names.dropLast = some (.dir es))
    (hout : ReadsAway s tb.names)
    (hlen : tb.names.length + fuel < 255) :
    ∃ fs', execOps fs c (walkEntry fs c none src tb (fuel + 1) [] []) = ⟨.ok, fs'⟩ ∧
      FsEq fs' { fs with root := fs.root.setAt tb.names (Node.overlay (fs.root.getAt tb.names) s.erase) } := by
  have htbE := plainTarget_eq fs tb htb
  have hparD : ParentDir fs.root tb.names := hpar
  obtain ⟨pes, hpes⟩ := hpar
  rcases List.eq_nil_or_concat tb.names with h0 | ⟨par, nm, h0⟩
  · exact absurd h0 hne
  simp only [List.concat_eq_append] at h0
  rw [h0, List.dropLast_concat] at hpes
  have hroot : fs.root.isLink = false := root_not_link_of_dir hpes
  have hlt : par.length + 1 + (fuel + 1) < 256 := by
    rw [h0] at hlen
    simp only [List.length_append, List.length_cons, List.length_nil] at hlen
    omega
  -- the shape of the walk
  have hshape := walk_shape_deref fs c hd hn hroot src.names tb.names (fuel + 1) [] [] s (by simpa using hder)
  rw [← htbE, ← absNames_eq hsrc] at hshape
  simp only [List.append_nil] at hshape
  -- its execution
  obtain ⟨hcop, hsrcin⟩ := derefS_good fs hroot hwf.2.1 (fuel + 1) src.names [] s hder
  have hexec := exec_overlayS c hn (fuel + 1) s hcop fs par nm pes [] hsrcin (by rw [← h0]; exact hout) hpes
    (hwf.2.1 par pes hpes)
    (by
      intro x hx q es hq
      apply hwf.2.1 (par ++ [nm] ++ q) es
      rw [Node.getAt_append, hx]
      exact hq)
    (by rw [← h0]; exact hcompat) hlt
  rw [List.append_nil, ← h0] at hexec
  have hrun : execOps fs c (walkEntry fs c none src tb (fuel + 1) [] []) =
      ⟨.ok, { fs with root := placeAt fs.root tb.names (fs.root.getAt tb.names) s.erase }⟩ := by
    rw [hshape, hexec]
    rfl
  have hwf' := execOps_wf c _ fs _ hwf hrun
  refine ⟨_, hrun, ?_⟩
  cases hsp : s.erase.isSpecial with
  | false =>
    have e : placeAt fs.root tb.names (fs.root.getAt tb.names) s.erase =
        fs.root.setAt tb.names (Node.overlay (fs.root.getAt tb.names) s.erase) := by
      simp [placeAt, hsp]
    rw [e] at hwf' ⊢
    exact hwf'
  | true =>
    have hv : s.erase.isDir = false := by
      cases hse : s.erase <;> rw [hse] at hsp <;> simp [Node.isSpecial] at hsp
      rfl
    have e : placeAt fs.root tb.names (fs.root.getAt tb.names) s.erase =
        (fs.root.delAt tb.names).setAt tb.names s.erase := by
      simp [placeAt, hsp]
    rw [e] at hwf' ⊢
    rw [overlay_of_special _ _ hsp]
    exact ⟨rfl, hwf'.2.1, setAt_WF s.erase (WF_nondir _ hv) _ _ hwf.2.1,
      sameObs_reset_set fs.root tb.names s.erase hne hparD hv⟩

/-- OVERLAY with `--dereference`, EVERY interleaving: no reachable state of the concurrent model is failed, and every
complete run ends with the destination overlaid with the tree seen through the links -/
theorem overlay_deref_concurrent_ok (fs : Fs) (c : Cfg) (hd : c.dereference = true) (hn : c.noClobber = false)
    (src tb : RPath) (s : SNode) (fuel : Nat)
    (hwf : FsEq fs fs)
    (hsrc : AbsNames src)
    (hder : derefS fs (fuel + 1) src.names [] = some s)
    (htb : PlainTarget fs tb) (hne : tb.names ≠ [])
    (hcompat : Compatible (fs.root.getAt tb.names) s.erase)
    (hpar : ∃ es, fs.root.getAt tb.names.dropLast = some (.dir es))
    (hout : ReadsAway s tb.names)
    (hlen : tb.names.length + fuel < 255)
    (ls : List Label) (st : St)
    (hrun : run c (init fs (walkEntry fs c none src tb (fuel + 1) [] [])) ls = some st) :
    st.failed = false ∧
    (final st = true →
      FsEq st.fs { fs with root := fs.root.setAt tb.names (Node.overlay (fs.root.getAt tb.names) s.erase) }) := by
  obtain ⟨fs', hex, heq⟩ := overlay_deref fs c hd hn src tb s fuel hwf hsrc hder htb hne hcompat hpar hout hlen
  obtain ⟨hshape, hspec, hnd, H0, hinit⟩ := overlay_deref_setup fs c hd hn src tb s fuel hwf hsrc hder htb hne
    hcompat hpar hout hlen
  rw [hshape] at hrun hex
  have hok : st.failed = false := (OInvD.run hspec H0 c hn ls _ st hinit hrun).ok
  refine ⟨hok, fun hfin => ?_⟩
  have hand : ∀ (ls : List Label) (s' : St) (op : Op) (r : List Op),
      run c (init fs (opsOfS s tb.names)) ls = some s' →
      s'.failed = false → s'.todo = op :: r → isSync op = false →
      GoodAllD (opsOfS s tb.names) s'.fs op := by
    intro ls s' op r hr _ htd _
    exact (OInvD.run hspec H0 c hn ls _ s' hinit hr).goodAll hspec H0 op r htd
  obtain ⟨f, hf, hfe⟩ := fs_run_refines_sequentialD c fs _ hwf hnd hspec.pairIndep hand ls st hrun hfin hok
  rw [execOps_seqExec c _ fs fs' hex] at hf
  injection hf with hf
  subst hf
  exact hfe.symm.trans heq

/-! ## The fresh-destination theorems are the case of an absent target -/

theorem mirror_fresh_deref_of_overlay (fs : Fs) (c : Cfg) (hd : c.dereference = true) (hn : c.noClobber = false)
    (src tb : RPath) (s : SNode) (fuel : Nat)
    (hwf : FsEq fs fs)
    (hsrc : AbsNames src)
    (hder : derefS fs (fuel + 1) src.names [] = some s)
    (htb : PlainTarget fs tb) (hne : tb.names ≠ []) (habs : fs.root.getAt tb.names = none)
    (hpar : ∃ es, fs.root.getAt tb.names.dropLast = some (.dir es))
    (hlen : tb.names.length + fuel < 255) :
    ∃ fs', execOps fs c (walkEntry fs c none src tb (fuel + 1) [] []) = ⟨.ok, fs'⟩ ∧
      FsEq fs' { fs with root := fs.root.setAt tb.names s.erase } := by
  have h := overlay_deref fs c hd hn src tb s fuel hwf hsrc hder htb hne
    (by rw [habs]; exact compatible_none _) hpar
    (hout_of_absent fs src.names tb s (fuel + 1) hwf hder hne habs hpar) hlen
  rw [habs, overlay_none] at h
  exact h

theorem deref_fresh_concurrent_of_overlay (fs : Fs) (c : Cfg) (hd : c.dereference = true) (hn : c.noClobber = false)
    (src tb : RPath) (s : SNode) (fuel : Nat)
    (hwf : FsEq fs fs)
    (hsrc : AbsNames src)
    (hder : derefS fs (fuel + 1) src.names [] = some s)
    (htb : PlainTarget fs tb) (hne : tb.names ≠ []) (habs : fs.root.getAt tb.names = none)
    (hpar : ∃ es, fs.root.getAt tb.names.dropLast = some (.dir es))
    (hlen : tb.names.length + fuel < 255)
    (ls : List Label) (st : St)
    (hrun : run c (init fs (walkEntry fs c none src tb (fuel + 1) [] [])) ls = some st) :
    st.failed = false ∧
    (final st = true → FsEq st.fs { fs with root := fs.root.setAt tb.names s.erase }) := by
  have h := overlay_deref_concurrent_ok fs c hd hn src tb s fuel hwf hsrc hder htb hne
    (by rw [habs]; exact compatible_none _) hpar
    (hout_of_absent fs src.names tb s (fuel + 1) hwf hder hne habs hpar) hlen ls st hrun
  rw [habs, overlay_none] at h
  exact h

/-! ## Non-vacuity: a concrete instance with an existing destination

`/S` = { file `a`; `l` → `a`; `m` → `/O/f` (absolute, outside the source) }, `/O` = { file `f` }, and the destination
`/T/S` EXISTS: { file `a` (to be overwritten); file `z` (an entry the source does not have) }.  Source `/S`, target
`/T/S`.  Afterwards `/T/S` = { `a` (the source's content); `z` (kept); `l`, `m` (copies of what the links lead to) }. -/
namespace DerefOverlayExample

open DerefExample (nS nO nT ex_names ex_absNames)

def exRoot : Node := .dir [
  (nS, .dir [([97], .file 1),
             ([108], .link ⟨false, [.name [97]], false⟩),
             ([109], .link ⟨true, [.name nO, .name [102]], false⟩)]),
  (nO, .dir [([102], .file 2)]),
  (nT, .dir [(nS, .dir [([97], .file 9), ([122], .file 7)])])]

def exFs : Fs := ⟨exRoot, []⟩
def exCfg : Cfg := { dereference := true }

/-- the tree seen through the links, with the canonical path of every node -/
def exS : SNode := .dir [nS] [
  ([97], .file [nS, [97]] 1),
  ([108], .file [nS, [97]] 1),
  ([109], .file [nO, [102]] 2)]

/-- the destination afterwards: `a` rewritten in place, `z` kept, `l` and `m` appended as regular files -/
def exDest : Node := .dir [([97], .file 1), ([122], .file 7), ([108], .file 1), ([109], .file 2)]

theorem exS_computed : derefS exFs 2 [nS] [] = some exS := by rfl

theorem ex_overlay : Node.overlay (exFs.root.getAt [nT, nS]) exS.erase = exDest := by rfl

theorem ex_compatible : Compatible (exFs.root.getAt [nT, nS]) exS.erase := by
  show Node.compatible _ _ = true
  rfl

theorem ex_readsAway : ReadsAway exS [nT, nS] := by decide

theorem exFs_wf : FsEq exFs exFs := by
  have h : exRoot.Copyable 4 := by
    simp [exRoot, Node.Copyable, Node.Copyable.CopyableL, nS, nO, nT]
  exact ⟨rfl, copyable_WF 4 _ h, copyable_WF 4 _ h, SameObs.refl _⟩

theorem ex_target_plain : PlainTarget exFs (plainPath [nT, nS]) := by
  refine ⟨rfl, rfl, (ex_absNames _).2.2, ?_⟩
  rw [ex_names]
  have hT : exFs.root.getAt [nT, nS] = some (.dir [([97], .file 9), ([122], .file 7)]) := by rfl
  exact noLinkUpto_of_getAt hT rfl

/-- the sequential theorem applied to the instance -/
theorem example_run :
    ∃ fs', execOps exFs exCfg (walkEntry exFs exCfg none (plainPath [nS]) (plainPath [nT, nS]) 2 [] []) = ⟨.ok, fs'⟩ ∧
      FsEq fs' { exFs with root := exFs.root.setAt [nT, nS] exDest } := by
  have h := overlay_deref exFs exCfg rfl rfl (plainPath [nS]) (plainPath [nT, nS]) exS 1
    exFs_wf (ex_absNames _) (by rw [ex_names]; exact exS_computed) ex_target_plain
    (by rw [ex_names]; simp) (by rw [ex_names]; exact ex_compatible) (by rw [ex_names]; exact ⟨_, by rfl⟩)
    (by rw [ex_names]; exact ex_readsAway) (by rw [ex_names]; decide)
  rw [ex_names, ex_overlay] at h
  exact h

/-- … and the concurrent one: whatever the interleaving, no failure, and a complete run ends in the same tree -/
theorem example_concurrent (ls : List Label) (st : St)
    (hrun : run exCfg (init exFs (walkEntry exFs exCfg none (plainPath [nS]) (plainPath [nT, nS]) 2 [] [])) ls =
      some st) :
    st.failed = false ∧
      (final st = true → FsEq st.fs { exFs with root := exFs.root.setAt [nT, nS] exDest }) := by
  have h := overlay_deref_concurrent_ok exFs exCfg rfl rfl (plainPath [nS]) (plainPath [nT, nS]) exS 1
    exFs_wf (ex_absNames _) (by rw [ex_names]; exact exS_computed) ex_target_plain
    (by rw [ex_names]; simp) (by rw [ex_names]; exact ex_compatible) (by rw [ex_names]; exact ⟨_, by rfl⟩)
    (by rw [ex_names]; exact ex_readsAway) (by rw [ex_names]; decide) ls st hrun
  rw [ex_names, ex_overlay] at h
  exact h

/-- the side condition is not idle: were `l` a link to the destination's own `a` (`/T/S/a`), it would fail -/
example : ¬ ReadsAway (.dir [nS] [([108], .file [nT, nS, [97]] 9)]) [nT, nS] := by decide

end DerefOverlayExample

end Xcp
