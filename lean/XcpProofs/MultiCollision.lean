import XcpProofs.MultiNoClobber
import XcpProofs.MultiCollisionLemmas
/-! # `--no-clobber`, several sources, SOME target exists: nothing is altered, and the run fails

The second clause of C08 for several sources: `xcp -r --no-clobber s1 … sn DEST/` with `DEST` an existing directory,
where `DEST/basename(si)` may or may not exist (any kind of entry: a file, a directory, a special file, a live or
dangling symbolic link — the walker's probe is `lexists`; below the plain directory `DEST` this is "the place
`DEST/base` holds something", `lexists_child_iff`).  `MultiNoClobber` covers the case in which every target is absent.

* `multi_collision_preserves`: in EVERY reachable state of the concurrent model over the operations of all sources,
  every entry that existed initially is kept, and the target of every queued operation and of the operation the walker
  reaches next does not exist at that moment.
* `multi_collision_fails`: if some target exists, every complete run is failed, and the sequential run exits non-zero.
* `multi_collision_shape`: how the model represents "the walker stops": the list is the operations of the sources
  before the first colliding one, the failure marker, and a tail that is never reached.

`multiOps` evaluates every source's probe against the INITIAL file system whereas the real walker probes when it gets
to the source.  This makes no difference here: the sources before the first collision write below their own targets
`DEST/base` only, and base names are distinct (`hnd`), sources and targets unrelated (`hun`), so what is at
`DEST/base(e0)` when the walker gets to `e0` is what was there initially. -/
namespace Xcp

open L0

/-- the shape of the list when `e0` is the first source whose target exists: the operations of the earlier sources
(all of whose targets are absent), the failure marker, and whatever the later sources contribute (never reached) -/
theorem multi_collision_shape (fs : Fs) (c : Cfg) (dest : RPath) (pre post : List CopySrc) (e0 : CopySrc)
    (hd : c.dereference = false) (hn : c.noClobber = true)
    (hdd : ∃ es, fs.root.getAt dest.names = some (.dir es))
    (hsrc : PlainTarget fs e0.path ∧ fs.root.getAt e0.path.names = some e0.node ∧
      e0.path.names.length + walkFuel < 256)
    (hcol : fs.root.getAt (dest.names ++ [e0.base]) ≠ none)
    (hlen : dest.names.length + 1 + walkFuel < 256) :
    multiOps fs c dest (pre ++ e0 :: post) = multiOps fs c dest pre ++ .fail :: multiOps fs c dest post := by
  obtain ⟨hp, hsn, hl⟩ := hsrc
  obtain ⟨es, hes⟩ := hdd
  have hw : walkFuel = 64 := rfl
  rw [hw] at hl hlen
  have hnl : e0.node.isLink = false := by
    cases hnode : e0.node with
    | link t => exact absurd (hnode ▸ hsn) (hp.2.2.2 _ (List.prefix_refl _) t)
    | _ => rfl
  have hls := lstat_plain fs e0.path.names e0.node (by omega) hsn (noLinkAbove_of_getAt hsn)
  rw [← plainTarget_eq fs e0.path hp] at hls
  have hx := (lexists_child_iff fs dest.names e0.base es hes (by omega)).2 hcol
  have h0 : walkEntry fs c none e0.path (plainPath (dest.names ++ [e0.base])) walkFuel [] [] = [.fail] := by
    rw [walkFuel_eq]
    exact walkEntry_collision fs c hd hn _ _ 63 [] _ _ hnl hls hx
  simp only [List.flatMap_append, List.flatMap_cons, h0, List.singleton_append]

/-- every reachable state of the run over all sources corresponds (`CutRel`) to a reachable state of the run over
the sources before the first collision, for which `multi_noclobber_any_interleaving` holds -/
theorem multi_collision_core (fs : Fs) (c : Cfg) (dest : RPath) (fuel : Nat) (pre post : List CopySrc) (e0 : CopySrc)
    (hd : c.dereference = false) (hn : c.noClobber = true)
    (hwf : FsEq fs fs)
    (hdest : PlainTarget fs dest) (hdd : ∃ es, fs.root.getAt dest.names = some (.dir es))
    (hfuel : fuel < walkFuel)
    (hsrc : ∀ e ∈ pre ++ e0 :: post, PlainTarget fs e.path ∧ e.path.fileName = some e.base ∧
      fs.root.getAt e.path.names = some e.node ∧ e.node.Copyable fuel ∧ e.path.names.length + walkFuel < 256)
    (hnd : ((pre ++ e0 :: post).map (·.base)).Nodup)
    (hun : ∀ e ∈ pre ++ e0 :: post, ∀ e' ∈ pre ++ e0 :: post,
      ¬ e.path.names <+: dest.names ++ [e'.base] ∧ ¬ dest.names ++ [e'.base] <+: e.path.names)
    (hpre : ∀ e ∈ pre, fs.root.getAt (dest.names ++ [e.base]) = none)
    (hcol : fs.root.getAt (dest.names ++ [e0.base]) ≠ none)
    (hlen : dest.names.length + 1 + walkFuel < 256)
    (ls : List Label) (s : St)
    (hrun : run c (init fs (multiOps fs c dest (pre ++ e0 :: post))) ls = some s) :
    ∃ s', CutRel (multiOps fs c dest post) s s' ∧
      Preserved fs.root s'.fs.root ∧
      (∀ op ∈ s'.queue, ∀ t, opTarget op = some t → s'.fs.lexists t = false) ∧
      (∀ op r, s'.todo = op :: r → ∀ t, opTarget op = some t → s'.fs.lexists t = false) := by
  have hsub : ∀ e ∈ pre, e ∈ pre ++ e0 :: post := fun e he => List.mem_append_left _ he
  have h0 : e0 ∈ pre ++ e0 :: post := List.mem_append_right _ List.mem_cons_self
  obtain ⟨a1, _, a3, _, a5⟩ := hsrc e0 h0
  rw [multi_collision_shape fs c dest pre post e0 hd hn hdd ⟨a1, a3, a5⟩ hcol hlen] at hrun
  obtain ⟨ls', s', hr', hrel⟩ := cut_run c _ ls _ _ s (cut_init fs _ _) hrun
  have hnd' : (pre.map (·.base)).Nodup :=
    List.Nodup.sublist ((List.sublist_append_left pre (e0 :: post)).map _) hnd
  have H := multi_noclobber_any_interleaving fs c dest pre fuel hd hn hwf hdest hdd hfuel
    (fun e he => hsrc e (hsub e he)) hnd' (fun e he e' he' => hun e (hsub e he) e' (hsub e' he')) hpre hlen
    ls' s' hr'
  exact ⟨s', hrel, H.1, H.2.1, H.2.2.1⟩

/-- concurrent, whether or not some target exists: in EVERY reachable state of the concurrent model over the
operations of ALL sources, every entry that existed initially is still kept; whichever queued operation completes
next, and whichever operation the walker reaches next, finds that its target does not exist at that moment (the
failure marker has no target) -/
theorem multi_collision_preserves (fs : Fs) (c : Cfg) (dest : RPath) (items : List CopySrc) (fuel : Nat)
    (hd : c.dereference = false) (hn : c.noClobber = true)
    (hwf : FsEq fs fs)
    (hdest : PlainTarget fs dest) (hdd : ∃ es, fs.root.getAt dest.names = some (.dir es))
    (hfuel : fuel < walkFuel)
    (hsrc : ∀ e ∈ items, PlainTarget fs e.path ∧ e.path.fileName = some e.base ∧
      fs.root.getAt e.path.names = some e.node ∧ e.node.Copyable fuel ∧ e.path.names.length + walkFuel < 256)
    (hnd : (items.map (·.base)).Nodup)
    (hun : ∀ e ∈ items, ∀ e' ∈ items,
      ¬ e.path.names <+: dest.names ++ [e'.base] ∧ ¬ dest.names ++ [e'.base] <+: e.path.names)
    (hlen : dest.names.length + 1 + walkFuel < 256)
    (ls : List Label) (s : St)
    (hrun : run c (init fs (multiOps fs c dest items)) ls = some s) :
    Preserved fs.root s.fs.root ∧
    (∀ op ∈ s.queue, ∀ t, opTarget op = some t → s.fs.lexists t = false) ∧
    (∀ op r, s.todo = op :: r → ∀ t, opTarget op = some t → s.fs.lexists t = false) := by
  rcases first_collision fs.root dest.names items with habs | ⟨pre, e0, post, hit, hpre, hcol⟩
  · have H := multi_noclobber_any_interleaving fs c dest items fuel hd hn hwf hdest hdd hfuel hsrc hnd hun habs hlen
      ls s hrun
    exact ⟨H.1, H.2.1, H.2.2.1⟩
  · subst hit
    obtain ⟨s', hrel, H1, H2, H3⟩ := multi_collision_core fs c dest fuel pre post e0 hd hn hwf hdest hdd hfuel hsrc hnd
      hun hpre hcol hlen ls s hrun
    cases hrel with
    | before h1 h2 _ h4 =>
      rw [h1, h2]
      refine ⟨H1, H2, ?_⟩
      intro op r htd t ht
      rw [h4] at htd
      cases hs' : s'.todo with
      | nil =>
        rw [hs'] at htd
        simp only [List.nil_append, List.cons.injEq] at htd
        rw [← htd.1] at ht
        cases ht
      | cons op' r' =>
        rw [hs'] at htd
        simp only [List.cons_append, List.cons.injEq] at htd
        rw [← htd.1]  at ht
        exact H3 op' r' hs' t ht
    | after h1 h2 h3 _ _ =>
      rw [h1, h2]
      refine ⟨H1, H2, ?_⟩
      intro op r htd
      rw [h3] at htd
      cases htd

/-- if some source maps onto an existing destination entry, every COMPLETE run of the concurrent model — whatever
the interleaving — is failed, and the sequential run ends with a non-zero status -/
theorem multi_collision_fails (fs : Fs) (c : Cfg) (dest : RPath) (items : List CopySrc) (fuel : Nat)
    (hd : c.dereference = false) (hn : c.noClobber = true)
    (hwf : FsEq fs fs)
    (hdest : PlainTarget fs dest) (hdd : ∃ es, fs.root.getAt dest.names = some (.dir es))
    (hfuel : fuel < walkFuel)
    (hsrc : ∀ e ∈ items, PlainTarget fs e.path ∧ e.path.fileName = some e.base ∧
      fs.root.getAt e.path.names = some e.node ∧ e.node.Copyable fuel ∧ e.path.names.length + walkFuel < 256)
    (hnd : (items.map (·.base)).Nodup)
    (hun : ∀ e ∈ items, ∀ e' ∈ items,
      ¬ e.path.names <+: dest.names ++ [e'.base] ∧ ¬ dest.names ++ [e'.base] <+: e.path.names)
    (hcol : ∃ e ∈ items, fs.root.getAt (dest.names ++ [e.base]) ≠ none)
    (hlen : dest.names.length + 1 + walkFuel < 256) :
    (∀ (ls : List Label) (s : St), run c (init fs (multiOps fs c dest items)) ls = some s →
      final s = true → s.failed = true) ∧
    (execOps fs c (multiOps fs c dest items)).exit = .err := by
  rcases first_collision fs.root dest.names items with habs | ⟨pre, e0, post, hit, hpre, hcol0⟩
  · obtain ⟨e, he, hne⟩ := hcol
    exact absurd (habs e he) hne
  · subst hit
    constructor
    · intro ls s hrun hfin
      obtain ⟨s', hrel, _⟩ := multi_collision_core fs c dest fuel pre post e0 hd hn hwf hdest hdd hfuel hsrc hnd
        hun hpre hcol0 hlen ls s hrun
      cases hrel with
      | before _ _ _ h4 =>
        simp only [final, Bool.and_eq_true, List.isEmpty_iff] at hfin
        rw [hfin.1] at h4
        simp at h4
      | after _ _ _ h4 _ => exact h4
    · have h0 : e0 ∈ pre ++ e0 :: post := List.mem_append_right _ List.mem_cons_self
      obtain ⟨a1, _, a3, _, a5⟩ := hsrc e0 h0
      have hmem : Op.fail ∈ multiOps fs c dest (pre ++ e0 :: post) := by
        rw [multi_collision_shape fs c dest pre post e0 hd hn hdd ⟨a1, a3, a5⟩ hcol0 hlen]
        exact List.mem_append_right _ List.mem_cons_self
      cases he : (execOps fs c (multiOps fs c dest (pre ++ e0 :: post))).exit with
      | err => rfl
      | ok => exact absurd rfl (execOps_ok_no_fail c _ fs he _ hmem)

/-- sequential: the concatenated operations form a `FreshRun` up to the point where the run stops — each operation
is executed at a moment when its own target does not exist — whether or not some target exists -/
theorem multi_collision_fresh_run (fs : Fs) (c : Cfg) (dest : RPath) (items : List CopySrc) (fuel : Nat)
    (hd : c.dereference = false) (hn : c.noClobber = true)
    (hwf : FsEq fs fs)
    (hdest : PlainTarget fs dest) (hdd : ∃ es, fs.root.getAt dest.names = some (.dir es))
    (hfuel : fuel < walkFuel)
    (hsrc : ∀ e ∈ items, PlainTarget fs e.path ∧ e.path.fileName = some e.base ∧
      fs.root.getAt e.path.names = some e.node ∧ e.node.Copyable fuel ∧ e.path.names.length + walkFuel < 256)
    (hnd : (items.map (·.base)).Nodup)
    (hun : ∀ e ∈ items, ∀ e' ∈ items,
      ¬ e.path.names <+: dest.names ++ [e'.base] ∧ ¬ dest.names ++ [e'.base] <+: e.path.names)
    (hlen : dest.names.length + 1 + walkFuel < 256) :
    FreshRun fs c (multiOps fs c dest items) := by
  apply freshRun_of_reach
  intro ls s hr
  have := multi_collision_preserves fs c dest items fuel hd hn hwf hdest hdd hfuel hsrc hnd hun hlen ls s hr
  exact ⟨this.2.1, this.2.2⟩

/-- … hence the sequential run over all sources alters no entry that existed before, anywhere in the file system —
also when it stops at a collision -/
theorem multi_collision_seq_preserves (fs : Fs) (c : Cfg) (dest : RPath) (items : List CopySrc) (fuel : Nat)
    (hd : c.dereference = false) (hn : c.noClobber = true)
    (hwf : FsEq fs fs)
    (hdest : PlainTarget fs dest) (hdd : ∃ es, fs.root.getAt dest.names = some (.dir es))
    (hfuel : fuel < walkFuel)
    (hsrc : ∀ e ∈ items, PlainTarget fs e.path ∧ e.path.fileName = some e.base ∧
      fs.root.getAt e.path.names = some e.node ∧ e.node.Copyable fuel ∧ e.path.names.length + walkFuel < 256)
    (hnd : (items.map (·.base)).Nodup)
    (hun : ∀ e ∈ items, ∀ e' ∈ items,
      ¬ e.path.names <+: dest.names ++ [e'.base] ∧ ¬ dest.names ++ [e'.base] <+: e.path.names)
    (hlen : dest.names.length + 1 + walkFuel < 256) :
    Preserved fs.root (execOps fs c (multiOps fs c dest items)).fs.root :=
  freshRun_preserved c _ fs
    (multi_collision_fresh_run fs c dest items fuel hd hn hwf hdest hdd hfuel hsrc hnd hun hlen)

end Xcp
