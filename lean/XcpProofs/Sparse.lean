import XcpProofs.Loops
import XcpProofs.Extents
import XcpProofs.Compose
/-! Sparse copies write only inside the reported data ranges: `copy_sparse` inside the segments of the
SEEK_DATA/SEEK_HOLE search, parblock's blocks inside the merged extents. -/
namespace Xcp

/-- `copy_sparse` and the segment search walk the same positions: from `pos` on, every byte moved lies in a
segment the search reports from `pos` on (any fuel `g` of the search that suffices for the rest of the file) -/
theorem copySparse_within_segments (k : Kern) (s : SeekOracle) (src : Bytes) (hs : KernSafe k src.length)
    (hl : SeekLegal s src) (b : Nat) :
    ∀ (fuel a pos n g : Nat), src.length - pos < g →
      (copySparse k s b src.length fuel a pos).stop = .ok n →
      ∀ i, covered (jobsOf (copySparse k s b src.length fuel a pos).evs) i →
        ∃ seg ∈ segmentsOf s src.length g pos, seg.1 ≤ i ∧ i < seg.2 := by
  intro fuel
  induction fuel with
  | zero =>
    intro a pos n g _ _ i hc
    simp [copySparse, jobsOf] at hc
  | succ f ih =>
    intro a pos n g hg
    unfold copySparse
    simp only []
    split
    · rename_i hp
      obtain ⟨g', rfl⟩ : ∃ g', g = g' + 1 := ⟨g - 1, by omega⟩
      unfold segmentsOf
      rw [if_pos hp]
      simp only []
      obtain ⟨g1, g2, g3, g4, _⟩ := nss_spec hl hp
      generalize nextSparseSegments s src.length pos = seg at g1 g2 g3 g4 ⊢
      have hcb := copyBytes_spec k src.length hs true b (seg.2 - seg.1 + 1) a seg.1 (seg.2 - seg.1) 0
        (Nat.zero_le _)
      generalize copyBytes k true b (seg.2 - seg.1 + 1) a seg.1 (seg.2 - seg.1) 0 = R at hcb ⊢
      split
      · rename_i m hm
        obtain ⟨_, _, _, c4, _⟩ := hcb m hm
        intro hn i hc
        simp only [Run.pre_evs, jobsOf_append, covered_append] at hc
        simp only [Run.pre_stop] at hn
        rcases hc with hc | hc
        · have := (c4 i).mp hc
          exact ⟨seg, List.mem_cons_self, by omega, by omega⟩
        · obtain ⟨sg, hsg, h1⟩ := ih R.next seg.2 n g' (by omega) hn i hc
          exact ⟨sg, List.mem_cons_of_mem _ hsg, h1⟩
      · rename_i hnot
        intro hn
        exact absurd hn (hnot n)
    · intro _ i hc
      simp [jobsOf] at hc

/-- every block queued for a sparse file with an extent map lies inside a merged extent (no assumption on
the extent list: a reversed extent `stop < start` yields an empty range and no block) -/
theorem parblockJobs_within_merged (len b : Nat) (hb : 0 < b) (es : List Extent) :
    ∀ j ∈ parblockJobs len b true (some es), ∀ i, j.1 ≤ i → i < j.1 + j.2 → covers (mergeExtents es) i := by
  intro j hj i h1 h2
  simp only [parblockJobs, parblockRanges, if_true, List.mem_flatMap, List.mem_map] at hj
  obtain ⟨r, ⟨e, he, rfl⟩, hjb⟩ := hj
  have hc : covered (blocks e.start (e.stop - e.start) b) i := ⟨j, hjb, h1, h2⟩
  have := (blocks_cover e.start (e.stop - e.start) b hb i).mp hc
  exact ⟨e, he, this.1, by omega⟩

/-- an all-hole oracle reports the empty segment at end of file -/
theorem nextSparseSegments_allHole (len pos : Nat) :
    nextSparseSegments ⟨fun _ => none, fun _ => none⟩ len pos = (len, len) := rfl

/-- nothing asked, nothing done: `copy_bytes(0)` issues no call -/
theorem copyBytes_zero (k : Kern) (linux : Bool) (b fuel a pos : Nat) :
    copyBytes k linux b fuel a pos 0 0 = ⟨[], .ok 0, a⟩ := by
  cases fuel with
  | zero => simp [copyBytes]
  | succ f => simp [copyBytes_succ]

/-- at or beyond end of file `copy_sparse` returns at once -/
theorem copySparse_at_end (k : Kern) (s : SeekOracle) (b len fuel a pos : Nat) (h : len ≤ pos) :
    copySparse k s b len fuel a pos = ⟨[], .ok len, a⟩ := by
  have : ¬ pos < len := by omega
  cases fuel with
  | zero => simp [copySparse, this]
  | succ f => simp [copySparse, this]

theorem copySparse_allHole (k : Kern) (len b a : Nat) :
    copySparse k ⟨fun _ => none, fun _ => none⟩ b len (len + 1) a 0 = ⟨[], .ok len, a⟩ := by
  by_cases h0 : 0 < len
  · unfold copySparse
    simp only [if_pos h0, nextSparseSegments_allHole, Nat.sub_self, copyBytes_zero,
      copySparse_at_end k _ b len len a len (Nat.le_refl _)]
    rfl
  · exact copySparse_at_end k _ b len (len + 1) a 0 (by omega)

end Xcp
