import XcpProofs.EndToEndClashLemmas
import XcpProofs.MultiCollision
/-! # Lemmas for `EndToEndMore`: `runSources` under `--no-clobber`

`MultiNoClobber` / `MultiCollision` are about the concatenated lists computed in the initial state.  Here the fold
for `runSources`, which probes each source's target (and walks the source) in the state the earlier sources left:

* a source whose target is absent is copied exactly (`walk_shape` with the probe never firing, `exec_opsOf` — which
  does not depend on `noClobber`), creating where nothing was: every entry that existed is kept, and the later
  sources and targets are untouched;
* the first source whose target exists makes the walker emit the failure marker only: `runSources` stops there with
  the state unchanged and a non-zero status. -/
namespace Xcp

/-- under an existing plain directory, nothing at a child place: `lstat` finds nothing at or below it -/
theorem lexists_below_absent (g : Fs) (dn : List Name) (b : Name) (es : Entries)
    (hdd : g.root.getAt dn = some (.dir es)) (hab : g.root.getAt (dn ++ [b]) = none) :
    ∀ rel, g.lexists (relJoin (plainPath (dn ++ [b])) rel) = false := by
  intro rel
  rw [relJoin_plain]
  apply lexists_false_of_absent _ _ _ (getAt_append_none _ _ _ hab)
  intro p hp' hpne tg hgl
  by_cases hT : dn ++ [b] <+: p
  · obtain ⟨s', hs'⟩ := hT
    rw [← hs', getAt_append_none _ _ _ hab] at hgl
    cases hgl
  · have hpT : p <+: dn ++ [b] := by
      rcases List.prefix_or_prefix_of_prefix hp' (List.prefix_append (dn ++ [b]) rel) with h1 | h1
      · exact h1
      · exact absurd h1 hT
    have hpne' : p ≠ dn ++ [b] := fun e => hT (e ▸ List.prefix_refl _)
    have hpd := L0.prefix_dropLast_of_ne hpT hpne'
    rw [List.dropLast_concat] at hpd
    obtain ⟨es', hes'⟩ := L0.getAt_prefix_dir hdd hpd
    rw [hes'] at hgl
    cases hgl

/-- `runSources` under `--no-clobber`, from a state `g` that still holds every remaining source tree, where `dn` is a
directory and the remaining targets are as in the initial tree `root0`: every entry of `g` is kept, whatever the
exit; and if some remaining target exists, the exit is non-zero -/
theorem runSources_noclobber_inv (c : Cfg) (texts : GiTexts) (hd : c.dereference = false) (hn : c.noClobber = true)
    (hg : c.gitignore = false) (hnt : c.noTargetDir = false)
    (root0 : Node) (dn : List Name) (hdl : dn.length + 1 + 63 < 256) :
    ∀ (items : List CopySrc) (g : Fs), FsEq g g →
      (∃ es, g.root.getAt dn = some (.dir es)) →
      (items.map (·.base)).Nodup →
      (∀ e ∈ items, e.path = plainPath e.path.names ∧ e.path.fileName = some e.base ∧
        g.root.getAt e.path.names = some e.node ∧ e.node.isLink = false ∧ e.node.Copyable 63 ∧
        e.path.names.length + 63 < 256) →
      (∀ e ∈ items, ∀ e' ∈ items,
        ¬ e.path.names <+: dn ++ [e'.base] ∧ ¬ dn ++ [e'.base] <+: e.path.names) →
      (∀ e ∈ items, g.root.getAt (dn ++ [e.base]) = root0.getAt (dn ++ [e.base])) →
      Preserved g.root (runSources g c texts (plainPath dn) (items.map (·.path))).fs.root ∧
      ((∃ e ∈ items, root0.getAt (dn ++ [e.base]) ≠ none) →
        (runSources g c texts (plainPath dn) (items.map (·.path))).exit = .err) := by
  intro items
  induction items with
  | nil =>
    intro g _ _ _ _ _ _
    refine ⟨Preserved.refl _, ?_⟩
    rintro ⟨e, he, _⟩
    cases he
  | cons e rest ih =>
    intro g hwf hdd hnd hsrc hun hag
    obtain ⟨es, hes⟩ := hdd
    obtain ⟨hpe, hfn, hsn, hnl, hcop, hl⟩ := hsrc e List.mem_cons_self
    have hue := hun e List.mem_cons_self e List.mem_cons_self
    have hage := hag e List.mem_cons_self
    simp only [List.map_cons, List.nodup_cons] at hnd
    have htb := targetBase_dir g c hnt dn es e.path e.base hfn (by omega) hes
    rw [List.map_cons]
    cases hx : g.root.getAt (dn ++ [e.base]) with
    | some x =>
      -- the target exists: the failure marker, nothing else
      have hlx : g.lexists (plainPath (dn ++ [e.base])) = true :=
        (lexists_child_iff g dn e.base es hes (by omega)).2 (by rw [hx]; exact fun h => by cases h)
      have hls := lstat_plain g e.path.names e.node (by omega) hsn (noLinkAbove_of_getAt hsn)
      rw [← hpe] at hls
      have hwalk : walkEntry g c none e.path (plainPath (dn ++ [e.base])) walkFuel [] [] = [.fail] := by
        rw [walkFuel_eq]
        exact walkEntry_collision g c hd hn e.path _ 63 [] _ e.node hnl hls hlx
      have hfail : (execOps g c (walkEntry g c none e.path (plainPath (dn ++ [e.base])) walkFuel [] [])).exit =
          .err := by
        rw [hwalk]; rfl
      rw [runSources_cons_err_eq g c texts (plainPath dn) e.path (plainPath (dn ++ [e.base]))
        (rest.map (·.path)) hg htb hfail, hwalk]
      exact ⟨Preserved.refl _, fun _ => rfl⟩
    | none =>
      -- the target is absent: the source tree is placed there, exactly
      have hshape : walkEntry g c none (plainPath e.path.names) (plainPath (dn ++ [e.base])) (63 + 1) [] [] =
          opsOf e.node (e.path.names ++ []) (dn ++ [e.base] ++ []) := by
        have h1 : g.root.getAt (e.path.names ++ []) = some e.node := by simpa using hsn
        have h2 : e.node.isLink = true → ([] : List Name) ≠ [] := fun h => by rw [hnl] at h; cases h
        have h3 : e.path.names.length + ([] : List Name).length + 63 < 256 := by
          simp only [List.length_nil]; omega
        exact walk_shape g c hd e.path.names (dn ++ [e.base]) (.inr (lexists_below_absent g dn e.base es hes hx)) 63
          e.node hcop [] [] h1 h2 h3
      simp only [List.append_nil] at hshape
      rw [← hpe, ← walkFuel_eq] at hshape
      have hexec := exec_opsOf c 63 e.node hcop g e.path.names dn e.base es [] hsn hes hx hue.1 hue.2 hl hdl
      rw [List.append_nil] at hexec
      have hrun : execOps g c (walkEntry g c none e.path (plainPath (dn ++ [e.base])) walkFuel [] []) =
          ⟨.ok, { g with root := g.root.setAt (dn ++ [e.base]) e.node }⟩ := by
        rw [hshape, hexec]
        rfl
      have hstep := runSources_cons_ok g _ c texts (plainPath dn) e.path (plainPath (dn ++ [e.base]))
        (rest.map (·.path)) hg htb hrun
      have hwf1 := execOps_wf c _ g _ hwf hrun
      have hes1 : ∃ es1, (g.root.setAt (dn ++ [e.base]) e.node).getAt dn = some (.dir es1) := by
        rw [setAt_child g.root dn e.base es _ hes]
        exact ⟨_, getAt_setAt_exists g.root dn _ _ hes⟩
      rw [hstep]
      obtain ⟨ih1, ih2⟩ := ih _ hwf1 hes1 hnd.2
        (by
          intro e' he'
          obtain ⟨a1, a2, a3, a4, a5, a6⟩ := hsrc e' (List.mem_cons_of_mem _ he')
          have u := hun e' (List.mem_cons_of_mem _ he') e List.mem_cons_self
          refine ⟨a1, a2, ?_, a4, a5, a6⟩
          show (g.root.setAt (dn ++ [e.base]) e.node).getAt e'.path.names = _
          rw [getAt_setAt_unrelated _ _ _ _ u.2 u.1]
          exact a3)
        (fun a ha b hb => hun a (List.mem_cons_of_mem _ ha) b (List.mem_cons_of_mem _ hb))
        (by
          intro e' he'
          have hne : e.base ≠ e'.base := by
            intro h
            apply hnd.1
            rw [h]
            exact List.mem_map.2 ⟨e', he', rfl⟩
          show (g.root.setAt (dn ++ [e.base]) e.node).getAt (dn ++ [e'.base]) = _
          rw [getAt_setAt_unrelated _ _ _ _ (sibling_unrel dn hne) (sibling_unrel dn (Ne.symm hne))]
          exact hag e' (List.mem_cons_of_mem _ he'))
      refine ⟨Preserved.trans (setAt_missing_preserved g.root _ e.node hx) ih1, ?_⟩
      rintro ⟨e', he', hne'⟩
      apply ih2
      cases he' with
      | head => rw [← hage, hx] at hne'; exact absurd rfl hne'
      | tail _ hm => exact ⟨e', hm, hne'⟩

end Xcp
