import XcpModel.Libfs
/-! # The kernel contract the theorems assume (trusted base), as explicit predicates

These are hypotheses of the ∀-oracle theorems; the correspondence check exercises them on the real
kernel (every traced return value is checked against `KernSafe`/`KernLive`, every real FIEMAP/SEEK answer
against `WF`/`SeekLegal`). -/
namespace Xcp

/-- A data-moving call never moves more than requested, and a read-side call never moves bytes from
beyond the end of the source (`len` = source length). -/
def KernSafe (k : Kern) (len : Nat) : Prop :=
  ∀ a s off req n, k a s off req = .moved n →
    n ≤ req ∧ ((s = .cfr ∨ s = .pread ∨ s = .read) → n ≤ len - off)

/-- Progress: a non-empty read-side request strictly inside the file moves at least one byte
(`copy_file_range`/`read`/`pread` return 0 only at end of file). -/
def KernLive (k : Kern) (len : Nat) : Prop :=
  ∀ a s off req, (s = .cfr ∨ s = .pread ∨ s = .read) → 0 < req → off < len → k a s off req ≠ .moved 0

/-- No errors at all (used for termination-with-success statements). -/
def KernNoErr (k : Kern) : Prop := ∀ a s off req, ∃ n, k a s off req = .moved n

/-- FIEMAP's contract: extents are non-empty, sorted and non-overlapping. -/
def WF : List Extent → Prop
  | [] => True
  | [e] => e.start < e.stop
  | e :: f :: r => e.start < e.stop ∧ e.stop ≤ f.start ∧ WF (f :: r)

def covers (l : List Extent) (b : Nat) : Prop := ∃ e ∈ l, e.start ≤ b ∧ b < e.stop

/-- byte `i` of `src` is zero or beyond the end -/
def ZeroAt (src : Bytes) (i : Nat) : Prop := src[i]? = some 0 ∨ src.length ≤ i

/-- SEEK_DATA / SEEK_HOLE contract w.r.t. the file's bytes: `data pos` skips only zeros, lands strictly
inside the file on a position whose hole lies strictly after it; `ENXIO` means only zeros remain. -/
structure SeekLegal (s : SeekOracle) (src : Bytes) : Prop where
  data_some : ∀ pos d, pos < src.length → s.data pos = some d →
                pos ≤ d ∧ d < src.length ∧ (∀ i, pos ≤ i → i < d → ZeroAt src i)
  data_none : ∀ pos, pos < src.length → s.data pos = none → ∀ i, pos ≤ i → ZeroAt src i
  /-- only at positions SEEK_DATA returned (the only ones `next_sparse_segments` asks about): Linux
  `SEEK_HOLE` answers the position itself when it already lies in a hole -/
  hole_some : ∀ pos d h, pos < src.length → s.data pos = some d → s.hole d = some h → d < h ∧ h ≤ src.length
  hole_eof  : ∀ d, src.length ≤ d → s.hole d = none

/-- A concrete layout describes `src`: segments sorted, disjoint, non-empty, inside the file, and every
byte outside them is zero. -/
structure LayoutSound (L : Layout) (src : Bytes) : Prop where
  len_eq : L.len = src.length
  sorted : List.Pairwise (fun a b => a.2 ≤ b.1) L.segs
  nonempty : ∀ s ∈ L.segs, s.1 < s.2 ∧ s.2 ≤ L.len
  zeros : ∀ i, i < src.length → (¬ ∃ s ∈ L.segs, s.1 ≤ i ∧ i < s.2) → src[i]? = some 0

end Xcp
