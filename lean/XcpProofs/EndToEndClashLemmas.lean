import XcpProofs.EndToEndLemmas
import XcpProofs.MultiClashLemmas
import XcpProofs.AnyRunFrameLemmas
/-! # Lemmas for `EndToEndClash`: the whole program model, no compatibility assumed

* `validate_ok_eq`: whatever main's validation decides, if it accepts it returns the sources and the destination as
  spelled on the command line (no glob expansion).
* `single_frame_names`: the frame of one source's sequential run, whatever its exit, on name lists and with the
  walker's fixed fuel, in ANY state in which the source tree is in place (the form `runSources` needs: each source is
  walked in the state the previous sources left).
* `runSources_frame_inv`: the fold over the sources — a compatible source is an exact overlay step (`single_exact`)
  which changes no observation outside its target; the first incompatible one fails (`single_clash`), and
  `runSources` stops with the state that failed run left, to which `single_frame_names` applies. -/
namespace Xcp

theorem ite3_ok {ε α : Type} (c1 c2 c3 : Prop) [Decidable c1] [Decidable c2] [Decidable c3] (e1 e2 e3 : ε)
    (x : Except ε α) (r : α)
    (h : (if c1 then .error e1 else if c2 then .error e2 else if c3 then .error e3 else x) = .ok r) : x = .ok r := by
  by_cases h1 : c1
  · rw [if_pos h1] at h; cases h
  · rw [if_neg h1] at h
    by_cases h2 : c2
    · rw [if_pos h2] at h; cases h
    · rw [if_neg h2] at h
      by_cases h3 : c3
      · rw [if_pos h3] at h; cases h
      · rw [if_neg h3] at h; exact h

/-- if main's validation accepts an invocation without glob expansion, it returns the sources and destination as
spelled -/
theorem validate_ok_eq (fs : Fs) (o : Opts) (dest : RPath) (srcs : List RPath) (hglob : o.glob = false)
    (hpaths : (o.targetDir = none ∧ o.paths = srcs ++ [dest]) ∨ (o.targetDir = some dest ∧ o.paths = srcs))
    (r : List RPath × RPath) (h : validate fs o = .ok r) : r = (srcs, dest) := by
  have hex := expandSources_noglob fs o srcs hglob
  have hsplit : argSplit o = some (dest, srcs) := by
    unfold argSplit
    rcases hpaths with ⟨ht, hp⟩ | ⟨ht, hp⟩
    · rw [ht, hp]; exact splitLastPath_append srcs dest
    · rw [ht, hp]
  rw [validate_eq, hsplit] at h
  by_cases c0 : (o.cfg.noClobber && o.force) = true
  · rw [if_pos c0] at h; cases h
  · rw [if_neg c0] at h
    simp only [validateRest, hex] at h
    have h' := ite3_ok _ _ _ _ _ _ _ _ h
    cases hcs : checkSources fs o dest srcs with
    | error e => rw [hcs] at h'; cases h'
    | ok u =>
      rw [hcs] at h'
      simp only [Except.ok.injEq] at h'
      exact h'.symm

/-- a source whose run fails ends `runSources`, with the state that run left -/
theorem runSources_cons_err_eq (g : Fs) (c : Cfg) (texts : GiTexts) (dest s tb : RPath) (r : List RPath)
    (hg : c.gitignore = false) (h1 : targetBase g c dest s = some tb)
    (h2 : (execOps g c (walkEntry g c none s tb walkFuel [] [])).exit = .err) :
    runSources g c texts dest (s :: r) = execOps g c (walkEntry g c none s tb walkFuel [] []) := by
  have hp : parseIgnore g c texts s = none := by simp [parseIgnore, hg]
  simp only [runSources, h1, hp, h2]

/-- ONE SOURCE, the sequential run whatever its exit, on name lists, in a state `g` holding the source tree: whatever
is not at or below the target is observed as in `g` -/
theorem single_frame_names (g : Fs) (c : Cfg) (hd : c.dereference = false) (hn : c.noClobber = false)
    (sn par : List Name) (nm : Name) (n : Node) (pes : Entries)
    (hwf : FsEq g g) (hsn : g.root.getAt sn = some n) (hnl : n.isLink = false) (hcop : n.Copyable 63)
    (hp : g.root.getAt par = some (.dir pes))
    (hpl : ∀ x0, g.root.getAt (par ++ [nm]) = some x0 → PlainBelow x0)
    (hun1 : ¬ sn <+: par ++ [nm]) (hun2 : ¬ par ++ [nm] <+: sn)
    (hl1 : sn.length + 63 < 256) (hl2 : par.length + 1 + 63 < 256)
    (q : List Name) (hq : ¬ par ++ [nm] <+: q) :
    obsAt (execOps g c (walkEntry g c none (plainPath sn) (plainPath (par ++ [nm])) walkFuel [] [])).fs.root q =
      obsAt g.root q := by
  rw [walkFuel_eq]
  have hshape : walkEntry g c none (plainPath sn) (plainPath (par ++ [nm])) (63 + 1) [] [] =
      opsOf n (sn ++ []) (par ++ [nm] ++ []) := by
    have h1 : g.root.getAt (sn ++ []) = some n := by simpa using hsn
    have h2 : n.isLink = true → ([] : List Name) ≠ [] := fun h => by rw [hnl] at h; cases h
    have h3 : sn.length + ([] : List Name).length + 63 < 256 := by
      simp only [List.length_nil]; omega
    exact walk_shape g c hd sn (par ++ [nm]) (.inl hn) 63 n hcop [] [] h1 h2 h3
  simp only [List.append_nil] at hshape
  have hspec : OpsSpec n sn (par ++ [nm]) 63 (opsOf n sn (par ++ [nm])) :=
    ⟨mem_opsOf 63 n hcop _ _, hun1, hun2, by simp, hl1,
      by simp only [List.length_append, List.length_cons, List.length_nil]; omega⟩
  have hroot : g.root.isDir = true := by
    obtain ⟨es', hes'⟩ := L0.getAt_prefix_dir hp List.nil_prefix
    simp only [getAt_nil, Option.some.injEq] at hes'
    rw [hes']; rfl
  have hlT : NoLinkUpto g.root (par ++ [nm]) := by
    intro p hpp tg hgl
    rcases List.prefix_concat_iff.1 hpp with h1 | h1
    · subst h1
      have := (hpl _ hgl [] _ rfl).1
      cases this
    · exact noLinkUpto_of_getAt hp rfl p h1 tg hgl
  have hFS := frameSpec_single hspec g hroot ⟨pes, by rw [List.dropLast_concat]; exact hp⟩
  have hpls := plains_init_opt hspec g hsn hlT hpl
  rw [hshape]
  exact (FsInv.execOps hFS c _ (fun _ h => h) g ⟨hwf, hpls, fun _ _ => rfl⟩).frame q hq

/-- the frame of `runSources`, every exit: from a state `g` that still holds every remaining source tree, where `dn`
is a directory and the remaining targets are as in the initial tree `root0`, absent or made of directories and
regular files -/
theorem runSources_frame_inv (c : Cfg) (texts : GiTexts) (hd : c.dereference = false) (hn : c.noClobber = false)
    (hg : c.gitignore = false) (hnt : c.noTargetDir = false)
    (root0 : Node) (dn : List Name) (hdl : dn.length + 1 + 63 < 256) :
    ∀ (items : List CopySrc) (g : Fs), FsEq g g →
      (∃ es, g.root.getAt dn = some (.dir es)) →
      (items.map (·.base)).Nodup →
      (∀ e ∈ items, e.path = plainPath e.path.names ∧ e.path.fileName = some e.base ∧
        g.root.getAt e.path.names = some e.node ∧ e.node.isLink = false ∧ e.node.Copyable 63 ∧
        e.path.names.length + 63 < 256) →
      (∀ e ∈ items, ∀ e' ∈ items,
        ¬ e.path.names <+: dn ++ [e'.base] ∧ ¬ dn ++ [e'.base] <+: e.path.names) →
      (∀ e ∈ items, g.root.getAt (dn ++ [e.base]) = root0.getAt (dn ++ [e.base])) →
      (∀ e ∈ items, ∀ x, root0.getAt (dn ++ [e.base]) = some x → PlainBelow x) →
      ∀ q, (∀ e ∈ items, ¬ dn ++ [e.base] <+: q) →
        obsAt (runSources g c texts (plainPath dn) (items.map (·.path))).fs.root q = obsAt g.root q := by
  intro items
  induction items with
  | nil => intro g _ _ _ _ _ _ _ q _; rfl
  | cons e rest ih =>
    intro g hwf hdd hnd hsrc hun hag hpl q hq
    obtain ⟨es, hes⟩ := hdd
    obtain ⟨hpe, hfn, hsn, hnl, hcop, hl⟩ := hsrc e List.mem_cons_self
    have hue := hun e List.mem_cons_self e List.mem_cons_self
    have hage := hag e List.mem_cons_self
    have hqe := hq e List.mem_cons_self
    simp only [List.map_cons, List.nodup_cons] at hnd
    have htb := targetBase_dir g c hnt dn es e.path e.base hfn (by omega) hes
    rw [List.map_cons]
    by_cases hce : Compatible (root0.getAt (dn ++ [e.base])) e.node
    · -- an exact overlay step, which changes no observation outside its target
      have hrun := single_exact g c hd hn e.path.names dn e.base e.node es hwf.2.1 hsn hnl hcop hes
        (by rw [hage]; exact hce) hue.1 hue.2 hl hdl
      rw [← hpe] at hrun
      have hstep := runSources_cons_ok g _ c texts (plainPath dn) e.path (plainPath (dn ++ [e.base]))
        (rest.map (·.path)) hg htb hrun
      have hwf1 := execOps_wf c _ g _ hwf hrun
      obtain ⟨es1, hes1⟩ := placeAt_parent g.root dn e.base es (g.root.getAt (dn ++ [e.base])) e.node hes
      rw [hstep]
      have hrest := ih _ hwf1 ⟨es1, hes1⟩ hnd.2
        (by
          intro e' he'
          obtain ⟨a1, a2, a3, a4, a5, a6⟩ := hsrc e' (List.mem_cons_of_mem _ he')
          have u := hun e' (List.mem_cons_of_mem _ he') e List.mem_cons_self
          refine ⟨a1, a2, ?_, a4, a5, a6⟩
          show (placeAt g.root (dn ++ [e.base]) (g.root.getAt (dn ++ [e.base])) e.node).getAt e'.path.names = _
          rw [placeAt_getAt_unrelated _ _ _ _ _ u.2 u.1]
          exact a3)
        (fun a ha b hb => hun a (List.mem_cons_of_mem _ ha) b (List.mem_cons_of_mem _ hb))
        (by
          intro e' he'
          have hne : e.base ≠ e'.base := by
            intro h
            apply hnd.1
            rw [h]
            exact List.mem_map.2 ⟨e', he', rfl⟩
          show (placeAt g.root (dn ++ [e.base]) (g.root.getAt (dn ++ [e.base])) e.node).getAt (dn ++ [e'.base]) = _
          rw [placeAt_getAt_unrelated _ _ _ _ _ (sibling_unrel dn hne) (sibling_unrel dn (Ne.symm hne))]
          exact hag e' (List.mem_cons_of_mem _ he'))
        (fun a ha => hpl a (List.mem_cons_of_mem _ ha))
        q (fun a ha => hq a (List.mem_cons_of_mem _ ha))
      rw [hrest]
      show obsAt (placeAt g.root (dn ++ [e.base]) (g.root.getAt (dn ++ [e.base])) e.node) q = _
      rw [sameObs_placeAt g.root dn e.base es hes _ e.node q]
      exact setAt_out g.root (dn ++ [e.base]) q _ hqe
    · -- this source fails, and `runSources` stops with the state its run left
      have hplg : ∀ x0, g.root.getAt (dn ++ [e.base]) = some x0 → PlainBelow x0 := by
        intro x0 hx0
        rw [hage] at hx0
        exact hpl e List.mem_cons_self x0 hx0
      cases hx : root0.getAt (dn ++ [e.base]) with
      | none => rw [hx] at hce; exact absurd (compatible_none _) hce
      | some x =>
        rw [hx] at hce
        have hgx : g.root.getAt (dn ++ [e.base]) = some x := by rw [hage, hx]
        have hfail := single_clash g c hd hn e.path.names (dn ++ [e.base]) e.node x hwf.2.1 hsn hnl hcop hgx
          (by simp) (hpl e List.mem_cons_self x hx) hce hue.1 hue.2 hl
          (by simp only [List.length_append, List.length_cons, List.length_nil]; omega)
        rw [← hpe] at hfail
        rw [runSources_cons_err_eq g c texts (plainPath dn) e.path (plainPath (dn ++ [e.base]))
          (rest.map (·.path)) hg htb hfail]
        have hfr := single_frame_names g c hd hn e.path.names dn e.base e.node es hwf hsn hnl hcop hes hplg
          hue.1 hue.2 hl hdl q hqe
        rw [← hpe] at hfr
        exact hfr

end Xcp
