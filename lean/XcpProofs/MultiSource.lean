import XcpProofs.Overlay
import XcpProofs.MultiSourceLemmas
/-! Several sources in one run, `xcp -r s1 … sn DEST/` with `DEST` an existing directory: `runSources` handles the
sources in argv order, each `target_base` (`DEST/basename(si)`) being computed against the file system left by the
previous sources.  With pairwise distinct base names, sources unrelated to every target, and every target compatible
with its source tree in the INITIAL file system, the run succeeds and the result is the initial tree with each target
overlaid with its source tree (a fold of `mirror_overlay`). -/
namespace Xcp

/-- one source: the path as spelled, its base name, and the tree it designates -/
structure CopySrc where
  path : RPath
  base : Name
  node : Node

/-- the initial tree `root0` decides what each target is overlaid ONTO; the overlays are applied to `r` in order -/
def overlayAll (root0 : Node) (dn : List Name) : List CopySrc → Node → Node
  | [], r => r
  | e :: rest, r =>
    overlayAll root0 dn rest (r.setAt (dn ++ [e.base]) (Node.overlay (root0.getAt (dn ++ [e.base])) e.node))

/-- fresh targets: each source tree is placed under its base name -/
def placeAll (dn : List Name) : List CopySrc → Node → Node
  | [], r => r
  | e :: rest, r => placeAll dn rest (r.setAt (dn ++ [e.base]) e.node)

/-! ## The fold -/

theorem overlayAll_sameObs (root0 : Node) (dn : List Name) : ∀ (items : List CopySrc) (r r' : Node),
    SameObs r r' → SameObs (overlayAll root0 dn items r) (overlayAll root0 dn items r') := by
  intro items
  induction items with
  | nil => intro r r' h; exact h
  | cons e rest ih =>
    intro r r' h
    simp only [overlayAll]
    exact ih _ _ (setAt_sameObs _ _ _ _ h)

theorem overlayAll_WF (root0 : Node) (dn : List Name) : ∀ (items : List CopySrc) (r : Node), r.WF →
    (∀ e ∈ items, (Node.overlay (root0.getAt (dn ++ [e.base])) e.node).WF) →
    (overlayAll root0 dn items r).WF := by
  intro items
  induction items with
  | nil => intro r h _; exact h
  | cons e rest ih =>
    intro r h hv
    simp only [overlayAll]
    exact ih _ (setAt_WF _ (hv e List.mem_cons_self) _ _ h) (fun e' he' => hv e' (List.mem_cons_of_mem _ he'))

theorem overlayAll_fresh (root0 : Node) (dn : List Name) : ∀ (items : List CopySrc) (r : Node),
    (∀ e ∈ items, root0.getAt (dn ++ [e.base]) = none) → overlayAll root0 dn items r = placeAll dn items r := by
  intro items
  induction items with
  | nil => intro r _; rfl
  | cons e rest ih =>
    intro r h
    simp only [overlayAll, placeAll]
    rw [h e List.mem_cons_self, overlay_none]
    exact ih _ (fun e' he' => h e' (List.mem_cons_of_mem _ he'))

/-- what is unrelated to every target is untouched (in particular the sources) -/
theorem overlayAll_getAt_unrelated (root0 : Node) (dn q : List Name) : ∀ (items : List CopySrc) (r : Node),
    (∀ e ∈ items, ¬ dn ++ [e.base] <+: q ∧ ¬ q <+: dn ++ [e.base]) →
    (overlayAll root0 dn items r).getAt q = r.getAt q := by
  intro items
  induction items with
  | nil => intro r _; rfl
  | cons e rest ih =>
    intro r h
    simp only [overlayAll]
    have he := h e List.mem_cons_self
    rw [ih _ (fun e' he' => h e' (List.mem_cons_of_mem _ he')), getAt_setAt_unrelated _ _ _ _ he.1 he.2]

/-- every target holds its overlay in the result -/
theorem overlayAll_getAt_target (root0 : Node) (dn : List Name) : ∀ (items : List CopySrc) (r : Node),
    (items.map (·.base)).Nodup → (∃ es, r.getAt dn = some (.dir es)) →
    ∀ e ∈ items, (overlayAll root0 dn items r).getAt (dn ++ [e.base]) =
      some (Node.overlay (root0.getAt (dn ++ [e.base])) e.node) := by
  intro items
  induction items with
  | nil => intro r _ _ e he; cases he
  | cons a rest ih =>
    intro r hnd hdd e he
    obtain ⟨es, hes⟩ := hdd
    simp only [List.map_cons, List.nodup_cons] at hnd
    simp only [overlayAll]
    cases he with
    | head =>
      rw [overlayAll_getAt_unrelated root0 dn _ rest]
      · exact getAt_setAt_child _ _ dn r es hes
      · intro e' he'
        have hne : e'.base ≠ a.base := by
          intro h
          apply hnd.1
          rw [← h]
          exact List.mem_map.2 ⟨e', he', rfl⟩
        exact ⟨sibling_unrel dn hne, sibling_unrel dn (Ne.symm hne)⟩
    | tail _ he' =>
      apply ih _ hnd.2 _ e he'
      rw [setAt_child r dn a.base es _ hes]
      exact ⟨_, getAt_setAt_exists r dn _ _ hes⟩

/-! ## The induction over the sources -/

/-- Generalised invariant: `g` is the state before the remaining sources `items`; it still holds every remaining
source tree at its place, `DEST` is still a directory, and the remaining targets are as in the initial tree `root0`.
(Symbolic links inside an already copied tree now also exist below `DEST/bi`, but never at or above a remaining
source, `DEST`, or a remaining target: everything needed is a `getAt` fact about places unrelated to `DEST/bi`.) -/
theorem runSources_overlay_inv (c : Cfg) (texts : GiTexts) (hd : c.dereference = false) (hn : c.noClobber = false)
    (hg : c.gitignore = false) (hnt : c.noTargetDir = false)
    (root0 : Node) (hw0 : root0.WF) (dn : List Name) (hdl : dn.length + 1 + 63 < 256) :
    ∀ (items : List CopySrc) (g : Fs), FsEq g g →
      (∃ es, g.root.getAt dn = some (.dir es)) →
      (items.map (·.base)).Nodup →
      (∀ e ∈ items, e.path = plainPath e.path.names ∧ e.path.fileName = some e.base ∧
        g.root.getAt e.path.names = some e.node ∧ e.node.isLink = false ∧ e.node.Copyable 63 ∧
        e.path.names.length + 63 < 256) →
      (∀ e ∈ items, ∀ e' ∈ items,
        ¬ e.path.names <+: dn ++ [e'.base] ∧ ¬ dn ++ [e'.base] <+: e.path.names) →
      (∀ e ∈ items, g.root.getAt (dn ++ [e.base]) = root0.getAt (dn ++ [e.base])) →
      (∀ e ∈ items, Compatible (root0.getAt (dn ++ [e.base])) e.node) →
      ∃ fs', runSources g c texts (plainPath dn) (items.map (·.path)) = ⟨.ok, fs'⟩ ∧
        FsEq fs' { g with root := overlayAll root0 dn items g.root } := by
  intro items
  induction items with
  | nil =>
    intro g hwf _ _ _ _ _ _
    exact ⟨g, rfl, hwf⟩
  | cons e rest ih =>
    intro g hwf hdd hnd hsrc hun hag hcomp
    obtain ⟨es, hes⟩ := hdd
    obtain ⟨hpe, hfn, hsn, hnl, hcop, hl⟩ := hsrc e List.mem_cons_self
    have hue := hun e List.mem_cons_self e List.mem_cons_self
    have hage := hag e List.mem_cons_self
    simp only [List.map_cons, List.nodup_cons] at hnd
    -- the first source
    have htb := targetBase_dir g c hnt dn es e.path e.base hfn (by omega) hes
    have hrun := single_exact g c hd hn e.path.names dn e.base e.node es hwf.2.1 hsn hnl hcop hes
      (by rw [hage]; exact hcomp e List.mem_cons_self) hue.1 hue.2 hl hdl
    rw [← hpe] at hrun
    have hstep := runSources_cons_ok g _ c texts (plainPath dn) e.path (plainPath (dn ++ [e.base]))
      (rest.map (·.path)) hg htb hrun
    have hwf1 := execOps_wf c _ g _ hwf hrun
    obtain ⟨es1, hes1⟩ := placeAt_parent g.root dn e.base es (g.root.getAt (dn ++ [e.base])) e.node hes
    -- the remaining sources, from the state it leaves
    obtain ⟨fs', hr', heq'⟩ := ih _ hwf1 ⟨es1, hes1⟩ hnd.2
      (by
        intro e' he'
        obtain ⟨a1, a2, a3, a4, a5, a6⟩ := hsrc e' (List.mem_cons_of_mem _ he')
        have u := hun e' (List.mem_cons_of_mem _ he') e List.mem_cons_self
        refine ⟨a1, a2, ?_, a4, a5, a6⟩
        show (placeAt g.root (dn ++ [e.base]) (g.root.getAt (dn ++ [e.base])) e.node).getAt e'.path.names = _
        rw [placeAt_getAt_unrelated _ _ _ _ _ u.2 u.1]
        exact a3)
      (fun a ha b hb => hun a (List.mem_cons_of_mem _ ha) b (List.mem_cons_of_mem _ hb))
      (by
        intro e' he'
        have hne : e.base ≠ e'.base := by
          intro h
          apply hnd.1
          rw [h]
          exact List.mem_map.2 ⟨e', he', rfl⟩
        show (placeAt g.root (dn ++ [e.base]) (g.root.getAt (dn ++ [e.base])) e.node).getAt (dn ++ [e'.base]) = _
        rw [placeAt_getAt_unrelated _ _ _ _ _ (sibling_unrel dn hne) (sibling_unrel dn (Ne.symm hne))]
        exact hag e' (List.mem_cons_of_mem _ he'))
      (fun a ha => hcomp a (List.mem_cons_of_mem _ ha))
    refine ⟨fs', by rw [List.map_cons, hstep]; exact hr', ?_⟩
    -- the state it leaves is the overlay up to the order of entries
    have hsame : SameObs (placeAt g.root (dn ++ [e.base]) (g.root.getAt (dn ++ [e.base])) e.node)
        (g.root.setAt (dn ++ [e.base]) (Node.overlay (root0.getAt (dn ++ [e.base])) e.node)) := by
      rw [← hage]
      exact sameObs_placeAt g.root dn e.base es hes _ e.node
    refine FsEq.trans heq' ⟨rfl, heq'.2.2.1, ?_, overlayAll_sameObs root0 dn rest _ _ hsame⟩
    apply overlayAll_WF root0 dn (e :: rest) g.root hwf.2.1
    intro e' he'
    obtain ⟨_, _, a3, _, a5, _⟩ := hsrc e' he'
    exact overlay_WF 63 e'.node a5 (subtree_WF hwf.2.1 a3) _ (fun x hx => subtree_WF hw0 hx)

/-! ## The theorems -/

/-- SEVERAL SOURCES INTO AN EXISTING DIRECTORY.  Options: no dereference / gitignore / no-clobber /
no-target-directory.  `dest` is a plain path designating a directory; every source is a plain path with base name
`e.base` designating the tree `e.node`, which is copyable and less than `walkFuel` levels deep; the base names are
pairwise distinct; no source is inside (or above) any target `dest/b`; each target is compatible with its source
tree in the initial file system; paths are short enough for the resolution fuel.  Then the run over all sources
succeeds and the final tree is the initial one with each `dest/bi` overlaid with `ni`, in order — up to the order of
directory entries. -/
theorem multi_overlay (fs : Fs) (c : Cfg) (texts : GiTexts) (dest : RPath) (items : List CopySrc) (fuel : Nat)
    (hd : c.dereference = false) (hn : c.noClobber = false) (hg : c.gitignore = false)
    (hnt : c.noTargetDir = false)
    (hwf : FsEq fs fs)
    (hdest : PlainTarget fs dest) (hdd : ∃ es, fs.root.getAt dest.names = some (.dir es))
    (hfuel : fuel < walkFuel)
    (hsrc : ∀ e ∈ items, PlainTarget fs e.path ∧ e.path.fileName = some e.base ∧
      fs.root.getAt e.path.names = some e.node ∧ e.node.Copyable fuel ∧ e.path.names.length + walkFuel < 256)
    (hnd : (items.map (·.base)).Nodup)
    (hun : ∀ e ∈ items, ∀ e' ∈ items,
      ¬ e.path.names <+: dest.names ++ [e'.base] ∧ ¬ dest.names ++ [e'.base] <+: e.path.names)
    (hcomp : ∀ e ∈ items, Compatible (fs.root.getAt (dest.names ++ [e.base])) e.node)
    (hlen : dest.names.length + 1 + walkFuel < 256) :
    ∃ fs', runSources fs c texts dest (items.map (·.path)) = ⟨.ok, fs'⟩ ∧
      FsEq fs' { fs with root := overlayAll fs.root dest.names items fs.root } := by
  have hw : walkFuel = 64 := rfl
  rw [hw] at hfuel hlen
  have hde := plainTarget_eq fs dest hdest
  have h := runSources_overlay_inv c texts hd hn hg hnt fs.root hwf.2.1 dest.names (by omega) items fs hwf hdd hnd
    (by
      intro e he
      obtain ⟨hp, hfn, hsn, hcop, hl⟩ := hsrc e he
      rw [hw] at hl
      refine ⟨plainTarget_eq fs e.path hp, hfn, hsn, ?_, copyable_mono hcop (by omega), by omega⟩
      cases hnode : e.node with
      | link t => exact absurd (hnode ▸ hsn) (hp.2.2.2 _ (List.prefix_refl _) t)
      | _ => rfl)
    hun (fun _ _ => rfl) hcomp
  rw [← hde] at h
  exact h

/-- FRESH TARGETS: if no `dest/bi` exists, the result is the initial tree with each `ni` placed at `dest/bi` -/
theorem multi_fresh (fs : Fs) (c : Cfg) (texts : GiTexts) (dest : RPath) (items : List CopySrc) (fuel : Nat)
    (hd : c.dereference = false) (hn : c.noClobber = false) (hg : c.gitignore = false)
    (hnt : c.noTargetDir = false)
    (hwf : FsEq fs fs)
    (hdest : PlainTarget fs dest) (hdd : ∃ es, fs.root.getAt dest.names = some (.dir es))
    (hfuel : fuel < walkFuel)
    (hsrc : ∀ e ∈ items, PlainTarget fs e.path ∧ e.path.fileName = some e.base ∧
      fs.root.getAt e.path.names = some e.node ∧ e.node.Copyable fuel ∧ e.path.names.length + walkFuel < 256)
    (hnd : (items.map (·.base)).Nodup)
    (hun : ∀ e ∈ items, ∀ e' ∈ items,
      ¬ e.path.names <+: dest.names ++ [e'.base] ∧ ¬ dest.names ++ [e'.base] <+: e.path.names)
    (habs : ∀ e ∈ items, fs.root.getAt (dest.names ++ [e.base]) = none)
    (hlen : dest.names.length + 1 + walkFuel < 256) :
    ∃ fs', runSources fs c texts dest (items.map (·.path)) = ⟨.ok, fs'⟩ ∧
      FsEq fs' { fs with root := placeAll dest.names items fs.root } := by
  have h := multi_overlay fs c texts dest items fuel hd hn hg hnt hwf hdest hdd hfuel hsrc hnd hun
    (fun e he => by rw [habs e he]; exact compatible_none _) hlen
  rw [overlayAll_fresh fs.root dest.names items fs.root habs] at h
  exact h

/-- what the final tree holds: every target its overlay, every source its tree (observed), under the hypotheses of
`multi_overlay` -/
theorem multi_overlay_reads (fs : Fs) (c : Cfg) (texts : GiTexts) (dest : RPath) (items : List CopySrc) (fuel : Nat)
    (hd : c.dereference = false) (hn : c.noClobber = false) (hg : c.gitignore = false)
    (hnt : c.noTargetDir = false)
    (hwf : FsEq fs fs)
    (hdest : PlainTarget fs dest) (hdd : ∃ es, fs.root.getAt dest.names = some (.dir es))
    (hfuel : fuel < walkFuel)
    (hsrc : ∀ e ∈ items, PlainTarget fs e.path ∧ e.path.fileName = some e.base ∧
      fs.root.getAt e.path.names = some e.node ∧ e.node.Copyable fuel ∧ e.path.names.length + walkFuel < 256)
    (hnd : (items.map (·.base)).Nodup)
    (hun : ∀ e ∈ items, ∀ e' ∈ items,
      ¬ e.path.names <+: dest.names ++ [e'.base] ∧ ¬ dest.names ++ [e'.base] <+: e.path.names)
    (hcomp : ∀ e ∈ items, Compatible (fs.root.getAt (dest.names ++ [e.base])) e.node)
    (hlen : dest.names.length + 1 + walkFuel < 256) :
    ∃ fs', runSources fs c texts dest (items.map (·.path)) = ⟨.ok, fs'⟩ ∧
      ∀ e ∈ items,
        obsAt fs'.root (dest.names ++ [e.base]) =
          some (Node.overlay (fs.root.getAt (dest.names ++ [e.base])) e.node).obs ∧
        obsAt fs'.root e.path.names = some e.node.obs := by
  obtain ⟨fs', hrun, heq⟩ := multi_overlay fs c texts dest items fuel hd hn hg hnt hwf hdest hdd hfuel hsrc hnd hun
    hcomp hlen
  refine ⟨fs', hrun, ?_⟩
  intro e he
  constructor
  · rw [heq.2.2.2 (dest.names ++ [e.base])]
    simp only [obsAt]
    rw [overlayAll_getAt_target fs.root dest.names items fs.root hnd hdd e he]
    rfl
  · rw [heq.2.2.2 e.path.names]
    simp only [obsAt]
    rw [overlayAll_getAt_unrelated fs.root dest.names e.path.names items fs.root
      (fun e' he' => ⟨(hun e he e' he').2, (hun e he e' he').1⟩), (hsrc e he).2.2.1]
    rfl

end Xcp
