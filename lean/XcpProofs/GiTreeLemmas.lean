import XcpProofs.Mirror
/-! # Lemmas for the tree-level `--gitignore` theorem

The pruned tree `Node.prune` (the source tree minus the entries the walker's filter excludes, with exactly the
`isDir` flag the walker computes), its algebra (`getAt` of a pruned tree, `Copyable`/`WF` are kept, `ps = []`
prunes nothing), one-step unfoldings of `walkEntry` with `gi = some ps`, and the
execution theorem `exec_opsOf_sub` for the operation list of a tree `m` whose non-directory nodes are found in the
state at the same relative paths below the source path (copy operations read their source from the UNPRUNED tree). -/
namespace Xcp

/-! ## The pruned tree

`walkEntry` tests an entry below the root with `Gi.keeps ps rel isDirForGi`, where `isDirForGi` is the entry's own
type as `lstat` reports it: `true` for a directory; for a symbolic link `c.dereference && (it leads to a directory)`;
`false` otherwise.  Without `--dereference` (the setting of the mirror theorems) the flag is therefore `Node.isDir`
of the entry's node — determined by the source tree alone, links included. -/

mutual
/-- the tree `n` found at relative path `rel`, minus what the patterns exclude below it; `n` itself is not tested -/
def Node.prune (ps : List Gi.Pattern) : List Name → Node → Node
  | rel, .dir es => .dir (pruneL ps rel es)
  | _, .file k => .file k
  | _, .link t => .link t
  | _, .special k d => .special k d
/-- the entries of the directory at `rel` that pass the walker's test, each pruned in turn -/
def pruneL (ps : List Gi.Pattern) : List Name → List (Name × Node) → List (Name × Node)
  | _, [] => []
  | rel, (m, ch) :: r =>
    if Gi.keeps ps (rel ++ [m]) ch.isDir then (m, Node.prune ps (rel ++ [m]) ch) :: pruneL ps rel r
    else pruneL ps rel r
end

theorem prune_nondir (ps : List Gi.Pattern) (rel : List Name) (n : Node)
    (h : n.isDir = false) : Node.prune ps rel n = n := by
  cases n <;> simp [Node.isDir] at h <;> simp [Node.prune]

theorem prune_isDir (ps : List Gi.Pattern) (rel : List Name) (n : Node) :
    (Node.prune ps rel n).isDir = n.isDir := by
  cases n <;> simp [Node.prune, Node.isDir]

theorem pruneL_cons_keep (ps : List Gi.Pattern) (rel : List Name) (m : Name) (ch : Node)
    (r : List (Name × Node)) (h : Gi.keeps ps (rel ++ [m]) ch.isDir = true) :
    pruneL ps rel ((m, ch) :: r) = (m, Node.prune ps (rel ++ [m]) ch) :: pruneL ps rel r := by
  simp [pruneL, h]

theorem pruneL_cons_drop (ps : List Gi.Pattern) (rel : List Name) (m : Name) (ch : Node)
    (r : List (Name × Node)) (h : Gi.keeps ps (rel ++ [m]) ch.isDir = false) :
    pruneL ps rel ((m, ch) :: r) = pruneL ps rel r := by
  simp [pruneL, h]

/-! ## Membership in a pruned entry list -/

theorem pruneL_mem (ps : List Gi.Pattern) (rel : List Name) :
    ∀ (es : List (Name × Node)) (e : Name × Node), e ∈ pruneL ps rel es →
      ∃ ch, (e.1, ch) ∈ es ∧ e.2 = Node.prune ps (rel ++ [e.1]) ch ∧
        Gi.keeps ps (rel ++ [e.1]) ch.isDir = true := by
  intro es
  induction es with
  | nil => intro e he; simp [pruneL] at he
  | cons kv r ih =>
    obtain ⟨m, c⟩ := kv
    intro e he
    cases hk : Gi.keeps ps (rel ++ [m]) c.isDir with
    | true =>
      rw [pruneL_cons_keep _ _ _ _ _ hk] at he
      cases he with
      | head => exact ⟨c, List.mem_cons_self, rfl, hk⟩
      | tail _ hm =>
        obtain ⟨ch, h1, h2, h3⟩ := ih e hm
        exact ⟨ch, List.mem_cons_of_mem _ h1, h2, h3⟩
    | false =>
      rw [pruneL_cons_drop _ _ _ _ _ hk] at he
      obtain ⟨ch, h1, h2, h3⟩ := ih e he
      exact ⟨ch, List.mem_cons_of_mem _ h1, h2, h3⟩

theorem pruneL_mem_of (ps : List Gi.Pattern) (rel : List Name) :
    ∀ (es : List (Name × Node)) (m : Name) (ch : Node), (m, ch) ∈ es →
      Gi.keeps ps (rel ++ [m]) ch.isDir = true →
      (m, Node.prune ps (rel ++ [m]) ch) ∈ pruneL ps rel es := by
  intro es
  induction es with
  | nil => intro m ch he; cases he
  | cons kv r ih =>
    obtain ⟨k, c⟩ := kv
    intro m ch he hkp
    cases hk : Gi.keeps ps (rel ++ [k]) c.isDir with
    | true =>
      rw [pruneL_cons_keep _ _ _ _ _ hk]
      cases he with
      | head => exact List.mem_cons_self
      | tail _ hm => exact List.mem_cons_of_mem _ (ih m ch hm hkp)
    | false =>
      rw [pruneL_cons_drop _ _ _ _ _ hk]
      cases he with
      | head => rw [hk] at hkp; cases hkp
      | tail _ hm => exact ih m ch hm hkp

theorem pruneL_names_sublist (ps : List Gi.Pattern) (rel : List Name) :
    ∀ (es : List (Name × Node)), List.Sublist ((pruneL ps rel es).map (·.1)) (es.map (·.1)) := by
  intro es
  induction es with
  | nil => simp [pruneL]
  | cons kv r ih =>
    obtain ⟨m, c⟩ := kv
    cases hk : Gi.keeps ps (rel ++ [m]) c.isDir with
    | true =>
      rw [pruneL_cons_keep _ _ _ _ _ hk]
      simp only [List.map_cons]
      exact List.Sublist.cons_cons _ ih
    | false =>
      rw [pruneL_cons_drop _ _ _ _ _ hk]
      simp only [List.map_cons]
      exact List.Sublist.cons _ ih

theorem pruneL_nodup (ps : List Gi.Pattern) (rel : List Name) (es : List (Name × Node))
    (h : (es.map (·.1)).Nodup) : ((pruneL ps rel es).map (·.1)).Nodup :=
  List.Nodup.sublist (pruneL_names_sublist ps rel es) h

theorem entGet_mem_gi {es : Entries} {n : Name} {x : Node} (h : entGet es n = some x) : (n, x) ∈ es := by
  induction es with
  | nil => simp [entGet] at h
  | cons kv r ih =>
    obtain ⟨k, v⟩ := kv
    by_cases hk : k = n
    · simp only [entGet, hk, if_true, Option.some.injEq] at h
      subst hk; subst h
      exact List.mem_cons_self
    · simp only [entGet, hk, if_false] at h
      exact List.mem_cons_of_mem _ (ih h)

/-- looking a name up in a pruned directory: the entry of the original directory, pruned, and it passed the test -/
theorem entGet_pruneL (ps : List Gi.Pattern) (rel : List Name) (es : List (Name × Node))
    (hnd : (es.map (·.1)).Nodup) (k : Name) (y : Node) (h : entGet (pruneL ps rel es) k = some y) :
    ∃ ch, entGet es k = some ch ∧ y = Node.prune ps (rel ++ [k]) ch ∧
      Gi.keeps ps (rel ++ [k]) ch.isDir = true := by
  obtain ⟨ch, h1, h2, h3⟩ := pruneL_mem ps rel es (k, y) (entGet_mem_gi h)
  exact ⟨ch, entGet_of_mem es hnd (k, ch) h1, h2, h3⟩

theorem entGet_pruneL_of (ps : List Gi.Pattern) (rel : List Name) (es : List (Name × Node))
    (hnd : (es.map (·.1)).Nodup) (k : Name) (ch : Node) (h : entGet es k = some ch)
    (hk : Gi.keeps ps (rel ++ [k]) ch.isDir = true) :
    entGet (pruneL ps rel es) k = some (Node.prune ps (rel ++ [k]) ch) :=
  entGet_of_mem _ (pruneL_nodup ps rel es hnd) (k, _) (pruneL_mem_of ps rel es k ch (entGet_mem_gi h) hk)

/-! ## `Copyable` is kept -/

theorem copyableL_of_mem_gi {es : List (Name × Node)} {d : Nat} (h : ∀ e ∈ es, e.2.Copyable d) :
    Node.Copyable.CopyableL es d := by
  induction es with
  | nil => simp [Node.Copyable.CopyableL]
  | cons kv r ih =>
    obtain ⟨k, x⟩ := kv
    simp only [Node.Copyable.CopyableL]
    exact ⟨h (k, x) List.mem_cons_self, ih (fun e he => h e (List.mem_cons_of_mem _ he))⟩

theorem copyable_prune (ps : List Gi.Pattern) :
    ∀ (d : Nat) (n : Node), n.Copyable d → ∀ rel, (Node.prune ps rel n).Copyable d := by
  intro d
  induction d with
  | zero =>
    intro n hc rel
    cases n with
    | dir es => simp [Node.Copyable] at hc
    | _ => simpa [Node.prune] using hc
  | succ d ih =>
    intro n hc rel
    cases n with
    | dir es =>
      obtain ⟨d', hd', hnd, hch⟩ := copyable_dir hc
      have hd'' : d' = d := by omega
      subst hd''
      simp only [Node.prune, Node.Copyable]
      refine ⟨pruneL_nodup ps rel es hnd, copyableL_of_mem_gi ?_⟩
      intro e he
      obtain ⟨ch, h1, h2, _⟩ := pruneL_mem ps rel es e he
      rw [h2]
      exact ih ch (hch _ h1) _
    | file k => simpa [Node.prune] using hc
    | link t => simpa [Node.prune] using hc
    | special k dv => simpa [Node.prune] using hc

/-! ## `getAt` of a pruned tree -/

/-- every node of the pruned tree sits at the same relative path in the original tree, and is that node pruned -/
theorem getAt_prune (ps : List Gi.Pattern) :
    ∀ (q : List Name) (d : Nat) (n : Node) (rel : List Name) (x : Node), n.Copyable d →
      (Node.prune ps rel n).getAt q = some x →
      ∃ y, n.getAt q = some y ∧ x = Node.prune ps (rel ++ q) y := by
  intro q
  induction q with
  | nil =>
    intro d n rel x _ h
    simp only [getAt_nil, Option.some.injEq] at h
    exact ⟨n, by simp, by simp [h]⟩
  | cons k q' ih =>
    intro d n rel x hc h
    obtain ⟨es', c', he', hg', hx'⟩ := Node.getAt_cons_some h
    cases n with
    | dir es =>
      simp only [Node.prune, Node.dir.injEq] at he'
      subst he'
      obtain ⟨d', _, hnd, hch⟩ := copyable_dir hc
      obtain ⟨ch, h1, h2, _⟩ := entGet_pruneL ps rel es hnd k c' hg'
      subst h2
      obtain ⟨y, hy1, hy2⟩ := ih d' ch (rel ++ [k]) x (hch _ (entGet_mem_gi h1)) hx'
      refine ⟨y, ?_, ?_⟩
      · rw [getAt_dir_cons, h1]; exact hy1
      · rw [hy2]; simp [List.append_assoc]
    | file _ => simp [Node.prune] at he'
    | link _ => simp [Node.prune] at he'
    | special _ _ => simp [Node.prune] at he'

/-- a non-directory of the pruned tree is the very node of the original tree at that path -/
theorem getAt_prune_leaf (ps : List Gi.Pattern) (q : List Name) (d : Nat) (n : Node)
    (rel : List Name) (x : Node) (hc : n.Copyable d) (h : (Node.prune ps rel n).getAt q = some x)
    (hx : x.isDir = false) : n.getAt q = some x := by
  obtain ⟨y, hy1, hy2⟩ := getAt_prune ps q d n rel x hc h
  have hyd : y.isDir = false := by rw [← prune_isDir ps (rel ++ q) y, ← hy2]; exact hx
  rw [prune_nondir _ _ _ hyd] at hy2
  rw [hy2]; exact hy1

/-- an entry that fails the test is absent from the pruned tree, with everything below it -/
theorem getAt_prune_excluded (ps : List Gi.Pattern) (d : Nat) (n : Node) (hc : n.Copyable d)
    (rel q : List Name) (m : Name) (ch : Node) (s : List Name)
    (hch : n.getAt (q ++ [m]) = some ch)
    (hx : Gi.keeps ps (rel ++ q ++ [m]) ch.isDir = false) :
    (Node.prune ps rel n).getAt (q ++ [m] ++ s) = none := by
  cases hp : (Node.prune ps rel n).getAt (q ++ [m]) with
  | none => exact getAt_append_none _ _ _ hp
  | some x =>
    exfalso
    rw [Node.getAt_append] at hp
    cases hz : (Node.prune ps rel n).getAt q with
    | none => simp [hz] at hp
    | some z =>
      simp only [hz, Option.bind_some] at hp
      obtain ⟨y, hy1, hy2⟩ := getAt_prune ps q d n rel z hc hz
      subst hy2
      rw [Node.getAt_append, hy1] at hch
      simp only [Option.bind_some] at hch
      obtain ⟨es, c, he, hg, hcc⟩ := Node.getAt_cons_some hch
      simp only [getAt_nil, Option.some.injEq] at hcc
      subst hcc; subst he
      -- the directory `y = dir es` at `q` is well-formed
      have hnd : (es.map (·.1)).Nodup := by
        have : ∀ (q : List Name) (d : Nat) (n : Node), n.Copyable d → n.getAt q = some (.dir es) →
            (es.map (·.1)).Nodup := by
          intro q
          induction q with
          | nil =>
            intro d n hc h
            simp only [getAt_nil, Option.some.injEq] at h
            subst h
            obtain ⟨_, _, hnd, _⟩ := copyable_dir hc
            exact hnd
          | cons a r ih =>
            intro d n hc h
            obtain ⟨es0, c0, he0, hg0, hc0⟩ := Node.getAt_cons_some h
            subst he0
            obtain ⟨d', _, _, hch0⟩ := copyable_dir hc
            exact ih d' c0 (hch0 _ (entGet_mem_gi hg0)) hc0
        exact this q d n hc hy1
      simp only [Node.prune, getAt_dir_cons] at hp
      cases hgp : entGet (pruneL ps (rel ++ q) es) m with
      | none => simp [hgp] at hp
      | some c' =>
        obtain ⟨ch', h1, _, h3⟩ := entGet_pruneL ps (rel ++ q) es hnd m c' hgp
        rw [hg] at h1
        injection h1 with h1
        subst h1
        rw [hx] at h3
        cases h3

/-- a pruned well-formed copyable tree is well-formed -/
theorem prune_WF (ps : List Gi.Pattern) (d : Nat) (n : Node) (rel : List Name)
    (hc : n.Copyable d) (hw : n.WF) : (Node.prune ps rel n).WF := by
  intro q es' hq
  obtain ⟨y, hy1, hy2⟩ := getAt_prune ps q d n rel _ hc hq
  cases y with
  | dir es =>
    simp only [Node.prune, Node.dir.injEq] at hy2
    rw [hy2]
    exact pruneL_nodup ps _ es (hw q es hy1)
  | file _ => simp [Node.prune] at hy2
  | link _ => simp [Node.prune] at hy2
  | special _ _ => simp [Node.prune] at hy2

/-! ## No patterns, no pruning -/

theorem gi_keeps_nil (comps : List Name) (d : Bool) : Gi.keeps [] comps d = true := by
  simp [Gi.keeps, Gi.decide]

mutual
theorem prune_nil : ∀ (n : Node) (rel : List Name), Node.prune [] rel n = n
  | .file _, _ => by simp [Node.prune]
  | .link _, _ => by simp [Node.prune]
  | .special _ _, _ => by simp [Node.prune]
  | .dir es, rel => by simp [Node.prune, pruneL_nil es rel]
theorem pruneL_nil : ∀ (es : List (Name × Node)) (rel : List Name), pruneL [] rel es = es
  | [], _ => by simp [pruneL]
  | (m, ch) :: r, rel => by
    simp [pruneL, gi_keeps_nil, prune_nil ch (rel ++ [m]), pruneL_nil r rel]
end

/-! ## `walkEntry` with patterns, one step -/

/-- the filter lets the entry at `rel`, whose node is `n`, through: it is the root, or the patterns keep it -/
def GiPass (ps : List Gi.Pattern) (rel : List Name) (n : Node) : Prop :=
  rel = [] ∨ Gi.keeps ps rel n.isDir = true

theorem giPass_test {ps : List Gi.Pattern} {rel : List Name} {n : Node} (h : GiPass ps rel n) :
    (decide (rel.length > 0) && !Gi.keeps ps rel n.isDir) = false := by
  rcases h with h | h
  · subst h; simp
  · simp [h]

/-- without `--dereference` the flag handed to the pattern matcher is the entry's own type -/
theorem giIsDir_of_lstat (fs : Fs) (c : Cfg) (hd : c.dereference = false) (p : RPath) (cp : List Name) (n : Node)
    (hl : fs.lstat p = some (cp, n)) : giIsDir fs c p = n.isDir := by
  cases n <;> simp [giIsDir, hl, hd, Node.isDir]

theorem walkEntry_file_gi (fs : Fs) (c : Cfg) (ps : List Gi.Pattern) (hd : c.dereference = false) (src tb : RPath)
    (rel : List Name) (hn : c.noClobber = false ∨ fs.lexists (relJoin tb rel) = false)
    (f : Nat) (anc : List (List Name)) (cp : List Name) (k : Nat)
    (hk : GiPass ps rel (.file k))
    (hl : fs.lstat (relJoin src rel) = some (cp, .file k)) :
    walkEntry fs c (some ps) src tb (f + 1) rel anc = [.copy (relJoin src rel) (relJoin tb rel)] := by
  have ht := giPass_test hk
  have hgi := giIsDir_of_lstat fs c hd _ _ _ hl
  simp only [Node.isDir] at ht hgi
  rcases hn with hn | hn <;> simp [walkEntry, hd, hn, hl, Node.kind, classifyKind, Node.isLink, hgi, ht]

theorem walkEntry_special_gi (fs : Fs) (c : Cfg) (ps : List Gi.Pattern) (hd : c.dereference = false) (src tb : RPath)
    (rel : List Name) (hn : c.noClobber = false ∨ fs.lexists (relJoin tb rel) = false)
    (f : Nat) (anc : List (List Name)) (cp : List Name) (k : FileKind) (d : Nat)
    (hkd : k = .socket ∨ k = .chr ∨ k = .fifo)
    (hk : GiPass ps rel (.special k d))
    (hl : fs.lstat (relJoin src rel) = some (cp, .special k d)) :
    walkEntry fs c (some ps) src tb (f + 1) rel anc = [.special (relJoin src rel) (relJoin tb rel)] := by
  have ht := giPass_test hk
  have hgi := giIsDir_of_lstat fs c hd _ _ _ hl
  simp only [Node.isDir] at ht hgi
  rcases hn with hn | hn <;> rcases hkd with hkd | hkd | hkd <;> subst hkd <;>
    simp [walkEntry, hd, hn, hl, Node.kind, classifyKind, Node.isLink, hgi, ht]

theorem walkEntry_link_gi (fs : Fs) (c : Cfg) (ps : List Gi.Pattern) (hd : c.dereference = false) (src tb : RPath)
    (rel : List Name) (hn : c.noClobber = false ∨ fs.lexists (relJoin tb rel) = false)
    (f : Nat) (anc : List (List Name)) (cp : List Name) (t : RPath)
    (hrel : rel ≠ [])
    (hk : GiPass ps rel (.link t))
    (hl : fs.lstat (relJoin src rel) = some (cp, .link t)) :
    walkEntry fs c (some ps) src tb (f + 1) rel anc = [.link t (relJoin tb rel)] := by
  have ht := giPass_test hk
  have hgi := giIsDir_of_lstat fs c hd _ _ _ hl
  simp only [Node.isDir] at ht hgi
  rcases hn with hn | hn <;> simp [walkEntry, hd, hn, hl, Node.kind, classifyKind, Node.isLink, hrel, hgi, ht]

theorem walkEntry_dir_gi (fs : Fs) (c : Cfg) (ps : List Gi.Pattern) (hd : c.dereference = false) (src tb : RPath)
    (rel : List Name) (hn : c.noClobber = false ∨ fs.lexists (relJoin tb rel) = false)
    (f : Nat) (anc : List (List Name)) (cp : List Name) (es es' : Entries)
    (hk : GiPass ps rel (.dir es))
    (hl : fs.lstat (relJoin src rel) = some (cp, .dir es)) (hg : fs.root.getAt cp = some (.dir es')) :
    walkEntry fs c (some ps) src tb (f + 1) rel anc =
      .mkdir (relJoin tb rel) ::
        (es'.map (·.1)).flatMap fun n => walkEntry fs c (some ps) src tb f (rel ++ [n]) (cp :: anc) := by
  have ht := giPass_test hk
  have hgi := giIsDir_of_lstat fs c hd _ _ _ hl
  simp only [Node.isDir] at ht hgi
  rcases hn with hn | hn <;> simp [walkEntry, hd, hn, hl, hg, Node.kind, classifyKind, Node.isLink, hgi, ht]

/-- an excluded entry below the root that `lstat` finds emits exactly nothing (no dereference) -/
theorem walkEntry_excluded_gi (fs : Fs) (c : Cfg) (ps : List Gi.Pattern) (hd : c.dereference = false) (src tb : RPath)
    (rel : List Name) (f : Nat) (anc : List (List Name)) (cp : List Name) (x : Node)
    (hrel : rel ≠ [])
    (hx : Gi.keeps ps rel x.isDir = false)
    (hl : fs.lstat (relJoin src rel) = some (cp, x)) :
    walkEntry fs c (some ps) src tb (f + 1) rel anc = [] := by
  have hpos : decide (rel.length > 0) = true := by
    cases rel with
    | nil => exact absurd rfl hrel
    | cons a l => simp
  have hgi := giIsDir_of_lstat fs c hd _ _ _ hl
  simp [walkEntry, hd, hl, hgi, hx, hpos]

/-! ## Execution of the operations of a sub-tree -/

theorem unrel_ext {sn tn : List Name} (h1 : ¬ sn <+: tn) (h2 : ¬ tn <+: sn) (s : List Name) :
    (¬ tn <+: sn ++ s) ∧ (¬ sn ++ s <+: tn) := by
  refine ⟨?_, fun h => h1 ((List.prefix_append _ _).trans h)⟩
  intro h
  rcases List.prefix_or_prefix_of_prefix h (List.prefix_append sn s) with h | h
  · exact h2 h
  · exact h1 h

/-- `exec_opsOf` for the operations of a tree `m` that need not be the tree at `sn`: it is enough that every
non-directory node of `m` is found in the state at the same relative path below `sn` (so for `m` a pruned version
of the tree at `sn`).  Running them towards a fresh place `par ++ [nm]` below an existing directory and unrelated to
`sn` puts exactly `m` there. -/
theorem exec_opsOf_sub (c : Cfg) :
    ∀ (d : Nat) (m : Node), m.Copyable d →
      ∀ (g : Fs) (sn par : List Name) (nm : Name) (pes : Entries) (rest : List Op),
      (∀ rel x, m.getAt rel = some x → x.isDir = false → g.root.getAt (sn ++ rel) = some x) →
      g.root.getAt par = some (.dir pes) → g.root.getAt (par ++ [nm]) = none →
      ¬ sn <+: par ++ [nm] → ¬ par ++ [nm] <+: sn → sn.length + d < 256 → par.length + 1 + d < 256 →
      execOps g c (opsOf m sn (par ++ [nm]) ++ rest) =
        execOps { g with root := g.root.setAt (par ++ [nm]) m } c rest := by
  intro d
  induction d with
  | zero =>
    intro n hc g sn par nm pes rest hsrc hp hn h1 h2 hl1 hl2
    cases n with
    | file k =>
      have hs : g.root.getAt sn = some (.file k) := by simpa using hsrc [] _ (by simp) rfl
      simp only [opsOf, List.cons_append, List.nil_append]
      exact execOps_cons_some _ _ _ _ _ (execOp_copy_fresh g c sn par nm k pes hs (by omega) (by omega) hp hn)
    | link t =>
      simp only [opsOf, List.cons_append, List.nil_append]
      exact execOps_cons_some _ _ _ _ _ (execOp_link_fresh g c t par nm pes (by omega) hp hn)
    | special k dv =>
      have hs : g.root.getAt sn = some (.special k dv) := by simpa using hsrc [] _ (by simp) rfl
      simp only [opsOf, List.cons_append, List.nil_append]
      exact execOps_cons_some _ _ _ _ _ (execOp_special_fresh g c sn par nm k dv pes hs (by omega) (by omega) hp hn)
    | dir es => simp [Node.Copyable] at hc
  | succ d ih =>
    intro n hc g sn par nm pes rest hsrc hp hn h1 h2 hl1 hl2
    cases n with
    | file k =>
      have hs : g.root.getAt sn = some (.file k) := by simpa using hsrc [] _ (by simp) rfl
      simp only [opsOf, List.cons_append, List.nil_append]
      exact execOps_cons_some _ _ _ _ _ (execOp_copy_fresh g c sn par nm k pes hs (by omega) (by omega) hp hn)
    | link t =>
      simp only [opsOf, List.cons_append, List.nil_append]
      exact execOps_cons_some _ _ _ _ _ (execOp_link_fresh g c t par nm pes (by omega) hp hn)
    | special k dv =>
      have hs : g.root.getAt sn = some (.special k dv) := by simpa using hsrc [] _ (by simp) rfl
      simp only [opsOf, List.cons_append, List.nil_append]
      exact execOps_cons_some _ _ _ _ _ (execOp_special_fresh g c sn par nm k dv pes hs (by omega) (by omega) hp hn)
    | dir es =>
      obtain ⟨d', hd', hnd, hch⟩ := copyable_dir hc
      have hd'' : d' = d := by omega
      subst hd''
      simp only [opsOf, List.cons_append]
      rw [execOps_cons_some _ _ _ _ _ (execOp_mkdir_fresh g c par nm pes (by omega) hp hn)]
      -- the children, one after the other
      have key : ∀ (post pre : Entries), ((pre ++ post).map (·.1)).Nodup → (∀ e ∈ post, e ∈ es) →
          execOps { g with root := g.root.setAt (par ++ [nm]) (.dir pre) } c
              (opsOfL post sn (par ++ [nm]) ++ rest) =
            execOps { g with root := g.root.setAt (par ++ [nm]) (.dir (pre ++ post)) } c rest := by
        intro post
        induction post with
        | nil => intro pre _ _; simp [opsOfL]
        | cons e post' ihp =>
          intro pre hnd' hsub
          obtain ⟨m, ch⟩ := e
          have hmem : (m, ch) ∈ es := hsub _ List.mem_cons_self
          obtain ⟨_, _, u3, u4⟩ := unrel_child h1 h2 m
          have hm : m ∉ pre.map (·.1) := by
            intro hmm
            simp only [List.map_append, List.map_cons] at hnd'
            exact (List.nodup_append.1 hnd').2.2 m hmm m List.mem_cons_self rfl
          -- the state before this child
          have hs' : ∀ rel x, ch.getAt rel = some x → x.isDir = false →
              (g.root.setAt (par ++ [nm]) (.dir pre)).getAt (sn ++ [m] ++ rel) = some x := by
            intro rel x hx hxd
            obtain ⟨v1, v2⟩ := unrel_ext h1 h2 ([m] ++ rel)
            rw [List.append_assoc, getAt_setAt_unrelated _ _ _ _ v1 v2]
            apply hsrc (m :: rel) x _ hxd
            rw [getAt_dir_cons, entGet_of_mem es hnd (m, ch) hmem]
            exact hx
          have hp' : (g.root.setAt (par ++ [nm]) (.dir pre)).getAt (par ++ [nm]) = some (.dir pre) :=
            getAt_setAt_child _ nm par g.root pes hp
          have hn' : (g.root.setAt (par ++ [nm]) (.dir pre)).getAt (par ++ [nm] ++ [m]) = none := by
            rw [Node.getAt_append, hp']
            simp [getAt_dir_cons, entGet_none_of_not_mem pre m hm]
          have step := ih ch (hch _ hmem) { g with root := g.root.setAt (par ++ [nm]) (.dir pre) }
            (sn ++ [m]) (par ++ [nm]) m pre (opsOfL post' sn (par ++ [nm]) ++ rest) hs' hp' hn' u3 u4
            (by simp only [List.length_append, List.length_cons, List.length_nil]; omega)
            (by simp only [List.length_append, List.length_cons, List.length_nil]; omega)
          simp only [opsOfL, List.append_assoc]
          simp only [List.append_assoc] at step
          rw [step]
          have e := setAt_dir_push g.root (par ++ [nm]) pre m ch hm
          simp only [List.append_assoc] at e
          rw [e]
          have := ihp (pre ++ [(m, ch)]) (by simpa [List.append_assoc] using hnd')
            (fun e he => hsub e (List.mem_cons_of_mem _ he))
          simp only [List.append_assoc, List.singleton_append] at this
          exact this
      have := key es [] (by simpa using hnd) (fun _ h => h)
      simpa using this

end Xcp
