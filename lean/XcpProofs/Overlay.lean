import XcpProofs.Mirror
import XcpProofs.OverlayLemmas
/-! The mirror theorem for a destination that may EXIST already ("cp -r S D" a second time, or into a directory that
has other entries): the sequential execution (L1) of the walk's operations succeeds and leaves the destination
OVERLAID with the source tree, and touches nothing else.  `mirror_fresh` is the special case of an absent target. -/
namespace Xcp

def Node.isSpecial : Node → Bool | .special _ _ => true | _ => false

/-- put `v` under the name `m`: in place (keeping the readdir position) or appended — except that a special file is
always RE-CREATED (`execOp`'s `.special` branch unlinks an existing target, then `mknod`s), so it goes to the end -/
def entPut (acc : Entries) (m : Name) (v : Node) : Entries :=
  entSet (if v.isSpecial then entDel acc m else acc) m v

mutual
/-- What `execOp` (with `noClobber = false`) leaves at a place holding `dst` after the operations of the source
tree `src` have run there:
* a directory over a directory: the existing entries, each source entry overlaid onto the existing entry of the same
  name (in place) or appended, in the source's order — the entry order is exactly the one `setAt`/`entSet` produce;
* anything over nothing: the source node;
* a regular file over a regular file: the file with the source's content (`createFile` = `setAt q (.file c)`);
* a special file over an existing non-directory: the special file.
In every other case (where `Compatible` fails) the value is the source node, and is not meant. -/
def Node.overlay : Option Node → Node → Node
  | some (.dir des), .dir ses => .dir (overlayL des ses)
  | _, n => n
def overlayL : Entries → List (Name × Node) → Entries
  | acc, [] => acc
  | acc, (m, ch) :: r => overlayL (entPut acc m (Node.overlay (entGet acc m) ch)) r
end

mutual
/-- The cases in which every operation of the walk succeeds and no symbolic link of the destination is written
through:
* the place is free;
* a regular file over a regular file;
* a special file over a regular or special file (unlink + mknod);
* a directory over a directory whose same-named entries are compatible, recursively.
Excluded: a symbolic link over anything that exists (`symlink` fails with EEXIST); a directory over a non-directory
and a file or special file over a directory (`mkdir`/`create`/`unlink` fail); and ANY source node over an existing
symbolic link — in particular a regular file over a symbolic link, which `File::create` follows: the write lands
outside the destination (recorded finding F13), and a regular file over a special file (in the model the open
succeeds and replaces nothing).  These are excluded by hypothesis, not proved harmless. -/
def Node.compatible : Option Node → Node → Bool
  | none, _ => true
  | some (.file _), .file _ => true
  | some (.file _), .special _ _ => true
  | some (.special _ _), .special _ _ => true
  | some (.dir des), .dir ses => compatibleL des ses
  | _, _ => false
def compatibleL : Entries → List (Name × Node) → Bool
  | _, [] => true
  | des, (m, ch) :: r => Node.compatible (entGet des m) ch && compatibleL des r
end

def Compatible (dst : Option Node) (src : Node) : Prop := Node.compatible dst src = true

instance (dst : Option Node) (src : Node) : Decidable (Compatible dst src) := by
  unfold Compatible; infer_instance

/-- the tree after the operations of `n` have run at `tn`, exactly (entry order included): a special file is
re-created, everything else is written in place -/
def placeAt (root : Node) (tn : List Name) (dst : Option Node) (n : Node) : Node :=
  if n.isSpecial then (root.delAt tn).setAt tn n else root.setAt tn (Node.overlay dst n)

@[simp] theorem overlay_none (n : Node) : Node.overlay none n = n := by
  cases n <;> simp [Node.overlay]

theorem compatible_none (n : Node) : Compatible none n := by
  cases n <;> simp [Compatible, Node.compatible]

/-! ## Unfolding `overlay`, `entPut`, `compatible` -/

theorem overlay_nondir (dst : Option Node) (n : Node) (h : n.isDir = false) : Node.overlay dst n = n := by
  cases n <;> simp [Node.isDir] at h <;>
    (cases dst with
     | none => rfl
     | some x => cases x <;> rfl)

theorem overlay_of_special (dst : Option Node) (n : Node) (h : n.isSpecial = true) : Node.overlay dst n = n := by
  cases n <;> simp [Node.isSpecial] at h
  exact overlay_nondir dst _ rfl

theorem overlay_isSpecial (dst : Option Node) (n : Node) : (Node.overlay dst n).isSpecial = n.isSpecial := by
  cases hd : n.isDir with
  | false => rw [overlay_nondir dst n hd]
  | true =>
    cases n <;> simp [Node.isDir] at hd
    rename_i es
    cases dst with
    | none => simp
    | some x => cases x <;> simp [Node.overlay, Node.isSpecial]

theorem entGet_entPut_ne (acc : Entries) (m m' : Name) (v : Node) (h : m ≠ m') :
    entGet (entPut acc m v) m' = entGet acc m' := by
  unfold entPut
  split
  · rw [entGet_entSet_ne _ _ _ _ h, entGet_entDel_ne _ _ _ h]
  · rw [entGet_entSet_ne _ _ _ _ h]

theorem nodup_keys_entPut (acc : Entries) (m : Name) (v : Node) (h : (acc.map (·.1)).Nodup) :
    ((entPut acc m v).map (·.1)).Nodup := by
  unfold entPut
  split
  · exact nodup_keys_entSet _ _ _ (nodup_keys_entDel _ _ h)
  · exact nodup_keys_entSet _ _ _ h

/-- names the source directory does not list keep their entry -/
theorem entGet_overlayL_notin (m : Name) : ∀ (ses : List (Name × Node)) (acc : Entries), m ∉ ses.map (·.1) →
    entGet (overlayL acc ses) m = entGet acc m := by
  intro ses
  induction ses with
  | nil => intro acc _; simp [overlayL]
  | cons e r ih =>
    intro acc h
    obtain ⟨k, ch⟩ := e
    simp only [List.map_cons, List.mem_cons, not_or] at h
    simp only [overlayL]
    rw [ih _ h.2, entGet_entPut_ne _ _ _ _ (fun e => h.1 e.symm)]

theorem compatibleL_mem {des : Entries} {ses : List (Name × Node)} (h : compatibleL des ses = true) :
    ∀ e ∈ ses, Compatible (entGet des e.1) e.2 := by
  induction ses with
  | nil => intro e he; cases he
  | cons kv r ih =>
    obtain ⟨k, x⟩ := kv
    simp only [compatibleL, Bool.and_eq_true] at h
    intro e he
    cases he with
    | head => exact h.1
    | tail _ hm => exact ih h.2 e hm

/-- the exact result at a child of a directory, as a rewrite of the directory's entry list -/
theorem placeAt_child (root : Node) (tn : List Name) (m : Name) (acc : Entries) (dst : Option Node) (ch : Node)
    (hp : root.getAt tn = some (.dir acc)) :
    placeAt root (tn ++ [m]) dst ch = root.setAt tn (.dir (entPut acc m (Node.overlay dst ch))) := by
  unfold placeAt entPut
  rw [overlay_isSpecial]
  cases hsp : ch.isSpecial with
  | true =>
    simp only [if_true]
    rw [overlay_of_special _ _ hsp, delAt_child root tn m acc hp]
    have hp1 : (root.setAt tn (.dir (entDel acc m))).getAt tn = some (.dir (entDel acc m)) :=
      getAt_setAt_exists root tn _ _ hp
    rw [setAt_child _ tn m _ ch hp1, setAt_setAt_same]
  | false =>
    simp only [Bool.false_eq_true, if_false]
    rw [setAt_child root tn m acc _ hp]

/-! ## Execution -/

/-- a file, link or special file onto a compatible place -/
theorem exec_overlay_leaf (c : Cfg) (hn : c.noClobber = false) (n : Node) (hnd : n.isDir = false)
    (g : Fs) (sn par : List Name) (nm : Name) (pes : Entries) (rest : List Op)
    (hs : g.root.getAt sn = some n) (hp : g.root.getAt par = some (.dir pes)) (hpn : (pes.map (·.1)).Nodup)
    (hc : Compatible (g.root.getAt (par ++ [nm])) n)
    (h1 : ¬ sn <+: par ++ [nm]) (hl1 : sn.length < 256) (hl2 : par.length + 1 < 256) :
    execOps g c (opsOf n sn (par ++ [nm]) ++ rest) =
      execOps { g with root := placeAt g.root (par ++ [nm]) (g.root.getAt (par ++ [nm])) n } c rest := by
  have hne : sn ≠ par ++ [nm] := fun e => h1 (e ▸ List.prefix_refl _)
  cases hdst : g.root.getAt (par ++ [nm]) with
  | none =>
    cases n with
    | file k =>
      simp only [opsOf, List.cons_append, List.nil_append]
      rw [execOps_cons_some _ _ _ _ _ (execOp_copy_fresh g c sn par nm k pes hs hl1 (by omega) hp hdst)]
      simp [placeAt, Node.isSpecial]
    | link t =>
      simp only [opsOf, List.cons_append, List.nil_append]
      rw [execOps_cons_some _ _ _ _ _ (execOp_link_fresh g c t par nm pes (by omega) hp hdst)]
      simp [placeAt, Node.isSpecial]
    | special k dv =>
      simp only [opsOf, List.cons_append, List.nil_append]
      rw [execOps_cons_some _ _ _ _ _ (execOp_special_fresh g c sn par nm k dv pes hs hl1 (by omega) hp hdst)]
      simp only [placeAt, Node.isSpecial, if_true]
      rw [delAt_absent g.root par nm pes hp hdst]
    | dir es => cases hnd
  | some x =>
    rw [hdst] at hc
    cases n with
    | file k =>
      cases x <;> simp [Compatible, Node.compatible] at hc
      rename_i k'
      simp only [opsOf, List.cons_append, List.nil_append]
      rw [execOps_cons_some _ _ _ _ _
        (execOp_copy_over g c sn (par ++ [nm]) k k' hs hdst hne hl1 (by simpa using hl2))]
      simp [placeAt, Node.isSpecial, Node.overlay]
    | link t => cases x <;> simp [Compatible, Node.compatible] at hc
    | special k dv =>
      have hx : x.isDir = false ∧ x.isLink = false := by
        cases x <;> simp [Compatible, Node.compatible] at hc <;> simp [Node.isDir, Node.isLink]
      simp only [opsOf, List.cons_append, List.nil_append]
      rw [execOps_cons_some _ _ _ _ _
        (execOp_special_over g c hn sn par nm k dv pes x hs hp hpn hdst hx.1 hx.2 hne hl1 hl2)]
      simp [placeAt, Node.isSpecial]
    | dir es => cases hnd

/-- running the operations of a copyable subtree found at `sn`, towards a compatible place `par ++ [nm]` below an
existing directory and unrelated to `sn`, leaves exactly `placeAt` there -/
theorem exec_overlay (c : Cfg) (hn : c.noClobber = false) :
    ∀ (d : Nat) (n : Node), n.Copyable d →
      ∀ (g : Fs) (sn par : List Name) (nm : Name) (pes : Entries) (rest : List Op),
      g.root.getAt sn = some n → g.root.getAt par = some (.dir pes) → (pes.map (·.1)).Nodup →
      (∀ x, g.root.getAt (par ++ [nm]) = some x → x.WF) →
      Compatible (g.root.getAt (par ++ [nm])) n →
      ¬ sn <+: par ++ [nm] → ¬ par ++ [nm] <+: sn → sn.length + d < 256 → par.length + 1 + d < 256 →
      execOps g c (opsOf n sn (par ++ [nm]) ++ rest) =
        execOps { g with root := placeAt g.root (par ++ [nm]) (g.root.getAt (par ++ [nm])) n } c rest := by
  intro d
  induction d with
  | zero =>
    intro n hcop g sn par nm pes rest hs hp hpn _ hc h1 _ hl1 hl2
    have hnd : n.isDir = false := by
      cases n <;> simp [Node.Copyable] at hcop <;> rfl
    exact exec_overlay_leaf c hn n hnd g sn par nm pes rest hs hp hpn hc h1 (by omega) (by omega)
  | succ d ih =>
    intro n hcop g sn par nm pes rest hs hp hpn hw hc h1 h2 hl1 hl2
    cases hnd : n.isDir with
    | false => exact exec_overlay_leaf c hn n hnd g sn par nm pes rest hs hp hpn hc h1 (by omega) (by omega)
    | true =>
      cases n <;> simp [Node.isDir] at hnd
      rename_i es
      obtain ⟨d', hd', hndp, hch⟩ := copyable_dir hcop
      have hd'' : d' = d := by omega
      subst hd''
      cases hdst : g.root.getAt (par ++ [nm]) with
      | none =>
        rw [exec_opsOf c (d' + 1) (.dir es) hcop g sn par nm pes rest hs hp hdst h1 h2 hl1 hl2]
        simp [placeAt, Node.isSpecial]
      | some x =>
        rw [hdst] at hc
        cases x <;> simp [Compatible, Node.compatible] at hc
        rename_i des
        have hwx := hw _ hdst
        rw [WF_dir] at hwx
        have htl : (par ++ [nm]).length = par.length + 1 := by simp
        generalize par ++ [nm] = tn at *
        simp only [opsOf, List.cons_append]
        rw [execOps_cons_some _ _ _ _ _ (execOp_mkdir_over g c tn des hdst (by omega))]
        have hassoc : ∀ a b : List Op, (a ++ b) ++ rest = a ++ (b ++ rest) :=
          fun a b => List.append_assoc a b rest
        -- the children, one after the other
        have key : ∀ (post acc : Entries), (acc.map (·.1)).Nodup → (post.map (·.1)).Nodup →
            (∀ e ∈ post, e ∈ es) → (∀ e ∈ post, entGet acc e.1 = entGet des e.1) →
            execOps { g with root := g.root.setAt tn (.dir acc) } c (opsOfL post sn tn ++ rest) =
              execOps { g with root := g.root.setAt tn (.dir (overlayL acc post)) } c rest := by
          intro post
          induction post with
          | nil => intro acc _ _ _ _; simp [opsOfL, overlayL]
          | cons e post' ihp =>
            intro acc hna hnp hsub hag
            obtain ⟨m, ch⟩ := e
            have hmem : (m, ch) ∈ es := hsub _ List.mem_cons_self
            obtain ⟨u1, u2, u3, u4⟩ := unrel_child h1 h2 m
            simp only [List.map_cons, List.nodup_cons] at hnp
            have hs' : (g.root.setAt tn (.dir acc)).getAt (sn ++ [m]) = some ch := by
              rw [getAt_setAt_unrelated _ _ _ _ u1 u2, Node.getAt_append, hs]
              simp [getAt_dir_cons, entGet_of_mem es hndp (m, ch) hmem]
            have hp' : (g.root.setAt tn (.dir acc)).getAt tn = some (.dir acc) :=
              getAt_setAt_exists _ _ _ _ hdst
            have hda : (g.root.setAt tn (.dir acc)).getAt (tn ++ [m]) = entGet acc m :=
              getAt_child _ _ m _ hp'
            have hag0 : entGet acc m = entGet des m := hag (m, ch) List.mem_cons_self
            have step := ih ch (hch _ hmem) { g with root := g.root.setAt tn (.dir acc) }
              (sn ++ [m]) tn m acc (opsOfL post' sn tn ++ rest) hs' hp' hna
              (by intro x hx; rw [hda, hag0] at hx; exact hwx.2 m x hx)
              (by rw [hda, hag0]; exact compatibleL_mem hc (m, ch) hmem)
              u3 u4
              (by simp only [List.length_append, List.length_cons, List.length_nil]; omega)
              (by omega)
            rw [opsOfL, hassoc, step]
            show execOps { g with root := (placeAt (g.root.setAt tn (.dir acc)) (tn ++ [m])
              ((g.root.setAt tn (.dir acc)).getAt (tn ++ [m])) ch) } c (opsOfL post' sn tn ++ rest) = _
            rw [placeAt_child _ tn m acc _ ch hp', setAt_setAt_same, hda]
            simp only [overlayL]
            apply ihp
            · exact nodup_keys_entPut _ _ _ hna
            · exact hnp.2
            · exact fun e he => hsub e (List.mem_cons_of_mem _ he)
            · intro e he
              have hne : m ≠ e.1 := by
                intro h
                apply hnp.1
                rw [h]
                exact List.mem_map.2 ⟨e, he, rfl⟩
              rw [entGet_entPut_ne _ _ _ _ hne]
              exact hag e (List.mem_cons_of_mem _ he)
        have h0 : execOps g c (opsOfL es sn tn ++ rest) =
            execOps { g with root := g.root.setAt tn (.dir des) } c (opsOfL es sn tn ++ rest) := by
          rw [setAt_same _ _ _ hdst]
        rw [h0, key es des hwx.1 hndp (fun _ h => h) (fun _ _ => rfl)]
        simp [placeAt, Node.isSpecial, Node.overlay]

/-- MIRROR (existing destination).  Hypotheses as for `mirror_fresh` — no dereference / gitignore / no-clobber games
(`c`); the source is a plain path designating `srcNode`; the target base `tb` is a plain path whose parent is a
directory; source and target are unrelated; paths are shorter than the resolution fuel — but the target MAY EXIST,
provided what is there is `Compatible` with the source tree.  Then the sequential execution of the walk's operations
succeeds and the resulting tree is the old one with the target OVERLAID with `srcNode` — up to the order of
directory entries (`FsEq`; the trees are in fact equal unless `srcNode` itself is a special file replacing an
existing entry, which moves to the end of its parent's listing). -/
theorem mirror_overlay (fs : Fs) (c : Cfg) (hd : c.dereference = false) (hn : c.noClobber = false)
    (src tb : RPath) (srcNode : Node) (fuel : Nat)
    (hwf : FsEq fs fs) (hroot : fs.root.isDir = true)
    (hsrc : PlainTarget fs src) (hsn : fs.root.getAt src.names = some srcNode)
    (hcop : srcNode.Copyable fuel)
    (htb : PlainTarget fs tb) (hne : tb.names ≠ [])
    (hcompat : Compatible (fs.root.getAt tb.names) srcNode)
    (hpar : ∃ es, fs.root.getAt tb.names.dropLast = some (.dir es))
    (hun1 : ¬ src.names <+: tb.names) (hun2 : ¬ tb.names <+: src.names)
    (hlen : src.names.length + fuel < 200 ∧ tb.names.length + fuel < 200) :
    ∃ fs', execOps fs c (walkEntry fs c none src tb (fuel + 1) [] []) = ⟨.ok, fs'⟩ ∧
      FsEq fs' { fs with root := fs.root.setAt tb.names (Node.overlay (fs.root.getAt tb.names) srcNode) } := by
  have _ := hroot   -- implied by `hpar`/`hsn`; kept in the statement for the callers
  have hsrcE := plainTarget_eq fs src hsrc
  have htbE := plainTarget_eq fs tb htb
  have hnl : srcNode.isLink = false := by
    cases srcNode with
    | link t => exact absurd hsn (hsrc.2.2.2 src.names (List.prefix_refl _) t)
    | _ => rfl
  have hparD : ParentDir fs.root tb.names := hpar
  -- the target: a name below an existing directory
  obtain ⟨pes, hpes⟩ := hpar
  rcases List.eq_nil_or_concat tb.names with h0 | ⟨par, nm, h0⟩
  · exact absurd h0 hne
  simp only [List.concat_eq_append] at h0
  rw [h0, List.dropLast_concat] at hpes
  have hlt : par.length + 1 + fuel < 256 := by
    have := hlen.2
    rw [h0] at this
    simp only [List.length_append, List.length_cons, List.length_nil] at this
    omega
  -- the shape of the walk
  have hshape : walkEntry fs c none (plainPath src.names) (plainPath tb.names) (fuel + 1) [] [] =
      opsOf srcNode (src.names ++ []) (tb.names ++ []) := by
    have h1 : fs.root.getAt (src.names ++ []) = some srcNode := by simpa using hsn
    have h2 : srcNode.isLink = true → ([] : List Name) ≠ [] := fun h => by rw [hnl] at h; cases h
    have h3 : src.names.length + ([] : List Name).length + fuel < 256 := by
      simp only [List.length_nil]; omega
    -- (`walk_shape` takes the no-clobber hypothesis in either of two forms, depending on the revision)
    first
      | exact walk_shape fs c hd src.names tb.names (.inl hn) fuel srcNode hcop [] [] h1 h2 h3
      | exact walk_shape fs c hd hn src.names tb.names fuel srcNode hcop [] [] h1 h2 h3
  rw [← hsrcE, ← htbE] at hshape
  simp only [List.append_nil] at hshape
  -- its execution
  have hexec := exec_overlay c hn fuel srcNode hcop fs src.names par nm pes [] hsn hpes
    (hwf.2.1 par pes hpes)
    (by
      intro x hx q es hq
      apply hwf.2.1 (par ++ [nm] ++ q) es
      rw [Node.getAt_append, hx]
      exact hq)
    (by rw [← h0]; exact hcompat) (by rw [← h0]; exact hun1) (by rw [← h0]; exact hun2) (by omega) hlt
  rw [List.append_nil, ← h0] at hexec
  have hrun : execOps fs c (walkEntry fs c none src tb (fuel + 1) [] []) =
      ⟨.ok, { fs with root := placeAt fs.root tb.names (fs.root.getAt tb.names) srcNode }⟩ := by
    rw [hshape, hexec]
    rfl
  have hwf' := execOps_wf c _ fs _ hwf hrun
  refine ⟨_, hrun, ?_⟩
  cases hsp : srcNode.isSpecial with
  | false =>
    have e : placeAt fs.root tb.names (fs.root.getAt tb.names) srcNode =
        fs.root.setAt tb.names (Node.overlay (fs.root.getAt tb.names) srcNode) := by
      simp [placeAt, hsp]
    rw [e] at hwf' ⊢
    exact hwf'
  | true =>
    have hv : srcNode.isDir = false := by
      cases srcNode <;> simp [Node.isSpecial] at hsp
      rfl
    have e : placeAt fs.root tb.names (fs.root.getAt tb.names) srcNode =
        (fs.root.delAt tb.names).setAt tb.names srcNode := by
      simp [placeAt, hsp]
    rw [e] at hwf' ⊢
    rw [overlay_of_special _ _ hsp]
    exact ⟨rfl, hwf'.2.1, setAt_WF srcNode (WF_nondir _ hv) _ _ hwf.2.1,
      sameObs_reset_set fs.root tb.names srcNode hne hparD hv⟩

/-- `mirror_fresh` is the case of an absent target -/
theorem mirror_fresh_of_overlay (fs : Fs) (c : Cfg) (hd : c.dereference = false) (hn : c.noClobber = false)
    (src tb : RPath) (srcNode : Node) (fuel : Nat)
    (hwf : FsEq fs fs) (hroot : fs.root.isDir = true)
    (hsrc : PlainTarget fs src) (hsn : fs.root.getAt src.names = some srcNode)
    (hcop : srcNode.Copyable fuel)
    (htb : PlainTarget fs tb) (hne : tb.names ≠ []) (habs : fs.root.getAt tb.names = none)
    (hpar : ∃ es, fs.root.getAt tb.names.dropLast = some (.dir es))
    (hun1 : ¬ src.names <+: tb.names) (hun2 : ¬ tb.names <+: src.names)
    (hlen : src.names.length + fuel < 200 ∧ tb.names.length + fuel < 200) :
    ∃ fs', execOps fs c (walkEntry fs c none src tb (fuel + 1) [] []) = ⟨.ok, fs'⟩ ∧
      FsEq fs' { fs with root := fs.root.setAt tb.names srcNode } := by
  have h := mirror_overlay fs c hd hn src tb srcNode fuel hwf hroot hsrc hsn hcop htb hne
    (by rw [habs]; exact compatible_none _) hpar hun1 hun2 hlen
  rw [habs, overlay_none] at h
  exact h

/-! ## What was in the destination and is not at a position of the source is still there -/

/-- in the overlaid tree, an entry `m` of the existing target directory that the source directory does not list is
untouched, with everything below it -/
theorem overlay_keeps_entry (root : Node) (tn : List Name) (des ses : Entries) (m : Name) (q : List Name)
    (hdst : root.getAt tn = some (.dir des)) (hm : m ∉ ses.map (·.1)) :
    (root.setAt tn (Node.overlay (some (.dir des)) (.dir ses))).getAt (tn ++ m :: q) =
      root.getAt (tn ++ m :: q) := by
  rw [Node.getAt_append, getAt_setAt_exists _ _ _ _ hdst, Node.getAt_append, hdst]
  simp [Node.overlay, getAt_dir_cons, entGet_overlayL_notin m ses des hm]

/-- … and so it is after the run: under the hypotheses of `mirror_overlay`, with a directory copied onto an existing
directory, whatever was below a name `m` that the source directory does not list is observed unchanged -/
theorem mirror_overlay_keeps (fs : Fs) (c : Cfg) (hd : c.dereference = false) (hn : c.noClobber = false)
    (src tb : RPath) (des ses : Entries) (fuel : Nat)
    (hwf : FsEq fs fs) (hroot : fs.root.isDir = true)
    (hsrc : PlainTarget fs src) (hsn : fs.root.getAt src.names = some (.dir ses))
    (hcop : (Node.dir ses).Copyable fuel)
    (htb : PlainTarget fs tb) (hne : tb.names ≠ [])
    (hdst : fs.root.getAt tb.names = some (.dir des))
    (hcompat : Compatible (some (.dir des)) (.dir ses))
    (hpar : ∃ es, fs.root.getAt tb.names.dropLast = some (.dir es))
    (hun1 : ¬ src.names <+: tb.names) (hun2 : ¬ tb.names <+: src.names)
    (hlen : src.names.length + fuel < 200 ∧ tb.names.length + fuel < 200) :
    ∃ fs', execOps fs c (walkEntry fs c none src tb (fuel + 1) [] []) = ⟨.ok, fs'⟩ ∧
      ∀ m q, m ∉ ses.map (·.1) → obsAt fs'.root (tb.names ++ m :: q) = obsAt fs.root (tb.names ++ m :: q) := by
  obtain ⟨fs', hrun, heq⟩ := mirror_overlay fs c hd hn src tb (.dir ses) fuel hwf hroot hsrc hsn hcop htb hne
    (by rw [hdst]; exact hcompat) hpar hun1 hun2 hlen
  refine ⟨fs', hrun, ?_⟩
  intro m q hm
  rw [heq.2.2.2 (tb.names ++ m :: q), hdst]
  simp only [obsAt]
  rw [overlay_keeps_entry fs.root tb.names des ses m q hdst hm]

/-! ## The definitions evaluate (kernel reduction): an instance

The destination directory lists `1`, `2`, `3`; the source lists `2` (a fifo), `4`, `1`.  `1` is rewritten in place,
`3` is kept, the fifo replaces the regular file `2` and moves to the end, `4` is appended. -/

example : Node.overlay (some (.dir [([1], .file 0), ([2], .file 5), ([3], .dir [])]))
      (.dir [([2], .special .fifo 0), ([4], .file 7), ([1], .file 9)])
    = .dir [([1], .file 9), ([3], .dir []), ([2], .special .fifo 0), ([4], .file 7)] := by rfl

example : Compatible (some (.dir [([1], .file 0), ([2], .file 5), ([3], .dir [])]))
    (.dir [([2], .special .fifo 0), ([4], .file 7), ([1], .file 9)]) := by decide

/-- a regular file onto an existing symbolic link (F13) is not a compatible pair -/
example : ¬ Compatible (some (.dir [([1], .link ⟨true, [], false⟩)])) (.dir [([1], .file 9)]) := by decide

end Xcp
