import XcpProofs.Clash
import XcpProofs.MultiSource
import XcpProofs.MultiConc
import XcpProofs.MultiClashLemmas
/-! # Several sources into one existing directory, one of whose targets CLASHES with its source

`multi_sequential` / `multi_overlay` / `multi_concurrent_ok` decide the runs all of whose targets `dest/bi` are
`Compatible` with their source trees.  This file decides the rest, for targets made of directories and regular files
only (`Node.plainTree`): if some target is not compatible with its source, the run does not end with exit status ok —
for the sequential execution of the concatenated operation lists (`multi_clash_fails`), for `runSources`, which
re-evaluates each `target_base` against the file system left by the previous sources (`multi_run_clash_fails`), and
for every interleaving of the concurrent model (`multi_clash_fails_every_interleaving`).  Together with the
compatible case: exit status ok IMPLIES that every target is overlaid with its source tree, with no hypothesis about
compatibility (`multi_ok_implies_overlaid`, `multi_run_ok_implies_overlaid`).

The hypotheses are those of `multi_sequential` (resp. `multi_overlay`) with `hcomp` replaced by `hplain`: every
existing target is made of directories and regular files. -/
namespace Xcp

open L0

/-- the static facts about the concatenated list, from the hypotheses of `multi_sequential` (no compatibility) -/
theorem multi_mspec (fs : Fs) (dest : RPath) (items : List CopySrc) (fuel : Nat)
    (hfuel : fuel < walkFuel)
    (hsrc : ∀ e ∈ items, PlainTarget fs e.path ∧ e.path.fileName = some e.base ∧
      fs.root.getAt e.path.names = some e.node ∧ e.node.Copyable fuel ∧ e.path.names.length + walkFuel < 256)
    (hnd : (items.map (·.base)).Nodup)
    (hun : ∀ e ∈ items, ∀ e' ∈ items,
      ¬ e.path.names <+: dest.names ++ [e'.base] ∧ ¬ dest.names ++ [e'.base] <+: e.path.names)
    (hlen : dest.names.length + 1 + walkFuel < 256) :
    MSpec items dest.names ∧ ∀ e ∈ items, e.node.Copyable 63 ∧ e.path.names.length + 63 < 256 := by
  have hw : walkFuel = 64 := rfl
  rw [hw] at hfuel hlen
  have hcop : ∀ e ∈ items, e.node.Copyable 63 := fun e he => copyable_mono (hsrc e he).2.2.2.1 (by omega)
  have hls : ∀ e ∈ items, e.path.names.length + 63 < 256 := by
    intro e he
    have := (hsrc e he).2.2.2.2
    rw [hw] at this
    omega
  refine ⟨⟨hcop, ?_, hun, hnd⟩, fun e he => ⟨hcop e he, hls e he⟩⟩
  intro e he
  refine ⟨mem_opsOf 63 e.node (hcop e he) _ _, (hun e he e he).1, (hun e he e he).2, by simp, hls e he, ?_⟩
  simp only [List.length_append, List.length_cons, List.length_nil]
  omega

/-- SEQUENTIAL, the concatenated lists: a target of directories and regular files that is not compatible with its
source makes the run fail -/
theorem multi_clash_fails (fs : Fs) (c : Cfg) (dest : RPath) (items : List CopySrc) (fuel : Nat)
    (hd : c.dereference = false) (hn : c.noClobber = false)
    (hwf : FsEq fs fs)
    (hdd : ∃ es, fs.root.getAt dest.names = some (.dir es))
    (hfuel : fuel < walkFuel)
    (hsrc : ∀ e ∈ items, PlainTarget fs e.path ∧ e.path.fileName = some e.base ∧
      fs.root.getAt e.path.names = some e.node ∧ e.node.Copyable fuel ∧ e.path.names.length + walkFuel < 256)
    (hnd : (items.map (·.base)).Nodup)
    (hun : ∀ e ∈ items, ∀ e' ∈ items,
      ¬ e.path.names <+: dest.names ++ [e'.base] ∧ ¬ dest.names ++ [e'.base] <+: e.path.names)
    (hplain : ∀ e ∈ items, ∀ d, fs.root.getAt (dest.names ++ [e.base]) = some d → d.plainTree = true)
    (hlen : dest.names.length + 1 + walkFuel < 256)
    (hclash : ∃ e ∈ items, ¬ Compatible (fs.root.getAt (dest.names ++ [e.base])) e.node) :
    (execOps fs c (multiOps fs c dest items)).exit = .err := by
  have hops : multiOps fs c dest items = allOps dest.names items := multiOps_eq fs c dest items fuel hd hn hfuel hsrc
  obtain ⟨_, hcl⟩ := multi_mspec fs dest items fuel hfuel hsrc hnd hun hlen
  have hw : walkFuel = 64 := rfl
  rw [hw] at hlen
  rw [hops]
  exact execAll_clash_inv c hn fs.root dest.names (by omega) items fs hwf hdd hnd
    (fun e he => ⟨(hsrc e he).2.2.1, (hcl e he).1, (hcl e he).2⟩) hun (fun _ _ => rfl)
    (fun e he x hx q y hq => plainTree_getAt q x y (hplain e he x hx) hq) hclash

/-- SEQUENTIAL, the concatenated lists, no compatibility assumed: exit status ok IMPLIES that the final file system
is the initial one with every target overlaid with its source tree -/
theorem multi_ok_implies_overlaid (fs : Fs) (c : Cfg) (dest : RPath) (items : List CopySrc) (fuel : Nat)
    (hd : c.dereference = false) (hn : c.noClobber = false)
    (hwf : FsEq fs fs)
    (hdd : ∃ es, fs.root.getAt dest.names = some (.dir es))
    (hfuel : fuel < walkFuel)
    (hsrc : ∀ e ∈ items, PlainTarget fs e.path ∧ e.path.fileName = some e.base ∧
      fs.root.getAt e.path.names = some e.node ∧ e.node.Copyable fuel ∧ e.path.names.length + walkFuel < 256)
    (hnd : (items.map (·.base)).Nodup)
    (hun : ∀ e ∈ items, ∀ e' ∈ items,
      ¬ e.path.names <+: dest.names ++ [e'.base] ∧ ¬ dest.names ++ [e'.base] <+: e.path.names)
    (hplain : ∀ e ∈ items, ∀ d, fs.root.getAt (dest.names ++ [e.base]) = some d → d.plainTree = true)
    (hlen : dest.names.length + 1 + walkFuel < 256)
    (fs' : Fs) (hok : execOps fs c (multiOps fs c dest items) = ⟨.ok, fs'⟩) :
    FsEq fs' { fs with root := overlayAll fs.root dest.names items fs.root } := by
  by_cases hcomp : ∀ e ∈ items, Compatible (fs.root.getAt (dest.names ++ [e.base])) e.node
  · obtain ⟨fs'', hrun, heq⟩ := multi_sequential fs c dest items fuel hd hn hwf hdd hfuel hsrc hnd hun hcomp hlen
    rw [hok] at hrun
    injection hrun with _ hfs
    rw [hfs]
    exact heq
  · have hclash : ∃ e ∈ items, ¬ Compatible (fs.root.getAt (dest.names ++ [e.base])) e.node := by
      apply Classical.byContradiction
      intro hno
      apply hcomp
      intro e he
      apply Classical.byContradiction
      intro hne
      exact hno ⟨e, he, hne⟩
    have hf := multi_clash_fails fs c dest items fuel hd hn hwf hdd hfuel hsrc hnd hun hplain hlen hclash
    rw [hok] at hf
    cases hf

/-- `runSources` (each `target_base` evaluated against the file system left by the previous sources): a target of
directories and regular files that is not compatible with its source makes the run fail -/
theorem multi_run_clash_fails (fs : Fs) (c : Cfg) (texts : GiTexts) (dest : RPath) (items : List CopySrc)
    (fuel : Nat)
    (hd : c.dereference = false) (hn : c.noClobber = false) (hg : c.gitignore = false)
    (hnt : c.noTargetDir = false)
    (hwf : FsEq fs fs)
    (hdest : PlainTarget fs dest) (hdd : ∃ es, fs.root.getAt dest.names = some (.dir es))
    (hfuel : fuel < walkFuel)
    (hsrc : ∀ e ∈ items, PlainTarget fs e.path ∧ e.path.fileName = some e.base ∧
      fs.root.getAt e.path.names = some e.node ∧ e.node.Copyable fuel ∧ e.path.names.length + walkFuel < 256)
    (hnd : (items.map (·.base)).Nodup)
    (hun : ∀ e ∈ items, ∀ e' ∈ items,
      ¬ e.path.names <+: dest.names ++ [e'.base] ∧ ¬ dest.names ++ [e'.base] <+: e.path.names)
    (hplain : ∀ e ∈ items, ∀ d, fs.root.getAt (dest.names ++ [e.base]) = some d → d.plainTree = true)
    (hlen : dest.names.length + 1 + walkFuel < 256)
    (hclash : ∃ e ∈ items, ¬ Compatible (fs.root.getAt (dest.names ++ [e.base])) e.node) :
    (runSources fs c texts dest (items.map (·.path))).exit = .err := by
  obtain ⟨_, hcl⟩ := multi_mspec fs dest items fuel hfuel hsrc hnd hun hlen
  have hw : walkFuel = 64 := rfl
  rw [hw] at hlen
  have hde := plainTarget_eq fs dest hdest
  have h := runSources_clash_inv c texts hd hn hg hnt fs.root dest.names (by omega) items fs hwf hdd hnd
    (by
      intro e he
      obtain ⟨hp, hfn, hsn, _, _⟩ := hsrc e he
      refine ⟨plainTarget_eq fs e.path hp, hfn, hsn, ?_, (hcl e he).1, (hcl e he).2⟩
      cases hnode : e.node with
      | link t => exact absurd (hnode ▸ hsn) (hp.2.2.2 _ (List.prefix_refl _) t)
      | _ => rfl)
    hun (fun _ _ => rfl)
    (fun e he x hx q y hq => plainTree_getAt q x y (hplain e he x hx) hq) hclash
  rw [← hde] at h
  exact h

/-- `runSources`, no compatibility assumed: exit status ok IMPLIES that the final file system is the initial one with
every target overlaid with its source tree (C02's `several_sources_each_mirrored` without `hcomp`, for targets of
directories and regular files) -/
theorem multi_run_ok_implies_overlaid (fs : Fs) (c : Cfg) (texts : GiTexts) (dest : RPath) (items : List CopySrc)
    (fuel : Nat)
    (hd : c.dereference = false) (hn : c.noClobber = false) (hg : c.gitignore = false)
    (hnt : c.noTargetDir = false)
    (hwf : FsEq fs fs)
    (hdest : PlainTarget fs dest) (hdd : ∃ es, fs.root.getAt dest.names = some (.dir es))
    (hfuel : fuel < walkFuel)
    (hsrc : ∀ e ∈ items, PlainTarget fs e.path ∧ e.path.fileName = some e.base ∧
      fs.root.getAt e.path.names = some e.node ∧ e.node.Copyable fuel ∧ e.path.names.length + walkFuel < 256)
    (hnd : (items.map (·.base)).Nodup)
    (hun : ∀ e ∈ items, ∀ e' ∈ items,
      ¬ e.path.names <+: dest.names ++ [e'.base] ∧ ¬ dest.names ++ [e'.base] <+: e.path.names)
    (hplain : ∀ e ∈ items, ∀ d, fs.root.getAt (dest.names ++ [e.base]) = some d → d.plainTree = true)
    (hlen : dest.names.length + 1 + walkFuel < 256)
    (fs' : Fs) (hok : runSources fs c texts dest (items.map (·.path)) = ⟨.ok, fs'⟩) :
    FsEq fs' { fs with root := overlayAll fs.root dest.names items fs.root } := by
  by_cases hcomp : ∀ e ∈ items, Compatible (fs.root.getAt (dest.names ++ [e.base])) e.node
  · obtain ⟨fs'', hrun, heq⟩ := multi_overlay fs c texts dest items fuel hd hn hg hnt hwf hdest hdd hfuel hsrc hnd
      hun hcomp hlen
    rw [hok] at hrun
    injection hrun with _ hfs
    rw [hfs]
    exact heq
  · have hclash : ∃ e ∈ items, ¬ Compatible (fs.root.getAt (dest.names ++ [e.base])) e.node := by
      apply Classical.byContradiction
      intro hno
      apply hcomp
      intro e he
      apply Classical.byContradiction
      intro hne
      exact hno ⟨e, he, hne⟩
    have hf := multi_run_clash_fails fs c texts dest items fuel hd hn hg hnt hwf hdest hdd hfuel hsrc hnd hun hplain
      hlen hclash
    rw [hok] at hf
    cases hf

/-- EVERY INTERLEAVING: no run of the concurrent model over the concatenated lists — the walker going through all
sources while workers still complete operations of earlier ones — can be complete without having failed -/
theorem multi_clash_fails_every_interleaving (fs : Fs) (c : Cfg) (dest : RPath) (items : List CopySrc) (fuel : Nat)
    (hd : c.dereference = false) (hn : c.noClobber = false)
    (hwf : FsEq fs fs)
    (hdd : ∃ es, fs.root.getAt dest.names = some (.dir es))
    (hfuel : fuel < walkFuel)
    (hsrc : ∀ e ∈ items, PlainTarget fs e.path ∧ e.path.fileName = some e.base ∧
      fs.root.getAt e.path.names = some e.node ∧ e.node.Copyable fuel ∧ e.path.names.length + walkFuel < 256)
    (hnd : (items.map (·.base)).Nodup)
    (hun : ∀ e ∈ items, ∀ e' ∈ items,
      ¬ e.path.names <+: dest.names ++ [e'.base] ∧ ¬ dest.names ++ [e'.base] <+: e.path.names)
    (hplain : ∀ e ∈ items, ∀ d, fs.root.getAt (dest.names ++ [e.base]) = some d → d.plainTree = true)
    (hlen : dest.names.length + 1 + walkFuel < 256)
    (hclash : ∃ e ∈ items, ¬ Compatible (fs.root.getAt (dest.names ++ [e.base])) e.node)
    (ls : List Label) (s : St)
    (hrun : run c (init fs (multiOps fs c dest items)) ls = some s)
    (hfin : final s = true) : s.failed = true := by
  have hops : multiOps fs c dest items = allOps dest.names items := multiOps_eq fs c dest items fuel hd hn hfuel hsrc
  obtain ⟨hspec, _⟩ := multi_mspec fs dest items fuel hfuel hsrc hnd hun hlen
  have hw : walkFuel = 64 := rfl
  rw [hw] at hlen
  rw [hops] at hrun
  exact allOps_clash_concurrent hspec (by omega) c fs hwf hdd (fun e he => (hsrc e he).2.2.1)
    (fun e he x hx q y hq => plainTree_getAt q x y (hplain e he x hx) hq) hclash ls s hrun hfin

end Xcp
