import XcpProofs.MultiSource
import XcpProofs.GiOverlayLemmas
/-! # Lemmas for `MultiGi`: several sources, each filtered by the `.gitignore` at ITS OWN root

`runSources` calls `parseIgnore g c texts src` for every source, in the state `g` left by the previous sources.  One
source with patterns, exactly, with the walker's fixed fuel (`single_exact_gi`); one step of `runSources` with patterns
(`runSources_cons_ok_gi`); the previous sources write below their own targets only, so — provided the `.gitignore` of a
later source is not a symbolic link — its pattern list is what it was in the initial state (`parseIgnore_placeAt`);
and the fold over the sources (`runSources_gi_overlay_inv`, after `runSources_overlay_inv`). -/
namespace Xcp

/-- the name `.gitignore` -/
def giName : Name := [46, 103, 105, 116, 105, 103, 110, 111, 114, 101]

/-- one source with the pattern list in force for it -/
structure GiSrc where
  path : RPath
  base : Name
  node : Node
  ps : List Gi.Pattern

/-- what the source contributes to the destination: its tree minus what its patterns exclude -/
def GiSrc.pruned (e : GiSrc) : CopySrc := ⟨e.path, e.base, Node.prune e.ps [] e.node⟩

theorem map_pruned_base (items : List GiSrc) : (items.map GiSrc.pruned).map (·.base) = items.map (·.base) := by
  simp [List.map_map, Function.comp_def, GiSrc.pruned]

/-- the run for one source with patterns `ps`, tree at most 63 levels deep: succeeds, and leaves exactly `placeAt` of the
pruned tree -/
theorem single_exact_gi (fs : Fs) (c : Cfg) (hd : c.dereference = false) (hn : c.noClobber = false)
    (ps : List Gi.Pattern)
    (sn par : List Name) (nm : Name) (n : Node) (pes : Entries)
    (hwf : fs.root.WF) (hsn : fs.root.getAt sn = some n) (hnl : n.isLink = false) (hcop : n.Copyable 63)
    (hp : fs.root.getAt par = some (.dir pes))
    (hcompat : Compatible (fs.root.getAt (par ++ [nm])) (Node.prune ps [] n))
    (hun1 : ¬ sn <+: par ++ [nm]) (hun2 : ¬ par ++ [nm] <+: sn)
    (hl1 : sn.length + 63 < 256) (hl2 : par.length + 1 + 63 < 256) :
    execOps fs c (walkEntry fs c (some ps) (plainPath sn) (plainPath (par ++ [nm])) walkFuel [] []) =
      ⟨.ok, { fs with root := placeAt fs.root (par ++ [nm]) (fs.root.getAt (par ++ [nm])) (Node.prune ps [] n) }⟩ := by
  rw [walkFuel_eq]
  have hshape := walk_shape_gi fs c ps hd sn (par ++ [nm]) (.inl hn) 63 n hcop [] []
    (by simpa using hsn) (fun h => by rw [hnl] at h; cases h) (by simp only [List.length_nil]; omega) (.inl rfl)
  simp only [List.append_nil] at hshape
  have hexec := exec_overlay_sub c hn 63 _ (copyable_prune ps 63 n hcop []) fs sn par nm pes []
    (by
      intro rel x hx hxd
      rw [Node.getAt_append, hsn]
      exact getAt_prune_leaf ps rel 63 n [] x hcop hx hxd)
    hp (hwf par pes hp) (fun x hx => subtree_WF hwf hx) hcompat hun1 hun2 hl1 hl2
  rw [List.append_nil] at hexec
  rw [hshape, hexec]
  rfl

theorem runSources_cons_ok_gi (g g1 : Fs) (c : Cfg) (texts : GiTexts) (dest s tb : RPath) (r : List RPath)
    (ps : List Gi.Pattern) (hp : parseIgnore g c texts s = some ps) (h1 : targetBase g c dest s = some tb)
    (h2 : execOps g c (walkEntry g c (some ps) s tb walkFuel [] []) = ⟨.ok, g1⟩) :
    runSources g c texts dest (s :: r) = runSources g1 c texts dest r := by
  simp [runSources, h1, hp, h2]

/-- `placeAt` changes no observation outside its place -/
theorem obsAt_placeAt_out (root : Node) (t q : List Name) (dst : Option Node) (n : Node) (h : ¬ t <+: q) :
    obsAt (placeAt root t dst n) q = obsAt root q := by
  unfold placeAt
  split
  · rw [setAt_out _ _ _ _ h, delAt_out _ _ _ h]
  · rw [setAt_out _ _ _ _ h]

theorem push_plainPath (ns : List Name) (b : Name) : (plainPath ns).push b = plainPath (ns ++ [b]) := by
  simp [RPath.push, plainPath]

/-- a source's pattern list is not affected by a copy into a place the source is unrelated to, provided the source's
`.gitignore` is not a symbolic link -/
theorem parseIgnore_placeAt (g : Fs) (c : Cfg) (texts : GiTexts) (sn t : List Name) (dst : Option Node) (m : Node)
    (x : Node) (hx : g.root.getAt sn = some x) (hxl : x.isLink = false)
    (hgl : ∀ tg, g.root.getAt (sn ++ [giName]) ≠ some (.link tg))
    (h1 : ¬ sn <+: t) (h2 : ¬ t <+: sn) :
    parseIgnore { g with root := placeAt g.root t dst m } c texts (plainPath sn) =
      parseIgnore g c texts (plainPath sn) := by
  have hnot : ¬ t <+: sn ++ [giName] := by
    intro h
    rcases List.prefix_concat_iff.1 h with h | h
    · exact h1 (h ▸ List.prefix_append _ _)
    · exact h2 h
  have hag : AgreeUpto g.root (placeAt g.root t dst m) (sn ++ [giName]) := by
    intro p hp
    exact obsAt_placeAt_out _ _ _ _ _ (fun h => hnot (h.trans hp))
  have hl : NoLinkUpto g.root (sn ++ [giName]) := by
    intro p hp tg hgl'
    rcases List.prefix_concat_iff.1 hp with h | h
    · rw [h] at hgl'; exact hgl tg hgl'
    · exact noLinkUpto_of_getAt hx hxl p h tg hgl'
  have ho := ostat_local g { g with root := placeAt g.root t dst m } (sn ++ [giName]) hag hl
  have hc := contentOf_congr ho
  unfold parseIgnore
  rw [push_plainPath]
  show (if c.gitignore = true then _ else _) = (if c.gitignore = true then _ else _)
  rw [show (46 : UInt8) :: [103, 105, 116, 105, 103, 110, 111, 114, 101] = giName from rfl, ← hc]

/-! ## The induction over the sources -/

theorem runSources_gi_overlay_inv (c : Cfg) (texts : GiTexts) (hd : c.dereference = false) (hn : c.noClobber = false)
    (hnt : c.noTargetDir = false)
    (root0 : Node) (hw0 : root0.WF) (dn : List Name) (hdl : dn.length + 1 + 63 < 256) :
    ∀ (items : List GiSrc) (g : Fs), FsEq g g →
      (∃ es, g.root.getAt dn = some (.dir es)) →
      (items.map (·.base)).Nodup →
      (∀ e ∈ items, e.path = plainPath e.path.names ∧ e.path.fileName = some e.base ∧
        g.root.getAt e.path.names = some e.node ∧ e.node.isLink = false ∧ e.node.Copyable 63 ∧
        e.path.names.length + 63 < 256 ∧ parseIgnore g c texts e.path = some e.ps ∧
        ∀ tg, g.root.getAt (e.path.names ++ [giName]) ≠ some (.link tg)) →
      (∀ e ∈ items, ∀ e' ∈ items,
        ¬ e.path.names <+: dn ++ [e'.base] ∧ ¬ dn ++ [e'.base] <+: e.path.names) →
      (∀ e ∈ items, g.root.getAt (dn ++ [e.base]) = root0.getAt (dn ++ [e.base])) →
      (∀ e ∈ items, Compatible (root0.getAt (dn ++ [e.base])) (Node.prune e.ps [] e.node)) →
      ∃ fs', runSources g c texts (plainPath dn) (items.map (·.path)) = ⟨.ok, fs'⟩ ∧
        FsEq fs' { g with root := overlayAll root0 dn (items.map GiSrc.pruned) g.root } := by
  intro items
  induction items with
  | nil =>
    intro g hwf _ _ _ _ _ _
    exact ⟨g, rfl, hwf⟩
  | cons e rest ih =>
    intro g hwf hdd hnd hsrc hun hag hcomp
    obtain ⟨es, hes⟩ := hdd
    obtain ⟨hpe, hfn, hsn, hnl, hcop, hl, hps, _⟩ := hsrc e List.mem_cons_self
    have hue := hun e List.mem_cons_self e List.mem_cons_self
    have hage := hag e List.mem_cons_self
    simp only [List.map_cons, List.nodup_cons] at hnd
    -- the first source
    have htb := targetBase_dir g c hnt dn es e.path e.base hfn (by omega) hes
    have hrun := single_exact_gi g c hd hn e.ps e.path.names dn e.base e.node es hwf.2.1 hsn hnl hcop hes
      (by rw [hage]; exact hcomp e List.mem_cons_self) hue.1 hue.2 hl hdl
    rw [← hpe] at hrun
    have hstep := runSources_cons_ok_gi g _ c texts (plainPath dn) e.path (plainPath (dn ++ [e.base]))
      (rest.map (·.path)) e.ps hps htb hrun
    have hwf1 := execOps_wf c _ g _ hwf hrun
    obtain ⟨es1, hes1⟩ := placeAt_parent g.root dn e.base es (g.root.getAt (dn ++ [e.base]))
      (Node.prune e.ps [] e.node) hes
    -- the remaining sources, from the state it leaves
    obtain ⟨fs', hr', heq'⟩ := ih _ hwf1 ⟨es1, hes1⟩ hnd.2
      (by
        intro e' he'
        obtain ⟨a1, a2, a3, a4, a5, a6, a7, a8⟩ := hsrc e' (List.mem_cons_of_mem _ he')
        have u := hun e' (List.mem_cons_of_mem _ he') e List.mem_cons_self
        have ugi : ¬ dn ++ [e.base] <+: e'.path.names ++ [giName] ∧
            ¬ e'.path.names ++ [giName] <+: dn ++ [e.base] := by
          constructor
          · intro h
            rcases List.prefix_concat_iff.1 h with h | h
            · exact u.1 (h ▸ List.prefix_append _ _)
            · exact u.2 h
          · intro h
            exact u.1 ((List.prefix_append _ _).trans h)
        refine ⟨a1, a2, ?_, a4, a5, a6, ?_, ?_⟩
        · show (placeAt g.root (dn ++ [e.base]) (g.root.getAt (dn ++ [e.base])) _).getAt e'.path.names = _
          rw [placeAt_getAt_unrelated _ _ _ _ _ u.2 u.1]
          exact a3
        · rw [a1, parseIgnore_placeAt g c texts e'.path.names (dn ++ [e.base]) _ _ e'.node a3 a4 a8 u.1 u.2, ← a1]
          exact a7
        · intro tg
          show (placeAt g.root (dn ++ [e.base]) (g.root.getAt (dn ++ [e.base])) _).getAt
            (e'.path.names ++ [giName]) ≠ _
          rw [placeAt_getAt_unrelated _ _ _ _ _ ugi.1 ugi.2]
          exact a8 tg)
      (fun a ha b hb => hun a (List.mem_cons_of_mem _ ha) b (List.mem_cons_of_mem _ hb))
      (by
        intro e' he'
        have hne : e.base ≠ e'.base := by
          intro h
          apply hnd.1
          rw [h]
          exact List.mem_map.2 ⟨e', he', rfl⟩
        show (placeAt g.root (dn ++ [e.base]) (g.root.getAt (dn ++ [e.base])) _).getAt (dn ++ [e'.base]) = _
        rw [placeAt_getAt_unrelated _ _ _ _ _ (sibling_unrel dn hne) (sibling_unrel dn (Ne.symm hne))]
        exact hag e' (List.mem_cons_of_mem _ he'))
      (fun a ha => hcomp a (List.mem_cons_of_mem _ ha))
    refine ⟨fs', by rw [List.map_cons, hstep]; exact hr', ?_⟩
    -- the state it leaves is the overlay up to the order of entries
    have hsame : SameObs (placeAt g.root (dn ++ [e.base]) (g.root.getAt (dn ++ [e.base])) (Node.prune e.ps [] e.node))
        (g.root.setAt (dn ++ [e.base])
          (Node.overlay (root0.getAt (dn ++ [e.base])) (Node.prune e.ps [] e.node))) := by
      rw [← hage]
      exact sameObs_placeAt g.root dn e.base es hes _ _
    refine FsEq.trans heq' ⟨rfl, heq'.2.2.1, ?_, ?_⟩
    · apply overlayAll_WF root0 dn ((e :: rest).map GiSrc.pruned) g.root hwf.2.1
      intro e' he'
      obtain ⟨a, ha, hae⟩ := List.mem_map.1 he'
      subst hae
      obtain ⟨_, _, a3, _, a5, _⟩ := hsrc a ha
      exact overlay_WF 63 _ (copyable_prune a.ps 63 a.node a5 [])
        (prune_WF a.ps 63 a.node [] a5 (subtree_WF hwf.2.1 a3)) _ (fun x hx => subtree_WF hw0 hx)
    · exact overlayAll_sameObs root0 dn (rest.map GiSrc.pruned) _ _ hsame

end Xcp
