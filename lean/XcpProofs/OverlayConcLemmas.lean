import XcpProofs.Overlay
import XcpProofs.MirrorConcLemmas
/-! # The operations of a copy onto an EXISTING, compatible destination under every interleaving

The static facts about `opsOf` (`OpsSpec`, `TodoOK`, no duplicates, pairwise independence — MirrorConcLemmas) do not
depend on the destination.  What changes with respect to the fresh-destination development is the dynamic part: a
pending operation no longer finds its target absent, it finds there what the INITIAL destination had (nobody else
writes at that place), and that is head-compatible with the source node (`HeadOK`, a consequence of `Compatible`):
nothing, or a regular file under a file/special operation, a special file under a special operation, a directory under
a `mkdir`; never a symbolic link.  So every operation succeeds whenever it runs (`exec_due_over`), leaving the source
node's observation at its target and every other observation as it was; the invariant `OInv` of the concurrent runs
follows, and with it `GoodAll` at every hand-over. -/
namespace Xcp

open L0

/-! ## Head compatibility -/

/-- what an operation for the source node `m` may find at its target: nothing; a regular file (file and special
operations); a special file (special operation); a directory (`mkdir`).  Never a symbolic link. -/
def HeadOK : Option ONode → Node → Prop
  | none, _ => True
  | some (.file _), .file _ => True
  | some (.file _), .special _ _ => True
  | some (.special _ _), .special _ _ => True
  | some .dir, .dir _ => True
  | _, _ => False

theorem headOK_none (m : Node) : HeadOK none m := by
  cases m <;> simp [HeadOK]

theorem headOK_link_false {tg : RPath} {n : Node} (h : HeadOK (some (.link tg)) n) : False := by
  cases n <;> simp [HeadOK] at h

theorem headOK_dir_isDir {n : Node} (h : HeadOK (some .dir) n) : n.obs = .dir := by
  cases n <;> simp [HeadOK] at h
  rfl

theorem entGet_mem {es : Entries} {a : Name} {ch : Node} (h : entGet es a = some ch) : (a, ch) ∈ es := by
  induction es with
  | nil => simp [entGet] at h
  | cons kv r ih =>
    obtain ⟨k, x⟩ := kv
    by_cases hk : k = a
    · simp only [entGet, hk, if_true, Option.some.injEq] at h
      subst hk; subst h
      exact List.mem_cons_self
    · simp only [entGet, hk, if_false] at h
      exact List.mem_cons_of_mem _ (ih h)

/-- `Compatible` at the root gives head compatibility at every position of the source tree -/
theorem headOK_of_compatible : ∀ (rel : List Name) (dst : Option Node) (n m : Node), Compatible dst n →
    n.getAt rel = some m → HeadOK ((dst.bind fun x => x.getAt rel).map Node.obs) m := by
  intro rel
  induction rel with
  | nil =>
    intro dst n m hc hg
    simp only [getAt_nil, Option.some.injEq] at hg
    subst hg
    cases dst with
    | none => exact headOK_none _
    | some x =>
      cases x <;> cases n <;> simp [Compatible, Node.compatible] at hc <;> simp [HeadOK, Node.obs]
  | cons a rel' ih =>
    intro dst n m hc hg
    obtain ⟨es, ch, hn, hch, hm⟩ := Node.getAt_cons_some hg
    subst hn
    cases dst with
    | none => exact headOK_none _
    | some x =>
      cases x with
      | dir des =>
        simp only [Compatible, Node.compatible] at hc
        have hcc := compatibleL_mem hc (a, ch) (entGet_mem hch)
        have := ih (entGet des a) ch m hcc hm
        simpa only [Option.bind_some, getAt_dir_cons] using this
      | file k => simp [Compatible, Node.compatible] at hc
      | link t => simp [Compatible, Node.compatible] at hc
      | special k d => simp [Compatible, Node.compatible] at hc

/-! ## One operation executed in a state where it is due -/

theorem obs_below_none {r : Node} {ns : List Name} {x : Node} (hx : r.getAt ns = some x) (hl : LeafLike x) :
    ∀ s, s ≠ [] → obsAt r (ns ++ s) = none := by
  intro s hs
  simp [obsAt, Node.getAt_append, hx, hl s hs]

/-- a replacement at `ns`, where nothing was below `ns`, changes the observation at `ns` only -/
theorem frame_of_replacedAt {r r1 : Node} {ns : List Name} {w : ONode} (R : ReplacedAt r r1 ns w)
    (hb : ∀ s, s ≠ [] → obsAt r (ns ++ s) = none) : ∀ t', t' ≠ ns → obsAt r1 t' = obsAt r t' := by
  intro t' hne
  by_cases hp : ns <+: t'
  · obtain ⟨s, hs⟩ := hp
    subst hs
    have hs0 : s ≠ [] := fun h0 => hne (by rw [h0, List.append_nil])
    rw [R.below s hs0, hb s hs0]
  · exact R.out t' hp

/-- what the execution of the entry operation of the node `m` at `rel` leaves -/
structure OPost (srcNode : Node) (S T : List Name) (g g' : Fs) (rel : List Name) (m : Node) : Prop where
  wf : FsEq g' g'
  src : g'.root.getAt S = some srcNode
  here : obsAt g'.root (T ++ rel) = some m.obs
  frame : ∀ t', t' ≠ T ++ rel → obsAt g'.root t' = obsAt g.root t'

theorem OPost.dirs {srcNode : Node} {S T : List Name} {g g' : Fs} {rel : List Name} {m : Node}
    (P : OPost srcNode S T g g' rel m) (hok : HeadOK (obsAt g.root (T ++ rel)) m) :
    ∀ p, DirsOf g p → DirsOf g' p := by
  rintro p ⟨es, hes⟩
  show ∃ es', g'.root.getAt p = some (.dir es')
  apply getAt_dir_of_obs
  by_cases hp : p = T ++ rel
  · subst hp
    rw [obsAt_dir hes] at hok
    rw [P.here, headOK_dir_isDir hok]
  · rw [P.frame p hp]
    exact obsAt_dir hes

theorem OPost.made {srcNode : Node} {S T : List Name} {g g' : Fs} {rel : List Name} {m : Node}
    (P : OPost srcNode S T g g' rel m) (t : RPath) (ht : headOp m (S ++ rel) (T ++ rel) = .mkdir t) :
    DirsOf g' t.names := by
  obtain ⟨e1, e2⟩ := headOp_mkdir _ _ _ _ ht
  subst e1
  rw [plainPath_names]
  show ∃ es', g'.root.getAt (T ++ rel) = some (.dir es')
  apply getAt_dir_of_obs
  rw [P.here]
  cases m <;> simp [stub] at e2
  rfl

theorem exec_due_over {srcNode : Node} {S T : List Name} {d : Nat} {ops : List Op} (h : OpsSpec srcNode S T d ops)
    (c : Cfg) (hn : c.noClobber = false) (g : Fs) (hwf : FsEq g g) (x : Op) (rel : List Name) (m : Node)
    (hg : srcNode.getAt rel = some m) (hl : rel.length ≤ d)
    (ex : x = headOp m (S ++ rel) (T ++ rel))
    (hsrc : g.root.getAt S = some srcNode) (hpar : DirsOf g (T ++ rel).dropLast)
    (hok : HeadOK (obsAt g.root (T ++ rel)) m) :
    ∃ g', execOp g c x = some g' ∧ OPost srcNode S T g g' rel m := by
  have hne : T ++ rel ≠ [] := by
    intro h0
    exact h.tne (List.append_eq_nil_iff.1 h0).1
  have hpd : ParentDir g.root (T ++ rel) := hpar
  have hU := unrel_append h.un1 h.un2 [] rel
  rw [List.append_nil] at hU
  have hs : g.root.getAt (S ++ rel) = some m := by rw [Node.getAt_append, hsrc]; exact hg
  have hlS : (S ++ rel).length < 256 := by
    simp only [List.length_append]; have := h.lenS; omega
  have hlT : (T ++ rel).length < 256 := by
    simp only [List.length_append]; have := h.lenT; omega
  have hneST : S ++ rel ≠ T ++ rel := by
    intro e
    have := unrel_append h.un1 h.un2 rel rel
    exact this.1 (e ▸ List.prefix_refl _)
  rcases List.eq_nil_or_concat (T ++ rel) with h0 | ⟨par, nm, h0⟩
  · exact absurd h0 hne
  simp only [List.concat_eq_append] at h0
  obtain ⟨pes, hpes⟩ := hpar
  rw [h0, List.dropLast_concat] at hpes
  have hlen : par.length + 1 < 256 := by
    have := congrArg List.length h0
    simp only [List.length_append, List.length_cons, List.length_nil] at this
    simp only [List.length_append] at hlT
    omega
  -- the common ending: the new root is the old one with a leaf observed as `m.obs` put at the target
  have fin : ∀ r1 : Node, execOp g c x = some { g with root := r1 } → ReplacedAt g.root r1 (T ++ rel) m.obs →
      (∀ s, s ≠ [] → obsAt g.root (T ++ rel ++ s) = none) → r1.getAt S = some srcNode →
      ∃ g', execOp g c x = some g' ∧ OPost srcNode S T g g' rel m := by
    intro r1 hx R hb hS
    exact ⟨_, hx, ⟨wf_exec hwf hx, hS, R.here, frame_of_replacedAt R hb⟩⟩
  cases hdst : g.root.getAt (T ++ rel) with
  | none =>
    have hx := exec_headOp g c m (S ++ rel) par nm pes hs hlS (by omega) hpes (by rw [← h0]; exact hdst)
    rw [← h0, ← ex] at hx
    apply fin _ hx
    · have R := replacedAt_setAt g.root (T ++ rel) (stub m) hne hpd (stub_leafLike m)
      rw [stub_obs] at R
      exact R
    · intro s _
      rw [obsAt_eq_none]
      exact getAt_append_none _ _ _ hdst
    · rw [getAt_setAt_unrelated _ _ _ _ hU.2 hU.1]; exact hsrc
  | some y =>
    have hoy : obsAt g.root (T ++ rel) = some y.obs := by simp [obsAt, hdst]
    rw [hoy] at hok
    cases m with
    | file k =>
      cases y <;> simp [HeadOK, Node.obs] at hok
      rename_i k'
      have hx0 := execOp_copy_over g c (S ++ rel) (T ++ rel) k k' hs hdst hneST hlS hlT
      have hx : execOp g c x = some { g with root := g.root.setAt (T ++ rel) (.file k) } := by
        rw [ex]; exact hx0
      apply fin _ hx
      · exact replacedAt_setAt g.root (T ++ rel) (.file k) hne hpd (leafLike_nondir _ rfl)
      · exact obs_below_none hdst (leafLike_nondir _ rfl)
      · rw [getAt_setAt_unrelated _ _ _ _ hU.2 hU.1]; exact hsrc
    | link t =>
      cases y <;> simp [HeadOK, Node.obs] at hok
    | special k dv =>
      have hy : y.isDir = false ∧ y.isLink = false := by
        cases y <;> simp [HeadOK, Node.obs] at hok <;> simp [Node.isDir, Node.isLink]
      have hnd : (pes.map (·.1)).Nodup := hwf.2.1 par pes hpes
      have hx0 := execOp_special_over g c hn (S ++ rel) par nm k dv pes y hs hpes hnd
        (by rw [← h0]; exact hdst) hy.1 hy.2 (by rw [← h0]; exact hneST) hlS hlen
      rw [← h0] at hx0
      have hx : execOp g c x =
          some { g with root := (g.root.delAt (T ++ rel)).setAt (T ++ rel) (.special k dv) } := by
        rw [ex]; exact hx0
      apply fin _ hx
      · exact replacedAt_reset g.root (T ++ rel) (.special k dv) hne hpd (leafLike_nondir _ rfl)
      · exact obs_below_none hdst (leafLike_nondir _ hy.1)
      · rw [getAt_setAt_unrelated _ _ _ _ hU.2 hU.1, getAt_delAt_unrelated _ _ _ hU.2 hU.1]; exact hsrc
    | dir es =>
      cases y <;> simp [HeadOK, Node.obs] at hok
      rename_i des
      have hx0 := execOp_mkdir_over g c (T ++ rel) des hdst hlT
      have hx : execOp g c x = some g := by rw [ex]; exact hx0
      exact ⟨g, hx, ⟨hwf, hsrc, obsAt_dir hdst, fun _ _ => rfl⟩⟩

/-! ## The invariant of the concurrent runs -/

/-- `fs0` is the initial file system.  With respect to `MInv`: the target of a pending operation shows what the
initial destination showed there (`pend`); a position of the source tree shows the initial destination or the source
node (`kinds`); the tree stays well-formed (`wf`, needed by unlink + mknod). -/
structure OInv (fs0 : Fs) (srcNode : Node) (S T : List Name) (ops : List Op) (s : St) : Prop where
  ok : s.failed = false
  wf : FsEq s.fs s.fs
  src : s.fs.root.getAt S = some srcNode
  base : DirsOf s.fs T.dropLast
  todo : TodoOK (DirsOf s.fs) s.todo
  qpar : ∀ x ∈ s.queue, ∀ t, opTarget x = some t → DirsOf s.fs t.names.dropLast
  pend : ∀ x ∈ s.queue ++ s.todo, ∀ t, opTarget x = some t → obsAt s.fs.root t.names = obsAt fs0.root t.names
  kinds : ∀ rel n, srcNode.getAt rel = some n →
    obsAt s.fs.root (T ++ rel) = obsAt fs0.root (T ++ rel) ∨ obsAt s.fs.root (T ++ rel) = some n.obs
  mem : ∀ x ∈ s.queue ++ s.todo, x ∈ ops
  nodup : (s.queue ++ s.todo).Nodup

/-- the initial destination is head-compatible with the source tree, position by position -/
def Head0 (fs0 : Fs) (srcNode : Node) (T : List Name) : Prop :=
  ∀ rel m, srcNode.getAt rel = some m → HeadOK (obsAt fs0.root (T ++ rel)) m

theorem OInv.init {srcNode : Node} {S T : List Name} {ops : List Op}
    (fs : Fs) (hwf : FsEq fs fs) (hsn : fs.root.getAt S = some srcNode) (hpar : DirsOf fs T.dropLast)
    (htodo : TodoOK (DirsOf fs) ops) (hnd : ops.Nodup) :
    OInv fs srcNode S T ops (L0.init fs ops) := by
  refine ⟨rfl, hwf, hsn, hpar, htodo, ?_, ?_, ?_, ?_, ?_⟩
  · intro x hx; cases hx
  · intro x _ t _; rfl
  · intro rel n _; exact .inl rfl
  · intro x hx; simpa [L0.init] using hx
  · simpa [L0.init] using hnd

theorem OInv.step {fs0 : Fs} {srcNode : Node} {S T : List Name} {d : Nat} {ops : List Op}
    (h : OpsSpec srcNode S T d ops) (H0 : Head0 fs0 srcNode T)
    (c : Cfg) (hn : c.noClobber = false) (s s1 : St) (l : Label) (hinv : OInv fs0 srcNode S T ops s)
    (hstep : L0.step c s l = some s1) : OInv fs0 srcNode S T ops s1 := by
  obtain ⟨hok, hwf, hsrc, hbase, htodo, hqpar, hpend, hkinds, hmem, hnd⟩ := hinv
  -- what one executed operation does to `pend` and `kinds`
  have hkinds' : ∀ (g' : Fs) (rel : List Name) (m : Node), srcNode.getAt rel = some m →
      OPost srcNode S T s.fs g' rel m → ∀ rel' n', srcNode.getAt rel' = some n' →
      obsAt g'.root (T ++ rel') = obsAt fs0.root (T ++ rel') ∨ obsAt g'.root (T ++ rel') = some n'.obs := by
    intro g' rel m hg P rel' n' hg'
    by_cases he : rel' = rel
    · subst he
      rw [hg] at hg'
      injection hg' with hg'
      subst hg'
      exact .inr P.here
    · rw [P.frame (T ++ rel') (fun e => he (List.append_cancel_left e))]
      exact hkinds rel' n' hg'
  cases l with
  | walk =>
    simp only [L0.step, hok, Bool.false_eq_true, if_false] at hstep
    split at hstep
    · cases hstep
    · next op r htd =>
      rw [htd] at htodo hpend hmem hnd
      have hopmem : op ∈ ops := hmem op (by simp)
      obtain ⟨rel, m, hg, hl, ex⟩ := h.char op hopmem
      have hnd' := List.nodup_append.1 hnd
      have hnd'' := List.nodup_cons.1 hnd'.2.1
      split at hstep
      · -- executed by the walker
        have hpar : DirsOf s.fs (T ++ rel).dropLast := by
          have := htodo.1 (plainPath (T ++ rel)) (by rw [ex, headOp_target])
          rwa [plainPath_names] at this
        have hhok : HeadOK (obsAt s.fs.root (T ++ rel)) m := by
          have := hpend op (by simp) (plainPath (T ++ rel)) (by rw [ex, headOp_target])
          rw [plainPath_names] at this
          rw [this]
          exact H0 rel m hg
        obtain ⟨g', hx, P⟩ := exec_due_over h c hn s.fs hwf op rel m hg hl ex hsrc hpar hhok
        rw [hx] at hstep
        cases hstep
        have hne : ∀ y ∈ s.queue ++ r, op ≠ y := by
          intro y hy hoy
          subst hoy
          rcases List.mem_append.1 hy with hy | hy
          · exact hnd'.2.2 op hy op List.mem_cons_self rfl
          · exact hnd''.1 hy
        have hdirs := P.dirs hhok
        refine ⟨rfl, P.wf, P.src, hdirs _ hbase, ?_, ?_, ?_, hkinds' g' rel m hg P, ?_, ?_⟩
        · refine TodoOK.mono _ _ _ ?_ htodo.2
          rintro p (hp | ⟨t, ht, hpt⟩)
          · exact hdirs p hp
          · rw [hpt]; exact P.made t (ex ▸ ht)
        · intro y hy t ht
          exact hdirs _ (hqpar y hy t ht)
        · intro y hy t ht
          have hy' : y ∈ s.queue ++ op :: r := by
            rcases List.mem_append.1 hy with hy | hy
            · exact List.mem_append_left _ hy
            · exact List.mem_append_right _ (List.mem_cons_of_mem _ hy)
          show obsAt g'.root t.names = _
          rw [P.frame _ (h.tgt_ne (hmem y hy') (hne y hy) ex hg ht)]
          exact hpend y hy' t ht
        · intro y hy
          apply hmem y
          rcases List.mem_append.1 hy with hy | hy
          · exact List.mem_append_left _ hy
          · exact List.mem_append_right _ (List.mem_cons_of_mem _ hy)
        · show (s.queue ++ r).Nodup
          rw [List.nodup_append]
          exact ⟨hnd'.1, hnd''.2, fun a ha b hb => hnd'.2.2 a ha b (List.mem_cons_of_mem _ hb)⟩
      · next hsync =>
        cases hstep
        have hsync' : isSync op = false := by simpa using hsync
        refine ⟨rfl, hwf, hsrc, hbase, ?_, ?_, ?_, hkinds, ?_, ?_⟩
        · refine TodoOK.mono _ _ _ ?_ htodo.2
          rintro p (hp | ⟨t, ht, _⟩)
          · exact hp
          · rw [ht] at hsync'; cases hsync'
        · intro y hy t ht
          rcases List.mem_append.1 hy with hy | hy
          · exact hqpar y hy t ht
          · have : y = op := by simpa using hy
            subst this
            exact htodo.1 t ht
        · show ∀ y ∈ (s.queue ++ [op]) ++ r, _
          simpa using hpend
        · show ∀ y ∈ (s.queue ++ [op]) ++ r, y ∈ ops
          simpa using hmem
        · show ((s.queue ++ [op]) ++ r).Nodup
          simpa using hnd
  | exec i =>
    simp only [L0.step] at hstep
    split at hstep
    · next a hq =>
      obtain ⟨qpre, qpost, hq1, hq2⟩ := eraseIdx_split s.queue i a hq
      rw [hq2] at hstep
      rw [hq1] at hqpar hpend hmem hnd
      have hamem : a ∈ ops := hmem a (by simp)
      obtain ⟨rel, m, hg, hl, ex⟩ := h.char a hamem
      have hpar : DirsOf s.fs (T ++ rel).dropLast := by
        have := hqpar a (by simp) (plainPath (T ++ rel)) (by rw [ex, headOp_target])
        rwa [plainPath_names] at this
      have hhok : HeadOK (obsAt s.fs.root (T ++ rel)) m := by
        have := hpend a (by simp) (plainPath (T ++ rel)) (by rw [ex, headOp_target])
        rw [plainPath_names] at this
        rw [this]
        exact H0 rel m hg
      obtain ⟨g', hx, P⟩ := exec_due_over h c hn s.fs hwf a rel m hg hl ex hsrc hpar hhok
      rw [hx] at hstep
      cases hstep
      have hsub : ((qpre ++ qpost) ++ s.todo).Sublist ((qpre ++ a :: qpost) ++ s.todo) := by
        apply List.Sublist.append_right
        apply List.Sublist.append_left
        exact List.sublist_cons_self ..
      have hnd1 := (List.nodup_append.1 hnd).1
      have hnd2 := List.nodup_append.1 hnd1
      have hnd3 := List.nodup_cons.1 hnd2.2.1
      have hne : ∀ y ∈ (qpre ++ qpost) ++ s.todo, a ≠ y := by
        intro y hy hay
        subst hay
        rcases List.mem_append.1 hy with hy | hy
        · rcases List.mem_append.1 hy with hy | hy
          · exact hnd2.2.2 a hy a List.mem_cons_self rfl
          · exact hnd3.1 hy
        · exact (List.nodup_append.1 hnd).2.2 a (by simp) a hy rfl
      have hdirs := P.dirs hhok
      refine ⟨hok, P.wf, P.src, hdirs _ hbase, TodoOK.mono _ _ _ hdirs htodo, ?_, ?_, hkinds' g' rel m hg P, ?_, ?_⟩
      · intro y hy t ht
        have hy' : y ∈ qpre ++ a :: qpost := by
          rcases List.mem_append.1 hy with hy | hy
          · exact List.mem_append_left _ hy
          · exact List.mem_append_right _ (List.mem_cons_of_mem _ hy)
        exact hdirs _ (hqpar y hy' t ht)
      · intro y hy t ht
        have hy' := hsub.subset hy
        show obsAt g'.root t.names = _
        rw [P.frame _ (h.tgt_ne (hmem y hy') (hne y hy) ex hg ht)]
        exact hpend y hy' t ht
      · exact fun y hy => hmem y (hsub.subset hy)
      · exact hnd.sublist hsub
    · cases hstep

theorem OInv.run {fs0 : Fs} {srcNode : Node} {S T : List Name} {d : Nat} {ops : List Op}
    (h : OpsSpec srcNode S T d ops) (H0 : Head0 fs0 srcNode T) (c : Cfg) (hn : c.noClobber = false) :
    ∀ (ls : List Label) (s s' : St), OInv fs0 srcNode S T ops s → L0.run c s ls = some s' →
      OInv fs0 srcNode S T ops s' := by
  intro ls
  induction ls with
  | nil => intro s s' hinv hr; cases hr; exact hinv
  | cons l ls ih =>
    intro s s' hinv hr
    simp only [L0.run] at hr
    split at hr
    · next s1 hs1 => exact ih s1 s' (OInv.step h H0 c hn s s1 l hinv hs1) hr
    · cases hr

/-! ## What the invariant gives at the moment an operation is handed over -/

/-- no symbolic link at a position of the source tree, unless the source node there is one -/
theorem OInv.not_link {fs0 : Fs} {srcNode : Node} {S T : List Name} {ops : List Op} {s : St}
    (H0 : Head0 fs0 srcNode T) (hinv : OInv fs0 srcNode S T ops s) {rel : List Name} {n : Node}
    (hg : srcNode.getAt rel = some n) (hnl : n.isLink = false) (tg : RPath) :
    s.fs.root.getAt (T ++ rel) ≠ some (.link tg) := by
  intro hgl
  rw [getAt_link_iff] at hgl
  rcases hinv.kinds rel n hg with hk | hk
  · rw [hk] at hgl
    have := H0 rel n hg
    rw [hgl] at this
    exact headOK_link_false this
  · rw [hk] at hgl
    cases n <;> simp [Node.obs, Node.isLink] at hgl hnl

theorem OInv.noLinkAbove {fs0 : Fs} {srcNode : Node} {S T : List Name} {ops : List Op} {s : St}
    (H0 : Head0 fs0 srcNode T) (hinv : OInv fs0 srcNode S T ops s) {rel : List Name} {n : Node}
    (hg : srcNode.getAt rel = some n) : NoLinkAbove s.fs.root (T ++ rel) := by
  intro p hp hne tg hgl
  by_cases hT : T <+: p
  · obtain ⟨s', hs'⟩ := hT
    subst hs'
    obtain ⟨u, hu⟩ := (List.prefix_append_right_inj T).1 hp
    subst hu
    have hu0 : u ≠ [] := by
      intro h0; apply hne; rw [h0, List.append_nil]
    obtain ⟨es, hes⟩ := getAt_proper_prefix_dir hg hu0
    exact hinv.not_link H0 hes rfl tg hgl
  · have hpT : p <+: T := by
      rcases List.prefix_or_prefix_of_prefix hp (List.prefix_append T rel) with h1 | h1
      · exact h1
      · exact absurd h1 hT
    have hpne : p ≠ T := fun e => hT (e ▸ List.prefix_refl _)
    obtain ⟨es, hes⟩ := hinv.base
    obtain ⟨es', hes'⟩ := getAt_prefix_dir hes (prefix_dropLast_of_ne hpT hpne)
    rw [hes'] at hgl
    cases hgl

theorem OInv.plains {fs0 : Fs} {srcNode : Node} {S T : List Name} {d : Nat} {ops : List Op} {s : St}
    (h : OpsSpec srcNode S T d ops) (H0 : Head0 fs0 srcNode T) (hinv : OInv fs0 srcNode S T ops s) :
    ∀ x ∈ ops, Plains s.fs x := by
  intro x hx
  obtain ⟨rel, m, hg, hl, ex⟩ := h.char x hx
  refine ⟨?_, ?_⟩
  · intro t ht
    rw [ex, headOp_target] at ht
    have := Option.some.inj ht
    subst this
    rw [plainPath_names]
    refine ⟨hinv.noLinkAbove H0 hg, ?_⟩
    intro hnl p hp tg hgl
    by_cases hpe : p = T ++ rel
    · subst hpe
      rw [ex, headOp_isLinkOp] at hnl
      exact hinv.not_link H0 hg hnl tg hgl
    · exact hinv.noLinkAbove H0 hg p hp hpe tg hgl
  · intro sp hs
    rw [ex] at hs
    obtain ⟨e, _, hml⟩ := headOp_srcOf _ _ _ _ hs
    subst e
    rw [plainPath_names]
    apply noLinkUpto_of_getAt (x := m) _ hml
    rw [Node.getAt_append, hinv.src]; exact hg

theorem OInv.goodAll {fs0 : Fs} {srcNode : Node} {S T : List Name} {d : Nat} {ops : List Op} {s : St}
    (h : OpsSpec srcNode S T d ops) (H0 : Head0 fs0 srcNode T) (hinv : OInv fs0 srcNode S T ops s)
    (op : Op) (r : List Op) (htd : s.todo = op :: r) : GoodAll ops s.fs op := by
  refine ⟨?_, hinv.plains h H0⟩
  have hopmem : op ∈ ops := hinv.mem op (by rw [htd]; simp)
  obtain ⟨rel, m, hg, hl, ex⟩ := h.char op hopmem
  have htgt : opTarget op = some (plainPath (T ++ rel)) := by rw [ex, headOp_target]
  have htodo := hinv.todo
  rw [htd] at htodo
  refine ⟨?_, ⟨plainPath (T ++ rel), htgt, ?_, ?_, ?_, ?_⟩, ?_⟩
  · obtain ⟨es, hes⟩ := hinv.base
    obtain ⟨es', hes'⟩ := getAt_prefix_dir hes List.nil_prefix
    simp only [getAt_nil, Option.some.injEq] at hes'
    rw [hes']; rfl
  · refine ⟨rfl, rfl, (plainPath_namesOnly _).2.2, ?_⟩
    rw [plainPath_names]
    intro p hp tg hgl
    by_cases hpe : p = T ++ rel
    · subst hpe
      -- pending: the place shows what the initial destination showed, which is not a link
      have := hinv.pend op (by rw [htd]; simp) _ htgt
      rw [plainPath_names] at this
      rw [getAt_link_iff, this] at hgl
      have h0 := H0 rel m hg
      rw [hgl] at h0
      exact headOK_link_false h0
    · exact hinv.noLinkAbove H0 hg p hp hpe tg hgl
  · rw [plainPath_names]
    intro h0
    exact h.tne (List.append_eq_nil_iff.1 h0).1
  · rw [plainPath_names]
    simp only [List.length_append]
    have := h.lenT
    omega
  · exact htodo.1 _ htgt
  · intro sp hs
    rw [ex] at hs
    obtain ⟨e, _, hml⟩ := headOp_srcOf _ _ _ _ hs
    subst e
    have hsm : s.fs.root.getAt (S ++ rel) = some m := by
      rw [Node.getAt_append, hinv.src]; exact hg
    refine ⟨⟨rfl, rfl, (plainPath_namesOnly _).2.2, ?_⟩, ?_, ?_⟩
    · rw [plainPath_names]; exact noLinkUpto_of_getAt hsm hml
    · rw [plainPath_names]
      simp only [List.length_append]
      have := h.lenS
      omega
    · rw [plainPath_names]; exact ⟨m, hsm⟩

/-! ## The set-up of the copy onto an existing, compatible destination -/

theorem overlay_setup (fs : Fs) (c : Cfg) (hd : c.dereference = false) (hn : c.noClobber = false)
    (src tb : RPath) (srcNode : Node) (fuel : Nat)
    (hwf : FsEq fs fs)
    (hsrc : PlainTarget fs src) (hsn : fs.root.getAt src.names = some srcNode)
    (hcop : srcNode.Copyable fuel)
    (htb : PlainTarget fs tb) (hne : tb.names ≠ [])
    (hcompat : Compatible (fs.root.getAt tb.names) srcNode)
    (hpar : ∃ es, fs.root.getAt tb.names.dropLast = some (.dir es))
    (hun1 : ¬ src.names <+: tb.names) (hun2 : ¬ tb.names <+: src.names)
    (hlen : src.names.length + fuel < 200 ∧ tb.names.length + fuel < 200) :
    walkEntry fs c none src tb (fuel + 1) [] [] = opsOf srcNode src.names tb.names ∧
    OpsSpec srcNode src.names tb.names fuel (opsOf srcNode src.names tb.names) ∧
    (opsOf srcNode src.names tb.names).Nodup ∧
    Head0 fs srcNode tb.names ∧
    OInv fs srcNode src.names tb.names (opsOf srcNode src.names tb.names)
      (L0.init fs (opsOf srcNode src.names tb.names)) := by
  have hsrcE := plainTarget_eq fs src hsrc
  have htbE := plainTarget_eq fs tb htb
  have hnl : srcNode.isLink = false := by
    cases srcNode with
    | link t => exact absurd hsn (hsrc.2.2.2 src.names (List.prefix_refl _) t)
    | _ => rfl
  have hshape : walkEntry fs c none (plainPath src.names) (plainPath tb.names) (fuel + 1) [] [] =
      opsOf srcNode (src.names ++ []) (tb.names ++ []) := by
    have h1 : fs.root.getAt (src.names ++ []) = some srcNode := by simpa using hsn
    have h2 : srcNode.isLink = true → ([] : List Name) ≠ [] := fun h => by rw [hnl] at h; cases h
    have h3 : src.names.length + ([] : List Name).length + fuel < 256 := by
      simp only [List.length_nil]; omega
    exact walk_shape fs c hd src.names tb.names (.inl hn) fuel srcNode hcop [] [] h1 h2 h3
  rw [← hsrcE, ← htbE] at hshape
  simp only [List.append_nil] at hshape
  have hspec : OpsSpec srcNode src.names tb.names fuel (opsOf srcNode src.names tb.names) :=
    ⟨mem_opsOf fuel srcNode hcop _ _, hun1, hun2, hne, by omega, by omega⟩
  have hnd := opsOf_nodup fuel srcNode hcop src.names tb.names
  have htodo : TodoOK (DirsOf fs) (opsOf srcNode src.names tb.names) := by
    have := todoOK_opsOf fuel srcNode hcop src.names tb.names (DirsOf fs) [] hpar (fun _ _ => trivial)
    rwa [List.append_nil] at this
  have H0 : Head0 fs srcNode tb.names := by
    intro rel m hg
    have := headOK_of_compatible rel (fs.root.getAt tb.names) srcNode m hcompat hg
    unfold obsAt
    rw [Node.getAt_append]
    exact this
  exact ⟨hshape, hspec, hnd, H0, OInv.init fs hwf hsn hpar htodo hnd⟩

end Xcp
