import XcpProofs.Overlay
import XcpProofs.L0Fs
import XcpProofs.MirrorConcLemmas
import XcpProofs.OverlayConcLemmas
/-! # Existing, compatible destination, EVERY interleaving: the concurrent run overlays the source

The concurrent counterpart of `mirror_overlay`, under exactly its hypotheses.  The invariant `OInv`
(OverlayConcLemmas) shows that no reachable state of the concurrent model L0 over the walk's operations is failed
(`overlay_never_fails`), and that every operation is `GoodAll` at the moment the walker hands it over — which
DISCHARGES the `hand` hypothesis of the refinement theorem `L0.fs_run_refines_sequential` for this fragment; composed
with `mirror_overlay` (sequential), every complete run ends with the destination overlaid with the source tree, up to
the order of directory entries (`overlay_concurrent`).

The destination may contain symbolic links under names the source does not list: they are never at or above the
target of an operation (`OInv.noLinkAbove`: every position above a target is a position of a source DIRECTORY, and
`Compatible` allows only a directory or nothing there). -/
namespace Xcp

open L0

/-- no interleaving can make an operation of a copy onto a compatible destination fail: no reachable state of the
concurrent model is failed -/
theorem overlay_never_fails (fs : Fs) (c : Cfg) (hd : c.dereference = false) (hn : c.noClobber = false)
    (src tb : RPath) (srcNode : Node) (fuel : Nat)
    (hwf : FsEq fs fs) (hroot : fs.root.isDir = true)
    (hsrc : PlainTarget fs src) (hsn : fs.root.getAt src.names = some srcNode)
    (hcop : srcNode.Copyable fuel)
    (htb : PlainTarget fs tb) (hne : tb.names ≠ [])
    (hcompat : Compatible (fs.root.getAt tb.names) srcNode)
    (hpar : ∃ es, fs.root.getAt tb.names.dropLast = some (.dir es))
    (hun1 : ¬ src.names <+: tb.names) (hun2 : ¬ tb.names <+: src.names)
    (hlen : src.names.length + fuel < 200 ∧ tb.names.length + fuel < 200)
    (ls : List Label) (s : St)
    (hrun : run c (init fs (walkEntry fs c none src tb (fuel + 1) [] [])) ls = some s) :
    s.failed = false := by
  have _ := hroot   -- implied by `hpar`; kept so that the hypotheses are those of `mirror_overlay`
  obtain ⟨hshape, hspec, _, H0, hinit⟩ := overlay_setup fs c hd hn src tb srcNode fuel hwf hsrc hsn hcop htb hne
    hcompat hpar hun1 hun2 hlen
  rw [hshape] at hrun
  exact (OInv.run hspec H0 c hn ls _ s hinit hrun).ok

/-- every complete run of the concurrent model — any interleaving of the walker with the completions of queued
operations — ends with the destination overlaid with the source tree (up to the order of directory entries) -/
theorem overlay_concurrent (fs : Fs) (c : Cfg) (hd : c.dereference = false) (hn : c.noClobber = false)
    (src tb : RPath) (srcNode : Node) (fuel : Nat)
    (hwf : FsEq fs fs) (hroot : fs.root.isDir = true)
    (hsrc : PlainTarget fs src) (hsn : fs.root.getAt src.names = some srcNode)
    (hcop : srcNode.Copyable fuel)
    (htb : PlainTarget fs tb) (hne : tb.names ≠ [])
    (hcompat : Compatible (fs.root.getAt tb.names) srcNode)
    (hpar : ∃ es, fs.root.getAt tb.names.dropLast = some (.dir es))
    (hun1 : ¬ src.names <+: tb.names) (hun2 : ¬ tb.names <+: src.names)
    (hlen : src.names.length + fuel < 200 ∧ tb.names.length + fuel < 200)
    (ls : List Label) (s : St)
    (hrun : run c (init fs (walkEntry fs c none src tb (fuel + 1) [] [])) ls = some s)
    (hfin : final s = true) :
    FsEq s.fs { fs with root := fs.root.setAt tb.names (Node.overlay (fs.root.getAt tb.names) srcNode) } := by
  obtain ⟨fs', hex, heq⟩ := mirror_overlay fs c hd hn src tb srcNode fuel hwf hroot hsrc hsn hcop htb hne hcompat
    hpar hun1 hun2 hlen
  obtain ⟨hshape, hspec, hnd, H0, hinit⟩ := overlay_setup fs c hd hn src tb srcNode fuel hwf hsrc hsn hcop htb hne
    hcompat hpar hun1 hun2 hlen
  rw [hshape] at hrun hex
  have hok : s.failed = false := (OInv.run hspec H0 c hn ls _ s hinit hrun).ok
  have hand : ∀ (ls : List Label) (s : St) (op : Op) (r : List Op),
      run c (init fs (opsOf srcNode src.names tb.names)) ls = some s →
      s.failed = false → s.todo = op :: r → isSync op = false →
      GoodAll (opsOf srcNode src.names tb.names) s.fs op := by
    intro ls s op r hr _ htd _
    exact (OInv.run hspec H0 c hn ls _ s hinit hr).goodAll hspec H0 op r htd
  obtain ⟨f, hf, hfe⟩ := fs_run_refines_sequential c fs _ hwf hnd hspec.pairIndep hand ls s hrun hfin hok
  rw [execOps_seqExec c _ fs fs' hex] at hf
  injection hf with hf
  subst hf
  exact hfe.symm.trans heq

/-- the two together: a complete run exists only un-failed, and ends in the overlay -/
theorem overlay_concurrent_ok (fs : Fs) (c : Cfg) (hd : c.dereference = false) (hn : c.noClobber = false)
    (src tb : RPath) (srcNode : Node) (fuel : Nat)
    (hwf : FsEq fs fs) (hroot : fs.root.isDir = true)
    (hsrc : PlainTarget fs src) (hsn : fs.root.getAt src.names = some srcNode)
    (hcop : srcNode.Copyable fuel)
    (htb : PlainTarget fs tb) (hne : tb.names ≠ [])
    (hcompat : Compatible (fs.root.getAt tb.names) srcNode)
    (hpar : ∃ es, fs.root.getAt tb.names.dropLast = some (.dir es))
    (hun1 : ¬ src.names <+: tb.names) (hun2 : ¬ tb.names <+: src.names)
    (hlen : src.names.length + fuel < 200 ∧ tb.names.length + fuel < 200)
    (ls : List Label) (s : St)
    (hrun : run c (init fs (walkEntry fs c none src tb (fuel + 1) [] [])) ls = some s) :
    s.failed = false ∧ (final s = true →
      FsEq s.fs { fs with root := fs.root.setAt tb.names (Node.overlay (fs.root.getAt tb.names) srcNode) }) :=
  ⟨overlay_never_fails fs c hd hn src tb srcNode fuel hwf hroot hsrc hsn hcop htb hne hcompat hpar hun1 hun2 hlen
      ls s hrun,
   overlay_concurrent fs c hd hn src tb srcNode fuel hwf hroot hsrc hsn hcop htb hne hcompat hpar hun1 hun2 hlen
      ls s hrun⟩

end Xcp
