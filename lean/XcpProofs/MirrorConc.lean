import XcpProofs.Mirror
import XcpProofs.L0Fs
import XcpProofs.MirrorConcLemmas
/-! # Fresh destination, EVERY interleaving: the concurrent run mirrors the source

`mirror_fresh` (sequential) composed with the refinement theorem `L0.fs_run_refines_sequential`: the operations the
walker emits for a source tree copied to a fresh target are duplicate-free and pairwise independent, and each is
`GoodAll` at the moment it is handed over (its parent directory was created by the walker's own, synchronous, earlier
`mkdir`), so the `hand` hypothesis of the refinement theorem is DISCHARGED for this fragment. -/
namespace Xcp

open L0

/-- the operations of a fresh-destination copy -/
abbrev freshOps (fs : Fs) (c : Cfg) (src tb : RPath) (fuel : Nat) : List Op := walkEntry fs c none src tb (fuel + 1) [] []

/-- every complete failure-free run of the concurrent model — any interleaving of the walker with the completions
of queued operations — ends with the source tree at the target (up to the order of directory entries) -/
theorem mirror_fresh_concurrent (fs : Fs) (c : Cfg) (hd : c.dereference = false) (hn : c.noClobber = false)
    (src tb : RPath) (srcNode : Node) (fuel : Nat)
    (hwf : FsEq fs fs) (hroot : fs.root.isDir = true)
    (hsrc : PlainTarget fs src) (hsn : fs.root.getAt src.names = some srcNode)
    (hcop : srcNode.Copyable fuel)
    (htb : PlainTarget fs tb) (hne : tb.names ≠ []) (habs : fs.root.getAt tb.names = none)
    (hpar : ∃ es, fs.root.getAt tb.names.dropLast = some (.dir es))
    (hun1 : ¬ src.names <+: tb.names) (hun2 : ¬ tb.names <+: src.names)
    (hlen : src.names.length + fuel < 200 ∧ tb.names.length + fuel < 200)
    (ls : List Label) (s : St) (hrun : run c (init fs (freshOps fs c src tb fuel)) ls = some s)
    (hfin : final s = true) (hok : s.failed = false) :
    FsEq s.fs { fs with root := fs.root.setAt tb.names srcNode } := by
  obtain ⟨fs', hex, heq⟩ := mirror_fresh fs c hd hn src tb srcNode fuel hwf hroot hsrc hsn hcop htb hne habs hpar
    hun1 hun2 hlen
  obtain ⟨hshape, hspec, hnd, hinit⟩ := fresh_setup fs c hd hn src tb srcNode fuel hsrc hsn hcop htb hne habs hpar
    hun1 hun2 hlen
  have hops : freshOps fs c src tb fuel = opsOf srcNode src.names tb.names := hshape
  rw [hops] at hrun
  rw [hshape] at hex
  have hand : ∀ (ls : List Label) (s : St) (op : Op) (r : List Op),
      run c (init fs (opsOf srcNode src.names tb.names)) ls = some s →
      s.failed = false → s.todo = op :: r → isSync op = false →
      GoodAll (opsOf srcNode src.names tb.names) s.fs op := by
    intro ls s op r hr _ htd _
    exact (MInv.run hspec c ls _ s hinit hr).goodAll hspec op r htd
  obtain ⟨f, hf, hfe⟩ := fs_run_refines_sequential c fs _ hwf hnd hspec.pairIndep hand ls s hrun hfin hok
  rw [execOps_seqExec c _ fs fs' hex] at hf
  injection hf with hf
  subst hf
  exact hfe.symm.trans heq

/-- … and no interleaving can make an operation of such a run fail -/
theorem mirror_fresh_never_fails (fs : Fs) (c : Cfg) (hd : c.dereference = false) (hn : c.noClobber = false)
    (src tb : RPath) (srcNode : Node) (fuel : Nat)
    (hwf : FsEq fs fs) (hroot : fs.root.isDir = true)
    (hsrc : PlainTarget fs src) (hsn : fs.root.getAt src.names = some srcNode)
    (hcop : srcNode.Copyable fuel)
    (htb : PlainTarget fs tb) (hne : tb.names ≠ []) (habs : fs.root.getAt tb.names = none)
    (hpar : ∃ es, fs.root.getAt tb.names.dropLast = some (.dir es))
    (hun1 : ¬ src.names <+: tb.names) (hun2 : ¬ tb.names <+: src.names)
    (hlen : src.names.length + fuel < 200 ∧ tb.names.length + fuel < 200)
    (ls : List Label) (s : St) (hrun : run c (init fs (freshOps fs c src tb fuel)) ls = some s) :
    s.failed = false := by
  obtain ⟨hshape, hspec, _, hinit⟩ := fresh_setup fs c hd hn src tb srcNode fuel hsrc hsn hcop htb hne habs hpar
    hun1 hun2 hlen
  have _ := hwf
  have _ := hroot
  have hops : freshOps fs c src tb fuel = opsOf srcNode src.names tb.names := hshape
  rw [hops] at hrun
  exact (MInv.run hspec c ls _ s hinit hrun).ok

end Xcp
