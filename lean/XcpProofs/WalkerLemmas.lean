import XcpModel.Walker
/-! # Lemmas about `validate`, path resolution, the walk and the execution of operations (C13, C16) -/
namespace Xcp

/-! ## `validate` -/

theorem mapM_option_none {α β} (f : α → Option β) :
    ∀ (l : List α), (∃ p ∈ l, f p = none) → l.mapM f = none
  | [], h => by obtain ⟨p, hp, _⟩ := h; cases hp
  | a :: r, h => by
    obtain ⟨p, hp, hf⟩ := h
    rw [List.mapM_cons]
    cases hfa : f a with
    | none => rfl
    | some b =>
      have hr : p ∈ r := by
        cases hp with
        | head => rw [hfa] at hf; cases hf
        | tail _ h => exact h
      have := mapM_option_none f r ⟨p, hr, hf⟩
      simp [this]

theorem mapM_option_some_mem {α β} (f : α → Option β) :
    ∀ (l : List α) (ls : List β), l.mapM f = some ls → ∀ p ∈ l, ∃ r, f p = some r ∧ r ∈ ls
  | [], _, _, p, hp => by cases hp
  | a :: r, ls, h, p, hp => by
    rw [List.mapM_cons] at h
    cases hfa : f a with
    | none => simp [hfa] at h
    | some b =>
      cases hr : r.mapM f with
      | none => simp [hfa, hr] at h
      | some bs =>
        simp [hfa, hr] at h
        subst h
        cases hp with
        | head => exact ⟨b, hfa, List.mem_cons_self⟩
        | tail _ hp' =>
          obtain ⟨x, hx, hm⟩ := mapM_option_some_mem f r bs hr p hp'
          exact ⟨x, hx, List.mem_cons_of_mem _ hm⟩

theorem expandSources_noglob (fs : Fs) (o : Opts) (pats : List RPath) (hg : o.glob = false) :
    expandSources fs o pats = .ok pats := by
  simp [expandSources, hg]

theorem expandSources_nil (fs : Fs) (o : Opts) : expandSources fs o [] = .ok [] := by
  unfold expandSources
  cases o.glob <;> simp

/-- a malformed pattern or one that matches nothing makes the expansion fail -/
theorem expandSources_error_of_mem (fs : Fs) (o : Opts) (hg : o.glob = true) (pats : List RPath) (p : RPath)
    (hm : p ∈ pats) (hb : globOne fs p = none ∨ globOne fs p = some []) :
    ∃ r, expandSources fs o pats = .error r := by
  unfold expandSources
  simp only [hg, if_true]
  cases hmm : pats.mapM (globOne fs) with
  | none => exact ⟨_, rfl⟩
  | some ls =>
    obtain ⟨x, hx, hxl⟩ := mapM_option_some_mem _ _ _ hmm p hm
    cases hb with
    | inl hb => rw [hb] at hx; cases hx
    | inr hb =>
      rw [hb] at hx
      cases hx
      have : ls.any List.isEmpty = true := List.any_eq_true.mpr ⟨[], hxl, rfl⟩
      simp [this]

theorem checkSources_error_of_mem (fs : Fs) (o : Opts) (dest : RPath) (s : RPath) :
    ∀ (srcs : List RPath), s ∈ srcs → (∃ r, checkSource fs o dest s = .error r) →
      ∃ r, checkSources fs o dest srcs = .error r
  | [], hm, _ => by cases hm
  | x :: r, hm, he => by
    unfold checkSources
    cases hx : checkSource fs o dest x with
    | error e => exact ⟨e, rfl⟩
    | ok u =>
      cases u
      cases hm with
      | head => rw [hx] at he; obtain ⟨_, he⟩ := he; cases he
      | tail _ hm' => exact checkSources_error_of_mem fs o dest s r hm' he

/-- the split of the arguments into destination and sources, as inside `validate` -/
def argSplit (o : Opts) : Option (RPath × List RPath) :=
  match o.targetDir with
  | some d => some (d, o.paths)
  | none => splitLastPath o.paths

theorem ite_error {ε α} {c : Prop} [Decidable c] {e : ε} {x : Except ε α} (hx : ∃ r, x = .error r) :
    ∃ r, (if c then .error e else x) = .error r := by
  split
  · exact ⟨_, rfl⟩
  · exact hx

/-- `validate` after the option check and the split of the arguments -/
def validateRest (fs : Fs) (o : Opts) (dest : RPath) (pats : List RPath) : Except Reject (List RPath × RPath) :=
  match expandSources fs o pats with
  | .error e => .error e
  | .ok sources =>
    if sources.isEmpty then .error .noSources
    else if !fs.isDir dest && (sources.length = 1 && (match sources with | [s] => fs.isDir s | _ => false) && fs.exists dest) then .error .dirOntoFile
    else if !fs.isDir dest && sources.length > 1 then .error .multiToNonDir
    else match checkSources fs o dest sources with
      | .error e => .error e
      | .ok () => .ok (sources, dest)

theorem validate_eq (fs : Fs) (o : Opts) :
    validate fs o =
      if o.cfg.noClobber && o.force then .error .forceAndNoClobber else
      match argSplit o with
      | none => .error .insufficient
      | some (dest, pats) => validateRest fs o dest pats := rfl

theorem validate_error_of_rest (fs : Fs) (o : Opts) (dest : RPath) (pats : List RPath)
    (hs : argSplit o = some (dest, pats)) (h : ∃ r, validateRest fs o dest pats = .error r) :
    ∃ r, validate fs o = .error r := by
  obtain ⟨e, h⟩ := h
  rw [validate_eq, hs]
  split
  · exact ⟨_, rfl⟩
  · exact ⟨e, h⟩

theorem validate_error_of_expand (fs : Fs) (o : Opts) (dest : RPath) (pats : List RPath)
    (hs : argSplit o = some (dest, pats)) (h : ∃ r, expandSources fs o pats = .error r) :
    ∃ r, validate fs o = .error r := by
  obtain ⟨e, h⟩ := h
  refine validate_error_of_rest fs o dest pats hs ⟨e, ?_⟩
  unfold validateRest
  rw [h]

theorem validate_error_of_check (fs : Fs) (o : Opts) (dest : RPath) (pats sources : List RPath)
    (hs : argSplit o = some (dest, pats)) (hx : expandSources fs o pats = .ok sources)
    (h : ∃ r, checkSources fs o dest sources = .error r) :
    ∃ r, validate fs o = .error r := by
  obtain ⟨e, h⟩ := h
  apply validate_error_of_rest fs o dest pats hs
  unfold validateRest
  rw [hx]
  simp only [h]
  exact ite_error (ite_error (ite_error ⟨_, rfl⟩))

theorem validate_error_of_multi (fs : Fs) (o : Opts) (dest : RPath) (pats sources : List RPath)
    (hs : argSplit o = some (dest, pats)) (hx : expandSources fs o pats = .ok sources)
    (hn : 1 < sources.length) (hd : fs.isDir dest = false) :
    ∃ r, validate fs o = .error r := by
  apply validate_error_of_rest fs o dest pats hs
  unfold validateRest
  rw [hx]
  simp only []
  refine ite_error (ite_error ?_)
  rw [if_pos (by simp [hd, hn])]
  exact ⟨_, rfl⟩

theorem validate_error_of_nosource (fs : Fs) (o : Opts) (dest : RPath)
    (hs : argSplit o = some (dest, [])) : ∃ r, validate fs o = .error r := by
  apply validate_error_of_rest fs o dest [] hs
  unfold validateRest
  rw [expandSources_nil]
  exact ⟨_, rfl⟩

theorem validate_error_of_nosplit (fs : Fs) (o : Opts)
    (hs : argSplit o = none) : ∃ r, validate fs o = .error r := by
  rw [validate_eq, hs]
  split <;> exact ⟨_, rfl⟩

/-! ### rejections by `checkSource` -/

theorem checkSource_error_missing (fs : Fs) (o : Opts) (dest s : RPath) (hx : fs.exists s = false) :
    ∃ r, checkSource fs o dest s = .error r := by
  unfold checkSource
  rw [if_pos (by simp [hx])]
  exact ⟨_, rfl⟩

theorem checkSource_error_dir (fs : Fs) (o : Opts) (dest s : RPath) (hd : fs.isDir s = true)
    (hr : o.cfg.recursive = false) : ∃ r, checkSource fs o dest s = .error r := by
  unfold checkSource
  refine ite_error ?_
  rw [if_pos (by simp [hd, hr])]
  exact ⟨_, rfl⟩

theorem checkSource_error_dirOnto (fs : Fs) (o : Opts) (dest s tb : RPath) (hd : fs.isDir s = true)
    (ht : targetBase fs o.cfg dest s = some tb) (he : fs.exists tb = true) (hnd : fs.isDir tb = false) :
    ∃ r, checkSource fs o dest s = .error r := by
  unfold checkSource
  refine ite_error (ite_error (ite_error ?_))
  simp only [ht]
  refine ite_error ?_
  rw [if_pos he]
  refine ite_error ?_
  rw [if_pos (by simp [hd, hnd])]
  exact ⟨_, rfl⟩

theorem checkSource_error_same (fs : Fs) (o : Opts) (dest s tb : RPath)
    (ht : targetBase fs o.cfg dest s = some tb)
    (hsame : s.same dest = true ∨ s.same tb = true ∨ (fs.exists tb = true ∧ fs.sameFile s tb = true)) :
    ∃ r, checkSource fs o dest s = .error r := by
  unfold checkSource
  refine ite_error (ite_error ?_)
  rcases hsame with h | h | ⟨h1, h2⟩
  · rw [if_pos h]; exact ⟨_, rfl⟩
  · refine ite_error ?_
    simp only [ht]
    rw [if_pos h]; exact ⟨_, rfl⟩
  · refine ite_error ?_
    simp only [ht]
    refine ite_error ?_
    rw [if_pos h1, if_pos h2]; exact ⟨_, rfl⟩

/-! ## Path resolution -/

theorem Node.getAt_cons_some {nd : Node} {n : Name} {r : List Name} {x : Node}
    (h : nd.getAt (n :: r) = some x) : ∃ es c, nd = .dir es ∧ entGet es n = some c ∧ c.getAt r = some x := by
  cases nd with
  | dir es =>
    simp only [Node.getAt] at h
    cases hc : entGet es n with
    | none => simp [hc] at h
    | some c => simp only [hc] at h; exact ⟨es, c, rfl, hc, h⟩
  | file _ => simp [Node.getAt] at h
  | link _ => simp [Node.getAt] at h
  | special _ _ => simp [Node.getAt] at h

theorem Node.getAt_append (nd : Node) (a b : List Name) :
    nd.getAt (a ++ b) = (nd.getAt a).bind (fun x => x.getAt b) := by
  induction a generalizing nd with
  | nil => simp [Node.getAt]
  | cons n r ih =>
    cases nd with
    | dir es =>
      simp only [List.cons_append, Node.getAt]
      cases hc : entGet es n with
      | none => simp
      | some c => simp only []; exact ih c
    | file _ => simp [Node.getAt]
    | link _ => simp [Node.getAt]
    | special _ _ => simp [Node.getAt]

/-- a canonical path at which path resolution may stand: the root, or an existing directory -/
def GoodCur (root : Node) (cur : List Name) : Prop := cur = [] ∨ ∃ es, root.getAt cur = some (.dir es)

theorem GoodCur.dropLast {root : Node} {cur : List Name} (h : GoodCur root cur) : GoodCur root cur.dropLast := by
  rcases h with h | ⟨es, h⟩
  · subst h; exact .inl rfl
  · rcases List.eq_nil_or_concat cur with hc | ⟨init, last, hc⟩
    · subst hc; exact .inl rfl
    · subst hc
      simp only [List.concat_eq_append] at h ⊢
      rw [List.dropLast_concat]
      rw [Node.getAt_append] at h
      cases hi : root.getAt init with
      | none => simp [hi] at h
      | some x =>
        simp only [hi, Option.bind_some] at h
        obtain ⟨es', _, hx, _, _⟩ := Node.getAt_cons_some h
        subst hx
        exact .inr ⟨es', hi⟩

/-- the object a fully followed walk ends at is never a symbolic link -/
theorem walkPath_follow_nonlink (root : Node) (hroot : root.isLink = false) :
    ∀ (fuel : Nat) (cur : List Name) (comps : List Comp) (c : List Name), GoodCur root cur →
      walkPath root true fuel cur comps = .found c → ∃ n, root.getAt c = some n ∧ n.isLink = false := by
  intro fuel
  induction fuel with
  | zero => intro cur comps c _ h; simp [walkPath] at h
  | succ f ih =>
    intro cur comps c hg h
    match comps with
    | [] =>
      simp only [walkPath, Res.found.injEq] at h
      subst h
      rcases hg with hg | ⟨es, hg⟩
      · subst hg; exact ⟨root, rfl, hroot⟩
      · exact ⟨_, hg, rfl⟩
    | .cur :: r => simp only [walkPath] at h; exact ih cur r c hg h
    | .parent :: r => simp only [walkPath] at h; exact ih _ r c hg.dropLast h
    | .name n :: r =>
      simp only [walkPath] at h
      split at h
      · split at h <;> cases h
      · rename_i t hnode
        simp only [Bool.not_true, Bool.and_false, Bool.false_eq_true, if_false] at h
        refine ih _ _ c ?_ h
        split
        · exact .inl rfl
        · exact hg
      · rename_i es hnode
        exact ih _ r c (.inr ⟨es, hnode⟩) h
      · rename_i x hnl hnd hnode
        split at h
        · simp only [Res.found.injEq] at h
          subst h
          refine ⟨x, hnode, ?_⟩
          cases x with
          | link t => exact absurd rfl (hnl t)
          | _ => rfl
        · cases h

/-- walking a canonical path that designates an existing object which is not a link, without following the
last component, ends at that very path (or runs out of fuel) -/
theorem walkPath_names (root : Node) (fl : Bool) :
    ∀ (ns : List Name) (fuel : Nat) (cur : List Name) (c : List Name) (x : Node),
      root.getAt (cur ++ ns) = some x → x.isLink = false →
      walkPath root fl fuel cur (ns.map .name) = .found c → c = cur ++ ns := by
  intro ns
  induction ns with
  | nil =>
    intro fuel cur c x _ _ h
    cases fuel with
    | zero => simp [walkPath] at h
    | succ f => simp only [List.map_nil, walkPath, Res.found.injEq] at h; simp [h]
  | cons n r ih =>
    intro fuel cur c x hx hnl h
    cases fuel with
    | zero => simp [walkPath] at h
    | succ f =>
      have hx' : root.getAt ((cur ++ [n]) ++ r) = some x := by simpa using hx
      simp only [List.map_cons, walkPath] at h
      rw [Node.getAt_append] at hx'
      cases hy : root.getAt (cur ++ [n]) with
      | none => simp [hy] at hx'
      | some y =>
        simp only [hy, Option.bind_some] at hx' h
        cases r with
        | nil =>
          simp only [Node.getAt, Option.some.injEq] at hx'
          subst hx'
          cases y with
          | link t => cases hnl
          | dir es =>
            simp only [List.map_nil] at h
            cases f with
            | zero => simp [walkPath] at h
            | succ f' => simp only [walkPath, Res.found.injEq] at h; exact h.symm
          | file _ => simp at h; exact h.symm
          | special _ _ => simp at h; exact h.symm
        | cons m r' =>
          obtain ⟨es, _, hy', _, _⟩ := Node.getAt_cons_some hx'
          subst hy'
          simp only [] at h
          have := ih f (cur ++ [n]) c x (by simpa using hx) hnl h
          simpa using this

theorem resolve_found_walk {fs : Fs} {p : RPath} {fl : Bool} {c : List Name} (h : fs.resolve p fl = .found c) :
    walkPath fs.root (fl || p.trail) resolveFuel (if p.abs then [] else fs.cwd) p.comps = .found c := by
  unfold Fs.resolve at h
  split at h
  · cases h
  · split at h
    · rename_i q hq
      split at h
      · split at h
        · rw [hq, h]
        · cases h
      · rw [hq, h]
    · rename_i r hr
      rw [h] at hr
      exact absurd rfl (hr c)

/-- the object a path resolves to with all links followed is not a link -/
theorem resolve_follow_nonlink (fs : Fs) (hroot : fs.root.isLink = false)
    (hcwd : fs.cwd = [] ∨ ∃ es, fs.root.getAt fs.cwd = some (.dir es)) (p : RPath) (c : List Name)
    (h : fs.resolve p true = .found c) : ∃ n, fs.root.getAt c = some n ∧ n.isLink = false := by
  have hw := resolve_found_walk h
  simp only [Bool.true_or] at hw
  refine walkPath_follow_nonlink fs.root hroot _ _ _ c ?_ hw
  split
  · exact .inl rfl
  · exact hcwd

/-- `lstat` of a canonicalized path never sees a link -/
theorem lstat_canonical_nonlink (fs : Fs) (hroot : fs.root.isLink = false)
    (hcwd : fs.cwd = [] ∨ ∃ es, fs.root.getAt fs.cwd = some (.dir es)) (p q : RPath)
    (h : fs.canonicalize p = .ok q) (c : List Name) (n : Node) (hl : fs.lstat q = some (c, n)) :
    n.isLink = false := by
  unfold Fs.canonicalize at h
  split at h
  · rename_i c0 hres
    cases h
    obtain ⟨x, hx, hxl⟩ := resolve_follow_nonlink fs hroot hcwd p c0 hres
    unfold Fs.lstat at hl
    split at hl
    · rename_i c' hres'
      have hw := resolve_found_walk hres'
      simp only [Bool.or_self, if_true] at hw
      have hc := walkPath_names fs.root false c0 resolveFuel [] c' x (by simpa using hx) hxl hw
      simp only [List.nil_append] at hc
      subst hc
      rw [hx] at hl
      simp only [Option.map_some, Option.some.injEq, Prod.mk.injEq] at hl
      rw [← hl.2]; exact hxl
    · cases hl
  · cases h
  · cases h

/-! ## Counting symbolic links; mutations that create none -/

mutual
/-- number of symbolic links in a tree -/
def linkCount : Node → Nat
  | .link _ => 1
  | .dir es => linkCountL es
  | _ => 0
def linkCountL : List (Name × Node) → Nat
  | [] => 0
  | (_, n) :: r => linkCount n + linkCountL r
end

theorem linkCountL_entSet_le (es : Entries) (n : Name) (x : Node) :
    linkCountL (entSet es n x) ≤ linkCountL es + linkCount x := by
  induction es with
  | nil => simp [entSet, linkCountL]
  | cons e r ih =>
    obtain ⟨k, w⟩ := e
    simp only [entSet]
    split
    · simp only [linkCountL]; omega
    · simp only [linkCountL]; omega

theorem linkCountL_entSet_get (es : Entries) (n : Name) (x c : Node) (h : entGet es n = some c) :
    linkCountL (entSet es n x) + linkCount c = linkCountL es + linkCount x := by
  induction es with
  | nil => simp [entGet] at h
  | cons e r ih =>
    obtain ⟨k, w⟩ := e
    simp only [entGet] at h
    simp only [entSet]
    split
    · rename_i hk
      simp only [hk, if_true, Option.some.injEq] at h
      subst h
      simp only [linkCountL]; omega
    · rename_i hk
      simp only [hk, if_false] at h
      have := ih h
      simp only [linkCountL]; omega

theorem linkCountL_entDel_le (es : Entries) (n : Name) : linkCountL (entDel es n) ≤ linkCountL es := by
  induction es with
  | nil => simp [entDel]
  | cons e r ih =>
    obtain ⟨k, w⟩ := e
    simp only [entDel]
    split
    · simp only [linkCountL]; omega
    · simp only [linkCountL]; omega

theorem linkCount_setAt_le (p : List Name) : ∀ (root v : Node),
    linkCount (root.setAt p v) ≤ linkCount root + linkCount v := by
  induction p with
  | nil => intro root v; simp [Node.setAt]
  | cons n r ih =>
    intro root v
    cases root with
    | dir es =>
      cases r with
      | nil => simp only [Node.setAt, linkCount]; exact linkCountL_entSet_le es n v
      | cons m r' =>
        simp only [Node.setAt]
        cases hc : entGet es n with
        | none => simp only [linkCount]; omega
        | some c =>
          simp only [linkCount]
          have h1 := linkCountL_entSet_get es n (c.setAt (m :: r') v) c hc
          have h2 := ih c v
          omega
    | file _ => simp [Node.setAt]
    | link _ => simp [Node.setAt]
    | special _ _ => simp [Node.setAt]

theorem linkCount_delAt_le (p : List Name) : ∀ (root : Node), linkCount (root.delAt p) ≤ linkCount root := by
  induction p with
  | nil => intro root; simp [Node.delAt]
  | cons n r ih =>
    intro root
    cases root with
    | dir es =>
      cases r with
      | nil => simp only [Node.delAt, linkCount]; exact linkCountL_entDel_le es n
      | cons m r' =>
        simp only [Node.delAt]
        cases hc : entGet es n with
        | none => simp only [linkCount]; omega
        | some c =>
          simp only [linkCount]
          have h1 := linkCountL_entSet_get es n (c.delAt (m :: r')) c hc
          have h2 := ih c
          omega
    | file _ => simp [Node.delAt]
    | link _ => simp [Node.delAt]
    | special _ _ => simp [Node.delAt]

theorem createFile_links {fs fs' : Fs} {p : RPath} {c : Nat} (h : fs.createFile p c = .ok fs') :
    linkCount fs'.root ≤ linkCount fs.root := by
  unfold Fs.createFile at h
  split at h
  · split at h
    · cases h; exact linkCount_setAt_le _ _ _
    · cases h
    · cases h; exact Nat.le_refl _
    · cases h
  · split at h
    · cases h
    · cases h; exact linkCount_setAt_le _ _ _
  · cases h

theorem mkdir_links {fs fs' : Fs} {p : RPath} (h : fs.mkdir p = .ok fs') :
    linkCount fs'.root ≤ linkCount fs.root := by
  unfold Fs.mkdir at h
  split at h
  · cases h
  · cases h; exact linkCount_setAt_le _ _ _
  · cases h

theorem mknod_links {fs fs' : Fs} {p : RPath} {k : FileKind} {rdev : Nat} (h : fs.mknod p k rdev = .ok fs') :
    linkCount fs'.root ≤ linkCount fs.root := by
  unfold Fs.mknod at h
  split at h
  · cases h
  · cases h; exact linkCount_setAt_le _ _ _
  · cases h

theorem unlink_links {fs fs' : Fs} {p : RPath} (h : fs.unlink p = .ok fs') :
    linkCount fs'.root ≤ linkCount fs.root := by
  unfold Fs.unlink at h
  split at h
  · split at h
    · cases h
    · split at h
      · cases h
      · cases h; exact linkCount_delAt_le _ _
    · cases h
  · cases h
  · cases h

theorem mkdirAllAux_links (abs : Bool) : ∀ (rev : List Comp) (fs fs' : Fs), Fs.mkdirAllAux fs abs rev = .ok fs' →
    linkCount fs'.root ≤ linkCount fs.root := by
  intro rev
  induction rev with
  | nil => intro fs fs' h; simp only [Fs.mkdirAllAux] at h; cases h; exact Nat.le_refl _
  | cons c rest ih =>
    intro fs fs' h
    simp only [Fs.mkdirAllAux] at h
    split at h
    · rename_i fs1 h1
      cases h; exact mkdir_links h1
    · split at h
      · rename_i fs1 h1
        have le1 := ih fs fs1 h1
        split at h
        · rename_i fs2 h2
          cases h
          exact Nat.le_trans (mkdir_links h2) le1
        · split at h
          · cases h; exact le1
          · cases h
      · cases h
    · split at h
      · cases h; exact Nat.le_refl _
      · cases h

theorem mkdirAll_links {fs fs' : Fs} {p : RPath} (h : fs.mkdirAll p = .ok fs') :
    linkCount fs'.root ≤ linkCount fs.root := by
  unfold Fs.mkdirAll at h
  split at h
  · cases h; exact Nat.le_refl _
  · exact mkdirAllAux_links _ _ _ _ h

theorem toOption_eq_some {ε α} {x : Except ε α} {a : α} (h : x.toOption = some a) : x = .ok a := by
  cases x with
  | error e => simp [Except.toOption] at h
  | ok b => simp [Except.toOption] at h; rw [h]

/-- an operation other than `link` never adds a symbolic link -/
theorem execOp_links {fs fs' : Fs} {c : Cfg} {op : Op} (hop : ∀ t tg, op ≠ .link t tg)
    (h : execOp fs c op = some fs') : linkCount fs'.root ≤ linkCount fs.root := by
  cases op with
  | fail => simp [execOp] at h
  | mkdir t => exact mkdirAll_links (toOption_eq_some h)
  | copy s t =>
    simp only [execOp] at h
    split at h
    · cases h
    · split at h
      · cases h
      · exact createFile_links (toOption_eq_some h)
  | link t tg => exact absurd rfl (hop t tg)
  | special s t =>
    simp only [execOp] at h
    split at h
    · split at h
      · split at h
        · cases h
        · split at h
          · cases h
          · split at h
            · rename_i fs1 h1
              exact Nat.le_trans (mknod_links (toOption_eq_some h)) (unlink_links h1)
            · cases h
      · exact mknod_links (toOption_eq_some h)
    · cases h

theorem execOps_links (c : Cfg) : ∀ (ops : List Op) (fs : Fs), (∀ op ∈ ops, ∀ t tg, op ≠ .link t tg) →
    linkCount (execOps fs c ops).fs.root ≤ linkCount fs.root := by
  intro ops
  induction ops with
  | nil => intro fs _; exact Nat.le_refl _
  | cons op r ih =>
    intro fs h
    simp only [execOps]
    split
    · rename_i fs' h1
      exact Nat.le_trans (ih fs' (fun o ho => h o (List.mem_cons_of_mem _ ho)))
        (execOp_links (h op List.mem_cons_self) h1)
    · exact Nat.le_refl _

/-! ## The walk with `--dereference` -/

theorem mem_ite' {α} {c : Prop} [Decidable c] {a b : List α} {x : α} (h : x ∈ (if c then a else b)) :
    x ∈ a ∨ x ∈ b := by
  split at h
  · exact .inl h
  · exact .inr h

/-- the operation `walkEntry` emits for the entry itself -/
def hereOps (node : Node) (fromP target : RPath) : List Op :=
  match classifyKind node.kind with
  | .copy => [.copy fromP target]
  | .link => (match node with | .link t => [.link t target] | _ => [.fail])
  | .mkdir => [.mkdir target]
  | .special => [.special fromP target]
  | .unsupported => [.fail]

theorem hereOps_no_link (node : Node) (fromP target : RPath) (hnl : node.isLink = false) :
    ∀ op ∈ hereOps node fromP target, ∀ t tg, op ≠ .link t tg := by
  intro op h t tg
  unfold hereOps at h
  cases node with
  | link _ => cases hnl
  | file _ => simp [Node.kind, classifyKind] at h; subst h; exact Op.noConfusion
  | dir _ => simp [Node.kind, classifyKind] at h; subst h; exact Op.noConfusion
  | special k _ =>
    cases k <;> simp [Node.kind, classifyKind] at h <;> subst h <;> exact Op.noConfusion

theorem walkEntry_deref_no_link (fs : Fs) (hroot : fs.root.isLink = false)
    (hcwd : fs.cwd = [] ∨ ∃ es, fs.root.getAt fs.cwd = some (.dir es))
    (c : Cfg) (hd : c.dereference = true) (gi : Ignore) (src tb : RPath) :
    ∀ (fuel : Nat) (rel : List Name) (anc : List (List Name)),
      ∀ op ∈ walkEntry fs c gi src tb fuel rel anc, ∀ t tg, op ≠ .link t tg := by
  intro fuel
  induction fuel with
  | zero => intro rel anc op h t tg; simp [walkEntry] at h; subst h; exact Op.noConfusion
  | succ f ih =>
    intro rel anc op h t tg
    simp only [walkEntry, hd] at h
    cases hls : fs.lstat (relJoin src rel) with
    | none => simp only [hls, List.mem_singleton] at h; subst h; exact Op.noConfusion
    | some pr =>
      obtain ⟨cp, lnode⟩ := pr
      simp only [hls] at h
      have h' := mem_ite' h; clear h; rcases h' with h | h
      · simp only [List.mem_singleton] at h; subst h; exact Op.noConfusion
      have h' := mem_ite' h; clear h; rcases h' with h | h
      · cases h
      simp only [if_true] at h
      cases hcan : fs.canonicalize (relJoin src rel) with
      | error e => simp only [hcan, List.mem_singleton] at h; subst h; exact Op.noConfusion
      | ok fromP =>
        simp only [hcan] at h
        cases hl2 : fs.lstat fromP with
        | none => simp only [hl2, List.mem_singleton] at h; subst h; exact Op.noConfusion
        | some pr2 =>
          obtain ⟨canon, node⟩ := pr2
          simp only [hl2] at h
          have hnl := lstat_canonical_nonlink fs hroot hcwd _ _ hcan canon node hl2
          have h' := mem_ite' h; clear h; rcases h' with h | h
          · simp only [List.mem_singleton] at h; subst h; exact Op.noConfusion
          split at h
          · exact hereOps_no_link node fromP _ hnl op h t tg
          · have h' := mem_ite' h; clear h; rcases h' with h | h
            · simp only [List.mem_singleton] at h; subst h; exact Op.noConfusion
            split at h
            · rcases List.mem_append.mp h with h | h
              · exact hereOps_no_link node fromP _ hnl op h t tg
              · obtain ⟨n, _, hn⟩ := List.mem_flatMap.mp h
                exact ih _ _ _ hn t tg
            · exact hereOps_no_link node fromP _ hnl op h t tg

end Xcp
