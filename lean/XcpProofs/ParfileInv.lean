import XcpModel.ParfilePool
import XcpModel.Handle
import XcpProofs.PoolInv
import XcpProofs.HandleLemmas
/-! Invariants of the parfile worker model (`XcpModel.ParfilePool`) for every reachable state (every schedule),
and the helper lemmas of the property files C18 and C20.

Layout: inversion of `step`; termination measure and no-deadlock; induction over reachable states; then
* `open_bound` — the worker list keeps its length, and a worker holds at most one handle            (C20)
* `HInv` — a handle is held by at most one worker, handles ≥ `next` by none, a finalised/fsynced handle by none;
  the trace monitor holds                                                    → `writes_before_finalise` (C18)
* `fsync_before_close` — every `closed h` is immediately preceded by `finalise h, fsync h`          (C18)
* `PInv` — files left = `files.drop next`; a handle below `next` is held or closed     → `final_all_closed`
Then: list lemmas about the monitor (`wbf_no_write_after_fsync`), `Pool`: no fsync event without the option,
the fsync of a closed handle is after all its writes (`fsync_after_writes_of_closed`), shape of `fileProgram`. -/
namespace Xcp.Parfile

open Xcp.Pool (Hid Event writesBeforeFinalise ClosedOk)

/-- `omega` does not look through the abbreviation `Hid` -/
local macro "homega" : tactic => `(tactic| ((try unfold Hid at *); omega))

/-! ## inversion of `step`, one lemma per label -/

theorem step_take {s s' : St} {i : Nat} (h : step s (.take i) = some s') :
    ∃ b q, s.workers[i]? = some none ∧ s.queue = b :: q ∧
      s' = { s with queue := q, workers := s.workers.set i (some (s.next, 0, b)), next := s.next + 1,
                    log := s.log ++ [.opened s.next] } := by
  simp only [step] at h
  split at h
  · next b q hw hq => exact ⟨b, q, hw, hq, by simpa using h.symm⟩
  · simp at h

theorem step_write {s s' : St} {i : Nat} (h : step s (.write i) = some s') :
    ∃ hd k left, s.workers[i]? = some (some (hd, k, left+1)) ∧
      s' = { s with workers := s.workers.set i (some (hd, k+1, left)), log := s.log ++ [.write hd k] } := by
  simp only [step] at h
  split at h
  · next hd k left hw => exact ⟨hd, k, left, hw, by simpa using h.symm⟩
  · simp at h

theorem step_finish {s s' : St} {i : Nat} (h : step s (.finish i) = some s') :
    ∃ hd k, s.workers[i]? = some (some (hd, k, 0)) ∧
      s' = { s with workers := s.workers.set i none,
                    log := s.log ++ [.finalise hd] ++ (if s.fsyncOn then [.fsync hd] else []) ++ [.closed hd] } := by
  simp only [step] at h
  split at h
  · next hd k hw => exact ⟨hd, k, hw, by simpa using h.symm⟩
  · simp at h

/-! ## termination and progress -/

/-- steps still to be taken: a queued file of `b` data calls needs 1 take + b writes + 1 finish -/
def measure (s : St) : Nat :=
  (s.queue.map fun b => b + 2).sum
  + (s.workers.map fun w => match w with | some (_, _, left) => left + 1 | none => 0).sum

theorem step_measure (s s' : St) (l : Label) (h : step s l = some s') : measure s' + 1 = measure s := by
  cases l with
  | take i =>
    obtain ⟨b, q, hw, hq, rfl⟩ := step_take h
    have := Xcp.Pool.sum_map_set (fun w : Option (Hid × Nat × Nat) => match w with | some (_, _, left) => left + 1 | none => 0)
      (some (s.next, 0, b)) _ _ _ hw
    simp only [measure, hq, List.map_cons, List.sum_cons]; simp only [] at this; omega
  | write i =>
    obtain ⟨hd, k, left, hw, rfl⟩ := step_write h
    have := Xcp.Pool.sum_map_set (fun w : Option (Hid × Nat × Nat) => match w with | some (_, _, left) => left + 1 | none => 0)
      (some (hd, k+1, left)) _ _ _ hw
    simp only [measure]; simp only [] at this; omega
  | finish i =>
    obtain ⟨hd, k, hw, rfl⟩ := step_finish h
    have := Xcp.Pool.sum_map_set (fun w : Option (Hid × Nat × Nat) => match w with | some (_, _, left) => left + 1 | none => 0)
      none _ _ _ hw
    simp only [measure]; simp only [] at this; omega

/-- every schedule terminates, after exactly `measure init` steps -/
theorem run_measure (s s' : St) (ls : List Label) (h : run s ls = some s') : measure s' + ls.length = measure s := by
  induction ls generalizing s with
  | nil => simp [run] at h; subst h; simp
  | cons l ls ih =>
    simp only [run] at h
    split at h
    · next s1 hs =>
      have := ih s1 h; have := step_measure _ _ _ hs
      simp; omega
    · simp at h

theorem mem_candidates (s : St) (l : Label) (i : Nat) (hi : i < s.workers.length)
    (hl : l = .take i ∨ l = .write i ∨ l = .finish i) : l ∈ candidates s := by
  simp only [candidates, List.mem_flatMap, List.mem_range]
  exact ⟨i, hi, by rcases hl with rfl | rfl | rfl <;> simp⟩

/-- no deadlock: in a non-final state some label is enabled (a busy worker can always move; if all are idle the
queue is not empty and any worker can take) -/
theorem no_deadlock (s : St) (hw : 0 < s.workers.length) (hf : final s = false) : enabled s ≠ [] := by
  suffices ∃ l, l ∈ candidates s ∧ (step s l).isSome by
    obtain ⟨l, hl, hs⟩ := this
    intro he
    have : l ∈ enabled s := by simp [enabled, hl, hs]
    simp [he] at this
  by_cases hall : s.workers.all (·.isNone) = true
  · cases hq : s.queue with
    | nil => simp [final, hq, hall] at hf
    | cons b q =>
      refine ⟨.take 0, mem_candidates s _ 0 hw (.inl rfl), ?_⟩
      have h0 : s.workers[0]? = some none := by
        rw [List.all_eq_true] at hall
        have hm : s.workers[0] ∈ s.workers := List.getElem_mem hw
        have := hall _ hm
        rw [List.getElem?_eq_getElem hw]
        cases hx : s.workers[0] with
        | none => rfl
        | some v => rw [hx] at this; simp at this
      simp [step, h0, hq]
  · have : ∃ w ∈ s.workers, w.isNone = false := by
      rw [Bool.not_eq_true, List.all_eq_false] at hall
      obtain ⟨w, hm, hw⟩ := hall; exact ⟨w, hm, by cases w <;> simp_all⟩
    obtain ⟨w, hm, hwn⟩ := this
    obtain ⟨i, hi, rfl⟩ := List.getElem_of_mem hm
    have hi? : s.workers[i]? = some s.workers[i] := List.getElem?_eq_getElem hi
    cases hx : s.workers[i] with
    | none => rw [hx] at hwn; simp at hwn
    | some v =>
      obtain ⟨hd, k, left⟩ := v
      rw [hx] at hi?
      cases left with
      | zero => exact ⟨.finish i, mem_candidates s _ i hi (.inr (.inr rfl)), by simp [step, hi?]⟩
      | succ n => exact ⟨.write i, mem_candidates s _ i hi (.inr (.inl rfl)), by simp [step, hi?]⟩

/-! ## induction over reachable states -/

theorem run_ind (P : St → Prop) (hs : ∀ s l s', P s → step s l = some s' → P s') :
    ∀ (ls : List Label) (s0 s : St), P s0 → run s0 ls = some s → P s
  | [], s0, s, h0, h => by simp [run] at h; subst h; exact h0
  | l :: ls, s0, s, h0, h => by
    simp only [run] at h
    split at h
    · next s1 h1 => exact run_ind P hs ls s1 s (hs _ _ _ h0 h1) h
    · simp at h

theorem reach_ind {files : List Nat} {n : Nat} {fs : Bool} (P : St → Prop)
    (h0 : P (init files n fs)) (hs : ∀ s l s', P s → step s l = some s' → P s')
    {s : St} (h : Reachable files n fs s) : P s := by
  obtain ⟨ls, hl⟩ := h
  exact run_ind P hs ls _ _ h0 hl

/-- the number of workers and the option never change -/
theorem params_reachable {files : List Nat} {n : Nat} {fs : Bool} {s : St} (h : Reachable files n fs s) :
    s.workers.length = n ∧ s.fsyncOn = fs := by
  refine reach_ind (fun s => s.workers.length = n ∧ s.fsyncOn = fs) (by simp [init]) ?_ h
  intro s l s' inv hs
  cases l with
  | take i => obtain ⟨b, q, hw, hq, rfl⟩ := step_take hs; simpa using inv
  | write i => obtain ⟨hd, k, left, hw, rfl⟩ := step_write hs; simpa using inv
  | finish i => obtain ⟨hd, k, hw, rfl⟩ := step_finish hs; simpa using inv

/-! ## C20 -/

/-- C20: the number of open handles never exceeds the number of workers — independent of the number of files -/
theorem open_bound (files : List Nat) (n : Nat) (fs : Bool) (s : St) (h : Reachable files n fs s) :
    openCount s ≤ n := by
  have hl := (params_reachable h).1
  have : s.workers.countP (·.isSome) ≤ s.workers.length := List.countP_le_length
  unfold openCount; omega

/-! ## who holds a handle -/

def holds (h : Hid) (w : Option (Hid × Nat × Nat)) : Bool :=
  match w with
  | some (h', _, _) => h' = h
  | none => false

/-- number of workers holding handle `h` -/
def occ (s : St) (h : Hid) : Nat := s.workers.countP (holds h)

theorem occ_set_take (l : List (Option (Hid × Nat × Nat))) (i : Nat) (h : Hid) (k left : Nat) (x : Hid)
    (hw : l[i]? = some none) :
    (l.set i (some (h, k, left))).countP (holds x) = l.countP (holds x) + (if x = h then 1 else 0) := by
  have := Xcp.Pool.countP_set' (holds x) (some (h, k, left)) _ _ _ hw
  by_cases e : x = h
  · subst e; simp [holds] at this; simp only [↓reduceIte]; omega
  · have e' : ¬ h = x := fun h => e h.symm
    simp [holds, e'] at this; simp only [e, ↓reduceIte]; omega

theorem occ_set_write (l : List (Option (Hid × Nat × Nat))) (i : Nat) (h : Hid) (k left k' left' : Nat) (x : Hid)
    (hw : l[i]? = some (some (h, k, left))) :
    (l.set i (some (h, k', left'))).countP (holds x) = l.countP (holds x) := by
  have := Xcp.Pool.countP_set' (holds x) (some (h, k', left')) _ _ _ hw
  by_cases e : h = x
  · subst e; simp [holds] at this; omega
  · simp [holds, e] at this; omega

theorem occ_set_finish (l : List (Option (Hid × Nat × Nat))) (i : Nat) (h : Hid) (k left : Nat) (x : Hid)
    (hw : l[i]? = some (some (h, k, left))) :
    (l.set i none).countP (holds x) + (if x = h then 1 else 0) = l.countP (holds x) := by
  have := Xcp.Pool.countP_set' (holds x) none _ _ _ hw
  by_cases e : x = h
  · subst e; simp [holds] at this; simp only [↓reduceIte]; omega
  · have e' : ¬ h = x := fun h => e h.symm
    simp [holds, e'] at this; simp only [e, ↓reduceIte]; omega

structure HInv (s : St) : Prop where
  uniq  : ∀ h, occ s h ≤ 1
  fresh : ∀ h, s.next ≤ h → occ s h = 0
  dead  : ∀ h, (.finalise h ∈ s.log ∨ .fsync h ∈ s.log) → occ s h = 0 ∧ h < s.next
  wbf   : writesBeforeFinalise s.log = true

theorem hinv_init (files : List Nat) (n : Nat) (fs : Bool) : HInv (init files n fs) := by
  have : ∀ h, (List.replicate n (none : Option (Hid × Nat × Nat))).countP (holds h) = 0 := by
    intro h; rw [List.countP_eq_zero]; intro a ha; rw [List.mem_replicate] at ha; simp [ha.2, holds]
  constructor <;> simp [init, occ, this, writesBeforeFinalise]

theorem worker_occ_pos {s : St} {i : Nat} {hd : Hid} {k left : Nat} (hw : s.workers[i]? = some (some (hd, k, left))) :
    0 < occ s hd :=
  List.countP_pos_iff.mpr ⟨_, List.mem_of_getElem? hw, by simp [holds]⟩

theorem hinv_step {s s' : St} (l : Label) (inv : HInv s) (h : step s l = some s') : HInv s' := by
  cases l with
  | take i =>
    obtain ⟨b, q, hw, hq, rfl⟩ := step_take h
    have hocc := fun x => occ_set_take s.workers i s.next 0 b x hw
    have h0 := inv.fresh s.next (Nat.le_refl _)
    refine ⟨?_, ?_, ?_, ?_⟩
    · intro x
      have := hocc x; have := inv.uniq x
      simp only [occ] at *
      by_cases e : x = s.next
      · subst e; simp only [↓reduceIte] at *; omega
      · simp only [e, ↓reduceIte] at *; omega
    · intro x hx
      have hx' : s.next + 1 ≤ x := hx
      have := hocc x; have := inv.fresh x (by homega)
      have e : x ≠ s.next := by homega
      simp only [occ, e, ↓reduceIte] at *; omega
    · intro x hm
      have hd := inv.dead x (by simpa using hm)
      have := hocc x
      have e : x ≠ s.next := by homega
      simp only [occ, e, ↓reduceIte] at *
      exact ⟨by omega, by homega⟩
    · show writesBeforeFinalise (s.log ++ [Event.opened s.next]) = true
      rw [Xcp.Pool.wbf_snoc_nw _ _ (by simp)]; exact inv.wbf
  | write i =>
    obtain ⟨hd, k, left, hw, rfl⟩ := step_write h
    have hocc := fun x => occ_set_write s.workers i hd k (left+1) (k+1) left x hw
    have hp := worker_occ_pos hw
    refine ⟨?_, ?_, ?_, ?_⟩
    · intro x; have := hocc x; have := inv.uniq x; simp only [occ] at *; omega
    · intro x hx; have := hocc x; have := inv.fresh x hx; simp only [occ] at *; omega
    · intro x hm
      have := hocc x; have := inv.dead x (by simpa using hm)
      simp only [occ] at *; exact ⟨by omega, this.2⟩
    · show writesBeforeFinalise (s.log ++ [Event.write hd k]) = true
      rw [Xcp.Pool.wbf_snoc]
      refine ⟨inv.wbf, ?_⟩
      intro x b e
      injection e with e1 e2
      subst e1
      constructor
      · intro hm; have := (inv.dead _ (.inl hm)).1; omega
      · intro hm; have := (inv.dead _ (.inr hm)).1; omega
  | finish i =>
    obtain ⟨hd, k, hw, rfl⟩ := step_finish h
    have hocc := fun x => occ_set_finish s.workers i hd k 0 x hw
    have hp := worker_occ_pos hw
    have hlt : hd < s.next := by
      apply Nat.lt_of_not_le; intro hle
      have := inv.fresh hd hle; omega
    refine ⟨?_, ?_, ?_, ?_⟩
    · intro x; have := hocc x; have := inv.uniq x; simp only [occ] at *; omega
    · intro x hx; have := hocc x; have := inv.fresh x hx; simp only [occ] at *; omega
    · intro x hm
      have h1 := hocc x
      by_cases e : x = hd
      · subst e
        have := inv.uniq x
        simp only [occ, ↓reduceIte] at *
        exact ⟨by omega, hlt⟩
      · have hm' : .finalise x ∈ s.log ∨ .fsync x ∈ s.log := by
          have e' : ¬ hd = x := fun h => e h.symm
          simp only [] at hm
          split at hm <;> simpa [e, e'] using hm
        have := inv.dead x hm'
        simp only [occ, e, ↓reduceIte] at *
        exact ⟨by omega, this.2⟩
    · simp only []
      split
      · rw [Xcp.Pool.wbf_snoc_nw _ _ (by simp), Xcp.Pool.wbf_snoc_nw _ _ (by simp),
          Xcp.Pool.wbf_snoc_nw _ _ (by simp)]
        exact inv.wbf
      · rw [List.append_nil, Xcp.Pool.wbf_snoc_nw _ _ (by simp), Xcp.Pool.wbf_snoc_nw _ _ (by simp)]
        exact inv.wbf

theorem hinv_reachable {files : List Nat} {n : Nat} {fs : Bool} {s : St} (h : Reachable files n fs s) : HInv s :=
  reach_ind HInv (hinv_init files n fs) (fun _ l _ inv hs => hinv_step l inv hs) h

/-- C18/C10/C06: in every reachable log no write of a handle follows its finalisation or its fsync -/
theorem writes_before_finalise (files : List Nat) (n : Nat) (fs : Bool) (s : St)
    (h : Reachable files n fs s) : writesBeforeFinalise s.log = true :=
  (hinv_reachable h).wbf

/-! ## fsync before close -/

/-- with fsync requested, every `closed h` in a reachable log is immediately preceded by `fsync h`, itself
preceded by `finalise h` -/
theorem fsync_before_close (files : List Nat) (n : Nat) (s : St)
    (h : Reachable files n true s) (hd : Hid) (pre post : List Event)
    (hl : s.log = pre ++ .closed hd :: post) :
    ∃ pre', pre = pre' ++ [.finalise hd, .fsync hd] := by
  have inv : s.fsyncOn = true ∧ ClosedOk s.log := by
    refine reach_ind (fun s => s.fsyncOn = true ∧ ClosedOk s.log)
      ⟨rfl, by intro hd pre post heq; simp [init] at heq⟩ ?_ h
    intro s l s' inv hs
    cases l with
    | take i =>
      obtain ⟨b, q, hw, hq, rfl⟩ := step_take hs
      exact ⟨inv.1, Xcp.Pool.closedOk_snoc inv.2 (by simp)⟩
    | write i =>
      obtain ⟨x, k, left, hw, rfl⟩ := step_write hs
      exact ⟨inv.1, Xcp.Pool.closedOk_snoc inv.2 (by simp)⟩
    | finish i =>
      obtain ⟨x, k, hw, rfl⟩ := step_finish hs
      refine ⟨inv.1, ?_⟩
      have := Xcp.Pool.closedOk_close inv.2 x
      simpa [inv.1] using this
  exact inv.2 hd pre post hl

/-! ## completeness: every file taken from the queue gets closed -/

structure PInv (files0 : List Nat) (s : St) : Prop where
  queue_eq  : s.queue = files0.drop s.next
  next_le   : s.next ≤ files0.length
  closed_or : ∀ h, h < s.next → 0 < occ s h ∨ .closed h ∈ s.log

theorem pinv_step {files0 : List Nat} {s s' : St} (l : Label) (inv : PInv files0 s) (h : step s l = some s') :
    PInv files0 s' := by
  cases l with
  | take i =>
    obtain ⟨b, q, hw, hq, rfl⟩ := step_take h
    have hd : files0.drop s.next = b :: q := by rw [← inv.queue_eq, hq]
    have hlt : s.next < files0.length := by
      apply Nat.lt_of_not_le; intro hle
      rw [List.drop_eq_nil_of_le hle] at hd; simp at hd
    have hq' : q = files0.drop (s.next + 1) := by
      have := congrArg List.tail hd
      simpa [List.tail_drop] using this.symm
    refine ⟨hq', hlt, ?_⟩
    intro x hx
    have hx' : x < s.next + 1 := hx
    have hc := occ_set_take s.workers i s.next 0 b x hw
    by_cases e : x = s.next
    · left; simp only [occ, e, ↓reduceIte] at *; omega
    · rcases inv.closed_or x (by homega) with h1 | h1
      · left; simp only [occ, e, ↓reduceIte] at *; omega
      · exact .inr (List.mem_append_left _ h1)
  | write i =>
    obtain ⟨hd, k, left, hw, rfl⟩ := step_write h
    refine ⟨inv.queue_eq, inv.next_le, ?_⟩
    intro x hx
    have hc := occ_set_write s.workers i hd k (left+1) (k+1) left x hw
    rcases inv.closed_or x hx with h1 | h1
    · left; simp only [occ] at *; omega
    · exact .inr (List.mem_append_left _ h1)
  | finish i =>
    obtain ⟨hd, k, hw, rfl⟩ := step_finish h
    refine ⟨inv.queue_eq, inv.next_le, ?_⟩
    intro x hx
    have hc := occ_set_finish s.workers i hd k 0 x hw
    by_cases e : x = hd
    · right; subst e; simp
    · rcases inv.closed_or x hx with h1 | h1
      · left; simp only [occ, e, ↓reduceIte] at *; omega
      · right; simp only [List.append_assoc]; exact List.mem_append_left _ h1

/-- completeness: in a final reachable state every file given was taken from the queue and its handle closed -/
theorem final_all_closed (files : List Nat) (n : Nat) (fs : Bool) (s : St)
    (h : Reachable files n fs s) (hf : final s = true) :
    s.next = files.length ∧ ∀ hd, hd < files.length → .closed hd ∈ s.log := by
  have inv : PInv files s := reach_ind (PInv files)
    ⟨by simp [init], by simp [init], by intro h hl; simp [init] at hl⟩ (fun _ l _ inv hs => pinv_step l inv hs) h
  simp only [final, Bool.and_eq_true, List.isEmpty_iff, List.all_eq_true] at hf
  obtain ⟨hq, hall⟩ := hf
  have hnext : s.next = files.length := by
    have h1 := inv.queue_eq
    rw [hq] at h1
    have := List.drop_eq_nil_iff.mp h1.symm
    have := inv.next_le
    homega
  refine ⟨hnext, ?_⟩
  intro hd hlt
  rcases inv.closed_or hd (by rw [hnext]; exact hlt) with h1 | h1
  · exfalso
    obtain ⟨w, hm, hh⟩ := List.countP_pos_iff.mp h1
    have := hall w hm
    cases w with
    | none => simp [holds] at hh
    | some v => simp at this
  · exact h1

end Xcp.Parfile

/-! ## helper lemmas for C18 about the trace monitor and the `Pool` model -/
namespace Xcp.Pool

/-- the monitor, read at an `fsync h` anywhere in the log: no write of `h` follows it -/
theorem wbf_no_write_after_fsync (a b : List Event) (h : Hid)
    (hw : writesBeforeFinalise (a ++ .fsync h :: b) = true) : ∀ blk, .write h blk ∉ b := by
  induction a with
  | nil => exact ((wbf_fsync_cons h b).mp hw).1
  | cons x a ih =>
    apply ih
    cases x with
    | finalise h' => exact ((wbf_fin_cons h' _).mp hw).2
    | fsync h' => exact ((wbf_fsync_cons h' _).mp hw).2
    | opened h' => simpa [writesBeforeFinalise] using hw
    | write h' b' => simpa [writesBeforeFinalise] using hw
    | copied h' b' => simpa [writesBeforeFinalise] using hw
    | closed h' => simpa [writesBeforeFinalise] using hw

/-- … and the same at a `finalise h` -/
theorem wbf_no_write_after_finalise (a b : List Event) (h : Hid)
    (hw : writesBeforeFinalise (a ++ .finalise h :: b) = true) : ∀ blk, .write h blk ∉ b := by
  induction a with
  | nil => exact ((wbf_fin_cons h b).mp hw).1
  | cons x a ih =>
    apply ih
    cases x with
    | finalise h' => exact ((wbf_fin_cons h' _).mp hw).2
    | fsync h' => exact ((wbf_fsync_cons h' _).mp hw).2
    | opened h' => simpa [writesBeforeFinalise] using hw
    | write h' b' => simpa [writesBeforeFinalise] using hw
    | copied h' b' => simpa [writesBeforeFinalise] using hw
    | closed h' => simpa [writesBeforeFinalise] using hw

/-- a log that satisfies the monitor and in which every `closed` is immediately preceded by `finalise, fsync`:
for a closed handle the log splits at its fsync, every write of the handle before it and none after -/
theorem fsync_after_writes_of_closed (l : List Event) (hd : Hid) (hw : writesBeforeFinalise l = true)
    (hc : ClosedOk l) (hm : .closed hd ∈ l) :
    ∃ pre post, l = pre ++ .fsync hd :: post ∧ (∀ blk, .write hd blk ∈ l → .write hd blk ∈ pre) ∧
      (∀ blk, .write hd blk ∉ post) := by
  obtain ⟨p, q, rfl⟩ := List.append_of_mem hm
  obtain ⟨p', rfl⟩ := hc hd p q rfl
  have heq : p' ++ [.finalise hd, .fsync hd] ++ .closed hd :: q = (p' ++ [.finalise hd]) ++ .fsync hd :: (.closed hd :: q) := by
    simp
  rw [heq] at hw ⊢
  have hno := wbf_no_write_after_fsync _ _ _ hw
  refine ⟨p' ++ [.finalise hd], .closed hd :: q, rfl, ?_, hno⟩
  intro blk hmem
  rw [List.mem_append, List.mem_cons] at hmem
  rcases hmem with h1 | h1 | h1
  · exact h1
  · cases h1
  · exact absurd h1 (hno blk)

/-- without the option no fsync event is ever logged -/
theorem no_fsync_event (files : List Nat) (cap workers : Nat) (s : St)
    (h : Reachable files cap workers false s) : ∀ hd, .fsync hd ∉ s.log := by
  have inv : s.fsyncOn = false ∧ ∀ hd, .fsync hd ∉ s.log := by
    refine reach_ind (fun s => s.fsyncOn = false ∧ ∀ hd, .fsync hd ∉ s.log) (by simp [init]) ?_ h
    have hrel : ∀ (s t : St) (x : Hid), (s.fsyncOn = false ∧ ∀ hd, .fsync hd ∉ s.log) → t.fsyncOn = s.fsyncOn →
        t.log = s.log → ((release t x).fsyncOn = false ∧ ∀ hd, .fsync hd ∉ (release t x).log) := by
      intro s t x inv hfs hlog
      refine ⟨by simpa [hfs] using inv.1, ?_⟩
      intro hd
      rw [release_log, hlog, hfs, inv.1]
      split <;> simpa using inv.2 hd
    intro s l s' inv hs
    cases l with
    | openNext => obtain ⟨b, fs', hc, hf, rfl⟩ := step_openNext hs; simpa using inv
    | push => obtain ⟨x, q, b, hc, hq, rfl⟩ := step_push hs; simpa using inv
    | dropOwn => obtain ⟨x, q, hc, rfl⟩ := step_dropOwn hs; exact hrel s _ x inv rfl rfl
    | take => obtain ⟨j, q, hq, hr, rfl⟩ := step_take hs; simpa using inv
    | stepJob i =>
      obtain ⟨j, hr, rfl⟩ | ⟨j, hr, rfl⟩ | ⟨j, hr, rfl⟩ := step_stepJob hs
      · simpa using inv
      · simpa using inv
      · exact hrel s _ j.h inv rfl rfl
  exact inv.2

/-- the parameters of a reachable state are those given to `init` -/
theorem params_reachable {files : List Nat} {cap workers : Nat} {fs : Bool} {s : St}
    (h : Reachable files cap workers fs s) : s.cap = cap ∧ s.workers = workers ∧ s.fsyncOn = fs :=
  let inv := cinv_reachable h
  ⟨inv.cap_eq, inv.workers_eq, inv.fs_eq⟩

end Xcp.Pool

/-! ## shape of the per-file program -/
namespace Xcp

/-- a call list `A ++ F` with no finalisation call in `A` and no data call in `F`: no data call follows a
finalisation call -/
theorem no_data_after_fin (A F : List FCall) (hA : ∀ x ∈ A, isFin x = false) (hF : ∀ x ∈ F, isData x = false) :
    ∀ (pre post : List FCall) (st : FStep), A ++ F = pre ++ .fin st :: post → ∀ x ∈ post, isData x = false := by
  induction A with
  | nil =>
    intro pre post st heq x hx
    apply hF
    rw [List.nil_append] at heq; rw [heq]; simp [hx]
  | cons a A ih =>
    intro pre post st heq x hx
    cases pre with
    | nil =>
      simp only [List.cons_append, List.nil_append, List.cons.injEq] at heq
      have := hA a (by simp)
      rw [heq.1] at this; simp [isFin] at this
    | cons p pre =>
      simp only [List.cons_append, List.cons.injEq] at heq
      exact ih (fun y hy => hA y (by simp [hy])) pre post st heq.2 x hx

/-- the per-file program is `pre ++ data × nd' ++ finalisation` with no finalisation call in `pre` -/
theorem fileProgram_shape (c : Cfg) (len : Nat) (ans : CloneAns) (nd : Nat) (ok : Bool) :
    ∃ pre nd', (fileProgram c len ans nd ok).1 = (pre ++ List.replicate nd' FCall.data) ++ (finaliseSteps c).map FCall.fin ∧
      ∀ x ∈ pre ++ List.replicate nd' FCall.data, isFin x = false := by
  have hpre : ∀ (b : Bool) (o : Bool) (nd' : Nat), ∀ x ∈ ([FCall.create, .truncate len] ++ (if b then [FCall.clone o] else []))
      ++ List.replicate nd' FCall.data, isFin x = false := by
    intro b o nd' x hx
    simp only [List.mem_append, List.mem_cons, List.mem_replicate, List.not_mem_nil, or_false] at hx
    rcases hx with ((rfl | rfl) | hx) | ⟨_, rfl⟩
    · rfl
    · rfl
    · cases b
      · simp at hx
      · simp at hx; subst hx; rfl
    · rfl
  unfold fileProgram
  generalize tryReflink c.reflink c.linux ans = r
  obtain ⟨b, out⟩ := r
  refine ⟨[FCall.create, .truncate len] ++ (if b then [FCall.clone (decide (out = .cloned))] else []),
    (match out with | .copy => nd | _ => 0), ?_, hpre b _ _⟩
  cases out <;> simp

theorem finaliseSteps_fsync_last (c : Cfg) (h : c.fsync = true) :
    ∃ l, finaliseSteps c = l ++ [.fsync] := by
  unfold finaliseSteps
  rw [h]
  exact ⟨_, rfl⟩

end Xcp
