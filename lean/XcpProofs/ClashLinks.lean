import XcpProofs.Clash
import XcpProofs.ClashConc
import XcpProofs.AnyRunFrame
import XcpProofs.ClashLinksLemmas
/-! # Clash and frame theorems for destinations that contain symbolic links and special files

`clash_fails`, `ok_implies_overlaid`, `clash_fails_every_interleaving` (Clash, ClashConc) and
`any_run_changes_only_the_target` (AnyRunFrame) ask the destination to be `plainTree`: directories and regular files
only, at every depth.  Destinations populated by an earlier copy contain symbolic links.  Here the hypothesis is
relaxed to `Node.plainWhereMapped dst src` (ClashLinksLemmas): at every position the SOURCE tree maps onto —
recursively through directory-over-directory pairs — the destination entry, if any, is a directory or a regular
file; under names the source does not list the destination may hold anything (links, special files, whole subtrees
with links).  `plainTree` implies it (`plainWhereMapped_of_plainTree`), so the earlier theorems are special cases.

The relaxation cannot go further at mapped positions: a destination SYMBOLIC LINK under a source regular file is
written THROUGH (`File::create` follows it: finding F13) and the run succeeds although the pair is not `Compatible`;
a destination SPECIAL FILE under a source regular file is not `Compatible` either, yet in the model the open succeeds,
so the run does not fail.  (A special file under a source special file is `Compatible`; allowing exactly that case
would be possible but is not done here.)

The sequential statement is obtained from the concurrent one: a sequential execution that exits ok is a complete
unfailed run of the concurrent model (`execOps_ok_run`). -/
namespace Xcp

open L0

theorem plainWhereMapped_of_plainTree (dst src : Node) (h : dst.plainTree = true) :
    dst.plainWhereMapped src = true :=
  mappedPlain_of_plainBelow src dst (fun q y hq => plainTree_getAt q dst y h hq)

/-- the optional-destination form of the hypothesis, as `Node.mappedPlain` -/
theorem mappedPlain_of_forall {o : Option Node} {src : Node}
    (h : ∀ d, o = some d → d.plainWhereMapped src = true) : Node.mappedPlain o src = true := by
  cases o with
  | none => exact mappedPlain_none _
  | some d => exact h d rfl

/-- every complete run of the concurrent model over a clashing copy has failed — the destination plain only where the
source maps onto it -/
theorem clash_fails_every_interleaving_mapped (fs : Fs) (c : Cfg) (hd : c.dereference = false)
    (hn : c.noClobber = false)
    (src tb : RPath) (srcNode dstNode : Node) (fuel : Nat)
    (hwf : FsEq fs fs) (hroot : fs.root.isDir = true)
    (hsrc : PlainTarget fs src) (hsn : fs.root.getAt src.names = some srcNode)
    (hcop : srcNode.Copyable fuel)
    (htb : PlainTarget fs tb) (hne : tb.names ≠ [])
    (hdst : fs.root.getAt tb.names = some dstNode) (hplain : dstNode.plainWhereMapped srcNode = true)
    (hclash : ¬ Compatible (some dstNode) srcNode)
    (hpar : ∃ es, fs.root.getAt tb.names.dropLast = some (.dir es))
    (hun1 : ¬ src.names <+: tb.names) (hun2 : ¬ tb.names <+: src.names)
    (hlen : src.names.length + fuel < 200 ∧ tb.names.length + fuel < 200)
    (ls : List Label) (s : St)
    (hrun : run c (init fs (walkEntry fs c none src tb (fuel + 1) [] [])) ls = some s)
    (hfin : final s = true) : s.failed = true := by
  have _ := hroot
  have _ := hpar
  have hsrcE := plainTarget_eq fs src hsrc
  have htbE := plainTarget_eq fs tb htb
  have hnl : srcNode.isLink = false := by
    cases srcNode with
    | link t => exact absurd hsn (hsrc.2.2.2 src.names (List.prefix_refl _) t)
    | _ => rfl
  have hshape : walkEntry fs c none (plainPath src.names) (plainPath tb.names) (fuel + 1) [] [] =
      opsOf srcNode (src.names ++ []) (tb.names ++ []) := by
    have h1 : fs.root.getAt (src.names ++ []) = some srcNode := by simpa using hsn
    have h2 : srcNode.isLink = true → ([] : List Name) ≠ [] := fun h => by rw [hnl] at h; cases h
    have h3 : src.names.length + ([] : List Name).length + fuel < 256 := by
      simp only [List.length_nil]; omega
    exact walk_shape fs c hd src.names tb.names (.inl hn) fuel srcNode hcop [] [] h1 h2 h3
  rw [← hsrcE, ← htbE] at hshape
  simp only [List.append_nil] at hshape
  rw [hshape] at hrun
  have hspec : OpsSpec srcNode src.names tb.names fuel (opsOf srcNode src.names tb.names) :=
    ⟨mem_opsOf fuel srcNode hcop _ _, hun1, hun2, hne, by omega, by omega⟩
  have hwd : dstNode.WF := by
    intro q es hq
    apply hwf.2.1 (tb.names ++ q) es
    rw [Node.getAt_append, hdst]
    exact hq
  obtain ⟨rel0, m0, y, hl0, hg0, hy, hdc⟩ := clash_position_mapped fuel srcNode hcop dstNode hwd hplain hclash
  have hinit : CInv (opsOf srcNode src.names tb.names) (headOp m0 (src.names ++ rel0) (tb.names ++ rel0))
      (tb.names ++ rel0) y.obs (init fs (opsOf srcNode src.names tb.names)) := by
    refine ⟨hwf, plains_init_mapped hspec fs hsn htb.2.2.2 (by rw [hdst]; exact hplain), ?_, ?_, .inr ?_⟩
    · show obsAt fs.root (tb.names ++ rel0) = some y.obs
      simp [obsAt, Node.getAt_append, hdst, hy]
    · intro x hx
      simpa [init] using hx
    · show headOp m0 (src.names ++ rel0) (tb.names ++ rel0) ∈ [] ++ opsOf srcNode src.names tb.names
      rw [List.nil_append]
      exact headOp_mem_opsOf rel0 srcNode m0 src.names tb.names hg0
  exact (CInv.run hspec c hg0 hl0 hdc ls _ s hinit hrun).failed_of_final hfin

/-- a destination, plain where the source maps onto it, that is not compatible with the source makes the run fail -/
theorem clash_fails_mapped (fs : Fs) (c : Cfg) (hd : c.dereference = false) (hn : c.noClobber = false)
    (src tb : RPath) (srcNode dstNode : Node) (fuel : Nat)
    (hwf : FsEq fs fs) (hroot : fs.root.isDir = true)
    (hsrc : PlainTarget fs src) (hsn : fs.root.getAt src.names = some srcNode)
    (hcop : srcNode.Copyable fuel)
    (htb : PlainTarget fs tb) (hne : tb.names ≠ [])
    (hdst : fs.root.getAt tb.names = some dstNode) (hplain : dstNode.plainWhereMapped srcNode = true)
    (hclash : ¬ Compatible (some dstNode) srcNode)
    (hpar : ∃ es, fs.root.getAt tb.names.dropLast = some (.dir es))
    (hun1 : ¬ src.names <+: tb.names) (hun2 : ¬ tb.names <+: src.names)
    (hlen : src.names.length + fuel < 200 ∧ tb.names.length + fuel < 200) :
    (execOps fs c (walkEntry fs c none src tb (fuel + 1) [] [])).exit = .err := by
  cases he : (execOps fs c (walkEntry fs c none src tb (fuel + 1) [] [])).exit with
  | err => rfl
  | ok =>
    exfalso
    have hok : execOps fs c (walkEntry fs c none src tb (fuel + 1) [] []) =
        ⟨.ok, (execOps fs c (walkEntry fs c none src tb (fuel + 1) [] [])).fs⟩ := by
      cases ho : execOps fs c (walkEntry fs c none src tb (fuel + 1) [] []) with
      | mk ex f => rw [ho] at he; simp only at he; subst he; rfl
    obtain ⟨ls, hls⟩ := execOps_ok_run c _ fs _ hok
    have := clash_fails_every_interleaving_mapped fs c hd hn src tb srcNode dstNode fuel hwf hroot hsrc hsn hcop htb
      hne hdst hplain hclash hpar hun1 hun2 hlen ls _ hls rfl
    cases this

/-- exit status ok IMPLIES that the final file system is the initial one with the overlay at the target, for every
destination that is plain where the source maps onto it — no compatibility assumed -/
theorem ok_implies_overlaid_mapped (fs : Fs) (c : Cfg) (hd : c.dereference = false) (hn : c.noClobber = false)
    (src tb : RPath) (srcNode : Node) (fuel : Nat)
    (hwf : FsEq fs fs) (hroot : fs.root.isDir = true)
    (hsrc : PlainTarget fs src) (hsn : fs.root.getAt src.names = some srcNode)
    (hcop : srcNode.Copyable fuel)
    (htb : PlainTarget fs tb) (hne : tb.names ≠ [])
    (hplain : ∀ d, fs.root.getAt tb.names = some d → d.plainWhereMapped srcNode = true)
    (hpar : ∃ es, fs.root.getAt tb.names.dropLast = some (.dir es))
    (hun1 : ¬ src.names <+: tb.names) (hun2 : ¬ tb.names <+: src.names)
    (hlen : src.names.length + fuel < 200 ∧ tb.names.length + fuel < 200)
    (fs' : Fs) (hok : execOps fs c (walkEntry fs c none src tb (fuel + 1) [] []) = ⟨.ok, fs'⟩) :
    FsEq fs' { fs with root := fs.root.setAt tb.names (Node.overlay (fs.root.getAt tb.names) srcNode) } := by
  rcases Decidable.em (Compatible (fs.root.getAt tb.names) srcNode) with hcompat | hclash
  · obtain ⟨fs'', hrun, heq⟩ := mirror_overlay fs c hd hn src tb srcNode fuel hwf hroot hsrc hsn hcop htb hne
      hcompat hpar hun1 hun2 hlen
    rw [hok] at hrun
    injection hrun with _ hfs
    rw [hfs]
    exact heq
  · cases hdst : fs.root.getAt tb.names with
    | none => rw [hdst] at hclash; exact absurd (compatible_none srcNode) hclash
    | some dstNode =>
      rw [hdst] at hclash
      have hf := clash_fails_mapped fs c hd hn src tb srcNode dstNode fuel hwf hroot hsrc hsn hcop htb hne hdst
        (hplain dstNode hdst) hclash hpar hun1 hun2 hlen
      rw [hok] at hf
      cases hf

/-! ## The frame, for every reachable state -/

theorem single_frame_setup_mapped (fs : Fs) (c : Cfg) (hd : c.dereference = false) (hn : c.noClobber = false)
    (src tb : RPath) (srcNode : Node) (fuel : Nat)
    (hwf : FsEq fs fs) (hroot : fs.root.isDir = true)
    (hsrc : PlainTarget fs src) (hsn : fs.root.getAt src.names = some srcNode)
    (hcop : srcNode.Copyable fuel)
    (htb : PlainTarget fs tb) (hne : tb.names ≠ [])
    (hplain : ∀ d, fs.root.getAt tb.names = some d → d.plainWhereMapped srcNode = true)
    (hpar : ∃ es, fs.root.getAt tb.names.dropLast = some (.dir es))
    (hun1 : ¬ src.names <+: tb.names) (hun2 : ¬ tb.names <+: src.names)
    (hlen : src.names.length + fuel < 200 ∧ tb.names.length + fuel < 200) :
    walkEntry fs c none src tb (fuel + 1) [] [] = opsOf srcNode src.names tb.names ∧
    FrameSpec fs (opsOf srcNode src.names tb.names) (fun q => ¬ tb.names <+: q) ∧
    FsInv fs (opsOf srcNode src.names tb.names) (fun q => ¬ tb.names <+: q) fs := by
  have hsrcE := plainTarget_eq fs src hsrc
  have htbE := plainTarget_eq fs tb htb
  have hnl : srcNode.isLink = false := by
    cases srcNode with
    | link t => exact absurd hsn (hsrc.2.2.2 src.names (List.prefix_refl _) t)
    | _ => rfl
  have hshape : walkEntry fs c none (plainPath src.names) (plainPath tb.names) (fuel + 1) [] [] =
      opsOf srcNode (src.names ++ []) (tb.names ++ []) := by
    have h1 : fs.root.getAt (src.names ++ []) = some srcNode := by simpa using hsn
    have h2 : srcNode.isLink = true → ([] : List Name) ≠ [] := fun h => by rw [hnl] at h; cases h
    have h3 : src.names.length + ([] : List Name).length + fuel < 256 := by
      simp only [List.length_nil]; omega
    exact walk_shape fs c hd src.names tb.names (.inl hn) fuel srcNode hcop [] [] h1 h2 h3
  rw [← hsrcE, ← htbE] at hshape
  simp only [List.append_nil] at hshape
  have hspec : OpsSpec srcNode src.names tb.names fuel (opsOf srcNode src.names tb.names) :=
    ⟨mem_opsOf fuel srcNode hcop _ _, hun1, hun2, hne, by omega, by omega⟩
  have hpl : ∀ x ∈ opsOf srcNode src.names tb.names, Plains fs x :=
    plains_init_mapped hspec fs hsn htb.2.2.2 (mappedPlain_of_forall hplain)
  exact ⟨hshape, frameSpec_single hspec fs hroot hpar, ⟨hwf, hpl, fun _ _ => rfl⟩⟩

/-- EVERY REACHABLE STATE of every interleaving (no `final`, no `failed`, no compatibility hypothesis), the destination
plain only where the source maps onto it: whatever is not at or below the target base is observed as in the initial
file system.  (No operation target passes through a destination symbolic link: links are under unlisted names only.) -/
theorem any_run_changes_only_the_target_mapped (fs : Fs) (c : Cfg) (hd : c.dereference = false)
    (hn : c.noClobber = false)
    (src tb : RPath) (srcNode : Node) (fuel : Nat)
    (hwf : FsEq fs fs) (hroot : fs.root.isDir = true)
    (hsrc : PlainTarget fs src) (hsn : fs.root.getAt src.names = some srcNode)
    (hcop : srcNode.Copyable fuel)
    (htb : PlainTarget fs tb) (hne : tb.names ≠ [])
    (hplain : ∀ d, fs.root.getAt tb.names = some d → d.plainWhereMapped srcNode = true)
    (hpar : ∃ es, fs.root.getAt tb.names.dropLast = some (.dir es))
    (hun1 : ¬ src.names <+: tb.names) (hun2 : ¬ tb.names <+: src.names)
    (hlen : src.names.length + fuel < 200 ∧ tb.names.length + fuel < 200)
    (ls : List Label) (s : St)
    (hrun : run c (init fs (walkEntry fs c none src tb (fuel + 1) [] [])) ls = some s)
    (q : List Name) (hq : ¬ tb.names <+: q) :
    obsAt s.fs.root q = obsAt fs.root q := by
  obtain ⟨hshape, hspec, hinv⟩ := single_frame_setup_mapped fs c hd hn src tb srcNode fuel hwf hroot hsrc hsn hcop htb
    hne hplain hpar hun1 hun2 hlen
  rw [hshape] at hrun
  exact (FInv.run hspec c ls _ s (FInv.init hwf hinv.plains) hrun).fsinv.frame q hq

/-- … and the sequential execution, whatever its exit -/
theorem any_sequential_run_changes_only_the_target_mapped (fs : Fs) (c : Cfg) (hd : c.dereference = false)
    (hn : c.noClobber = false)
    (src tb : RPath) (srcNode : Node) (fuel : Nat)
    (hwf : FsEq fs fs) (hroot : fs.root.isDir = true)
    (hsrc : PlainTarget fs src) (hsn : fs.root.getAt src.names = some srcNode)
    (hcop : srcNode.Copyable fuel)
    (htb : PlainTarget fs tb) (hne : tb.names ≠ [])
    (hplain : ∀ d, fs.root.getAt tb.names = some d → d.plainWhereMapped srcNode = true)
    (hpar : ∃ es, fs.root.getAt tb.names.dropLast = some (.dir es))
    (hun1 : ¬ src.names <+: tb.names) (hun2 : ¬ tb.names <+: src.names)
    (hlen : src.names.length + fuel < 200 ∧ tb.names.length + fuel < 200)
    (q : List Name) (hq : ¬ tb.names <+: q) :
    obsAt (execOps fs c (walkEntry fs c none src tb (fuel + 1) [] [])).fs.root q = obsAt fs.root q := by
  obtain ⟨hshape, hspec, hinv⟩ := single_frame_setup_mapped fs c hd hn src tb srcNode fuel hwf hroot hsrc hsn hcop htb
    hne hplain hpar hun1 hun2 hlen
  rw [hshape]
  exact (FsInv.execOps hspec c _ (fun _ h => h) fs hinv).frame q hq

/-! ## The definitions evaluate: an instance

The destination directory holds a file `1`, a symbolic link `7` and a directory `3` with a special file inside; the
source lists `1` and `3` (a directory listing `5`).  The destination is plain where the source maps onto it, not
`plainTree`. -/

example : (Node.dir [([1], .file 0), ([7], .link ⟨true, [], false⟩), ([3], .dir [([9], .special .fifo 0)])]).plainWhereMapped
    (.dir [([1], .file 4), ([3], .dir [([5], .file 6)])]) = true := by rfl

example : (Node.dir [([1], .file 0), ([7], .link ⟨true, [], false⟩), ([3], .dir [([9], .special .fifo 0)])]).plainTree
    = false := by rfl

/-- a link at a position the source maps onto is excluded -/
example : (Node.dir [([1], .link ⟨true, [], false⟩)]).plainWhereMapped (.dir [([1], .file 4)]) = false := by rfl

end Xcp
