import XcpModel.L0
/-! Every complete, failure-free concurrent execution ends in the state of the sequential one — up to a relation
`E` on file systems (a partial equivalence that `execOp` respects; for the namespace model: "the same tree up to
the order of directory entries") — given a "goodness" predicate for queued operations that is established when an
operation is handed over, preserved by the other operations, and under which a queued operation commutes with any
other operation.  With `E := Eq` this is literal equality of the final states. -/
namespace Xcp.L0

open Xcp

/-- `E` lifted to partial results: both fail, or both succeed with related results -/
def ORel (E : Fs → Fs → Prop) : Option Fs → Option Fs → Prop
  | none, none => True
  | some f, some g => E f g
  | _, _ => False

/-- What is needed of queued operations. `E`: a partial equivalence on file systems (`E fs fs` = "`fs` is
well-formed") which every operation respects. `Good fs a`: in state `fs` the queued operation `a` is insensitive
to being delayed. -/
structure Commutes (c : Cfg) (E : Fs → Fs → Prop) (Good : Fs → Op → Prop) (R : Op → Op → Prop) : Prop where
  symm : ∀ f g, E f g → E g f
  trans : ∀ f g h, E f g → E g h → E f h
  /-- every operation respects `E` -/
  cong : ∀ f g op, E f g → ORel E (execOp f c op) (execOp g c op)
  /-- preserved by executing any other (independent) operation -/
  preserved : ∀ fs fs' a b, E fs fs → Good fs a → R a b → execOp fs c b = some fs' → Good fs' a
  /-- a good queued operation commutes with any other (independent) operation, as partial functions, up to `E` -/
  comm : ∀ fs a b, E fs fs → Good fs a → R a b → isSync a = false →
    ORel E ((execOp fs c a).bind (fun f1 => execOp f1 c b)) ((execOp fs c b).bind (fun f2 => execOp f2 c a))

/-- the operations of a state still to be executed, in an order the sequential run could use -/
def pending (s : St) : List Op := s.queue ++ s.todo

/-! ## sequential execution, equationally -/

theorem seqExec_none (c : Cfg) (r : List Op) : seqExec c none r = none := by
  cases r <;> rfl

theorem seqExec_cons (c : Cfg) (fs : Fs) (op : Op) (r : List Op) :
    seqExec c (some fs) (op :: r) = seqExec c (execOp fs c op) r := rfl

theorem seqExec_two (c : Cfg) (fs : Fs) (a b : Op) (r : List Op) :
    seqExec c (some fs) (a :: b :: r)
      = seqExec c ((execOp fs c a).bind (fun f => execOp f c b)) r := by
  rw [seqExec_cons]
  cases h : execOp fs c a with
  | none => simp [seqExec_none]
  | some f => simp [seqExec_cons]

/-! ## the lifted relation -/

section
variable {c : Cfg} {E : Fs → Fs → Prop} {Good : Fs → Op → Prop} {R : Op → Op → Prop}

theorem ORel.symm (hc : Commutes c E Good R) {x y : Option Fs} (h : ORel E x y) : ORel E y x := by
  cases x <;> cases y <;> simp only [ORel] at h ⊢
  exact hc.symm _ _ h

theorem ORel.trans (hc : Commutes c E Good R) {x y z : Option Fs} (h1 : ORel E x y) (h2 : ORel E y z) :
    ORel E x z := by
  cases x <;> cases y <;> cases z <;> simp only [ORel] at h1 h2 ⊢
  exact hc.trans _ _ _ h1 h2

theorem ORel.refl_left (hc : Commutes c E Good R) {x y : Option Fs} (h : ORel E x y) : ORel E x x :=
  ORel.trans hc h (ORel.symm hc h)

theorem ORel.refl_right (hc : Commutes c E Good R) {x y : Option Fs} (h : ORel E x y) : ORel E y y :=
  ORel.trans hc (ORel.symm hc h) h

/-- the states reached from a well-formed state are well-formed -/
theorem exec_wf (hc : Commutes c E Good R) {fs fs' : Fs} {op : Op} (hfs : E fs fs)
    (hx : execOp fs c op = some fs') : E fs' fs' := by
  have := hc.cong fs fs op hfs
  rw [hx] at this
  exact this

theorem seqExec_cong (hc : Commutes c E Good R) : ∀ (r : List Op) (x y : Option Fs), ORel E x y →
    ORel E (seqExec c x r) (seqExec c y r) := by
  intro r
  induction r with
  | nil =>
    intro x y h
    cases x <;> cases y <;> simp only [ORel] at h <;> simp [seqExec, ORel, h]
  | cons op r ih =>
    intro x y h
    cases x <;> cases y <;> simp only [ORel] at h
    · rw [seqExec_none]; trivial
    · rw [seqExec_cons, seqExec_cons]
      exact ih _ _ (hc.cong _ _ op h)

/-- a good queued operation at the front may be swapped with its successor -/
theorem seqExec_swap (hc : Commutes c E Good R)
    (fs : Fs) (a b : Op) (r : List Op) (hfs : E fs fs) (hg : Good fs a) (hne : R a b) (hs : isSync a = false) :
    ORel E (seqExec c (some fs) (a :: b :: r)) (seqExec c (some fs) (b :: a :: r)) := by
  rw [seqExec_two, seqExec_two]
  exact seqExec_cong hc r _ _ (hc.comm fs a b hfs hg hne hs)

/-- moving an operation `m` to the front, past a queue of good operations -/
theorem move_front (hc : Commutes c E Good R) (m : Op) (r : List Op) :
    ∀ (q : List Op) (fs : Fs), E fs fs → (∀ a ∈ q, Good fs a ∧ isSync a = false ∧ R a m) → q.Nodup →
      (∀ a ∈ q, ∀ b ∈ q, a ≠ b → R a b) →
      ORel E (seqExec c (some fs) (q ++ m :: r)) (seqExec c (some fs) (m :: (q ++ r))) := by
  intro q
  induction q with
  | nil => intro fs hfs _ _ _; exact seqExec_cong hc _ _ _ hfs
  | cons a q ih =>
    intro fs hfs hq hnd hR
    have ha := hq a (List.mem_cons_self ..)
    rw [List.nodup_cons] at hnd
    rw [List.cons_append, List.cons_append]
    refine ORel.trans hc ?_ (seqExec_swap hc fs a m _ hfs ha.1 ha.2.2 ha.2.1)
    rw [seqExec_cons, seqExec_cons]
    cases hx : execOp fs c a with
    | none => rw [seqExec_none, seqExec_none]; trivial
    | some fa =>
      apply ih fa (exec_wf hc hfs hx) _ hnd.2
        (fun x hx y hy => hR x (List.mem_cons_of_mem _ hx) y (List.mem_cons_of_mem _ hy))
      intro a' ha'
      have h' := hq a' (List.mem_cons_of_mem _ ha')
      have hne : a' ≠ a := fun h => hnd.1 (h ▸ ha')
      have hr : R a' a := hR a' (List.mem_cons_of_mem _ ha') a (List.mem_cons_self ..) hne
      exact ⟨hc.preserved fs fa a' a hfs h'.1 hr hx, h'.2⟩

/-- moving a good queued operation `a` to the front, past the operations queued before it -/
theorem move_front' (hc : Commutes c E Good R) (a : Op) (t : List Op) (hs : isSync a = false) :
    ∀ (pre : List Op) (fs : Fs), E fs fs → Good fs a → (∀ b ∈ pre, R a b) →
      ORel E (seqExec c (some fs) (pre ++ a :: t)) (seqExec c (some fs) (a :: (pre ++ t))) := by
  intro pre
  induction pre with
  | nil => intro fs hfs _ _; exact seqExec_cong hc _ _ _ hfs
  | cons b pre ih =>
    intro fs hfs hg hne
    have hab : R a b := hne b (List.mem_cons_self ..)
    rw [List.cons_append, List.cons_append]
    refine ORel.trans hc ?_ (ORel.symm hc (seqExec_swap hc fs a b _ hfs hg hab hs))
    rw [seqExec_cons, seqExec_cons]
    cases hx : execOp fs c b with
    | none => rw [seqExec_none, seqExec_none]; trivial
    | some fb =>
      exact ih fb (exec_wf hc hfs hx) (hc.preserved fs fb a b hfs hg hab hx)
        (fun b' hb' => hne b' (List.mem_cons_of_mem _ hb'))

end

/-! ## lists -/

theorem eraseIdx_split {α : Type} : ∀ (l : List α) (i : Nat) (a : α), l[i]? = some a →
    ∃ pre post, l = pre ++ a :: post ∧ l.eraseIdx i = pre ++ post := by
  intro l
  induction l with
  | nil => intro i a h; simp at h
  | cons x l ih =>
    intro i a h
    cases i with
    | zero =>
      simp at h
      exact ⟨[], l, by simp [h], by simp⟩
    | succ i =>
      simp at h
      obtain ⟨pre, post, h1, h2⟩ := ih i a h
      exact ⟨x :: pre, post, by simp [h1], by simp [h2]⟩

/-! ## runs -/

theorem run_append (c : Cfg) : ∀ (l1 l2 : List Label) (s : St),
    run c s (l1 ++ l2) = (run c s l1).bind (fun s' => run c s' l2) := by
  intro l1
  induction l1 with
  | nil => intro l2 s; rfl
  | cons l l1 ih =>
    intro l2 s
    simp only [List.cons_append, run]
    cases step c s l with
    | none => rfl
    | some s1 => exact ih l2 s1

theorem step_failed_sticky (c : Cfg) (s s1 : St) (l : Label) (h : step c s l = some s1)
    (hf : s.failed = true) : s1.failed = true := by
  cases l with
  | walk => simp [step, hf] at h
  | exec i =>
    simp only [step] at h
    split at h
    · split at h
      · cases h; exact hf
      · cases h; rfl
    · cases h

theorem run_failed_sticky (c : Cfg) : ∀ (ls : List Label) (s s' : St), run c s ls = some s' →
    s.failed = true → s'.failed = true := by
  intro ls
  induction ls with
  | nil => intro s s' h hf; cases h; exact hf
  | cons l ls ih =>
    intro s s' h hf
    simp only [run] at h
    split at h
    · next s1 hs1 => exact ih s1 s' h (step_failed_sticky c s s1 l hs1 hf)
    · cases h

/-! ## the invariant -/

structure RInv (c : Cfg) (E : Fs → Fs → Prop) (Good : Fs → Op → Prop) (fs0 : Fs) (ops : List Op) (s : St) :
    Prop where
  seq : ORel E (seqExec c (some s.fs) (s.queue ++ s.todo)) (seqExec c (some fs0) ops)
  wf : E s.fs s.fs
  good : ∀ a ∈ s.queue, Good s.fs a ∧ isSync a = false
  nodup : (s.queue ++ s.todo).Nodup
  mem : ∀ a ∈ s.queue ++ s.todo, a ∈ ops

section
variable {c : Cfg} {E : Fs → Fs → Prop} {Good : Fs → Op → Prop} {R : Op → Op → Prop}

theorem RInv_init (hc : Commutes c E Good R) (fs0 : Fs) (ops : List Op) (h0 : E fs0 fs0) (hnd : ops.Nodup) :
    RInv c E Good fs0 ops (init fs0 ops) :=
  ⟨by simpa [init] using seqExec_cong hc ops (some fs0) (some fs0) h0, h0, by simp [init], by simpa [init] using hnd,
    by simp [init]⟩

theorem step_inv (hc : Commutes c E Good R)
    (fs0 : Fs) (ops : List Op)
    (hR : ∀ a ∈ ops, ∀ b ∈ ops, a ≠ b → isSync a = false → R a b)
    (hand : ∀ (ls : List Label) (s : St) (op : Op) (r : List Op), run c (init fs0 ops) ls = some s →
              s.failed = false → s.todo = op :: r → isSync op = false → Good s.fs op)
    (pre : List Label) (s : St) (hreach : run c (init fs0 ops) pre = some s)
    (hinv : RInv c E Good fs0 ops s) (l : Label) (s1 : St) (hstep : step c s l = some s1)
    (hok : s1.failed = false) : RInv c E Good fs0 ops s1 := by
  obtain ⟨hseq, hwf, hgood, hnd, hmem⟩ := hinv
  have hf : s.failed = false := by
    cases h : s.failed with
    | false => rfl
    | true => rw [step_failed_sticky c s s1 l hstep h] at hok; cases hok
  cases l with
  | walk =>
    simp only [step, hf, Bool.false_eq_true, if_false] at hstep
    split at hstep
    · cases hstep
    · next op r htodo =>
      rw [htodo] at hseq hnd hmem
      have hopmem : op ∈ ops := hmem op (by simp)
      split at hstep
      · next hsync =>
        split at hstep
        · next fs' hx =>
          cases hstep
          have hnd' := List.nodup_append.1 hnd
          have hne : ∀ a ∈ s.queue, a ≠ op := fun a ha => hnd'.2.2 a ha op (List.mem_cons_self ..)
          have hqmem : ∀ a ∈ s.queue, a ∈ ops := fun a ha => hmem a (List.mem_append_left _ ha)
          have hr : ∀ a ∈ s.queue, R a op :=
            fun a ha => hR a (hqmem a ha) op hopmem (hne a ha) (hgood a ha).2
          refine ⟨?_, exec_wf hc hwf hx, ?_, ?_, ?_⟩
          · show ORel E (seqExec c (some fs') (s.queue ++ r)) _
            have hm := move_front hc op r s.queue s.fs hwf
              (fun a ha => ⟨(hgood a ha).1, (hgood a ha).2, hr a ha⟩) hnd'.1
              (fun a ha b hb hab => hR a (hqmem a ha) b (hqmem b hb) hab (hgood a ha).2)
            rw [seqExec_cons, hx] at hm
            exact ORel.trans hc (ORel.symm hc hm) hseq
          · intro a ha
            exact ⟨hc.preserved s.fs fs' a op hwf (hgood a ha).1 (hr a ha) hx, (hgood a ha).2⟩
          · show (s.queue ++ r).Nodup
            rw [List.nodup_append] at hnd ⊢
            exact ⟨hnd.1, (List.nodup_cons.1 hnd.2.1).2,
              fun a ha b hb => hnd.2.2 a ha b (List.mem_cons_of_mem _ hb)⟩
          · show ∀ a ∈ s.queue ++ r, a ∈ ops
            intro a ha
            apply hmem a
            rcases List.mem_append.1 ha with h | h
            · exact List.mem_append_left _ h
            · exact List.mem_append_right _ (List.mem_cons_of_mem _ h)
        · cases hstep; cases hok
      · next hsync =>
        cases hstep
        have hsync' : isSync op = false := by simpa using hsync
        refine ⟨?_, hwf, ?_, ?_, ?_⟩
        · show ORel E (seqExec c (some s.fs) ((s.queue ++ [op]) ++ r)) _
          simpa using hseq
        · intro a ha
          rcases List.mem_append.1 ha with ha | ha
          · exact hgood a ha
          · have : a = op := by simpa using ha
            subst this
            exact ⟨hand pre s a r hreach hf htodo hsync', hsync'⟩
        · show ((s.queue ++ [op]) ++ r).Nodup
          simpa using hnd
        · show ∀ a ∈ (s.queue ++ [op]) ++ r, a ∈ ops
          simpa using hmem
  | exec i =>
    simp only [step] at hstep
    split at hstep
    · next a hq =>
      obtain ⟨qpre, qpost, hq1, hq2⟩ := eraseIdx_split s.queue i a hq
      rw [hq2] at hstep
      rw [hq1] at hseq hnd hgood hmem
      split at hstep
      · next fs' hx =>
        cases hstep
        have hnd1 := (List.nodup_append.1 hnd).1
        have hnd2 := List.nodup_append.1 hnd1
        have hnd3 := List.nodup_cons.1 hnd2.2.1
        have hga := hgood a (by simp)
        have hqmem : ∀ b ∈ qpre ++ a :: qpost, b ∈ ops := fun b hb => hmem b (List.mem_append_left _ hb)
        have hamem : a ∈ ops := hqmem a (by simp)
        have hne1 : ∀ b ∈ qpre, a ≠ b :=
          fun b hb h => hnd2.2.2 b hb a (List.mem_cons_self ..) h.symm
        have hne2 : ∀ b ∈ qpost, a ≠ b := fun b hb h => hnd3.1 (h ▸ hb)
        have hr1 : ∀ b ∈ qpre, R a b :=
          fun b hb => hR a hamem b (hqmem b (List.mem_append_left _ hb)) (hne1 b hb) hga.2
        have key : ORel E (seqExec c (some s.fs) ((qpre ++ a :: qpost) ++ s.todo))
            (seqExec c (some fs') ((qpre ++ qpost) ++ s.todo)) := by
          have hm := move_front' hc a (qpost ++ s.todo) hga.2 qpre s.fs hwf hga.1 hr1
          rw [seqExec_cons, hx] at hm
          rw [List.append_assoc, List.cons_append, List.append_assoc]
          exact hm
        have hsub : ((qpre ++ qpost) ++ s.todo).Sublist ((qpre ++ a :: qpost) ++ s.todo) := by
          apply List.Sublist.append_right
          apply List.Sublist.append_left
          exact List.sublist_cons_self ..
        refine ⟨?_, exec_wf hc hwf hx, ?_, ?_, ?_⟩
        · show ORel E (seqExec c (some fs') ((qpre ++ qpost) ++ s.todo)) _
          exact ORel.trans hc (ORel.symm hc key) hseq
        · intro b hb
          have hb' : b ∈ qpre ++ a :: qpost := by
            rcases List.mem_append.1 hb with h | h
            · exact List.mem_append_left _ h
            · exact List.mem_append_right _ (List.mem_cons_of_mem _ h)
          have hba : b ≠ a := by
            rcases List.mem_append.1 hb with h | h
            · exact fun e => hne1 b h e.symm
            · exact fun e => hne2 b h e.symm
          have hr : R b a := hR b (hqmem b hb') a hamem hba (hgood b hb').2
          exact ⟨hc.preserved s.fs fs' b a hwf (hgood b hb').1 hr hx, (hgood b hb').2⟩
        · show ((qpre ++ qpost) ++ s.todo).Nodup
          exact hnd.sublist hsub
        · show ∀ b ∈ (qpre ++ qpost) ++ s.todo, b ∈ ops
          exact fun b hb => hmem b (hsub.subset hb)
      · cases hstep; cases hok
    · cases hstep

theorem run_inv (hc : Commutes c E Good R)
    (fs0 : Fs) (ops : List Op)
    (hR : ∀ a ∈ ops, ∀ b ∈ ops, a ≠ b → isSync a = false → R a b)
    (hand : ∀ (ls : List Label) (s : St) (op : Op) (r : List Op), run c (init fs0 ops) ls = some s →
              s.failed = false → s.todo = op :: r → isSync op = false → Good s.fs op) :
    ∀ (ls pre : List Label) (s s' : St), run c (init fs0 ops) pre = some s → RInv c E Good fs0 ops s →
      run c s ls = some s' → s'.failed = false → RInv c E Good fs0 ops s' := by
  intro ls
  induction ls with
  | nil => intro pre s s' _ hinv h _; cases h; exact hinv
  | cons l ls ih =>
    intro pre s s' hreach hinv h hok
    simp only [run] at h
    split at h
    · next s1 hs1 =>
      have hok1 : s1.failed = false := by
        cases hf : s1.failed with
        | false => rfl
        | true => rw [run_failed_sticky c ls s1 s' h hf] at hok; cases hok
      have hinv1 := step_inv hc fs0 ops hR hand pre s hreach hinv l s1 hs1 hok1
      have hreach1 : run c (init fs0 ops) (pre ++ [l]) = some s1 := by
        rw [run_append, hreach]; simp [run, hs1]
      exact ih (pre ++ [l]) s1 s' hreach1 hinv1 h hok
    · cases h

end

/-- Main theorem: refinement of the sequential execution.  If the initial state is well-formed (`E fs0 fs0`),
every operation is good at the moment the walker hands it over (`hand`), the list has no duplicates, distinct
operations of the list are independent (`hR`, for a queueable first operation), and the run is complete and
failure-free, then the sequential execution succeeds too, and its final file system is `E`-related to the
concurrent run's. -/
theorem complete_run_refines_sequential (c : Cfg) (E : Fs → Fs → Prop) (Good : Fs → Op → Prop)
    (R : Op → Op → Prop) (hc : Commutes c E Good R)
    (fs0 : Fs) (ops : List Op) (h0 : E fs0 fs0) (hnd : ops.Nodup)
    (hR : ∀ a ∈ ops, ∀ b ∈ ops, a ≠ b → isSync a = false → R a b)
    (hand : ∀ (ls : List Label) (s : St) (op : Op) (r : List Op), run c (init fs0 ops) ls = some s →
              s.failed = false → s.todo = op :: r → isSync op = false → Good s.fs op)
    (ls : List Label) (s : St) (hrun : run c (init fs0 ops) ls = some s)
    (hfin : final s = true) (hok : s.failed = false) :
    ∃ f, seqExec c (some fs0) ops = some f ∧ E f s.fs := by
  have hinv := run_inv hc fs0 ops hR hand ls [] (init fs0 ops) s rfl
    (RInv_init hc fs0 ops h0 hnd) hrun hok
  have hseq := hinv.seq
  simp only [final, Bool.and_eq_true, List.isEmpty_iff] at hfin
  rw [hfin.1, hfin.2] at hseq
  simp only [List.append_nil, seqExec] at hseq
  cases hx : seqExec c (some fs0) ops with
  | none => rw [hx] at hseq; exact hseq.elim
  | some f => rw [hx] at hseq; exact ⟨f, rfl, hc.symm _ _ hseq⟩

/-- the special case of literal equality -/
theorem complete_run_refines_sequential_eq (c : Cfg) (Good : Fs → Op → Prop) (R : Op → Op → Prop)
    (hc : Commutes c Eq Good R)
    (fs0 : Fs) (ops : List Op) (hnd : ops.Nodup)
    (hR : ∀ a ∈ ops, ∀ b ∈ ops, a ≠ b → isSync a = false → R a b)
    (hand : ∀ (ls : List Label) (s : St) (op : Op) (r : List Op), run c (init fs0 ops) ls = some s →
              s.failed = false → s.todo = op :: r → isSync op = false → Good s.fs op)
    (ls : List Label) (s : St) (hrun : run c (init fs0 ops) ls = some s)
    (hfin : final s = true) (hok : s.failed = false) :
    seqExec c (some fs0) ops = some s.fs := by
  obtain ⟨f, hf, he⟩ := complete_run_refines_sequential c Eq Good R hc fs0 ops rfl hnd hR hand ls s hrun hfin hok
  rw [hf, he]

end Xcp.L0
