import XcpProofs.MultiDerefLemmas
/-! # Lemmas for `MultiDerefRun`: the `runSources` form of several sources with `--dereference`

`runSources` walks each later source in the state the earlier sources left.  Under `-L` the walk re-resolves every
link, so the tree seen through the links must be shown to be the same in that state as in the initial one.

* `AgreeOff fs g Ts`: `g` agrees with `fs` off the targets `Ts` — whatever is unrelated to every target is the same;
  whatever is not at or below a target is the same or a directory in both (an ancestor of a target gains entries).
* `walkVisits`: the places a path walk looks at, computed alongside `walkPath`; `walkPath_congr`: if none of them is
  at or below a target, the walk gives the same answer in `g` (a congruence of path resolution).
* `derefAway` (a decidable, computable condition on the INITIAL file system): for every path the dereferencing walk
  resolves — every position of the tree seen through the links — no place looked at is at or below a target, and the
  canonical places reached (of directories, leaves and the links themselves) are neither at/below nor above a target;
  `derefS_congr`: then `derefS` gives the same tree in every `g` that agrees with `fs` off the targets.
* `runSourcesD_overlay_inv`: the fold over the sources, from the congruence taken as a hypothesis (`Separated`). -/
namespace Xcp

open L0

/-! ## Agreement off the targets -/

structure AgreeOff (fs g : Fs) (Ts : List (List Name)) : Prop where
  above : ∀ q, (∀ T ∈ Ts, ¬ T <+: q) → DirOrSame (fs.root.getAt q) (g.root.getAt q)
  unrel : ∀ q, (∀ T ∈ Ts, ¬ T <+: q ∧ ¬ q <+: T) → g.root.getAt q = fs.root.getAt q

theorem AgreeOff.refl (fs : Fs) (Ts : List (List Name)) : AgreeOff fs fs Ts :=
  ⟨fun _ _ => DirOrSame.refl _, fun _ _ => rfl⟩

/-- an overlay step at one of the targets keeps the agreement -/
theorem AgreeOff.placeAt {fs g : Fs} {Ts : List (List Name)} (h : AgreeOff fs g Ts) {T : List Name} (hT : T ∈ Ts)
    (dst : Option Node) (n : Node) : AgreeOff fs { g with root := Xcp.placeAt g.root T dst n } Ts := by
  refine ⟨?_, ?_⟩
  · intro q hq
    refine DirOrSame.trans (h.above q hq) ?_
    show DirOrSame (g.root.getAt q) ((Xcp.placeAt g.root T dst n).getAt q)
    by_cases hqT : q <+: T
    · have hne : q ≠ T := fun e => hq T hT (e ▸ List.prefix_refl _)
      unfold Xcp.placeAt
      split
      · exact DirOrSame.trans (getAt_delAt_ancestor _ _ _ hqT hne) (getAt_setAt_ancestor _ _ _ _ hqT hne)
      · exact getAt_setAt_ancestor _ _ _ _ hqT hne
    · rw [placeAt_getAt_unrelated _ _ _ _ _ (hq T hT) hqT]
      exact DirOrSame.refl _
  · intro q hq
    show (Xcp.placeAt g.root T dst n).getAt q = _
    rw [placeAt_getAt_unrelated _ _ _ _ _ (hq T hT).1 (hq T hT).2]
    exact h.unrel q hq

/-! ## Path resolution does not depend on what is at or below a place it does not look at -/

/-- the places `walkPath` looks at -/
def walkVisits (root : Node) (followLast : Bool) : (fuel : Nat) → (cur : List Name) → List Comp → List (List Name)
  | 0, _, _ => []
  | _+1, _, [] => []
  | f+1, cur, .cur :: r => walkVisits root followLast f cur r
  | f+1, cur, .parent :: r => walkVisits root followLast f cur.dropLast r
  | f+1, cur, .name n :: r =>
    (cur ++ [n]) :: (match root.getAt (cur ++ [n]) with
    | none => []
    | some (.link t) =>
      if r.isEmpty && !followLast then []
      else walkVisits root followLast f (if t.abs then [] else cur) (t.comps ++ r)
    | some (.dir _) => walkVisits root followLast f (cur ++ [n]) r
    | some _ => [])

theorem walkPath_congr {fs g : Fs} {Ts : List (List Name)} (h : AgreeOff fs g Ts) (fl : Bool) :
    ∀ (fuel : Nat) (cur : List Name) (cs : List Comp),
      (∀ v ∈ walkVisits fs.root fl fuel cur cs, ∀ T ∈ Ts, ¬ T <+: v) →
      walkPath g.root fl fuel cur cs = walkPath fs.root fl fuel cur cs := by
  intro fuel
  induction fuel with
  | zero => intro cur cs _; rfl
  | succ f ih =>
    intro cur cs hv
    cases cs with
    | nil => rfl
    | cons c r =>
      cases c with
      | cur =>
        simp only [walkVisits] at hv
        simp only [walkPath]
        exact ih cur r hv
      | parent =>
        simp only [walkVisits] at hv
        simp only [walkPath]
        exact ih _ r hv
      | name n =>
        simp only [walkVisits, List.mem_cons, forall_eq_or_imp] at hv
        obtain ⟨hv0, hvr⟩ := hv
        simp only [walkPath]
        rcases h.above _ hv0 with he | ⟨es, es', h1, h2⟩
        · rw [he]
          cases hgv : fs.root.getAt (cur ++ [n]) with
          | none => rfl
          | some x =>
            rw [hgv] at hvr
            cases x with
            | file k => rfl
            | special k d => rfl
            | dir es => exact ih _ r hvr
            | link t =>
              simp only at hvr ⊢
              split
              · rfl
              · rename_i hc
                rw [if_neg hc] at hvr
                exact ih _ _ hvr
        · rw [h1] at hvr
          rw [h1, h2]
          exact ih _ r hvr

theorem resolve_plain_eq (fs : Fs) (ns : List Name) (fl : Bool) :
    fs.resolve (plainPath ns) fl = walkPath fs.root fl resolveFuel [] (ns.map .name) := by
  simp only [Fs.resolve, plainPath, Bool.not_true, Bool.and_false, Bool.false_eq_true, if_false, if_true,
    Bool.or_false]
  cases walkPath fs.root fl resolveFuel [] (ns.map .name) <;> rfl

/-- the places the resolution of a plain path looks at -/
def statVisits (fs : Fs) (ns : List Name) (fl : Bool) : List (List Name) :=
  walkVisits fs.root fl resolveFuel [] (ns.map .name)

theorem stat_congr {fs g : Fs} {Ts : List (List Name)} (h : AgreeOff fs g Ts) (ns cp : List Name) (node : Node)
    (hv : ∀ v ∈ statVisits fs ns true, ∀ T ∈ Ts, ¬ T <+: v)
    (hcp : ∀ T ∈ Ts, ¬ T <+: cp ∧ ¬ cp <+: T)
    (hs : fs.stat (plainPath ns) = some (cp, node)) : g.stat (plainPath ns) = some (cp, node) := by
  unfold Fs.stat at hs ⊢
  rw [resolve_plain_eq] at hs ⊢
  rw [walkPath_congr h true _ _ _ hv]
  cases hw : walkPath fs.root true resolveFuel [] (ns.map .name) with
  | found c =>
    rw [hw] at hs
    simp only at hs ⊢
    cases hg : fs.root.getAt c with
    | none => rw [hg] at hs; cases hs
    | some x =>
      rw [hg] at hs
      simp only [Option.map_some, Option.some.injEq, Prod.mk.injEq] at hs
      obtain ⟨h1, h2⟩ := hs
      subst h1; subst h2
      rw [h.unrel c hcp, hg]
      rfl
  | missing p n => rw [hw] at hs; cases hs
  | err e => rw [hw] at hs; cases hs

theorem lstat_congr {fs g : Fs} {Ts : List (List Name)} (h : AgreeOff fs g Ts) (ns cp : List Name) (node : Node)
    (hv : ∀ v ∈ statVisits fs ns false, ∀ T ∈ Ts, ¬ T <+: v)
    (hcp : ∀ T ∈ Ts, ¬ T <+: cp ∧ ¬ cp <+: T)
    (hs : fs.lstat (plainPath ns) = some (cp, node)) : g.lstat (plainPath ns) = some (cp, node) := by
  unfold Fs.lstat at hs ⊢
  rw [resolve_plain_eq] at hs ⊢
  rw [walkPath_congr h false _ _ _ hv]
  cases hw : walkPath fs.root false resolveFuel [] (ns.map .name) with
  | found c =>
    rw [hw] at hs
    simp only at hs ⊢
    cases hg : fs.root.getAt c with
    | none => rw [hg] at hs; cases hs
    | some x =>
      rw [hg] at hs
      simp only [Option.map_some, Option.some.injEq, Prod.mk.injEq] at hs
      obtain ⟨h1, h2⟩ := hs
      subst h1; subst h2
      rw [h.unrel c hcp, hg]
      rfl
  | missing p n => rw [hw] at hs; cases hs
  | err e => rw [hw] at hs; cases hs

/-! ## The dereferencing walk does not depend on what is at or below the targets -/

/-- not at or below any target -/
def awayB (Ts : List (List Name)) (v : List Name) : Bool := Ts.all fun T => !(T.isPrefixOf v)

/-- neither at/below nor above any target -/
def unrelB (Ts : List (List Name)) (v : List Name) : Bool :=
  Ts.all fun T => !(T.isPrefixOf v) && !(v.isPrefixOf T)

theorem awayB_spec {Ts : List (List Name)} {v : List Name} (h : awayB Ts v = true) : ∀ T ∈ Ts, ¬ T <+: v := by
  intro T hT hp
  simp only [awayB, List.all_eq_true, Bool.not_eq_true'] at h
  have := h T hT
  rw [← Bool.not_eq_true, List.isPrefixOf_iff_prefix] at this
  exact this hp

theorem unrelB_spec {Ts : List (List Name)} {v : List Name} (h : unrelB Ts v = true) :
    ∀ T ∈ Ts, ¬ T <+: v ∧ ¬ v <+: T := by
  intro T hT
  simp only [unrelB, List.all_eq_true, Bool.and_eq_true, Bool.not_eq_true'] at h
  obtain ⟨h1, h2⟩ := h T hT
  rw [← Bool.not_eq_true, List.isPrefixOf_iff_prefix] at h1 h2
  exact ⟨h1, h2⟩

/-- for every path the dereferencing walk from `path` resolves (in `fs`): no place the resolution looks at is at or
below a target, and the places it arrives at (with and without following a final link) are unrelated to every target -/
def derefAway (fs : Fs) (Ts : List (List Name)) : (fuel : Nat) → (path : List Name) → (anc : List (List Name)) → Bool
  | 0, _, _ => true
  | f+1, path, anc =>
    (statVisits fs path false).all (awayB Ts) && (statVisits fs path true).all (awayB Ts) &&
    (match fs.lstat (plainPath path), fs.stat (plainPath path) with
    | some (lc, _), some (cp, node) =>
      unrelB Ts lc && unrelB Ts cp &&
      (match node with
      | .dir es => (es.map (·.1)).all fun m => derefAway fs Ts f (path ++ [m]) (cp :: anc)
      | _ => true)
    | _, _ => true)

theorem collect_some_congr {α β : Type} {f f' : α → Option β} : ∀ {l : List α} {bs : List β},
    collect f l = some bs → (∀ a ∈ l, ∀ b, f a = some b → f' a = some b) → collect f' l = some bs := by
  intro l
  induction l with
  | nil => intro bs h _; exact h
  | cons a r ih =>
    intro bs h hf
    obtain ⟨b, bs', h1, h2, h3⟩ := collect_cons_some h
    subst h3
    have e1 := hf a List.mem_cons_self b h1
    have e2 := ih h2 (fun a' ha' => hf a' (List.mem_cons_of_mem _ ha'))
    simp only [collect, e1, e2]

/-- the tree seen through the links is the same in every state that agrees with `fs` off the targets -/
theorem derefS_congr {fs g : Fs} {Ts : List (List Name)} (h : AgreeOff fs g Ts) :
    ∀ (f : Nat) (path : List Name) (anc : List (List Name)) (s : SNode),
      derefS fs f path anc = some s → derefAway fs Ts f path anc = true → derefS g f path anc = some s := by
  intro f
  induction f with
  | zero => intro path anc s hs _; simp [derefS] at hs
  | succ f ih =>
    intro path anc s hs ha
    obtain ⟨lcp, lnode, cp, node, hl, hst, hcase⟩ := derefS_succ_some hs
    simp only [derefAway, hl, hst, Bool.and_eq_true, List.all_eq_true] at ha
    obtain ⟨⟨hv1, hv2⟩, ⟨hu1, hu2⟩, hch⟩ := ha
    have gl := lstat_congr h path lcp lnode (fun v hv => awayB_spec (hv1 v hv)) (unrelB_spec hu1) hl
    have gs := stat_congr h path cp node (fun v hv => awayB_spec (hv2 v hv)) (unrelB_spec hu2) hst
    rcases hcase with ⟨k, hnode, hs'⟩ | ⟨k, d, hnode, hk, hs'⟩ | ⟨es, ss, hnode, hloop, hcol, hs'⟩
    · subst hnode; subst hs'
      simp only [derefS, gl, gs]
    · subst hnode; subst hs'
      simp only [derefS, gl, gs, hk, if_true]
    · subst hnode; subst hs'
      simp only [List.all_eq_true] at hch
      have hcol' : collect (fun m => (derefS g f (path ++ [m]) (cp :: anc)).map fun x => (m, x)) (es.map (·.1)) =
          some ss := by
        apply collect_some_congr hcol
        intro m hm b hb
        cases hd : derefS fs f (path ++ [m]) (cp :: anc) with
        | none => rw [hd] at hb; cases hb
        | some x =>
          rw [hd] at hb
          rw [ih _ _ x hd (hch m hm)]
          exact hb
      simp only [derefS, gl, gs, hloop, hcol']
      rfl

/-! ## The fold over the sources -/

/-- the targets of the items -/
def targetsOf (dn : List Name) (items : List DerefSrc) : List (List Name) := items.map fun e => dn ++ [e.base]

/-- the congruence, as a property of a source: the tree seen from `p` through the links is `s` in EVERY state that
agrees with `fs` off the targets -/
def Separated (fs : Fs) (Ts : List (List Name)) (p : List Name) (s : SNode) : Prop :=
  ∀ g : Fs, AgreeOff fs g Ts → derefS g walkFuel p [] = some s

theorem separated_of_away {fs : Fs} {Ts : List (List Name)} {p : List Name} {s : SNode}
    (hder : derefS fs walkFuel p [] = some s) (ha : derefAway fs Ts walkFuel p [] = true) : Separated fs Ts p s :=
  fun _ h => derefS_congr h walkFuel p [] s hder ha

/-- `runSources` over the remaining items from a state `g` that agrees with the initial state `fs0` off the targets
`Ts` (of all items), in which every leaf of every remaining tree is at its canonical place, `dn` is a directory, and
the remaining targets are as in `fs0` -/
theorem runSourcesD_overlay_inv (c : Cfg) (texts : GiTexts) (hd : c.dereference = true) (hn : c.noClobber = false)
    (hg : c.gitignore = false) (hnt : c.noTargetDir = false)
    (fs0 : Fs) (hw0 : fs0.root.WF) (dn : List Name) (hdl : dn.length + 1 + walkFuel < 256)
    (Ts : List (List Name)) :
    ∀ (items : List DerefSrc) (g : Fs), FsEq g g → AgreeOff fs0 g Ts →
      (∀ e ∈ items, dn ++ [e.base] ∈ Ts) →
      (∃ es, g.root.getAt dn = some (.dir es)) →
      (items.map (·.base)).Nodup →
      (∀ e ∈ items, e.path = plainPath e.path.names ∧ e.path.fileName = some e.base ∧
        Separated fs0 Ts e.path.names e.s ∧ SrcIn g.root e.s ∧ e.s.erase.Copyable walkFuel) →
      (∀ e ∈ items, ∀ e' ∈ items, ReadsAway e.s (dn ++ [e'.base])) →
      (∀ e ∈ items, g.root.getAt (dn ++ [e.base]) = fs0.root.getAt (dn ++ [e.base])) →
      (∀ e ∈ items, Compatible (fs0.root.getAt (dn ++ [e.base])) e.s.erase) →
      ∃ fs', runSources g c texts (plainPath dn) (items.map (·.path)) = ⟨.ok, fs'⟩ ∧
        FsEq fs' { g with root := overlayAll fs0.root dn (items.map DerefSrc.toCopy) g.root } := by
  have hw : walkFuel = 64 := rfl
  intro items
  induction items with
  | nil =>
    intro g hwf _ _ _ _ _ _ _ _
    exact ⟨g, rfl, hwf⟩
  | cons e rest ih =>
    intro g hwf hagree hTs hdd hnd hsrc haway hag hcomp
    obtain ⟨es, hes⟩ := hdd
    obtain ⟨hpe, hfn, hsep, hsn, hcop⟩ := hsrc e List.mem_cons_self
    have hage := hag e List.mem_cons_self
    simp only [List.map_cons, List.nodup_cons] at hnd
    -- the walk of this source, in the state `g`
    have hroot : g.root.isLink = false := root_not_link_of_dir hes
    have hshape := walk_shape_deref g c hd hn hroot e.path.names (dn ++ [e.base]) walkFuel [] [] e.s
      (by simpa using hsep g hagree)
    rw [← hpe] at hshape
    simp only [List.append_nil] at hshape
    have hexec := exec_overlayS c hn walkFuel e.s hcop g dn e.base es [] hsn
      (haway e List.mem_cons_self e List.mem_cons_self) hes (hwf.2.1 dn es hes)
      (fun x hx => subtree_WF hwf.2.1 hx) (by rw [hage]; exact hcomp e List.mem_cons_self) hdl
    rw [List.append_nil] at hexec
    have hrun : execOps g c (walkEntry g c none e.path (plainPath (dn ++ [e.base])) walkFuel [] []) =
        ⟨.ok, { g with root := placeAt g.root (dn ++ [e.base]) (g.root.getAt (dn ++ [e.base])) e.s.erase }⟩ := by
      rw [hshape, hexec]
      rfl
    have htb := targetBase_dir g c hnt dn es e.path e.base hfn (by omega) hes
    have hstep := runSources_cons_ok g _ c texts (plainPath dn) e.path (plainPath (dn ++ [e.base]))
      (rest.map (·.path)) hg htb hrun
    have hwf1 := execOps_wf c _ g _ hwf hrun
    obtain ⟨es1, hes1⟩ := placeAt_parent g.root dn e.base es (g.root.getAt (dn ++ [e.base])) e.s.erase hes
    -- the remaining sources, from the state it leaves
    obtain ⟨fs', hr', heq'⟩ := ih _ hwf1 (hagree.placeAt (hTs e List.mem_cons_self) _ _)
      (fun a ha => hTs a (List.mem_cons_of_mem _ ha)) ⟨es1, hes1⟩ hnd.2
      (by
        intro e' he'
        obtain ⟨a1, a2, a3, a4, a5⟩ := hsrc e' (List.mem_cons_of_mem _ he')
        refine ⟨a1, a2, a3, ?_, a5⟩
        intro l hl
        obtain ⟨b1, b2, b3⟩ := a4 l hl
        obtain ⟨u1, u2⟩ := haway e' (List.mem_cons_of_mem _ he') e List.mem_cons_self l hl
        refine ⟨?_, b2, b3⟩
        show (placeAt g.root (dn ++ [e.base]) (g.root.getAt (dn ++ [e.base])) e.s.erase).getAt l.1 = _
        rw [placeAt_getAt_unrelated _ _ _ _ _ u1 u2]
        exact b1)
      (fun a ha b hb => haway a (List.mem_cons_of_mem _ ha) b (List.mem_cons_of_mem _ hb))
      (by
        intro e' he'
        have hne : e.base ≠ e'.base := by
          intro h
          apply hnd.1
          rw [h]
          exact List.mem_map.2 ⟨e', he', rfl⟩
        show (placeAt g.root (dn ++ [e.base]) (g.root.getAt (dn ++ [e.base])) e.s.erase).getAt (dn ++ [e'.base]) = _
        rw [placeAt_getAt_unrelated _ _ _ _ _ (sibling_unrel dn hne) (sibling_unrel dn (Ne.symm hne))]
        exact hag e' (List.mem_cons_of_mem _ he'))
      (fun a ha => hcomp a (List.mem_cons_of_mem _ ha))
    refine ⟨fs', by rw [List.map_cons, hstep]; exact hr', ?_⟩
    have hsame : SameObs (placeAt g.root (dn ++ [e.base]) (g.root.getAt (dn ++ [e.base])) e.s.erase)
        (g.root.setAt (dn ++ [e.base]) (Node.overlay (fs0.root.getAt (dn ++ [e.base])) e.s.erase)) := by
      rw [← hage]
      exact sameObs_placeAt g.root dn e.base es hes _ e.s.erase
    refine FsEq.trans heq' ⟨rfl, heq'.2.2.1, ?_, overlayAll_sameObs fs0.root dn (rest.map DerefSrc.toCopy) _ _ hsame⟩
    apply overlayAll_WF fs0.root dn ((e :: rest).map DerefSrc.toCopy) g.root hwf.2.1
    intro e' he'
    obtain ⟨a, ha, rfl⟩ := List.mem_map.1 he'
    obtain ⟨_, _, _, _, a5⟩ := hsrc a ha
    exact overlay_WF walkFuel a.s.erase a5 (copyable_WF walkFuel _ a5) _ (fun x hx => subtree_WF hw0 hx)

end Xcp
