import XcpProofs.Legal
/-! `merge_extents`: coverage, soundness (only unit gaps added). -/
namespace Xcp



def pl : Option Extent → List Extent
  | none => []
  | some p => [p]

theorem WF_tail {e : Extent} {l : List Extent} (h : WF (e :: l)) : WF l := by
  cases l with
  | nil => trivial
  | cons f r => exact h.2.2

theorem WF_head {e : Extent} {l : List Extent} (h : WF (e :: l)) : e.start < e.stop := by
  cases l with
  | nil => exact h
  | cons f r => exact h.1

/-- coverage is preserved -/
theorem mergeGo_covers (p : Option Extent) (l : List Extent) (hw : WF (pl p ++ l)) (b : Nat)
    (h : covers (pl p ++ l) b) : covers (mergeGo p l) b := by
  induction l generalizing p with
  | nil => cases p <;> simpa [mergeGo, pl] using h
  | cons e es ih =>
    cases p with
    | none => exact ih (some e) (by simpa [pl] using hw) (by simpa [pl] using h)
    | some p =>
      simp only [pl, List.cons_append, List.nil_append] at hw h
      obtain ⟨hp, hpe, hw'⟩ := hw
      have he := WF_head hw'
      unfold mergeGo
      split
      · rename_i heq
        apply ih (some _)
        · simp only [pl, List.cons_append, List.nil_append]
          cases es with
          | nil => simp [WF]; omega
          | cons f r => exact ⟨by simp; omega, hw'.2.1, hw'.2.2⟩
        · simp only [covers, pl, List.cons_append, List.nil_append, List.mem_cons] at h ⊢
          obtain ⟨x, hx, h1, h2⟩ := h
          rcases hx with rfl | rfl | hx
          · exact ⟨_, Or.inl rfl, h1, by simp; omega⟩
          · exact ⟨_, Or.inl rfl, by simp; omega, h2⟩
          · exact ⟨x, Or.inr hx, h1, h2⟩
      · simp only [covers, List.mem_cons] at h ⊢
        obtain ⟨x, hx, h1, h2⟩ := h
        rcases hx with rfl | hx
        · exact ⟨x, Or.inl rfl, h1, h2⟩
        · obtain ⟨y, hy, hc⟩ := ih (some e) (by simpa [pl] using hw') ⟨x, by simpa [pl] using hx, h1, h2⟩
          exact ⟨y, Or.inr hy, hc⟩

theorem merge_covers (l : List Extent) (hw : WF l) (b : Nat) (h : covers l b) : covers (mergeExtents l) b :=
  mergeGo_covers none l (by simpa [pl] using hw) b (by simpa [pl] using h)

/-- nothing is added except the single byte between extents deemed adjacent -/
theorem mergeGo_sound (p : Option Extent) (l : List Extent) (hw : WF (pl p ++ l)) (b : Nat)
    (h : covers (mergeGo p l) b) :
    covers (pl p ++ l) b ∨ ∃ x ∈ pl p ++ l, ∃ y ∈ pl p ++ l, y.start = x.stop + 1 ∧ b = x.stop := by
  induction l generalizing p with
  | nil => cases p <;> simp_all [mergeGo, pl, covers]
  | cons e es ih =>
    cases p with
    | none =>
      have := ih (some e) (by simpa [pl] using hw) (by simpa [mergeGo] using h)
      simpa [pl] using this
    | some p =>
      simp only [pl, List.cons_append, List.nil_append] at hw ⊢
      obtain ⟨hp, hpe, hw'⟩ := hw
      have he := WF_head hw'
      unfold mergeGo at h
      split at h
      · rename_i heq
        have hwm : WF (pl (some { start := p.start, stop := e.stop, shared := p.shared && e.shared }) ++ es) := by
          simp only [pl, List.cons_append, List.nil_append]
          cases es with
          | nil => simp [WF]; omega
          | cons f r => exact ⟨by simp; omega, hw'.2.1, hw'.2.2⟩
        rcases ih (some _) hwm h with hc | ⟨x, hx, y, hy, hxy, hb⟩
        · simp only [covers, pl, List.cons_append, List.nil_append, List.mem_cons] at hc
          obtain ⟨z, hz, h1, h2⟩ := hc
          rcases hz with rfl | hz
          · simp at h1 h2
            by_cases c1 : b < p.stop
            · exact Or.inl ⟨p, by simp, h1, c1⟩
            · by_cases c2 : b = p.stop
              · exact Or.inr ⟨p, by simp, e, by simp, heq, c2⟩
              · exact Or.inl ⟨e, by simp, by omega, h2⟩
          · exact Or.inl ⟨z, by simp [hz], h1, h2⟩
        · -- a unit gap found later: x or y may be the merged extent; map back to p / e
          simp only [pl, List.cons_append, List.nil_append, List.mem_cons] at hx hy
          right
          rcases hx with rfl | hx <;> rcases hy with rfl | hy
          · simp at hxy; omega
          · exact ⟨e, by simp, y, by simp [hy], by simpa using hxy, by simpa using hb⟩
          · simp at hxy
            exact ⟨x, by simp [hx], p, by simp, hxy, hb⟩
          · exact ⟨x, by simp [hx], y, by simp [hy], hxy, hb⟩
      · simp only [covers, List.mem_cons] at h
        obtain ⟨z, hz, h1, h2⟩ := h
        rcases hz with rfl | hz
        · exact Or.inl ⟨z, by simp, h1, h2⟩
        · rcases ih (some e) (by simpa [pl] using hw') ⟨z, hz, h1, h2⟩ with hc | ⟨x, hx, y, hy, hxy, hb⟩
          · obtain ⟨w, hw1, hw2⟩ := hc
            exact Or.inl ⟨w, by simp [pl] at hw1; simp [hw1], hw2⟩
          · simp only [pl, List.cons_append, List.nil_append] at hx hy
            exact Or.inr ⟨x, by simp [List.mem_cons.mp hx |>.elim (fun h => Or.inr (Or.inl h)) (fun h => Or.inr (Or.inr h))],
                          y, by simp [List.mem_cons.mp hy |>.elim (fun h => Or.inr (Or.inl h)) (fun h => Or.inr (Or.inr h))], hxy, hb⟩


/-- the overflow-checked variant the driver runs agrees with `mergeGo` whenever it does not panic -/
theorem mergeGoChk_eq (p : Option Extent) (l : List Extent) (r : List Extent)
    (h : mergeGoChk p l = some r) : r = mergeGo p l := by
  induction l generalizing p r with
  | nil => cases p <;> simp_all [mergeGoChk, mergeGo]
  | cons e es ih =>
    cases p with
    | none => simpa [mergeGo] using ih (some e) r (by simpa [mergeGoChk] using h)
    | some p =>
      unfold mergeGoChk at h
      unfold mergeGo
      split at h
      · simp at h
      · split at h
        · rename_i heq; simp only [heq, if_true]; exact ih _ r h
        · rename_i hne; simp only [hne, if_false]
          cases hq : mergeGoChk (some e) es with
          | none => simp [hq] at h
          | some q =>
            simp [hq] at h
            rw [← h, ih (some e) q hq]

/-- it panics only if some extent ends at `u64::MAX` -/
theorem mergeGoChk_some (p : Option Extent) (l : List Extent)
    (hp : ∀ x ∈ pl p ++ l, x.stop + 1 < 2^64) : (mergeGoChk p l).isSome := by
  induction l generalizing p with
  | nil => cases p <;> simp [mergeGoChk]
  | cons e es ih =>
    cases p with
    | none => simpa [mergeGoChk] using ih (some e) (by simpa [pl] using hp)
    | some p =>
      unfold mergeGoChk
      have h1 := hp p (by simp [pl])
      have h2 := hp e (by simp [pl])
      have : ¬ (p.stop + 1 ≥ 2^64) := by omega
      simp only [this, if_false]
      split
      · apply ih; intro x hx
        simp only [pl, List.cons_append, List.nil_append, List.mem_cons] at hx
        rcases hx with rfl | hx
        · simpa using h2
        · exact hp x (by simp [pl, hx])
      · have := ih (some e) (by intro x hx; exact hp x (by simp [pl] at hx ⊢; rcases hx with rfl | hx <;> simp [*]))
        cases hq : mergeGoChk (some e) es with
        | none => simp [hq] at this
        | some q => simp

end Xcp
