import XcpProofs.MultiDeref
import XcpProofs.MultiDerefRunLemmas
/-! # Several sources with `--dereference`, the `runSources` form

`multi_deref_sequential` (MultiDeref) is about the concatenation of the items' operation lists computed in the
INITIAL file system.  `runSources` — and the real program — evaluates each later source's `target_base`, and WALKS the
source, in the state the earlier sources left; under `-L` that walk re-resolves every symbolic link.  This file proves
the `runSources` form.

What is needed beyond the hypotheses of `multi_deref_sequential`: the tree seen from each source through the links
must not depend on what the earlier sources wrote.  This is a genuine condition (see the counter-example at the end:
a link of a later source leading to the destination directory itself).  It is stated in two forms:

* `Separated fs Ts p s` — the congruence itself: `derefS g walkFuel p [] = some s` in EVERY state `g` that agrees with
  `fs` off the targets `Ts` (`AgreeOff`).  `multi_deref_run` takes it as a hypothesis, per item.
* `derefAway fs Ts walkFuel p [] = true` — a decidable, computable condition on the INITIAL file system: for every path
  the dereferencing walk from `p` resolves, no place the resolution looks at (every component of the path and of every
  link text it expands) is at or below a target, and the places it arrives at are neither at/below nor above a
  target.  `separated_of_away` (proved: `derefS_congr`, from a congruence of path resolution, `walkPath_congr`) shows
  that it implies `Separated`; `multi_deref_run_of_away` is the resulting theorem with no congruence hypothesis. -/
namespace Xcp

/-- SEVERAL SOURCES with `--dereference`, `runSources`: each `target_base` and each walk evaluated in the state the
earlier sources left.  `hsep` is the congruence hypothesis (implied by `derefAway`: `multi_deref_run_of_away`). -/
theorem multi_deref_run (fs : Fs) (c : Cfg) (texts : GiTexts) (dest : RPath) (items : List DerefSrc)
    (hd : c.dereference = true) (hn : c.noClobber = false) (hg : c.gitignore = false)
    (hnt : c.noTargetDir = false)
    (hwf : FsEq fs fs)
    (hdest : PlainTarget fs dest) (hdd : ∃ es, fs.root.getAt dest.names = some (.dir es))
    (hsrc : ∀ e ∈ items, AbsNames e.path ∧ e.path.fileName = some e.base ∧
      derefS fs walkFuel e.path.names [] = some e.s)
    (hsep : ∀ e ∈ items, Separated fs (targetsOf dest.names items) e.path.names e.s)
    (hnd : (items.map (·.base)).Nodup)
    (haway : ∀ e ∈ items, ∀ e' ∈ items, ReadsAway e.s (dest.names ++ [e'.base]))
    (hcomp : ∀ e ∈ items, Compatible (fs.root.getAt (dest.names ++ [e.base])) e.s.erase)
    (hlen : dest.names.length + 1 + walkFuel < 256) :
    ∃ fs', runSources fs c texts dest (items.map (·.path)) = ⟨.ok, fs'⟩ ∧
      FsEq fs' { fs with root := overlayAllD fs.root dest.names items fs.root } := by
  have hde := plainTarget_eq fs dest hdest
  obtain ⟨des, hdes⟩ := hdd
  have hroot : fs.root.isLink = false := root_not_link_of_dir hdes
  have h := runSourcesD_overlay_inv c texts hd hn hg hnt fs hwf.2.1 dest.names hlen (targetsOf dest.names items)
    items fs hwf (AgreeOff.refl _ _)
    (fun e he => List.mem_map.2 ⟨e, he, rfl⟩) ⟨des, hdes⟩ hnd
    (by
      intro e he
      obtain ⟨hp, hfn, hder⟩ := hsrc e he
      obtain ⟨hcop, hsrcin⟩ := derefS_good fs hroot hwf.2.1 walkFuel e.path.names [] e.s hder
      exact ⟨absNames_eq hp, hfn, hsep e he, hsrcin, hcop⟩)
    haway (fun _ _ => rfl) hcomp
  rw [← hde] at h
  exact h

/-- the same with the decidable condition on the initial file system in place of the congruence hypothesis -/
theorem multi_deref_run_of_away (fs : Fs) (c : Cfg) (texts : GiTexts) (dest : RPath) (items : List DerefSrc)
    (hd : c.dereference = true) (hn : c.noClobber = false) (hg : c.gitignore = false)
    (hnt : c.noTargetDir = false)
    (hwf : FsEq fs fs)
    (hdest : PlainTarget fs dest) (hdd : ∃ es, fs.root.getAt dest.names = some (.dir es))
    (hsrc : ∀ e ∈ items, AbsNames e.path ∧ e.path.fileName = some e.base ∧
      derefS fs walkFuel e.path.names [] = some e.s)
    (haw : ∀ e ∈ items, derefAway fs (targetsOf dest.names items) walkFuel e.path.names [] = true)
    (hnd : (items.map (·.base)).Nodup)
    (haway : ∀ e ∈ items, ∀ e' ∈ items, ReadsAway e.s (dest.names ++ [e'.base]))
    (hcomp : ∀ e ∈ items, Compatible (fs.root.getAt (dest.names ++ [e.base])) e.s.erase)
    (hlen : dest.names.length + 1 + walkFuel < 256) :
    ∃ fs', runSources fs c texts dest (items.map (·.path)) = ⟨.ok, fs'⟩ ∧
      FsEq fs' { fs with root := overlayAllD fs.root dest.names items fs.root } :=
  multi_deref_run fs c texts dest items hd hn hg hnt hwf hdest hdd hsrc
    (fun e he => separated_of_away (hsrc e he).2.2 (haw e he)) hnd haway hcomp hlen

/-! ## The instance of `MultiDerefExample`, through `runSources` -/

namespace MultiDerefExample

open DerefExample (nS nO nT ex_names ex_absNames)

theorem ex_dest_plain : PlainTarget exFs exDestP := by
  refine ⟨rfl, rfl, (ex_absNames _).2.2, ?_⟩
  rw [exDestP, ex_names]
  have hT : exFs.root.getAt [nT] = some (.dir [(nB, .dir [([121], .file 9), ([122], .file 7)])]) := by rfl
  exact noLinkUpto_of_getAt hT rfl

theorem ex_away : ∀ e ∈ exItems, derefAway exFs (targetsOf [nT] exItems) walkFuel e.path.names [] = true := by
  intro e he
  simp only [exItems, List.mem_cons, List.not_mem_nil, or_false] at he
  rcases he with he | he <;> subst he
  · show derefAway exFs (targetsOf [nT] exItems) walkFuel (plainPath [nS]).names [] = true
    rw [ex_names]; rfl
  · show derefAway exFs (targetsOf [nT] exItems) walkFuel (plainPath [nB]).names [] = true
    rw [ex_names]; rfl

/-- the `runSources` theorem applied to the instance -/
theorem example_runSources (texts : GiTexts) :
    ∃ fs', runSources exFs exCfg texts exDestP (exItems.map (·.path)) = ⟨.ok, fs'⟩ ∧
      FsEq fs' { exFs with root := exFs.root.setAt [nT] exDestAfter } := by
  have h := multi_deref_run_of_away exFs exCfg texts exDestP exItems rfl rfl rfl rfl exFs_wf ex_dest_plain
    (by rw [exDestP, ex_names]; exact ⟨_, by rfl⟩) ex_hsrc (by rw [exDestP, ex_names]; exact ex_away) (by decide)
    (by rw [exDestP, ex_names]; exact ex_haway) (by rw [exDestP, ex_names]; exact ex_hcomp)
    (by rw [exDestP, ex_names]; decide)
  rw [exDestP, ex_names, ex_result] at h
  rw [exDestP]
  exact h

/-- the model itself, run on the instance -/
example : (runSources exFs exCfg [] exDestP (exItems.map (·.path))).exit = .ok := by decide
example : (runSources exFs exCfg [] exDestP (exItems.map (·.path))).fs.root.getAt [nT] = some exDestAfter := by rfl

end MultiDerefExample

/-! ## The separation condition is genuinely needed

`/S` = { file `a` }, `/B` = { `k` → `/T` } and the destination `/T` is an EMPTY directory; the run is
`xcp -rL /S /B /T`.  Seen from the initial state, `/B` through the links is { `k` = an empty directory }, and every
hypothesis of `multi_deref_sequential` holds (no leaf at all is read from the target regions).  But the real walk of
`/B` happens after `/S` has been copied to `/T/S`, and then `k` lists `S`: the run copies `/T/S` into `/T/B/k/S`.  So
`runSources` does NOT end in the overlay computed from the initial state; `derefAway` is false on this instance (the
link leads to a place ABOVE the targets). -/
namespace MultiDerefCounterExample

open DerefExample (nS nT ex_names)
open MultiDerefExample (nB)

def cxRoot : Node := .dir [
  (nS, .dir [([97], .file 1)]),
  (nB, .dir [([107], .link ⟨true, [.name nT], false⟩)]),
  (nT, .dir [])]
def cxFs : Fs := ⟨cxRoot, []⟩
def cxCfg : Cfg := { dereference := true }
def cxS : SNode := .dir [nS] [([97], .file [nS, [97]] 1)]
def cxB : SNode := .dir [nB] [([107], .dir [nT] [])]
def cxItems : List DerefSrc := [⟨plainPath [nS], nS, cxS⟩, ⟨plainPath [nB], nB, cxB⟩]

/-- the trees seen through the links, in the initial state -/
example : derefS cxFs walkFuel [nS] [] = some cxS ∧ derefS cxFs walkFuel [nB] [] = some cxB := ⟨rfl, rfl⟩
/-- no leaf is read from a target region -/
example : ∀ e ∈ cxItems, ∀ e' ∈ cxItems, ReadsAway e.s ([nT] ++ [e'.base]) := by decide
/-- the concatenated lists computed in the initial state give the overlay: `/T/B/k` is an empty directory … -/
example : (execOps cxFs cxCfg (multiOpsD cxFs cxCfg (plainPath [nT]) cxItems)).fs.root.getAt [nT, nB, [107]] =
    some (.dir []) := by rfl
/-- … but `runSources` copies the already copied `/T/S` into it -/
example : (runSources cxFs cxCfg [] (plainPath [nT]) (cxItems.map (·.path))).fs.root.getAt [nT, nB, [107]] =
    some (.dir [(nS, .dir [([97], .file 1)])]) := by rfl
/-- and the decidable condition rejects the instance -/
example : derefAway cxFs (targetsOf [nT] cxItems) walkFuel [nB] [] = false := by rfl

end MultiDerefCounterExample

end Xcp
