import XcpProofs.Legal
import XcpProofs.Bytes
/-! The copy loops under an adversarial but legal kernel: when a loop reports success, the bytes it moved
cover exactly the range it was asked to copy; and under the progress assumption it never spins. -/
namespace Xcp

/-- all jobs of an event list lie inside a file of length `len` -/
def JobsIn (evs : List Ev) (len : Nat) : Prop := ∀ j ∈ jobsOf evs, j.1 + j.2 ≤ len

theorem rangeUspace_ok (k : Kern) (len : Nat) (hs : KernSafe k len) :
    ∀ (fuel a off nbytes w n : Nat), w ≤ nbytes →
      (rangeUspace k fuel a off nbytes w).stop = .ok n →
      n = nbytes ∧ JobsIn (rangeUspace k fuel a off nbytes w).evs len ∧
      ∀ i, covered (jobsOf (rangeUspace k fuel a off nbytes w).evs) i ↔ off + w ≤ i ∧ i < off + nbytes := by
  sorry

theorem bytesUspace_ok (k : Kern) (len : Nat) (hs : KernSafe k len) :
    ∀ (fuel a pos nbytes w n : Nat), w ≤ nbytes →
      (bytesUspace k fuel a pos nbytes w).stop = .ok n →
      n = nbytes ∧ JobsIn (bytesUspace k fuel a pos nbytes w).evs len ∧
      ∀ i, covered (jobsOf (bytesUspace k fuel a pos nbytes w).evs) i ↔ pos + w ≤ i ∧ i < pos + nbytes := by
  sorry

/-- `copy_file_offset` with the retry loop: on success the moved bytes are exactly the block clipped at EOF -/
theorem copyFileOffset_ok (k : Kern) (len : Nat) (hs : KernSafe k len) (hl : KernLive k len) :
    ∀ (fuel a off bytes c n : Nat), c ≤ bytes →
      (copyFileOffset k fuel a off bytes c).stop = .ok n →
      c ≤ n ∧ n ≤ bytes ∧ JobsIn (copyFileOffset k fuel a off bytes c).evs len ∧
      ∀ i, covered (jobsOf (copyFileOffset k fuel a off bytes c).evs) i ↔
            off + c ≤ i ∧ i < min (off + bytes) len := by
  sorry

/-- the returned count is what was copied: `off + n = min (off + bytes) len` when the block starts inside the file -/
theorem copyFileOffset_count (k : Kern) (len : Nat) (hs : KernSafe k len) (hl : KernLive k len) :
    ∀ (fuel a off bytes c n : Nat), c ≤ bytes → off + c ≤ len →
      (copyFileOffset k fuel a off bytes c).stop = .ok n → off + n = min (off + bytes) len := by
  sorry

/-- with enough fuel the retry loop never spins -/
theorem copyFileOffset_no_spin (k : Kern) (len : Nat) (hs : KernSafe k len) (hl : KernLive k len) :
    ∀ (fuel a off bytes c : Nat), c ≤ bytes → bytes - c < fuel →
      (copyFileOffset k fuel a off bytes c).stop ≠ .spin := by
  sorry

/-- parfile's `copy_bytes`: returns only when everything asked for has been moved -/
theorem copyBytes_ok (k : Kern) (len : Nat) (hs : KernSafe k len) (linux : Bool) (b : Nat) :
    ∀ (fuel a pos n w r : Nat), w ≤ n →
      (copyBytes k linux b fuel a pos n w).stop = .ok r →
      r = n ∧ JobsIn (copyBytes k linux b fuel a pos n w).evs len ∧
      (∀ i, covered (jobsOf (copyBytes k linux b fuel a pos n w).evs) i ↔ pos + w ≤ i ∧ i < pos + n) := by
  sorry

/-- `Copied` updates of `copy_bytes` sum to what was moved -/
theorem copyBytes_copied (k : Kern) (len : Nat) (hs : KernSafe k len) (linux : Bool) (b : Nat) :
    ∀ (fuel a pos n w r : Nat), w ≤ n →
      (copyBytes k linux b fuel a pos n w).stop = .ok r →
      (copiedOf (copyBytes k linux b fuel a pos n w).evs).sum + w = n := by
  sorry

/-- with a positive block size, a live kernel and the range inside the file, `copy_bytes` does not spin -/
theorem copyBytes_no_spin (k : Kern) (len : Nat) (hs : KernSafe k len) (hl : KernLive k len) (linux : Bool)
    (b : Nat) (hb : 0 < b) (hne : ∀ a off req, k a .read off req ≠ .err .EINTR) :
    ∀ (fuel a pos n w : Nat), w ≤ n → pos + n ≤ len → n - w < fuel →
      (copyBytes k linux b fuel a pos n w).stop ≠ .spin := by
  sorry

/-- `copy_sparse`: on success the destination (zeros of the source's length, as left by create+ftruncate)
becomes the source, whatever the layout, for every legal kernel and legal seek oracle -/
theorem copySparse_exact (k : Kern) (s : SeekOracle) (src : Bytes) (hs : KernSafe k src.length)
    (hl : SeekLegal s src) (b : Nat) (fuel a : Nat) (n : Nat)
    (h : (copySparse k s b src.length fuel a 0).stop = .ok n) :
    runJobs src (List.replicate src.length 0) (jobsOf (copySparse k s b src.length fuel a 0).evs) = src := by
  sorry

end Xcp
