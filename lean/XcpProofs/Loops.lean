import XcpProofs.Legal
import XcpProofs.Bytes
/-! The copy loops under an adversarial but legal kernel: when a loop reports success, the bytes it moved
cover exactly the range it was asked to copy; and under the progress assumption it never spins. -/
namespace Xcp

/-- all jobs of an event list lie inside a file of length `len` -/
def JobsIn (evs : List Ev) (len : Nat) : Prop := ∀ j ∈ jobsOf evs, j.1 + j.2 ≤ len

/-! ## Coverage and event-list helpers -/

@[simp] theorem covered_nil (i : Nat) : covered [] i ↔ False := by simp [covered]
@[simp] theorem covered_cons (j : Nat × Nat) (l : List (Nat × Nat)) (i : Nat) :
    covered (j :: l) i ↔ (j.1 ≤ i ∧ i < j.1 + j.2) ∨ covered l i := by simp [covered]
@[simp] theorem covered_append (l1 l2 : List (Nat × Nat)) (i : Nat) :
    covered (l1 ++ l2) i ↔ covered l1 i ∨ covered l2 i := by
  simp [covered, or_and_right, exists_or]

theorem jobsOf_append (l1 l2 : List Ev) : jobsOf (l1 ++ l2) = jobsOf l1 ++ jobsOf l2 := by
  fun_induction jobsOf l1 <;> simp_all [jobsOf]

theorem copiedOf_append (l1 l2 : List Ev) : copiedOf (l1 ++ l2) = copiedOf l1 ++ copiedOf l2 := by
  fun_induction copiedOf l1 <;> simp_all [copiedOf]

@[simp] theorem Run.pre_evs (es : List Ev) (r : Run) : (r.pre es).evs = es ++ r.evs := rfl
@[simp] theorem Run.pre_stop (es : List Ev) (r : Run) : (r.pre es).stop = r.stop := rfl
@[simp] theorem Run.pre_next (es : List Ev) (r : Run) : (r.pre es).next = r.next := rfl
@[simp] theorem Run.cons_evs (e : Ev) (r : Run) : (r.cons e).evs = e :: r.evs := rfl
@[simp] theorem Run.cons_stop (e : Ev) (r : Run) : (r.cons e).stop = r.stop := rfl
@[simp] theorem Run.cons_next (e : Ev) (r : Run) : (r.cons e).next = r.next := rfl

/-! ## The user-space loops -/

/-- what a user-space loop guarantees when it reports `ok`: it moved all `nb` bytes, inside the file,
covering exactly `[lo, hi)` -/
def OkSpec (len : Nat) (R : Run) (nb lo hi : Nat) : Prop :=
  ∀ n, R.stop = .ok n → n = nb ∧ JobsIn R.evs len ∧ ∀ i, covered (jobsOf R.evs) i ↔ lo ≤ i ∧ i < hi

theorem OkSpec_fail (len : Nat) (evs : List Ev) (e : CopyErr) (a nb lo hi : Nat) :
    OkSpec len ⟨evs, .fail e, a⟩ nb lo hi := by
  intro n h; simp at h

theorem OkSpec_done (len : Nat) (a w nb lo : Nat) (h : ¬ w < nb) (hw : w ≤ nb) :
    OkSpec len ⟨[], .ok w, a⟩ nb (lo + w) (lo + nb) := by
  intro n hn
  simp at hn
  subst hn
  have : w = nb := by omega
  subst this
  simp [JobsIn, jobsOf]

/-- prepend events whose only job is `(lo, m)` -/
theorem OkSpec_pre (len : Nat) (R : Run) (es : List Ev) (nb lo m hi : Nat)
    (hj : jobsOf es = [(lo, m)]) (h1 : lo + m ≤ len) (h2 : lo + m ≤ hi)
    (h : OkSpec len R nb (lo + m) hi) : OkSpec len (R.pre es) nb lo hi := by
  intro n hn
  obtain ⟨e1, e2, e3⟩ := h n hn
  refine ⟨e1, ?_, ?_⟩
  · intro j hj'
    simp [jobsOf_append, hj] at hj'
    rcases hj' with rfl | hj'
    · exact h1
    · exact e2 j hj'
  · intro i
    simp [jobsOf_append, hj, e3]; omega

/-- prepend events without jobs -/
theorem OkSpec_pre0 (len : Nat) (R : Run) (es : List Ev) (nb lo hi : Nat)
    (hj : jobsOf es = [])
    (h : OkSpec len R nb lo hi) : OkSpec len (R.pre es) nb lo hi := by
  intro n hn
  obtain ⟨e1, e2, e3⟩ := h n hn
  refine ⟨e1, ?_, ?_⟩
  · intro j hj'
    simp [jobsOf_append, hj] at hj'
    exact e2 j hj'
  · intro i
    simp [jobsOf_append, hj, e3]

theorem rangeUspace_spec (k : Kern) (len : Nat) (hs : KernSafe k len) :
    ∀ (fuel a off nbytes w : Nat), w ≤ nbytes →
      OkSpec len (rangeUspace k fuel a off nbytes w) nbytes (off + w) (off + nbytes) := by
  intro fuel
  induction fuel with
  | zero =>
    intro a off nbytes w hw
    simp only [rangeUspace]
    split
    · intro n h; simp at h
    · exact OkSpec_done _ _ _ _ _ ‹_› hw
  | succ f ih =>
    intro a off nbytes w hw
    unfold rangeUspace
    simp only []
    split
    · split
      · apply OkSpec_fail
      · rename_i rlen h0 hra
        obtain ⟨b1, b2⟩ := hs _ _ _ _ _ hra
        simp at b2
        have hr : rlen ≠ 0 := h0
        split
        · split
          · apply OkSpec_fail
          · have := ih (a+2) off nbytes (w + rlen) (by omega)
            apply OkSpec_pre len _ _ nbytes (off + w) rlen (off + nbytes)
            · simp [jobsOf]
            · omega
            · omega
            · rw [Nat.add_assoc]; exact this
        · apply OkSpec_fail
      · apply OkSpec_fail
    · exact OkSpec_done _ _ _ _ _ ‹_› hw

theorem rangeUspace_ok (k : Kern) (len : Nat) (hs : KernSafe k len) :
    ∀ (fuel a off nbytes w n : Nat), w ≤ nbytes →
      (rangeUspace k fuel a off nbytes w).stop = .ok n →
      n = nbytes ∧ JobsIn (rangeUspace k fuel a off nbytes w).evs len ∧
      ∀ i, covered (jobsOf (rangeUspace k fuel a off nbytes w).evs) i ↔ off + w ≤ i ∧ i < off + nbytes :=
  fun fuel a off nbytes w n hw h => rangeUspace_spec k len hs fuel a off nbytes w hw n h
theorem bytesUspace_spec (k : Kern) (len : Nat) (hs : KernSafe k len) :
    ∀ (fuel a pos nbytes w : Nat), w ≤ nbytes →
      OkSpec len (bytesUspace k fuel a pos nbytes w) nbytes (pos + w) (pos + nbytes) := by
  intro fuel
  induction fuel with
  | zero =>
    intro a pos nbytes w hw
    simp only [bytesUspace]
    split
    · intro n h; simp at h
    · exact OkSpec_done _ _ _ _ _ ‹_› hw
  | succ f ih =>
    intro a pos nbytes w hw
    unfold bytesUspace
    simp only []
    split
    · split
      · apply OkSpec_fail
      · rename_i rlen h0 hra
        obtain ⟨b1, b2⟩ := hs _ _ _ _ _ hra
        simp at b2
        have hr : rlen ≠ 0 := h0
        split
        · rename_i hwa
          have := ih (a+2) pos nbytes (w + rlen) (by omega)
          apply OkSpec_pre len _ _ nbytes (pos + w) rlen (pos + nbytes)
          · simp [jobsOf, hwa]
          · omega
          · omega
          · rw [Nat.add_assoc]; exact this
        · apply OkSpec_fail
      · have := ih (a+1) pos nbytes w hw
        exact OkSpec_pre0 len _ [_] nbytes _ _ (by simp [jobsOf]) this
      · apply OkSpec_fail
    · exact OkSpec_done _ _ _ _ _ ‹_› hw

theorem bytesUspace_ok (k : Kern) (len : Nat) (hs : KernSafe k len) :
    ∀ (fuel a pos nbytes w n : Nat), w ≤ nbytes →
      (bytesUspace k fuel a pos nbytes w).stop = .ok n →
      n = nbytes ∧ JobsIn (bytesUspace k fuel a pos nbytes w).evs len ∧
      ∀ i, covered (jobsOf (bytesUspace k fuel a pos nbytes w).evs) i ↔ pos + w ≤ i ∧ i < pos + nbytes :=
  fun fuel a pos nbytes w n hw h => bytesUspace_spec k len hs fuel a pos nbytes w hw n h

/-! ## `copy_file_offset` -/

theorem classifyCfr_done {x : IoAns} {n : Nat} (h : classifyCfr x = .done n) : x = .moved n := by
  unfold classifyCfr at h; split at h <;> simp_all

theorem classifyCfr_err {x : IoAns} (h : ∀ n, classifyCfr x ≠ .done n) : ∃ e, x = .err e := by
  cases x with
  | moved n => exact absurd rfl (h n)
  | err e => exact ⟨e, rfl⟩

theorem covered_lt_of_JobsIn {evs : List Ev} {len i : Nat} (h : JobsIn evs len)
    (hc : covered (jobsOf evs) i) : i < len := by
  obtain ⟨j, hj, h1, h2⟩ := hc
  have := h j hj
  omega

/-- success of `copy_file_offset` (loop variable `c`), started at or before end of file -/
def CfoSpec (len off bytes c : Nat) (R : Run) : Prop :=
  ∀ n, R.stop = .ok n → c ≤ n ∧ n ≤ bytes ∧ off + n = min (off + bytes) len ∧ JobsIn R.evs len ∧
    ∀ i, covered (jobsOf R.evs) i ↔ off + c ≤ i ∧ i < min (off + bytes) len

theorem CfoSpec_done (len off bytes c a : Nat) (h : ¬ c < bytes) (hc : c ≤ bytes) (hl : off + c ≤ len) :
    CfoSpec len off bytes c ⟨[], .ok c, a⟩ := by
  intro n hn
  simp at hn
  subst hn
  have : c = bytes := by omega
  subst this
  refine ⟨by omega, by omega, by omega, by simp [JobsIn, jobsOf], ?_⟩
  intro i; simp [jobsOf]; omega

theorem copyFileOffset_spec (k : Kern) (len : Nat) (hs : KernSafe k len) (hl : KernLive k len) :
    ∀ (fuel a off bytes c : Nat), c ≤ bytes → off + c ≤ len →
      CfoSpec len off bytes c (copyFileOffset k fuel a off bytes c) := by
  intro fuel
  induction fuel with
  | zero =>
    intro a off bytes c hc hlen
    simp only [copyFileOffset]
    split
    · intro n h; simp at h
    · exact CfoSpec_done _ _ _ _ _ ‹_› hc hlen
  | succ f ih =>
    intro a off bytes c hc hlen
    unfold copyFileOffset
    simp only []
    split
    · rename_i hlt
      split
      · rename_i hcl
        have hca := classifyCfr_done hcl
        have hlive := hl a .cfr (off + c) (bytes - c) (by simp) (by omega)
        have : len ≤ off + c := by
          apply Nat.le_of_not_lt; intro h; exact hlive h hca
        intro n hn
        simp at hn
        subst hn
        refine ⟨by omega, by omega, by omega, ?_, ?_⟩
        · simp [JobsIn, jobsOf, hca]; omega
        · intro i; simp [jobsOf, hca]; omega
      · rename_i n h0 hcl
        have hca := classifyCfr_done hcl
        obtain ⟨b1, b2⟩ := hs _ _ _ _ _ hca
        simp at b2
        have hn0 : n ≠ 0 := h0
        have := ih (a+1) off bytes (c + n) (by omega) (by omega)
        intro m hm
        obtain ⟨e1, e2, e3, e4, e5⟩ := this m hm
        refine ⟨by omega, e2, e3, ?_, ?_⟩
        · intro j hj
          simp [jobsOf, hca] at hj
          rcases hj with rfl | hj
          · simp; omega
          · exact e4 j hj
        · intro i
          simp [jobsOf, hca, e5]; omega
      · intro n h; simp at h
      · rename_i hcl
        obtain ⟨e, hca⟩ := classifyCfr_err (x := k a .cfr (off + c) (bytes - c)) (by simp [hcl])
        have hr := rangeUspace_spec k len hs (bytes - c + 1) (a+1) (off + c) (bytes - c) 0 (by omega)
        split
        · rename_i rest hrest
          obtain ⟨e1, e2, e3⟩ := hr rest hrest
          have hcov : off + bytes ≤ len := by
            have := covered_lt_of_JobsIn e2 ((e3 (off + bytes - 1)).mpr (by omega))
            omega
          intro n hn
          simp at hn
          subst hn
          refine ⟨by omega, by omega, by omega, ?_, ?_⟩
          · intro j hj
            simp [jobsOf, hca] at hj
            exact e2 j hj
          · intro i
            simp [jobsOf, hca, e3]; omega
        · rename_i hnot
          intro n hn
          simp at hn
          exact absurd hn (hnot n)
    · exact CfoSpec_done _ _ _ _ _ ‹_› hc hlen

/- The statement originally given for `copyFileOffset_ok` had no hypothesis `off + c ≤ len`, and is FALSE
without it: a block that starts beyond the end of the file gets the answer `moved 0` (legal: `KernSafe` and
`KernLive` hold), the loop returns `ok c` and its event list holds the zero-length job `(off + c, 0)`, which
does not satisfy `JobsIn` (`off + c + 0 ≤ len` fails).  Concretely: `len = 0`, `off = 5`, `bytes = 1`,
`c = 0`, `fuel = 1`, kernel answering `moved 0` to everything — checked below.  The repaired statement adds
`off + c ≤ len` (the block starts inside the file or at its end), the same hypothesis `copyFileOffset_count`
already had. -/
example : let k : Kern := fun _ _ _ _ => .moved 0
    KernSafe k 0 ∧ KernLive k 0 ∧ (copyFileOffset k 1 0 5 1 0).stop = .ok 0 ∧
    ¬ JobsIn (copyFileOffset k 1 0 5 1 0).evs 0 := by
  refine ⟨?_, ?_, by decide, ?_⟩
  · intro a s off req n h; simp at h; subst h; simp
  · intro a s off req _ _ h; omega
  · intro h; have := h (5, 0) (by decide); simp at this

/-- `copy_file_offset` with the retry loop: on success the moved bytes are exactly the block clipped at EOF
(statement changed: hypothesis `off + c ≤ len` added, see the counter-example above) -/
theorem copyFileOffset_ok (k : Kern) (len : Nat) (hs : KernSafe k len) (hl : KernLive k len) :
    ∀ (fuel a off bytes c n : Nat), c ≤ bytes → off + c ≤ len →
      (copyFileOffset k fuel a off bytes c).stop = .ok n →
      c ≤ n ∧ n ≤ bytes ∧ JobsIn (copyFileOffset k fuel a off bytes c).evs len ∧
      ∀ i, covered (jobsOf (copyFileOffset k fuel a off bytes c).evs) i ↔
            off + c ≤ i ∧ i < min (off + bytes) len := by
  intro fuel a off bytes c n hc hlen h
  obtain ⟨e1, e2, _, e4, e5⟩ := copyFileOffset_spec k len hs hl fuel a off bytes c hc hlen n h
  exact ⟨e1, e2, e4, e5⟩

/-- the returned count is what was copied: `off + n = min (off + bytes) len` when the block starts inside the file -/
theorem copyFileOffset_count (k : Kern) (len : Nat) (hs : KernSafe k len) (hl : KernLive k len) :
    ∀ (fuel a off bytes c n : Nat), c ≤ bytes → off + c ≤ len →
      (copyFileOffset k fuel a off bytes c).stop = .ok n → off + n = min (off + bytes) len := by
  intro fuel a off bytes c n hc hlen h
  exact (copyFileOffset_spec k len hs hl fuel a off bytes c hc hlen n h).2.2.1

theorem rangeUspace_no_spin (k : Kern) (len : Nat) (hs : KernSafe k len) :
    ∀ (fuel a off nbytes w : Nat), w ≤ nbytes → nbytes - w < fuel →
      (rangeUspace k fuel a off nbytes w).stop ≠ .spin := by
  intro fuel
  induction fuel with
  | zero => intro a off nbytes w hw hf; omega
  | succ f ih =>
    intro a off nbytes w hw hf
    unfold rangeUspace
    simp only []
    split
    · split
      · simp
      · rename_i rlen h0 hra
        obtain ⟨b1, b2⟩ := hs _ _ _ _ _ hra
        have hr : rlen ≠ 0 := h0
        split
        · split
          · simp
          · exact ih (a+2) off nbytes (w + rlen) (by omega) (by omega)
        · simp
      · simp
    · simp

theorem bytesUspace_no_spin (k : Kern) (len : Nat) (hs : KernSafe k len)
    (hne : ∀ a off req, k a .read off req ≠ .err .EINTR) :
    ∀ (fuel a pos nbytes w : Nat), w ≤ nbytes → nbytes - w < fuel →
      (bytesUspace k fuel a pos nbytes w).stop ≠ .spin := by
  intro fuel
  induction fuel with
  | zero => intro a pos nbytes w hw hf; omega
  | succ f ih =>
    intro a pos nbytes w hw hf
    unfold bytesUspace
    simp only []
    split
    · split
      · simp
      · rename_i rlen h0 hra
        obtain ⟨b1, b2⟩ := hs _ _ _ _ _ hra
        have hr : rlen ≠ 0 := h0
        split
        · exact ih (a+2) pos nbytes (w + rlen) (by omega) (by omega)
        · simp
      · rename_i hra
        exact absurd hra (hne _ _ _)
      · simp
    · simp

/-- with enough fuel the retry loop never spins -/
theorem copyFileOffset_no_spin (k : Kern) (len : Nat) (hs : KernSafe k len) (hl : KernLive k len) :
    ∀ (fuel a off bytes c : Nat), c ≤ bytes → bytes - c < fuel →
      (copyFileOffset k fuel a off bytes c).stop ≠ .spin := by
  intro fuel
  induction fuel with
  | zero => intro a off bytes c hc hf; omega
  | succ f ih =>
    intro a off bytes c hc hf
    have _ := hl
    unfold copyFileOffset
    simp only []
    split
    · split
      · simp
      · rename_i n h0 hcl
        have hca := classifyCfr_done hcl
        obtain ⟨b1, b2⟩ := hs _ _ _ _ _ hca
        have hn0 : n ≠ 0 := h0
        exact ih (a+1) off bytes (c + n) (by omega) (by omega)
      · simp
      · have hr := rangeUspace_no_spin k len hs (bytes - c + 1) (a+1) (off + c) (bytes - c) 0 (by omega) (by omega)
        split
        · simp
        · exact hr
    · simp

/-! ## `copy_bytes` -/

theorem copiedOf_bytesUspace (k : Kern) :
    ∀ (fuel a pos nbytes w : Nat), copiedOf (bytesUspace k fuel a pos nbytes w).evs = [] := by
  intro fuel
  induction fuel with
  | zero => intro a pos nbytes w; simp [bytesUspace, copiedOf]
  | succ f ih =>
    intro a pos nbytes w
    unfold bytesUspace
    simp only []
    split
    · split
      · simp [copiedOf]
      · split
        · simp [copiedOf, ih]
        · simp [copiedOf]
      · simp [copiedOf, ih]
      · simp [copiedOf]
    · simp [copiedOf]

/-- the one `copy_file_bytes` call of an iteration of `copy_bytes`, on either backend -/
def cbStep (k : Kern) (linux : Bool) (a p req : Nat) : Run :=
  if linux then copyFileBytes k a p req else copyFileBytesFallback k a p req

theorem copyBytes_succ (k : Kern) (linux : Bool) (b f a pos n w : Nat) :
    copyBytes k linux b (f+1) a pos n w =
      if w < n then
        match (cbStep k linux a (pos + w) (min (n - w) b)).stop with
        | .ok m => (copyBytes k linux b f (cbStep k linux a (pos + w) (min (n - w) b)).next pos n (w + m)).pre
                    ((cbStep k linux a (pos + w) (min (n - w) b)).evs ++ [.copied m])
        | _ => cbStep k linux a (pos + w) (min (n - w) b)
      else ⟨[], .ok w, a⟩ := rfl

/-- one successful `copy_file_bytes(req)` at cursor `p`: it moved `m ≤ req` bytes `[p, p+m)`; a zero-length
`copy_file_range` leaves the empty job `(p, 0)`, which lies in the file iff `p ≤ len` -/
def StepSpec (len p req : Nat) (R : Run) : Prop :=
  ∀ m, R.stop = .ok m → m ≤ req ∧ (0 < m → p + m ≤ len) ∧ (p ≤ len → JobsIn R.evs len) ∧
    (∀ i, covered (jobsOf R.evs) i ↔ p ≤ i ∧ i < p + m) ∧ copiedOf R.evs = []

theorem copyFileBytesFallback_step (k : Kern) (len : Nat) (hs : KernSafe k len) (a p req : Nat) :
    StepSpec len p req (copyFileBytesFallback k a p req) := by
  intro m hm
  unfold copyFileBytesFallback at hm ⊢
  obtain ⟨e1, e2, e3⟩ := bytesUspace_spec k len hs _ _ _ _ 0 (Nat.zero_le _) m hm
  subst e1
  refine ⟨Nat.le_refl _, ?_, fun _ => e2, ?_, copiedOf_bytesUspace ..⟩
  · intro h0
    have := covered_lt_of_JobsIn e2 ((e3 (p + m - 1)).mpr (by omega))
    omega
  · intro i; rw [e3]; omega

theorem copyFileBytes_step (k : Kern) (len : Nat) (hs : KernSafe k len) (a p req : Nat) :
    StepSpec len p req (copyFileBytes k a p req) := by
  unfold copyFileBytes
  simp only []
  split
  · rename_i n hcl
    have hca := classifyCfr_done hcl
    obtain ⟨b1, b2⟩ := hs _ _ _ _ _ hca
    simp at b2
    intro m hm
    simp at hm
    subst hm
    refine ⟨b1, by omega, ?_, ?_, by simp [copiedOf]⟩
    · intro hp; simp [JobsIn, jobsOf, hca]; omega
    · intro i; simp [jobsOf, hca]
  · intro m hm; simp at hm
  · rename_i hcl
    obtain ⟨e, hca⟩ := classifyCfr_err (x := k a .cfr p req) (by simp [hcl])
    intro m hm
    obtain ⟨e1, e2, e3, e4, e5⟩ := copyFileBytesFallback_step k len hs (a+1) p req m hm
    refine ⟨e1, e2, ?_, ?_, ?_⟩
    · intro hp j hj
      simp [jobsOf, hca] at hj
      exact e3 hp j hj
    · intro i
      rw [← e4]
      simp [jobsOf, hca, copyFileBytesFallback]
    · simpa [copiedOf, hca, copyFileBytesFallback] using e5

theorem cbStep_step (k : Kern) (len : Nat) (hs : KernSafe k len) (linux : Bool) (a p req : Nat) :
    StepSpec len p req (cbStep k linux a p req) := by
  cases linux
  · exact copyFileBytesFallback_step k len hs a p req
  · exact copyFileBytes_step k len hs a p req

/-- success of `copy_bytes` (loop variable `w`) -/
def CbSpec (len pos n w : Nat) (R : Run) : Prop :=
  ∀ r, R.stop = .ok r → r = n ∧ (w < n → pos + w < len) ∧ JobsIn R.evs len ∧
    (∀ i, covered (jobsOf R.evs) i ↔ pos + w ≤ i ∧ i < pos + n) ∧ (copiedOf R.evs).sum + w = n

theorem CbSpec_done (len pos n w a : Nat) (h : ¬ w < n) (hw : w ≤ n) :
    CbSpec len pos n w ⟨[], .ok w, a⟩ := by
  intro r hr
  simp at hr
  subst hr
  have : w = n := by omega
  subst this
  refine ⟨rfl, by omega, by simp [JobsIn, jobsOf], ?_, by simp [copiedOf]⟩
  intro i; simp [jobsOf]

theorem copyBytes_spec (k : Kern) (len : Nat) (hs : KernSafe k len) (linux : Bool) (b : Nat) :
    ∀ (fuel a pos n w : Nat), w ≤ n → CbSpec len pos n w (copyBytes k linux b fuel a pos n w) := by
  intro fuel
  induction fuel with
  | zero =>
    intro a pos n w hw
    simp only [copyBytes]
    split
    · intro r h; simp at h
    · exact CbSpec_done _ _ _ _ _ ‹_› hw
  | succ f ih =>
    intro a pos n w hw
    rw [copyBytes_succ]
    split
    · rename_i hlt
      have hstep := cbStep_step k len hs linux a (pos + w) (min (n - w) b)
      generalize cbStep k linux a (pos + w) (min (n - w) b) = R at hstep ⊢
      split
      · rename_i m hm
        obtain ⟨s1, s2, s3, s4, s5⟩ := hstep m hm
        have hih := ih R.next pos n (w + m) (by omega)
        intro r hr
        obtain ⟨e1, e2, e3, e4, e5⟩ := hih r hr
        have hpl : pos + w < len := by
          by_cases hm0 : m = 0
          · subst hm0; exact e2 hlt
          · have := s2 (by omega); omega
        refine ⟨e1, fun _ => hpl, ?_, ?_, ?_⟩
        · intro j hj
          simp [jobsOf_append, jobsOf] at hj
          rcases hj with hj | hj
          · exact s3 (by omega) j hj
          · exact e3 j hj
        · intro i
          simp [jobsOf_append, jobsOf, s4, e4]; omega
        · simp [copiedOf_append, copiedOf, s5]; omega
      · rename_i hnot
        intro r hr
        exact absurd hr (hnot r)
    · exact CbSpec_done _ _ _ _ _ ‹_› hw

/-- parfile's `copy_bytes`: returns only when everything asked for has been moved -/
theorem copyBytes_ok (k : Kern) (len : Nat) (hs : KernSafe k len) (linux : Bool) (b : Nat) :
    ∀ (fuel a pos n w r : Nat), w ≤ n →
      (copyBytes k linux b fuel a pos n w).stop = .ok r →
      r = n ∧ JobsIn (copyBytes k linux b fuel a pos n w).evs len ∧
      (∀ i, covered (jobsOf (copyBytes k linux b fuel a pos n w).evs) i ↔ pos + w ≤ i ∧ i < pos + n) := by
  intro fuel a pos n w r hw h
  obtain ⟨e1, _, e3, e4, _⟩ := copyBytes_spec k len hs linux b fuel a pos n w hw r h
  exact ⟨e1, e3, e4⟩

/-- `Copied` updates of `copy_bytes` sum to what was moved -/
theorem copyBytes_copied (k : Kern) (len : Nat) (hs : KernSafe k len) (linux : Bool) (b : Nat) :
    ∀ (fuel a pos n w r : Nat), w ≤ n →
      (copyBytes k linux b fuel a pos n w).stop = .ok r →
      (copiedOf (copyBytes k linux b fuel a pos n w).evs).sum + w = n := by
  intro fuel a pos n w r hw h
  exact (copyBytes_spec k len hs linux b fuel a pos n w hw r h).2.2.2.2

/-- one `copy_file_bytes` call on a non-empty request strictly inside the file: no spin, and progress -/
theorem cbStep_live (k : Kern) (len : Nat) (hs : KernSafe k len) (hl : KernLive k len) (linux : Bool)
    (hne : ∀ a off req, k a .read off req ≠ .err .EINTR) (a p req : Nat) (hreq : 0 < req) (hp : p < len) :
    (cbStep k linux a p req).stop ≠ .spin ∧ ∀ m, (cbStep k linux a p req).stop = .ok m → 0 < m := by
  have hfb : ∀ a, (copyFileBytesFallback k a p req).stop ≠ .spin ∧
      ∀ m, (copyFileBytesFallback k a p req).stop = .ok m → 0 < m := by
    intro a
    unfold copyFileBytesFallback
    refine ⟨bytesUspace_no_spin k len hs hne _ _ _ _ 0 (by omega) (by omega), ?_⟩
    intro m hm
    have := (bytesUspace_spec k len hs _ _ _ _ 0 (Nat.zero_le _) m hm).1
    omega
  cases linux
  · exact hfb a
  · simp only [cbStep, if_true]
    unfold copyFileBytes
    simp only []
    split
    · rename_i n hcl
      have hca := classifyCfr_done hcl
      have hlive := hl a .cfr p req (by simp) hreq hp
      refine ⟨by simp, ?_⟩
      intro m hm
      simp at hm
      subst hm
      apply Nat.pos_of_ne_zero
      intro h0
      subst h0
      exact hlive hca
    · simp
    · exact hfb (a+1)

/-- with a positive block size, a live kernel and the range inside the file, `copy_bytes` does not spin -/
theorem copyBytes_no_spin (k : Kern) (len : Nat) (hs : KernSafe k len) (hl : KernLive k len) (linux : Bool)
    (b : Nat) (hb : 0 < b) (hne : ∀ a off req, k a .read off req ≠ .err .EINTR) :
    ∀ (fuel a pos n w : Nat), w ≤ n → pos + n ≤ len → n - w < fuel →
      (copyBytes k linux b fuel a pos n w).stop ≠ .spin := by
  intro fuel
  induction fuel with
  | zero => intro a pos n w hw hp hf; omega
  | succ f ih =>
    intro a pos n w hw hp hf
    rw [copyBytes_succ]
    split
    · rename_i hlt
      have hstep := cbStep_step k len hs linux a (pos + w) (min (n - w) b)
      obtain ⟨l1, l2⟩ := cbStep_live k len hs hl linux hne a (pos + w) (min (n - w) b) (by omega) (by omega)
      generalize cbStep k linux a (pos + w) (min (n - w) b) = R at hstep l1 l2 ⊢
      split
      · rename_i m hm
        have := (hstep m hm).1
        have := l2 m hm
        exact ih R.next pos n (w + m) (by omega) hp (by omega)
      · exact l1
    · simp

/-! ## `copy_sparse` -/

/-- a legal seek oracle yields a segment `pos ≤ data ≤ hole ≤ len` with only zeros skipped -/
theorem nextSparseSegments_legal (s : SeekOracle) (src : Bytes) (hl : SeekLegal s src) (pos : Nat)
    (hp : pos < src.length) :
    pos ≤ (nextSparseSegments s src.length pos).1 ∧
    (nextSparseSegments s src.length pos).1 ≤ (nextSparseSegments s src.length pos).2 ∧
    (nextSparseSegments s src.length pos).2 ≤ src.length ∧
    ∀ i, pos ≤ i → i < (nextSparseSegments s src.length pos).1 → ZeroAt src i := by
  unfold nextSparseSegments
  simp only []
  cases hd : s.data pos with
  | none =>
    simp only [hl.hole_eof src.length (Nat.le_refl _)]
    exact ⟨by omega, Nat.le_refl _, Nat.le_refl _, fun i h1 _ => hl.data_none pos hp hd i h1⟩
  | some d =>
    obtain ⟨d1, d2, d3⟩ := hl.data_some pos d hp hd
    simp only []
    cases hh : s.hole d with
    | none => exact ⟨d1, by simp; omega, by simp, d3⟩
    | some h =>
      obtain ⟨h1, h2⟩ := hl.hole_some pos d h hp hd hh
      exact ⟨d1, by simp; omega, by simpa using h2, d3⟩

/-- from `pos` on, all jobs are in bounds and whatever they leave uncovered is zero in the source -/
theorem copySparse_spec (k : Kern) (s : SeekOracle) (src : Bytes) (hs : KernSafe k src.length)
    (hl : SeekLegal s src) (b : Nat) :
    ∀ (fuel a pos n : Nat), (copySparse k s b src.length fuel a pos).stop = .ok n →
      JobsIn (copySparse k s b src.length fuel a pos).evs src.length ∧
      ∀ i, pos ≤ i → i < src.length →
        ¬ covered (jobsOf (copySparse k s b src.length fuel a pos).evs) i → src[i]? = some 0 := by
  intro fuel
  induction fuel with
  | zero =>
    intro a pos n
    simp only [copySparse]
    split
    · intro h; simp at h
    · intro _
      exact ⟨by simp [JobsIn, jobsOf], fun i h1 h2 => by omega⟩
  | succ f ih =>
    intro a pos n
    unfold copySparse
    simp only []
    split
    · rename_i hp
      obtain ⟨g1, g2, g3, g4⟩ := nextSparseSegments_legal s src hl pos hp
      generalize nextSparseSegments s src.length pos = seg at g1 g2 g3 g4 ⊢
      have hcb := copyBytes_spec k src.length hs true b (seg.2 - seg.1 + 1) a seg.1 (seg.2 - seg.1) 0
        (Nat.zero_le _)
      generalize copyBytes k true b (seg.2 - seg.1 + 1) a seg.1 (seg.2 - seg.1) 0 = R at hcb ⊢
      split
      · rename_i m hm
        obtain ⟨c1, _, c3, c4, _⟩ := hcb m hm
        intro hn
        obtain ⟨i1, i2⟩ := ih R.next seg.2 n hn
        refine ⟨?_, ?_⟩
        · intro j hj
          simp [jobsOf_append] at hj
          rcases hj with hj | hj
          · exact c3 j hj
          · exact i1 j hj
        · intro i h1 h2 hnc
          simp [jobsOf_append, c4] at hnc
          obtain ⟨n1, n2⟩ := hnc
          by_cases hi : i < seg.1
          · rcases g4 i h1 hi with h | h
            · exact h
            · omega
          · exact i2 i (by omega) h2 n2
      · rename_i hnot
        intro hn
        exact absurd hn (hnot n)
    · intro _
      exact ⟨by simp [JobsIn, jobsOf], fun i h1 h2 => by omega⟩

/-- `copy_sparse`: on success the destination (zeros of the source's length, as left by create+ftruncate)
becomes the source, whatever the layout, for every legal kernel and legal seek oracle -/
theorem copySparse_exact (k : Kern) (s : SeekOracle) (src : Bytes) (hs : KernSafe k src.length)
    (hl : SeekLegal s src) (b : Nat) (fuel a : Nat) (n : Nat)
    (h : (copySparse k s b src.length fuel a 0).stop = .ok n) :
    runJobs src (List.replicate src.length 0) (jobsOf (copySparse k s b src.length fuel a 0).evs) = src := by
  obtain ⟨h1, h2⟩ := copySparse_spec k s src hs hl b fuel a 0 n h
  exact runJobs_exact src _ h1 (fun i hi hc => h2 i (Nat.zero_le _) hi hc)

end Xcp
