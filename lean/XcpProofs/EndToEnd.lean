import XcpProofs.EndToEndLemmas
import XcpProofs.MultiSourceExample
/-! END TO END: the function the correspondence check runs against the real program, `L1run fs o texts` — main's
up-front validation followed by the sequential run over all sources — for the invocation `xcp -r s1 … sn DEST` with
`DEST` an existing directory: validation accepts (`validate_multi`) and the run ends in the initial tree with every
`DEST/bi` overlaid with the source tree `ni` (`l1run_overlay`).  Also `xcp -r S NEW` (`l1run_fresh_single`), and the
instance of `MultiSourceExample` (`l1run_instance`).

Which fields of `Opts` matter: `cfg.recursive = true` (a directory source is refused otherwise), `glob = false`
(no expansion), the argument list (`paths` = sources then destination, or `targetDir = some dest` and `paths` = the
sources).  `force` does not matter (it is only refused together with `noClobber`, which is off).  The paths are
absolute, so the working directory does not matter.  No hypothesis beyond those of `multi_overlay` is needed for the
validation: every source exists (it designates a node, through no link); `DEST` is a directory, so several sources
are fine; no source is spelled like `DEST` or its target `DEST/bi`, nor is the same file (unrelated plain paths);
a directory source meets at `DEST/bi` nothing or a directory (`Compatible`). -/
namespace Xcp

/-- main's checks accept `xcp -r s1 … sn DEST` under the hypotheses of `multi_overlay` -/
theorem validate_multi (fs : Fs) (o : Opts) (dest : RPath) (items : List CopySrc) (fuel : Nat)
    (hn : o.cfg.noClobber = false) (hnt : o.cfg.noTargetDir = false)
    (hrec : o.cfg.recursive = true) (hglob : o.glob = false)
    (hpaths : (o.targetDir = none ∧ o.paths = items.map (·.path) ++ [dest]) ∨
      (o.targetDir = some dest ∧ o.paths = items.map (·.path)))
    (hne : items ≠ [])
    (hdest : PlainTarget fs dest) (hdd : ∃ es, fs.root.getAt dest.names = some (.dir es))
    (hsrc : ∀ e ∈ items, PlainTarget fs e.path ∧ e.path.fileName = some e.base ∧
      fs.root.getAt e.path.names = some e.node ∧ e.node.Copyable fuel ∧ e.path.names.length + walkFuel < 256)
    (hun : ∀ e ∈ items, ∀ e' ∈ items,
      ¬ e.path.names <+: dest.names ++ [e'.base] ∧ ¬ dest.names ++ [e'.base] <+: e.path.names)
    (hcomp : ∀ e ∈ items, Compatible (fs.root.getAt (dest.names ++ [e.base])) e.node)
    (hlen : dest.names.length + 1 + walkFuel < 256) :
    validate fs o = .ok (items.map (·.path), dest) := by
  have hw : walkFuel = 64 := rfl
  rw [hw] at hlen
  have hde := plainTarget_eq fs dest hdest
  obtain ⟨es, hes⟩ := hdd
  have hisd : fs.isDir dest = true := by
    rw [hde, isDir_plain fs dest.names _ (by omega) hes rfl]
    rfl
  have hcs : checkSources fs o dest (items.map (·.path)) = .ok () := by
    apply checkSources_ok
    intro s hs
    obtain ⟨e, he, rfl⟩ := List.mem_map.1 hs
    obtain ⟨hp, hfn, hsn, _, hl⟩ := hsrc e he
    rw [hw] at hl
    have hpe := plainTarget_eq fs e.path hp
    have hnl : e.node.isLink = false := by
      cases hnode : e.node with
      | link t => exact absurd (hnode ▸ hsn) (hp.2.2.2 _ (List.prefix_refl _) t)
      | _ => rfl
    have hb : (plainPath e.path.names).fileName = some e.base := by rw [← hpe]; exact hfn
    rw [hde, hpe]
    exact checkSource_into_dir fs o hrec hnt dest.names e.path.names e.base e.node es hes hsn hnl hb
      (hun e he e he).1 (hcomp e he) (by omega) (by omega)
  have hex := expandSources_noglob fs o (items.map (·.path)) hglob
  have hne' : (items.map (·.path)).isEmpty = false := by
    cases items with
    | nil => exact absurd rfl hne
    | cons a r => rfl
  rcases hpaths with ⟨ht, hp⟩ | ⟨ht, hp⟩
  · simp [validate, hn, ht, hp, splitLastPath_append, hex, hne', hisd, hcs]
  · simp [validate, hn, ht, hp, hex, hne', hisd, hcs]

/-- END TO END, several sources into an existing directory: `L1run` (validation, then every source in argv order)
succeeds and ends — up to the order of directory entries — in the initial tree with each `dest/bi` overlaid with the
source tree `ni` -/
theorem l1run_overlay (fs : Fs) (o : Opts) (texts : GiTexts) (dest : RPath) (items : List CopySrc) (fuel : Nat)
    (hd : o.cfg.dereference = false) (hn : o.cfg.noClobber = false) (hg : o.cfg.gitignore = false)
    (hnt : o.cfg.noTargetDir = false)
    (hrec : o.cfg.recursive = true) (hglob : o.glob = false)
    (hpaths : (o.targetDir = none ∧ o.paths = items.map (·.path) ++ [dest]) ∨
      (o.targetDir = some dest ∧ o.paths = items.map (·.path)))
    (hne : items ≠ [])
    (hwf : FsEq fs fs)
    (hdest : PlainTarget fs dest) (hdd : ∃ es, fs.root.getAt dest.names = some (.dir es))
    (hfuel : fuel < walkFuel)
    (hsrc : ∀ e ∈ items, PlainTarget fs e.path ∧ e.path.fileName = some e.base ∧
      fs.root.getAt e.path.names = some e.node ∧ e.node.Copyable fuel ∧ e.path.names.length + walkFuel < 256)
    (hnd : (items.map (·.base)).Nodup)
    (hun : ∀ e ∈ items, ∀ e' ∈ items,
      ¬ e.path.names <+: dest.names ++ [e'.base] ∧ ¬ dest.names ++ [e'.base] <+: e.path.names)
    (hcomp : ∀ e ∈ items, Compatible (fs.root.getAt (dest.names ++ [e.base])) e.node)
    (hlen : dest.names.length + 1 + walkFuel < 256) :
    ∃ fs', L1run fs o texts = ⟨.ok, fs'⟩ ∧
      FsEq fs' { fs with root := overlayAll fs.root dest.names items fs.root } := by
  have hv := validate_multi fs o dest items fuel hn hnt hrec hglob hpaths hne hdest hdd hsrc hun hcomp hlen
  simp only [L1run, hv]
  exact multi_overlay fs o.cfg texts dest items fuel hd hn hg hnt hwf hdest hdd hfuel hsrc hnd hun hcomp hlen

/-- END TO END, `xcp -r S NEW`: the destination does not exist, its parent is a directory; the target is the
destination itself and the run leaves the source tree there -/
theorem l1run_fresh_single (fs : Fs) (o : Opts) (texts : GiTexts) (src dest : RPath) (srcNode : Node) (fuel : Nat)
    (hd : o.cfg.dereference = false) (hn : o.cfg.noClobber = false) (hg : o.cfg.gitignore = false)
    (hrec : o.cfg.recursive = true) (hglob : o.glob = false)
    (htd : o.targetDir = none) (hpaths : o.paths = [src, dest])
    (hwf : FsEq fs fs) (hroot : fs.root.isDir = true)
    (hsrc : PlainTarget fs src) (hsn : fs.root.getAt src.names = some srcNode)
    (hcop : srcNode.Copyable fuel) (hfuel : fuel < walkFuel)
    (htb : PlainTarget fs dest) (hne : dest.names ≠ []) (habs : fs.root.getAt dest.names = none)
    (hpar : ∃ es, fs.root.getAt dest.names.dropLast = some (.dir es))
    (hun1 : ¬ src.names <+: dest.names) (hun2 : ¬ dest.names <+: src.names)
    (hlen : src.names.length + walkFuel < 200 ∧ dest.names.length + walkFuel < 200) :
    ∃ fs', L1run fs o texts = ⟨.ok, fs'⟩ ∧ FsEq fs' { fs with root := fs.root.setAt dest.names srcNode } := by
  have hw : walkFuel = 64 := rfl
  rw [hw] at hfuel hlen
  have hse := plainTarget_eq fs src hsrc
  have hde := plainTarget_eq fs dest htb
  have hnl : srcNode.isLink = false := by
    cases srcNode with
    | link t => exact absurd hsn (hsrc.2.2.2 src.names (List.prefix_refl _) t)
    | _ => rfl
  obtain ⟨pes, hpes⟩ := hpar
  rcases List.eq_nil_or_concat dest.names with h0 | ⟨par, nm, h0⟩
  · exact absurd h0 hne
  simp only [List.concat_eq_append] at h0
  have hpl : par.length < 256 := by
    have := hlen.2
    rw [h0] at this
    simp only [List.length_append, List.length_cons, List.length_nil] at this
    omega
  have hpes' : fs.root.getAt par = some (.dir pes) := by
    rw [h0, List.dropLast_concat] at hpes; exact hpes
  have habs' : fs.root.getAt (par ++ [nm]) = none := by rw [← h0]; exact habs
  have hexd : fs.exists dest = false := by
    rw [hde, h0]; exact exists_false_of_absent fs par nm pes hpl hpes' habs'
  -- validation
  have hcs : checkSource fs o dest src = .ok () := by
    rw [hde, hse, h0]
    exact checkSource_to_new fs o hrec par src.names nm srcNode pes hpes' habs' hsn hnl
      (by rw [← h0]; exact hun1) (by omega) hpl
  have hv : validate fs o = .ok ([src], dest) := by
    have hex := expandSources_noglob fs o [src] hglob
    have hsp : splitLastPath [src, dest] = some (dest, [src]) := rfl
    simp [validate, hn, htd, hpaths, hsp, hex, hexd, checkSources, hcs]
  -- the run
  obtain ⟨fs', hrun, heq⟩ := mirror_fresh fs o.cfg hd hn src dest srcNode 63 hwf hroot hsrc hsn
    (copyable_mono hcop (by omega)) htb hne habs ⟨pes, hpes⟩ hun1 hun2 ⟨by omega, by omega⟩
  have hstep := runSources_cons_ok fs fs' o.cfg texts dest src dest [] hg
    (targetBase_absent fs o.cfg dest src hsrc.1 hexd) hrun
  refine ⟨fs', ?_, heq⟩
  simp only [L1run, hv]
  rw [hstep]
  rfl

/-! ## The instance of `MultiSourceExample`, end to end -/

namespace MultiSourceExample

/-- `xcp -r /A /B /D` -/
def o0 : Opts := { cfg := { recursive := true }, paths := [plainPath [nA], plainPath [nB], plainPath [nD]] }

/-- every hypothesis of `l1run_overlay` holds of the instance: validation accepts, the run succeeds and ends (up to
the order of directory entries) in the expected tree -/
theorem l1run_instance (texts : GiTexts) :
    ∃ fs', L1run fs0 o0 texts = ⟨.ok, fs'⟩ ∧ FsEq fs' { fs0 with root := expectedRoot } := by
  have h := l1run_overlay fs0 o0 texts dest0 items0 2 rfl rfl rfl rfl rfl rfl (.inl ⟨rfl, rfl⟩)
    (by simp [items0]) fs0_wf dest0_plain ⟨_, getD⟩ (by decide) h_src (by decide) h_unrel h_compat (by decide)
  rw [overlayAll_instance] at h
  exact h

example : validate fs0 o0 = .ok ([plainPath [nA], plainPath [nB]], plainPath [nD]) :=
  validate_multi fs0 o0 dest0 items0 2 rfl rfl rfl rfl (.inl ⟨rfl, rfl⟩) (by simp [items0]) dest0_plain
    ⟨_, getD⟩ h_src h_unrel h_compat (by decide)

/-- the model itself, run on the instance -/
example : (L1run fs0 o0 []).exit = .ok := by decide
example : (L1run fs0 o0 []).fs.root = expectedRoot := by rfl

end MultiSourceExample

end Xcp
