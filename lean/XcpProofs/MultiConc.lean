import XcpProofs.MultiSource
import XcpProofs.L0Fs
import XcpProofs.OverlayConcLemmas
import XcpProofs.MultiConcLemmas
/-! # Several sources into one existing directory, EVERY interleaving

The concurrent counterpart of `multi_overlay`.  In the real program the walker goes through the sources one after the
other while workers are still completing operations of earlier sources; in the concurrent model L0 this is the run
over the CONCATENATION of the per-source operation lists, each computed by `walkEntry` in the INITIAL file system
(`multiOps`; by `walk_shape` a source's list does not depend on the destination, `multiOps_eq`).  Under the
hypotheses of `multi_overlay` (minus the `runSources`-specific ones: gitignore texts, `gitignore`, `noTargetDir`):
no reachable state is failed (`multi_never_fails`), and every complete run ends with each target `dest/bi` overlaid
with its source tree `ni` — up to the order of directory entries (`multi_concurrent`).

Proof: the family invariant `MOInv` (MultiConcLemmas) gives `GoodAll` at every hand-over, which discharges the
`hand` hypothesis of `L0.fs_run_refines_sequential` for the concatenation; its Nodup / `PairIndep` follow from the
per-item facts plus unrelatedness of sibling targets; the sequential result is `execAll_overlay_inv`, the fold of
`exec_overlay` over the items. -/
namespace Xcp

open L0

/-- the concatenated walker lists are the concatenated structural lists `opsOf` -/
theorem multiOps_eq (fs : Fs) (c : Cfg) (dest : RPath) (items : List CopySrc) (fuel : Nat)
    (hd : c.dereference = false) (hn : c.noClobber = false)
    (hfuel : fuel < walkFuel)
    (hsrc : ∀ e ∈ items, PlainTarget fs e.path ∧ e.path.fileName = some e.base ∧
      fs.root.getAt e.path.names = some e.node ∧ e.node.Copyable fuel ∧ e.path.names.length + walkFuel < 256) :
    (items.flatMap fun e => walkEntry fs c none e.path (plainPath (dest.names ++ [e.base])) walkFuel [] []) =
      items.flatMap fun e => opsOf e.node e.path.names (dest.names ++ [e.base]) := by
  have hw : walkFuel = 64 := rfl
  rw [hw] at hfuel
  apply flatMap_congr_mem
  intro e he
  obtain ⟨hp, _, hsn, hcop, hl⟩ := hsrc e he
  rw [hw] at hl
  have hpe := plainTarget_eq fs e.path hp
  have hnl : e.node.isLink = false := by
    cases hnode : e.node with
    | link t => exact absurd (hnode ▸ hsn) (hp.2.2.2 _ (List.prefix_refl _) t)
    | _ => rfl
  have h1 : fs.root.getAt (e.path.names ++ []) = some e.node := by simpa using hsn
  have h2 : e.node.isLink = true → ([] : List Name) ≠ [] := fun h => by rw [hnl] at h; cases h
  have h3 : e.path.names.length + ([] : List Name).length + 63 < 256 := by
    simp only [List.length_nil]; omega
  have hshape := walk_shape fs c hd e.path.names (dest.names ++ [e.base]) (.inl hn) 63 e.node
    (copyable_mono hcop (by omega)) [] [] h1 h2 h3
  rw [← hpe] at hshape
  simp only [List.append_nil] at hshape
  rw [walkFuel_eq]
  exact hshape

/-- no interleaving of the walker (going through all sources) with the workers can make an operation fail -/
theorem multi_never_fails (fs : Fs) (c : Cfg) (dest : RPath) (items : List CopySrc) (fuel : Nat)
    (hd : c.dereference = false) (hn : c.noClobber = false)
    (hwf : FsEq fs fs)
    (hdest : PlainTarget fs dest) (hdd : ∃ es, fs.root.getAt dest.names = some (.dir es))
    (hfuel : fuel < walkFuel)
    (hsrc : ∀ e ∈ items, PlainTarget fs e.path ∧ e.path.fileName = some e.base ∧
      fs.root.getAt e.path.names = some e.node ∧ e.node.Copyable fuel ∧ e.path.names.length + walkFuel < 256)
    (hnd : (items.map (·.base)).Nodup)
    (hun : ∀ e ∈ items, ∀ e' ∈ items,
      ¬ e.path.names <+: dest.names ++ [e'.base] ∧ ¬ dest.names ++ [e'.base] <+: e.path.names)
    (hcomp : ∀ e ∈ items, Compatible (fs.root.getAt (dest.names ++ [e.base])) e.node)
    (hlen : dest.names.length + 1 + walkFuel < 256)
    (ls : List Label) (s : St)
    (hrun : run c (init fs (multiOps fs c dest items)) ls = some s) :
    s.failed = false := by
  have _ := hdest   -- implied by `hdd`; kept so that the hypotheses are those of `multi_overlay`
  obtain ⟨hops, hspec, H0, hinit, _⟩ := multi_setup fs c dest items fuel hd hn hwf hdd hfuel hsrc hnd hun hcomp hlen
  rw [hops] at hrun
  exact (MOInv.run hspec H0 c hn ls _ s hinit hrun).ok

/-- every complete run — any interleaving of the walker, going through all sources, with the completions of queued
operations — ends with every target overlaid with its source tree (up to the order of directory entries) -/
theorem multi_concurrent (fs : Fs) (c : Cfg) (dest : RPath) (items : List CopySrc) (fuel : Nat)
    (hd : c.dereference = false) (hn : c.noClobber = false)
    (hwf : FsEq fs fs)
    (hdest : PlainTarget fs dest) (hdd : ∃ es, fs.root.getAt dest.names = some (.dir es))
    (hfuel : fuel < walkFuel)
    (hsrc : ∀ e ∈ items, PlainTarget fs e.path ∧ e.path.fileName = some e.base ∧
      fs.root.getAt e.path.names = some e.node ∧ e.node.Copyable fuel ∧ e.path.names.length + walkFuel < 256)
    (hnd : (items.map (·.base)).Nodup)
    (hun : ∀ e ∈ items, ∀ e' ∈ items,
      ¬ e.path.names <+: dest.names ++ [e'.base] ∧ ¬ dest.names ++ [e'.base] <+: e.path.names)
    (hcomp : ∀ e ∈ items, Compatible (fs.root.getAt (dest.names ++ [e.base])) e.node)
    (hlen : dest.names.length + 1 + walkFuel < 256)
    (ls : List Label) (s : St)
    (hrun : run c (init fs (multiOps fs c dest items)) ls = some s)
    (hfin : final s = true) :
    FsEq s.fs { fs with root := overlayAll fs.root dest.names items fs.root } := by
  have _ := hdest
  obtain ⟨hops, hspec, H0, hinit, fs', hex, heq⟩ :=
    multi_setup fs c dest items fuel hd hn hwf hdd hfuel hsrc hnd hun hcomp hlen
  rw [hops] at hrun
  have hok : s.failed = false := (MOInv.run hspec H0 c hn ls _ s hinit hrun).ok
  have hand : ∀ (ls : List Label) (s : St) (op : Op) (r : List Op),
      run c (init fs (allOps dest.names items)) ls = some s →
      s.failed = false → s.todo = op :: r → isSync op = false →
      GoodAll (allOps dest.names items) s.fs op := by
    intro ls s op r hr _ htd _
    exact (MOInv.run hspec H0 c hn ls _ s hinit hr).goodAll hspec H0 op r htd
  obtain ⟨f, hf, hfe⟩ := fs_run_refines_sequential c fs _ hwf hspec.nodup hspec.pairIndep hand ls s hrun hfin hok
  rw [execOps_seqExec c _ fs fs' hex] at hf
  injection hf with hf
  subst hf
  exact hfe.symm.trans heq

/-- the two together -/
theorem multi_concurrent_ok (fs : Fs) (c : Cfg) (dest : RPath) (items : List CopySrc) (fuel : Nat)
    (hd : c.dereference = false) (hn : c.noClobber = false)
    (hwf : FsEq fs fs)
    (hdest : PlainTarget fs dest) (hdd : ∃ es, fs.root.getAt dest.names = some (.dir es))
    (hfuel : fuel < walkFuel)
    (hsrc : ∀ e ∈ items, PlainTarget fs e.path ∧ e.path.fileName = some e.base ∧
      fs.root.getAt e.path.names = some e.node ∧ e.node.Copyable fuel ∧ e.path.names.length + walkFuel < 256)
    (hnd : (items.map (·.base)).Nodup)
    (hun : ∀ e ∈ items, ∀ e' ∈ items,
      ¬ e.path.names <+: dest.names ++ [e'.base] ∧ ¬ dest.names ++ [e'.base] <+: e.path.names)
    (hcomp : ∀ e ∈ items, Compatible (fs.root.getAt (dest.names ++ [e.base])) e.node)
    (hlen : dest.names.length + 1 + walkFuel < 256)
    (ls : List Label) (s : St)
    (hrun : run c (init fs (multiOps fs c dest items)) ls = some s) :
    s.failed = false ∧ (final s = true →
      FsEq s.fs { fs with root := overlayAll fs.root dest.names items fs.root }) :=
  ⟨multi_never_fails fs c dest items fuel hd hn hwf hdest hdd hfuel hsrc hnd hun hcomp hlen ls s hrun,
   multi_concurrent fs c dest items fuel hd hn hwf hdest hdd hfuel hsrc hnd hun hcomp hlen ls s hrun⟩

/-- the sequential execution of the concatenation, for reference: it succeeds and gives the same overlay -/
theorem multi_sequential (fs : Fs) (c : Cfg) (dest : RPath) (items : List CopySrc) (fuel : Nat)
    (hd : c.dereference = false) (hn : c.noClobber = false)
    (hwf : FsEq fs fs)
    (hdd : ∃ es, fs.root.getAt dest.names = some (.dir es))
    (hfuel : fuel < walkFuel)
    (hsrc : ∀ e ∈ items, PlainTarget fs e.path ∧ e.path.fileName = some e.base ∧
      fs.root.getAt e.path.names = some e.node ∧ e.node.Copyable fuel ∧ e.path.names.length + walkFuel < 256)
    (hnd : (items.map (·.base)).Nodup)
    (hun : ∀ e ∈ items, ∀ e' ∈ items,
      ¬ e.path.names <+: dest.names ++ [e'.base] ∧ ¬ dest.names ++ [e'.base] <+: e.path.names)
    (hcomp : ∀ e ∈ items, Compatible (fs.root.getAt (dest.names ++ [e.base])) e.node)
    (hlen : dest.names.length + 1 + walkFuel < 256) :
    ∃ fs', execOps fs c (multiOps fs c dest items) = ⟨.ok, fs'⟩ ∧
      FsEq fs' { fs with root := overlayAll fs.root dest.names items fs.root } := by
  obtain ⟨hops, _, _, _, h⟩ := multi_setup fs c dest items fuel hd hn hwf hdd hfuel hsrc hnd hun hcomp hlen
  rw [hops]
  exact h

end Xcp
