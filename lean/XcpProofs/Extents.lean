import XcpProofs.Merge
/-! `merge_extents` boundaries / well-formedness; the FIEMAP paging loop; the SEEK_DATA/SEEK_HOLE loop. -/
namespace Xcp

/-- every merged extent starts at an input start and stops at an input stop -/
theorem merge_boundaries (l : List Extent) :
    ∀ m ∈ mergeExtents l, (∃ e ∈ l, e.start = m.start) ∧ (∃ e ∈ l, e.stop = m.stop) := by
  sorry

/-- merged output of a well-formed list is well-formed (ordered, non-empty, non-overlapping) -/
theorem merge_wf (l : List Extent) (hw : WF l) : WF (mergeExtents l) := by
  sorry

/-- the paging loop returns exactly the file's extent list, for any number of extents and any page size ≥ 1 -/
theorem mapExtents_all_pages (all : List Extent) (hw : WF all) (slots : Nat) (hs : 0 < slots) :
    mapExtents (fiemapOf all slots) (all.length + 2) = some (some all) := by
  sorry

/-- the segment loop terminates within `len + 1` iterations and its segments are ordered, inside the file -/
theorem segments_ordered (s : SeekOracle) (src : Bytes) (hl : SeekLegal s src) :
    List.Pairwise (fun a b => a.2 ≤ b.1) (segmentsOf s src.length (src.length + 1) 0) ∧
    ∀ seg ∈ segmentsOf s src.length (src.length + 1) 0, seg.1 ≤ seg.2 ∧ seg.2 ≤ src.length := by
  sorry

/-- every byte that is not zero lies in a reported segment -/
theorem segments_cover (s : SeekOracle) (src : Bytes) (hl : SeekLegal s src) (i : Nat) (hi : i < src.length)
    (hnz : src[i]? ≠ some 0) :
    ∃ seg ∈ segmentsOf s src.length (src.length + 1) 0, seg.1 ≤ i ∧ i < seg.2 := by
  sorry

/-- the concrete layout oracle (what the executable model runs) satisfies the SEEK contract -/
theorem layout_oracle_legal (L : Layout) (src : Bytes) (h : LayoutSound L src) : SeekLegal L.oracle src := by
  sorry

end Xcp
