import XcpProofs.Merge
/-! `merge_extents` boundaries / well-formedness; the FIEMAP paging loop; the SEEK_DATA/SEEK_HOLE loop. -/
namespace Xcp

/-! ### `merge_extents` -/

theorem mergeGo_boundaries (p : Option Extent) (l : List Extent) :
    ∀ m ∈ mergeGo p l,
      (∃ e ∈ pl p ++ l, e.start = m.start) ∧ (∃ e ∈ pl p ++ l, e.stop = m.stop) := by
  induction l generalizing p with
  | nil => cases p <;> simp [mergeGo, pl]
  | cons e es ih =>
    cases p with
    | none =>
      intro m hm
      have := ih (some e) m (by simpa [mergeGo] using hm)
      simpa [pl] using this
    | some p =>
      intro m hm
      unfold mergeGo at hm
      split at hm
      · have := ih (some _) m hm
        simp only [pl, List.cons_append, List.nil_append, List.mem_cons] at this ⊢
        obtain ⟨⟨x, hx, h1⟩, ⟨y, hy, h2⟩⟩ := this
        constructor
        · rcases hx with rfl | hx
          · exact ⟨p, Or.inl rfl, h1⟩
          · exact ⟨x, Or.inr (Or.inr hx), h1⟩
        · rcases hy with rfl | hy
          · exact ⟨e, Or.inr (Or.inl rfl), h2⟩
          · exact ⟨y, Or.inr (Or.inr hy), h2⟩
      · simp only [List.mem_cons] at hm
        rcases hm with rfl | hm
        · exact ⟨⟨m, by simp [pl], rfl⟩, ⟨m, by simp [pl], rfl⟩⟩
        · have := ih (some e) m hm
          simp only [pl, List.cons_append, List.nil_append, List.mem_cons] at this ⊢
          obtain ⟨⟨x, hx, h1⟩, ⟨y, hy, h2⟩⟩ := this
          exact ⟨⟨x, Or.inr hx, h1⟩, ⟨y, Or.inr hy, h2⟩⟩

/-- every merged extent starts at an input start and stops at an input stop -/
theorem merge_boundaries (l : List Extent) :
    ∀ m ∈ mergeExtents l, (∃ e ∈ l, e.start = m.start) ∧ (∃ e ∈ l, e.stop = m.stop) := by
  intro m hm
  have := mergeGo_boundaries none l m hm
  simpa [pl] using this

/-- with an accumulator, the output is non-empty and begins where the accumulator begins -/
theorem mergeGo_head (p : Extent) (l : List Extent) :
    ∃ h t, mergeGo (some p) l = h :: t ∧ h.start = p.start := by
  induction l generalizing p with
  | nil => exact ⟨p, [], rfl, rfl⟩
  | cons e es ih =>
    unfold mergeGo
    split
    · obtain ⟨h, t, h1, h2⟩ :=
        ih { start := p.start, stop := e.stop, shared := p.shared && e.shared }
      exact ⟨h, t, h1, h2⟩
    · exact ⟨p, _, rfl, rfl⟩

theorem mergeGo_wf (p : Option Extent) (l : List Extent) (hw : WF (pl p ++ l)) :
    WF (mergeGo p l) := by
  induction l generalizing p with
  | nil => cases p <;> simp_all [mergeGo, pl, WF]
  | cons e es ih =>
    cases p with
    | none =>
      have := ih (some e) (by simpa [pl] using hw)
      simpa [mergeGo] using this
    | some p =>
      simp only [pl, List.cons_append, List.nil_append] at hw
      obtain ⟨hp, hpe, hw'⟩ := hw
      have he := WF_head hw'
      unfold mergeGo
      split
      · rename_i heq
        apply ih (some _)
        simp only [pl, List.cons_append, List.nil_append]
        cases es with
        | nil => simp [WF]; omega
        | cons f r => exact ⟨by simp; omega, hw'.2.1, hw'.2.2⟩
      · have h1 := ih (some e) (by simpa [pl] using hw')
        obtain ⟨h, t, e1, e2⟩ := mergeGo_head e es
        rw [e1] at h1 ⊢
        exact ⟨hp, by omega, h1⟩

/-- merged output of a well-formed list is well-formed (ordered, non-empty, non-overlapping) -/
theorem merge_wf (l : List Extent) (hw : WF l) : WF (mergeExtents l) :=
  mergeGo_wf none l (by simpa [pl] using hw)

/-! ### the FIEMAP paging loop -/

theorem lastOf_eq_getLast? {α} (l : List α) : lastOf l = l.getLast? := by
  induction l with
  | nil => rfl
  | cons a r ih =>
    cases r with
    | nil => rfl
    | cons b r' => simp [lastOf, ih]

/-- in a well-formed list the stops increase strictly -/
theorem WF_stop_lt {e : Extent} {l : List Extent} (hw : WF (e :: l)) : ∀ x ∈ l, e.stop < x.stop := by
  induction l generalizing e with
  | nil => simp
  | cons f r ih =>
    obtain ⟨_, hef, hw'⟩ := hw
    have hf := WF_head hw'
    intro x hx
    rcases List.mem_cons.mp hx with rfl | hx
    · omega
    · have := ih hw' x hx
      omega

/-- restarting FIEMAP at the stop of an extent yields exactly what follows that extent -/
theorem WF_dropWhile (P B : List Extent) (le : Extent) (hw : WF (P ++ le :: B)) :
    (P ++ le :: B).dropWhile (fun e => decide (e.stop ≤ le.stop)) = B := by
  induction P with
  | nil =>
    simp only [List.nil_append] at hw ⊢
    rw [List.dropWhile_cons_of_pos (by simp)]
    cases B with
    | nil => rfl
    | cons b B' =>
      have := WF_stop_lt hw b (by simp)
      rw [List.dropWhile_cons_of_neg (by simp; omega)]
  | cons a P ih =>
    simp only [List.cons_append] at hw ⊢
    have := WF_stop_lt hw le (by simp)
    rw [List.dropWhile_cons_of_pos (by simp; omega)]
    exact ih (WF_tail hw)

/-- the page FIEMAP answers when `rest` is what remains after `fm_start` -/
def pageOf (rest : List Extent) (slots : Nat) : List (Extent × Bool) :=
  ((List.range (rest.take slots).length).zip (rest.take slots)).map
    fun (i, e) => (e, decide (i + 1 = rest.length))

theorem fiemapOf_eq (all : List Extent) (slots fmStart : Nat) :
    fiemapOf all slots fmStart
      = some (pageOf (all.dropWhile (fun e => decide (e.stop ≤ fmStart))) slots) := rfl

theorem zipRange_concat {α β} (g : Nat × α → β) (P : List α) (x : α) :
    ((List.range (P ++ [x]).length).zip (P ++ [x])).map g
      = ((List.range P.length).zip P).map g ++ [g (P.length, x)] := by
  rw [List.length_append, List.length_singleton, List.range_succ,
    List.zip_append (by simp), List.map_append]
  rfl

theorem pageOf_map_fst (rest : List Extent) (slots : Nat) :
    (pageOf rest slots).map (·.1) = rest.take slots := by
  unfold pageOf
  rw [List.map_map]
  exact List.map_snd_zip (by simp)

theorem pageOf_nil (slots : Nat) : pageOf [] slots = [] := by simp [pageOf]

theorem lastOf_pageOf (rest : List Extent) (slots : Nat) (P : List Extent) (x : Extent)
    (h : rest.take slots = P ++ [x]) :
    lastOf (pageOf rest slots) = some (x, decide (P.length + 1 = rest.length)) := by
  unfold pageOf
  rw [h, zipRange_concat, lastOf_eq_getLast?, List.getLast?_concat]

theorem mapExtentsLoop_all (all : List Extent) (hw : WF all) (slots : Nat) (hs : 0 < slots) :
    ∀ (fuel : Nat) (pre rest : List Extent) (fmStart : Nat), all = pre ++ rest →
      all.dropWhile (fun e => decide (e.stop ≤ fmStart)) = rest → rest.length + 1 ≤ fuel →
      mapExtentsLoop (fiemapOf all slots) fuel fmStart pre = some (some all) := by
  intro fuel
  induction fuel with
  | zero => intro _ _ _ _ _ h; omega
  | succ f ih =>
    intro pre rest fmStart hall hdrop hfuel
    unfold mapExtentsLoop
    rw [fiemapOf_eq, hdrop]
    simp only
    rcases List.eq_nil_or_concat (rest.take slots) with hnil | ⟨P, x, hPx⟩
    · have hr : rest = [] := by
        cases rest with
        | nil => rfl
        | cons a r =>
          obtain ⟨k, rfl⟩ : ∃ k, slots = k + 1 := ⟨slots - 1, by omega⟩
          simp at hnil
      subst hr
      simp [pageOf_nil, lastOf, hall]
    · rw [List.concat_eq_append] at hPx
      rw [lastOf_pageOf rest slots P x hPx]
      simp only [pageOf_map_fst]
      have hlen : (rest.take slots).length = P.length + 1 := by rw [hPx]; simp
      rw [List.length_take] at hlen
      by_cases hlast : P.length + 1 = rest.length
      · simp only [hlast, decide_true, if_true]
        rw [List.take_of_length_le (by omega), ← hall]
      · simp only [hlast, decide_false]
        have hsplit : all = (pre ++ P) ++ x :: rest.drop slots := by
          rw [hall, List.append_assoc]
          congr 1
          rw [← List.singleton_append, ← List.append_assoc, ← hPx, List.take_append_drop]
        apply ih (pre ++ rest.take slots) (rest.drop slots) x.stop
        · rw [hall, List.append_assoc, List.take_append_drop]
        · rw [hsplit]
          exact WF_dropWhile _ _ _ (hsplit ▸ hw)
        · rw [List.length_drop]; omega

/-- the paging loop returns exactly the file's extent list, for any number of extents and any page size ≥ 1 -/
theorem mapExtents_all_pages (all : List Extent) (hw : WF all) (slots : Nat) (hs : 0 < slots) :
    mapExtents (fiemapOf all slots) (all.length + 2) = some (some all) := by
  unfold mapExtents
  apply mapExtentsLoop_all all hw slots hs (all.length + 2) [] all 0 rfl
  · cases all with
    | nil => rfl
    | cons a r =>
      have := WF_head hw
      rw [List.dropWhile_cons_of_neg (by simp; omega)]
  · omega

end Xcp
