import XcpProofs.Merge
/-! `merge_extents` boundaries / well-formedness; the FIEMAP paging loop; the SEEK_DATA/SEEK_HOLE loop. -/
namespace Xcp

/-! ### `merge_extents` -/

theorem mergeGo_boundaries (p : Option Extent) (l : List Extent) :
    ∀ m ∈ mergeGo p l,
      (∃ e ∈ pl p ++ l, e.start = m.start) ∧ (∃ e ∈ pl p ++ l, e.stop = m.stop) := by
  induction l generalizing p with
  | nil => cases p <;> simp [mergeGo, pl]
  | cons e es ih =>
    cases p with
    | none =>
      intro m hm
      have := ih (some e) m (by simpa [mergeGo] using hm)
      simpa [pl] using this
    | some p =>
      intro m hm
      unfold mergeGo at hm
      split at hm
      · have := ih (some _) m hm
        simp only [pl, List.cons_append, List.nil_append, List.mem_cons] at this ⊢
        obtain ⟨⟨x, hx, h1⟩, ⟨y, hy, h2⟩⟩ := this
        constructor
        · rcases hx with rfl | hx
          · exact ⟨p, Or.inl rfl, h1⟩
          · exact ⟨x, Or.inr (Or.inr hx), h1⟩
        · rcases hy with rfl | hy
          · exact ⟨e, Or.inr (Or.inl rfl), h2⟩
          · exact ⟨y, Or.inr (Or.inr hy), h2⟩
      · simp only [List.mem_cons] at hm
        rcases hm with rfl | hm
        · exact ⟨⟨m, by simp [pl], rfl⟩, ⟨m, by simp [pl], rfl⟩⟩
        · have := ih (some e) m hm
          simp only [pl, List.cons_append, List.nil_append, List.mem_cons] at this ⊢
          obtain ⟨⟨x, hx, h1⟩, ⟨y, hy, h2⟩⟩ := this
          exact ⟨⟨x, Or.inr hx, h1⟩, ⟨y, Or.inr hy, h2⟩⟩

/-- every merged extent starts at an input start and stops at an input stop -/
theorem merge_boundaries (l : List Extent) :
    ∀ m ∈ mergeExtents l, (∃ e ∈ l, e.start = m.start) ∧ (∃ e ∈ l, e.stop = m.stop) := by
  intro m hm
  have := mergeGo_boundaries none l m hm
  simpa [pl] using this

/-- with an accumulator, the output is non-empty and begins where the accumulator begins -/
theorem mergeGo_head (p : Extent) (l : List Extent) :
    ∃ h t, mergeGo (some p) l = h :: t ∧ h.start = p.start := by
  induction l generalizing p with
  | nil => exact ⟨p, [], rfl, rfl⟩
  | cons e es ih =>
    unfold mergeGo
    split
    · obtain ⟨h, t, h1, h2⟩ :=
        ih { start := p.start, stop := e.stop, shared := p.shared && e.shared }
      exact ⟨h, t, h1, h2⟩
    · exact ⟨p, _, rfl, rfl⟩

theorem mergeGo_wf (p : Option Extent) (l : List Extent) (hw : WF (pl p ++ l)) :
    WF (mergeGo p l) := by
  induction l generalizing p with
  | nil => cases p <;> simp_all [mergeGo, pl, WF]
  | cons e es ih =>
    cases p with
    | none =>
      have := ih (some e) (by simpa [pl] using hw)
      simpa [mergeGo] using this
    | some p =>
      simp only [pl, List.cons_append, List.nil_append] at hw
      obtain ⟨hp, hpe, hw'⟩ := hw
      have he := WF_head hw'
      unfold mergeGo
      split
      · rename_i heq
        apply ih (some _)
        simp only [pl, List.cons_append, List.nil_append]
        cases es with
        | nil => simp [WF]; omega
        | cons f r => exact ⟨by simp; omega, hw'.2.1, hw'.2.2⟩
      · have h1 := ih (some e) (by simpa [pl] using hw')
        obtain ⟨h, t, e1, e2⟩ := mergeGo_head e es
        rw [e1] at h1 ⊢
        exact ⟨hp, by omega, h1⟩

/-- merged output of a well-formed list is well-formed (ordered, non-empty, non-overlapping) -/
theorem merge_wf (l : List Extent) (hw : WF l) : WF (mergeExtents l) :=
  mergeGo_wf none l (by simpa [pl] using hw)

/-! ### the FIEMAP paging loop -/

theorem lastOf_eq_getLast? {α} (l : List α) : lastOf l = l.getLast? := by
  induction l with
  | nil => rfl
  | cons a r ih =>
    cases r with
    | nil => rfl
    | cons b r' => simp [lastOf, ih]

/-- in a well-formed list the stops increase strictly -/
theorem WF_stop_lt {e : Extent} {l : List Extent} (hw : WF (e :: l)) : ∀ x ∈ l, e.stop < x.stop := by
  induction l generalizing e with
  | nil => simp
  | cons f r ih =>
    obtain ⟨_, hef, hw'⟩ := hw
    have hf := WF_head hw'
    intro x hx
    rcases List.mem_cons.mp hx with rfl | hx
    · omega
    · have := ih hw' x hx
      omega

/-- restarting FIEMAP at the stop of an extent yields exactly what follows that extent -/
theorem WF_dropWhile (P B : List Extent) (le : Extent) (hw : WF (P ++ le :: B)) :
    (P ++ le :: B).dropWhile (fun e => decide (e.stop ≤ le.stop)) = B := by
  induction P with
  | nil =>
    simp only [List.nil_append] at hw ⊢
    rw [List.dropWhile_cons_of_pos (by simp)]
    cases B with
    | nil => rfl
    | cons b B' =>
      have := WF_stop_lt hw b (by simp)
      rw [List.dropWhile_cons_of_neg (by simp; omega)]
  | cons a P ih =>
    simp only [List.cons_append] at hw ⊢
    have := WF_stop_lt hw le (by simp)
    rw [List.dropWhile_cons_of_pos (by simp; omega)]
    exact ih (WF_tail hw)

/-- the page FIEMAP answers when `rest` is what remains after `fm_start` -/
def pageOf (rest : List Extent) (slots : Nat) : List (Extent × Bool) :=
  ((List.range (rest.take slots).length).zip (rest.take slots)).map
    fun (i, e) => (e, decide (i + 1 = rest.length))

theorem fiemapOf_eq (all : List Extent) (slots fmStart : Nat) :
    fiemapOf all slots fmStart
      = some (pageOf (all.dropWhile (fun e => decide (e.stop ≤ fmStart))) slots) := rfl

theorem zipRange_concat {α β} (g : Nat × α → β) (P : List α) (x : α) :
    ((List.range (P ++ [x]).length).zip (P ++ [x])).map g
      = ((List.range P.length).zip P).map g ++ [g (P.length, x)] := by
  rw [List.length_append, List.length_singleton, List.range_succ,
    List.zip_append (by simp), List.map_append]
  rfl

theorem pageOf_map_fst (rest : List Extent) (slots : Nat) :
    (pageOf rest slots).map (·.1) = rest.take slots := by
  unfold pageOf
  rw [List.map_map]
  exact List.map_snd_zip (by simp)

theorem pageOf_nil (slots : Nat) : pageOf [] slots = [] := by simp [pageOf]

theorem lastOf_pageOf (rest : List Extent) (slots : Nat) (P : List Extent) (x : Extent)
    (h : rest.take slots = P ++ [x]) :
    lastOf (pageOf rest slots) = some (x, decide (P.length + 1 = rest.length)) := by
  unfold pageOf
  rw [h, zipRange_concat, lastOf_eq_getLast?, List.getLast?_concat]

theorem mapExtentsLoop_all (all : List Extent) (hw : WF all) (slots : Nat) (hs : 0 < slots) :
    ∀ (fuel : Nat) (pre rest : List Extent) (fmStart : Nat), all = pre ++ rest →
      all.dropWhile (fun e => decide (e.stop ≤ fmStart)) = rest → rest.length + 1 ≤ fuel →
      mapExtentsLoop (fiemapOf all slots) fuel fmStart pre = some (some all) := by
  intro fuel
  induction fuel with
  | zero => intro _ _ _ _ _ h; omega
  | succ f ih =>
    intro pre rest fmStart hall hdrop hfuel
    unfold mapExtentsLoop
    rw [fiemapOf_eq, hdrop]
    simp only
    rcases List.eq_nil_or_concat (rest.take slots) with hnil | ⟨P, x, hPx⟩
    · have hr : rest = [] := by
        cases rest with
        | nil => rfl
        | cons a r =>
          obtain ⟨k, rfl⟩ : ∃ k, slots = k + 1 := ⟨slots - 1, by omega⟩
          simp at hnil
      subst hr
      simp [pageOf_nil, lastOf, hall]
    · rw [List.concat_eq_append] at hPx
      rw [lastOf_pageOf rest slots P x hPx]
      simp only [pageOf_map_fst]
      have hlen : (rest.take slots).length = P.length + 1 := by rw [hPx]; simp
      rw [List.length_take] at hlen
      by_cases hlast : P.length + 1 = rest.length
      · simp only [hlast, decide_true, if_true]
        rw [List.take_of_length_le (by omega), ← hall]
      · simp only [hlast, decide_false]
        have hsplit : all = (pre ++ P) ++ x :: rest.drop slots := by
          rw [hall, List.append_assoc]
          congr 1
          rw [← List.singleton_append, ← List.append_assoc, ← hPx, List.take_append_drop]
        apply ih (pre ++ rest.take slots) (rest.drop slots) x.stop
        · rw [hall, List.append_assoc, List.take_append_drop]
        · rw [hsplit]
          exact WF_dropWhile _ _ _ (hsplit ▸ hw)
        · rw [List.length_drop]; omega

/-- the paging loop returns exactly the file's extent list, for any number of extents and any page size ≥ 1 -/
theorem mapExtents_all_pages (all : List Extent) (hw : WF all) (slots : Nat) (hs : 0 < slots) :
    mapExtents (fiemapOf all slots) (all.length + 2) = some (some all) := by
  unfold mapExtents
  apply mapExtentsLoop_all all hw slots hs (all.length + 2) [] all 0 rfl
  · cases all with
    | nil => rfl
    | cons a r =>
      have := WF_head hw
      rw [List.dropWhile_cons_of_neg (by simp; omega)]
  · omega

/-! ### the SEEK_DATA / SEEK_HOLE segment loop -/

/-- one step of the loop: the segment lies in `[pos, len]`, ends strictly after `pos`, and only zeros
are skipped before it -/
theorem nss_spec {s : SeekOracle} {src : Bytes} (hl : SeekLegal s src) {pos : Nat}
    (hp : pos < src.length) :
    pos ≤ (nextSparseSegments s src.length pos).1 ∧
    (nextSparseSegments s src.length pos).1 ≤ (nextSparseSegments s src.length pos).2 ∧
    (nextSparseSegments s src.length pos).2 ≤ src.length ∧
    pos < (nextSparseSegments s src.length pos).2 ∧
    ∀ i, pos ≤ i → i < (nextSparseSegments s src.length pos).1 → ZeroAt src i := by
  unfold nextSparseSegments
  cases hd : s.data pos with
  | none =>
    have he := hl.hole_eof src.length (Nat.le_refl _)
    simp only [he]
    exact ⟨by omega, by omega, by omega, hp, fun i h1 _ => hl.data_none pos hp hd i h1⟩
  | some d =>
    obtain ⟨h1, h2, h3⟩ := hl.data_some pos d hp hd
    simp only
    cases hh : s.hole d with
    | none => exact ⟨h1, by simp; omega, by simp, by simp; omega, h3⟩
    | some h =>
      obtain ⟨h4, h5⟩ := hl.hole_some pos d h hp hd hh
      exact ⟨h1, by simp; omega, by simpa using h5, by simp; omega, h3⟩

theorem segmentsOf_ordered {s : SeekOracle} {src : Bytes} (hl : SeekLegal s src) :
    ∀ (fuel pos : Nat),
      List.Pairwise (fun a b => a.2 ≤ b.1) (segmentsOf s src.length fuel pos) ∧
      ∀ seg ∈ segmentsOf s src.length fuel pos, pos ≤ seg.1 ∧ seg.1 ≤ seg.2 ∧ seg.2 ≤ src.length := by
  intro fuel
  induction fuel with
  | zero => intro pos; simp [segmentsOf]
  | succ f ih =>
    intro pos
    unfold segmentsOf
    split
    · rename_i hp
      obtain ⟨h1, h2, h3, h4, _⟩ := nss_spec hl hp
      obtain ⟨ih1, ih2⟩ := ih (nextSparseSegments s src.length pos).2
      simp only [List.pairwise_cons, List.mem_cons]
      refine ⟨⟨fun b hb => (ih2 b hb).1, ih1⟩, ?_⟩
      intro seg hseg
      rcases hseg with rfl | hseg
      · exact ⟨h1, h2, h3⟩
      · have := ih2 seg hseg
        exact ⟨by omega, this.2.1, this.2.2⟩
    · simp

theorem segmentsOf_cover {s : SeekOracle} {src : Bytes} (hl : SeekLegal s src) (i : Nat)
    (hi : i < src.length) (hnz : src[i]? ≠ some 0) :
    ∀ (fuel pos : Nat), pos ≤ i → src.length - pos + 1 ≤ fuel →
      ∃ seg ∈ segmentsOf s src.length fuel pos, seg.1 ≤ i ∧ i < seg.2 := by
  intro fuel
  induction fuel with
  | zero => intro pos _ h; omega
  | succ f ih =>
    intro pos hpi hfuel
    have hp : pos < src.length := by omega
    unfold segmentsOf
    rw [if_pos hp]
    obtain ⟨h1, h2, h3, h4, h5⟩ := nss_spec hl hp
    have hge : (nextSparseSegments s src.length pos).1 ≤ i := by
      apply Nat.le_of_not_lt
      intro hlt
      rcases h5 i hpi hlt with hz | hz
      · exact hnz hz
      · omega
    by_cases hin : i < (nextSparseSegments s src.length pos).2
    · exact ⟨_, List.mem_cons_self, hge, hin⟩
    · obtain ⟨seg, hseg, hc⟩ := ih (nextSparseSegments s src.length pos).2 (by omega) (by omega)
      exact ⟨seg, List.mem_cons_of_mem _ hseg, hc⟩

/-- the segment loop terminates within `len + 1` iterations and its segments are ordered, inside the file -/
theorem segments_ordered (s : SeekOracle) (src : Bytes) (hl : SeekLegal s src) :
    List.Pairwise (fun a b => a.2 ≤ b.1) (segmentsOf s src.length (src.length + 1) 0) ∧
    ∀ seg ∈ segmentsOf s src.length (src.length + 1) 0, seg.1 ≤ seg.2 ∧ seg.2 ≤ src.length := by
  obtain ⟨h1, h2⟩ := segmentsOf_ordered hl (src.length + 1) 0
  exact ⟨h1, fun seg hseg => (h2 seg hseg).2⟩

/-- every byte that is not zero lies in a reported segment -/
theorem segments_cover (s : SeekOracle) (src : Bytes) (hl : SeekLegal s src) (i : Nat) (hi : i < src.length)
    (hnz : src[i]? ≠ some 0) :
    ∃ seg ∈ segmentsOf s src.length (src.length + 1) 0, seg.1 ≤ i ∧ i < seg.2 :=
  segmentsOf_cover hl i hi hnz (src.length + 1) 0 (Nat.zero_le _) (by omega)

/-! ### the concrete layout oracle -/

theorem layout_find_data {L : Layout} {src : Bytes} (h : LayoutSound L src) {pos : Nat}
    {sg : Nat × Nat} (hf : L.segs.find? (fun s => decide (pos < s.2)) = some sg) :
    pos < sg.2 ∧ sg ∈ L.segs ∧ ∀ i, pos ≤ i → i < sg.1 → ¬ ∃ t ∈ L.segs, t.1 ≤ i ∧ i < t.2 := by
  obtain ⟨hp, as, bs, hsplit, hbefore⟩ := List.find?_eq_some_iff_append.mp hf
  have hp' : pos < sg.2 := by simpa using hp
  have hmem : sg ∈ L.segs := by rw [hsplit]; simp
  refine ⟨hp', hmem, ?_⟩
  intro i hpi hlt ⟨t, ht, ht1, ht2⟩
  have hsorted := h.sorted
  rw [hsplit, List.pairwise_append, List.pairwise_cons] at hsorted
  obtain ⟨_, ⟨hafter, _⟩, _⟩ := hsorted
  rw [hsplit, List.mem_append, List.mem_cons] at ht
  rcases ht with ht | rfl | ht
  · have := hbefore t ht
    simp at this
    omega
  · omega
  · have := hafter t ht
    have := (h.nonempty sg hmem).1
    omega

/-- the concrete layout oracle (what the executable model runs) satisfies the SEEK contract -/
theorem layout_oracle_legal (L : Layout) (src : Bytes) (h : LayoutSound L src) :
    SeekLegal L.oracle src where
  data_some := by
    intro pos d hp hd
    have hlen := h.len_eq
    simp only [Layout.oracle, Layout.seekData, if_neg (show ¬ L.len ≤ pos by omega)] at hd
    split at hd
    · rename_i sg hf
      obtain ⟨h1, hmem, hz⟩ := layout_find_data h hf
      have := h.nonempty sg hmem
      simp only [Option.some.injEq] at hd
      subst hd
      refine ⟨by omega, by omega, ?_⟩
      intro i hpi hid
      by_cases hi : i < src.length
      · exact Or.inl (h.zeros i hi (hz i hpi (by omega)))
      · exact Or.inr (by omega)
    · simp at hd
  data_none := by
    intro pos hp hd i hpi
    have hlen := h.len_eq
    simp only [Layout.oracle, Layout.seekData, if_neg (show ¬ L.len ≤ pos by omega)] at hd
    split at hd
    · simp at hd
    · rename_i hf
      by_cases hi : i < src.length
      · refine Or.inl (h.zeros i hi ?_)
        intro ⟨t, ht, ht1, ht2⟩
        have := List.find?_eq_none.mp hf t ht
        simp at this
        omega
      · exact Or.inr (by omega)
  hole_some := by
    intro pos d hh hp hd hhole
    have hlen := h.len_eq
    simp only [Layout.oracle, Layout.seekData, if_neg (show ¬ L.len ≤ pos by omega)] at hd
    split at hd
    · rename_i sg hf
      obtain ⟨h1, hmem, _⟩ := layout_find_data h hf
      have hne := h.nonempty sg hmem
      simp only [Option.some.injEq] at hd
      subst hd
      simp only [Layout.oracle, Layout.seekHole,
        if_neg (show ¬ L.len ≤ max pos sg.1 by omega)] at hhole
      split at hhole
      · rename_i t ht
        have htm := List.mem_of_find?_eq_some ht
        have htp := List.find?_some ht
        simp only [Option.some.injEq] at hhole
        subst hhole
        have := h.nonempty t htm
        simp at htp
        omega
      · rename_i hnone
        have := List.find?_eq_none.mp hnone sg hmem
        simp at this
        omega
    · simp at hd
  hole_eof := by
    intro d hd
    have hlen := h.len_eq
    simp only [Layout.oracle, Layout.seekHole, if_pos (show L.len ≤ d by omega)]

/-- `segments_ordered` for the executable layout oracle -/
theorem layout_segments_ordered (L : Layout) (src : Bytes) (h : LayoutSound L src) :
    List.Pairwise (fun a b => a.2 ≤ b.1) (segmentsOf L.oracle src.length (src.length + 1) 0) ∧
    ∀ seg ∈ segmentsOf L.oracle src.length (src.length + 1) 0, seg.1 ≤ seg.2 ∧ seg.2 ≤ src.length := by
  obtain ⟨h1, h2⟩ := segmentsOf_ordered (layout_oracle_legal L src h) (src.length + 1) 0
  exact ⟨h1, fun seg hseg => (h2 seg hseg).2⟩

/-- `segments_cover` for the executable layout oracle -/
theorem layout_segments_cover (L : Layout) (src : Bytes) (h : LayoutSound L src) (i : Nat)
    (hi : i < src.length) (hnz : src[i]? ≠ some 0) :
    ∃ seg ∈ segmentsOf L.oracle src.length (src.length + 1) 0, seg.1 ≤ i ∧ i < seg.2 :=
  segmentsOf_cover (layout_oracle_legal L src h) i hi hnz (src.length + 1) 0 (Nat.zero_le _) (by omega)

end Xcp
