import XcpProofs.Bytes
import XcpModel.Libfs
/-! `queue_file_range`: the block partition covers exactly `[start, start+len)`. -/
namespace Xcp
theorem nblocks_spec (len b : Nat) (hb : 0 < b) (k : Nat) : k < nblocks len b ↔ k * b < len := by
  unfold nblocks
  have hdm := Nat.div_add_mod len b
  have hml := Nat.mod_lt len hb
  constructor
  · intro h
    split at h
    · -- k ≤ len / b
      have : k ≤ len / b := by omega
      have : k * b ≤ (len / b) * b := Nat.mul_le_mul_right b this
      rw [Nat.mul_comm (len / b) b] at this
      omega
    · have : k < len / b := by omega
      have : (k + 1) * b ≤ (len / b) * b := Nat.mul_le_mul_right b this
      rw [Nat.mul_comm (len / b) b, Nat.add_mul] at this
      omega
  · intro h
    have : k ≤ len / b := (Nat.le_div_iff_mul_le hb).mpr (by omega)
    split
    · omega
    · rename_i hz
      have hz' : len % b = 0 := by omega
      have : k ≠ len / b := by
        intro e; subst e
        rw [Nat.mul_comm] at h; omega
      omega

theorem blocks_cover (start len b : Nat) (hb : 0 < b) (i : Nat) :
    covered (blocks start len b) i ↔ start ≤ i ∧ i < start + len := by
  unfold covered blocks
  constructor
  · rintro ⟨j, hj, h1, h2⟩
    simp only [List.mem_map, List.mem_range] at hj
    obtain ⟨k, hk, rfl⟩ := hj
    have := (nblocks_spec len b hb k).mp hk
    simp at h1 h2
    constructor
    · have : start ≤ start + k * b := Nat.le_add_right _ _
      omega
    · omega
  · rintro ⟨h1, h2⟩
    let k := (i - start) / b
    have hdm := Nat.div_add_mod (i - start) b
    have hml := Nat.mod_lt (i - start) hb
    have hk : k * b ≤ i - start := by
      show (i - start) / b * b ≤ i - start
      rw [Nat.mul_comm]; omega
    have hk2 : i - start < k * b + b := by
      show i - start < (i - start) / b * b + b
      rw [Nat.mul_comm]; omega
    refine ⟨(start + k * b, min (len - k * b) b), ?_, ?_, ?_⟩
    · simp only [List.mem_map, List.mem_range]
      exact ⟨k, (nblocks_spec len b hb k).mpr (by omega), rfl⟩
    · simp; omega
    · simp; omega

theorem blocks_in_bounds (start len b : Nat) (hb : 0 < b) : ∀ j ∈ blocks start len b, j.1 + j.2 ≤ start + len := by
  intro j hj
  simp only [blocks, List.mem_map, List.mem_range] at hj
  obtain ⟨k, hk, rfl⟩ := hj
  have := (nblocks_spec len b hb k).mp hk
  simp; omega

/-- parblock whole-file path, full counts, ANY order or duplication of the jobs: destination = source -/
theorem parblock_whole_exact (src : List Byte) (b : Nat) (hb : 0 < b) (l : List (Nat × Nat))
    (hl : ∀ i, covered l i ↔ covered (blocks 0 src.length b) i)
    (hin : ∀ j ∈ l, j.1 + j.2 ≤ src.length) :
    runJobs src (List.replicate src.length 0) l = src := by
  apply runJobs_exact src l hin
  intro i hi hc
  exact absurd ((hl i).mpr ((blocks_cover 0 src.length b hb i).mpr ⟨Nat.zero_le _, by omega⟩)) hc

end Xcp
