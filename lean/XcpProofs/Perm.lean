import XcpProofs.Bytes
/-! Order-independence of effects that commute on states satisfying an invariant (generic), instantiated to block jobs. -/
namespace Xcp
variable {σ α : Type}

def run (f : σ → α → σ) (s : σ) (l : List α) : σ := l.foldl f s

/-- x and y commute from every state satisfying P -/
def CommOn (P : σ → Prop) (f : σ → α → σ) (x y : α) : Prop := ∀ s, P s → f (f s x) y = f (f s y) x

theorem run_move_front (P : σ → Prop) (f : σ → α → σ) (hP : ∀ s a, P s → P (f s a)) (x : α) (pre post : List α)
    (h : ∀ y ∈ pre, CommOn P f y x) (s : σ) (hs : P s) :
    run f s (pre ++ x :: post) = run f s (x :: pre ++ post) := by
  induction pre generalizing s with
  | nil => rfl
  | cons y ys ih =>
    have hy : CommOn P f y x := h y (by simp)
    have := ih (fun z hz => h z (by simp [hz])) (f s y) (hP s y hs)
    simp only [run, List.cons_append, List.foldl_cons] at this ⊢
    rw [this, hy s hs]

def Before (l : List α) (a b : α) : Prop := List.Sublist [a, b] l

theorem run_perm_of_comm (P : σ → Prop) (f : σ → α → σ) (hP : ∀ s a, P s → P (f s a)) :
    ∀ (l1 l2 : List α), l1.Perm l2 → l1.Nodup →
      (∀ a b, Before l1 a b → Before l2 b a → CommOn P f a b) →
      ∀ s, P s → run f s l1 = run f s l2 := by
  intro l1
  induction l1 with
  | nil => intro l2 hp _ _ s _; have := hp.symm.eq_nil; subst this; rfl
  | cons x t ih =>
    intro l2 hp hn hc s hs
    have hx : x ∈ l2 := hp.subset (by simp)
    obtain ⟨pre, post, rfl⟩ := List.append_of_mem hx
    have hnd := List.nodup_cons.mp hn
    have hn2 : (pre ++ x :: post).Nodup := hp.nodup_iff.mp hn
    have hpre : ∀ y ∈ pre, CommOn P f y x := by
      intro y hy
      have hyx : y ≠ x := by
        intro e; subst e
        exact (List.nodup_append.mp hn2).2.2 y hy y (by simp) rfl
      have hyt : y ∈ t := by
        rcases List.mem_cons.mp (hp.symm.subset (by simp [hy]) : y ∈ x :: t) with h | h
        · exact absurd h hyx
        · exact h
      have h1 : Before (x :: t) x y := List.Sublist.cons_cons x (List.singleton_sublist.mpr hyt)
      have h2 : Before (pre ++ x :: post) y x := by
        have a : List.Sublist [y] pre := List.singleton_sublist.mpr hy
        have b : List.Sublist [x] (x :: post) := List.Sublist.cons_cons x (List.nil_sublist _)
        simpa [Before] using List.Sublist.append a b
      intro s hs; exact ((hc x y h1 h2) s hs).symm
    rw [run_move_front P f hP x pre post hpre s hs]
    simp only [run, List.foldl_cons]
    have hp' : t.Perm (pre ++ post) := List.Perm.cons_inv (hp.trans List.perm_middle)
    apply ih (pre ++ post) hp' hnd.2 _ _ (hP s x hs)
    intro a b hab hba
    apply hc a b
    · exact List.Sublist.cons x hab
    · exact hba.trans (List.Sublist.append (List.Sublist.refl pre) (List.sublist_cons_self x post))

/-! ### instance: block jobs (off, n) of one file -/

def job (src : List Byte) (dst : List Byte) (j : Nat × Nat) : List Byte := copyRange src dst j.1 j.2

def Disjoint2 (a b : Nat × Nat) : Prop := a.1 + a.2 ≤ b.1 ∨ b.1 + b.2 ≤ a.1

theorem jobs_any_order (src dst : List Byte) (l1 l2 : List (Nat × Nat))
    (hp : l1.Perm l2) (hn : l1.Nodup) (hl : dst.length = src.length)
    (hin : ∀ j ∈ l1, j.1 + j.2 ≤ src.length)
    (hd : ∀ a ∈ l1, ∀ b ∈ l1, a ≠ b → Disjoint2 a b) :
    run (job src) dst l1 = run (job src) dst l2 := by
  -- invariant: the destination keeps the source's length; jobs outside l1 are irrelevant, so guard them
  let f : List Byte → (Nat × Nat) → List Byte := fun d j => if j.1 + j.2 ≤ src.length then job src d j else d
  have hf1 : ∀ (l : List (Nat × Nat)), (∀ j ∈ l, j.1 + j.2 ≤ src.length) → ∀ d, run (job src) d l = run f d l := by
    intro l; induction l with
    | nil => intro _ _; rfl
    | cons j t ih =>
      intro h d
      have hj := h j (by simp)
      simp only [run, List.foldl_cons] at ih ⊢
      have : f d j = job src d j := by simp [f, hj]
      rw [this]; exact ih (fun k hk => h k (by simp [hk])) _
  rw [hf1 l1 hin, hf1 l2 (fun j hj => hin j (hp.symm.subset hj))]
  apply run_perm_of_comm (fun d => d.length = src.length) f
  · intro d j hd'
    simp only [f]; split
    · simp only [job, copyRange]; rw [writeAt_length]; exact hd'
      simp; omega
    · exact hd'
  · exact hp
  · exact hn
  · intro a b hab hba d hd'
    have ha : a ∈ l1 := hab.subset (by simp)
    have hb : b ∈ l1 := hab.subset (by simp)
    have hne : a ≠ b := by
      intro e; subst e
      have : List.Sublist [a, a] l1 := hab
      exact (List.nodup_cons.mp (this.nodup hn)).1 (by simp)
    have hia := hin a ha; have hib := hin b hb
    simp only [f, hia, hib, if_true, job]
    exact copyRange_comm src d a.1 a.2 b.1 b.2 hd' hia hib (hd a ha b hb hne)
  · exact hl

end Xcp
