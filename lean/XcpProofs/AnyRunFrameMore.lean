import XcpProofs.Clash
import XcpProofs.AnyRunFrame
import XcpProofs.AnyRunFrameMoreLemmas
/-! # Sources and bystanders are untouched WHATEVER the run does — with `--dereference`, and with `--gitignore`

`AnyRunFrame` instantiated twice more: for EVERY reachable state of the concurrent model — failed or not, complete or
not, any interleaving — and for the sequential execution whatever its exit, with no compatibility assumption, for a
target that is absent or made of directories and regular files: every place that is not at or below the target base
is observed exactly as in the initial file system.

* With `-L` (`any_deref_run_changes_only_the_target`): in particular every place a symbolic link of the source leads
  to, anywhere in the namespace, is observed unchanged.  No hypothesis about what the operations READ is needed
  (`ReadsAway` is not assumed): the frame only needs that every target is at or below the target base and that no
  symbolic link ever is at or above a target — and a `-L` run creates no symbolic link at all.
* With `--gitignore` (`any_gitignore_run_changes_only_the_target`): the operations are those of the pruned tree
  (`walk_shape_gi`; with `noClobber = false` the shape does not depend on the destination). -/
namespace Xcp

open L0

/-! ## `--dereference` -/

theorem deref_frame_setup (fs : Fs) (c : Cfg) (hd : c.dereference = true) (hn : c.noClobber = false)
    (src tb : RPath) (s : SNode) (fuel : Nat)
    (hwf : FsEq fs fs)
    (hsrc : AbsNames src)
    (hder : derefS fs (fuel + 1) src.names [] = some s)
    (htb : PlainTarget fs tb) (hne : tb.names ≠ [])
    (hplain : ∀ d, fs.root.getAt tb.names = some d → d.plainTree = true)
    (hpar : ∃ es, fs.root.getAt tb.names.dropLast = some (.dir es)) :
    walkEntry fs c none src tb (fuel + 1) [] [] = opsOfS s tb.names ∧
    FrameSpecN fs (opsOfS s tb.names) (fun q => ¬ tb.names <+: q) ∧
    FsInv fs (opsOfS s tb.names) (fun q => ¬ tb.names <+: q) fs := by
  have htbE := plainTarget_eq fs tb htb
  obtain ⟨pes, hpes⟩ := hpar
  have hroot : fs.root.isLink = false := root_not_link_of_dir hpes
  have hrootD : fs.root.isDir = true := by
    obtain ⟨es', hes'⟩ := L0.getAt_prefix_dir hpes List.nil_prefix
    simp only [getAt_nil, Option.some.injEq] at hes'
    rw [hes']; rfl
  have hshape := walk_shape_deref fs c hd hn hroot src.names tb.names (fuel + 1) [] [] s (by simpa using hder)
  rw [← htbE, ← absNames_eq hsrc] at hshape
  simp only [List.append_nil] at hshape
  obtain ⟨hcop, hsrcin⟩ := derefS_good fs hroot hwf.2.1 (fuel + 1) src.names [] s hder
  have hpl : ∀ x ∈ opsOfS s tb.names, Plains fs x := by
    apply plains_init_gen (E := s.erase) (T := tb.names) fs _ htb.2.2.2
      (fun x0 hx0 q y hq => plainTree_getAt q x0 y (hplain x0 hx0) hq)
    intro x hx
    obtain ⟨rel, m, cp, hg, _, ex, hlf⟩ := mem_opsOfS (fuel + 1) s hcop tb.names x hx
    exact ⟨rel, m, cp, hg, ex, fun hm _ => (hsrcin _ (hlf hm)).1⟩
  exact ⟨hshape, frameSpecN_deref fs s tb.names (fuel + 1) hcop hne hrootD ⟨pes, hpes⟩, ⟨hwf, hpl, fun _ _ => rfl⟩⟩

/-- `-L`, EVERY REACHABLE STATE of every interleaving (no `final`, no `failed` hypothesis, no hypothesis about what
is read): whatever is not at or below the target base is observed as in the initial file system -/
theorem any_deref_run_changes_only_the_target (fs : Fs) (c : Cfg) (hd : c.dereference = true)
    (hn : c.noClobber = false)
    (src tb : RPath) (s : SNode) (fuel : Nat)
    (hwf : FsEq fs fs)
    (hsrc : AbsNames src)
    (hder : derefS fs (fuel + 1) src.names [] = some s)
    (htb : PlainTarget fs tb) (hne : tb.names ≠ [])
    (hplain : ∀ d, fs.root.getAt tb.names = some d → d.plainTree = true)
    (hpar : ∃ es, fs.root.getAt tb.names.dropLast = some (.dir es))
    (hlen : tb.names.length + fuel < 255)
    (ls : List Label) (st : St)
    (hrun : run c (init fs (walkEntry fs c none src tb (fuel + 1) [] [])) ls = some st) :
    ∀ q, ¬ tb.names <+: q → obsAt st.fs.root q = obsAt fs.root q := by
  have _ := hlen   -- not needed for the frame; kept so that the hypotheses are those of `deref_fresh_concurrent_ok`
  obtain ⟨hshape, hspec, hinv⟩ := deref_frame_setup fs c hd hn src tb s fuel hwf hsrc hder htb hne hplain hpar
  rw [hshape] at hrun
  intro q hq
  exact (FInv.run_of c (FsInv.execN hspec c) ls _ st (FInv.init hwf hinv.plains) hrun).fsinv.frame q hq

/-- `-L`, the sequential execution, whatever its exit -/
theorem any_deref_sequential_run_changes_only_the_target (fs : Fs) (c : Cfg) (hd : c.dereference = true)
    (hn : c.noClobber = false)
    (src tb : RPath) (s : SNode) (fuel : Nat)
    (hwf : FsEq fs fs)
    (hsrc : AbsNames src)
    (hder : derefS fs (fuel + 1) src.names [] = some s)
    (htb : PlainTarget fs tb) (hne : tb.names ≠ [])
    (hplain : ∀ d, fs.root.getAt tb.names = some d → d.plainTree = true)
    (hpar : ∃ es, fs.root.getAt tb.names.dropLast = some (.dir es))
    (hlen : tb.names.length + fuel < 255) :
    ∀ q, ¬ tb.names <+: q →
      obsAt (execOps fs c (walkEntry fs c none src tb (fuel + 1) [] [])).fs.root q = obsAt fs.root q := by
  have _ := hlen
  obtain ⟨hshape, hspec, hinv⟩ := deref_frame_setup fs c hd hn src tb s fuel hwf hsrc hder htb hne hplain hpar
  rw [hshape]
  intro q hq
  exact (FsInv.execOps_of c (FsInv.execN hspec c) _ (fun _ h => h) fs hinv).frame q hq

/-! ## `--gitignore` -/

theorem gi_frame_setup (fs : Fs) (c : Cfg) (hd : c.dereference = false) (hn : c.noClobber = false)
    (ps : List Gi.Pattern)
    (src tb : RPath) (srcNode : Node) (fuel : Nat)
    (hwf : FsEq fs fs) (hroot : fs.root.isDir = true)
    (hsrc : PlainTarget fs src) (hsn : fs.root.getAt src.names = some srcNode)
    (hcop : srcNode.Copyable fuel)
    (htb : PlainTarget fs tb) (hne : tb.names ≠ [])
    (hplain : ∀ d, fs.root.getAt tb.names = some d → d.plainTree = true)
    (hpar : ∃ es, fs.root.getAt tb.names.dropLast = some (.dir es))
    (hun1 : ¬ src.names <+: tb.names) (hun2 : ¬ tb.names <+: src.names)
    (hlen : src.names.length + fuel < 200 ∧ tb.names.length + fuel < 200) :
    walkEntry fs c (some ps) src tb (fuel + 1) [] [] = opsOf (Node.prune ps [] srcNode) src.names tb.names ∧
    FrameSpec fs (opsOf (Node.prune ps [] srcNode) src.names tb.names) (fun q => ¬ tb.names <+: q) ∧
    FsInv fs (opsOf (Node.prune ps [] srcNode) src.names tb.names) (fun q => ¬ tb.names <+: q) fs := by
  have hsrcE := plainTarget_eq fs src hsrc
  have htbE := plainTarget_eq fs tb htb
  have hnl : srcNode.isLink = false := by
    cases srcNode with
    | link t => exact absurd hsn (hsrc.2.2.2 src.names (List.prefix_refl _) t)
    | _ => rfl
  have hshape := walk_shape_gi fs c ps hd src.names tb.names (.inl hn) fuel srcNode hcop [] []
    (by simpa using hsn) (fun h => by rw [hnl] at h; cases h) (by simp only [List.length_nil]; omega) (.inl rfl)
  rw [← hsrcE, ← htbE] at hshape
  simp only [List.append_nil] at hshape
  have hcopP := copyable_prune ps fuel srcNode hcop []
  have hspec : OpsSpec (Node.prune ps [] srcNode) src.names tb.names fuel
      (opsOf (Node.prune ps [] srcNode) src.names tb.names) :=
    ⟨mem_opsOf fuel _ hcopP _ _, hun1, hun2, hne, by omega, by omega⟩
  have hpl : ∀ x ∈ opsOf (Node.prune ps [] srcNode) src.names tb.names, Plains fs x := by
    apply plains_init_gen (E := Node.prune ps [] srcNode) (T := tb.names) fs _ htb.2.2.2
      (fun x0 hx0 q y hq => plainTree_getAt q x0 y (hplain x0 hx0) hq)
    intro x hx
    obtain ⟨rel, m, hg, _, ex⟩ := hspec.char x hx
    refine ⟨rel, m, src.names ++ rel, hg, ex, fun hm _ => ?_⟩
    rw [Node.getAt_append, hsn]
    exact getAt_prune_leaf ps rel fuel srcNode [] m hcop hg hm
  exact ⟨hshape, frameSpec_single hspec fs hroot hpar, ⟨hwf, hpl, fun _ _ => rfl⟩⟩

/-- `--gitignore`, EVERY REACHABLE STATE of every interleaving: whatever is not at or below the target base is
observed as in the initial file system -/
theorem any_gitignore_run_changes_only_the_target (fs : Fs) (c : Cfg) (hd : c.dereference = false)
    (hn : c.noClobber = false) (ps : List Gi.Pattern)
    (src tb : RPath) (srcNode : Node) (fuel : Nat)
    (hwf : FsEq fs fs) (hroot : fs.root.isDir = true)
    (hsrc : PlainTarget fs src) (hsn : fs.root.getAt src.names = some srcNode)
    (hcop : srcNode.Copyable fuel)
    (htb : PlainTarget fs tb) (hne : tb.names ≠ [])
    (hplain : ∀ d, fs.root.getAt tb.names = some d → d.plainTree = true)
    (hpar : ∃ es, fs.root.getAt tb.names.dropLast = some (.dir es))
    (hun1 : ¬ src.names <+: tb.names) (hun2 : ¬ tb.names <+: src.names)
    (hlen : src.names.length + fuel < 200 ∧ tb.names.length + fuel < 200)
    (ls : List Label) (s : St)
    (hrun : run c (init fs (walkEntry fs c (some ps) src tb (fuel + 1) [] [])) ls = some s)
    (q : List Name) (hq : ¬ tb.names <+: q) :
    obsAt s.fs.root q = obsAt fs.root q := by
  obtain ⟨hshape, hspec, hinv⟩ := gi_frame_setup fs c hd hn ps src tb srcNode fuel hwf hroot hsrc hsn hcop htb hne
    hplain hpar hun1 hun2 hlen
  rw [hshape] at hrun
  exact (FInv.run hspec c ls _ s (FInv.init hwf hinv.plains) hrun).fsinv.frame q hq

/-- `--gitignore`, the sequential execution, whatever its exit -/
theorem any_gitignore_sequential_run_changes_only_the_target (fs : Fs) (c : Cfg) (hd : c.dereference = false)
    (hn : c.noClobber = false) (ps : List Gi.Pattern)
    (src tb : RPath) (srcNode : Node) (fuel : Nat)
    (hwf : FsEq fs fs) (hroot : fs.root.isDir = true)
    (hsrc : PlainTarget fs src) (hsn : fs.root.getAt src.names = some srcNode)
    (hcop : srcNode.Copyable fuel)
    (htb : PlainTarget fs tb) (hne : tb.names ≠ [])
    (hplain : ∀ d, fs.root.getAt tb.names = some d → d.plainTree = true)
    (hpar : ∃ es, fs.root.getAt tb.names.dropLast = some (.dir es))
    (hun1 : ¬ src.names <+: tb.names) (hun2 : ¬ tb.names <+: src.names)
    (hlen : src.names.length + fuel < 200 ∧ tb.names.length + fuel < 200)
    (q : List Name) (hq : ¬ tb.names <+: q) :
    obsAt (execOps fs c (walkEntry fs c (some ps) src tb (fuel + 1) [] [])).fs.root q = obsAt fs.root q := by
  obtain ⟨hshape, hspec, hinv⟩ := gi_frame_setup fs c hd hn ps src tb srcNode fuel hwf hroot hsrc hsn hcop htb hne
    hplain hpar hun1 hun2 hlen
  rw [hshape]
  exact (FsInv.execOps hspec c _ (fun _ h => h) fs hinv).frame q hq

end Xcp
