import XcpProofs.MultiClashLemmas
/-! # Lemmas for `AnyRunFrame`: what EVERY reachable state of a run leaves untouched

An invariant of the file system alone (`FsInv`), for any operation list `ops` whose operations have plain, pairwise
independent targets and a set `P` of protected places (places no target is at or above, and whose prefixes of a target
exist initially): the tree is well-formed, no symbolic link is at or above a target or source of an operation of the
list (`Plains`), and every protected place is observed as initially.  A FAILED operation changes nothing (the models
keep `fs`); a successful operation keeps the invariant (`exec_frame`, `plains_transfer`).  Hence the invariant holds
in every reachable state of the concurrent model — failed or not, complete or not — and after the sequential
execution, whatever its exit. -/
namespace Xcp

open L0

/-- the static facts needed of the list `ops` and the protected places `P`, relative to the initial state `fs0` -/
structure FrameSpec (fs0 : Fs) (ops : List Op) (P : List Name → Prop) : Prop where
  char : ∀ x ∈ ops, ∃ t, opTarget x = some (plainPath t) ∧ t ≠ [] ∧ (∀ s, srcOf x = some s → NamesOnly s) ∧
    ∀ q, P q → ¬ t <+: q ∧ (q <+: t → obsAt fs0.root q ≠ none)
  indep : PairIndep ops
  root : P []
  rootDir : fs0.root.isDir = true

structure FsInv (fs0 : Fs) (ops : List Op) (P : List Name → Prop) (g : Fs) : Prop where
  wf : FsEq g g
  plains : ∀ x ∈ ops, Plains g x
  frame : ∀ q, P q → obsAt g.root q = obsAt fs0.root q

theorem FsInv.isDir {fs0 : Fs} {ops : List Op} {P : List Name → Prop} {g : Fs} (h : FrameSpec fs0 ops P)
    (hinv : FsInv fs0 ops P g) : g.root.isDir = true := by
  have h0 := hinv.frame [] h.root
  have hr := h.rootDir
  unfold obsAt at h0
  simp only [getAt_nil, Option.map_some, Option.some.injEq] at h0
  cases hg : g.root <;> cases hf : fs0.root <;> simp [hg, hf, Node.obs, Node.isDir] at h0 hr ⊢

/-- a successful operation of the list keeps the invariant -/
theorem FsInv.exec {fs0 : Fs} {ops : List Op} {P : List Name → Prop} (h : FrameSpec fs0 ops P) (c : Cfg)
    {g g' : Fs} {x : Op} (hx : x ∈ ops) (hinv : FsInv fs0 ops P g) (he : execOp g c x = some g') :
    FsInv fs0 ops P g' := by
  obtain ⟨t, htgt, htne, hsrcs, hP⟩ := h.char x hx
  have hop : OpPlain g x (plainPath t).names :=
    opPlain_of_plains htgt (plainPath_namesOnly _) hsrcs (hinv.plains x hx)
  have hF : Frame g g' x (plainPath t).names :=
    exec_frame c hop (by rw [plainPath_names]; exact htne) (hinv.isDir h) hinv.wf.2.1 he
  refine ⟨wf_exec hinv.wf he, plains_transfer hx h.indep htgt hF hinv.plains, ?_⟩
  rw [plainPath_names] at hF
  intro q hq
  obtain ⟨h1, h2⟩ := hP q hq
  rw [← hinv.frame q hq]
  apply hF.out q h1
  by_cases hqt : q <+: t
  · right
    rw [hinv.frame q hq]
    exact h2 hqt
  · exact .inl hqt

/-- sequential execution, whatever its exit -/
theorem FsInv.execOps {fs0 : Fs} {ops : List Op} {P : List Name → Prop} (h : FrameSpec fs0 ops P) (c : Cfg) :
    ∀ (l : List Op), (∀ x ∈ l, x ∈ ops) → ∀ g : Fs, FsInv fs0 ops P g → FsInv fs0 ops P (execOps g c l).fs := by
  intro l
  induction l with
  | nil => intro _ g hg; exact hg
  | cons op r ih =>
    intro hl g hg
    simp only [Xcp.execOps]
    cases hx : execOp g c op with
    | none => exact hg
    | some g' =>
      exact ih (fun x hx' => hl x (List.mem_cons_of_mem _ hx')) g' (hg.exec h c (hl op List.mem_cons_self) hx)

/-- the invariant of the concurrent runs: no condition on `failed` -/
structure FInv (fs0 : Fs) (ops : List Op) (P : List Name → Prop) (s : St) : Prop where
  fsinv : FsInv fs0 ops P s.fs
  mem : ∀ x ∈ s.queue ++ s.todo, x ∈ ops

theorem FInv.step {fs0 : Fs} {ops : List Op} {P : List Name → Prop} (h : FrameSpec fs0 ops P) (c : Cfg)
    (s s1 : St) (l : Label) (hinv : FInv fs0 ops P s) (hstep : L0.step c s l = some s1) : FInv fs0 ops P s1 := by
  obtain ⟨hfs, hmem⟩ := hinv
  cases l with
  | walk =>
    simp only [L0.step] at hstep
    cases hf : s.failed with
    | true => simp [hf] at hstep
    | false =>
      simp only [hf, Bool.false_eq_true, if_false] at hstep
      cases htd : s.todo with
      | nil => simp [htd] at hstep
      | cons op r =>
        simp only [htd] at hstep
        have hopm : op ∈ ops := hmem op (by rw [htd]; simp)
        have hmem' : ∀ x ∈ s.queue ++ r, x ∈ ops := by
          intro x hx
          apply hmem x
          rw [htd]
          simp only [List.mem_append, List.mem_cons] at hx ⊢
          rcases hx with hx | hx
          · exact .inl hx
          · exact .inr (.inr hx)
        cases hsy : isSync op with
        | true =>
          simp only [hsy, if_true] at hstep
          cases hx : execOp s.fs c op with
          | none =>
            simp only [hx, Option.some.injEq] at hstep
            subst hstep
            exact ⟨hfs, fun x hx' => hmem x (by
              simp only [List.append_nil] at hx'
              exact List.mem_append_left _ hx')⟩
          | some fs' =>
            simp only [hx, Option.some.injEq] at hstep
            subst hstep
            exact ⟨hfs.exec h c hopm hx, hmem'⟩
        | false =>
          simp only [hsy, Bool.false_eq_true, if_false, Option.some.injEq] at hstep
          subst hstep
          refine ⟨hfs, ?_⟩
          intro x hx
          apply hmem x
          rw [htd]
          simp only [List.mem_append, List.mem_cons, List.not_mem_nil, or_false] at hx ⊢
          rcases hx with (hx | hx) | hx
          · exact .inl hx
          · exact .inr (.inl hx)
          · exact .inr (.inr hx)
  | exec i =>
    simp only [L0.step] at hstep
    cases hq : s.queue[i]? with
    | none => simp [hq] at hstep
    | some op =>
      simp only [hq] at hstep
      have hopq : op ∈ s.queue := List.mem_iff_getElem?.2 ⟨i, hq⟩
      have hopm : op ∈ ops := hmem op (List.mem_append_left _ hopq)
      have hmem' : ∀ x ∈ s.queue.eraseIdx i ++ s.todo, x ∈ ops := by
        intro x hx
        apply hmem x
        simp only [List.mem_append] at hx ⊢
        rcases hx with hx | hx
        · exact .inl (List.mem_of_mem_eraseIdx hx)
        · exact .inr hx
      cases hx : execOp s.fs c op with
      | none =>
        simp only [hx, Option.some.injEq] at hstep
        subst hstep
        exact ⟨hfs, hmem'⟩
      | some fs' =>
        simp only [hx, Option.some.injEq] at hstep
        subst hstep
        exact ⟨hfs.exec h c hopm hx, hmem'⟩

theorem FInv.run {fs0 : Fs} {ops : List Op} {P : List Name → Prop} (h : FrameSpec fs0 ops P) (c : Cfg) :
    ∀ (ls : List Label) (s s' : St), FInv fs0 ops P s → L0.run c s ls = some s' → FInv fs0 ops P s' := by
  intro ls
  induction ls with
  | nil =>
    intro s s' hinv hr
    simp only [L0.run, Option.some.injEq] at hr
    subst hr
    exact hinv
  | cons l ls ih =>
    intro s s' hinv hr
    simp only [L0.run] at hr
    split at hr
    · next s1 hs1 => exact ih s1 s' (FInv.step h c s s1 l hinv hs1) hr
    · cases hr

theorem FInv.init {fs0 : Fs} {ops : List Op} {P : List Name → Prop} (hwf : FsEq fs0 fs0)
    (hpl : ∀ x ∈ ops, Plains fs0 x) : FInv fs0 ops P (L0.init fs0 ops) :=
  ⟨⟨hwf, hpl, fun _ _ => rfl⟩, fun x hx => by simpa [L0.init] using hx⟩

/-! ## One source -/

/-- no symbolic link at or above any target or source, initially: the target is absent or has none (`PlainBelow`) -/
theorem plains_init_opt {srcNode : Node} {S T : List Name} {d : Nat} {ops : List Op} (h : OpsSpec srcNode S T d ops)
    (g : Fs) (hS : g.root.getAt S = some srcNode) (hlT : NoLinkUpto g.root T)
    (hpl : ∀ x0, g.root.getAt T = some x0 → PlainBelow x0) :
    ∀ x ∈ ops, Plains g x := by
  intro x hx
  obtain ⟨rel, m, hg, _, ex⟩ := h.char x hx
  have hup : NoLinkUpto g.root (T ++ rel) := by
    intro p hp tg hgl
    by_cases hT' : T <+: p
    · obtain ⟨q, hq⟩ := hT'
      subst hq
      cases hy : g.root.getAt T with
      | none => rw [getAt_append_none _ _ _ hy] at hgl; cases hgl
      | some y =>
        rw [Node.getAt_append, hy] at hgl
        have := (hpl y hy q _ hgl).1
        cases this
    · have hpT : p <+: T := by
        rcases List.prefix_or_prefix_of_prefix hp (List.prefix_append T rel) with h1 | h1
        · exact h1
        · exact absurd h1 hT'
      exact hlT p hpT tg hgl
  refine ⟨?_, ?_⟩
  · intro t ht
    rw [ex, headOp_target] at ht
    have := Option.some.inj ht
    subst this
    rw [plainPath_names]
    exact ⟨hup.above, fun _ => hup⟩
  · intro sp hs
    rw [ex] at hs
    obtain ⟨e, _, hml⟩ := headOp_srcOf _ _ _ _ hs
    subst e
    rw [plainPath_names]
    apply noLinkUpto_of_getAt (x := m) _ hml
    rw [Node.getAt_append, hS]; exact hg

/-- the operations of one source, with everything not at or below the target base protected -/
theorem frameSpec_single {srcNode : Node} {S T : List Name} {d : Nat} {ops : List Op}
    (h : OpsSpec srcNode S T d ops) (fs0 : Fs) (hroot : fs0.root.isDir = true)
    (hpar : ∃ es, fs0.root.getAt T.dropLast = some (.dir es)) :
    FrameSpec fs0 ops (fun q => ¬ T <+: q) where
  char := by
    intro x hx
    obtain ⟨rel, m, _, _, ex⟩ := h.char x hx
    refine ⟨T ++ rel, by rw [ex, headOp_target], fun h0 => h.tne (List.append_eq_nil_iff.1 h0).1, ?_, ?_⟩
    · intro s hs
      rw [ex] at hs
      obtain ⟨e1, _, _⟩ := headOp_srcOf _ _ _ _ hs
      rw [e1]; exact plainPath_namesOnly _
    · intro q hq
      refine ⟨fun hp => hq ((List.prefix_append T rel).trans hp), ?_⟩
      intro hqt
      have hqT : q <+: T := by
        rcases List.prefix_or_prefix_of_prefix hqt (List.prefix_append T rel) with h1 | h1
        · exact h1
        · exact absurd h1 hq
      have hne : q ≠ T := fun e => hq (e ▸ List.prefix_refl _)
      obtain ⟨es, hes⟩ := hpar
      obtain ⟨y, hy⟩ := getAt_prefix_some hes (prefix_dropLast_of_ne hqT hne)
      exact obsAt_ne_none hy
  indep := h.pairIndep
  root := fun hp => h.tne (List.prefix_nil.1 hp)
  rootDir := hroot

/-! ## Several sources -/

/-- the concatenated list, with everything not at or below one of the targets protected -/
theorem frameSpec_multi {items : List CopySrc} {dn : List Name} (h : MSpec items dn) (fs0 : Fs)
    (hdd : ∃ es, fs0.root.getAt dn = some (.dir es)) :
    FrameSpec fs0 (allOps dn items) (fun q => ∀ e ∈ items, ¬ dn ++ [e.base] <+: q) where
  char := by
    intro x hx
    obtain ⟨e, he, rel, m, _, _, ex⟩ := h.char hx
    refine ⟨dn ++ [e.base] ++ rel, by rw [ex, headOp_target], by simp, ?_, ?_⟩
    · intro s hs
      rw [ex] at hs
      obtain ⟨e1, _, _⟩ := headOp_srcOf _ _ _ _ hs
      rw [e1]; exact plainPath_namesOnly _
    · intro q hq
      have hqe := hq e he
      refine ⟨fun hp => hqe ((List.prefix_append _ rel).trans hp), ?_⟩
      intro hqt
      have hqT : q <+: dn ++ [e.base] := by
        rcases List.prefix_or_prefix_of_prefix hqt (List.prefix_append (dn ++ [e.base]) rel) with h1 | h1
        · exact h1
        · exact absurd h1 hqe
      have hqd : q <+: dn := by
        rcases List.prefix_concat_iff.1 hqT with h1 | h1
        · exact absurd (h1 ▸ List.prefix_refl _) hqe
        · exact h1
      obtain ⟨es, hes⟩ := hdd
      obtain ⟨y, hy⟩ := getAt_prefix_some hes hqd
      exact obsAt_ne_none hy
  indep := h.pairIndep
  root := fun e _ hp => by
    have := List.prefix_nil.1 hp
    simp at this
  rootDir := by
    obtain ⟨es, hes⟩ := hdd
    obtain ⟨es', hes'⟩ := getAt_prefix_dir hes List.nil_prefix
    simp only [getAt_nil, Option.some.injEq] at hes'
    rw [hes']; rfl

end Xcp
