import XcpProofs.ClashConcLemmas
import XcpProofs.MultiConcLemmas
/-! # Lemmas for `MultiClash`: several sources, one of whose targets clashes

Sequential part: the fold over the items (as `execAll_overlay_inv` / `runSources_overlay_inv`), where the items
before the first clashing one behave as overlay steps (`exec_overlay`, `single_exact`) and leave the later targets and
sources untouched, and the first clashing item fails by `exec_clash`, whatever follows.

Concurrent part: the invariant `CInv` (ClashConcLemmas) over the concatenated list `allOps`; its step only needs that
a successful operation of the list is not the clashing one and keeps the observation at the clashing place
(`CInv.step_of`), which for `allOps` follows from `MSpec` (`clash_exec_multi`). -/
namespace Xcp

open L0

/-! ## Sequential: the concatenated list -/

/-- the operations of all remaining items, run in order from a state `g` that still holds every remaining source
tree, where `dn` is a directory and the remaining targets are as in the initial tree `root0`, made of directories and
regular files: if some remaining target is not compatible with its source, the run fails -/
theorem execAll_clash_inv (c : Cfg) (hn : c.noClobber = false)
    (root0 : Node) (dn : List Name) (hdl : dn.length + 1 + 63 < 256) :
    ∀ (items : List CopySrc) (g : Fs), FsEq g g →
      (∃ es, g.root.getAt dn = some (.dir es)) →
      (items.map (·.base)).Nodup →
      (∀ e ∈ items, g.root.getAt e.path.names = some e.node ∧ e.node.Copyable 63 ∧
        e.path.names.length + 63 < 256) →
      (∀ e ∈ items, ∀ e' ∈ items,
        ¬ e.path.names <+: dn ++ [e'.base] ∧ ¬ dn ++ [e'.base] <+: e.path.names) →
      (∀ e ∈ items, g.root.getAt (dn ++ [e.base]) = root0.getAt (dn ++ [e.base])) →
      (∀ e ∈ items, ∀ x, root0.getAt (dn ++ [e.base]) = some x → PlainBelow x) →
      (∃ e ∈ items, ¬ Compatible (root0.getAt (dn ++ [e.base])) e.node) →
      (execOps g c (allOps dn items)).exit = .err := by
  intro items
  induction items with
  | nil =>
    intro g _ _ _ _ _ _ _ hcl
    obtain ⟨e, he, _⟩ := hcl
    cases he
  | cons e rest ih =>
    intro g hwf hdd hnd hsrc hun hag hpl hcl
    obtain ⟨es, hes⟩ := hdd
    obtain ⟨hsn, hcop, hl⟩ := hsrc e List.mem_cons_self
    have hue := hun e List.mem_cons_self e List.mem_cons_self
    have hage := hag e List.mem_cons_self
    simp only [List.map_cons, List.nodup_cons] at hnd
    rw [allOps_cons]
    by_cases hce : Compatible (root0.getAt (dn ++ [e.base])) e.node
    · -- an overlay step; a later item clashes
      have hexec : ∀ rest' : List Op,
          execOps g c (opsOf e.node e.path.names (dn ++ [e.base]) ++ rest') =
            execOps { g with root := placeAt g.root (dn ++ [e.base]) (g.root.getAt (dn ++ [e.base])) e.node } c
              rest' :=
        fun rest' => exec_overlay c hn 63 e.node hcop g e.path.names dn e.base es rest' hsn hes (hwf.2.1 dn es hes)
          (fun x hx => subtree_WF hwf.2.1 hx) (by rw [hage]; exact hce) hue.1 hue.2 hl hdl
      have hrun : execOps g c (opsOf e.node e.path.names (dn ++ [e.base])) =
          ⟨.ok, { g with root := placeAt g.root (dn ++ [e.base]) (g.root.getAt (dn ++ [e.base])) e.node }⟩ := by
        have := hexec []
        rw [List.append_nil] at this
        rw [this]
        rfl
      have hwf1 := execOps_wf c _ g _ hwf hrun
      obtain ⟨es1, hes1⟩ := placeAt_parent g.root dn e.base es (g.root.getAt (dn ++ [e.base])) e.node hes
      rw [hexec]
      apply ih _ hwf1 ⟨es1, hes1⟩ hnd.2
      · intro e' he'
        obtain ⟨a3, a5, a6⟩ := hsrc e' (List.mem_cons_of_mem _ he')
        have u := hun e' (List.mem_cons_of_mem _ he') e List.mem_cons_self
        refine ⟨?_, a5, a6⟩
        show (placeAt g.root (dn ++ [e.base]) (g.root.getAt (dn ++ [e.base])) e.node).getAt e'.path.names = _
        rw [placeAt_getAt_unrelated _ _ _ _ _ u.2 u.1]
        exact a3
      · exact fun a ha b hb => hun a (List.mem_cons_of_mem _ ha) b (List.mem_cons_of_mem _ hb)
      · intro e' he'
        have hne : e.base ≠ e'.base := by
          intro h
          apply hnd.1
          rw [h]
          exact List.mem_map.2 ⟨e', he', rfl⟩
        show (placeAt g.root (dn ++ [e.base]) (g.root.getAt (dn ++ [e.base])) e.node).getAt (dn ++ [e'.base]) = _
        rw [placeAt_getAt_unrelated _ _ _ _ _ (sibling_unrel dn hne) (sibling_unrel dn (Ne.symm hne))]
        exact hag e' (List.mem_cons_of_mem _ he')
      · exact fun a ha => hpl a (List.mem_cons_of_mem _ ha)
      · obtain ⟨e', he', hne'⟩ := hcl
        cases he' with
        | head => exact absurd hce hne'
        | tail _ hm => exact ⟨e', hm, hne'⟩
    · -- this item clashes
      cases hx : root0.getAt (dn ++ [e.base]) with
      | none => rw [hx] at hce; exact absurd (compatible_none _) hce
      | some x =>
        rw [hx] at hce
        have hgx : g.root.getAt (dn ++ [e.base]) = some x := by rw [hage, hx]
        exact exec_clash c hn 63 e.node hcop g e.path.names (dn ++ [e.base]) x (allOps dn rest) hsn hgx (by simp)
          (subtree_WF hwf.2.1 hgx) (hpl e List.mem_cons_self x hx) hce hue.1 hue.2 hl
          (by simp only [List.length_append, List.length_cons, List.length_nil]; omega)

/-! ## Sequential: `runSources` -/

theorem runSources_cons_err (g : Fs) (c : Cfg) (texts : GiTexts) (dest s tb : RPath) (r : List RPath)
    (hg : c.gitignore = false) (h1 : targetBase g c dest s = some tb)
    (h2 : (execOps g c (walkEntry g c none s tb walkFuel [] [])).exit = .err) :
    (runSources g c texts dest (s :: r)).exit = .err := by
  have hp : parseIgnore g c texts s = none := by simp [parseIgnore, hg]
  simp only [runSources, h1, hp, h2]

/-- the run for one source whose target, of directories and regular files, is not compatible with it: fails -/
theorem single_clash (fs : Fs) (c : Cfg) (hd : c.dereference = false) (hn : c.noClobber = false)
    (sn tn : List Name) (n x : Node)
    (hwf : fs.root.WF) (hsn : fs.root.getAt sn = some n) (hnl : n.isLink = false) (hcop : n.Copyable 63)
    (ht : fs.root.getAt tn = some x) (htne : tn ≠ []) (hpl : PlainBelow x)
    (hclash : ¬ Compatible (some x) n)
    (hun1 : ¬ sn <+: tn) (hun2 : ¬ tn <+: sn)
    (hl1 : sn.length + 63 < 256) (hl2 : tn.length + 63 < 256) :
    (execOps fs c (walkEntry fs c none (plainPath sn) (plainPath tn) walkFuel [] [])).exit = .err := by
  rw [walkFuel_eq]
  have hshape : walkEntry fs c none (plainPath sn) (plainPath tn) (63 + 1) [] [] =
      opsOf n (sn ++ []) (tn ++ []) := by
    have h1 : fs.root.getAt (sn ++ []) = some n := by simpa using hsn
    have h2 : n.isLink = true → ([] : List Name) ≠ [] := fun h => by rw [hnl] at h; cases h
    have h3 : sn.length + ([] : List Name).length + 63 < 256 := by
      simp only [List.length_nil]; omega
    exact walk_shape fs c hd sn tn (.inl hn) 63 n hcop [] [] h1 h2 h3
  simp only [List.append_nil] at hshape
  have hexec := exec_clash c hn 63 n hcop fs sn tn x [] hsn ht htne (subtree_WF hwf ht) hpl hclash hun1 hun2 hl1 hl2
  rw [List.append_nil] at hexec
  rw [hshape]
  exact hexec

/-- the `runSources` analogue of `execAll_clash_inv` -/
theorem runSources_clash_inv (c : Cfg) (texts : GiTexts) (hd : c.dereference = false) (hn : c.noClobber = false)
    (hg : c.gitignore = false) (hnt : c.noTargetDir = false)
    (root0 : Node) (dn : List Name) (hdl : dn.length + 1 + 63 < 256) :
    ∀ (items : List CopySrc) (g : Fs), FsEq g g →
      (∃ es, g.root.getAt dn = some (.dir es)) →
      (items.map (·.base)).Nodup →
      (∀ e ∈ items, e.path = plainPath e.path.names ∧ e.path.fileName = some e.base ∧
        g.root.getAt e.path.names = some e.node ∧ e.node.isLink = false ∧ e.node.Copyable 63 ∧
        e.path.names.length + 63 < 256) →
      (∀ e ∈ items, ∀ e' ∈ items,
        ¬ e.path.names <+: dn ++ [e'.base] ∧ ¬ dn ++ [e'.base] <+: e.path.names) →
      (∀ e ∈ items, g.root.getAt (dn ++ [e.base]) = root0.getAt (dn ++ [e.base])) →
      (∀ e ∈ items, ∀ x, root0.getAt (dn ++ [e.base]) = some x → PlainBelow x) →
      (∃ e ∈ items, ¬ Compatible (root0.getAt (dn ++ [e.base])) e.node) →
      (runSources g c texts (plainPath dn) (items.map (·.path))).exit = .err := by
  intro items
  induction items with
  | nil =>
    intro g _ _ _ _ _ _ _ hcl
    obtain ⟨e, he, _⟩ := hcl
    cases he
  | cons e rest ih =>
    intro g hwf hdd hnd hsrc hun hag hpl hcl
    obtain ⟨es, hes⟩ := hdd
    obtain ⟨hpe, hfn, hsn, hnl, hcop, hl⟩ := hsrc e List.mem_cons_self
    have hue := hun e List.mem_cons_self e List.mem_cons_self
    have hage := hag e List.mem_cons_self
    simp only [List.map_cons, List.nodup_cons] at hnd
    have htb := targetBase_dir g c hnt dn es e.path e.base hfn (by omega) hes
    by_cases hce : Compatible (root0.getAt (dn ++ [e.base])) e.node
    · have hrun := single_exact g c hd hn e.path.names dn e.base e.node es hwf.2.1 hsn hnl hcop hes
        (by rw [hage]; exact hce) hue.1 hue.2 hl hdl
      rw [← hpe] at hrun
      have hstep := runSources_cons_ok g _ c texts (plainPath dn) e.path (plainPath (dn ++ [e.base]))
        (rest.map (·.path)) hg htb hrun
      have hwf1 := execOps_wf c _ g _ hwf hrun
      obtain ⟨es1, hes1⟩ := placeAt_parent g.root dn e.base es (g.root.getAt (dn ++ [e.base])) e.node hes
      rw [List.map_cons, hstep]
      apply ih _ hwf1 ⟨es1, hes1⟩ hnd.2
      · intro e' he'
        obtain ⟨a1, a2, a3, a4, a5, a6⟩ := hsrc e' (List.mem_cons_of_mem _ he')
        have u := hun e' (List.mem_cons_of_mem _ he') e List.mem_cons_self
        refine ⟨a1, a2, ?_, a4, a5, a6⟩
        show (placeAt g.root (dn ++ [e.base]) (g.root.getAt (dn ++ [e.base])) e.node).getAt e'.path.names = _
        rw [placeAt_getAt_unrelated _ _ _ _ _ u.2 u.1]
        exact a3
      · exact fun a ha b hb => hun a (List.mem_cons_of_mem _ ha) b (List.mem_cons_of_mem _ hb)
      · intro e' he'
        have hne : e.base ≠ e'.base := by
          intro h
          apply hnd.1
          rw [h]
          exact List.mem_map.2 ⟨e', he', rfl⟩
        show (placeAt g.root (dn ++ [e.base]) (g.root.getAt (dn ++ [e.base])) e.node).getAt (dn ++ [e'.base]) = _
        rw [placeAt_getAt_unrelated _ _ _ _ _ (sibling_unrel dn hne) (sibling_unrel dn (Ne.symm hne))]
        exact hag e' (List.mem_cons_of_mem _ he')
      · exact fun a ha => hpl a (List.mem_cons_of_mem _ ha)
      · obtain ⟨e', he', hne'⟩ := hcl
        cases he' with
        | head => exact absurd hce hne'
        | tail _ hm => exact ⟨e', hm, hne'⟩
    · cases hx : root0.getAt (dn ++ [e.base]) with
      | none => rw [hx] at hce; exact absurd (compatible_none _) hce
      | some x =>
        rw [hx] at hce
        have hgx : g.root.getAt (dn ++ [e.base]) = some x := by rw [hage, hx]
        have hfail := single_clash g c hd hn e.path.names (dn ++ [e.base]) e.node x hwf.2.1 hsn hnl hcop hgx
          (by simp) (hpl e List.mem_cons_self x hx) hce hue.1 hue.2 hl
          (by simp only [List.length_append, List.length_cons, List.length_nil]; omega)
        rw [← hpe] at hfail
        rw [List.map_cons]
        exact runSources_cons_err g c texts (plainPath dn) e.path (plainPath (dn ++ [e.base]))
          (rest.map (·.path)) hg htb hfail

/-! ## Concurrent: the invariant `CInv`, for any operation list -/

/-- one step of the concurrent model keeps `CInv`, provided a successful operation of the list, run in a state where
the clashing place shows `w`, is not the clashing operation and leaves a state of the same kind -/
theorem CInv.step_of {ops : List Op} {bad : Op} {p : List Name} {w : ONode} (c : Cfg)
    (hexec : ∀ (g g' : Fs) (x : Op), x ∈ ops → FsEq g g → (∀ y ∈ ops, Plains g y) → obsAt g.root p = some w →
      execOp g c x = some g' →
      x ≠ bad ∧ FsEq g' g' ∧ (∀ y ∈ ops, Plains g' y) ∧ obsAt g'.root p = some w)
    (s s1 : St) (l : Label) (hinv : CInv ops bad p w s) (hstep : L0.step c s l = some s1) :
    CInv ops bad p w s1 := by
  obtain ⟨hwf, hpl, hk, hmem, hpend⟩ := hinv
  cases l with
  | walk =>
    simp only [L0.step] at hstep
    cases hf : s.failed with
    | true => simp [hf] at hstep
    | false =>
      simp only [hf, Bool.false_eq_true, if_false] at hstep
      have hpend' : bad ∈ s.queue ++ s.todo := by
        rcases hpend with hp | hp
        · rw [hf] at hp; cases hp
        · exact hp
      cases htd : s.todo with
      | nil => simp [htd] at hstep
      | cons op r =>
        simp only [htd] at hstep
        have hopm : op ∈ ops := hmem op (by rw [htd]; simp)
        have hmem' : ∀ x ∈ s.queue ++ r, x ∈ ops := by
          intro x hx
          apply hmem x
          rw [htd]
          simp only [List.mem_append, List.mem_cons] at hx ⊢
          rcases hx with hx | hx
          · exact .inl hx
          · exact .inr (.inr hx)
        cases hsy : isSync op with
        | true =>
          simp only [hsy, if_true] at hstep
          cases hx : execOp s.fs c op with
          | none =>
            simp only [hx, Option.some.injEq] at hstep
            subst hstep
            exact ⟨hwf, hpl, hk, fun x hx' => hmem x (by
              simp only [List.append_nil] at hx'
              exact List.mem_append_left _ hx'), .inl rfl⟩
          | some fs' =>
            simp only [hx, Option.some.injEq] at hstep
            subst hstep
            obtain ⟨hne, hwf', hpl', hk'⟩ := hexec s.fs fs' op hopm hwf hpl hk hx
            refine ⟨hwf', hpl', hk', hmem', .inr ?_⟩
            rw [htd] at hpend'
            simp only [List.mem_append, List.mem_cons] at hpend' ⊢
            rcases hpend' with hp | hp | hp
            · exact .inl hp
            · exact absurd hp.symm hne
            · exact .inr hp
        | false =>
          simp only [hsy, Bool.false_eq_true, if_false, Option.some.injEq] at hstep
          subst hstep
          refine ⟨hwf, hpl, hk, ?_, .inr ?_⟩
          · intro x hx
            apply hmem x
            rw [htd]
            simp only [List.mem_append, List.mem_cons, List.not_mem_nil, or_false] at hx ⊢
            rcases hx with (hx | hx) | hx
            · exact .inl hx
            · exact .inr (.inl hx)
            · exact .inr (.inr hx)
          · rw [htd] at hpend'
            simp only [List.mem_append, List.mem_cons, List.not_mem_nil, or_false] at hpend' ⊢
            rcases hpend' with hp | hp | hp
            · exact .inl (.inl hp)
            · exact .inl (.inr hp)
            · exact .inr hp
  | exec i =>
    simp only [L0.step] at hstep
    cases hq : s.queue[i]? with
    | none => simp [hq] at hstep
    | some op =>
      simp only [hq] at hstep
      have hopq : op ∈ s.queue := List.mem_iff_getElem?.2 ⟨i, hq⟩
      have hopm : op ∈ ops := hmem op (List.mem_append_left _ hopq)
      have hmem' : ∀ x ∈ s.queue.eraseIdx i ++ s.todo, x ∈ ops := by
        intro x hx
        apply hmem x
        simp only [List.mem_append] at hx ⊢
        rcases hx with hx | hx
        · exact .inl (List.mem_of_mem_eraseIdx hx)
        · exact .inr hx
      cases hx : execOp s.fs c op with
      | none =>
        simp only [hx, Option.some.injEq] at hstep
        subst hstep
        exact ⟨hwf, hpl, hk, hmem', .inl rfl⟩
      | some fs' =>
        simp only [hx, Option.some.injEq] at hstep
        subst hstep
        obtain ⟨hne, hwf', hpl', hk'⟩ := hexec s.fs fs' op hopm hwf hpl hk hx
        refine ⟨hwf', hpl', hk', hmem', ?_⟩
        rcases hpend with hp | hp
        · exact .inl hp
        · right
          simp only [List.mem_append] at hp ⊢
          rcases hp with hp | hp
          · exact .inl (mem_eraseIdx_of_ne hp hq (fun e => hne e.symm))
          · exact .inr hp

theorem CInv.run_of {ops : List Op} {bad : Op} {p : List Name} {w : ONode} (c : Cfg)
    (hexec : ∀ (g g' : Fs) (x : Op), x ∈ ops → FsEq g g → (∀ y ∈ ops, Plains g y) → obsAt g.root p = some w →
      execOp g c x = some g' →
      x ≠ bad ∧ FsEq g' g' ∧ (∀ y ∈ ops, Plains g' y) ∧ obsAt g'.root p = some w) :
    ∀ (ls : List Label) (s s' : St), CInv ops bad p w s → L0.run c s ls = some s' → CInv ops bad p w s' := by
  intro ls
  induction ls with
  | nil =>
    intro s s' hinv hr
    simp only [L0.run, Option.some.injEq] at hr
    subst hr
    exact hinv
  | cons l ls ih =>
    intro s s' hinv hr
    simp only [L0.run] at hr
    split at hr
    · next s1 hs1 => exact ih s1 s' (CInv.step_of c hexec s s1 l hinv hs1) hr
    · cases hr

/-! ## Concurrent: the concatenated list -/

/-- no symbolic link at or above any target or source of the concatenated list, initially -/
theorem plains_init_multi {items : List CopySrc} {dn : List Name} (h : MSpec items dn) (g : Fs)
    (hdd : ∃ es, g.root.getAt dn = some (.dir es))
    (hS : ∀ e ∈ items, g.root.getAt e.path.names = some e.node)
    (hpl : ∀ e ∈ items, ∀ x, g.root.getAt (dn ++ [e.base]) = some x → PlainBelow x) :
    ∀ x ∈ allOps dn items, Plains g x := by
  intro x hx
  obtain ⟨e, he, rel, m, hg, _, ex⟩ := h.char hx
  obtain ⟨es, hes⟩ := hdd
  have hup : NoLinkUpto g.root (dn ++ [e.base] ++ rel) := by
    intro p hp tg hgl
    by_cases hT' : dn ++ [e.base] <+: p
    · obtain ⟨q, hq⟩ := hT'
      subst hq
      cases hy : g.root.getAt (dn ++ [e.base]) with
      | none => rw [getAt_append_none _ _ _ hy] at hgl; cases hgl
      | some y =>
        rw [Node.getAt_append, hy] at hgl
        have := (hpl e he y hy q _ hgl).1
        cases this
    · have hpT : p <+: dn ++ [e.base] := by
        rcases List.prefix_or_prefix_of_prefix hp (List.prefix_append (dn ++ [e.base]) rel) with h1 | h1
        · exact h1
        · exact absurd h1 hT'
      rcases List.prefix_concat_iff.1 hpT with h1 | h1
      · exact hT' (h1 ▸ List.prefix_refl _)
      · exact noLinkUpto_of_getAt hes rfl p h1 tg hgl
  refine ⟨?_, ?_⟩
  · intro t ht
    rw [ex, headOp_target] at ht
    have := Option.some.inj ht
    subst this
    rw [plainPath_names]
    exact ⟨hup.above, fun _ => hup⟩
  · intro sp hs
    rw [ex] at hs
    obtain ⟨e1, _, hml⟩ := headOp_srcOf _ _ _ _ hs
    subst e1
    rw [plainPath_names]
    apply noLinkUpto_of_getAt (x := m) _ hml
    rw [Node.getAt_append, hS e he]; exact hg

/-- `clash_exec` for the concatenated list: an operation of any item that SUCCEEDS in a state where the clashing
place (of the item `e0`) shows `w` is not the clashing operation, and leaves a state of the same kind -/
theorem clash_exec_multi {items : List CopySrc} {dn : List Name} (h : MSpec items dn) (hdl : dn.length + 1 + 63 < 256)
    (c : Cfg) {e0 : CopySrc} (he0 : e0 ∈ items) {rel0 : List Name} {m0 : Node} {w : ONode}
    (hg0 : e0.node.getAt rel0 = some m0) (hl0 : rel0.length ≤ 63)
    (hc : DirectClash w m0) (g g' : Fs) (x : Op) (hx : x ∈ allOps dn items) (hwf : FsEq g g)
    (hpl : ∀ y ∈ allOps dn items, Plains g y)
    (hk : obsAt g.root (dn ++ [e0.base] ++ rel0) = some w) (he : execOp g c x = some g') :
    x ≠ headOp m0 (e0.path.names ++ rel0) (dn ++ [e0.base] ++ rel0) ∧ FsEq g' g' ∧
      (∀ y ∈ allOps dn items, Plains g' y) ∧ obsAt g'.root (dn ++ [e0.base] ++ rel0) = some w := by
  have hpne : dn ++ [e0.base] ++ rel0 ≠ [] := by simp
  have hplt : (dn ++ [e0.base] ++ rel0).length < 256 := by
    simp only [List.length_append, List.length_cons, List.length_nil]; omega
  have hxb : x ≠ headOp m0 (e0.path.names ++ rel0) (dn ++ [e0.base] ++ rel0) := by
    intro e
    rw [e, directClash_fails g c m0 _ _ w hc hk hpne hplt] at he
    cases he
  obtain ⟨e, hem, rel, m, hg, hl, ex⟩ := h.char hx
  have htgt : opTarget x = some (plainPath (dn ++ [e.base] ++ rel)) := by rw [ex, headOp_target]
  have htne : dn ++ [e.base] ++ rel ≠ [] := by simp
  have hroot : g.root.isDir = true := by
    cases hy : g.root.getAt (dn ++ [e0.base] ++ rel0) with
    | none => unfold obsAt at hk; rw [hy] at hk; cases hk
    | some y =>
      have hy' : g.root.getAt ([] ++ (dn ++ [e0.base] ++ rel0)) = some y := by simpa using hy
      obtain ⟨es, hes⟩ := getAt_proper_prefix_dir hy' hpne
      simp only [getAt_nil, Option.some.injEq] at hes
      rw [hes]; rfl
  have hop : OpPlain g x (plainPath (dn ++ [e.base] ++ rel)).names :=
    opPlain_of_plains htgt (plainPath_namesOnly _)
      (by
        intro s hs
        rw [ex] at hs
        obtain ⟨e1, _, _⟩ := headOp_srcOf _ _ _ _ hs
        rw [e1]; exact plainPath_namesOnly _)
      (hpl x hx)
  have hF : Frame g g' x (plainPath (dn ++ [e.base] ++ rel)).names :=
    exec_frame c hop (by rw [plainPath_names]; exact htne) hroot hwf.2.1 he
  refine ⟨hxb, wf_exec hwf he, plains_transfer hx h.pairIndep htgt hF hpl, ?_⟩
  rw [plainPath_names] at hF
  cases hmd : m.isDir with
  | true =>
    cases m <;> simp [Node.isDir] at hmd
    rw [ex] at he
    have hP := mkdirAll_preserved _ _ _ (toOption_eq_some (by simpa [headOp, execOp] using he))
    have hK := hP (dn ++ [e0.base] ++ rel0)
    rcases hc.kind with hwd | ⟨k, hwk⟩
    · obtain ⟨es, hes⟩ := getAt_dir_of_obs (by rw [hk, hwd])
      rw [hes] at hK
      obtain ⟨es', hes'⟩ := hK
      rw [obsAt_dir hes', hwd]
    · have hf : g.root.getAt (dn ++ [e0.base] ++ rel0) = some (.file k) :=
        getAt_of_obs_leaf (x := .file k) rfl (by rw [hk, hwk]; rfl)
      rw [hf] at hK
      have hK' : g'.root.getAt (dn ++ [e0.base] ++ rel0) = some (.file k) := hK
      rw [hwk]
      unfold obsAt
      rw [hK']
      rfl
  | false =>
    rw [← hk]
    apply hF.out (dn ++ [e0.base] ++ rel0)
    · intro hp
      rw [List.append_assoc, List.append_assoc] at hp
      have hp' := (List.prefix_append_right_inj dn).1 hp
      simp only [List.cons_append, List.nil_append] at hp'
      obtain ⟨hb, hrel⟩ := List.cons_prefix_cons.1 hp'
      have hee : e = e0 := base_inj h.nd hem he0 hb
      subst hee
      obtain ⟨s, hs⟩ := hrel
      by_cases hs0 : s = []
      · subst hs0
        rw [List.append_nil] at hs
        subst hs
        rw [hg0] at hg
        injection hg with hg
        subst hg
        exact hxb ex
      · rw [← hs] at hg0
        obtain ⟨es, hes⟩ := getAt_proper_prefix_dir hg0 hs0
        rw [hes] at hg
        injection hg with hg
        subst hg
        cases hmd
    · right
      rw [hk]
      exact fun hh => by cases hh

/-- the entry operation of every node of every item's tree is an operation of the concatenated list -/
theorem headOp_mem_allOps {items : List CopySrc} {dn : List Name} {e : CopySrc} (he : e ∈ items)
    {rel : List Name} {m : Node} (hg : e.node.getAt rel = some m) :
    headOp m (e.path.names ++ rel) (dn ++ [e.base] ++ rel) ∈ allOps dn items :=
  mem_allOps.2 ⟨e, he, headOp_mem_opsOf rel e.node m e.path.names (dn ++ [e.base]) hg⟩

/-- the concurrent runs over the concatenated list, one of whose items clashes: complete only if failed -/
theorem allOps_clash_concurrent {items : List CopySrc} {dn : List Name} (h : MSpec items dn)
    (hdl : dn.length + 1 + 63 < 256) (c : Cfg) (fs : Fs) (hwf : FsEq fs fs)
    (hdd : ∃ es, fs.root.getAt dn = some (.dir es))
    (hS : ∀ e ∈ items, fs.root.getAt e.path.names = some e.node)
    (hpl : ∀ e ∈ items, ∀ x, fs.root.getAt (dn ++ [e.base]) = some x → PlainBelow x)
    (hcl : ∃ e ∈ items, ¬ Compatible (fs.root.getAt (dn ++ [e.base])) e.node)
    (ls : List Label) (s : St) (hrun : run c (init fs (allOps dn items)) ls = some s) (hfin : final s = true) :
    s.failed = true := by
  obtain ⟨e0, he0, hne0⟩ := hcl
  cases hx : fs.root.getAt (dn ++ [e0.base]) with
  | none => rw [hx] at hne0; exact absurd (compatible_none _) hne0
  | some x =>
    rw [hx] at hne0
    obtain ⟨rel0, m0, y, hl0, hg0, hy, hdc⟩ := clash_position 63 e0.node (h.cop e0 he0) x
      (subtree_WF hwf.2.1 hx) (hpl e0 he0 x hx) hne0
    have hinit : CInv (allOps dn items) (headOp m0 (e0.path.names ++ rel0) (dn ++ [e0.base] ++ rel0))
        (dn ++ [e0.base] ++ rel0) y.obs (init fs (allOps dn items)) := by
      refine ⟨hwf, plains_init_multi h fs hdd hS hpl, ?_, ?_, .inr ?_⟩
      · show obsAt fs.root (dn ++ [e0.base] ++ rel0) = some y.obs
        unfold obsAt
        rw [Node.getAt_append, hx]
        show Option.map Node.obs (x.getAt rel0) = _
        rw [hy]
        rfl
      · intro x hx
        simpa [init] using hx
      · show _ ∈ [] ++ allOps dn items
        rw [List.nil_append]
        exact headOp_mem_allOps he0 hg0
    exact (CInv.run_of c (fun g g' x hx hw hp hk he =>
      clash_exec_multi h hdl c he0 hg0 hl0 hdc g g' x hx hw hp hk he) ls _ s hinit hrun).failed_of_final hfin

end Xcp
