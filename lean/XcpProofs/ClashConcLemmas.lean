import XcpProofs.ClashLemmas
import XcpProofs.L0Fs
import XcpProofs.MirrorConcLemmas
import XcpProofs.OverlayConcLemmas
/-! # Lemmas for `ClashConc`: a clashing copy fails on every interleaving

A destination of directories and regular files that is not `Compatible` with the source has a position where the
pair (destination object, source node) clashes DIRECTLY (`clash_position`): a source directory over a regular file, a
source regular or special file over a directory, a source symbolic link over either.  The entry operation of that
source node (`headOp`) fails whenever the place still shows what the initial destination showed (`directClash_fails`);
and every OTHER operation of the walk, when it succeeds, leaves that observation as it is (`clash_exec`): a
`create_dir_all` never changes the kind of what exists, and every other operation acts on a plain target that is not
at or above the place (no symbolic link is ever at or above a target: `Plains`, transferred by `plains_transfer`).
So in the concurrent model the operation fails at whatever moment it runs; a run that is complete has run it
(`CInv`). -/
namespace Xcp

open L0

/-! ## The directly clashing position -/

/-- the source node `m` meets a destination object observed as `w`, and its entry operation cannot succeed -/
def DirectClash (w : ONode) (m : Node) : Prop :=
  (m.isDir = true ∧ ∃ k, w = .file k) ∨ (m.isDir = false ∧ m.isLink = false ∧ w = .dir) ∨
    (m.isLink = true ∧ (w = .dir ∨ ∃ k, w = .file k))

theorem DirectClash.kind {w : ONode} {m : Node} (h : DirectClash w m) : w = .dir ∨ ∃ k, w = .file k := by
  rcases h with ⟨_, h⟩ | ⟨_, _, h⟩ | ⟨_, h⟩
  · exact .inr h
  · exact .inl h
  · exact h

theorem directClash_leaf (n : Node) (hnd : n.isDir = false) (x : Node) (hpl : PlainBelow x)
    (hc : ¬ Compatible (some x) n) : DirectClash x.obs n := by
  cases n with
  | dir es => cases hnd
  | link t =>
    right; right
    refine ⟨rfl, ?_⟩
    rcases hpl.cases with ⟨k', rfl⟩ | ⟨des, rfl⟩
    · exact .inr ⟨k', rfl⟩
    · exact .inl rfl
  | file k =>
    rcases hpl.cases with ⟨k', rfl⟩ | ⟨des, rfl⟩
    · exact absurd (by simp [Compatible, Node.compatible]) hc
    · right; left; exact ⟨rfl, rfl, rfl⟩
  | special k dv =>
    rcases hpl.cases with ⟨k', rfl⟩ | ⟨des, rfl⟩
    · exact absurd (by simp [Compatible, Node.compatible]) hc
    · right; left; exact ⟨rfl, rfl, rfl⟩

theorem compatibleL_false {des : Entries} : ∀ {ses : List (Name × Node)}, compatibleL des ses = false →
    ∃ e ∈ ses, ¬ Compatible (entGet des e.1) e.2 := by
  intro ses
  induction ses with
  | nil => intro h; simp [compatibleL] at h
  | cons e r ih =>
    intro h
    obtain ⟨m, ch⟩ := e
    rw [compatibleL_cons] at h
    by_cases hcm : Compatible (entGet des m) ch
    · have hcm' : Node.compatible (entGet des m) ch = true := hcm
      rw [hcm'] at h
      obtain ⟨e, he, hne⟩ := ih (by simpa using h)
      exact ⟨e, List.mem_cons_of_mem _ he, hne⟩
    · exact ⟨(m, ch), List.mem_cons_self, hcm⟩

/-- a destination of directories and regular files that is not compatible with the source: at some position of the
source tree, the two clash directly -/
theorem clash_position : ∀ (d : Nat) (n : Node), n.Copyable d → ∀ (x : Node), x.WF → PlainBelow x →
    ¬ Compatible (some x) n →
    ∃ rel m y, rel.length ≤ d ∧ n.getAt rel = some m ∧ x.getAt rel = some y ∧ DirectClash y.obs m := by
  intro d
  induction d with
  | zero =>
    intro n hcop x _ hpl hc
    have hnd : n.isDir = false := by
      cases n <;> simp [Node.Copyable] at hcop <;> rfl
    exact ⟨[], n, x, Nat.le_refl _, rfl, rfl, directClash_leaf n hnd x hpl hc⟩
  | succ d ih =>
    intro n hcop x hw hpl hc
    cases hnd : n.isDir with
    | false => exact ⟨[], n, x, Nat.zero_le _, rfl, rfl, directClash_leaf n hnd x hpl hc⟩
    | true =>
      cases n <;> simp [Node.isDir] at hnd
      rename_i es
      obtain ⟨d', hd', hndp, hch⟩ := copyable_dir hcop
      have hd'' : d' = d := by omega
      subst hd''
      rcases hpl.cases with ⟨k', rfl⟩ | ⟨des, rfl⟩
      · exact ⟨[], _, _, Nat.zero_le _, rfl, rfl, .inl ⟨rfl, k', rfl⟩⟩
      · have hcl : compatibleL des es = false := by
          cases hh : compatibleL des es with
          | false => rfl
          | true => exact absurd (by simpa [Compatible, Node.compatible] using hh) hc
        obtain ⟨e, he, hne⟩ := compatibleL_false hcl
        rw [WF_dir] at hw
        cases hy : entGet des e.1 with
        | none => rw [hy] at hne; exact absurd (compatible_none _) hne
        | some y =>
          rw [hy] at hne
          obtain ⟨rel, m, z, hl, hg, hz, hdc⟩ := ih e.2 (hch e he) y (hw.2 e.1 y hy) (hpl.child hy) hne
          refine ⟨e.1 :: rel, m, z, by simp only [List.length_cons]; omega, ?_, ?_, hdc⟩
          · rw [getAt_dir_cons, entGet_of_mem es hndp e he]; exact hg
          · rw [getAt_dir_cons, hy]; exact hz

/-- the entry operation of a directly clashing source node fails as long as the place shows what it showed -/
theorem directClash_fails (g : Fs) (c : Cfg) (m : Node) (sn p : List Name) (w : ONode)
    (hc : DirectClash w m) (hk : obsAt g.root p = some w) (hne : p ≠ []) (hlt : p.length < 256) :
    execOp g c (headOp m sn p) = none := by
  have hfile : ∀ k, w = .file k → g.root.getAt p = some (.file k) := by
    intro k hwk
    exact getAt_of_obs_leaf (x := .file k) rfl (by rw [hk, hwk]; rfl)
  have hdir : w = .dir → ∃ es, g.root.getAt p = some (.dir es) := by
    intro hwd
    exact getAt_dir_of_obs (by rw [hk, hwd])
  rcases hc with ⟨hmd, k, hwk⟩ | ⟨hmd, hml, hwd⟩ | ⟨hml, hw⟩
  · cases m <;> simp [Node.isDir] at hmd
    exact execOp_mkdir_onto_file g c p k (hfile k hwk) hne hlt
  · obtain ⟨es, hes⟩ := hdir hwd
    cases m with
    | dir _ => cases hmd
    | link _ => cases hml
    | file k => exact execOp_copy_onto_dir g c sn p es hes hlt
    | special k dv => exact execOp_special_onto_dir g c sn p es hes hlt
  · cases m <;> simp [Node.isLink] at hml
    rcases hw with hwd | ⟨k, hwk⟩
    · obtain ⟨es, hes⟩ := hdir hwd
      exact execOp_link_onto g c _ p _ hes hlt
    · exact execOp_link_onto g c _ p _ (hfile k hwk) hlt

/-! ## Membership of an entry operation -/

theorem opsOf_sub_opsOfL {es : List (Name × Node)} {e : Name × Node} (he : e ∈ es) (sn tn : List Name) (x : Op)
    (hx : x ∈ opsOf e.2 (sn ++ [e.1]) (tn ++ [e.1])) : x ∈ opsOfL es sn tn := by
  induction es with
  | nil => cases he
  | cons e' r ih =>
    obtain ⟨m, ch⟩ := e'
    simp only [opsOfL, List.mem_append]
    cases he with
    | head => exact .inl hx
    | tail _ hm => exact .inr (ih hm)

theorem headOp_mem_opsOf_self (n : Node) (sn tn : List Name) : headOp n sn tn ∈ opsOf n sn tn := by
  cases n <;> simp [headOp, opsOf]

/-- the entry operation of every node of the tree is an operation of `opsOf` -/
theorem headOp_mem_opsOf : ∀ (rel : List Name) (n m : Node) (sn tn : List Name), n.getAt rel = some m →
    headOp m (sn ++ rel) (tn ++ rel) ∈ opsOf n sn tn := by
  intro rel
  induction rel with
  | nil =>
    intro n m sn tn hg
    simp only [getAt_nil, Option.some.injEq] at hg
    subst hg
    simpa using headOp_mem_opsOf_self n sn tn
  | cons a rel' ih =>
    intro n m sn tn hg
    obtain ⟨es, ch, hn, hch, hm⟩ := Node.getAt_cons_some hg
    subst hn
    have hmem : (a, ch) ∈ es := entGet_mem hch
    have := ih ch m (sn ++ [a]) (tn ++ [a]) hm
    simp only [List.append_assoc, List.singleton_append] at this
    simp only [opsOf, List.mem_cons]
    exact .inr (opsOf_sub_opsOfL hmem sn tn _ this)

/-! ## One successful operation of the walk, in a state where the clashing place shows what it showed -/

/-- no symbolic link at or above any target or source, initially: the destination has none (`PlainBelow`) -/
theorem plains_init {srcNode : Node} {S T : List Name} {d : Nat} {ops : List Op} (h : OpsSpec srcNode S T d ops)
    (g : Fs) (x0 : Node) (hS : g.root.getAt S = some srcNode)
    (hT : g.root.getAt T = some x0) (hlT : NoLinkUpto g.root T) (hpl : PlainBelow x0) :
    ∀ x ∈ ops, Plains g x := by
  intro x hx
  obtain ⟨rel, m, hg, hl, ex⟩ := h.char x hx
  have hup : NoLinkUpto g.root (T ++ rel) := by
    intro p hp tg hgl
    by_cases hT' : T <+: p
    · obtain ⟨q, hq⟩ := hT'
      subst hq
      rw [Node.getAt_append, hT] at hgl
      have := (hpl q _ hgl).1
      cases this
    · have hpT : p <+: T := by
        rcases List.prefix_or_prefix_of_prefix hp (List.prefix_append T rel) with h1 | h1
        · exact h1
        · exact absurd h1 hT'
      exact hlT p hpT tg hgl
  refine ⟨?_, ?_⟩
  · intro t ht
    rw [ex, headOp_target] at ht
    have := Option.some.inj ht
    subst this
    rw [plainPath_names]
    exact ⟨hup.above, fun _ => hup⟩
  · intro sp hs
    rw [ex] at hs
    obtain ⟨e, _, hml⟩ := headOp_srcOf _ _ _ _ hs
    subst e
    rw [plainPath_names]
    apply noLinkUpto_of_getAt (x := m) _ hml
    rw [Node.getAt_append, hS]; exact hg

/-- an operation of the walk that SUCCEEDS in a state where the clashing place `T ++ rel0` shows `w` is not the
clashing operation, and leaves a state of the same kind -/
theorem clash_exec {srcNode : Node} {S T : List Name} {d : Nat} {ops : List Op} (h : OpsSpec srcNode S T d ops)
    (c : Cfg) {rel0 : List Name} {m0 : Node} {w : ONode} (hg0 : srcNode.getAt rel0 = some m0) (hl0 : rel0.length ≤ d)
    (hc : DirectClash w m0) (g g' : Fs) (x : Op) (hx : x ∈ ops) (hwf : FsEq g g) (hpl : ∀ y ∈ ops, Plains g y)
    (hk : obsAt g.root (T ++ rel0) = some w) (he : execOp g c x = some g') :
    x ≠ headOp m0 (S ++ rel0) (T ++ rel0) ∧ FsEq g' g' ∧ (∀ y ∈ ops, Plains g' y) ∧
      obsAt g'.root (T ++ rel0) = some w := by
  have hpne : T ++ rel0 ≠ [] := fun h0 => h.tne (List.append_eq_nil_iff.1 h0).1
  have hplt : (T ++ rel0).length < 256 := by
    simp only [List.length_append]; have := h.lenT; omega
  have hxb : x ≠ headOp m0 (S ++ rel0) (T ++ rel0) := by
    intro e
    rw [e, directClash_fails g c m0 _ _ w hc hk hpne hplt] at he
    cases he
  obtain ⟨rel, m, hg, hl, ex⟩ := h.char x hx
  have htgt : opTarget x = some (plainPath (T ++ rel)) := by rw [ex, headOp_target]
  have htne : T ++ rel ≠ [] := fun h0 => h.tne (List.append_eq_nil_iff.1 h0).1
  -- the root is a directory: something is below it
  have hroot : g.root.isDir = true := by
    cases hy : g.root.getAt (T ++ rel0) with
    | none => simp [obsAt, hy] at hk
    | some y =>
      have hy' : g.root.getAt ([] ++ (T ++ rel0)) = some y := by simpa using hy
      obtain ⟨es, hes⟩ := getAt_proper_prefix_dir hy' hpne
      simp only [getAt_nil, Option.some.injEq] at hes
      rw [hes]; rfl
  -- the frame of the operation
  have hop : OpPlain g x (plainPath (T ++ rel)).names :=
    opPlain_of_plains htgt (plainPath_namesOnly _)
      (by
        intro s hs
        rw [ex] at hs
        obtain ⟨e, _, _⟩ := headOp_srcOf _ _ _ _ hs
        rw [e]; exact plainPath_namesOnly _)
      (hpl x hx)
  have hF : Frame g g' x (plainPath (T ++ rel)).names :=
    exec_frame c hop (by rw [plainPath_names]; exact htne) hroot hwf.2.1 he
  refine ⟨hxb, wf_exec hwf he, plains_transfer hx h.pairIndep htgt hF hpl, ?_⟩
  rw [plainPath_names] at hF
  cases hmd : m.isDir with
  | true =>
    -- `create_dir_all`: what exists keeps its kind
    cases m <;> simp [Node.isDir] at hmd
    rw [ex] at he
    have hP := mkdirAll_preserved _ _ _ (toOption_eq_some (by simpa [headOp, execOp] using he))
    have hK := hP (T ++ rel0)
    rcases hc.kind with hwd | ⟨k, hwk⟩
    · obtain ⟨es, hes⟩ := getAt_dir_of_obs (by rw [hk, hwd])
      rw [hes] at hK
      obtain ⟨es', hes'⟩ := hK
      rw [obsAt_dir hes', hwd]
    · have hf : g.root.getAt (T ++ rel0) = some (.file k) :=
        getAt_of_obs_leaf (x := .file k) rfl (by rw [hk, hwk]; rfl)
      rw [hf] at hK
      have hK' : g'.root.getAt (T ++ rel0) = some (.file k) := hK
      simp [obsAt, hK', Node.obs, hwk]
  | false =>
    -- any other operation: its target is not at or above the clashing place
    rw [← hk]
    apply hF.out (T ++ rel0)
    · intro hp
      obtain ⟨s, hs⟩ := (List.prefix_append_right_inj T).1 hp
      by_cases hs0 : s = []
      · subst hs0
        rw [List.append_nil] at hs
        subst hs
        rw [hg0] at hg
        injection hg with hg
        subst hg
        exact hxb ex
      · rw [← hs] at hg0
        obtain ⟨es, hes⟩ := getAt_proper_prefix_dir hg0 hs0
        rw [hes] at hg
        injection hg with hg
        subst hg
        cases hmd
    · right
      rw [hk]
      exact fun hh => by cases hh

/-! ## The invariant of the concurrent runs of a clashing copy -/

/-- `bad` is the directly clashing operation, `p` its target, `w` what the initial destination shows there.  The
place still shows `w`; and unless the run has failed, `bad` has not been executed yet. -/
structure CInv (ops : List Op) (bad : Op) (p : List Name) (w : ONode) (s : St) : Prop where
  wf : FsEq s.fs s.fs
  plains : ∀ x ∈ ops, Plains s.fs x
  kind : obsAt s.fs.root p = some w
  mem : ∀ x ∈ s.queue ++ s.todo, x ∈ ops
  pend : s.failed = true ∨ bad ∈ s.queue ++ s.todo

theorem mem_eraseIdx_of_ne {α : Type} {l : List α} {i : Nat} {a b : α} (ha : a ∈ l) (hb : l[i]? = some b)
    (hab : a ≠ b) : a ∈ l.eraseIdx i := by
  obtain ⟨j, hj⟩ := List.mem_iff_getElem?.1 ha
  rw [List.mem_eraseIdx_iff_getElem?]
  refine ⟨j, ?_, hj⟩
  intro e
  subst e
  rw [hj] at hb
  exact hab (Option.some.inj hb)

theorem CInv.step {srcNode : Node} {S T : List Name} {d : Nat} {ops : List Op} (h : OpsSpec srcNode S T d ops)
    (c : Cfg) {rel0 : List Name} {m0 : Node} {w : ONode} (hg0 : srcNode.getAt rel0 = some m0) (hl0 : rel0.length ≤ d)
    (hc : DirectClash w m0) (s s1 : St) (l : Label)
    (hinv : CInv ops (headOp m0 (S ++ rel0) (T ++ rel0)) (T ++ rel0) w s)
    (hstep : L0.step c s l = some s1) : CInv ops (headOp m0 (S ++ rel0) (T ++ rel0)) (T ++ rel0) w s1 := by
  obtain ⟨hwf, hpl, hk, hmem, hpend⟩ := hinv
  cases l with
  | walk =>
    simp only [L0.step] at hstep
    cases hf : s.failed with
    | true => simp [hf] at hstep
    | false =>
      simp only [hf, Bool.false_eq_true, if_false] at hstep
      have hpend' : headOp m0 (S ++ rel0) (T ++ rel0) ∈ s.queue ++ s.todo := by
        rcases hpend with hp | hp
        · rw [hf] at hp; cases hp
        · exact hp
      cases htd : s.todo with
      | nil => simp [htd] at hstep
      | cons op r =>
        simp only [htd] at hstep
        have hopm : op ∈ ops := hmem op (by rw [htd]; simp)
        have hmem' : ∀ x ∈ s.queue ++ r, x ∈ ops := by
          intro x hx
          apply hmem x
          rw [htd]
          simp only [List.mem_append, List.mem_cons] at hx ⊢
          rcases hx with hx | hx
          · exact .inl hx
          · exact .inr (.inr hx)
        cases hsy : isSync op with
        | true =>
          simp only [hsy, if_true] at hstep
          cases hx : execOp s.fs c op with
          | none =>
            simp only [hx, Option.some.injEq] at hstep
            subst hstep
            exact ⟨hwf, hpl, hk, fun x hx' => hmem x (by
              simp only [List.append_nil] at hx'
              exact List.mem_append_left _ hx'), .inl rfl⟩
          | some fs' =>
            simp only [hx, Option.some.injEq] at hstep
            subst hstep
            obtain ⟨hne, hwf', hpl', hk'⟩ := clash_exec h c hg0 hl0 hc s.fs fs' op hopm hwf hpl hk hx
            refine ⟨hwf', hpl', hk', hmem', .inr ?_⟩
            rw [htd] at hpend'
            simp only [List.mem_append, List.mem_cons] at hpend' ⊢
            rcases hpend' with hp | hp | hp
            · exact .inl hp
            · exact absurd hp.symm hne
            · exact .inr hp
        | false =>
          simp only [hsy, Bool.false_eq_true, if_false, Option.some.injEq] at hstep
          subst hstep
          refine ⟨hwf, hpl, hk, ?_, .inr ?_⟩
          · intro x hx
            apply hmem x
            rw [htd]
            simp only [List.mem_append, List.mem_cons, List.not_mem_nil, or_false] at hx ⊢
            rcases hx with (hx | hx) | hx
            · exact .inl hx
            · exact .inr (.inl hx)
            · exact .inr (.inr hx)
          · rw [htd] at hpend'
            simp only [List.mem_append, List.mem_cons, List.not_mem_nil, or_false] at hpend' ⊢
            rcases hpend' with hp | hp | hp
            · exact .inl (.inl hp)
            · exact .inl (.inr hp)
            · exact .inr hp
  | exec i =>
    simp only [L0.step] at hstep
    cases hq : s.queue[i]? with
    | none => simp [hq] at hstep
    | some op =>
      simp only [hq] at hstep
      have hopq : op ∈ s.queue := List.mem_iff_getElem?.2 ⟨i, hq⟩
      have hopm : op ∈ ops := hmem op (List.mem_append_left _ hopq)
      have hmem' : ∀ x ∈ s.queue.eraseIdx i ++ s.todo, x ∈ ops := by
        intro x hx
        apply hmem x
        simp only [List.mem_append] at hx ⊢
        rcases hx with hx | hx
        · exact .inl (List.mem_of_mem_eraseIdx hx)
        · exact .inr hx
      cases hx : execOp s.fs c op with
      | none =>
        simp only [hx, Option.some.injEq] at hstep
        subst hstep
        exact ⟨hwf, hpl, hk, hmem', .inl rfl⟩
      | some fs' =>
        simp only [hx, Option.some.injEq] at hstep
        subst hstep
        obtain ⟨hne, hwf', hpl', hk'⟩ := clash_exec h c hg0 hl0 hc s.fs fs' op hopm hwf hpl hk hx
        refine ⟨hwf', hpl', hk', hmem', ?_⟩
        rcases hpend with hp | hp
        · exact .inl hp
        · right
          simp only [List.mem_append] at hp ⊢
          rcases hp with hp | hp
          · exact .inl (mem_eraseIdx_of_ne hp hq (fun e => hne e.symm))
          · exact .inr hp

theorem CInv.run {srcNode : Node} {S T : List Name} {d : Nat} {ops : List Op} (h : OpsSpec srcNode S T d ops)
    (c : Cfg) {rel0 : List Name} {m0 : Node} {w : ONode} (hg0 : srcNode.getAt rel0 = some m0) (hl0 : rel0.length ≤ d)
    (hc : DirectClash w m0) : ∀ (ls : List Label) (s s' : St),
    CInv ops (headOp m0 (S ++ rel0) (T ++ rel0)) (T ++ rel0) w s → L0.run c s ls = some s' →
    CInv ops (headOp m0 (S ++ rel0) (T ++ rel0)) (T ++ rel0) w s' := by
  intro ls
  induction ls with
  | nil =>
    intro s s' hinv hr
    simp only [L0.run, Option.some.injEq] at hr
    subst hr
    exact hinv
  | cons l ls ih =>
    intro s s' hinv hr
    simp only [L0.run] at hr
    split at hr
    · next s1 hs1 => exact ih s1 s' (CInv.step h c hg0 hl0 hc s s1 l hinv hs1) hr
    · cases hr

/-- a complete run satisfying the invariant has failed -/
theorem CInv.failed_of_final {ops : List Op} {bad : Op} {p : List Name} {w : ONode} {s : St}
    (hinv : CInv ops bad p w s) (hfin : final s = true) : s.failed = true := by
  rcases hinv.pend with hp | hp
  · exact hp
  · simp only [final, Bool.and_eq_true, List.isEmpty_iff] at hfin
    rw [hfin.1, hfin.2] at hp
    cases hp

end Xcp
