import XcpProofs.Loops
import XcpProofs.Blocks
import XcpProofs.Merge
/-! Composition of the loop, block-partition and extent-merge lemmas into the statements the property
files (C01, C05) quote: block jobs, and the whole parblock driver under any schedule. -/
namespace Xcp

/-! ## Zero-length jobs are harmless wherever they point -/

theorem copyRange_zero (src dst : Bytes) (off : Nat) : copyRange src dst off 0 = dst := by
  simp [copyRange, writeAt]

/-- the jobs that move at least one byte -/
def posJobs (l : List (Nat × Nat)) : List (Nat × Nat) := l.filter fun j => decide (0 < j.2)

theorem runJobs_posJobs (src : Bytes) : ∀ (l : List (Nat × Nat)) (dst : Bytes),
    runJobs src dst l = runJobs src dst (posJobs l) := by
  intro l
  induction l with
  | nil => intro dst; rfl
  | cons j t ih =>
    intro dst
    by_cases hj : 0 < j.2
    · have : posJobs (j :: t) = j :: posJobs t := by simp [posJobs, hj]
      rw [this]
      simp only [runJobs, List.foldl_cons]
      exact ih _
    · have h0 : j.2 = 0 := by omega
      have : posJobs (j :: t) = posJobs t := by simp [posJobs, h0]
      rw [this]
      simp only [runJobs, List.foldl_cons]
      rw [h0, copyRange_zero]
      exact ih _

theorem covered_posJobs (l : List (Nat × Nat)) (i : Nat) : covered (posJobs l) i ↔ covered l i := by
  unfold covered posJobs
  constructor
  · rintro ⟨j, hj, h1, h2⟩
    exact ⟨j, (List.mem_filter.mp hj).1, h1, h2⟩
  · rintro ⟨j, hj, h1, h2⟩
    exact ⟨j, List.mem_filter.mpr ⟨hj, by simp; omega⟩, h1, h2⟩

/-- `runJobs_exact` where only the jobs that move something have to lie inside the file -/
theorem runJobs_exact' (src : Bytes) (l : List (Nat × Nat))
    (hin : ∀ j ∈ l, 0 < j.2 → j.1 + j.2 ≤ src.length)
    (hcov : ∀ i, i < src.length → ¬ covered l i → src[i]? = some 0) :
    runJobs src (List.replicate src.length 0) l = src := by
  rw [runJobs_posJobs]
  apply runJobs_exact
  · intro j hj
    obtain ⟨h1, h2⟩ := List.mem_filter.mp hj
    exact hin j h1 (by simpa using h2)
  · intro i hi hc
    exact hcov i hi (fun h => hc ((covered_posJobs l i).mpr h))

/-! ## `copy_file_offset` wherever the block starts -/

/-- all jobs that move something lie inside a file of length `len` -/
def JobsInPos (evs : List Ev) (len : Nat) : Prop := ∀ j ∈ jobsOf evs, 0 < j.2 → j.1 + j.2 ≤ len

theorem JobsIn.pos {evs : List Ev} {len : Nat} (h : JobsIn evs len) : JobsInPos evs len :=
  fun j hj _ => h j hj

/-- a successful `copy_file_offset` never moves bytes from beyond the end of file, even when its block
starts beyond it (then it records the empty job `(off, 0)`) -/
theorem copyFileOffset_jobsInPos (k : Kern) (len : Nat) (hs : KernSafe k len) :
    ∀ (fuel a off bytes c n : Nat), c ≤ bytes →
      (copyFileOffset k fuel a off bytes c).stop = .ok n →
      JobsInPos (copyFileOffset k fuel a off bytes c).evs len := by
  intro fuel
  induction fuel with
  | zero =>
    intro a off bytes c n hc _
    simp [copyFileOffset, JobsInPos, jobsOf]
  | succ f ih =>
    intro a off bytes c n hc
    unfold copyFileOffset
    simp only []
    split
    · split
      · rename_i hcl
        have hca := classifyCfr_done hcl
        intro _ j hj
        simp [jobsOf, hca] at hj
        subst hj
        simp
      · rename_i m h0 hcl
        have hca := classifyCfr_done hcl
        obtain ⟨b1, b2⟩ := hs _ _ _ _ _ hca
        simp at b2
        intro hn j hj hp
        simp [jobsOf, hca] at hj
        rcases hj with rfl | hj
        · simp at hp ⊢; omega
        · exact ih (a+1) off bytes (c + m) n (by omega) hn j hj hp
      · intro h; simp at h
      · rename_i hcl
        obtain ⟨e, hca⟩ := classifyCfr_err (x := k a .cfr (off + c) (bytes - c)) (by simp [hcl])
        have hr := rangeUspace_spec k len hs (bytes - c + 1) (a+1) (off + c) (bytes - c) 0 (by omega)
        split
        · rename_i rest hrest
          obtain ⟨_, e2, _⟩ := hr rest hrest
          intro _ j hj _
          simp [jobsOf, hca] at hj
          exact e2 j hj
        · rename_i hnot
          intro hn
          simp at hn
          exact absurd hn (hnot n)
    · intro _
      simp [JobsInPos, jobsOf]

/-! ## Block jobs -/

theorem blockJob_linux_stop (k : Kern) (off bytes : Nat) :
    (blockJob k true off bytes).stop = (copyFileOffset k (bytes + 1) 0 off bytes 0).stop := by
  unfold blockJob
  simp only [if_true]
  split <;> rfl

theorem blockJob_linux_jobs (k : Kern) (off bytes : Nat) :
    jobsOf (blockJob k true off bytes).evs = jobsOf (copyFileOffset k (bytes + 1) 0 off bytes 0).evs := by
  unfold blockJob
  simp only [if_true]
  split
  · simp [jobsOf_append, jobsOf]
  · rfl

theorem blockJob_fallback_stop (k : Kern) (off bytes : Nat) :
    (blockJob k false off bytes).stop = (rangeUspace k (bytes + 1) 0 off bytes 0).stop := by
  unfold blockJob copyFileOffsetFallback
  simp only [Bool.false_eq_true, if_false]
  split <;> rfl

theorem blockJob_fallback_jobs (k : Kern) (off bytes : Nat) :
    jobsOf (blockJob k false off bytes).evs = jobsOf (rangeUspace k (bytes + 1) 0 off bytes 0).evs := by
  unfold blockJob copyFileOffsetFallback
  simp only [Bool.false_eq_true, if_false]
  split
  · simp [jobsOf_append, jobsOf]
  · rfl

/-- a successful Linux block job started inside the file: count and exact coverage -/
theorem blockJob_linux_ok (k : Kern) (len : Nat) (hs : KernSafe k len) (hl : KernLive k len)
    (off bytes n : Nat) (ho : off ≤ len) (h : (blockJob k true off bytes).stop = .ok n) :
    off + n = min (off + bytes) len ∧
    ∀ i, covered (jobsOf (blockJob k true off bytes).evs) i ↔ off ≤ i ∧ i < min (off + bytes) len := by
  rw [blockJob_linux_stop] at h
  rw [blockJob_linux_jobs]
  obtain ⟨_, _, e3, _, e5⟩ :=
    copyFileOffset_spec k len hs hl (bytes + 1) 0 off bytes 0 (Nat.zero_le _) (by omega) n h
  exact ⟨e3, by simpa using e5⟩

theorem blockJob_linux_no_spin (k : Kern) (len : Nat) (hs : KernSafe k len) (hl : KernLive k len)
    (off bytes : Nat) : (blockJob k true off bytes).stop ≠ .spin := by
  rw [blockJob_linux_stop]
  exact copyFileOffset_no_spin k len hs hl (bytes + 1) 0 off bytes 0 (Nat.zero_le _) (by omega)

/-- a successful fallback block job: everything asked for was moved, inside the file -/
theorem blockJob_fallback_ok (k : Kern) (len : Nat) (hs : KernSafe k len)
    (off bytes n : Nat) (h : (blockJob k false off bytes).stop = .ok n) :
    n = bytes ∧ (0 < bytes → off + bytes ≤ len) ∧
    ∀ i, covered (jobsOf (blockJob k false off bytes).evs) i ↔ off ≤ i ∧ i < off + bytes := by
  rw [blockJob_fallback_stop] at h
  rw [blockJob_fallback_jobs]
  obtain ⟨e1, e2, e3⟩ := rangeUspace_ok k len hs (bytes + 1) 0 off bytes 0 n (Nat.zero_le _) h
  refine ⟨e1, ?_, by simpa using e3⟩
  intro hb
  have := covered_lt_of_JobsIn e2 ((e3 (off + bytes - 1)).mpr (by omega))
  omega

/-! ## The block partition -/

theorem nblocks_single (len b : Nat) (h : len ≤ b) (hl : 0 < len) : nblocks len b = 1 := by
  have hb : 0 < b := by omega
  have h0 := nblocks_spec len b hb 0
  have h1 := nblocks_spec len b hb 1
  simp at h0 h1
  omega

theorem blocks_single' (start len b : Nat) (h : len ≤ b) (hl : 0 < len) :
    blocks start len b = [(start, len)] := by
  unfold blocks
  rw [nblocks_single len b h hl]
  simp [List.range_succ, Nat.min_eq_left h]

/-! ## parblock -/

/-- every byte parblock must copy lies in a queued range -/
theorem parblockRanges_cover (len : Nat) (sparse : Bool) (exts : Option (List Extent)) (i : Nat) (hi : i < len)
    (hext : sparse = true → ∀ es, exts = some es → WF es ∧ covers es i) :
    ∃ r ∈ parblockRanges len sparse exts, r.1 ≤ i ∧ i < r.1 + r.2 := by
  unfold parblockRanges
  cases sparse with
  | false => exact ⟨(0, len), by simp, by simp, by simpa using hi⟩
  | true =>
    cases exts with
    | none => exact ⟨(0, len), by simp, by simp, by simpa using hi⟩
    | some es =>
      obtain ⟨hw, hc⟩ := hext rfl es rfl
      obtain ⟨e, he, h1, h2⟩ := merge_covers es hw i hc
      refine ⟨(e.start, e.stop - e.start), ?_, h1, ?_⟩
      · simp only [if_true, List.mem_map]
        exact ⟨e, he, rfl⟩
      · simp; omega

/-- parblock: block jobs each under their own legal kernel, all successful, their moves applied in any
order with any multiplicity — the destination equals the source -/
theorem parblock_exact_core (src : Bytes) (b : Nat) (hb : 0 < b) (sparse : Bool) (exts : Option (List Extent))
    (hext : sparse = true → ∀ es, exts = some es →
      WF es ∧ ∀ i, i < src.length → src[i]? ≠ some 0 → covers es i)
    (k : Nat × Nat → Kern) (hk : ∀ j, KernSafe (k j) src.length ∧ KernLive (k j) src.length)
    (hok : ∀ j ∈ parblockJobs src.length b sparse exts, ∃ n, (blockJob (k j) true j.1 j.2).stop = .ok n)
    (all : List (Nat × Nat))
    (hall : ∀ x, x ∈ all ↔ ∃ j ∈ parblockJobs src.length b sparse exts, x ∈ jobsOf (blockJob (k j) true j.1 j.2).evs) :
    runJobs src (List.replicate src.length 0) all = src := by
  apply runJobs_exact'
  · intro x hx hp
    obtain ⟨j, hj, hxj⟩ := (hall x).mp hx
    obtain ⟨n, hn⟩ := hok j hj
    rw [blockJob_linux_stop] at hn
    rw [blockJob_linux_jobs] at hxj
    exact copyFileOffset_jobsInPos (k j) src.length (hk j).1 _ _ _ _ _ n (Nat.zero_le _) hn x hxj hp
  · intro i hi hnc
    apply Classical.byContradiction
    intro hnz
    apply hnc
    obtain ⟨r, hr, r1, r2⟩ := parblockRanges_cover src.length sparse exts i hi
      (fun hsp es hes => ⟨(hext hsp es hes).1, (hext hsp es hes).2 i hi hnz⟩)
    obtain ⟨j, hj, j1, j2⟩ := (blocks_cover r.1 r.2 b hb i).mpr ⟨r1, r2⟩
    have hjm : j ∈ parblockJobs src.length b sparse exts := by
      unfold parblockJobs
      exact List.mem_flatMap.mpr ⟨r, hr, hj⟩
    obtain ⟨n, hn⟩ := hok j hjm
    obtain ⟨_, hcov⟩ := blockJob_linux_ok (k j) src.length (hk j).1 (hk j).2 j.1 j.2 n (by omega) hn
    obtain ⟨x, hx, x1, x2⟩ := (hcov i).mpr ⟨j1, by omega⟩
    exact ⟨x, (hall x).mpr ⟨j, hjm, hx⟩, x1, x2⟩

end Xcp
