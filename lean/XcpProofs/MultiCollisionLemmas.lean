import XcpProofs.MultiNoClobber
/-! # Lemmas for `MultiCollision`: `--no-clobber`, several sources, some target exists

How the model represents "the walker stops".  `multiOps` concatenates the per-source lists of `walkEntry`, each
computed against the INITIAL file system.  Under no-clobber a source whose target `DEST/base` exists (`lexists`: a
file, a directory, a special file, a live or dangling symbolic link) contributes exactly `[.fail]`
(`walkEntry_collision`); the lists of LATER sources are still appended, but `.fail` is executed by the walker itself
(`isSync`), and `L0.step` then empties `todo` and marks the run failed — nothing after the marker is ever reached.
(`execOps` likewise stops at the marker.)  So with `items = pre ++ e0 :: post`, `e0` the first source whose target
exists, the list is `allOps dn pre ++ .fail :: R`, and every run over it is a run over `allOps dn pre` — the
all-targets-absent case of `MultiNoClobber` — until the walker reaches the marker, and a run over `allOps dn pre`
whose walker has finished, afterwards (`cut_run`). -/
namespace Xcp

open L0

/-! ## A run over `A ++ .fail :: R` and the run over `A` -/

/-- `s` is a state of the run over `A ++ .fail :: R`, `s'` one of the run over `A`: before the walker has reached the
marker they differ in the tail of `todo` only; afterwards the walker of `s'` has finished, `s` is failed -/
inductive CutRel (R : List Op) (s s' : St) : Prop
  | before : s.fs = s'.fs → s.queue = s'.queue → s.failed = s'.failed → s.todo = s'.todo ++ .fail :: R →
      CutRel R s s'
  | after : s.fs = s'.fs → s.queue = s'.queue → s.todo = [] → s.failed = true → s'.todo = [] → CutRel R s s'

theorem cut_step (c : Cfg) (R : List Op) (s s' s1 : St) (l : Label) (h : CutRel R s s')
    (hstep : step c s l = some s1) : (∃ s1', step c s' l = some s1' ∧ CutRel R s1 s1') ∨ CutRel R s1 s' := by
  obtain ⟨fs, todo, queue, failed⟩ := s
  obtain ⟨fs', todo', queue', failed'⟩ := s'
  cases h with
  | before h1 h2 h3 h4 =>
    simp only at h1 h2 h3 h4
    subst h1; subst h2; subst h3; subst h4
    cases l with
    | walk =>
      cases failed with
      | true => simp [step] at hstep
      | false =>
        cases todo' with
        | nil =>
          right
          simp only [step, List.nil_append, isSync, execOp, Bool.false_eq_true, if_false, if_true] at hstep
          cases hstep
          exact .after rfl rfl rfl rfl rfl
        | cons op r =>
          left
          simp only [step, List.cons_append, Bool.false_eq_true, if_false] at hstep ⊢
          cases hs : isSync op with
          | true =>
            simp only [hs, if_true] at hstep ⊢
            cases hx : execOp fs c op with
            | none =>
              simp only [hx] at hstep ⊢
              cases hstep
              exact ⟨_, rfl, .after rfl rfl rfl rfl rfl⟩
            | some g =>
              simp only [hx] at hstep ⊢
              cases hstep
              exact ⟨_, rfl, .before rfl rfl rfl rfl⟩
          | false =>
            simp only [hs, Bool.false_eq_true, if_false] at hstep ⊢
            cases hstep
            exact ⟨_, rfl, .before rfl rfl rfl rfl⟩
    | exec i =>
      left
      simp only [step] at hstep ⊢
      cases hq : queue[i]? with
      | none => simp [hq] at hstep
      | some a =>
        simp only [hq] at hstep ⊢
        cases hx : execOp fs c a with
        | none =>
          simp only [hx] at hstep ⊢
          cases hstep
          exact ⟨_, rfl, .before rfl rfl rfl rfl⟩
        | some g =>
          simp only [hx] at hstep ⊢
          cases hstep
          exact ⟨_, rfl, .before rfl rfl rfl rfl⟩
  | after h1 h2 h3 h4 h5 =>
    simp only at h1 h2 h3 h4 h5
    subst h1; subst h2; subst h3; subst h4; subst h5
    cases l with
    | walk => simp [step] at hstep
    | exec i =>
      left
      simp only [step] at hstep ⊢
      cases hq : queue[i]? with
      | none => simp [hq] at hstep
      | some a =>
        simp only [hq] at hstep ⊢
        cases hx : execOp fs c a with
        | none =>
          simp only [hx] at hstep ⊢
          cases hstep
          exact ⟨_, rfl, .after rfl rfl rfl rfl rfl⟩
        | some g =>
          simp only [hx] at hstep ⊢
          cases hstep
          exact ⟨_, rfl, .after rfl rfl rfl rfl rfl⟩

/-- every state of a run over `A ++ .fail :: R` corresponds to a reachable state of the run over `A` -/
theorem cut_run (c : Cfg) (R : List Op) : ∀ (ls : List Label) (s0 s0' s : St), CutRel R s0 s0' →
    run c s0 ls = some s → ∃ ls' s', run c s0' ls' = some s' ∧ CutRel R s s' := by
  intro ls
  induction ls with
  | nil => intro s0 s0' s h hr; cases hr; exact ⟨[], s0', rfl, h⟩
  | cons l ls ih =>
    intro s0 s0' s h hr
    simp only [run] at hr
    split at hr
    · next s1 hs1 =>
      rcases cut_step c R s0 s0' s1 l h hs1 with ⟨s1', hs1', h'⟩ | h'
      · obtain ⟨ls', s', hr', hrel⟩ := ih s1 s1' s h' hr
        exact ⟨l :: ls', s', by simp only [run, hs1']; exact hr', hrel⟩
      · exact ih s1 s0' s h' hr
    · cases hr

theorem cut_init (fs : Fs) (A R : List Op) : CutRel R (init fs (A ++ .fail :: R)) (init fs A) :=
  .before rfl rfl rfl rfl

/-! ## What the walker emits for a source whose target exists -/

/-- under no-clobber, for a source that is there and is not a symbolic link, whose target exists: the failure marker,
nothing else -/
theorem walkEntry_collision (fs : Fs) (c : Cfg) (hd : c.dereference = false) (hn : c.noClobber = true)
    (src tb : RPath) (f : Nat) (anc : List (List Name)) (cp : List Name) (n : Node) (hnl : n.isLink = false)
    (hl : fs.lstat src = some (cp, n)) (hx : fs.lexists tb = true) :
    walkEntry fs c none src tb (f + 1) [] anc = [.fail] := by
  have e1 : relJoin src [] = src := by simp [relJoin]
  have e2 : relJoin tb [] = tb := by simp [relJoin]
  simp [walkEntry, e1, e2, hd, hn, hl, hnl, hx]

/-- below an existing plain directory, `lexists` of a child is "there is something at that place" -/
theorem lexists_child_iff (fs : Fs) (dn : List Name) (b : Name) (es : Entries)
    (hdd : fs.root.getAt dn = some (.dir es)) (hlen : dn.length + 1 < 256) :
    fs.lexists (plainPath (dn ++ [b])) = true ↔ fs.root.getAt (dn ++ [b]) ≠ none := by
  have hla : NoLinkAbove fs.root (dn ++ [b]) := by
    intro p hp hne tg hgl
    have hpd := prefix_dropLast_of_ne hp hne
    rw [List.dropLast_concat] at hpd
    obtain ⟨es', hes'⟩ := L0.getAt_prefix_dir hdd hpd
    rw [hes'] at hgl
    cases hgl
  constructor
  · intro h hnone
    rw [lexists_false_of_absent fs _ hla hnone] at h
    cases h
  · intro h
    cases hg : fs.root.getAt (dn ++ [b]) with
    | none => exact absurd hg h
    | some x =>
      have := lstat_plain fs (dn ++ [b]) x (by simpa using hlen) hg hla
      simp [Fs.lexists, this]

/-! ## The first source whose target exists -/

theorem first_collision (root : Node) (dn : List Name) : ∀ (items : List CopySrc),
    (∀ e ∈ items, root.getAt (dn ++ [e.base]) = none) ∨
    ∃ pre e0 post, items = pre ++ e0 :: post ∧ (∀ e ∈ pre, root.getAt (dn ++ [e.base]) = none) ∧
      root.getAt (dn ++ [e0.base]) ≠ none := by
  intro items
  induction items with
  | nil => exact .inl (fun e he => by cases he)
  | cons a r ih =>
    cases ha : root.getAt (dn ++ [a.base]) with
    | some x => exact .inr ⟨[], a, r, rfl, (fun e he => by cases he), (by rw [ha]; simp)⟩
    | none =>
      rcases ih with h | ⟨pre, e0, post, h1, h2, h3⟩
      · left
        intro e he
        cases he with
        | head => exact ha
        | tail _ hm => exact h e hm
      · right
        refine ⟨a :: pre, e0, post, by rw [h1]; rfl, ?_, h3⟩
        intro e he
        cases he with
        | head => exact ha
        | tail _ hm => exact h2 e hm

end Xcp
