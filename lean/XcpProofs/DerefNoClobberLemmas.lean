import XcpProofs.DerefConcLemmas
import XcpProofs.GiConcLemmas
/-! # Lemmas for `DerefNoClobber`: the `-L` walk when the no-clobber probe never fires

`walk_shape_deref` (DerefTree) is stated for `noClobber = false`.  Here: the one-step unfoldings of `walkEntry` with
`dereference = true` and the shape theorem under the alternative "`noClobber = false`, or every target of the walk is
absent for `lstat`" (as `walk_shape` / `walk_shape_gi` have it), and the set-up of the concurrent runs whatever
`noClobber` is. -/
namespace Xcp

open L0

theorem walkEntry_deref_file_nc (fs : Fs) (c : Cfg) (hd : c.dereference = true)
    (src tb : RPath) (rel : List Name) (hn : c.noClobber = false ∨ fs.lexists (relJoin tb rel) = false)
    (f : Nat) (anc : List (List Name)) (lcp cp : List Name)
    (lnode : Node) (k : Nat) (fromP : RPath) (hsa : SeenAs lnode (.file k))
    (hl : fs.lstat (relJoin src rel) = some (lcp, lnode))
    (hs : fs.stat (relJoin src rel) = some (cp, .file k))
    (hcan : fs.canonicalize (relJoin src rel) = .ok fromP)
    (hl2 : fs.lstat fromP = some (cp, .file k)) :
    walkEntry fs c none src tb (f + 1) rel anc = [.copy fromP (relJoin tb rel)] := by
  rcases hn with hn | hn <;> rcases hsa with hsa | ⟨t, hsa⟩ <;> subst hsa <;>
    simp [walkEntry, hd, hn, hl, hs, hcan, hl2, Node.kind, classifyKind, Node.isLink]

theorem walkEntry_deref_special_nc (fs : Fs) (c : Cfg) (hd : c.dereference = true)
    (src tb : RPath) (rel : List Name) (hn : c.noClobber = false ∨ fs.lexists (relJoin tb rel) = false)
    (f : Nat) (anc : List (List Name)) (lcp cp : List Name)
    (lnode : Node) (k : FileKind) (d : Nat) (fromP : RPath) (hsa : SeenAs lnode (.special k d))
    (hk : k = .socket ∨ k = .chr ∨ k = .fifo)
    (hl : fs.lstat (relJoin src rel) = some (lcp, lnode))
    (hs : fs.stat (relJoin src rel) = some (cp, .special k d))
    (hcan : fs.canonicalize (relJoin src rel) = .ok fromP)
    (hl2 : fs.lstat fromP = some (cp, .special k d)) :
    walkEntry fs c none src tb (f + 1) rel anc = [.special fromP (relJoin tb rel)] := by
  rcases hn with hn | hn <;> rcases hsa with hsa | ⟨t, hsa⟩ <;> subst hsa <;> rcases hk with hk | hk | hk <;>
    subst hk <;> simp [walkEntry, hd, hn, hl, hs, hcan, hl2, Node.kind, classifyKind, Node.isLink]

theorem walkEntry_deref_dir_nc (fs : Fs) (c : Cfg) (hd : c.dereference = true)
    (src tb : RPath) (rel : List Name) (hn : c.noClobber = false ∨ fs.lexists (relJoin tb rel) = false)
    (f : Nat) (anc : List (List Name)) (lcp cp : List Name)
    (lnode : Node) (es : Entries) (fromP : RPath) (hsa : SeenAs lnode (.dir es))
    (hl : fs.lstat (relJoin src rel) = some (lcp, lnode))
    (hs : fs.stat (relJoin src rel) = some (cp, .dir es))
    (hcan : fs.canonicalize (relJoin src rel) = .ok fromP)
    (hl2 : fs.lstat fromP = some (cp, .dir es))
    (hg : fs.root.getAt cp = some (.dir es))
    (hloop : (lnode.isLink && anc.contains cp) = false) :
    walkEntry fs c none src tb (f + 1) rel anc =
      .mkdir (relJoin tb rel) ::
        (es.map (·.1)).flatMap fun n => walkEntry fs c none src tb f (rel ++ [n]) (cp :: anc) := by
  rcases hsa with hsa | ⟨t, hsa⟩ <;> subst hsa
  · rcases hn with hn | hn <;>
      simp [walkEntry, hd, hn, hl, hcan, hl2, hg, Node.kind, classifyKind, Node.isLink]
  · simp only [Node.isLink, Bool.true_and] at hloop
    have hloop' : ¬ cp ∈ anc := by
      intro hm
      have : anc.contains cp = true := List.contains_iff_mem.2 hm
      rw [this] at hloop
      cases hloop
    rcases hn with hn | hn <;>
      simp [walkEntry, hd, hn, hl, hs, hcan, hl2, hg, hloop', Node.kind, classifyKind, Node.isLink]

/-- `walk_shape_deref` whatever `noClobber` is, provided every target of the walk is absent when it is `true` -/
theorem walk_shape_deref_nc (fs : Fs) (c : Cfg) (hd : c.dereference = true)
    (hroot : fs.root.isLink = false) (sn0 tn0 : List Name)
    (hn : c.noClobber = false ∨ ∀ rel, fs.lexists (relJoin (plainPath tn0) rel) = false) :
    ∀ (fuel : Nat) (rel : List Name) (anc : List (List Name)) (s : SNode),
      derefS fs fuel (sn0 ++ rel) anc = some s →
      walkEntry fs c none (plainPath sn0) (plainPath tn0) fuel rel anc = opsOfS s (tn0 ++ rel) := by
  intro fuel
  induction fuel with
  | zero => intro rel anc s h; simp [derefS] at h
  | succ f ih =>
    intro rel anc s h
    have hn' : c.noClobber = false ∨ fs.lexists (relJoin (plainPath tn0) rel) = false := hn.imp id (fun h => h rel)
    obtain ⟨lcp, lnode, cp, node, hl, hs, hcase⟩ := derefS_succ_some h
    obtain ⟨_, hg, _, hcan, hl2, _⟩ := stat_canon fs hroot _ cp node hs
    have hsa := seenAs_of fs _ lcp cp lnode node hl hs
    rw [← relJoin_plain] at hl hs hcan
    rcases hcase with ⟨k, hnode, hs'⟩ | ⟨k, d, hnode, hk, hs'⟩ | ⟨es, ss, hnode, hloop, hcol, hs'⟩
    · subst hnode; subst hs'
      rw [walkEntry_deref_file_nc fs c hd _ _ _ hn' _ _ lcp cp lnode k _ hsa hl hs hcan hl2]
      simp [opsOfS, relJoin_plain]
    · subst hnode; subst hs'
      rw [walkEntry_deref_special_nc fs c hd _ _ _ hn' _ _ lcp cp lnode k d _ hsa ((okSpecial_iff k).1 hk) hl hs
        hcan hl2]
      simp [opsOfS, relJoin_plain]
    · subst hnode; subst hs'
      rw [walkEntry_deref_dir_nc fs c hd _ _ _ hn' _ _ lcp cp lnode es _ hsa hl hs hcan hl2 hg hloop]
      simp only [opsOfS, relJoin_plain]
      congr 1
      have key : ∀ (names : List Name) (ss : List (Name × SNode)),
          collect (fun m => (derefS fs f (sn0 ++ rel ++ [m]) (cp :: anc)).map fun x => (m, x)) names = some ss →
          (names.flatMap fun m =>
            walkEntry fs c none (plainPath sn0) (plainPath tn0) f (rel ++ [m]) (cp :: anc)) =
          opsOfSL ss (tn0 ++ rel) := by
        intro names
        induction names with
        | nil =>
          intro ss hc
          simp only [collect, Option.some.injEq] at hc
          subst hc
          simp [opsOfSL]
        | cons a r ihl =>
          intro ss hc
          obtain ⟨b, bs, h1, h2, h3⟩ := collect_cons_some hc
          subst h3
          have h1' : (derefS fs f (sn0 ++ rel ++ [a]) (cp :: anc)).map (fun x => (a, x)) = some b := h1
          cases hda : derefS fs f (sn0 ++ rel ++ [a]) (cp :: anc) with
          | none => rw [hda] at h1'; cases h1'
          | some x =>
            rw [hda] at h1'
            simp only [Option.map_some, Option.some.injEq] at h1'
            subst h1'
            have := ih (rel ++ [a]) (cp :: anc) x (by rw [← List.append_assoc]; exact hda)
            simp only [List.flatMap_cons, opsOfSL]
            rw [this, ihl bs h2]
            simp [List.append_assoc]
      exact key _ ss hcol

/-- every place at or below an absent plain target whose parent is a directory is absent for `lstat` -/
theorem absent_below (fs : Fs) (T : List Name) (habs : fs.root.getAt T = none)
    (hpar : ∃ es, fs.root.getAt T.dropLast = some (.dir es)) :
    ∀ rel, fs.lexists (relJoin (plainPath T) rel) = false := by
  intro rel
  rw [relJoin_plain]
  apply lexists_false_of_absent _ _ _ (getAt_append_none _ _ _ habs)
  intro p hp hpne tg hgl
  by_cases hT : T <+: p
  · obtain ⟨s', hs'⟩ := hT
    rw [← hs', getAt_append_none _ _ _ habs] at hgl
    cases hgl
  · have hpT : p <+: T := by
      rcases List.prefix_or_prefix_of_prefix hp (List.prefix_append T rel) with h1 | h1
      · exact h1
      · exact absurd h1 hT
    have hpne' : p ≠ T := fun e => hT (e ▸ List.prefix_refl _)
    obtain ⟨es, hes⟩ := hpar
    obtain ⟨es', hes'⟩ := L0.getAt_prefix_dir hes (prefix_dropLast_of_ne hpT hpne')
    rw [hes'] at hgl
    cases hgl

/-- `deref_setup` whatever `noClobber` is -/
theorem deref_setup_nc (fs : Fs) (c : Cfg) (hd : c.dereference = true)
    (src tb : RPath) (s : SNode) (fuel : Nat)
    (hwf : FsEq fs fs)
    (hsrc : AbsNames src)
    (hder : derefS fs (fuel + 1) src.names [] = some s)
    (htb : PlainTarget fs tb) (hne : tb.names ≠ []) (habs : fs.root.getAt tb.names = none)
    (hpar : ∃ es, fs.root.getAt tb.names.dropLast = some (.dir es))
    (hlen : tb.names.length + fuel < 255) :
    walkEntry fs c none src tb (fuel + 1) [] [] = opsOfS s tb.names ∧
    DSpec fs s.erase tb.names (fuel + 1) (opsOfS s tb.names) ∧
    (opsOfS s tb.names).Nodup ∧
    DInv fs s.erase tb.names (opsOfS s tb.names) (L0.init fs (opsOfS s tb.names)) := by
  have htbE := plainTarget_eq fs tb htb
  have hsrcE := absNames_eq hsrc
  obtain ⟨pes, hpes⟩ := hpar
  have hroot : fs.root.isLink = false := root_not_link_of_dir hpes
  have hshape := walk_shape_deref_nc fs c hd hroot src.names tb.names
    (.inr (absent_below fs tb.names habs ⟨pes, hpes⟩)) (fuel + 1) [] [] s (by simpa using hder)
  rw [← htbE, ← hsrcE] at hshape
  simp only [List.append_nil] at hshape
  obtain ⟨hcop, hsrcin⟩ := derefS_good fs hroot hwf.2.1 (fuel + 1) src.names [] s hder
  obtain ⟨haway, _⟩ := deref_reads_away fs src.names tb s (fuel + 1) hwf hroot hder hne habs ⟨pes, hpes⟩
  have hspec : DSpec fs s.erase tb.names (fuel + 1) (opsOfS s tb.names) := by
    refine ⟨?_, opsOfS_tgt_nodup _ s hcop _, hne, by omega⟩
    intro x hx
    obtain ⟨rel, m, cp, hg, hl, ex, hlf⟩ := mem_opsOfS (fuel + 1) s hcop tb.names x hx
    refine ⟨rel, m, cp, hg, hl, ex, ?_⟩
    intro hm
    have hmem := hlf hm
    obtain ⟨h1, _, h3⟩ := hsrcin _ hmem
    obtain ⟨u1, u2⟩ := haway _ hmem
    exact ⟨h1, h3, u2, u1⟩
  have htodo : TodoOK (DirsOf fs) (opsOfS s tb.names) :=
    todoOK_opsOfS (fuel + 1) s hcop tb.names (DirsOf fs) ⟨pes, hpes⟩
  exact ⟨hshape, hspec, nodup_of_nodup_map opTarget hspec.tnd, DInv.init hspec ⟨pes, hpes⟩ habs htodo⟩

end Xcp
