import XcpModel.Pool
/-! Invariants of the parblock dispatcher/pool model, for every reachable state (every schedule). -/
namespace Xcp.Pool

/-- steps still to be taken: each file of `b` blocks needs 1 open + b pushes + 1 drop + b takes + 3b job moves -/
def measure (s : St) : Nat :=
  (s.files.map fun b => 5 * b + 2).sum
  + (match s.cur with | some (_, _, left) => 5 * left + 1 | none => 0)
  + 4 * s.queue.length
  + (s.running.map fun jp => match jp.2 with | .copying => 3 | .written => 2 | .reported => 1).sum

/-- every step consumes exactly one unit: every schedule terminates, after exactly `measure init` steps -/
theorem step_measure (s s' : St) (l : Label) (h : step s l = some s') : measure s' + 1 = measure s := by
  sorry

theorem run_measure (s s' : St) (ls : List Label) (h : run s ls = some s') : measure s' + ls.length = measure s := by
  sorry

/-- no deadlock: with at least one worker and a queue of at least one slot, some label is enabled in every
non-final state -/
theorem no_deadlock (s : St) (hw : 0 < s.workers) (hc : 0 < s.cap) (hf : final s = false) : enabled s ≠ [] := by
  sorry

/-- `cap` and `workers` never change -/
theorem step_params (s s' : St) (l : Label) (h : step s l = some s') :
    s'.cap = s.cap ∧ s'.workers = s.workers ∧ s'.fsyncOn = s.fsyncOn := by
  sorry

/-- C20: the number of open handles is bounded by the queue capacity, the worker count and the dispatcher's
own handle — independent of the number of files -/
theorem open_bound (files : List Nat) (cap workers : Nat) (fs : Bool) (s : St)
    (h : Reachable files cap workers fs s) : openCount s ≤ cap + workers + 1 := by
  sorry

/-- C18/C10/C06: in every reachable log no write of a handle follows its finalisation or its fsync -/
theorem writes_before_finalise (files : List Nat) (cap workers : Nat) (fs : Bool) (s : St)
    (h : Reachable files cap workers fs s) : writesBeforeFinalise s.log = true := by
  sorry

/-- with fsync requested, every `closed h` in a reachable log is immediately preceded by `fsync h`, itself
preceded by `finalise h` -/
theorem fsync_before_close (files : List Nat) (cap workers : Nat) (s : St)
    (h : Reachable files cap workers true s) (hd : Hid) (pre post : List Event)
    (hl : s.log = pre ++ .closed hd :: post) :
    ∃ pre', pre = pre' ++ [.finalise hd, .fsync hd] := by
  sorry

/-- completeness: in a final reachable state every handle that was opened has been closed, and every block
of every file given has been written exactly once -/
theorem final_all_closed (files : List Nat) (cap workers : Nat) (fs : Bool) (s : St)
    (h : Reachable files cap workers fs s) (hf : final s = true) :
    s.next = files.length ∧ (∀ hd, hd < s.next → .closed hd ∈ s.log) ∧
    ∀ hd (hb : hd < files.length), ∀ blk, blk < files[hd] → (s.log.count (.write hd blk) = 1) := by
  sorry

end Xcp.Pool
