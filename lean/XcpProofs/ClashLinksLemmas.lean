import XcpProofs.Clash
import XcpProofs.ClashConcLemmas
import XcpProofs.AnyRunFrameLemmas
/-! # Lemmas for `ClashLinks`: destinations that are plain only WHERE THE SOURCE MAPS ONTO THEM

`Node.plainTree` (Clash) asks the whole destination to consist of directories and regular files.  What the clash and
frame theorems need is less: at every position the source tree maps onto — recursively through directory-over-
directory pairs — the destination entry, if any, is a directory or a regular file (`Node.mappedPlain`).  Entries
under names the source does not list may be anything (symbolic links, special files, subtrees with links): no
operation target is at or below them.

The existing proofs use `PlainBelow` in three places: `plains_init*` (no symbolic link at or above a target), where
only the positions of the source tree and their prefixes matter (`plains_init_mapped`); `clash_position` (`.cases` at a
mapped node, `.child` at a LISTED child only: `clash_position_mapped`); and `exec_clash`, likewise at mapped nodes and
listed children only — not redone here: the sequential run is one of the interleavings (`execOps_ok_run`), so the
sequential statement follows from the concurrent one. -/
namespace Xcp

open L0

mutual
/-- destination (optional), source: wherever the source maps onto the destination the destination entry is a
directory or a regular file -/
def Node.mappedPlain : Option Node → Node → Bool
  | none, _ => true
  | some (.file _), _ => true
  | some (.dir des), .dir ses => mappedPlainL des ses
  | some (.dir _), _ => true
  | _, _ => false
def mappedPlainL : Entries → List (Name × Node) → Bool
  | _, [] => true
  | des, (m, ch) :: r => Node.mappedPlain (entGet des m) ch && mappedPlainL des r
end

/-- destination, source: at every position the source tree maps onto, the destination holds a directory or a regular
file; under names the source does not list it may hold anything -/
def Node.plainWhereMapped (dst src : Node) : Bool := Node.mappedPlain (some dst) src

theorem mappedPlain_none (n : Node) : Node.mappedPlain none n = true := by
  cases n <;> simp [Node.mappedPlain]

theorem mappedPlain_some {y n : Node} (h : Node.mappedPlain (some y) n = true) :
    (∃ k, y = .file k) ∨ ∃ des, y = .dir des := by
  cases y with
  | file k => exact .inl ⟨k, rfl⟩
  | dir des => exact .inr ⟨des, rfl⟩
  | link t => cases n <;> simp [Node.mappedPlain] at h
  | special k d => cases n <;> simp [Node.mappedPlain] at h

theorem mappedPlainL_mem {des : Entries} {ses : List (Name × Node)} (h : mappedPlainL des ses = true) :
    ∀ e ∈ ses, Node.mappedPlain (entGet des e.1) e.2 = true := by
  induction ses with
  | nil => intro e he; cases he
  | cons kv r ih =>
    obtain ⟨k, x⟩ := kv
    simp only [mappedPlainL, Bool.and_eq_true] at h
    intro e he
    cases he with
    | head => exact h.1
    | tail _ hm => exact ih h.2 e hm

/-- the whole tree plain, in particular where mapped -/
theorem mappedPlain_of_plainBelow : ∀ (n : Node) (x : Node), PlainBelow x → Node.mappedPlain (some x) n = true := by
  intro n
  -- by structural induction on the source, through its entry lists
  have aux : ∀ (sz : Nat) (n : Node) (x : Node), sizeOf n ≤ sz → PlainBelow x →
      Node.mappedPlain (some x) n = true := by
    intro sz
    induction sz with
    | zero =>
      intro n x hsz _
      cases n <;> simp at hsz <;> omega
    | succ sz ih =>
      intro n x hsz hpl
      rcases hpl.cases with ⟨k, rfl⟩ | ⟨des, rfl⟩
      · cases n <;> simp [Node.mappedPlain]
      · cases n with
        | file _ => simp [Node.mappedPlain]
        | link _ => simp [Node.mappedPlain]
        | special _ _ => simp [Node.mappedPlain]
        | dir ses =>
          simp only [Node.mappedPlain]
          have hl : ∀ (l : List (Name × Node)), sizeOf l ≤ sz → mappedPlainL des l = true := by
            intro l
            induction l with
            | nil => intro _; simp [mappedPlainL]
            | cons e r ihl =>
              intro hs
              obtain ⟨m, ch⟩ := e
              simp only [mappedPlainL, Bool.and_eq_true]
              simp only [List.cons.sizeOf_spec, Prod.mk.sizeOf_spec] at hs
              refine ⟨?_, ihl (by omega)⟩
              cases hy : entGet des m with
              | none => exact mappedPlain_none ch
              | some y => exact ih ch y (by omega) (hpl.child hy)
          apply hl
          simp only [Node.dir.sizeOf_spec] at hsz
          omega
  exact fun x hpl => aux (sizeOf n) n x (Nat.le_refl _) hpl

/-- `mappedPlain` at the root gives `mappedPlain` at every position of the source tree -/
theorem mappedPlain_at : ∀ (rel : List Name) (dst : Option Node) (n m : Node),
    Node.mappedPlain dst n = true → n.getAt rel = some m →
    Node.mappedPlain (dst.bind fun x => x.getAt rel) m = true := by
  intro rel
  induction rel with
  | nil =>
    intro dst n m h hg
    simp only [getAt_nil, Option.some.injEq] at hg
    subst hg
    cases dst with
    | none => exact mappedPlain_none _
    | some x => simpa using h
  | cons a rel' ih =>
    intro dst n m h hg
    obtain ⟨es, ch, hn, hch, hm⟩ := Node.getAt_cons_some hg
    subst hn
    cases dst with
    | none => exact mappedPlain_none _
    | some x =>
      cases x with
      | dir des =>
        simp only [Node.mappedPlain] at h
        have hcc := mappedPlainL_mem h (a, ch) (entGet_mem hch)
        have := ih (entGet des a) ch m hcc hm
        simpa only [Option.bind_some, getAt_dir_cons] using this
      | file k =>
        simp only [Option.bind_some, getAt_nondir (.file k) a rel' rfl]
        exact mappedPlain_none _
      | link t => simp [Node.mappedPlain] at h
      | special k d => simp [Node.mappedPlain] at h

/-- what the destination holds at a position of the source tree, or at a prefix of one, is not a symbolic link -/
theorem mappedPlain_no_link {dst : Option Node} {n m : Node} {rel q : List Name}
    (h : Node.mappedPlain dst n = true) (hg : n.getAt rel = some m) (hq : q <+: rel) (tg : RPath) :
    (dst.bind fun x => x.getAt q) ≠ some (.link tg) := by
  obtain ⟨m', hm'⟩ := L0.getAt_prefix_some hg hq
  have := mappedPlain_at q dst n m' h hm'
  intro he
  rw [he] at this
  rcases mappedPlain_some this with ⟨k, hk⟩ | ⟨des, hd⟩
  · cases hk
  · cases hd

/-! ## The initial `Plains` facts -/

/-- no symbolic link at or above any target or source, initially: the destination is plain where the source maps onto
it — `plains_init` / `plains_init_opt` under the weaker hypothesis -/
theorem plains_init_mapped {srcNode : Node} {S T : List Name} {d : Nat} {ops : List Op}
    (h : OpsSpec srcNode S T d ops)
    (g : Fs) (hS : g.root.getAt S = some srcNode) (hlT : NoLinkUpto g.root T)
    (hmp : Node.mappedPlain (g.root.getAt T) srcNode = true) :
    ∀ x ∈ ops, Plains g x := by
  intro x hx
  obtain ⟨rel, m, hg, _, ex⟩ := h.char x hx
  have hup : NoLinkUpto g.root (T ++ rel) := by
    intro p hp tg hgl
    by_cases hT' : T <+: p
    · obtain ⟨q, hq⟩ := hT'
      subst hq
      have hqr : q <+: rel := (List.prefix_append_right_inj T).1 hp
      rw [Node.getAt_append] at hgl
      exact mappedPlain_no_link hmp hg hqr tg hgl
    · have hpT : p <+: T := by
        rcases List.prefix_or_prefix_of_prefix hp (List.prefix_append T rel) with h1 | h1
        · exact h1
        · exact absurd h1 hT'
      exact hlT p hpT tg hgl
  refine ⟨?_, ?_⟩
  · intro t ht
    rw [ex, headOp_target] at ht
    have := Option.some.inj ht
    subst this
    rw [plainPath_names]
    exact ⟨hup.above, fun _ => hup⟩
  · intro sp hs
    rw [ex] at hs
    obtain ⟨e, _, hml⟩ := headOp_srcOf _ _ _ _ hs
    subst e
    rw [plainPath_names]
    apply noLinkUpto_of_getAt (x := m) _ hml
    rw [Node.getAt_append, hS]; exact hg

/-! ## The directly clashing position -/

theorem directClash_leaf_mapped (n : Node) (hnd : n.isDir = false) (x : Node)
    (hk : (∃ k, x = .file k) ∨ ∃ des, x = .dir des)
    (hc : ¬ Compatible (some x) n) : DirectClash x.obs n := by
  cases n with
  | dir es => cases hnd
  | link t =>
    right; right
    refine ⟨rfl, ?_⟩
    rcases hk with ⟨k', rfl⟩ | ⟨des, rfl⟩
    · exact .inr ⟨k', rfl⟩
    · exact .inl rfl
  | file k =>
    rcases hk with ⟨k', rfl⟩ | ⟨des, rfl⟩
    · exact absurd (by simp [Compatible, Node.compatible]) hc
    · right; left; exact ⟨rfl, rfl, rfl⟩
  | special k dv =>
    rcases hk with ⟨k', rfl⟩ | ⟨des, rfl⟩
    · exact absurd (by simp [Compatible, Node.compatible]) hc
    · right; left; exact ⟨rfl, rfl, rfl⟩

/-- `clash_position` for a destination that is plain where the source maps onto it -/
theorem clash_position_mapped : ∀ (d : Nat) (n : Node), n.Copyable d → ∀ (x : Node), x.WF →
    Node.mappedPlain (some x) n = true → ¬ Compatible (some x) n →
    ∃ rel m y, rel.length ≤ d ∧ n.getAt rel = some m ∧ x.getAt rel = some y ∧ DirectClash y.obs m := by
  intro d
  induction d with
  | zero =>
    intro n hcop x _ hmp hc
    have hnd : n.isDir = false := by
      cases n <;> simp [Node.Copyable] at hcop <;> rfl
    exact ⟨[], n, x, Nat.le_refl _, rfl, rfl, directClash_leaf_mapped n hnd x (mappedPlain_some hmp) hc⟩
  | succ d ih =>
    intro n hcop x hw hmp hc
    cases hnd : n.isDir with
    | false => exact ⟨[], n, x, Nat.zero_le _, rfl, rfl, directClash_leaf_mapped n hnd x (mappedPlain_some hmp) hc⟩
    | true =>
      cases n <;> simp [Node.isDir] at hnd
      rename_i es
      obtain ⟨d', hd', hndp, hch⟩ := copyable_dir hcop
      have hd'' : d' = d := by omega
      subst hd''
      rcases mappedPlain_some hmp with ⟨k', rfl⟩ | ⟨des, rfl⟩
      · exact ⟨[], _, _, Nat.zero_le _, rfl, rfl, .inl ⟨rfl, k', rfl⟩⟩
      · have hcl : compatibleL des es = false := by
          cases hh : compatibleL des es with
          | false => rfl
          | true => exact absurd (by simpa [Compatible, Node.compatible] using hh) hc
        obtain ⟨e, he, hne⟩ := compatibleL_false hcl
        simp only [Node.mappedPlain] at hmp
        have hme := mappedPlainL_mem hmp e he
        rw [WF_dir] at hw
        cases hy : entGet des e.1 with
        | none => rw [hy] at hne; exact absurd (compatible_none _) hne
        | some y =>
          rw [hy] at hne hme
          obtain ⟨rel, m, z, hl, hg, hz, hdc⟩ := ih e.2 (hch e he) y (hw.2 e.1 y hy) hme hne
          refine ⟨e.1 :: rel, m, z, by simp only [List.length_cons]; omega, ?_, ?_, hdc⟩
          · rw [getAt_dir_cons, entGet_of_mem es hndp e he]; exact hg
          · rw [getAt_dir_cons, hy]; exact hz

/-! ## The sequential run is one of the interleavings -/

/-- a sequential execution that exits ok is a complete, unfailed run of the concurrent model -/
theorem execOps_ok_run (c : Cfg) : ∀ (ops : List Op) (g g' : Fs), execOps g c ops = ⟨.ok, g'⟩ →
    ∃ ls, run c ⟨g, ops, [], false⟩ ls = some ⟨g', [], [], false⟩ := by
  intro ops
  induction ops with
  | nil =>
    intro g g' h
    simp only [execOps, Outcome.mk.injEq, true_and] at h
    subst h
    exact ⟨[], rfl⟩
  | cons op r ih =>
    intro g g' h
    cases hx : execOp g c op with
    | none => simp [execOps, hx] at h
    | some g1 =>
      simp only [execOps, hx] at h
      obtain ⟨ls, hls⟩ := ih g1 g' h
      cases hsync : isSync op with
      | true => exact ⟨.walk :: ls, by simp [run, step, hsync, hx, hls]⟩
      | false => exact ⟨.walk :: .exec 0 :: ls, by simp [run, step, hsync, hx, hls]⟩

end Xcp
