import XcpProofs.L0Refine
import XcpProofs.WalkMore
import XcpProofs.L0FsLemmas
/-! Instantiating the refinement theorem with the namespace model: queued operations on plain, pairwise unrelated
targets (with existing parent directories and existing plain sources that nobody writes into) commute with every
other operation of the run — up to `FsEq`, the order of directory entries (two creations in one directory, done in
either order, give entry lists that are permutations of each other).

Formulation.  The relation on states is `FsEq` (L0FsLemmas: same observation at every path, no directory lists a
name twice).  The dynamic predicate is `GoodAll ops`: `Good` for the queued operation itself, and for EVERY
operation of the run "no symbolic link strictly above its target, none at the target either unless the operation
creates a link, none at or above its source" in the current state — without this an operation of the run could
act through a link somewhere else.  The static relation is `IndepIn ops`: `Indep a b`, `b` is an operation of the
run, and the operations of the run are pairwise independent (`PairIndep`, the `hR` hypothesis of the refinement
theorem; needed so that a link created by `b` is not above another operation's target or source). -/
namespace Xcp.L0

open Xcp

/-- an absolute path spelled with names only (no `.`, `..`, trailing slash) -/
def NamesOnly (t : RPath) : Prop := t.abs = true ∧ t.trail = false ∧ ∀ c ∈ t.comps, ∃ n, c = .name n

def Unrel (p q : List Name) : Prop := ¬ p <+: q ∧ ¬ q <+: p

/-- static independence of a queued operation `a` and another operation `b` of the same run: `b` is the failure
marker, or their targets are unrelated (neither inside the other) — or `b` (re-)creates an ancestor directory of
`a`'s target — and neither writes into the other's source -/
def Indep (a b : Op) : Prop :=
  b = .fail ∨
  ∃ ta tb, opTarget a = some ta ∧ opTarget b = some tb ∧ NamesOnly ta ∧ NamesOnly tb ∧
    (Unrel ta.names tb.names ∨ ((∃ t, b = .mkdir t) ∧ tb.names <+: ta.names ∧ tb.names ≠ ta.names)) ∧
    (∀ s, srcOf a = some s → NamesOnly s ∧ Unrel s.names tb.names) ∧
    (∀ s, srcOf b = some s → NamesOnly s ∧ Unrel s.names ta.names)

/-- dynamic part, for the queued operation: in state `fs` its target is plain, the target's parent directory
exists, its source is plain and exists -/
structure Good (fs : Fs) (a : Op) : Prop where
  root : fs.root.isDir = true
  tgt : ∃ t, opTarget a = some t ∧ PlainTarget fs t ∧ t.names ≠ [] ∧ t.names.length < 256 ∧
          ∃ es, fs.root.getAt t.names.dropLast = some (.dir es)
  src : ∀ s, srcOf a = some s → PlainTarget fs s ∧ s.names.length < 256 ∧ ∃ x, fs.root.getAt s.names = some x

/-- dynamic part, for any operation of the run: no symbolic link strictly above its target; none at the target
unless the operation creates a link; none at or above its source -/
def Plains (fs : Fs) (x : Op) : Prop :=
  (∀ t, opTarget x = some t → NoLinkAbove fs.root t.names ∧ (isLinkOp x = false → NoLinkUpto fs.root t.names)) ∧
  (∀ s, srcOf x = some s → NoLinkUpto fs.root s.names)

structure GoodAll (ops : List Op) (fs : Fs) (a : Op) : Prop where
  good : Good fs a
  all : ∀ x ∈ ops, Plains fs x

/-- static: distinct operations of the run, one of them queueable, are independent -/
def PairIndep (ops : List Op) : Prop := ∀ x ∈ ops, ∀ y ∈ ops, x ≠ y → isSync x = false → Indep x y

def IndepIn (ops : List Op) (a b : Op) : Prop := Indep a b ∧ b ∈ ops ∧ PairIndep ops

/-! ## helpers -/

theorem namesOnly_eq {t : RPath} (h : NamesOnly t) : t = plainPath t.names := by
  obtain ⟨ha, ht, hc⟩ := h
  cases t with
  | mk abs comps trail =>
    simp only at ha ht hc
    subst ha; subst ht
    simp only [plainPath]
    rw [← comps_eq_map_names true false comps hc]

theorem plainTarget_namesOnly {fs : Fs} {t : RPath} (h : PlainTarget fs t) : NamesOnly t := ⟨h.1, h.2.1, h.2.2.1⟩

theorem plainTarget_noLink {fs : Fs} {t : RPath} (h : PlainTarget fs t) : NoLinkUpto fs.root t.names := h.2.2.2

theorem prefix_dropLast_of_ne {q ns : List Name} (h : q <+: ns) (hne : q ≠ ns) : q <+: ns.dropLast := by
  rcases List.eq_nil_or_concat ns with h0 | ⟨par, n, h0⟩
  · subst h0; exact absurd (List.prefix_nil.1 h) hne
  · subst h0
    simp only [List.concat_eq_append] at h hne ⊢
    rw [List.dropLast_concat]
    rcases List.prefix_concat_iff.1 h with h1 | h1
    · exact absurd h1 hne
    · exact h1

theorem getAt_prefix_some {r : Node} {p q : List Name} {x : Node} (h : r.getAt p = some x) (hq : q <+: p) :
    ∃ y, r.getAt q = some y := by
  obtain ⟨s, hs⟩ := hq
  subst hs
  rw [Node.getAt_append] at h
  cases hy : r.getAt q with
  | none => simp [hy] at h
  | some y => exact ⟨y, rfl⟩

theorem getAt_prefix_dir {r : Node} {p q : List Name} {es : Entries} (h : r.getAt p = some (.dir es))
    (hq : q <+: p) : ∃ es', r.getAt q = some (.dir es') := by
  obtain ⟨s, hs⟩ := hq
  subst hs
  cases s with
  | nil => exact ⟨es, by simpa using h⟩
  | cons m s' =>
    rw [Node.getAt_append] at h
    cases hy : r.getAt q with
    | none => simp [hy] at h
    | some y =>
      simp only [hy, Option.bind_some] at h
      obtain ⟨es', _, hyd, _, _⟩ := Node.getAt_cons_some h
      subst hyd
      exact ⟨es', rfl⟩

theorem obsAt_ne_none {r : Node} {q : List Name} {x : Node} (h : r.getAt q = some x) : obsAt r q ≠ none := by
  simp [obsAt, h]

theorem agree_of_replaced {r r1 : Node} {ta p : List Name} {w : ONode} (A : ReplacedAt r r1 ta w)
    (h : ¬ ta <+: p) : AgreeUpto r r1 p :=
  fun q hq => A.out q (fun hh => h (hh.trans hq))

theorem wf_exec {c : Cfg} {f f' : Fs} {op : Op} (hf : FsEq f f) (hx : execOp f c op = some f') : FsEq f' f' := by
  have := execOp_cong hf c op
  rw [hx] at this
  exact this

/-! ## what an operation on a plain target does to the rest -/

/-- what executing `b` (target `tb`) may change, as seen from elsewhere -/
structure Frame (fs fs' : Fs) (b : Op) (tb : List Name) : Prop where
  out : ∀ q, ¬ tb <+: q → (¬ q <+: tb ∨ obsAt fs.root q ≠ none) → obsAt fs'.root q = obsAt fs.root q
  links : ∀ q tg, obsAt fs'.root q = some (.link tg) →
    obsAt fs.root q = some (.link tg) ∨ (isLinkOp b = true ∧ q = tb)

theorem frame_of_replaced {fs fs' : Fs} {b : Op} {tb : List Name} {w : ONode} (hw : WOf b w)
    (h : ReplacedAt fs.root fs'.root tb w) : Frame fs fs' b tb where
  out := fun q hq _ => h.out q hq
  links := by
    intro q tg hl
    by_cases hq : tb <+: q
    · obtain ⟨s, hs⟩ := hq
      subst hs
      by_cases hs : s = []
      · subst hs
        rw [List.append_nil] at hl ⊢
        rw [h.here] at hl
        right
        refine ⟨?_, rfl⟩
        cases hb : isLinkOp b with
        | true => rfl
        | false => injection hl with hl; exact absurd hl (hw hb tg)
      · rw [h.below s hs] at hl; cases hl
    · left; rw [← h.out q hq]; exact hl

theorem frame_of_mk {fs fs' : Fs} {b : Op} {tb : List Name} (h : MkFrame fs.root fs'.root tb) :
    Frame fs fs' b tb where
  out := fun q _ hq => by
    rcases h q with h1 | ⟨h1, h2, _⟩
    · exact h1
    · rcases hq with hq | hq
      · exact absurd h1 hq
      · exact absurd h2 hq
  links := fun q tg hl => by
    rcases h q with h1 | ⟨_, _, h3⟩
    · left; rw [← h1]; exact hl
    · rw [h3] at hl; cases hl

theorem exec_frame (c : Cfg) {fs fs' : Fs} {b : Op} {ns : List Name} (pb : OpPlain fs b ns) (hns : ns ≠ [])
    (hroot : fs.root.isDir = true) (hw : fs.root.WF) (hx : execOp fs c b = some fs') : Frame fs fs' b ns := by
  by_cases hm : ∃ t, b = .mkdir t
  · obtain ⟨t, rfl⟩ := hm
    have ht : t = plainPath ns := Option.some.inj pb.tgt
    subst ht
    have := execOp_mkdir_local fs fs c ns hroot (pb.upto rfl) (AgreeUpto.refl _ _)
    rw [hx] at this
    have this : MkInv fs fs ns fs' fs' := this
    exact frame_of_mk this.frame
  · have hnm : ∀ t, b ≠ .mkdir t := fun t h => hm ⟨t, h⟩
    have := execOp_local fs fs c b ns pb hns hroot hw hw hnm (AgreeUpto.refl _ _) (fun _ _ => AgreeUpto.refl _ _)
    rw [hx] at this
    obtain ⟨w, hW, h1, _⟩ : LocalQ (WOf b) fs fs ns fs' fs' := this
    exact frame_of_replaced hW h1

theorem agree_tgt {fs fs' : Fs} {b : Op} {tb ns : List Name} (F : Frame fs fs' b tb)
    (hpar : ParentDir fs.root ns) (h1 : ¬ ns <+: tb) (h2 : ¬ tb <+: ns) : AgreeUpto fs.root fs'.root ns := by
  intro q hq
  apply F.out q (fun h => h2 (h.trans hq))
  by_cases hqe : q = ns
  · subst hqe; exact .inl h1
  · obtain ⟨es, hes⟩ := hpar
    obtain ⟨y, hy⟩ := getAt_prefix_some hes (prefix_dropLast_of_ne hq hqe)
    exact .inr (obsAt_ne_none hy)

theorem agree_src {fs fs' : Fs} {b : Op} {tb ss : List Name} (F : Frame fs fs' b tb)
    (hex : ∃ x, fs.root.getAt ss = some x) (h2 : ¬ tb <+: ss) : AgreeUpto fs.root fs'.root ss := by
  intro q hq
  apply F.out q (fun h => h2 (h.trans hq))
  obtain ⟨x, hx⟩ := hex
  obtain ⟨y, hy⟩ := getAt_prefix_some hx hq
  exact .inr (obsAt_ne_none hy)

theorem good_transfer {fs fs' : Fs} {a : Op} (hg : Good fs a)
    (hag : ∀ t, opTarget a = some t → AgreeUpto fs.root fs'.root t.names)
    (hags : ∀ s, srcOf a = some s → AgreeUpto fs.root fs'.root s.names) : Good fs' a := by
  obtain ⟨t, ht, hpt, hne, hlen, hpar⟩ := hg.tgt
  have hat := hag t ht
  refine ⟨?_, ⟨t, ht, ⟨hpt.1, hpt.2.1, hpt.2.2.1, hat.noLinkUpto hpt.2.2.2⟩, hne, hlen, hat.parentDir hpar⟩, ?_⟩
  · rw [hat.isDir]; exact hg.root
  · intro s hs
    obtain ⟨hps, hl, x, hx⟩ := hg.src s hs
    have has := hags s hs
    refine ⟨⟨hps.1, hps.2.1, hps.2.2.1, has.noLinkUpto hps.2.2.2⟩, hl, ?_⟩
    have h1 := has s.names (List.prefix_refl _)
    have h2 : (fs'.root.getAt s.names).isSome = true := by
      rw [getAt_isSome_iff, h1, ← getAt_isSome_iff, hx]; rfl
    cases hy : fs'.root.getAt s.names with
    | none => rw [hy] at h2; cases h2
    | some y => exact ⟨y, rfl⟩

theorem isSync_of_isLinkOp {b : Op} (h : isLinkOp b = true) : isSync b = false := by
  cases b <;> simp [isLinkOp] at h <;> rfl

theorem plains_transfer {ops : List Op} {fs fs' : Fs} {b : Op} {tb : RPath} (hbm : b ∈ ops) (hPI : PairIndep ops)
    (htb : opTarget b = some tb) (F : Frame fs fs' b tb.names) (hall : ∀ x ∈ ops, Plains fs x) :
    ∀ x ∈ ops, Plains fs' x := by
  intro x hx
  have claim : ∀ q tg, fs'.root.getAt q = some (.link tg) →
      fs.root.getAt q = some (.link tg) ∨ (isLinkOp b = true ∧ q = tb.names) := by
    intro q tg h
    rw [getAt_link_iff] at h ⊢
    exact F.links q tg h
  -- a link created by `b` is not at or above the target or source of another operation
  have other : x ≠ b → isLinkOp b = true →
      (∀ t, opTarget x = some t → ¬ tb.names <+: t.names) ∧ (∀ s, srcOf x = some s → ¬ tb.names <+: s.names) := by
    intro hxb hlb
    rcases hPI b hbm x hx (fun h => hxb h.symm) (isSync_of_isLinkOp hlb) with hf | ⟨ta', tb', h1, h2, _, _, hrel, _, hsrc⟩
    · subst hf
      exact ⟨fun t ht => (by cases ht), fun s hs => (by cases hs)⟩
    · have e1 : ta' = tb := by rw [htb] at h1; exact (Option.some.inj h1).symm
      subst e1
      refine ⟨?_, fun s hs => (hsrc s hs).2.2⟩
      intro t ht hp
      have e2 : tb' = t := by rw [ht] at h2; exact (Option.some.inj h2).symm
      subst e2
      rcases hrel with hu | ⟨_, hpre, hne⟩
      · exact hu.1 hp
      · exact hne (prefix_antisymm hpre hp)
  refine ⟨?_, ?_⟩
  · intro t ht
    obtain ⟨h1, h2⟩ := (hall x hx).1 t ht
    refine ⟨?_, ?_⟩
    · intro p hp hne tg hg
      rcases claim p tg hg with h | ⟨hlb, hq⟩
      · exact h1 p hp hne tg h
      · subst hq
        by_cases hxb : x = b
        · subst hxb
          rw [htb] at ht
          have := Option.some.inj ht
          subst this
          exact hne rfl
        · exact (other hxb hlb).1 t ht hp
    · intro hnl p hp tg hg
      rcases claim p tg hg with h | ⟨hlb, hq⟩
      · exact h2 hnl p hp tg h
      · subst hq
        by_cases hxb : x = b
        · subst hxb; rw [hlb] at hnl; cases hnl
        · exact (other hxb hlb).1 t ht hp
  · intro s hs p hp tg hg
    rcases claim p tg hg with h | ⟨hlb, hq⟩
    · exact (hall x hx).2 s hs p hp tg h
    · subst hq
      by_cases hxb : x = b
      · subst hxb
        cases x <;> simp [isLinkOp] at hlb
        cases hs
      · exact (other hxb hlb).2 s hs hp

theorem opPlain_of_good {fs : Fs} {a : Op} {ta : RPath} (hg : Good fs a) (hta : opTarget a = some ta) :
    OpPlain fs a ta.names := by
  obtain ⟨t, ht, hpt, _, _, _⟩ := hg.tgt
  have : t = ta := by rw [hta] at ht; exact (Option.some.inj ht).symm
  subst this
  refine ⟨?_, (plainTarget_noLink hpt).above, fun _ => plainTarget_noLink hpt, ?_⟩
  · rw [hta, ← namesOnly_eq (plainTarget_namesOnly hpt)]
  · intro s hs
    obtain ⟨hps, _, _⟩ := hg.src s hs
    exact ⟨namesOnly_eq (plainTarget_namesOnly hps), plainTarget_noLink hps⟩

theorem opPlain_of_plains {fs : Fs} {x : Op} {t : RPath} (ht : opTarget x = some t) (hn : NamesOnly t)
    (hs : ∀ s, srcOf x = some s → NamesOnly s) (hp : Plains fs x) : OpPlain fs x t.names := by
  obtain ⟨h1, h2⟩ := hp.1 t ht
  refine ⟨?_, h1, h2, ?_⟩
  · rw [ht, ← namesOnly_eq hn]
  · intro s hss
    exact ⟨namesOnly_eq (hs s hss), hp.2 s hss⟩

/-- `b` re-creates an existing ancestor directory of `a`'s target: nothing happens -/
theorem exec_ancestor_mkdir (c : Cfg) {fs : Fs} {ta tb : RPath} (hntb : NamesOnly tb)
    (hl : NoLinkUpto fs.root ta.names) (hlen : ta.names.length < 256) (hpar : ParentDir fs.root ta.names)
    (hpre : tb.names <+: ta.names) (hne : tb.names ≠ ta.names) : execOp fs c (.mkdir tb) = some fs := by
  obtain ⟨es, hes⟩ := hpar
  obtain ⟨es', hes'⟩ := getAt_prefix_dir hes (prefix_dropLast_of_ne hpre hne)
  have h := mkdirAll_existing_dir fs tb.names es' (Nat.lt_of_le_of_lt hpre.length_le hlen) hes' (hl.prefix hpre)
  rw [← namesOnly_eq hntb] at h
  simp [execOp, h, Except.toOption]

/-! ## the instance -/

theorem preserved_all (c : Cfg) (ops : List Op) (fs fs' : Fs) (a b : Op) (hfs : FsEq fs fs)
    (hg : GoodAll ops fs a) (hR : IndepIn ops a b) (hx : execOp fs c b = some fs') : GoodAll ops fs' a := by
  obtain ⟨hI, hbm, hPI⟩ := hR
  rcases hI with hfail | ⟨ta, tb, hta, htb, nta, ntb, hrel, hsa, hsb⟩
  · subst hfail; simp [execOp] at hx
  · obtain ⟨t, ht, hpt, hne, hlen, hpar⟩ := hg.good.tgt
    have : t = ta := by rw [hta] at ht; exact (Option.some.inj ht).symm
    subst this
    rcases hrel with hun | ⟨⟨t', hbt⟩, hpre, hneq⟩
    · have htbne : tb.names ≠ [] := fun h => hun.2 (h ▸ List.nil_prefix)
      have pb := opPlain_of_plains htb ntb (fun s hs => (hsb s hs).1) (hg.all b hbm)
      have F := exec_frame c pb htbne hg.good.root hfs.2.1 hx
      refine ⟨good_transfer hg.good ?_ ?_, plains_transfer hbm hPI htb F hg.all⟩
      · intro t' ht'
        have : t' = t := by rw [hta] at ht'; exact (Option.some.inj ht').symm
        subst this
        exact agree_tgt F hpar hun.1 hun.2
      · intro s hs
        exact agree_src F (hg.good.src s hs).2.2 (hsa s hs).2.2
    · subst hbt
      have : t' = tb := Option.some.inj htb
      subst this
      have := exec_ancestor_mkdir c ntb (plainTarget_noLink hpt) hlen hpar hpre hneq
      rw [this] at hx
      cases hx
      exact hg

theorem comm_all (c : Cfg) (ops : List Op) (fs : Fs) (a b : Op) (hfs : FsEq fs fs)
    (hg : GoodAll ops fs a) (hR : IndepIn ops a b) (hs : isSync a = false) :
    ORel FsEq ((execOp fs c a).bind (fun f1 => execOp f1 c b)) ((execOp fs c b).bind (fun f2 => execOp f2 c a)) := by
  obtain ⟨hI, hbm, hPI⟩ := hR
  have hnma : ∀ t, a ≠ .mkdir t := by intro t h; subst h; cases hs
  rcases hI with hfail | ⟨ta, tb, hta, htb, nta, ntb, hrel, hsa, hsb⟩
  · subst hfail
    cases execOp fs c a <;> exact trivial
  · obtain ⟨t, ht, hpt, hne, hlen, hpar⟩ := hg.good.tgt
    have : t = ta := by rw [hta] at ht; exact (Option.some.inj ht).symm
    subst this
    have pa := opPlain_of_good hg.good hta
    have hroot := hg.good.root
    have hw := hfs.2.1
    -- the effect of `a` on `fs`
    have A0 : ∀ fa, execOp fs c a = some fa → ∃ wa, ReplacedAt fs.root fa.root t.names wa := by
      intro fa hxa
      have := execOp_local fs fs c a t.names pa hne hroot hw hw hnma (AgreeUpto.refl _ _)
        (fun _ _ => AgreeUpto.refl _ _)
      rw [hxa] at this
      obtain ⟨w, _, h1, _⟩ : LocalQ (WOf a) fs fs t.names fa fa := this
      exact ⟨w, h1⟩
    rcases hrel with hun | ⟨⟨t', hbt⟩, hpre, hneq⟩
    · have htbne : tb.names ≠ [] := fun h => hun.2 (h ▸ List.nil_prefix)
      have pb := opPlain_of_plains htb ntb (fun s hs => (hsb s hs).1) (hg.all b hbm)
      -- `a` run after `b`
      have T1 : ∀ fb, execOp fs c b = some fb →
          ORel (LocalQ (WOf a) fs fb t.names) (execOp fs c a) (execOp fb c a) := by
        intro fb hxb
        have F := exec_frame c pb htbne hroot hw hxb
        exact execOp_local fs fb c a t.names pa hne hroot hw (wf_exec hfs hxb).2.1 hnma
          (agree_tgt F hpar hun.1 hun.2)
          (fun s hs => agree_src F (hg.good.src s hs).2.2 (hsa s hs).2.2)
      cases hxa : execOp fs c a with
      | none =>
        cases hxb : execOp fs c b with
        | none => exact trivial
        | some fb =>
          have := T1 fb hxb
          rw [hxa] at this
          simp only [Option.bind_none, Option.bind_some]
          cases hxba : execOp fb c a with
          | none => exact trivial
          | some fba => rw [hxba] at this; exact this.elim
      | some fa =>
        obtain ⟨wa0, A0'⟩ := A0 fa hxa
        have hwa := (wf_exec hfs hxa).2.1
        have hagb : AgreeUpto fs.root fa.root tb.names := agree_of_replaced A0' hun.1
        have hagsb : ∀ s, srcOf b = some s → AgreeUpto fs.root fa.root s.names :=
          fun s hs => agree_of_replaced A0' (hsb s hs).2.2
        simp only [Option.bind_some]
        by_cases hm : ∃ t', b = .mkdir t'
        · obtain ⟨t', rfl⟩ := hm
          have ht' : t' = plainPath tb.names := by
            have := pb.tgt; exact Option.some.inj this
          have T2 := execOp_mkdir_local fs fa c tb.names hroot (pb.upto rfl) hagb
          rw [← ht'] at T2
          cases hxb : execOp fs c (.mkdir t') with
          | none =>
            rw [hxb] at T2
            cases hxab : execOp fa c (.mkdir t') with
            | none => exact trivial
            | some fab => rw [hxab] at T2; exact T2.elim
          | some fb =>
            rw [hxb] at T2
            cases hxab : execOp fa c (.mkdir t') with
            | none => rw [hxab] at T2; exact T2.elim
            | some fab =>
              rw [hxab] at T2
              have T2 : MkInv fs fa tb.names fb fab := T2
              have T1' := T1 fb hxb
              rw [hxa] at T1'
              simp only [Option.bind_some]
              cases hxba : execOp fb c a with
              | none => rw [hxba] at T1'; exact T1'.elim
              | some fba =>
                rw [hxba] at T1'
                obtain ⟨wa, _, A1, A2⟩ : LocalQ (WOf a) fs fb t.names fa fba := T1'
                refine ⟨?_, (wf_exec (wf_exec hfs hxa) hxab).2.1, (wf_exec (wf_exec hfs hxb) hxba).2.1, ?_⟩
                · rw [execOp_cwd _ _ _ _ hxab, execOp_cwd _ _ _ _ hxa, execOp_cwd _ _ _ _ hxba,
                    execOp_cwd _ _ _ _ hxb]
                · exact mkFrame_comm hun.1 A1 A2 T2.frame T2.frame' T2.agree
        · have hnmb : ∀ t', b ≠ .mkdir t' := fun t' h => hm ⟨t', h⟩
          have T2 := execOp_local fs fa c b tb.names pb htbne hroot hw hwa hnmb hagb hagsb
          cases hxb : execOp fs c b with
          | none =>
            rw [hxb] at T2
            cases hxab : execOp fa c b with
            | none => exact trivial
            | some fab => rw [hxab] at T2; exact T2.elim
          | some fb =>
            rw [hxb] at T2
            cases hxab : execOp fa c b with
            | none => rw [hxab] at T2; exact T2.elim
            | some fab =>
              rw [hxab] at T2
              obtain ⟨wb, _, B1, B2⟩ : LocalQ (WOf b) fs fa tb.names fb fab := T2
              have T1' := T1 fb hxb
              rw [hxa] at T1'
              simp only [Option.bind_some]
              cases hxba : execOp fb c a with
              | none => rw [hxba] at T1'; exact T1'.elim
              | some fba =>
                rw [hxba] at T1'
                obtain ⟨wa, _, A1, A2⟩ : LocalQ (WOf a) fs fb t.names fa fba := T1'
                refine ⟨?_, (wf_exec (wf_exec hfs hxa) hxab).2.1, (wf_exec (wf_exec hfs hxb) hxba).2.1, ?_⟩
                · rw [execOp_cwd _ _ _ _ hxab, execOp_cwd _ _ _ _ hxa, execOp_cwd _ _ _ _ hxba,
                    execOp_cwd _ _ _ _ hxb]
                · exact replacedAt_comm hun.1 hun.2 A1 A2 B1 B2
    · subst hbt
      have : t' = tb := Option.some.inj htb
      subst this
      have hl := plainTarget_noLink hpt
      have hxb := exec_ancestor_mkdir c ntb hl hlen hpar hpre hneq
      rw [hxb]
      simp only [Option.bind_some]
      cases hxa : execOp fs c a with
      | none => exact trivial
      | some fa =>
        obtain ⟨wa, A1⟩ := A0 fa hxa
        have hnp : ¬ t.names <+: t'.names := fun h => hneq (prefix_antisymm hpre h)
        have hag : AgreeUpto fs.root fa.root t.names.dropLast :=
          agree_of_replaced A1 (fun h => by
            have := h.length_le
            simp only [List.length_dropLast] at this
            have : 0 < t.names.length := List.length_pos_iff.2 hne
            omega)
        have hag' : AgreeUpto fs.root fa.root t'.names := hag.prefix (prefix_dropLast_of_ne hpre hneq)
        -- in `fa` the prefixes of `a`'s target are what they were, except the target itself
        obtain ⟨es, hes⟩ := hpar
        obtain ⟨es', hes'⟩ := getAt_prefix_dir hes (prefix_dropLast_of_ne hpre hneq)
        obtain ⟨es'', hes''⟩ : ∃ e, fa.root.getAt t'.names = some (.dir e) := by
          apply getAt_dir_of_obs
          rw [hag' t'.names (List.prefix_refl _)]
          exact obsAt_dir hes'
        have h := mkdirAll_existing_dir fa t'.names es'' (Nat.lt_of_le_of_lt hpre.length_le hlen) hes''
          (hag'.noLinkUpto (hl.prefix hpre))
        rw [← namesOnly_eq ntb] at h
        have hxab : execOp fa c (.mkdir t') = some fa := by simp [execOp, h, Except.toOption]
        simp only [Option.bind_some]
        rw [hxab]
        exact wf_exec hfs hxa

/-- Queued operations on plain, pairwise unrelated targets commute with every other operation of the run, up to
the order of directory entries. -/
theorem fs_commutes (c : Cfg) (ops : List Op) : Commutes c FsEq (GoodAll ops) (IndepIn ops) where
  symm := fun _ _ h => h.symm
  trans := fun _ _ _ h1 h2 => h1.trans h2
  cong := fun _ _ op h => execOp_cong h c op
  preserved := preserved_all c ops
  comm := comm_all c ops

/-- The refinement theorem for the namespace model.  From a well-formed initial state, if the operations of the
run are pairwise independent and every operation is good — and all operations of the run are link-free in the
sense of `Plains` — at the moment the walker hands it over, then every complete failure-free concurrent run ends
in the state of the sequential execution, up to the order of directory entries. -/
theorem fs_run_refines_sequential (c : Cfg) (fs0 : Fs) (ops : List Op) (h0 : FsEq fs0 fs0) (hnd : ops.Nodup)
    (hI : PairIndep ops)
    (hand : ∀ (ls : List Label) (s : St) (op : Op) (r : List Op), run c (init fs0 ops) ls = some s →
              s.failed = false → s.todo = op :: r → isSync op = false → GoodAll ops s.fs op)
    (ls : List Label) (s : St) (hrun : run c (init fs0 ops) ls = some s)
    (hfin : final s = true) (hok : s.failed = false) :
    ∃ f, seqExec c (some fs0) ops = some f ∧ FsEq f s.fs :=
  complete_run_refines_sequential c FsEq (GoodAll ops) (IndepIn ops) (fs_commutes c ops) fs0 ops h0 hnd
    (fun a ha b hb hab hs => ⟨hI a ha b hb hab hs, hb, hI⟩) hand ls s hrun hfin hok

end Xcp.L0
