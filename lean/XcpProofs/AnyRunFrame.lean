import XcpProofs.Clash
import XcpProofs.MultiClash
import XcpProofs.AnyRunFrameLemmas
/-! # Sources and bystanders are untouched WHATEVER the run does

`TreeFrame` proves the frame for successful runs onto compatible targets.  Here: for EVERY reachable state of the
concurrent model L0 — failed or not, complete or not, any interleaving — and for the sequential execution whatever
its exit, with NO compatibility assumption, for targets that are absent or made of directories and regular files
(`Node.plainTree`): every place that is not at or below a target is observed exactly as in the initial file system
(`obsAt`: kind, content id, link text, device; a directory is observed as a directory — its entry list is not part of
the observation, so the ancestors of a target, which may gain the target's entry, are covered too).  In particular
the source trees (unrelated to every target) and every other entry of the destination directory.

Proof: `FsInv` (AnyRunFrameLemmas) — no symbolic link is ever at or above a target or source of an operation of the
walk (`Plains`), so a successful operation changes only places at or below its own target (`exec_frame`), and every
target is at or below a target base; a failed operation changes nothing. -/
namespace Xcp

open L0

/-- what the hypotheses of `clash_fails` / `mirror_overlay` (without compatibility) give about the walk's list -/
theorem single_frame_setup (fs : Fs) (c : Cfg) (hd : c.dereference = false) (hn : c.noClobber = false)
    (src tb : RPath) (srcNode : Node) (fuel : Nat)
    (hwf : FsEq fs fs) (hroot : fs.root.isDir = true)
    (hsrc : PlainTarget fs src) (hsn : fs.root.getAt src.names = some srcNode)
    (hcop : srcNode.Copyable fuel)
    (htb : PlainTarget fs tb) (hne : tb.names ≠ [])
    (hplain : ∀ d, fs.root.getAt tb.names = some d → d.plainTree = true)
    (hpar : ∃ es, fs.root.getAt tb.names.dropLast = some (.dir es))
    (hun1 : ¬ src.names <+: tb.names) (hun2 : ¬ tb.names <+: src.names)
    (hlen : src.names.length + fuel < 200 ∧ tb.names.length + fuel < 200) :
    walkEntry fs c none src tb (fuel + 1) [] [] = opsOf srcNode src.names tb.names ∧
    FrameSpec fs (opsOf srcNode src.names tb.names) (fun q => ¬ tb.names <+: q) ∧
    FsInv fs (opsOf srcNode src.names tb.names) (fun q => ¬ tb.names <+: q) fs := by
  have hsrcE := plainTarget_eq fs src hsrc
  have htbE := plainTarget_eq fs tb htb
  have hnl : srcNode.isLink = false := by
    cases srcNode with
    | link t => exact absurd hsn (hsrc.2.2.2 src.names (List.prefix_refl _) t)
    | _ => rfl
  have hshape : walkEntry fs c none (plainPath src.names) (plainPath tb.names) (fuel + 1) [] [] =
      opsOf srcNode (src.names ++ []) (tb.names ++ []) := by
    have h1 : fs.root.getAt (src.names ++ []) = some srcNode := by simpa using hsn
    have h2 : srcNode.isLink = true → ([] : List Name) ≠ [] := fun h => by rw [hnl] at h; cases h
    have h3 : src.names.length + ([] : List Name).length + fuel < 256 := by
      simp only [List.length_nil]; omega
    exact walk_shape fs c hd src.names tb.names (.inl hn) fuel srcNode hcop [] [] h1 h2 h3
  rw [← hsrcE, ← htbE] at hshape
  simp only [List.append_nil] at hshape
  have hspec : OpsSpec srcNode src.names tb.names fuel (opsOf srcNode src.names tb.names) :=
    ⟨mem_opsOf fuel srcNode hcop _ _, hun1, hun2, hne, by omega, by omega⟩
  have hpl : ∀ x ∈ opsOf srcNode src.names tb.names, Plains fs x :=
    plains_init_opt hspec fs hsn htb.2.2.2 (fun x0 hx0 q y hq => plainTree_getAt q x0 y (hplain x0 hx0) hq)
  exact ⟨hshape, frameSpec_single hspec fs hroot hpar, ⟨hwf, hpl, fun _ _ => rfl⟩⟩

/-- ONE SOURCE, EVERY REACHABLE STATE of every interleaving (no `final`, no `failed` hypothesis): whatever is not at
or below the target base is observed as in the initial file system -/
theorem any_run_changes_only_the_target (fs : Fs) (c : Cfg) (hd : c.dereference = false) (hn : c.noClobber = false)
    (src tb : RPath) (srcNode : Node) (fuel : Nat)
    (hwf : FsEq fs fs) (hroot : fs.root.isDir = true)
    (hsrc : PlainTarget fs src) (hsn : fs.root.getAt src.names = some srcNode)
    (hcop : srcNode.Copyable fuel)
    (htb : PlainTarget fs tb) (hne : tb.names ≠ [])
    (hplain : ∀ d, fs.root.getAt tb.names = some d → d.plainTree = true)
    (hpar : ∃ es, fs.root.getAt tb.names.dropLast = some (.dir es))
    (hun1 : ¬ src.names <+: tb.names) (hun2 : ¬ tb.names <+: src.names)
    (hlen : src.names.length + fuel < 200 ∧ tb.names.length + fuel < 200)
    (ls : List Label) (s : St)
    (hrun : run c (init fs (walkEntry fs c none src tb (fuel + 1) [] [])) ls = some s)
    (q : List Name) (hq : ¬ tb.names <+: q) :
    obsAt s.fs.root q = obsAt fs.root q := by
  obtain ⟨hshape, hspec, hinv⟩ := single_frame_setup fs c hd hn src tb srcNode fuel hwf hroot hsrc hsn hcop htb hne
    hplain hpar hun1 hun2 hlen
  rw [hshape] at hrun
  exact (FInv.run hspec c ls _ s (FInv.init hwf hinv.plains) hrun).fsinv.frame q hq

/-- … in particular the source tree: every place at or below the source is observed unchanged -/
theorem any_run_keeps_the_source (fs : Fs) (c : Cfg) (hd : c.dereference = false) (hn : c.noClobber = false)
    (src tb : RPath) (srcNode : Node) (fuel : Nat)
    (hwf : FsEq fs fs) (hroot : fs.root.isDir = true)
    (hsrc : PlainTarget fs src) (hsn : fs.root.getAt src.names = some srcNode)
    (hcop : srcNode.Copyable fuel)
    (htb : PlainTarget fs tb) (hne : tb.names ≠ [])
    (hplain : ∀ d, fs.root.getAt tb.names = some d → d.plainTree = true)
    (hpar : ∃ es, fs.root.getAt tb.names.dropLast = some (.dir es))
    (hun1 : ¬ src.names <+: tb.names) (hun2 : ¬ tb.names <+: src.names)
    (hlen : src.names.length + fuel < 200 ∧ tb.names.length + fuel < 200)
    (ls : List Label) (s : St)
    (hrun : run c (init fs (walkEntry fs c none src tb (fuel + 1) [] [])) ls = some s)
    (rel : List Name) :
    obsAt s.fs.root (src.names ++ rel) = obsAt fs.root (src.names ++ rel) := by
  apply any_run_changes_only_the_target fs c hd hn src tb srcNode fuel hwf hroot hsrc hsn hcop htb hne hplain hpar
    hun1 hun2 hlen ls s hrun
  intro hp
  rcases List.prefix_or_prefix_of_prefix hp (List.prefix_append src.names rel) with h | h
  · exact hun2 h
  · exact hun1 h

/-- ONE SOURCE, the sequential execution, whatever its exit -/
theorem any_sequential_run_changes_only_the_target (fs : Fs) (c : Cfg) (hd : c.dereference = false)
    (hn : c.noClobber = false)
    (src tb : RPath) (srcNode : Node) (fuel : Nat)
    (hwf : FsEq fs fs) (hroot : fs.root.isDir = true)
    (hsrc : PlainTarget fs src) (hsn : fs.root.getAt src.names = some srcNode)
    (hcop : srcNode.Copyable fuel)
    (htb : PlainTarget fs tb) (hne : tb.names ≠ [])
    (hplain : ∀ d, fs.root.getAt tb.names = some d → d.plainTree = true)
    (hpar : ∃ es, fs.root.getAt tb.names.dropLast = some (.dir es))
    (hun1 : ¬ src.names <+: tb.names) (hun2 : ¬ tb.names <+: src.names)
    (hlen : src.names.length + fuel < 200 ∧ tb.names.length + fuel < 200)
    (q : List Name) (hq : ¬ tb.names <+: q) :
    obsAt (execOps fs c (walkEntry fs c none src tb (fuel + 1) [] [])).fs.root q = obsAt fs.root q := by
  obtain ⟨hshape, hspec, hinv⟩ := single_frame_setup fs c hd hn src tb srcNode fuel hwf hroot hsrc hsn hcop htb hne
    hplain hpar hun1 hun2 hlen
  rw [hshape]
  exact (FsInv.execOps hspec c _ (fun _ h => h) fs hinv).frame q hq

/-- what the hypotheses of `multi_clash_fails` (without a clash) give about the concatenated list -/
theorem multi_frame_setup (fs : Fs) (c : Cfg) (dest : RPath) (items : List CopySrc) (fuel : Nat)
    (hd : c.dereference = false) (hn : c.noClobber = false)
    (hwf : FsEq fs fs)
    (hdd : ∃ es, fs.root.getAt dest.names = some (.dir es))
    (hfuel : fuel < walkFuel)
    (hsrc : ∀ e ∈ items, PlainTarget fs e.path ∧ e.path.fileName = some e.base ∧
      fs.root.getAt e.path.names = some e.node ∧ e.node.Copyable fuel ∧ e.path.names.length + walkFuel < 256)
    (hnd : (items.map (·.base)).Nodup)
    (hun : ∀ e ∈ items, ∀ e' ∈ items,
      ¬ e.path.names <+: dest.names ++ [e'.base] ∧ ¬ dest.names ++ [e'.base] <+: e.path.names)
    (hplain : ∀ e ∈ items, ∀ d, fs.root.getAt (dest.names ++ [e.base]) = some d → d.plainTree = true)
    (hlen : dest.names.length + 1 + walkFuel < 256) :
    multiOps fs c dest items = allOps dest.names items ∧
    FrameSpec fs (allOps dest.names items) (fun q => ∀ e ∈ items, ¬ dest.names ++ [e.base] <+: q) ∧
    FsInv fs (allOps dest.names items) (fun q => ∀ e ∈ items, ¬ dest.names ++ [e.base] <+: q) fs := by
  have hops : multiOps fs c dest items = allOps dest.names items := multiOps_eq fs c dest items fuel hd hn hfuel hsrc
  obtain ⟨hspec, _⟩ := multi_mspec fs dest items fuel hfuel hsrc hnd hun hlen
  have hpl : ∀ x ∈ allOps dest.names items, Plains fs x :=
    plains_init_multi hspec fs hdd (fun e he => (hsrc e he).2.2.1)
      (fun e he x hx q y hq => plainTree_getAt q x y (hplain e he x hx) hq)
  exact ⟨hops, frameSpec_multi hspec fs hdd, ⟨hwf, hpl, fun _ _ => rfl⟩⟩

/-- SEVERAL SOURCES, EVERY REACHABLE STATE of every interleaving: whatever is not at or below one of the targets
`dest/bi` is observed as in the initial file system -/
theorem any_multi_run_changes_only_the_targets (fs : Fs) (c : Cfg) (dest : RPath) (items : List CopySrc) (fuel : Nat)
    (hd : c.dereference = false) (hn : c.noClobber = false)
    (hwf : FsEq fs fs)
    (hdd : ∃ es, fs.root.getAt dest.names = some (.dir es))
    (hfuel : fuel < walkFuel)
    (hsrc : ∀ e ∈ items, PlainTarget fs e.path ∧ e.path.fileName = some e.base ∧
      fs.root.getAt e.path.names = some e.node ∧ e.node.Copyable fuel ∧ e.path.names.length + walkFuel < 256)
    (hnd : (items.map (·.base)).Nodup)
    (hun : ∀ e ∈ items, ∀ e' ∈ items,
      ¬ e.path.names <+: dest.names ++ [e'.base] ∧ ¬ dest.names ++ [e'.base] <+: e.path.names)
    (hplain : ∀ e ∈ items, ∀ d, fs.root.getAt (dest.names ++ [e.base]) = some d → d.plainTree = true)
    (hlen : dest.names.length + 1 + walkFuel < 256)
    (ls : List Label) (s : St)
    (hrun : run c (init fs (multiOps fs c dest items)) ls = some s)
    (q : List Name) (hq : ∀ e ∈ items, ¬ dest.names ++ [e.base] <+: q) :
    obsAt s.fs.root q = obsAt fs.root q := by
  obtain ⟨hops, hspec, hinv⟩ := multi_frame_setup fs c dest items fuel hd hn hwf hdd hfuel hsrc hnd hun hplain hlen
  rw [hops] at hrun
  exact (FInv.run hspec c ls _ s (FInv.init hwf hinv.plains) hrun).fsinv.frame q hq

/-- SEVERAL SOURCES, the sequential execution of the concatenated lists, whatever its exit -/
theorem any_multi_sequential_run_changes_only_the_targets (fs : Fs) (c : Cfg) (dest : RPath) (items : List CopySrc)
    (fuel : Nat)
    (hd : c.dereference = false) (hn : c.noClobber = false)
    (hwf : FsEq fs fs)
    (hdd : ∃ es, fs.root.getAt dest.names = some (.dir es))
    (hfuel : fuel < walkFuel)
    (hsrc : ∀ e ∈ items, PlainTarget fs e.path ∧ e.path.fileName = some e.base ∧
      fs.root.getAt e.path.names = some e.node ∧ e.node.Copyable fuel ∧ e.path.names.length + walkFuel < 256)
    (hnd : (items.map (·.base)).Nodup)
    (hun : ∀ e ∈ items, ∀ e' ∈ items,
      ¬ e.path.names <+: dest.names ++ [e'.base] ∧ ¬ dest.names ++ [e'.base] <+: e.path.names)
    (hplain : ∀ e ∈ items, ∀ d, fs.root.getAt (dest.names ++ [e.base]) = some d → d.plainTree = true)
    (hlen : dest.names.length + 1 + walkFuel < 256)
    (q : List Name) (hq : ∀ e ∈ items, ¬ dest.names ++ [e.base] <+: q) :
    obsAt (execOps fs c (multiOps fs c dest items)).fs.root q = obsAt fs.root q := by
  obtain ⟨hops, hspec, hinv⟩ := multi_frame_setup fs c dest items fuel hd hn hwf hdd hfuel hsrc hnd hun hplain hlen
  rw [hops]
  exact (FsInv.execOps hspec c _ (fun _ h => h) fs hinv).frame q hq

end Xcp
