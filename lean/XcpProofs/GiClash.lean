import XcpProofs.Clash
import XcpProofs.ClashConc
import XcpProofs.GiOverlay
import XcpProofs.GiClashLemmas
/-! # `--gitignore`, a destination that CLASHES with the pruned source tree: the run exits non-zero

`gitignore_overlay` decides the destinations that are `Compatible` with the PRUNED source tree.  This file decides the
rest, for destinations made of directories and regular files (`Node.plainTree`), as `Clash`/`ClashConc` do without
patterns: when such a destination is not compatible with `Node.prune ps [] srcNode` the sequential run does not end
with exit status ok (`gitignore_clash_fails`), and no run of the concurrent model can be complete without having failed
(`gitignore_clash_fails_every_interleaving`).  Together with `gitignore_overlay`: exit 0 implies that the destination
is the overlay with the pruned tree, no compatibility assumed (`gitignore_ok_implies_overlaid`).

Only clashes with the PRUNED tree count: a destination entry that clashes with a source entry the patterns EXCLUDE
does not make the run fail (the hypothesis is about `Node.prune ps [] srcNode`; `gitignore_overlay_keeps_excluded_names`
is the positive side: such an entry is left as it is). -/
namespace Xcp

open L0

theorem gitignore_clash_fails (fs : Fs) (c : Cfg) (hd : c.dereference = false) (hn : c.noClobber = false)
    (ps : List Gi.Pattern)
    (src tb : RPath) (srcNode dstNode : Node) (fuel : Nat)
    (hwf : FsEq fs fs) (hroot : fs.root.isDir = true)
    (hsrc : PlainTarget fs src) (hsn : fs.root.getAt src.names = some srcNode)
    (hcop : srcNode.Copyable fuel)
    (htb : PlainTarget fs tb) (hne : tb.names ≠ [])
    (hdst : fs.root.getAt tb.names = some dstNode) (hplain : dstNode.plainTree = true)
    (hclash : ¬ Compatible (some dstNode) (Node.prune ps [] srcNode))
    (hpar : ∃ es, fs.root.getAt tb.names.dropLast = some (.dir es))
    (hun1 : ¬ src.names <+: tb.names) (hun2 : ¬ tb.names <+: src.names)
    (hlen : src.names.length + fuel < 200 ∧ tb.names.length + fuel < 200) :
    (execOps fs c (walkEntry fs c (some ps) src tb (fuel + 1) [] [])).exit = .err := by
  have _ := hroot
  have _ := hpar
  have hsrcE := plainTarget_eq fs src hsrc
  have htbE := plainTarget_eq fs tb htb
  have hnl : srcNode.isLink = false := by
    cases srcNode with
    | link t => exact absurd hsn (hsrc.2.2.2 src.names (List.prefix_refl _) t)
    | _ => rfl
  have hshape := walk_shape_gi fs c ps hd src.names tb.names (.inl hn) fuel srcNode hcop [] []
    (by simpa using hsn) (fun h => by rw [hnl] at h; cases h) (by simp only [List.length_nil]; omega) (.inl rfl)
  rw [← hsrcE, ← htbE] at hshape
  simp only [List.append_nil] at hshape
  have hexec := exec_clash_sub c hn fuel _ (copyable_prune ps fuel srcNode hcop []) fs src.names tb.names dstNode []
    (by
      intro rel x hx hxd
      rw [Node.getAt_append, hsn]
      exact getAt_prune_leaf ps rel fuel srcNode [] x hcop hx hxd)
    hdst hne
    (by
      intro q es hq
      apply hwf.2.1 (tb.names ++ q) es
      rw [Node.getAt_append, hdst]
      exact hq)
    (fun q y hq => plainTree_getAt q dstNode y hplain hq)
    hclash hun1 hun2 (by omega) (by omega)
  rw [List.append_nil] at hexec
  rw [hshape]
  exact hexec

/-- with `--gitignore`, for every destination of directories and regular files, no compatibility assumed: exit status ok
IMPLIES that the final file system is the initial one with the overlay of the PRUNED source tree at the target -/
theorem gitignore_ok_implies_overlaid (fs : Fs) (c : Cfg) (hd : c.dereference = false) (hn : c.noClobber = false)
    (ps : List Gi.Pattern)
    (src tb : RPath) (srcNode : Node) (fuel : Nat)
    (hwf : FsEq fs fs) (hroot : fs.root.isDir = true)
    (hsrc : PlainTarget fs src) (hsn : fs.root.getAt src.names = some srcNode)
    (hcop : srcNode.Copyable fuel)
    (htb : PlainTarget fs tb) (hne : tb.names ≠ [])
    (hplain : ∀ d, fs.root.getAt tb.names = some d → d.plainTree = true)
    (hpar : ∃ es, fs.root.getAt tb.names.dropLast = some (.dir es))
    (hun1 : ¬ src.names <+: tb.names) (hun2 : ¬ tb.names <+: src.names)
    (hlen : src.names.length + fuel < 200 ∧ tb.names.length + fuel < 200)
    (fs' : Fs) (hok : execOps fs c (walkEntry fs c (some ps) src tb (fuel + 1) [] []) = ⟨.ok, fs'⟩) :
    FsEq fs' { fs with
      root := fs.root.setAt tb.names (Node.overlay (fs.root.getAt tb.names) (Node.prune ps [] srcNode)) } := by
  rcases Decidable.em (Compatible (fs.root.getAt tb.names) (Node.prune ps [] srcNode)) with hcompat | hclash
  · obtain ⟨fs'', hrun, heq⟩ := gitignore_overlay fs c hd hn ps src tb srcNode fuel hwf hroot hsrc hsn hcop htb hne
      hcompat hpar hun1 hun2 hlen
    rw [hok] at hrun
    injection hrun with _ hfs
    rw [hfs]
    exact heq
  · cases hdst : fs.root.getAt tb.names with
    | none => rw [hdst] at hclash; exact absurd (compatible_none _) hclash
    | some dstNode =>
      rw [hdst] at hclash
      have hf := gitignore_clash_fails fs c hd hn ps src tb srcNode dstNode fuel hwf hroot hsrc hsn hcop htb hne hdst
        (hplain dstNode hdst) hclash hpar hun1 hun2 hlen
      rw [hok] at hf
      cases hf

/-- … and under every interleaving: no run of the concurrent model over the walk's operations can be complete
without having failed -/
theorem gitignore_clash_fails_every_interleaving (fs : Fs) (c : Cfg) (hd : c.dereference = false)
    (hn : c.noClobber = false) (ps : List Gi.Pattern)
    (src tb : RPath) (srcNode dstNode : Node) (fuel : Nat)
    (hwf : FsEq fs fs) (hroot : fs.root.isDir = true)
    (hsrc : PlainTarget fs src) (hsn : fs.root.getAt src.names = some srcNode)
    (hcop : srcNode.Copyable fuel)
    (htb : PlainTarget fs tb) (hne : tb.names ≠ [])
    (hdst : fs.root.getAt tb.names = some dstNode) (hplain : dstNode.plainTree = true)
    (hclash : ¬ Compatible (some dstNode) (Node.prune ps [] srcNode))
    (hpar : ∃ es, fs.root.getAt tb.names.dropLast = some (.dir es))
    (hun1 : ¬ src.names <+: tb.names) (hun2 : ¬ tb.names <+: src.names)
    (hlen : src.names.length + fuel < 200 ∧ tb.names.length + fuel < 200)
    (ls : List Label) (s : St)
    (hrun : run c (init fs (walkEntry fs c (some ps) src tb (fuel + 1) [] [])) ls = some s)
    (hfin : final s = true) : s.failed = true := by
  have _ := hroot
  have _ := hpar
  have hsrcE := plainTarget_eq fs src hsrc
  have htbE := plainTarget_eq fs tb htb
  have hnl : srcNode.isLink = false := by
    cases srcNode with
    | link t => exact absurd hsn (hsrc.2.2.2 src.names (List.prefix_refl _) t)
    | _ => rfl
  have hshape := walk_shape_gi fs c ps hd src.names tb.names (.inl hn) fuel srcNode hcop [] []
    (by simpa using hsn) (fun h => by rw [hnl] at h; cases h) (by simp only [List.length_nil]; omega) (.inl rfl)
  rw [← hsrcE, ← htbE] at hshape
  simp only [List.append_nil] at hshape
  rw [hshape] at hrun
  have hcopP := copyable_prune ps fuel srcNode hcop []
  have hspec : OpsSpec (Node.prune ps [] srcNode) src.names tb.names fuel
      (opsOf (Node.prune ps [] srcNode) src.names tb.names) :=
    ⟨mem_opsOf fuel _ hcopP _ _, hun1, hun2, hne, by omega, by omega⟩
  have hwd : dstNode.WF := by
    intro q es hq
    apply hwf.2.1 (tb.names ++ q) es
    rw [Node.getAt_append, hdst]
    exact hq
  have hpl : PlainBelow dstNode := fun q y hq => plainTree_getAt q dstNode y hplain hq
  obtain ⟨rel0, m0, y, hl0, hg0, hy, hdc⟩ := clash_position fuel _ hcopP dstNode hwd hpl hclash
  have hinit : CInv (opsOf (Node.prune ps [] srcNode) src.names tb.names)
      (headOp m0 (src.names ++ rel0) (tb.names ++ rel0))
      (tb.names ++ rel0) y.obs (init fs (opsOf (Node.prune ps [] srcNode) src.names tb.names)) := by
    refine ⟨hwf, plains_init_sub hspec fs dstNode ?_ hdst htb.2.2.2 hpl, ?_, ?_, .inr ?_⟩
    · intro rel x hx hxd
      rw [Node.getAt_append, hsn]
      exact getAt_prune_leaf ps rel fuel srcNode [] x hcop hx hxd
    · show obsAt fs.root (tb.names ++ rel0) = some y.obs
      simp [obsAt, Node.getAt_append, hdst, hy]
    · intro x hx
      simpa [init] using hx
    · show headOp m0 (src.names ++ rel0) (tb.names ++ rel0) ∈
        [] ++ opsOf (Node.prune ps [] srcNode) src.names tb.names
      rw [List.nil_append]
      exact headOp_mem_opsOf rel0 _ m0 src.names tb.names hg0
  exact (CInv.run hspec c hg0 hl0 hdc ls _ s hinit hrun).failed_of_final hfin

end Xcp
