import XcpProofs.MultiSource
/-! # Lemmas about `validate` (main's up-front checks) on plain paths

`Path == Path` on plain paths, the split of the argument list, `checkSource` for a source copied INTO an existing
directory (target `DEST/basename`) and for a source copied TO a new name (target `DEST` itself). -/
namespace Xcp

/-! ## Paths -/

theorem map_name_injective {a b : List Name} (h : a.map Comp.name = b.map Comp.name) : a = b := by
  induction a generalizing b with
  | nil => cases b <;> simp at h ⊢
  | cons x r ih =>
    cases b with
    | nil => simp at h
    | cons y s =>
      simp only [List.map_cons, List.cons.injEq, Comp.name.injEq] at h
      rw [h.1, ih h.2]

theorem same_plain_false {sn tn : List Name} (h : sn ≠ tn) : (plainPath sn).same (plainPath tn) = false := by
  have : ¬ sn.map Comp.name = tn.map Comp.name := fun e => h (map_name_injective e)
  simp [RPath.same, plainPath, this]

theorem splitLastPath_append (l : List RPath) (d : RPath) : splitLastPath (l ++ [d]) = some (d, l) := by
  induction l with
  | nil => rfl
  | cons x r ih =>
    cases hr : r ++ [d] with
    | nil => simp at hr
    | cons y s =>
      simp only [List.cons_append, hr, splitLastPath]
      rw [← hr, ih]

theorem lastComp_abs (p : RPath) (h : p.abs = true) : ∃ sd, p.lastComp = some sd := by
  unfold RPath.lastComp
  cases lastOf p.comps with
  | some c => exact ⟨_, rfl⟩
  | none => simp [h]

/-! ## Existence -/

theorem exists_plain (g : Fs) (ns : List Name) (x : Node) (hlen : ns.length < 256)
    (hx : g.root.getAt ns = some x) (hl : x.isLink = false) : g.exists (plainPath ns) = true := by
  simp [Fs.exists, stat_plain g ns x hlen hx (noLinkUpto_of_getAt hx hl)]

theorem isDir_plain (g : Fs) (ns : List Name) (x : Node) (hlen : ns.length < 256)
    (hx : g.root.getAt ns = some x) (hl : x.isLink = false) : g.isDir (plainPath ns) = x.isDir := by
  simp [Fs.isDir, stat_plain g ns x hlen hx (noLinkUpto_of_getAt hx hl)]

theorem exists_false_of_absent (g : Fs) (par : List Name) (nm : Name) (es : Entries) (hlen : par.length < 256)
    (hp : g.root.getAt par = some (.dir es)) (hn : g.root.getAt (par ++ [nm]) = none) :
    g.exists (plainPath (par ++ [nm])) = false := by
  have hr := resolve_plain_missing g par nm true es hlen hp hn
  simp [Fs.exists, stat_none_of_missing g _ par nm hr]

theorem compatible_some {x n : Node} (h : Compatible (some x) n) :
    x.isLink = false ∧ (n.isDir = true → x.isDir = true) := by
  cases x <;> cases n <;> simp [Compatible, Node.compatible, Node.isLink, Node.isDir] at h ⊢

/-! ## `checkSource` -/

theorem checkSource_ok (fs : Fs) (o : Opts) (dest s tb : RPath) (hex : fs.exists s = true)
    (hrec : o.cfg.recursive = true) (hsd : s.same dest = false)
    (htb : targetBase fs o.cfg dest s = some tb) (hst : s.same tb = false)
    (htail : fs.exists tb = true → fs.sameFile s tb = false ∧ (fs.isDir s = true → fs.isDir tb = true)) :
    checkSource fs o dest s = .ok () := by
  simp only [checkSource, hex, hrec, hsd, htb, hst]
  cases hxt : fs.exists tb with
  | false => simp
  | true =>
    obtain ⟨h1, h2⟩ := htail hxt
    cases hds : fs.isDir s with
    | false => simp [h1]
    | true => simp [h1, h2 hds]

theorem checkSources_ok (fs : Fs) (o : Opts) (dest : RPath) : ∀ (l : List RPath),
    (∀ s ∈ l, checkSource fs o dest s = .ok ()) → checkSources fs o dest l = .ok () := by
  intro l
  induction l with
  | nil => intro _; rfl
  | cons s r ih =>
    intro h
    simp only [checkSources, h s List.mem_cons_self]
    exact ih (fun x hx => h x (List.mem_cons_of_mem _ hx))

/-- a source copied INTO the existing directory `dn`: the target is `dn/b`; the checks pass when the source is
unrelated to it and what is there is compatible -/
theorem checkSource_into_dir (fs : Fs) (o : Opts) (hrec : o.cfg.recursive = true) (hnt : o.cfg.noTargetDir = false)
    (dn sn : List Name) (b : Name) (n : Node) (es : Entries)
    (hd : fs.root.getAt dn = some (.dir es)) (hsn : fs.root.getAt sn = some n) (hnl : n.isLink = false)
    (hb : (plainPath sn).fileName = some b)
    (hun1 : ¬ sn <+: dn ++ [b]) (hcomp : Compatible (fs.root.getAt (dn ++ [b])) n)
    (hl1 : sn.length < 256) (hl2 : dn.length + 1 < 256) :
    checkSource fs o (plainPath dn) (plainPath sn) = .ok () := by
  have hne1 : sn ≠ dn := fun e => hun1 (e ▸ List.prefix_append _ _)
  have hne2 : sn ≠ dn ++ [b] := fun e => hun1 (e ▸ List.prefix_refl _)
  apply checkSource_ok fs o _ _ (plainPath (dn ++ [b])) (exists_plain fs sn n hl1 hsn hnl) hrec
    (same_plain_false hne1) (targetBase_dir fs o.cfg hnt dn es _ b hb (by omega) hd) (same_plain_false hne2)
  intro hxt
  cases hx : fs.root.getAt (dn ++ [b]) with
  | none =>
    rw [exists_false_of_absent fs dn b es (by omega) hd hx] at hxt
    cases hxt
  | some x =>
    rw [hx] at hcomp
    obtain ⟨hxl, hxd⟩ := compatible_some hcomp
    have hlt : (dn ++ [b]).length < 256 := by simpa using hl2
    constructor
    · simp [Fs.sameFile, stat_plain fs sn n hl1 hsn (noLinkUpto_of_getAt hsn hnl),
        stat_plain fs _ x hlt hx (noLinkUpto_of_getAt hx hxl), hne2]
    · rw [isDir_plain fs sn n hl1 hsn hnl, isDir_plain fs _ x hlt hx hxl]
      exact hxd

theorem targetBase_absent (fs : Fs) (c : Cfg) (dest s : RPath) (hs : s.abs = true)
    (hx : fs.exists dest = false) : targetBase fs c dest s = some dest := by
  obtain ⟨sd, hsd⟩ := lastComp_abs s hs
  simp [targetBase, hsd, hx]

/-- a source copied TO a new name below an existing directory: the target is the destination itself -/
theorem checkSource_to_new (fs : Fs) (o : Opts) (hrec : o.cfg.recursive = true)
    (par sn : List Name) (nm : Name) (n : Node) (es : Entries)
    (hp : fs.root.getAt par = some (.dir es)) (habs : fs.root.getAt (par ++ [nm]) = none)
    (hsn : fs.root.getAt sn = some n) (hnl : n.isLink = false)
    (hun1 : ¬ sn <+: par ++ [nm]) (hl1 : sn.length < 256) (hl2 : par.length < 256) :
    checkSource fs o (plainPath (par ++ [nm])) (plainPath sn) = .ok () := by
  have hne : sn ≠ par ++ [nm] := fun e => hun1 (e ▸ List.prefix_refl _)
  have hx := exists_false_of_absent fs par nm es hl2 hp habs
  apply checkSource_ok fs o _ _ (plainPath (par ++ [nm])) (exists_plain fs sn n hl1 hsn hnl) hrec
    (same_plain_false hne) (targetBase_absent fs o.cfg _ _ rfl hx) (same_plain_false hne)
  intro hxt
  rw [hx] at hxt
  cases hxt

end Xcp
