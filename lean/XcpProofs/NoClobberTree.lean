import XcpProofs.MirrorConc
import XcpProofs.FsFrame
import XcpProofs.NoClobberLemmas
/-! # `--no-clobber` at the level of a whole source tree: the `FreshRun` hypothesis of C08 DISCHARGED

With no-clobber the walker probes every entry's target (`lstat`) when it visits the entry.  For a source tree copied to a
plain target: if the target exists nothing but `.fail` (or nothing) is emitted (`C08.collision_emits_no_operation`);
if it is absent, every operation of the walk is executed at a moment when its own target does not exist — sequentially
(`FreshRun`) and in EVERY interleaving of the concurrent model `L0` — so nothing that existed before is altered. -/
namespace Xcp

open L0

/-- sequential: the operations the walker emits under no-clobber for a tree copied to an absent plain target form a
`FreshRun` (no hypothesis about the probe "still holding" is needed) -/
theorem noclobber_walk_is_fresh_run (fs : Fs) (c : Cfg) (hd : c.dereference = false) (hn : c.noClobber = true)
    (src tb : RPath) (srcNode : Node) (fuel : Nat)
    (hwf : FsEq fs fs) (hroot : fs.root.isDir = true)
    (hsrc : PlainTarget fs src) (hsn : fs.root.getAt src.names = some srcNode)
    (hcop : srcNode.Copyable fuel)
    (htb : PlainTarget fs tb) (hne : tb.names ≠ []) (habs : fs.root.getAt tb.names = none)
    (hpar : ∃ es, fs.root.getAt tb.names.dropLast = some (.dir es))
    (hun1 : ¬ src.names <+: tb.names) (hun2 : ¬ tb.names <+: src.names)
    (hlen : src.names.length + fuel < 200 ∧ tb.names.length + fuel < 200) :
    FreshRun fs c (walkEntry fs c none src tb (fuel + 1) [] []) := by
  have _ := hn
  have _ := hwf
  have _ := hroot
  apply freshRun_of_reach
  intro ls s hr
  exact (fresh_reach fs c hd src tb srcNode fuel hsrc hsn hcop htb hne habs hpar hun1 hun2 hlen ls s hr).2

/-- … hence the run alters no entry that existed before, anywhere in the file system -/
theorem noclobber_tree_preserves (fs : Fs) (c : Cfg) (hd : c.dereference = false) (hn : c.noClobber = true)
    (src tb : RPath) (srcNode : Node) (fuel : Nat)
    (hwf : FsEq fs fs) (hroot : fs.root.isDir = true)
    (hsrc : PlainTarget fs src) (hsn : fs.root.getAt src.names = some srcNode)
    (hcop : srcNode.Copyable fuel)
    (htb : PlainTarget fs tb) (hne : tb.names ≠ []) (habs : fs.root.getAt tb.names = none)
    (hpar : ∃ es, fs.root.getAt tb.names.dropLast = some (.dir es))
    (hun1 : ¬ src.names <+: tb.names) (hun2 : ¬ tb.names <+: src.names)
    (hlen : src.names.length + fuel < 200 ∧ tb.names.length + fuel < 200) :
    Preserved fs.root (execOps fs c (walkEntry fs c none src tb (fuel + 1) [] [])).fs.root := by
  exact freshRun_preserved c _ fs
    (noclobber_walk_is_fresh_run fs c hd hn src tb srcNode fuel hwf hroot hsrc hsn hcop htb hne habs hpar hun1 hun2
      hlen)

/-- concurrent: in EVERY reachable state of the concurrent model, whichever operation completes next — and whichever
directory the walker creates next — is executed on a target that does not exist at that moment, and every entry that
existed initially is still kept -/
theorem noclobber_tree_any_interleaving (fs : Fs) (c : Cfg) (hd : c.dereference = false) (hn : c.noClobber = true)
    (src tb : RPath) (srcNode : Node) (fuel : Nat)
    (hwf : FsEq fs fs) (hroot : fs.root.isDir = true)
    (hsrc : PlainTarget fs src) (hsn : fs.root.getAt src.names = some srcNode)
    (hcop : srcNode.Copyable fuel)
    (htb : PlainTarget fs tb) (hne : tb.names ≠ []) (habs : fs.root.getAt tb.names = none)
    (hpar : ∃ es, fs.root.getAt tb.names.dropLast = some (.dir es))
    (hun1 : ¬ src.names <+: tb.names) (hun2 : ¬ tb.names <+: src.names)
    (hlen : src.names.length + fuel < 200 ∧ tb.names.length + fuel < 200)
    (ls : List Label) (s : St) (hrun : run c (init fs (walkEntry fs c none src tb (fuel + 1) [] [])) ls = some s) :
    Preserved fs.root s.fs.root ∧
    (∀ op ∈ s.queue, ∀ t, opTarget op = some t → s.fs.lexists t = false) ∧
    (∀ op r, s.todo = op :: r → ∀ t, opTarget op = some t → s.fs.lexists t = false) := by
  have _ := hn
  have _ := hwf
  have _ := hroot
  exact fresh_reach fs c hd src tb srcNode fuel hsrc hsn hcop htb hne habs hpar hun1 hun2 hlen ls s hrun

end Xcp
