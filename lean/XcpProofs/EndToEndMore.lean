import XcpProofs.EndToEndClash
import XcpProofs.MultiDerefRun
import XcpProofs.EndToEndMoreLemmas
/-! # END TO END, more options: `--no-clobber`, and `--dereference`

For the whole program model `L1run fs o texts` (main's validation, then `runSources`) and the invocation
`xcp -r s1 … sn DEST` / `-t DEST s1 … sn` with `DEST` an existing directory, no glob expansion.

* `--no-clobber` (`whole_invocation_noclobber_preserves`, `…_collision_exits_nonzero`): whatever the exit —
  validation rejected, a collision, success — every entry that existed initially is kept (`Preserved`); and if some
  target `DEST/bi` exists, the exit status is non-zero.  These are about `runSources`, which probes each target when
  it gets to the source (the `multiOps` theorems of `MultiCollision` probe in the initial state).
* `--dereference` (`whole_invocation_dereferenced`): validation accepts and the run ends with every target overlaid
  with the tree seen from its source through the links, under the hypotheses of `multi_deref_run_of_away` plus what
  main's checks on the SPELLED paths need (`hspell`: no source is spelled like `DEST` or like its own target). -/
namespace Xcp

/-! ## `--no-clobber` -/

/-- `--no-clobber`, the whole invocation, EVERY exit: every entry that existed initially is kept — nothing is
modified, replaced, truncated, renamed or removed; directories may have gained entries -/
theorem whole_invocation_noclobber_preserves (fs : Fs) (o : Opts) (texts : GiTexts) (dest : RPath)
    (items : List CopySrc) (fuel : Nat)
    (hd : o.cfg.dereference = false) (hn : o.cfg.noClobber = true) (hg : o.cfg.gitignore = false)
    (hnt : o.cfg.noTargetDir = false) (hglob : o.glob = false)
    (hpaths : (o.targetDir = none ∧ o.paths = items.map (·.path) ++ [dest]) ∨
      (o.targetDir = some dest ∧ o.paths = items.map (·.path)))
    (hwf : FsEq fs fs)
    (hdest : PlainTarget fs dest) (hdd : ∃ es, fs.root.getAt dest.names = some (.dir es))
    (hfuel : fuel < walkFuel)
    (hsrc : ∀ e ∈ items, PlainTarget fs e.path ∧ e.path.fileName = some e.base ∧
      fs.root.getAt e.path.names = some e.node ∧ e.node.Copyable fuel ∧ e.path.names.length + walkFuel < 256)
    (hnd : (items.map (·.base)).Nodup)
    (hun : ∀ e ∈ items, ∀ e' ∈ items,
      ¬ e.path.names <+: dest.names ++ [e'.base] ∧ ¬ dest.names ++ [e'.base] <+: e.path.names)
    (hlen : dest.names.length + 1 + walkFuel < 256) :
    Preserved fs.root (L1run fs o texts).fs.root ∧
    ((∃ e ∈ items, fs.root.getAt (dest.names ++ [e.base]) ≠ none) → (L1run fs o texts).exit = .err) := by
  rcases whole_invocation_rejected_or_started fs o texts dest items hglob hpaths with ⟨_, hL⟩ | hL
  · rw [hL]
    obtain ⟨_, hcl⟩ := multi_mspec fs dest items fuel hfuel hsrc hnd hun hlen
    have hw : walkFuel = 64 := rfl
    rw [hw] at hlen
    have hde := plainTarget_eq fs dest hdest
    have h := runSources_noclobber_inv o.cfg texts hd hn hg hnt fs.root dest.names (by omega) items fs hwf hdd hnd
      (by
        intro e he
        obtain ⟨hp, hfn, hsn, _, _⟩ := hsrc e he
        refine ⟨plainTarget_eq fs e.path hp, hfn, hsn, ?_, (hcl e he).1, (hcl e he).2⟩
        cases hnode : e.node with
        | link t => exact absurd (hnode ▸ hsn) (hp.2.2.2 _ (List.prefix_refl _) t)
        | _ => rfl)
      hun (fun _ _ => rfl)
    rw [← hde] at h
    exact h
  · rw [hL]
    exact ⟨Preserved.refl _, fun _ => rfl⟩

/-- `--no-clobber`: if some target exists, the whole invocation exits non-zero (and, by the previous theorem, has
altered nothing that existed) -/
theorem whole_invocation_noclobber_collision_exits_nonzero (fs : Fs) (o : Opts) (texts : GiTexts) (dest : RPath)
    (items : List CopySrc) (fuel : Nat)
    (hd : o.cfg.dereference = false) (hn : o.cfg.noClobber = true) (hg : o.cfg.gitignore = false)
    (hnt : o.cfg.noTargetDir = false) (hglob : o.glob = false)
    (hpaths : (o.targetDir = none ∧ o.paths = items.map (·.path) ++ [dest]) ∨
      (o.targetDir = some dest ∧ o.paths = items.map (·.path)))
    (hwf : FsEq fs fs)
    (hdest : PlainTarget fs dest) (hdd : ∃ es, fs.root.getAt dest.names = some (.dir es))
    (hfuel : fuel < walkFuel)
    (hsrc : ∀ e ∈ items, PlainTarget fs e.path ∧ e.path.fileName = some e.base ∧
      fs.root.getAt e.path.names = some e.node ∧ e.node.Copyable fuel ∧ e.path.names.length + walkFuel < 256)
    (hnd : (items.map (·.base)).Nodup)
    (hun : ∀ e ∈ items, ∀ e' ∈ items,
      ¬ e.path.names <+: dest.names ++ [e'.base] ∧ ¬ dest.names ++ [e'.base] <+: e.path.names)
    (hcol : ∃ e ∈ items, fs.root.getAt (dest.names ++ [e.base]) ≠ none)
    (hlen : dest.names.length + 1 + walkFuel < 256) :
    (L1run fs o texts).exit = .err :=
  (whole_invocation_noclobber_preserves fs o texts dest items fuel hd hn hg hnt hglob hpaths hwf hdest hdd hfuel hsrc
    hnd hun hlen).2 hcol

/-! ## `--dereference` -/

/-- main's per-source checks under `-L`, for a source copied INTO the existing directory `dn`: they look at the
spelled path (`same`) and at what it resolves to through links (`exists`, `isDir`, `sameFile`) -/
theorem checkSource_into_dir_deref (fs : Fs) (o : Opts) (hrec : o.cfg.recursive = true)
    (hnt : o.cfg.noTargetDir = false)
    (dn sn cp : List Name) (b : Name) (node : Node) (es : Entries)
    (hd : fs.root.getAt dn = some (.dir es)) (hst : fs.stat (plainPath sn) = some (cp, node))
    (hb : (plainPath sn).fileName = some b)
    (hne1 : sn ≠ dn) (hne2 : sn ≠ dn ++ [b]) (hcp : cp ≠ dn ++ [b])
    (hxl : ∀ x, fs.root.getAt (dn ++ [b]) = some x → x.isLink = false ∧ (node.isDir = true → x.isDir = true))
    (hl2 : dn.length + 1 < 256) :
    checkSource fs o (plainPath dn) (plainPath sn) = .ok () := by
  apply checkSource_ok fs o _ _ (plainPath (dn ++ [b])) (by simp [Fs.exists, hst]) hrec
    (same_plain_false hne1) (targetBase_dir fs o.cfg hnt dn es _ b hb (by omega) hd) (same_plain_false hne2)
  intro hxt
  cases hx : fs.root.getAt (dn ++ [b]) with
  | none =>
    rw [exists_false_of_absent fs dn b es (by omega) hd hx] at hxt
    cases hxt
  | some x =>
    obtain ⟨hxlk, hxd⟩ := hxl x hx
    have hlt : (dn ++ [b]).length < 256 := by simpa using hl2
    have hstt := stat_plain fs _ x hlt hx (noLinkUpto_of_getAt hx hxlk)
    constructor
    · simp [Fs.sameFile, hst, hstt, hcp]
    · intro hds
      have hnd : node.isDir = true := by simpa [Fs.isDir, hst] using hds
      simp [Fs.isDir, hstt, hxd hnd]

/-- one level of `derefAway`: the place the source resolves to is unrelated to every target -/
theorem derefAway_succ_cp {fs : Fs} {Ts : List (List Name)} {f : Nat} {path : List Name} {anc : List (List Name)}
    {lc cp : List Name} {ln node : Node} (hl : fs.lstat (plainPath path) = some (lc, ln))
    (hst : fs.stat (plainPath path) = some (cp, node)) (ha : derefAway fs Ts (f + 1) path anc = true) :
    unrelB Ts cp = true := by
  simp only [derefAway, hl, hst, Bool.and_eq_true] at ha
  exact ha.2.1.2

/-- END TO END with `--dereference`: validation accepts `xcp -rL s1 … sn DEST` and `L1run` ends with every target
overlaid with the tree seen from its source through the links -/
theorem whole_invocation_dereferenced (fs : Fs) (o : Opts) (texts : GiTexts) (dest : RPath) (items : List DerefSrc)
    (hd : o.cfg.dereference = true) (hn : o.cfg.noClobber = false) (hg : o.cfg.gitignore = false)
    (hnt : o.cfg.noTargetDir = false) (hrec : o.cfg.recursive = true) (hglob : o.glob = false)
    (hpaths : (o.targetDir = none ∧ o.paths = items.map (·.path) ++ [dest]) ∨
      (o.targetDir = some dest ∧ o.paths = items.map (·.path)))
    (hne : items ≠ [])
    (hwf : FsEq fs fs)
    (hdest : PlainTarget fs dest) (hdd : ∃ es, fs.root.getAt dest.names = some (.dir es))
    (hsrc : ∀ e ∈ items, AbsNames e.path ∧ e.path.fileName = some e.base ∧
      derefS fs walkFuel e.path.names [] = some e.s)
    (hspell : ∀ e ∈ items, e.path.names ≠ dest.names ∧ e.path.names ≠ dest.names ++ [e.base])
    (haw : ∀ e ∈ items, derefAway fs (targetsOf dest.names items) walkFuel e.path.names [] = true)
    (hnd : (items.map (·.base)).Nodup)
    (haway : ∀ e ∈ items, ∀ e' ∈ items, ReadsAway e.s (dest.names ++ [e'.base]))
    (hcomp : ∀ e ∈ items, Compatible (fs.root.getAt (dest.names ++ [e.base])) e.s.erase)
    (hlen : dest.names.length + 1 + walkFuel < 256) :
    validate fs o = .ok (items.map (·.path), dest) ∧
    ∃ fs', L1run fs o texts = ⟨.ok, fs'⟩ ∧
      FsEq fs' { fs with root := overlayAllD fs.root dest.names items fs.root } := by
  have hw : walkFuel = 63 + 1 := rfl
  have hde := plainTarget_eq fs dest hdest
  obtain ⟨es, hes⟩ := hdd
  have hdl : dest.names.length + 1 < 256 := by rw [hw] at hlen; omega
  have hisd : fs.isDir dest = true := by
    rw [hde, isDir_plain fs dest.names _ (by omega) hes rfl]
    rfl
  have hcs : checkSources fs o dest (items.map (·.path)) = .ok () := by
    apply checkSources_ok
    intro s hs
    obtain ⟨e, he, rfl⟩ := List.mem_map.1 hs
    obtain ⟨hp, hfn, hder⟩ := hsrc e he
    have hpe := absNames_eq hp
    have ha := haw e he
    rw [hw] at hder ha
    obtain ⟨lcp, lnode, cp, node, hl, hst, hcase⟩ := derefS_succ_some hder
    have hcpT := (unrelB_spec (derefAway_succ_cp hl hst ha)) (dest.names ++ [e.base])
      (List.mem_map.2 ⟨e, he, rfl⟩)
    have hb : (plainPath e.path.names).fileName = some e.base := by rw [← hpe]; exact hfn
    rw [hde, hpe]
    apply checkSource_into_dir_deref fs o hrec hnt dest.names e.path.names cp e.base node es hes hst hb
      (hspell e he).1 (hspell e he).2 (fun h => hcpT.1 (h ▸ List.prefix_refl _)) _ hdl
    intro x hx
    have hc := hcomp e he
    rw [hx] at hc
    obtain ⟨hxl, hxd⟩ := compatible_some hc
    refine ⟨hxl, fun hnd' => hxd ?_⟩
    rcases hcase with ⟨k, hnode, _⟩ | ⟨k, d, hnode, _, _⟩ | ⟨es', ss, _, _, _, hs'⟩
    · rw [hnode] at hnd'; cases hnd'
    · rw [hnode] at hnd'; cases hnd'
    · rw [hs']; rfl
  have hv : validate fs o = .ok (items.map (·.path), dest) := by
    have hex := expandSources_noglob fs o (items.map (·.path)) hglob
    have hne' : (items.map (·.path)).isEmpty = false := by
      cases items with
      | nil => exact absurd rfl hne
      | cons a r => rfl
    rcases hpaths with ⟨ht, hp⟩ | ⟨ht, hp⟩
    · simp [validate, hn, ht, hp, splitLastPath_append, hex, hne', hisd, hcs]
    · simp [validate, hn, ht, hp, hex, hne', hisd, hcs]
  refine ⟨hv, ?_⟩
  simp only [L1run, hv]
  exact multi_deref_run_of_away fs o.cfg texts dest items hd hn hg hnt hwf hdest ⟨es, hes⟩ hsrc haw hnd haway hcomp
    hlen

end Xcp
