import XcpProofs.EndToEnd
/-! # Tree-level frame (C03): sources and bystanders are not modified

Corollaries of `l1run_overlay` about the final state `fs'` of `L1run fs o texts` for `xcp -r s1 … sn DEST`.  An
observation `obsAt r q` is what is at the place `q`: nothing, a regular file with its content, a symbolic link with its
text, a special file with its kind and device, or "a directory" — WITHOUT the directory's entry names (`ONode.dir`
carries nothing).  So an ancestor of a target (`DEST` and the directories above it), which gains an entry, is
observed unchanged as well, and the strongest formulation is simply: every place that is not AT OR BELOW a target
`DEST/bi` is observed unchanged (`bystanders_untouched`); what the entries of `DEST` are is covered by applying this to
the places `DEST/m/…` (`dest_other_entries_untouched`: present or absent, and identical, as before, for every name `m`
that is not a source base name). -/
namespace Xcp

/-- the overlay fold changes observations at or below the targets only -/
theorem overlayAll_out (root0 : Node) (dn q : List Name) : ∀ (items : List CopySrc) (r : Node),
    (∀ e ∈ items, ¬ dn ++ [e.base] <+: q) → obsAt (overlayAll root0 dn items r) q = obsAt r q := by
  intro items
  induction items with
  | nil => intro r _; rfl
  | cons e rest ih =>
    intro r h
    simp only [overlayAll]
    rw [ih _ (fun e' he' => h e' (List.mem_cons_of_mem _ he')), setAt_out _ _ _ _ (h e List.mem_cons_self)]

/-- the final state of the run is unique, so the conclusion of `l1run_overlay` holds of EVERY successful outcome -/
theorem l1run_final (fs : Fs) (o : Opts) (texts : GiTexts) (dest : RPath) (items : List CopySrc) (fuel : Nat)
    (hd : o.cfg.dereference = false) (hn : o.cfg.noClobber = false) (hg : o.cfg.gitignore = false)
    (hnt : o.cfg.noTargetDir = false)
    (hrec : o.cfg.recursive = true) (hglob : o.glob = false)
    (hpaths : (o.targetDir = none ∧ o.paths = items.map (·.path) ++ [dest]) ∨
      (o.targetDir = some dest ∧ o.paths = items.map (·.path)))
    (hne : items ≠ [])
    (hwf : FsEq fs fs)
    (hdest : PlainTarget fs dest) (hdd : ∃ es, fs.root.getAt dest.names = some (.dir es))
    (hfuel : fuel < walkFuel)
    (hsrc : ∀ e ∈ items, PlainTarget fs e.path ∧ e.path.fileName = some e.base ∧
      fs.root.getAt e.path.names = some e.node ∧ e.node.Copyable fuel ∧ e.path.names.length + walkFuel < 256)
    (hnd : (items.map (·.base)).Nodup)
    (hun : ∀ e ∈ items, ∀ e' ∈ items,
      ¬ e.path.names <+: dest.names ++ [e'.base] ∧ ¬ dest.names ++ [e'.base] <+: e.path.names)
    (hcomp : ∀ e ∈ items, Compatible (fs.root.getAt (dest.names ++ [e.base])) e.node)
    (hlen : dest.names.length + 1 + walkFuel < 256)
    (fs' : Fs) (hrun : L1run fs o texts = ⟨.ok, fs'⟩) :
    FsEq fs' { fs with root := overlayAll fs.root dest.names items fs.root } := by
  obtain ⟨fs'', h, heq⟩ := l1run_overlay fs o texts dest items fuel hd hn hg hnt hrec hglob hpaths hne hwf hdest hdd hfuel hsrc hnd hun hcomp hlen
  rw [hrun] at h
  simp only [Outcome.mk.injEq, true_and] at h
  rw [h]
  exact heq

/-- … and there is one -/
theorem l1run_succeeds (fs : Fs) (o : Opts) (texts : GiTexts) (dest : RPath) (items : List CopySrc) (fuel : Nat)
    (hd : o.cfg.dereference = false) (hn : o.cfg.noClobber = false) (hg : o.cfg.gitignore = false)
    (hnt : o.cfg.noTargetDir = false)
    (hrec : o.cfg.recursive = true) (hglob : o.glob = false)
    (hpaths : (o.targetDir = none ∧ o.paths = items.map (·.path) ++ [dest]) ∨
      (o.targetDir = some dest ∧ o.paths = items.map (·.path)))
    (hne : items ≠ [])
    (hwf : FsEq fs fs)
    (hdest : PlainTarget fs dest) (hdd : ∃ es, fs.root.getAt dest.names = some (.dir es))
    (hfuel : fuel < walkFuel)
    (hsrc : ∀ e ∈ items, PlainTarget fs e.path ∧ e.path.fileName = some e.base ∧
      fs.root.getAt e.path.names = some e.node ∧ e.node.Copyable fuel ∧ e.path.names.length + walkFuel < 256)
    (hnd : (items.map (·.base)).Nodup)
    (hun : ∀ e ∈ items, ∀ e' ∈ items,
      ¬ e.path.names <+: dest.names ++ [e'.base] ∧ ¬ dest.names ++ [e'.base] <+: e.path.names)
    (hcomp : ∀ e ∈ items, Compatible (fs.root.getAt (dest.names ++ [e.base])) e.node)
    (hlen : dest.names.length + 1 + walkFuel < 256)
    : ∃ fs', L1run fs o texts = ⟨.ok, fs'⟩ := by
  obtain ⟨fs'', h, _⟩ := l1run_overlay fs o texts dest items fuel hd hn hg hnt hrec hglob hpaths hne hwf hdest hdd hfuel hsrc hnd hun hcomp hlen
  exact ⟨fs'', h⟩

/-- (1) BYSTANDERS: every place that is not at or below a target `dest/bi` is observed unchanged — this includes
`dest` itself and its ancestors (still directories), every other entry of `dest`, and everything outside `dest` -/
theorem bystanders_untouched (fs : Fs) (o : Opts) (texts : GiTexts) (dest : RPath) (items : List CopySrc) (fuel : Nat)
    (hd : o.cfg.dereference = false) (hn : o.cfg.noClobber = false) (hg : o.cfg.gitignore = false)
    (hnt : o.cfg.noTargetDir = false)
    (hrec : o.cfg.recursive = true) (hglob : o.glob = false)
    (hpaths : (o.targetDir = none ∧ o.paths = items.map (·.path) ++ [dest]) ∨
      (o.targetDir = some dest ∧ o.paths = items.map (·.path)))
    (hne : items ≠ [])
    (hwf : FsEq fs fs)
    (hdest : PlainTarget fs dest) (hdd : ∃ es, fs.root.getAt dest.names = some (.dir es))
    (hfuel : fuel < walkFuel)
    (hsrc : ∀ e ∈ items, PlainTarget fs e.path ∧ e.path.fileName = some e.base ∧
      fs.root.getAt e.path.names = some e.node ∧ e.node.Copyable fuel ∧ e.path.names.length + walkFuel < 256)
    (hnd : (items.map (·.base)).Nodup)
    (hun : ∀ e ∈ items, ∀ e' ∈ items,
      ¬ e.path.names <+: dest.names ++ [e'.base] ∧ ¬ dest.names ++ [e'.base] <+: e.path.names)
    (hcomp : ∀ e ∈ items, Compatible (fs.root.getAt (dest.names ++ [e.base])) e.node)
    (hlen : dest.names.length + 1 + walkFuel < 256)
    (fs' : Fs) (hrun : L1run fs o texts = ⟨.ok, fs'⟩)
    (q : List Name) (hq : ∀ e ∈ items, ¬ dest.names ++ [e.base] <+: q) :
    obsAt fs'.root q = obsAt fs.root q := by
  have heq := l1run_final fs o texts dest items fuel hd hn hg hnt hrec hglob hpaths hne hwf hdest hdd hfuel hsrc hnd hun hcomp hlen fs' hrun
  rw [heq.2.2.2 q]
  exact overlayAll_out fs.root dest.names q items fs.root hq

/-- (1') the entries of `dest` that are not source base names, with everything below them: as before (present or
absent, and identical) -/
theorem dest_other_entries_untouched (fs : Fs) (o : Opts) (texts : GiTexts) (dest : RPath) (items : List CopySrc) (fuel : Nat)
    (hd : o.cfg.dereference = false) (hn : o.cfg.noClobber = false) (hg : o.cfg.gitignore = false)
    (hnt : o.cfg.noTargetDir = false)
    (hrec : o.cfg.recursive = true) (hglob : o.glob = false)
    (hpaths : (o.targetDir = none ∧ o.paths = items.map (·.path) ++ [dest]) ∨
      (o.targetDir = some dest ∧ o.paths = items.map (·.path)))
    (hne : items ≠ [])
    (hwf : FsEq fs fs)
    (hdest : PlainTarget fs dest) (hdd : ∃ es, fs.root.getAt dest.names = some (.dir es))
    (hfuel : fuel < walkFuel)
    (hsrc : ∀ e ∈ items, PlainTarget fs e.path ∧ e.path.fileName = some e.base ∧
      fs.root.getAt e.path.names = some e.node ∧ e.node.Copyable fuel ∧ e.path.names.length + walkFuel < 256)
    (hnd : (items.map (·.base)).Nodup)
    (hun : ∀ e ∈ items, ∀ e' ∈ items,
      ¬ e.path.names <+: dest.names ++ [e'.base] ∧ ¬ dest.names ++ [e'.base] <+: e.path.names)
    (hcomp : ∀ e ∈ items, Compatible (fs.root.getAt (dest.names ++ [e.base])) e.node)
    (hlen : dest.names.length + 1 + walkFuel < 256)
    (fs' : Fs) (hrun : L1run fs o texts = ⟨.ok, fs'⟩)
    (m : Name) (hm : m ∉ items.map (·.base)) (q : List Name) :
    obsAt fs'.root (dest.names ++ m :: q) = obsAt fs.root (dest.names ++ m :: q) := by
  apply bystanders_untouched fs o texts dest items fuel hd hn hg hnt hrec hglob hpaths hne hwf hdest hdd hfuel hsrc hnd hun hcomp hlen fs' hrun
  intro e he hp
  have h2 : dest.names ++ [e.base] <+: dest.names ++ m :: q := hp
  rw [List.prefix_append_right_inj] at h2
  have := List.cons_prefix_cons.1 h2
  exact hm (List.mem_map.2 ⟨e, he, this.1⟩)

/-- (2) SOURCES: the whole subtree of every source, at every depth, is observed unchanged -/
theorem sources_untouched (fs : Fs) (o : Opts) (texts : GiTexts) (dest : RPath) (items : List CopySrc) (fuel : Nat)
    (hd : o.cfg.dereference = false) (hn : o.cfg.noClobber = false) (hg : o.cfg.gitignore = false)
    (hnt : o.cfg.noTargetDir = false)
    (hrec : o.cfg.recursive = true) (hglob : o.glob = false)
    (hpaths : (o.targetDir = none ∧ o.paths = items.map (·.path) ++ [dest]) ∨
      (o.targetDir = some dest ∧ o.paths = items.map (·.path)))
    (hne : items ≠ [])
    (hwf : FsEq fs fs)
    (hdest : PlainTarget fs dest) (hdd : ∃ es, fs.root.getAt dest.names = some (.dir es))
    (hfuel : fuel < walkFuel)
    (hsrc : ∀ e ∈ items, PlainTarget fs e.path ∧ e.path.fileName = some e.base ∧
      fs.root.getAt e.path.names = some e.node ∧ e.node.Copyable fuel ∧ e.path.names.length + walkFuel < 256)
    (hnd : (items.map (·.base)).Nodup)
    (hun : ∀ e ∈ items, ∀ e' ∈ items,
      ¬ e.path.names <+: dest.names ++ [e'.base] ∧ ¬ dest.names ++ [e'.base] <+: e.path.names)
    (hcomp : ∀ e ∈ items, Compatible (fs.root.getAt (dest.names ++ [e.base])) e.node)
    (hlen : dest.names.length + 1 + walkFuel < 256)
    (fs' : Fs) (hrun : L1run fs o texts = ⟨.ok, fs'⟩)
    (e : CopySrc) (he : e ∈ items) (q : List Name) :
    obsAt fs'.root (e.path.names ++ q) = obsAt fs.root (e.path.names ++ q) := by
  apply bystanders_untouched fs o texts dest items fuel hd hn hg hnt hrec hglob hpaths hne hwf hdest hdd hfuel hsrc hnd hun hcomp hlen fs' hrun
  intro e' he' hp
  have hu := hun e he e' he'
  exact not_both_prefix hu.1 hu.2 (List.prefix_append _ _) hp

/-- (3) ONLY THE TARGETS CHANGE: a place observed differently after the run is at or below some target `dest/bi`.
(A fortiori it is "at or below a target, or an ancestor of one"; the ancestors — `dest` and the directories above —
are in fact observed unchanged, since an observation of a directory does not include its entry names.) -/
theorem only_the_targets_change (fs : Fs) (o : Opts) (texts : GiTexts) (dest : RPath) (items : List CopySrc) (fuel : Nat)
    (hd : o.cfg.dereference = false) (hn : o.cfg.noClobber = false) (hg : o.cfg.gitignore = false)
    (hnt : o.cfg.noTargetDir = false)
    (hrec : o.cfg.recursive = true) (hglob : o.glob = false)
    (hpaths : (o.targetDir = none ∧ o.paths = items.map (·.path) ++ [dest]) ∨
      (o.targetDir = some dest ∧ o.paths = items.map (·.path)))
    (hne : items ≠ [])
    (hwf : FsEq fs fs)
    (hdest : PlainTarget fs dest) (hdd : ∃ es, fs.root.getAt dest.names = some (.dir es))
    (hfuel : fuel < walkFuel)
    (hsrc : ∀ e ∈ items, PlainTarget fs e.path ∧ e.path.fileName = some e.base ∧
      fs.root.getAt e.path.names = some e.node ∧ e.node.Copyable fuel ∧ e.path.names.length + walkFuel < 256)
    (hnd : (items.map (·.base)).Nodup)
    (hun : ∀ e ∈ items, ∀ e' ∈ items,
      ¬ e.path.names <+: dest.names ++ [e'.base] ∧ ¬ dest.names ++ [e'.base] <+: e.path.names)
    (hcomp : ∀ e ∈ items, Compatible (fs.root.getAt (dest.names ++ [e.base])) e.node)
    (hlen : dest.names.length + 1 + walkFuel < 256)
    (fs' : Fs) (hrun : L1run fs o texts = ⟨.ok, fs'⟩)
    (q : List Name) (hq : obsAt fs'.root q ≠ obsAt fs.root q) :
    ∃ e ∈ items, dest.names ++ [e.base] <+: q := by
  apply Classical.byContradiction
  intro hno
  apply hq
  apply bystanders_untouched fs o texts dest items fuel hd hn hg hnt hrec hglob hpaths hne hwf hdest hdd hfuel hsrc hnd hun hcomp hlen fs' hrun
  intro e he hp
  exact hno ⟨e, he, hp⟩

/-! ## One source (`mirror_overlay`) -/

/-- the frame of `mirror_overlay`: the run succeeds; every place not at or below the target base is observed
unchanged; in particular the whole source subtree -/
theorem mirror_overlay_frame (fs : Fs) (c : Cfg)
    (hd : c.dereference = false) (hn : c.noClobber = false)
    (src tb : RPath) (srcNode : Node) (fuel : Nat)
    (hwf : FsEq fs fs) (hroot : fs.root.isDir = true)
    (hsrc : PlainTarget fs src) (hsn : fs.root.getAt src.names = some srcNode)
    (hcop : srcNode.Copyable fuel)
    (htb : PlainTarget fs tb) (hne : tb.names ≠ [])
    (hcompat : Compatible (fs.root.getAt tb.names) srcNode)
    (hpar : ∃ es, fs.root.getAt tb.names.dropLast = some (.dir es))
    (hun1 : ¬ src.names <+: tb.names) (hun2 : ¬ tb.names <+: src.names)
    (hlen : src.names.length + fuel < 200 ∧ tb.names.length + fuel < 200)
    : ∃ fs', execOps fs c (walkEntry fs c none src tb (fuel + 1) [] []) = ⟨.ok, fs'⟩ ∧
      (∀ q, ¬ tb.names <+: q → obsAt fs'.root q = obsAt fs.root q) ∧
      (∀ q, obsAt fs'.root (src.names ++ q) = obsAt fs.root (src.names ++ q)) ∧
      (∀ q, obsAt fs'.root q ≠ obsAt fs.root q → tb.names <+: q) := by
  obtain ⟨fs', hrun, heq⟩ := mirror_overlay fs c hd hn src tb srcNode fuel hwf hroot hsrc hsn hcop htb hne hcompat
    hpar hun1 hun2 hlen
  have hout : ∀ q, ¬ tb.names <+: q → obsAt fs'.root q = obsAt fs.root q := by
    intro q hq
    rw [heq.2.2.2 q]
    exact setAt_out _ _ _ _ hq
  refine ⟨fs', hrun, hout, ?_, ?_⟩
  · intro q
    exact hout _ (fun hp => not_both_prefix hun1 hun2 (List.prefix_append _ _) hp)
  · intro q hq
    apply Classical.byContradiction
    intro hno
    exact hq (hout q hno)

end Xcp
